(* Tiny s-expression reader/printer and conversions between OCaml values and the
   extracted Coq inductives (nat, string, ascii).  Part of the trusted glue. *)
type sx = A of string | L of sx list

exception Bad of string
let bad fmt = Printf.ksprintf (fun s -> raise (Bad s)) fmt

let parse (s : string) : sx =
  let n = String.length s in
  let pos = ref 0 in
  let rec skip () = if !pos < n && (s.[!pos] = ' ' || s.[!pos] = '\n' || s.[!pos] = '\t') then (incr pos; skip ()) in
  let rec item () =
    skip ();
    if !pos >= n then bad "unexpected end";
    if s.[!pos] = '(' then begin
      incr pos;
      let acc = ref [] in
      let rec loop () =
        skip ();
        if !pos >= n then bad "missing )";
        if s.[!pos] = ')' then incr pos else (acc := item () :: !acc; loop ()) in
      loop (); L (List.rev !acc)
    end else begin
      let st = !pos in
      while !pos < n && s.[!pos] <> ' ' && s.[!pos] <> '(' && s.[!pos] <> ')' && s.[!pos] <> '\n' do incr pos done;
      A (String.sub s st (!pos - st))
    end in
  item ()

let rec print (b : Buffer.t) (x : sx) : unit =
  match x with
  | A s -> Buffer.add_string b s
  | L l -> Buffer.add_char b '(';
           List.iteri (fun i y -> if i > 0 then Buffer.add_char b ' '; print b y) l;
           Buffer.add_char b ')'
let to_string x = let b = Buffer.create 256 in print b x; Buffer.contents b

(* ---- nat ---- *)
let rec nat_of_int (n : int) : Model.nat = if n <= 0 then Model.O else Model.S (nat_of_int (n - 1))
let int_of_nat (n : Model.nat) : int =
  let rec go acc = function Model.O -> acc | Model.S m -> go (acc + 1) m in go 0 n

(* ---- ascii / string ---- *)
let ascii_of_char (c : char) : Model.ascii =
  let n = Char.code c in
  let b i = (n lsr i) land 1 = 1 in
  Model.Ascii (b 0, b 1, b 2, b 3, b 4, b 5, b 6, b 7)
let char_of_ascii (a : Model.ascii) : char =
  match a with
  | Model.Ascii (b0, b1, b2, b3, b4, b5, b6, b7) ->
    let v b i = if b then 1 lsl i else 0 in
    Char.chr (v b0 0 + v b1 1 + v b2 2 + v b3 3 + v b4 4 + v b5 5 + v b6 6 + v b7 7)
let cstring_of_string (s : string) : Model.string =
  let r = ref Model.EmptyString in
  for i = String.length s - 1 downto 0 do r := Model.String (ascii_of_char s.[i], !r) done; !r
let string_of_cstring (s : Model.string) : string =
  let b = Buffer.create 16 in
  let rec go = function Model.EmptyString -> () | Model.String (a, t) -> Buffer.add_char b (char_of_ascii a); go t in
  go s; Buffer.contents b

(* atoms: ints are decimal; strings are 'x' followed by hex bytes *)
let hexdig = "0123456789abcdef"
let enc_str (s : string) : sx =
  let b = Buffer.create (1 + 2 * String.length s) in
  Buffer.add_char b 'x';
  String.iter (fun c -> let n = Char.code c in Buffer.add_char b hexdig.[n lsr 4]; Buffer.add_char b hexdig.[n land 15]) s;
  A (Buffer.contents b)
let dec_str (x : sx) : string =
  match x with
  | A a when String.length a >= 1 && a.[0] = 'x' ->
    let m = (String.length a - 1) / 2 in
    let hv c = match c with '0'..'9' -> Char.code c - 48 | 'a'..'f' -> Char.code c - 87 | _ -> bad "hex" in
    String.init m (fun i -> Char.chr (hv a.[1 + 2 * i] * 16 + hv a.[2 + 2 * i]))
  | _ -> bad "expected string atom: %s" (to_string x)
let dec_int (x : sx) : int = match x with A a -> (try int_of_string a with _ -> bad "int: %s" a) | _ -> bad "expected int"
let dec_bool (x : sx) : bool = dec_int x <> 0
let dec_list f (x : sx) = match x with L l -> List.map f l | _ -> bad "expected list: %s" (to_string x)
let dec_cstr x = cstring_of_string (dec_str x)
let dec_nat x = nat_of_int (dec_int x)
let enc_cstr s = enc_str (string_of_cstring s)
let enc_nat n = A (string_of_int (int_of_nat n))
let enc_int n = A (string_of_int n)
let enc_bool b = A (if b then "1" else "0")
let enc_list f l = L (List.map f l)
