#!/bin/sh
# builds the extracted model + driver into /verif/ocaml/driver.exe
set -e
cd "$(dirname "$0")"
ocamlfind ocamlopt -O3 -w -a -o driver.exe model.mli model.ml sx.ml driver.ml 2>/dev/null || \
ocamlfind ocamlopt -w -a -o driver.exe model.mli model.ml sx.ml driver.ml
