(* Reads one case per line: (component id args...), evaluates the extracted model (and the
   extracted verified checkers on the implementation's output), prints (id result...). *)
open Sx
open Model

(* ---------- decoders: processor, program, diagram ---------- *)
let dec_unit x = match x with
  | L [n; w; caps; rl; wl; mem] ->
    { u_name = dec_cstr n; u_width = dec_nat w; u_caps = dec_list dec_cstr caps;
      u_rl = dec_bool rl; u_wl = dec_bool wl; u_mem = dec_list dec_cstr mem }
  | _ -> bad "unit: %s" (to_string x)
let dec_funit x = match x with
  | L [u; preds] -> { f_model = dec_unit u; f_preds = dec_list dec_cstr preds }
  | _ -> bad "funit"
let dec_proc x = match x with
  | L [ins; outs; inouts; ints] ->
    { p_in = dec_list dec_unit ins; p_out = dec_list dec_funit outs;
      p_inout = dec_list dec_unit inouts; p_int = dec_list dec_funit ints }
  | _ -> bad "proc"
let dec_instr x = match x with
  | L [srcs; dst; cat] -> { i_srcs = dec_list dec_cstr srcs; i_dst = dec_cstr dst; i_cat = dec_cstr cat }
  | _ -> bad "instr"
let dec_label x = match x with A "D" -> LD | A "S" -> LS | A "U" -> LU | _ -> bad "label"
let enc_label l = A (match l with LD -> "D" | LS -> "S" | LU -> "U")
let dec_entry x = match x with L [i; l] -> (dec_nat i, dec_label l) | _ -> bad "entry"
let enc_entry (i, l) = L [enc_nat i; enc_label l]
let dec_record x = dec_list (fun kv -> match kv with L [k; es] -> (dec_cstr k, dec_list dec_entry es) | _ -> bad "rec") x
let enc_record r = enc_list (fun (k, es) -> L [enc_cstr k; enc_list enc_entry es]) r
let enc_diag d = enc_list (fun r -> enc_record (canon_record r)) d

let enc_unit u = L [enc_cstr u.u_name; enc_nat u.u_width; enc_list enc_cstr u.u_caps;
                    enc_bool u.u_rl; enc_bool u.u_wl; enc_list enc_cstr u.u_mem]
let enc_funit f = L [enc_unit f.f_model; enc_list enc_cstr f.f_preds]
let enc_proc p = L [enc_list enc_unit p.p_in; enc_list enc_funit p.p_out;
                    enc_list enc_unit p.p_inout; enc_list enc_funit p.p_int]

let enc_pyerr e = A (match e with IndexError -> "IndexError" | KeyError -> "KeyError" | UnknownUnit -> "KeyError")
let enc_outcome o = match o with
  | Done d -> L [A "Done"; enc_diag d]
  | Stalled d -> L [A "Stalled"; enc_diag d]
  | Crash e -> L [A "Crash"; enc_pyerr e]
  | OutOfFuel -> L [A "OutOfFuel"]

(* ---------- handlers ---------- *)
let dec_outcome x : dtag * record list = match x with
  | L [A "Done"; d] -> (TDone, dec_list dec_record d)
  | L [A "Stalled"; d] -> (TStalled, dec_list dec_record d)
  | _ -> (TOther, [])
let chk name b = L [A name; enc_bool b]
let sim_checks p prog (tg, d) =
  L (A "chk" :: [
    chk "C01" (c01_order_checkb p prog d && c01_replay_checkb p prog tg d);
    chk "C02" (c02_checkb p prog d);
    chk "C03" (c03_checkb p prog tg d);
    chk "C04" (c04_checkb p d);
    chk "C05" (c05_checkb p prog d);
    chk "C06" (c06_checkb p prog d);
    chk "C07" (c07_checkb p prog d);
    chk "C08" (c08_checkb p prog tg d) ])
let h_sim args = match args with
  | p :: prog :: impl :: _ ->
    let p = dec_proc p and prog = dec_list dec_instr prog in
    [L [A "model"; enc_outcome (simulate_default p prog)];
     L [A "wf"; enc_bool (wf_domainb p && wf_progb prog)];
     L [A "sinkfirst"; enc_bool (wf_procb p)];
     sim_checks p prog (dec_outcome impl)]
  | _ -> bad "sim args"

(* ---------- further decoders / encoders ---------- *)
let z_of_int (n : int) : z = if n >= 0 then Z.of_nat (nat_of_int n) else Z.opp (Z.of_nat (nat_of_int (-n)))
let int_of_z (x : z) : int = match x with Z0 -> 0 | Zpos _ -> int_of_nat (Z.to_nat x) | Zneg _ -> - (int_of_nat (Z.to_nat (Z.opp x)))
let dec_udesc x = match x with
  | L [n; w; caps; rl; wl; mem] ->
    { d_name = dec_cstr n; d_width = z_of_int (dec_int w); d_caps = dec_list dec_cstr caps;
      d_rl = dec_bool rl; d_wl = dec_bool wl; d_mem = dec_list dec_cstr mem }
  | _ -> bad "udesc"
let dec_desc x = match x with
  | L [us; es] -> { d_units = dec_list dec_udesc us; d_edges = dec_list (dec_list dec_cstr) es }
  | _ -> bad "desc"
let enc_lk k = enc_str (match k with LkRead -> "read" | LkWrite -> "write")
let enc_load_err e = match e with
  | EDupUnit (o, n) -> L [A "DupElemError"; enc_cstr o; enc_cstr n]
  | EBadWidth (u, w) -> L [A "BadWidthError"; enc_cstr u; enc_int (int_of_z w)]
  | EBadEdge e -> L [A "BadEdgeError"; enc_list enc_cstr e]
  | EUndefUnit n -> L [A "UndefElemError"; enc_cstr n]
  | ECycle -> L [A "NetworkXUnfeasible"]
  | EDeadInput ps -> L [A "DeadInputError"; enc_list enc_cstr ps]
  | EEmptyProc -> L [A "EmptyProcError"]
  | EPathLock (k, st, lk, cap) ->
    L [A "PathLockError"; enc_cstr st; enc_lk lk; enc_cstr cap;
       A (match k with PlDifferent -> "different" | PlMultiple -> "multiple" | PlNone -> "none")]
  | EBlockedCap (cap, port) -> L [A "BlockedCapError"; enc_cstr cap; enc_cstr port]
  | EAclAssert -> L [A "AssertionError"]
let enc_load_res r = match r with
  | LoadOk p -> L [A "ok"; enc_proc p]
  | LoadErr e -> L [A "err"; enc_load_err e]
(* the implementation's result, as sent by the harness *)
let dec_lk x = match dec_str x with "read" -> LkRead | "write" -> LkWrite | s -> bad "lock kind %s" s
let dec_impl_load x : (proc, load_err option) Either.t = match x with
  | L [A "ok"; p] -> Either.Left (dec_proc p)
  | L [A "err"; L (A cls :: f)] ->
    Either.Right (match cls, f with
      | "DupElemError", [o; n] -> Some (EDupUnit (dec_cstr o, dec_cstr n))
      | "BadWidthError", [u; w] -> Some (EBadWidth (dec_cstr u, z_of_int (dec_int w)))
      | "BadEdgeError", [e] -> Some (EBadEdge (dec_list dec_cstr e))
      | "UndefElemError", [n] -> Some (EUndefUnit (dec_cstr n))
      | "NetworkXUnfeasible", [] -> Some ECycle
      | "DeadInputError", [p] -> Some (EDeadInput [dec_cstr p])
      | "EmptyProcError", [] -> Some EEmptyProc
      | "PathLockError", [st; lk; cap] -> Some (EPathLock (PlNone, dec_cstr st, dec_lk lk, dec_cstr cap))
      | "BlockedCapError", [cap; port] -> Some (EBlockedCap (dec_cstr cap, dec_cstr port))
      | "AssertionError", [] -> Some EAclAssert
      | _ -> None)
  | _ -> bad "impl load result: %s" (to_string x)

(* the documented messages for an error as the implementation reported it (class + fields); the fields of a
   PathLockError do not tell which of the three raising sites it came from: all three are offered *)
let msgs_of_impl_err e = match e with
  | EPathLock (_, st, lk, cap) ->
    List.concat_map (fun k -> load_err_msgs (EPathLock (k, st, lk, cap))) [PlNone; PlMultiple; PlDifferent]
  | e -> load_err_msgs e
let h_loader args = match args with
  | d :: impl :: _ ->
    let d = dec_desc d in
    let model = load_proc_desc d in
    let imsgs = match dec_impl_load impl with
      | Either.Right (Some e) -> msgs_of_impl_err e
      | _ -> [] in
    let mmsgs = match model with LoadErr e -> load_err_msgs e | _ -> [] in
    let checks = match dec_impl_load impl with
      | Either.Left p ->
        [chk "C09" (c09_checkb p); chk "C10" (c10_judgeb d p); chk "C11" (c11_accept_judgeb d p);   (* judges: props/Exact5.v, Exact6.v *)
         chk "C12" (c12_listing_checkb p && c12_classify_checkb p)]       (* the property-exact judges (props/Exact5.v) *)
      | Either.Right (Some e) -> [chk "C11" (c11_error_okw d e)]
      | Either.Right None -> [chk "C11" false] in
    [L [A "model"; enc_load_res model]; L (A "chk" :: checks);
     L [A "msgs"; enc_list enc_cstr imsgs]; L [A "mmsgs"; enc_list enc_cstr mmsgs]]
  | _ -> bad "loader args"

(* parts in the supplied order: (ins outs inouts ints) *)
let h_mkproc args = match args with
  | parts :: impl :: _ ->
    let p = dec_proc parts in
    let model = make_desc p.p_in p.p_out p.p_inout p.p_int in
    let checks = match impl with
      | L [A "ok"; ip] -> [chk "C12" (c12_parts_listing_checkb p.p_in p.p_out p.p_inout p.p_int (dec_proc ip))]
      | _ -> [] in
    [L [A "model"; (match model with Some q -> L [A "ok"; enc_proc q] | None -> L [A "err"; L [A "NetworkXUnfeasible"]])];
     L (A "chk" :: checks)]
  | _ -> bad "mkproc args"

let h_icase args = match args with
  | a :: b :: _ ->
    let a = dec_cstr a and b = dec_cstr b in
    [L [A "model"; L [enc_bool (ic_eqb a b); enc_bool (ic_ltb a b);
                      enc_bool (ic_eqb a b) (* equal keys hash equally *);
                      enc_bool (ic_contains a b); enc_cstr (ic_str a);
                      enc_cstr (lower a); enc_cstr (upper a)]]]
  | _ -> bad "icase args"

let h_bag args = match args with
  | a :: b :: _ ->
    let a = dec_record a and b = dec_record b in
    [L [A "model"; L [enc_bool (bag_eqb a b); enc_nat (bag_len a); enc_cstr (bag_repr a)]]]
  | _ -> bad "bag args"

(* regq: requests ((ty owner)...) and operations ((can ty o) | (deq o))...; queue states front first *)
let dec_aty x = match x with A "R" -> RD | A "W" -> WR | _ -> bad "aty"
let enc_aty t = A (match t with RD -> "R" | WR -> "W")
let enc_queue q = enc_list (fun g -> L [enc_aty g.g_ty; enc_list enc_int (List.sort compare (List.map int_of_nat g.g_reqs))]) q
let h_regq args = match args with
  | rs :: ops :: rest ->
    let rs = dec_list (fun r -> match r with L [t; o] -> (dec_aty t, dec_nat o) | _ -> bad "req") rs in
    let ops = dec_list (fun x -> x) ops in
    let q0 = build_queue rs in
    (* the model, run along the operations *)
    let q = ref q0 and dead = ref false in
    let outs = List.map (fun op ->
        if !dead then A "skipped" else
        match op with
        | L [A "can"; t; o] ->
          (match can_access !q (dec_aty t) (dec_nat o) with Ok b -> enc_bool b | Err _ -> A "IndexError")
        | L [A "deq"; o] ->
          (match dequeue !q (dec_nat o) with
           | Ok q' -> q := q'; A "ok"
           | Err e -> dead := true; enc_pyerr (match e with UnknownUnit -> KeyError | x -> x))
        | _ -> bad "op") ops in
    (* the abstract reading of C19 (spec/QueueSpec.v), judged against the IMPLEMENTATION's answers *)
    let spec_ok = ref true in
    (match rest with
     | L [iq0; L iouts; iqf] :: _ ->
       let a = ref (Some (a_init rs)) in
       (* the queue contents are a private attribute of the implementation: "unavailable" when it is gone *)
       if iq0 <> A "unavailable" && iq0 <> enc_queue (abs_queue (a_init rs)) then spec_ok := false;
       (try
          List.iter2 (fun op io ->
              match !a, op with
              | None, _ -> ()
              | Some st, L [A "can"; t; o] ->
                let expect = if a_empty st then A "IndexError" else enc_bool (a_can_access st (dec_aty t) (dec_nat o)) in
                if io <> expect then spec_ok := false
              | Some st, L [A "deq"; o] ->
                let o = dec_nat o in
                let servable = (not (a_empty st)) && (a_can_access st RD o || a_can_access st WR o) in
                (match a_dequeue st o, io with
                 | Some st', A "ok" -> a := Some st'
                 | None, A "ok" -> spec_ok := false; a := None
                 | Some _, _ -> if servable then spec_ok := false; a := None      (* a permitted removal failed *)
                 | None, _ -> a := None)
              | _ -> ()) ops iouts
        with Invalid_argument _ -> spec_ok := false);
       (match !a with Some st -> if iqf <> A "unavailable" && iqf <> enc_queue (abs_queue st) then spec_ok := false | None -> ())
     | _ -> ());
    [L [A "model"; L [enc_queue q0; L outs; enc_queue !q]];
     L [A "chk"; chk "C19" !spec_ok]]
  | _ -> bad "regq args"

let enc_pinstr pi = L [enc_list enc_cstr pi.pi_srcs; enc_cstr pi.pi_dst; enc_cstr pi.pi_name; enc_nat pi.pi_line]
let dec_pinstr x = match x with
  | L [s; d; n; l] -> { pi_srcs = dec_list dec_cstr s; pi_dst = dec_cstr d; pi_name = dec_cstr n; pi_line = dec_nat l }
  | _ -> bad "pinstr"
let enc_prog_res r = match r with
  | ProgOk p -> L [A "ok"; enc_list enc_pinstr p]
  | ProgErr (NoOperands (line, ins)) -> L [A "err"; L [A "CodeError"; enc_nat line; enc_cstr ins; A "none"; enc_cstr (code_err_msg (NoOperands (line, ins)))]]
  | ProgErr (EmptyOperand (k, line, ins)) -> L [A "err"; L [A "CodeError"; enc_nat line; enc_cstr ins; enc_nat k; enc_cstr (code_err_msg (EmptyOperand (k, line, ins)))]]
let h_parse args = match args with
  | lines :: _ -> [L [A "model"; enc_prog_res (read_program (dec_list dec_cstr lines))]]
  | _ -> bad "parse args"

let enc_instr i = L [enc_list enc_cstr i.i_srcs; enc_cstr i.i_dst; enc_cstr i.i_cat]
let enc_isa_res r = match r with
  | IsaOk m -> L [A "ok"; enc_list (fun (k, v) -> L [enc_cstr k; enc_cstr v]) m]
  | IsaErr (IsaDup (o, n)) -> L [A "err"; L [A "DupElemError"; enc_cstr o; enc_cstr n]; enc_cstr (isa_err_msg (IsaDup (o, n)))]
  | IsaErr (IsaUndefCap c) -> L [A "err"; L [A "UndefElemError"; enc_cstr c]; enc_cstr (isa_err_msg (IsaUndefCap c))]
let enc_comp_res r = match r with
  | CompOk p -> L [A "ok"; enc_list enc_instr p]
  | CompUndef (n, l) -> L [A "err"; L [A "UndefElemError"; enc_cstr n; enc_nat l]; enc_cstr (comp_err_msg n l)]
(* isa: table ((instr cap)...), capabilities (...), program to compile *)
let h_isa args = match args with
  | spec :: caps :: prog :: _ ->
    let spec = dec_list (fun x -> match x with L [i; c] -> (dec_cstr i, dec_cstr c) | _ -> bad "isa entry") spec in
    let r = load_isa spec (dec_list dec_cstr caps) in
    let comp = match r with
      | IsaOk m -> enc_comp_res (compile_program (dec_list dec_pinstr prog) m)
      | IsaErr _ -> A "none" in
    [L [A "model"; L [enc_isa_res r; comp]]]
  | _ -> bad "isa args"
let h_abilities args = match args with
  | p :: _ -> [L [A "model"; enc_list enc_cstr (get_abilities (dec_proc p))]]
  | _ -> bad "abilities args"

(* cli: the table text for a diagram of n instructions *)
let h_table args = match args with
  | d :: n :: _ ->
    let d = dec_list dec_record d in
    [L [A "model"; (match sim_rows d (dec_nat n) with
        | Some rows -> L [A "ok"; enc_cstr (print_table rows)]
        | None -> L [A "err"])]]
  | _ -> bad "table args"

(* pipeline: description, ISA table, program lines -> printed table, through every model stage *)
let h_pipeline args = match args with
  | d :: spec :: lines :: rest ->
    let d = dec_desc d in
    let spec = dec_list (fun x -> match x with L [i; c] -> (dec_cstr i, dec_cstr c) | _ -> bad "isa entry") spec in
    let res =
      match load_proc_desc d with
      | LoadErr e -> L [A "err"; enc_load_err e]
      | LoadOk p ->
        (match load_isa spec (get_abilities p) with
         | IsaErr _ as r -> enc_isa_res r
         | IsaOk isa ->
           (match read_program (dec_list dec_cstr lines) with
            | ProgErr _ as r -> enc_prog_res r
            | ProgOk prog ->
              (match compile_program prog isa with
               | CompUndef _ as r -> enc_comp_res r
               | CompOk hw ->
                 (match simulate_default p hw with
                  | Done dg ->
                    (match sim_rows dg (nat_of_int (List.length hw)) with
                     | Some rows ->
                       L ([A "ok"; enc_cstr (print_table rows); enc_proc p; enc_list enc_instr hw; enc_diag dg]
                          @ (match rest with
                             | parsed :: _ -> [enc_bool (wf_domainb p); sim_checks p hw (dec_outcome parsed)]
                             | [] -> []))
                     | None -> L [A "err"; L [A "RowError"]])
                  | o -> L [A "err"; enc_outcome o])))) in
    [L [A "model"; res]]
  | _ -> bad "pipeline args"

(* hw_loading.read_processor: description + ISA table -> processor + instruction set *)
let h_hwload args = match args with
  | d :: spec :: _ ->
    let d = dec_desc d in
    let spec = dec_list (fun x -> match x with L [i; c] -> (dec_cstr i, dec_cstr c) | _ -> bad "isa entry") spec in
    let res = match load_proc_desc d with
      | LoadErr e -> L [A "err"; enc_load_err e]
      | LoadOk p ->
        (match load_isa spec (get_abilities p) with
         | IsaErr _ as r -> enc_isa_res r
         | IsaOk isa -> L [A "ok"; enc_proc p; enc_list (fun (k, v) -> L [enc_cstr k; enc_cstr v]) isa]) in
    [L [A "model"; res]]
  | _ -> bad "hwload args"


(* flow: units ((name width (caps...))...), edges ((u v)...), capability, out ports, in ports of the capability.
   Returns the analysis graph after _aug_out_ports / split_nodes / _dist_edge_caps (node order with widths,
   adjacency in order, capacities), the sink, the per-port outcome of the flow query, and the verdict of
   the abstract Loader.chk_flow on the same arguments. *)
let enc_flow_res r = A (match r with FlowError -> "error" | FlowUnbounded -> "unbounded" | FlowZero -> "zero" | FlowPositive -> "positive")
let h_flow args = match args with
  | units :: es :: cap :: outs :: ins :: _ ->
    let us = dec_list (fun x -> match x with
        | L [n; w; caps] -> (dec_cstr n, { a_width = dec_nat w; a_caps = dec_list dec_cstr caps; a_rl = false; a_wl = false; a_mem = [] })
        | _ -> bad "flow unit") units in
    let es = dec_list (fun x -> match x with L [u; v] -> (dec_cstr u, dec_cstr v) | _ -> bad "flow edge") es in
    let g0 = List.fold_left (fun g (n, _) -> add_node g n) g_empty us in
    let g = List.fold_left (fun g (u, v) -> add_edge g u v) g0 es in
    let cap = dec_cstr cap and outs = dec_list dec_cstr outs and ins = dec_list dec_cstr ins in
    let ((a, _), t) = flow_setup g us cap outs in
    let nodes = enc_list (fun n -> L [enc_cstr n; enc_nat (assoc O a.ag_w n); enc_list enc_cstr (succs a.ag n)]) a.ag.g_nodes in
    let caps = enc_list (fun (u, (v, c)) -> L [enc_cstr u; enc_cstr v; enc_nat c]) a.ag_cap in
    let flows = enc_list (fun (p, r) -> L [enc_cstr p; enc_flow_res r]) (port_flows g us cap outs ins) in
    let abs_ = match chk_flow g us cap outs ins with
      | None -> A "ok" | Some (EBlockedCap (c, p)) -> L [A "blocked"; enc_cstr c; enc_cstr p] | Some _ -> A "other" in
    let det = match chk_flow_detailed g us cap outs ins with
      | FlowOk -> A "ok" | FlowBlocked (c, p) -> L [A "blocked"; enc_cstr c; enc_cstr p]
      | FlowCrash (p, r) -> L [A "crash"; enc_cstr p; enc_flow_res r] in
    [L [A "model"; L [nodes; caps; enc_cstr t; flows; abs_; det]]]
  | _ -> bad "flow args"

let handlers : (Stdlib.String.t * (sx list -> sx list)) list = [
  ("hwload", h_hwload); ("flow", h_flow);
  ("sim", h_sim); ("loader", h_loader); ("mkproc", h_mkproc); ("icase", h_icase); ("bag", h_bag);
  ("regq", h_regq); ("parse", h_parse); ("isa", h_isa); ("abilities", h_abilities);
  ("table", h_table); ("pipeline", h_pipeline);
]

let () =
  let ic = if Array.length Sys.argv > 1 then open_in Sys.argv.(1) else stdin in
  let out = Buffer.create 65536 in
  (try
     while true do
       let line = input_line ic in
       if String.length line > 0 then begin
         let res =
           try
             match parse line with
             | L (A comp :: id :: args) ->
               (match List.assoc_opt comp handlers with
                | Some h -> L (id :: h args)
                | None -> L [id; L [A "error"; enc_str ("unknown component " ^ comp)]])
             | _ -> L [A "?"; L [A "error"; enc_str "malformed case"]]
           with
           | Bad m -> L [A "?"; L [A "error"; enc_str m]]
           | Stack_overflow -> L [A "?"; L [A "error"; enc_str "stack overflow"]]
         in
         print out res; Buffer.add_char out '\n';
         if Buffer.length out > 60000 then (print_string (Buffer.contents out); Buffer.clear out)
       end
     done
   with End_of_file -> ());
  print_string (Buffer.contents out)
