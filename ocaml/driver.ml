(* Reads one case per line: (component id args...), evaluates the extracted model (and the
   extracted verified checkers on the implementation's output), prints (id result...). *)
open Sx
open Model

(* ---------- decoders: processor, program, diagram ---------- *)
let dec_unit x = match x with
  | L [n; w; caps; rl; wl; mem] ->
    { u_name = dec_cstr n; u_width = dec_nat w; u_caps = dec_list dec_cstr caps;
      u_rl = dec_bool rl; u_wl = dec_bool wl; u_mem = dec_list dec_cstr mem }
  | _ -> bad "unit: %s" (to_string x)
let dec_funit x = match x with
  | L [u; preds] -> { f_model = dec_unit u; f_preds = dec_list dec_cstr preds }
  | _ -> bad "funit"
let dec_proc x = match x with
  | L [ins; outs; inouts; ints] ->
    { p_in = dec_list dec_unit ins; p_out = dec_list dec_funit outs;
      p_inout = dec_list dec_unit inouts; p_int = dec_list dec_funit ints }
  | _ -> bad "proc"
let dec_instr x = match x with
  | L [srcs; dst; cat] -> { i_srcs = dec_list dec_cstr srcs; i_dst = dec_cstr dst; i_cat = dec_cstr cat }
  | _ -> bad "instr"
let dec_label x = match x with A "D" -> LD | A "S" -> LS | A "U" -> LU | _ -> bad "label"
let enc_label l = A (match l with LD -> "D" | LS -> "S" | LU -> "U")
let dec_entry x = match x with L [i; l] -> (dec_nat i, dec_label l) | _ -> bad "entry"
let enc_entry (i, l) = L [enc_nat i; enc_label l]
let dec_record x = dec_list (fun kv -> match kv with L [k; es] -> (dec_cstr k, dec_list dec_entry es) | _ -> bad "rec") x
let enc_record r = enc_list (fun (k, es) -> L [enc_cstr k; enc_list enc_entry es]) r
let enc_diag d = enc_list (fun r -> enc_record (canon_record r)) d

let enc_unit u = L [enc_cstr u.u_name; enc_nat u.u_width; enc_list enc_cstr u.u_caps;
                    enc_bool u.u_rl; enc_bool u.u_wl; enc_list enc_cstr u.u_mem]
let enc_funit f = L [enc_unit f.f_model; enc_list enc_cstr f.f_preds]
let enc_proc p = L [enc_list enc_unit p.p_in; enc_list enc_funit p.p_out;
                    enc_list enc_unit p.p_inout; enc_list enc_funit p.p_int]

let enc_pyerr e = A (match e with IndexError -> "IndexError" | KeyError -> "KeyError" | UnknownUnit -> "KeyError")
let enc_outcome o = match o with
  | Done d -> L [A "Done"; enc_diag d]
  | Stalled d -> L [A "Stalled"; enc_diag d]
  | Crash e -> L [A "Crash"; enc_pyerr e]
  | OutOfFuel -> L [A "OutOfFuel"]

(* ---------- handlers ---------- *)
let dec_outcome x : dtag * record list = match x with
  | L [A "Done"; d] -> (TDone, dec_list dec_record d)
  | L [A "Stalled"; d] -> (TStalled, dec_list dec_record d)
  | _ -> (TOther, [])
let chk name b = L [A name; enc_bool b]
let sim_checks p prog (tg, d) =
  L (A "chk" :: [
    chk "C01" (c01_order_checkb p prog d && c01_replay_checkb p prog tg d);
    chk "C02" (c02_checkb p prog d);
    chk "C03" (c03_checkb p prog tg d);
    chk "C04" (c04_checkb p d);
    chk "C05" (c05_checkb p prog d);
    chk "C06" (c06_checkb p prog d);
    chk "C07" (c07_checkb p prog d);
    chk "C08" (c08_checkb p prog tg d) ])
let h_sim args = match args with
  | p :: prog :: impl :: _ ->
    let p = dec_proc p and prog = dec_list dec_instr prog in
    [L [A "model"; enc_outcome (simulate_default p prog)];
     L [A "wf"; enc_bool (wf_procb p)];
     sim_checks p prog (dec_outcome impl)]
  | _ -> bad "sim args"

let handlers : (Stdlib.String.t * (sx list -> sx list)) list = [
  ("sim", h_sim);
]

let () =
  let ic = if Array.length Sys.argv > 1 then open_in Sys.argv.(1) else stdin in
  let out = Buffer.create 65536 in
  (try
     while true do
       let line = input_line ic in
       if String.length line > 0 then begin
         let res =
           try
             match parse line with
             | L (A comp :: id :: args) ->
               (match List.assoc_opt comp handlers with
                | Some h -> L (id :: h args)
                | None -> L [id; L [A "error"; enc_str ("unknown component " ^ comp)]])
             | _ -> L [A "?"; L [A "error"; enc_str "malformed case"]]
           with
           | Bad m -> L [A "?"; L [A "error"; enc_str m]]
           | Stack_overflow -> L [A "?"; L [A "error"; enc_str "stack overflow"]]
         in
         print out res; Buffer.add_char out '\n';
         if Buffer.length out > 60000 then (print_string (Buffer.contents out); Buffer.clear out)
       end
     done
   with End_of_file -> ());
  print_string (Buffer.contents out)
