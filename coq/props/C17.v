(* C17 -- Cycle records compare as multisets per unit (model/Bag.v: bag_eqb is BagValDict.__eq__
   transliterated, bag_len is __len__, bag_repr is __repr__).  Records are dicts: keys are unique. *)
From Coq Require Import Permutation.
From PS Require Import Base Bag C17_proof.

Theorem C17_eq_iff :
  forall a b : record, NoDup (map fst a) -> NoDup (map fst b) ->
    (bag_eqb a b = true <-> forall k, Permutation (get a k) (get b k)).
Proof. exact C17_eq_iff_lemma. Qed.
Print Assumptions C17_eq_iff.

(* length counts exactly the units with at least one entry; empty units are invisible *)
Theorem C17_len :
  forall a : record, NoDup (map fst a) ->
    bag_len a = length (filter (fun k => match get a k with [] => false | _ => true end) (map fst a)).
Proof. exact C17_len_lemma. Qed.
Print Assumptions C17_len.

Theorem C17_len_eq :
  forall a b : record, NoDup (map fst a) -> NoDup (map fst b) -> bag_eqb a b = true -> bag_len a = bag_len b.
Proof. exact C17_len_eq_lemma. Qed.
Print Assumptions C17_len_eq.

Theorem C17_repr :
  forall a b : record, NoDup (map fst a) -> NoDup (map fst b) -> bag_eqb a b = true -> bag_repr a = bag_repr b.
Proof. exact C17_repr_lemma. Qed.
Print Assumptions C17_repr.

(* insertion order and empty units are irrelevant: equality is an equivalence relation *)
Theorem C17_equivalence :
  (forall a, NoDup (map fst a) -> bag_eqb a a = true) /\
  (forall a b, NoDup (map fst a) -> NoDup (map fst b) -> bag_eqb a b = true -> bag_eqb b a = true) /\
  (forall a b c, NoDup (map fst a) -> NoDup (map fst b) -> NoDup (map fst c) ->
                 bag_eqb a b = true -> bag_eqb b c = true -> bag_eqb a c = true).
Proof. exact C17_equivalence_lemma. Qed.
Print Assumptions C17_equivalence.
