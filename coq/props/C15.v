(* C15 -- Instruction sets load and programs compile faithfully (model/Isa.v). *)
From PS Require Import Base Str Sim Program Isa C15_proof C15_upperkey.

(* accepted: exactly one upper-cased entry per declared instruction, in table order, mapped to the
   registry's spelling of its capability *)
Theorem C15_isa_ok :
  forall spec caps m, load_isa spec caps = IsaOk m ->
    map fst m = map (fun e => upper (fst e)) spec /\
    Forall2 (fun e kv => ic_find (snd e) (cap_registry caps) = Some (snd kv)) spec m /\
    NoDup (map fst m).
Proof. exact C15_isa_ok_lemma. Qed.
Print Assumptions C15_isa_ok.

(* rejected iff two mnemonics collide ignoring case or a capability is not offered; the error reported
   is the first defect in table order: a collision is reported as (first spelling, new spelling), an unknown
   capability by its spelling in the table *)
Theorem C15_isa_reject :
  forall spec caps,
    (exists e, load_isa spec caps = IsaErr e) <->
    (~ NoDup (map (fun e => lower (fst e)) spec) \/
     exists e, In e spec /\ ic_find (snd e) (cap_registry caps) = None).
Proof. exact C15_isa_reject_lemma. Qed.
Print Assumptions C15_isa_reject.

Theorem C15_isa_first_defect :
  forall spec caps e, load_isa spec caps = IsaErr e ->
    exists pre ins cap post, spec = pre ++ (ins, cap) :: post /\
      (exists m, load_isa pre caps = IsaOk m) /\
      match e with
      | IsaDup old new => new = ins /\ ic_find ins (map fst pre) = Some old
      | IsaUndefCap c => c = cap /\ ic_find ins (map fst pre) = None /\ ic_find cap (cap_registry caps) = None
      end.
Proof. exact C15_isa_first_defect_lemma. Qed.
Print Assumptions C15_isa_first_defect.

(* the offered capabilities: the union of the input and in-out ports' capability lists *)
Theorem C15_abilities :
  forall P c,
    (In c (get_abilities P) -> exists u, In u (p_inout P ++ p_in P) /\ In c (u_caps u)) /\
    (forall u, In u (p_inout P ++ p_in P) -> In c (u_caps u) -> exists c', In c' (get_abilities P) /\ ic_eqb c' c = true).
Proof. exact C15_abilities_lemma. Qed.
Print Assumptions C15_abilities.

(* compilation preserves order, length and operands, replaces each mnemonic by its capability ... *)
Theorem C15_compile_ok :
  forall prog isa hw, compile_program prog isa = CompOk hw ->
    Forall2 (fun pi hi => i_srcs hi = pi_srcs pi /\ i_dst hi = pi_dst pi /\
                          assoc_opt isa (upper (pi_name pi)) = Some (i_cat hi)) prog hw.
Proof. exact C15_compile_ok_lemma. Qed.
Print Assumptions C15_compile_ok.

(* ... and fails exactly on the first unsupported mnemonic, reporting its name and line *)
Theorem C15_compile_fail :
  forall prog isa name line,
    compile_program prog isa = CompUndef name line <->
    exists pre pi post, prog = pre ++ pi :: post /\ pi_name pi = name /\ pi_line pi = line /\
      assoc_opt isa (upper name) = None /\
      Forall (fun q => assoc_opt isa (upper (pi_name q)) <> None) pre.
Proof. exact C15_compile_fail_lemma. Qed.
Print Assumptions C15_compile_fail.

(* the messages of the rejections name their culprits (model/Errors.v) *)
From PS Require Import Errors C11_msg.
Theorem C15_isa_message :
  forall e f, In f (isa_err_fields e) -> substrb f (isa_err_msg e) = true.
Proof. exact C15_isa_message_lemma. Qed.
Print Assumptions C15_isa_message.

Theorem C15_compile_message :
  forall name line, substrb name (comp_err_msg name line) = true /\
                    substrb (nat_to_str line) (comp_err_msg name line) = true.
Proof. exact C15_compile_message_lemma. Qed.
Print Assumptions C15_compile_message.

(* The repaired code (/repo 8da1782, defect D4) detects duplicate mnemonics on the UPPER-cased form, the key the
   instruction set is stored under; the model detects them on the lower-cased form.  On the model's characters the
   two tests coincide: the transliteration of the repaired _create_isa computes exactly Isa.create_isa, so every
   theorem above is also a theorem about the repaired code's algorithm. *)
Theorem C15_isa_upper_key_detection :
  forall spec caps instrs, create_isa_upperkey spec caps instrs = create_isa spec caps instrs.
Proof. exact create_isa_upperkey_eq_lemma. Qed.
Print Assumptions C15_isa_upper_key_detection.
