(* C12 -- Processor objects list units sink-first and classify ports by connectivity.
   make_desc (model/Loader.v) is ProcessorDesc(in_ports, out_ports, in_out_ports, internal_units) with its
   converters; C12_parts_checkb / C12_order_checkb / C12_classify_checkb are in spec/LoaderSpec.v. *)
From PS Require Import Base Str Sim Graph Loader Diag LoaderSpec C12_proof.

(* built from parts supplied in any order (distinct unit names): same parts, internal units re-ordered so
   that each comes before all of its predecessors, outputs in name order, predecessor lists in name order *)
Theorem C12_post_order :
  forall ins outs inouts ints P,
    NoDup (map (fun f => u_name (f_model f)) ints) ->
    make_desc ins outs inouts ints = Some P ->
    C12_parts_checkb ins outs inouts ints P = true.
Proof. exact C12_post_order_lemma. Qed.
Print Assumptions C12_post_order.

(* the result does not depend on the order in which the parts were supplied *)
Theorem C12_supply_order_irrelevant :
  forall ins outs inouts ints outs' ints' P,
    NoDup (map (fun f => u_name (f_model f)) ints) ->
    NoDup (map (fun f => u_name (f_model f)) outs) ->
    Permutation.Permutation outs outs' -> Permutation.Permutation ints ints' ->
    make_desc ins outs inouts ints = Some P ->
    exists P', make_desc ins outs' inouts ints' = Some P' /\
               p_in P' = p_in P /\ p_out P' = p_out P /\ p_inout P' = p_inout P /\
               Permutation.Permutation (p_int P') (p_int P) /\ sink_first (p_int P') [] = true.
Proof. exact C12_supply_order_irrelevant_lemma. Qed.
Print Assumptions C12_supply_order_irrelevant.

(* a cyclic supply of internal units is refused (NetworkXUnfeasible), an acyclic one never is *)
Theorem C12_cyclic_iff :
  forall ins outs inouts ints,
    NoDup (map (fun f => u_name (f_model f)) ints) ->
    (make_desc ins outs inouts ints = None <->
     exists f path, In f ints /\ path <> [] /\
       (* a cycle through internal units along predecessor links *)
       hd_error path = Some (u_name (f_model f)) /\ last path EmptyString = u_name (f_model f) /\ 2 <= length path /\
       forall k a b, nth_error path k = Some a -> nth_error path (S k) = Some b ->
                     exists g, In g ints /\ u_name (f_model g) = a /\ In b (f_preds g) /\
                               In b (map (fun f => u_name (f_model f)) ints)).
Proof. exact C12_cyclic_iff_lemma. Qed.
Print Assumptions C12_cyclic_iff.

(* a loaded processor: listing orders, and every unit classified by its connectivity *)
Theorem C12_loaded :
  forall d P, load_proc_desc d = LoadOk P ->
    C12_order_checkb P = true /\ C12_classify_checkb P = true.
Proof. exact C12_loaded_lemma. Qed.
Print Assumptions C12_loaded.
