(* Readings -- Prop-level readings of the boolean statements used by C02 and C03 and of the guard
   wf_procb (not further properties: the same theorems, spelled out with quantifiers so that the boolean
   checkers cannot hide a weak statement). *)
From PS Require Import Base Bag RegAccess Sim Diag Readings_defs Readings_proof.

(* `performs`, `performed_before`, `outstanding`, `croute`, `maximal` are defined in proofs/Readings_defs.v
   (definitions only): i performs its access of kind k in cycle t when it is shown 'U' in a unit holding that
   lock; `outstanding` = some OLDER instruction has an outstanding conflicting access on a register unit u
   locks for i; `croute P c l` = l is a path of units supporting c along declared connections, maximal when
   its last unit has no supporting successor. *)

Theorem C02_reading :
  forall (P : proc) (prog : list instr) (fuel : nat) (tg : dtag) (d : diagram),
    wf_procb P = true -> wf_progb prog = true -> sim_result fuel P prog tg d ->
    forall t u i l, t < length d -> In (i, l) (occ d t u) ->
      (* it stayed after its 'U': structural stall *)
      ((exists l0, In (i, l0) (prev_occ d t u) /\ l0 <> LD) -> l = LS) /\
      (* it arrives, or was waiting with 'D': data-stalled exactly when something older is outstanding *)
      (~ (exists l0, In (i, l0) (prev_occ d t u) /\ l0 <> LD) ->
       (l = LD /\ outstanding P prog d t i u) \/ (l = LU /\ ~ outstanding P prog d t i u)).
Proof. exact C02_reading_lemma. Qed.
Print Assumptions C02_reading.

(* the route of an instruction of a completed run *)
Theorem C03_reading :
  forall (P : proc) (prog : list instr) (fuel : nat) (d : diagram),
    wf_procb P = true -> simulate fuel P prog = Done d ->
    forall i, i < length prog ->
    exists (a : nat) (route : list (string * label)),
      route <> [] /\
      (* exactly one unit per cycle over the contiguous span a .. a + length route - 1, none outside *)
      (forall t u l, In (i, l) (occ d t u) <-> (a <= t /\ nth_error route (t - a) = Some (u, l))) /\
      (* starts in an input port *)
      (exists u0 l0, hd_error route = Some (u0, l0) /\ In u0 (in_names P) /\ l0 <> LS) /\
      (* every unit supports its capability *)
      (forall k u l, nth_error route k = Some (u, l) -> supports P u (cat_of prog i) = true) /\
      (* stays (D then D/U, or U/S then S) or moves along a declared connection, never while 'D' *)
      (forall k u l u' l', nth_error route k = Some (u, l) -> nth_error route (S k) = Some (u', l') ->
         (u = u' /\ ((l = LD /\ l' <> LS) \/ (l <> LD /\ l' = LS)))
         \/ (u <> u' /\ l <> LD /\ l' <> LS /\ In u (preds_of P u'))) /\
      (* never revisits a unit *)
      (forall k m u l l', k < m -> nth_error route k = Some (u, l) -> nth_error route m = Some (u, l') ->
         forall j, k <= j <= m -> exists l'', nth_error route j = Some (u, l'')) /\
      (* ends unstalled in an output-boundary port *)
      (exists u, last route (EmptyString, LD) = (u, LU) /\ In u (out_names P)).
Proof. exact C03_reading_lemma. Qed.
Print Assumptions C03_reading.

(* the guard, read as a statement about routes *)
Theorem wf_procb_locks_reading :
  forall P, wf_procb P = true ->
    forall p c l, In p (p_in P ++ p_inout P) -> In c (u_caps p) ->
      croute P c (u_name p :: l) -> maximal P c (u_name p :: l) ->
      (* exactly one read-locking and one write-locking unit on the route, the former not after the latter *)
      exists l1 r l2,
        u_name p :: l = l1 ++ r :: l2 /\ has_rl P r = true /\
        (forall x, In x (l1 ++ l2) -> has_rl P x = false) /\
        (forall x, In x l1 -> has_wl P x = false) /\
        length (filter (has_wl P) (r :: l2)) = 1.
Proof. exact wf_procb_locks_reading_croute. Qed.
Print Assumptions wf_procb_locks_reading.
