(* C03 -- Each instruction follows one legal gap-free route from an input to an output.
   C03_checkb (spec/Diag.v) says, for a diagram d of program prog on processor P:
   only program instructions appear; the issued instructions are a prefix of the program (all of it for
   a returned diagram); each issued instruction is placed in exactly one unit per cycle over one
   contiguous span of cycles, starts in an input port, occupies only units supporting its capability,
   changes unit only along a declared connection, never revisits a unit, reads D..D U S..S inside each
   unit (the U S..S tail optional only in the unit where a stalled run froze it), and -- when retired --
   ends 'U' in an output-boundary port. *)
From PS Require Import Base Bag RegAccess Sim Diag C03_proof.

Theorem C03_routes :
  forall (P : proc) (prog : list instr) (fuel : nat) (tg : dtag) (d : diagram),
    wf_procb P = true -> sim_result fuel P prog tg d -> C03_checkb P prog tg d = true.
Proof. exact C03_routes_lemma. Qed.
Print Assumptions C03_routes.

(* one instruction, one place: no record shows an instruction twice *)
Theorem C03_unique_place :
  forall (P : proc) (prog : list instr) (fuel : nat) (tg : dtag) (d : diagram),
    wf_procb P = true -> sim_result fuel P prog tg d ->
    forall r, In r d -> NoDup (map fst r) /\ NoDup (flat_map (fun kv => map fst (snd kv)) r).
Proof. exact C03_unique_place_lemma. Qed.
Print Assumptions C03_unique_place.

(* it never leaves a unit while data-stalled *)
Theorem C03_never_leaves_D :
  forall (P : proc) (prog : list instr) (fuel : nat) (tg : dtag) (d : diagram),
    wf_procb P = true -> sim_result fuel P prog tg d ->
    forall t i u, S t < length d -> In (i, LD) (occ d t u) -> exists l, In (i, l) (occ d (S t) u).
Proof. exact C03_never_leaves_D_lemma. Qed.
Print Assumptions C03_never_leaves_D.
