(* Exact3 -- the hazard-order checker of C01 and the checker of C02 hold iff the Prop-level statements of the
   properties hold, on every decodable diagram (only duplicate-free unit keys are used; closed counterexamples
   without them in proofs/Exact3_counterexample.v). *)
From PS Require Import Base Str Bag RegAccess Sim Graph Loader Diag Readings_defs Exact_defs Exact3_defs
  Exact3_c01 Exact3_c02.

Theorem C01_order_checker_exact :
  forall (P : proc) (prog : list instr) (d : diagram), diagram_shape d ->
    (C01_order_checkb P prog d = true <-> C01_order_prop P prog d).
Proof. exact C01_order_checker_exact_lemma. Qed.
Print Assumptions C01_order_checker_exact.

Theorem C02_checker_exact :
  forall (P : proc) (prog : list instr) (d : diagram), diagram_shape d ->
    (C02_checkb P prog d = true <-> C02_prop P prog d).
Proof. exact C02_checker_exact_lemma. Qed.
Print Assumptions C02_checker_exact.
