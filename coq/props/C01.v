(* C01 -- Register hazards respected: conflicting accesses occur in program order, and replaying the
   diagram's reads and writes gives the operands and final register file of sequential execution. *)
(* Guard on programs: wf_progb = the sources of every instruction are duplicate-free, which is what
   program_defs.HwInstruction's converter guarantees; without it the model itself breaks the property
   (proofs/C01_counterexample.v). *)
From PS Require Import Base Bag RegAccess Sim Diag C01_proof.

(* i performs its access of kind k in cycle t: shown 'U' in a unit holding that lock *)
Definition performs (P : proc) (d : diagram) (t i : nat) (k : aty) : Prop :=
  exists u, In (i, LU) (occ d t u) /\ (match k with RD => has_rl P u | WR => has_wl P u end) = true.

Theorem C01_hazard_order :
  forall (P : proc) (prog : list instr) (fuel : nat) (tg : dtag) (d : diagram),
    wf_procb P = true -> wf_progb prog = true -> sim_result fuel P prog tg d ->
    forall i j ki kj tj, i < j -> j < length prog -> In (ki, kj) (conflicts prog i j) ->
      performs P d tj j kj -> exists ti, ti < tj /\ performs P d ti i ki.
Proof. exact C01_hazard_order_lemma. Qed.
Print Assumptions C01_hazard_order.

(* the extracted checker (order + replay against sequential execution) accepts every model diagram *)
Theorem C01_checker_accepts :
  forall (P : proc) (prog : list instr) (fuel : nat) (tg : dtag) (d : diagram),
    wf_procb P = true -> wf_progb prog = true -> sim_result fuel P prog tg d -> C01_checkb P prog tg d = true.
Proof. exact C01_checker_accepts_lemma. Qed.
Print Assumptions C01_checker_accepts.
