(* C13 -- Names are case-insensitive and reported in their first spelling (spec/TextSpec.v: `recased`,
   `ci`).  Changing only the letter case of a later reference leaves the loaded processor (or the error
   reported), the instruction set, the compiled program and the diagram unchanged. *)
From PS Require Import Base Str Sim Program Isa Loader TextSpec C13_proof.

Theorem C13_loader :
  forall d d', recased d d' -> load_res_ci (load_proc_desc d) (load_proc_desc d').
Proof. exact C13_loader_lemma. Qed.
Print Assumptions C13_loader.

(* instruction-set capability values *)
Theorem C13_isa :
  forall spec spec' caps,
    Forall2 (fun e e' => fst e = fst e' /\ ci (snd e) (snd e')) spec spec' ->
    isa_res_ci (load_isa spec caps) (load_isa spec' caps).
Proof. exact C13_isa_lemma. Qed.
Print Assumptions C13_isa.

(* mnemonics: a program whose mnemonics are re-cased compiles to the same hardware program *)
Theorem C13_compile :
  forall prog prog' isa,
    Forall2 (fun p p' => pi_srcs p = pi_srcs p' /\ pi_dst p = pi_dst p' /\ pi_line p = pi_line p' /\
                         ci (pi_name p) (pi_name p')) prog prog' ->
    match compile_program prog isa, compile_program prog' isa with
    | CompOk hw, CompOk hw' => hw = hw'
    | CompUndef n l, CompUndef n' l' => ci n n' /\ l = l'
    | _, _ => False
    end.
Proof. exact C13_compile_lemma. Qed.
Print Assumptions C13_compile.

(* register operands: re-casing any occurrence of a register after its first one (anywhere in the text)
   leaves the parsed program unchanged; stated on the rendered-line form of C14 *)
Fixpoint ops_recased (seen : list string) (ops ops' : list string) : Prop * list string :=
  match ops, ops' with
  | [], [] => (True, seen)
  | o :: t, o' :: t' =>
      let first := negb (mem_ic o seen) in
      let '(p, seen') := ops_recased (if first then seen ++ [o] else seen) t t' in
      ((if first then o = o' else ci o o') /\ p, seen')
  | _, _ => (False, seen)
  end.
Fixpoint lines_recased (seen : list string) (ls ls' : list rline) : Prop :=
  match ls, ls' with
  | [], [] => True
  | RBlank w :: t, RBlank w' :: t' => lines_recased seen t t'
  | RInstr _ mn _ op0 rest _ :: t, RInstr _ mn' _ op0' rest' _ :: t' =>
      let '(p, seen') := ops_recased seen (op0 :: map snd rest) (op0' :: map snd rest') in
      mn = mn' /\ p /\ lines_recased seen' t t'
  | _, _ => False
  end.
Theorem C13_program :
  forall ls ls', forallb rline_ok ls = true -> forallb rline_ok ls' = true -> lines_recased [] ls ls' ->
    read_program (map render_line ls) = read_program (map render_line ls').
Proof. exact C13_program_lemma. Qed.
Print Assumptions C13_program.

(* first spelling: every unit name of a loaded processor is spelled as in its definition, every capability
   as in its first occurrence in the description *)
Theorem C13_first_spelling :
  forall d P, load_proc_desc d = LoadOk P ->
    (forall u, In u (all_units P) -> In (u_name u) (map d_name (d_units d))) /\
    (forall u c, In u (all_units P) -> In c (u_caps u) ->
       exists pre x post, flat_map d_caps (d_units d) = pre ++ x :: post /\ c = x /\ ~ (exists y, In y pre /\ ci y x)).
Proof. exact C13_first_spelling_lemma. Qed.
Print Assumptions C13_first_spelling.

Theorem C13_loader_exact : forall d d', recased d d' -> edges_wf d -> load_proc_desc d = load_proc_desc d'.
Proof. exact C13_loader_exact_lemma. Qed.
Print Assumptions C13_loader_exact.
Theorem C13_isa_exact : forall spec spec' caps,
    Forall2 (fun e e' => fst e = fst e' /\ ci (snd e) (snd e')) spec spec' ->
    (forall e, In e spec -> mem_ic (snd e) caps = true) ->
    load_isa spec caps = load_isa spec' caps.
Proof. exact C13_isa_exact_lemma. Qed.
Print Assumptions C13_isa_exact.
