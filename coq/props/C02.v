(* C02 -- Data stalls are exact.  C02_entry_ok (spec/Diag.v): an entry that stayed after its 'U' is 'S';
   an arriving or waiting entry is 'D' iff `blocked` (some OLDER instruction has not, before this cycle,
   performed a conflicting access to a register this unit locks for it), else 'U'.  Hence never waiting
   on itself, never 'D' in a unit without locks. *)
(* Guard on programs: wf_progb = the sources of every instruction are duplicate-free, which is what
   program_defs.HwInstruction's converter guarantees; without it the model itself breaks the property
   (proofs/C02_counterexample.v). *)
From PS Require Import Base Bag RegAccess Sim Diag C02_proof.

Theorem C02_exact :
  forall (P : proc) (prog : list instr) (fuel : nat) (tg : dtag) (d : diagram),
    wf_procb P = true -> wf_progb prog = true -> sim_result fuel P prog tg d ->
    forall t u e, t < length d -> In e (occ d t u) -> C02_entry_ok P prog d t u e = true.
Proof. exact C02_exact_lemma. Qed.
Print Assumptions C02_exact.

Theorem C02_checker_accepts :
  forall (P : proc) (prog : list instr) (fuel : nat) (tg : dtag) (d : diagram),
    wf_procb P = true -> wf_progb prog = true -> sim_result fuel P prog tg d -> C02_checkb P prog d = true.
Proof. exact C02_checker_accepts_lemma. Qed.
Print Assumptions C02_checker_accepts.
