(* Readings4 -- Prop-level reading of C06 (in-order eager issue into the first usable input port): what
   the boolean checker C06_checkb of props/C06.v means for a diagram of the model, stated with quantifiers
   over instructions, cycles and units instead of an executable test. *)
From PS Require Import Base Bag RegAccess Sim Diag Readings_defs Readings4_defs Readings4_c06.

Theorem C06_reading :
  forall (P : proc) (prog : list instr) (fuel : nat) (tg : dtag) (d : diagram),
    wf_procb P = true -> sim_result fuel P prog tg d ->
    forall i, i < length prog ->
      (* program order: whoever is shown at all was issued, and every older instruction was issued no later *)
      (forall t u, shown d t i u -> exists t0, t0 <= t /\ issued_at d i t0) /\
      (forall t0 k, issued_at d i t0 -> k < i -> exists tk, tk <= t0 /\ issued_at d k tk) /\
      (* it enters at an input port supporting its capability, the first by name among those that could
         take it: a port whose name sorts earlier was filled by older instructions at the end of that cycle,
         or needs the memory port that an older instruction took in that cycle *)
      (forall t0 q, issued_at d i t0 -> shown d t0 i q ->
         In q (in_names P) /\ supports P q (cat_of prog i) = true /\
         forall u, In u (in_names P) -> supports P u (cat_of prog i) = true -> String.ltb u q = true ->
           width_of P u <= length (filter (fun e => fst e <? i) (occ d t0 u))
           \/ (mem_needed P u (cat_of prog i) = true /\ exists k v, k < i /\ enters_mem P prog d t0 k v)) /\
      (* held back only for cause: in a recorded cycle t in which it is next in line and still not shown,
         every input port supporting its capability is full at the end of t or needs the memory port that
         another instruction took in t *)
      (forall s t, next_from d i s -> s <= t -> t < length d -> (forall t' u, t' <= t -> ~ shown d t' i u) ->
         forall u, In u (in_names P) -> supports P u (cat_of prog i) = true ->
           width_of P u <= length (occ d t u)
           \/ (mem_needed P u (cat_of prog i) = true /\ exists k v, k <> i /\ enters_mem P prog d t k v)).
Proof. exact C06_reading_lemma. Qed.
Print Assumptions C06_reading.
