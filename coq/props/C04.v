(* C04 -- Unit width is never exceeded.
   In every cycle of every diagram, returned (Done) or carried by a stall error (Stalled), each unit
   hosts at most as many instructions as its declared width.  Guard: unit names are pairwise
   distinct (part of wf_procb); no other well-formedness is needed; any fuel, any program. *)
From PS Require Import Base Bag RegAccess Sim Diag Lists C04_proof.

Theorem C04_width :
  forall (P : proc) (prog : list instr) (fuel : nat) (d : diagram),
    NoDup (unit_names P) ->
    simulate fuel P prog = Done d \/ simulate fuel P prog = Stalled d ->
    forall r, In r d -> forall u, length (get r u) <= width_of P u.
Proof. intros P prog fuel d Hnd H. exact (C04_width_lemma P Hnd prog fuel d H). Qed.
Print Assumptions C04_width.

(* the same statement read through the diagram vocabulary: cycle t, unit u *)
Theorem C04_width_at :
  forall (P : proc) (prog : list instr) (fuel : nat) (d : diagram),
    NoDup (unit_names P) ->
    simulate fuel P prog = Done d \/ simulate fuel P prog = Stalled d ->
    forall t u, length (occ d t u) <= width_of P u.
Proof. exact C04_width_at_lemma. Qed.
Print Assumptions C04_width_at.

(* the extracted checker says exactly this about the listed entries of a diagram *)
Theorem C04_checkb_spec :
  forall (P : proc) (d : diagram),
    C04_checkb P d = true <->
    (forall r, In r d -> forall u es, In (u, es) r -> length es <= width_of P u).
Proof. exact C04_checkb_spec_lemma. Qed.
Print Assumptions C04_checkb_spec.

(* non-vacuity: a two-unit processor satisfying the guard, a program that fills the input port *)
Example C04_nonvacuous :
  exists P prog d, NoDup (unit_names P) /\ simulate 100 P prog = Done d /\
                   exists r u, In r d /\ length (get r u) = width_of P u /\ width_of P u = 2.
Proof. exact C04_nonvacuous_lemma. Qed.
