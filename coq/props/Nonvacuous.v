(* Nonvacuous -- the guards of the simulator theorems are satisfiable by non-trivial inputs: a processor
   with a fork, a memory stage and both kinds of locks, a program with a RAW dependency and an instruction
   that reads and writes the same register; the run completes and its diagram shows all three labels,
   a memory-stage start, and two instructions in one unit. *)
From PS Require Import Base Bag RegAccess Sim Diag.
Open Scope string_scope.

Definition nv_in   := {| u_name := "in";  u_width := 2; u_caps := ["ALU"; "MEM"]; u_rl := true;  u_wl := false; u_mem := [] |}.
Definition nv_mem  := {| u_name := "mem"; u_width := 1; u_caps := ["MEM"]; u_rl := false; u_wl := false; u_mem := ["MEM"] |}.
Definition nv_aout := {| u_name := "alu out"; u_width := 1; u_caps := ["ALU"]; u_rl := false; u_wl := true; u_mem := [] |}.
Definition nv_mout := {| u_name := "mem out"; u_width := 1; u_caps := ["MEM"]; u_rl := false; u_wl := true; u_mem := [] |}.
Definition nv_P := {| p_in := [nv_in];
                      p_out := [{| f_model := nv_aout; f_preds := ["in"] |}; {| f_model := nv_mout; f_preds := ["mem"] |}];
                      p_inout := []; p_int := [{| f_model := nv_mem; f_preds := ["in"] |}] |}.
Definition nv_prog := [ {| i_srcs := ["R1"; "R2"]; i_dst := "R1"; i_cat := "ALU" |};      (* R1 <- R1 op R2 *)
                        {| i_srcs := ["R6"]; i_dst := "R5"; i_cat := "ALU" |};            (* independent *)
                        {| i_srcs := ["R1"]; i_dst := "R3"; i_cat := "MEM" |};            (* RAW on R1 *)
                        {| i_srcs := ["R4"]; i_dst := "R2"; i_cat := "ALU" |};            (* WAR on R2 *)
                        {| i_srcs := ["R3"]; i_dst := "R3"; i_cat := "MEM" |} ].

Close Scope string_scope.
Definition labels_of (d : diagram) : list label :=
  flat_map (fun r => flat_map (fun kv => map snd (snd kv)) r) d.

Example guards_satisfied : wf_procb nv_P = true /\ wf_progb nv_prog = true.
Proof. vm_compute. split; reflexivity. Qed.


Example run_completes :
  exists d, simulate 100 nv_P nv_prog = Done d /\ 4 <= length d /\
            existsb (label_eqb LD) (labels_of d) = true /\
            existsb (label_eqb LS) (labels_of d) = true /\
            existsb (label_eqb LU) (labels_of d) = true /\
            existsb (fun t => match mem_entries nv_P nv_prog d t with [] => false | _ => true end) (seq 0 (length d)) = true /\
            existsb (fun r : record => existsb (fun kv => 2 <=? length (snd kv)) r) d = true.
Proof. eexists. split; [vm_compute; reflexivity|]. vm_compute. repeat split; auto using le_n, le_S. Qed.
Print Assumptions run_completes.
