(* C07 -- Eager advance, oldest first (C07_entry_ok, spec/Diag.v): a non-'D' entry of an output-boundary
   unit is gone in the next cycle; a non-'D' entry of another unit that is still there in the next cycle
   is 'S' and every connected successor supporting its capability is full at the end of that cycle or
   needs the memory port another instruction took in it; and no younger instruction arrived in such a
   successor meanwhile, unless only the older one needed the busy memory port. *)
From PS Require Import Base Bag RegAccess Sim Diag C07_proof.

Theorem C07_advance :
  forall (P : proc) (prog : list instr) (fuel : nat) (tg : dtag) (d : diagram),
    wf_procb P = true -> sim_result fuel P prog tg d -> C07_checkb P prog d = true.
Proof. exact C07_advance_lemma. Qed.
Print Assumptions C07_advance.
