(* C05 -- Single memory port: in every cycle at most one instruction enters (by issue or by a move) a
   unit whose memory-access list names its capability; instructions that stay do not count. *)
From PS Require Import Base Bag RegAccess Sim Diag C05_proof.

(* the extracted checker accepts every diagram of the model *)
Theorem C05_mem_port :
  forall (P : proc) (prog : list instr) (fuel : nat) (tg : dtag) (d : diagram),
    wf_procb P = true -> sim_result fuel P prog tg d -> C05_checkb P prog d = true.
Proof. exact C05_mem_port_lemma. Qed.
Print Assumptions C05_mem_port.

(* the same, read as a statement about pairs of arrivals: two (instruction, unit) arrivals in one cycle
   that both need the memory port are the same arrival *)
Definition enters_mem (P : proc) (prog : list instr) (d : diagram) (t i : nat) (u : string) : Prop :=
  (exists l, In (i, l) (occ d t u)) /\ ~ (exists l, In (i, l) (prev_occ d t u))
  /\ mem_needed P u (cat_of prog i) = true.
Theorem C05_mem_port_pairs :
  forall (P : proc) (prog : list instr) (fuel : nat) (tg : dtag) (d : diagram),
    wf_procb P = true -> sim_result fuel P prog tg d ->
    forall t i u j v, enters_mem P prog d t i u -> enters_mem P prog d t j v -> i = j /\ u = v.
Proof. exact C05_mem_port_pairs_lemma. Qed.
Print Assumptions C05_mem_port_pairs.

Example C05_nonvacuous :
  exists P prog d, wf_procb P = true /\ simulate 100 P prog = Done d /\
                   exists t i u, enters_mem P prog d t i u.
Proof. exact C05_nonvacuous_lemma. Qed.
