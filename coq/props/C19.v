(* C19 -- Register access queues serve requests in registration order.
   spec/QueueSpec.v is the abstract reading: requests in registration order, each pending or removed;
   `a_can_access` says a request can be served exactly when every request registered before it has been
   removed, except that reads in an unbroken run of reads are served together and a write registered
   directly after its owner's own read can be served with that read once no other reader remains.
   The theorems: the concrete queue refines that reading along every permitted history, removal never
   fails, and every maximal permitted history ends with the empty queue. *)
From PS Require Import Base RegAccess QueueSpec C19_proof.

Theorem C19_protocol :
  forall (rs : list req) (h : list nat),
    permitted (build_queue rs) h = true ->
    exists a q,
      a_run_hist (a_init rs) h = Some a /\ run_hist (build_queue rs) h = Ok q /\ q = abs_queue a /\
      forall ty o, can_access q ty o = (if a_empty a then Err IndexError else Ok (a_can_access a ty o)).
Proof. exact C19_protocol_lemma. Qed.
Print Assumptions C19_protocol.

Theorem C19_no_failure :
  forall (rs : list req) (h : list nat),
    permitted (build_queue rs) h = true -> exists q, run_hist (build_queue rs) h = Ok q.
Proof. exact C19_no_failure_lemma. Qed.
Print Assumptions C19_no_failure.

(* a permitted history that cannot be extended has emptied the queue; histories are finite *)
Theorem C19_maximal_history_empties :
  forall (rs : list req) (h : list nat) (q : queue),
    permitted (build_queue rs) h = true -> run_hist (build_queue rs) h = Ok q ->
    (forall o, servable_owner q o = false) -> q = [].
Proof. exact C19_maximal_history_empties_lemma. Qed.
Print Assumptions C19_maximal_history_empties.

Theorem C19_histories_finite :
  forall (rs : list req) (h : list nat),
    permitted (build_queue rs) h = true -> length h <= length rs.
Proof. exact C19_histories_finite_lemma. Qed.
Print Assumptions C19_histories_finite.

Example C19_nonvacuous :   (* ADD R1, R1, R2 seen from R1: read then write by owner 0, after a read by owner 7 *)
  let rs := [(RD, 7); (RD, 0); (WR, 0)] in
  permitted (build_queue rs) [7; 0; 0] = true /\ run_hist (build_queue rs) [7; 0; 0] = Ok []
  /\ can_access (build_queue rs) WR 0 = Ok false
  /\ (exists q, run_hist (build_queue rs) [7] = Ok q /\ can_access q WR 0 = Ok true).
Proof. vm_compute. repeat split. eexists; split; reflexivity. Qed.
