(* C10 -- The loaded processor is exactly the usable part of the description.  C10_checkb
   (spec/LoaderSpec.v) computes, by graph search on the description, F u (the capabilities some description
   input port can feed to u along units all declaring them), the usable units U1, the usable connections,
   and the kept units (those from which a usable declared output is reachable), and says: the units of the
   result are exactly the kept ones, each with its declared width, locks, name, memory list (standardised,
   sorted) and capability list sort(F u); predecessors are exactly the kept connections; input (output)
   ports of the result had no incoming (outgoing) connection in the description. *)
From PS Require Import Base Str Sim Graph Loader Diag LoaderSpec C10_proof.

Theorem C10_exact :
  forall d P, load_proc_desc d = LoadOk P -> C10_checkb d P = true.
Proof. exact C10_exact_lemma. Qed.
Print Assumptions C10_exact.
