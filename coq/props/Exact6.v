(* Exact6 -- C10: the judge of implementation objects (spec/C10Exact.v) holds iff the Prop-level statement of
   C10 (spec/Exact6_defs.v, over feeds / usable / reaches_out of spec/LoaderReadings.v) holds, for every
   description and every processor object; no side condition. *)
From PS Require Import Base Str Sim Graph Loader Diag LoaderSpec LoaderReadings C12Exact C10Exact Exact6_defs Exact6_c10.

Theorem C10_judge_exact :
  forall d P, C10_judgeb d P = true <-> C10_prop d P.
Proof. exact C10_judge_exact_lemma. Qed.
Print Assumptions C10_judge_exact.
