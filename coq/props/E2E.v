(* E2E -- how the property theorems compose along the whole pipeline (not one of the listed properties):
   a description accepted by the loader, whose lock placement also puts the read lock not after the
   write lock, an instruction set, a program text and its compilation give a simulation that ends within
   the bound, and every diagram property C01-C08 holds of the result, whose printed table shows exactly
   the diagram (C16). *)
From PS Require Import Base Str Bag RegAccess Sim Program Isa Graph Loader Cli Diag LoaderSpec TextSpec E2E_proof.

Theorem E2E_guards :
  forall d P spec isa lines p hw,
    load_proc_desc d = LoadOk P -> locks_ok P = true ->
    load_isa spec (get_abilities P) = IsaOk isa ->
    read_program lines = ProgOk p -> compile_program p isa = CompOk hw ->
    wf_procb P = true /\ wf_progb hw = true.
Proof. exact E2E_guards_lemma. Qed.
Print Assumptions E2E_guards.

Theorem E2E_pipeline :
  forall d P spec isa lines p hw,
    load_proc_desc d = LoadOk P -> locks_ok P = true ->
    load_isa spec (get_abilities P) = IsaOk isa ->
    read_program lines = ProgOk p -> compile_program p isa = CompOk hw ->
    exists tg dg,
      sim_result (S (cycle_bound P hw)) P hw tg dg /\ length dg <= cycle_bound P hw /\
      C01_checkb P hw tg dg = true /\ C02_checkb P hw dg = true /\ C03_checkb P hw tg dg = true /\
      C04_checkb P dg = true /\ C05_checkb P hw dg = true /\ C06_checkb P hw dg = true /\
      C07_checkb P hw dg = true /\ C08_checkb P hw tg dg = true /\
      (tg = TDone ->
       exists rows, sim_rows dg (length hw) = Some rows /\ length rows = length hw /\
                    forall k t, k < length hw -> nth t (nth k rows []) EmptyString = cell_text dg t k).
Proof. exact E2E_pipeline_lemma. Qed.
Print Assumptions E2E_pipeline.
