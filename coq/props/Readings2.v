(* Readings2 -- Prop-level readings of C07 and of "a stall error means genuine deadlock" (C08), and of
   C10 (not further properties: the proved theorems spelled out with quantifiers). *)
From PS Require Import Base Str Bag RegAccess Sim Graph Loader Diag LoaderSpec Readings_defs LoaderReadings Readings2_proof.

(* C07: an instruction that was not data-stalled leaves an output-boundary unit; elsewhere it stays only
   as 'S', only if every supporting successor is full at the end of the next cycle or needs the memory
   port another instruction took in it, and no younger instruction arrived there meanwhile unless only
   the older one needed the busy memory port *)
Theorem C07_reading :
  forall (P : proc) (prog : list instr) (fuel : nat) (tg : dtag) (d : diagram),
    wf_procb P = true -> sim_result fuel P prog tg d ->
    forall t u i l, S t < length d -> In (i, l) (occ d t u) -> l <> LD ->
      (In u (out_names P) -> ~ exists l', In (i, l') (occ d (S t) u)) /\
      (~ In u (out_names P) -> forall l', In (i, l') (occ d (S t) u) ->
         l' = LS /\
         forall s, In s (succs_of P u) -> supports P s (cat_of prog i) = true ->
           (width_of P s <= length (occ d (S t) s) \/
            (mem_needed P s (cat_of prog i) = true /\
             exists k v, k <> i /\ enters_mem P prog d (S t) k v)) /\
           (forall j lj, In (j, lj) (occ d (S t) s) -> i < j -> ~ (exists l0, In (j, l0) (occ d t s)) ->
              mem_needed P s (cat_of prog i) = true /\ mem_needed P s (cat_of prog j) = false)).
Proof. exact C07_reading_lemma. Qed.
Print Assumptions C07_reading.

(* C08: when the simulator reports a stall, nothing can progress from the last recorded cycle:
   every waiting instruction still has an older outstanding conflicting access; every finished
   instruction sits in a non-output unit all of whose supporting successors are full; and the next
   instruction (if any) finds every supporting input port full *)
Theorem C08_stall_means_deadlock :
  forall (P : proc) (prog : list instr) (fuel : nat) (d : diagram),
    wf_procb P = true -> wf_progb prog = true -> simulate fuel P prog = Stalled d ->
    let r := last d [] in
    (forall u i l, In (i, l) (get r u) ->
       (l = LD -> outstanding P prog d (length d) i u) /\
       (l <> LD -> ~ In u (out_names P) /\
                   forall s, In s (succs_of P u) -> supports P s (cat_of prog i) = true ->
                             width_of P s <= length (get r s))) /\
    (forall ins, nth_error prog (issued_count prog d) = Some ins ->
       forall p, In p (p_in P ++ p_inout P) -> In (i_cat ins) (u_caps p) ->
                 u_width p <= length (get r (u_name p))) /\
    (* and something is indeed still in flight or unissued *)
    (issued_count prog d < length prog \/ exists u i l, In (i, l) (get r u)).
Proof. exact C08_stall_means_deadlock_lemma. Qed.
Print Assumptions C08_stall_means_deadlock.

(* C10: which units survive, with which capabilities and predecessors *)
Theorem C10_reading :
  forall d P, load_proc_desc d = LoadOk P ->
    let r := resolve d in
    (forall u, In u (unit_names P) <-> reaches_out r u) /\
    (forall u x, find_unit P u = Some x ->
       (forall c, In c (u_caps x) <-> feeds r c u) /\
       (exists ud, In ud (d_units d) /\ d_name ud = u /\ u_width x = Z.to_nat (d_width ud) /\
                   u_rl x = d_rl ud /\ u_wl x = d_wl ud)) /\
    (forall u p, In u (unit_names P) ->
       (In p (preds_of P u) <-> (In p (unit_names P) /\ usable_conn r p u))) /\
    (forall u, In u (in_names P) -> In u (r_inputs r)) /\
    (forall u, In u (out_names P) -> In u (r_outputs r)).
Proof. exact C10_reading_lemma. Qed.
Print Assumptions C10_reading.
