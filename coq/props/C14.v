(* C14 -- Program text parses to the written instructions; syntax errors are located.
   spec/TextSpec.v: rline = a rendered line (blank, or lead mnemonic sep op0 {blanks , blanks op}* trail),
   rline_ok = every blank piece is whitespace only, the separator after the mnemonic is non-empty, mnemonic
   and operands are tokens (non-empty, no whitespace, no comma); expected_program = the written
   instructions with 1-based physical line numbers, first operand as destination, remaining operands as a
   sorted duplicate-free source list, registers in their first spelling. *)
From PS Require Import Base Str Program TextSpec C14_proof.

Theorem C14_roundtrip :
  forall ls : list rline,
    forallb rline_ok ls = true ->
    read_program (map render_line ls) = ProgOk (expected_program ls).
Proof. exact C14_roundtrip_lemma. Qed.
Print Assumptions C14_roundtrip.

(* line terminators (or any other leading/trailing whitespace) do not matter *)
Theorem C14_strip_invariant :
  forall lines lines', Forall2 (fun a b => strip a = strip b) lines lines' ->
    read_program lines = read_program lines'.
Proof. exact C14_strip_invariant_lemma. Qed.
Print Assumptions C14_strip_invariant.

(* a line consisting of a mnemonic only is rejected with its line number and mnemonic *)
Theorem C14_no_operands :
  forall (pre : list rline) lead mn trail post,
    forallb rline_ok pre = true -> all_ws lead = true -> tokenb mn = true -> all_ws trail = true ->
    read_program (map render_line pre ++ (lead ++ mn ++ trail)%string :: post)
    = ProgErr (NoOperands (S (length pre)) mn).
Proof. exact C14_no_operands_lemma. Qed.
Print Assumptions C14_no_operands.

(* an empty operand is rejected with line number, mnemonic and the position of the first empty operand *)
Theorem C14_empty_operand :
  forall (pre : list rline) lead mn sep op0 rest trail post k,
    forallb rline_ok pre = true ->
    rline_shape_ok (RInstr lead mn sep op0 rest trail) = true ->
    first_empty (op0 :: map snd rest) 1 = Some k ->
    read_program (map render_line pre ++ render_line (RInstr lead mn sep op0 rest trail) :: post)
    = ProgErr (EmptyOperand k (S (length pre)) mn).
Proof. exact C14_empty_operand_lemma. Qed.
Print Assumptions C14_empty_operand.

(* the message of a syntax error states the mnemonic, the line number and the empty operand's position *)
From PS Require Import C14_msg.
Theorem C14_message :
  forall e, match e with
            | NoOperands line ins =>
                substrb ins (code_err_msg e) = true /\ substrb (nat_to_str line) (code_err_msg e) = true
            | EmptyOperand k line ins =>
                substrb ins (code_err_msg e) = true /\ substrb (nat_to_str line) (code_err_msg e) = true
                /\ substrb ("Operand " ++ nat_to_str k ++ " empty")%string (code_err_msg e) = true
            end.
Proof. exact C14_message_lemma. Qed.
Print Assumptions C14_message.

Example C14_nonvacuous :
  read_program ["  ADD R1 ,r2,  R1, r3" ; "" ; "sub" ++ String (ascii_of_nat 9) "R2,R1"]%string
  = ProgOk [ {| pi_srcs := ["R1"; "r2"; "r3"]; pi_dst := "R1"; pi_name := "ADD"; pi_line := 1 |};
             {| pi_srcs := ["R1"]; pi_dst := "r2"; pi_name := "sub"; pi_line := 3 |} ]%string.
Proof. vm_compute. reflexivity. Qed.
