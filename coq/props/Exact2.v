(* Exact2 -- as props/Exact.v, for the issue and advance properties: on every decodable diagram the extracted
   checker holds iff the Prop-level statement of the property (the conclusion of its reading) holds.
   one_place (an instruction is shown in one unit per cycle, itself a clause of C03) is needed only for the
   "checker -> property" half of C06; proofs/Exact2_c06_counterexample.v shows each side condition is needed. *)
From PS Require Import Base Str Bag RegAccess Sim Graph Loader Diag Readings_defs Readings4_defs Exact_defs Exact2_defs
  Exact2_c06 Exact2_c07.

Theorem C06_checker_exact :
  forall (P : proc) (prog : list instr) (d : diagram), diagram_shape d -> one_place d ->
    (C06_checkb P prog d = true <-> C06_prop P prog d).
Proof. exact C06_checker_exact_lemma. Qed.
Print Assumptions C06_checker_exact.

(* the half that rules out false alarms needs the record shape only *)
Theorem C06_checker_complete :
  forall (P : proc) (prog : list instr) (d : diagram), diagram_shape d ->
    C06_prop P prog d -> C06_checkb P prog d = true.
Proof. exact C06_checker_complete_shape. Qed.
Print Assumptions C06_checker_complete.

Theorem C07_checker_exact :
  forall (P : proc) (prog : list instr) (d : diagram), diagram_shape d ->
    (C07_checkb P prog d = true <-> C07_prop P prog d).
Proof. exact C07_checker_exact_lemma. Qed.
Print Assumptions C07_checker_exact.
