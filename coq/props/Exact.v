(* Exact -- the extracted checkers are not stronger than the properties they decide: on every diagram / processor
   of the shape the harness can decode, the boolean checker holds IF AND ONLY IF the Prop-level statement of
   the property holds.  (The "only if" halves are what the readings already give; the "if" halves are what
   rules out an alarm on an implementation output that satisfies the property.) *)
From PS Require Import Base Str Bag RegAccess Sim Graph Loader Diag LoaderSpec Readings_defs Readings4_defs Exact_defs
  Exact_c04 Exact_c09.

(* C04: the checker is the width statement *)
Theorem C04_checker_exact :
  forall (P : proc) (d : diagram), diagram_shape d ->
    (C04_checkb P d = true <-> forall t u, length (occ d t u) <= width_of P u).
Proof. exact C04_checker_exact_lemma. Qed.
Print Assumptions C04_checker_exact.

(* C05: the checker is "two arrivals needing the memory port in one cycle are the same arrival" *)
Theorem C05_checker_exact :
  forall (P : proc) (prog : list instr) (d : diagram), diagram_shape d ->
    (C05_checkb P prog d = true <->
     forall t i u j v, t < length d -> enters_mem P prog d t i u -> enters_mem P prog d t j v -> i = j /\ u = v).
Proof. exact C05_checker_exact_lemma. Qed.
Print Assumptions C05_checker_exact.

(* C09: the checker is the five-clause statement *)
Theorem C09_checker_exact :
  forall (P : proc), C09_checkb P = true <-> C09_prop P.
Proof. exact C09_checker_exact_strong. Qed.
Print Assumptions C09_checker_exact.
