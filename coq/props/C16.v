(* C16 -- The command-line table is a faithful rendering of the simulation (model/Cli.v; spec/TextSpec.v). *)
From PS Require Import Base Bag Sim Cli Diag TextSpec C16_proof.

(* for the diagram of a completed run: one row per instruction; row k holds, in column t, the text
   '<label>:<unit>' exactly when the diagram places instruction k in that unit with that label in cycle t,
   and an empty cell otherwise (rows are not padded beyond their last stop) *)
Theorem C16_cells :
  forall (P : proc) (prog : list instr) (fuel : nat) (d : diagram),
    wf_procb P = true -> simulate fuel P prog = Done d ->
    exists rows, sim_rows d (length prog) = Some rows /\ length rows = length prog /\
      forall k, k < length prog ->
        (forall t, nth t (nth k rows []) EmptyString = cell_text d t k) /\
        length (nth k rows []) <= length d /\
        (exists t, S t = length (nth k rows []) /\ cell_text d t k <> EmptyString).
Proof. exact C16_cells_lemma. Qed.
Print Assumptions C16_cells.

(* the printed text: header of cycles 1..T (T = longest row), then 'Ik' rows, tab separated, one per
   line; splitting it at line feeds and tabs gives the header and the rows back whenever no field
   contains TAB, LF, CR or a double quote (unit names are the only free text in a cell) *)
Theorem C16_print_lines :
  forall rows, forallb (forallb field_ok) rows = true ->
    let T := fold_left Nat.max (map (@length string) rows) 0 in
    0 < T ->
    split_char LF (print_table rows)
    = map join_tab ((EmptyString :: map nat_to_str (seq 1 T))
                    :: map (fun ir => (("I" ++ nat_to_str (S (fst ir)))%string :: snd ir))
                           (combine (seq 0 (length rows)) rows))
      ++ [EmptyString].
Proof. exact C16_print_lines_lemma. Qed.
Print Assumptions C16_print_lines.

Theorem C16_fields_roundtrip :
  forall fields, fields <> [] -> forallb field_ok fields = true ->
    split_char TAB (join_tab fields) = fields.
Proof. exact C16_fields_roundtrip_lemma. Qed.
Print Assumptions C16_fields_roundtrip.

(* the empty program prints the csv module's rendering of a lone empty field *)
Example C16_empty_program : print_table [] = (String """"%char (String """"%char (String LF EmptyString))).
Proof. vm_compute. reflexivity. Qed.
