(* Exact5 -- C12: the judges of implementation objects (spec/C12Exact.v) are implied by the checkers the C12
   theorems are stated with, and are exactly the property's words. *)
From PS Require Import Base Str Sim Graph Loader Diag LoaderSpec C12Exact Exact5_c12.

(* what props/C12.v proves of the model carries over to the judges *)
Theorem C12_order_implies_listing :
  forall P, C12_order_checkb P = true -> C12_listing_checkb P = true.
Proof. exact C12_order_implies_listing_lemma. Qed.
Print Assumptions C12_order_implies_listing.

Theorem C12_parts_implies_listing :
  forall ins outs inouts ints P,
    C12_parts_checkb ins outs inouts ints P = true -> C12_parts_listing_checkb ins outs inouts ints P = true.
Proof. exact C12_parts_implies_listing_lemma. Qed.
Print Assumptions C12_parts_implies_listing.

(* the judges say what the property says, no more and no less *)
Theorem C12_listing_exact :
  forall P, C12_listing_checkb P = true <-> C12_listing_prop P.
Proof. exact C12_listing_exact_lemma. Qed.
Print Assumptions C12_listing_exact.

Theorem C12_classify_exact :
  forall P, C12_classify_checkb P = true <-> C12_classify_prop P.
Proof. exact C12_classify_exact_lemma. Qed.
Print Assumptions C12_classify_exact.

(* C10 and the acceptance half of C11: the judges compare a unit with its expected form up to the order of its
   capability and memory lists (spec/C10Exact.v); implied by the checkers props/C10.v and props/C11.v prove *)
From PS Require Import C10Exact Exact5_c10.
Theorem C10_check_implies_judge :
  forall d P, C10_checkb d P = true -> C10_judgeb d P = true.
Proof. exact C10_check_implies_judge_lemma. Qed.
Print Assumptions C10_check_implies_judge.

Theorem C11_accept_implies_judge :
  forall d P, C11_accept_ok d P = true -> C11_accept_judgeb d P = true.
Proof. exact C11_accept_implies_judge_lemma. Qed.
Print Assumptions C11_accept_implies_judge.
