(* Readings5 -- Prop-level reading of C09 (accepted processor descriptions are well-formed): what the
   boolean checker C09_checkb of props/C09.v means for the processor the model's loader returns. *)
From PS Require Import Base Str Bag RegAccess Sim Graph Loader Diag LoaderSpec Readings_defs Readings4_defs Readings5_c09.

Theorem C09_reading :
  forall (d : desc) (P : proc), load_proc_desc d = LoadOk P ->
    (* acyclic *)
    (forall u, ~ path P u u) /\
    (* unit names unique ignoring case *)
    (forall l1 a l2 b l3, unit_names P = l1 ++ a :: l2 ++ b :: l3 -> ic_eqb a b = false) /\
    (* positive widths, no unit without capabilities *)
    (forall u, In u (all_units P) -> 0 < u_width u /\ u_caps u <> []) /\
    (* every connection joins two units of the processor that share a capability *)
    (forall u v, In v (succs_of P u) ->
       In u (unit_names P) /\ In v (unit_names P) /\ exists c, supports P u c = true /\ supports P v c = true) /\
    (* every capability offered at an input port reaches an output port through units supporting it, and
       every maximal route it can take from there crosses exactly one read lock and exactly one write lock *)
    (forall p c, In p (p_in P ++ p_inout P) -> In c (u_caps p) ->
       (exists l, croute P c (u_name p :: l) /\ In (last (u_name p :: l) EmptyString) (out_names P)) /\
       (forall l, croute P c (u_name p :: l) -> maximal P c (u_name p :: l) ->
          count_locks P LkRead (u_name p :: l) = 1 /\ count_locks P LkWrite (u_name p :: l) = 1)).
Proof. exact C09_reading_lemma. Qed.
Print Assumptions C09_reading.
