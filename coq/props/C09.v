(* C09 -- Accepted processor descriptions are well-formed.  C09_checkb (spec/LoaderSpec.v) says of the
   loaded processor: acyclic; unit names unique ignoring case; widths positive; no unit without
   capabilities; every connection joins units sharing a capability; every capability offered at an input
   port reaches an output port through units supporting it; every maximal route of such a capability
   from an input port crosses exactly one read-locking and exactly one write-locking unit. *)
From PS Require Import Base Str Sim Graph Loader Diag LoaderSpec C09_proof.

Theorem C09_sound :
  forall d P, load_proc_desc d = LoadOk P -> C09_checkb P = true.
Proof. exact C09_sound_lemma. Qed.
Print Assumptions C09_sound.

(* hence every accepted description yields a processor satisfying the structural part of the guard of the
   simulator theorems; the remaining clause (read lock not after write lock) is not checked by the loader *)
Theorem C09_accepted_is_simulable :
  forall d P, load_proc_desc d = LoadOk P ->
    nodupb String.eqb (unit_names P) = true /\ sink_first (p_int P) [] = true /\
    forallb (fun f => nodupb String.eqb (f_preds f)
                      && forallb (fun p => mem_str p (unit_names P) && negb (mem_str p (out_names P))) (f_preds f))
            (funits P) = true.
Proof. exact C09_accepted_is_simulable_lemma. Qed.
Print Assumptions C09_accepted_is_simulable.
