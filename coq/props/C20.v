(* C20 -- Loading, compiling and simulating are deterministic and side-effect free.
   In Coq every modelled operation is a function of its arguments, so determinism and absence of side
   effects of the MODEL are definitional.  What a theorem can add is that the model's one nondeterministic
   ingredient -- the iteration order of the Python sets the loader iterates -- is irrelevant.  Purity of
   the Python objects themselves (no hidden global state, no mutation of arguments) is established by the
   differential runs of harness/purity.py, not by a theorem: this property is claimed as PARTIAL. *)
From Coq Require Import Permutation.
From PS Require Import Base Str Sim Graph Loader OrderSpec C20_proof.

(* whatever order the set of new terminals is iterated in, the loader returns the same processor, or
   rejects with the same class of error (a dead input port, named from the same set of ports) *)
Theorem C20_set_order_irrelevant :
  forall (ord : list string -> list string) (d : desc),
    (forall l, Permutation (ord l) l) ->
    same_outcome (load_with (chk_terminals_ord ord) d) (load_proc_desc d).
Proof. exact C20_set_order_irrelevant_lemma. Qed.
Print Assumptions C20_set_order_irrelevant.

(* the capability and memory lists of a unit are stored sorted: the order in which the set-valued
   intermediate results list them does not reach the result *)
Theorem C20_unit_lists_order_irrelevant :
  forall n a a' mem mem',
    a_width a = a_width a' -> a_rl a = a_rl a' -> a_wl a = a_wl a' ->
    Permutation (a_caps a) (a_caps a') -> Permutation mem mem' ->
    mk_unit n a mem = mk_unit n a' mem'.
Proof. exact C20_unit_lists_order_irrelevant_lemma. Qed.
Print Assumptions C20_unit_lists_order_irrelevant.

(* the model is a function: equal inputs give equal results (stated for the record) *)
Theorem C20_model_is_a_function :
  forall d d', d = d' -> load_proc_desc d = load_proc_desc d'.
Proof. intros d d' H; rewrite H; reflexivity. Qed.
Print Assumptions C20_model_is_a_function.
