(* C06 -- In-order eager issue into the first usable input port (C06_instr_ok, spec/Diag.v): first
   appearances are in program order, each in an input port supporting the capability; while the next
   instruction is held back every such port is full at the end of the cycle or needs the memory port
   that another instruction took in that cycle; the port entered is the first by name that could take it. *)
From PS Require Import Base Bag RegAccess Sim Diag C06_proof.

Theorem C06_issue :
  forall (P : proc) (prog : list instr) (fuel : nat) (tg : dtag) (d : diagram),
    wf_procb P = true -> sim_result fuel P prog tg d -> C06_checkb P prog d = true.
Proof. exact C06_issue_lemma. Qed.
Print Assumptions C06_issue.
