(* FlowThm2 -- the loader calls the flow check exactly on graphs satisfying the hypotheses of
   flow_check_refines (props/FlowThm.v). *)
From Coq Require Import ZArith.
From PS Require Import Base Str Sim Graph Loader Flow FlowSpec Graph_facts.

(* the loader calls the check exactly on such graphs: at its call site in load_proc_desc (after unit
   and connection loading, the cycle check, clean_struct, rm_empty_units and chk_terminals) the hypotheses of
   flow_check_refines hold for every (capability, input ports) pair it iterates over *)
From PS Require Import Flow_loader.
Theorem flow_check_refines_in_loader :
  forall d s g order g1 at1 g2,
    add_units (d_units d) {| gs_g := g_empty; gs_at := []; gs_ureg := []; gs_creg := [] |} = inl s ->
    add_edges (d_edges d) (gs_ureg s) (gs_g s) = inl g ->
    topo_sort g = Some order ->
    rm_empty_units (clean_struct order (g, gs_at s)) = (g1, at1) ->
    chk_terminals (S (length (g_nodes g1))) g1 (in_ports_of g) (out_ports_of g) = inl g2 ->
    1 < length (g_nodes g2) ->
    forall cap ins, In (cap, ins) (cap_units g2 at1) ->
      chk_flow_detailed g2 at1 cap (out_ports_of g2) ins
      = flow_abs (chk_flow g2 at1 cap (out_ports_of g2) ins).
Proof. exact flow_check_refines_in_loader_lemma. Qed.
Print Assumptions flow_check_refines_in_loader.
