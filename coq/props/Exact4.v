(* Exact4 -- the checker of C03 on a RETURNED diagram holds iff only program instructions are shown and every
   program instruction has a route with the seven clauses of C03_reading (props/Readings.v), on every
   decodable diagram; no hypothesis on the processor (closed counterexamples for each half of diagram_shape
   in proofs/Exact4_c03_counterexample.v). *)
From PS Require Import Base Str Bag RegAccess Sim Graph Loader Diag Readings_defs Exact_defs Exact4_defs Exact4_c03.

Theorem C03_done_checker_exact :
  forall (P : proc) (prog : list instr) (d : diagram), diagram_shape d ->
    (C03_checkb P prog TDone d = true <-> C03_done_prop P prog d).
Proof. exact C03_done_checker_exact_lemma. Qed.
Print Assumptions C03_done_checker_exact.
