(* C08 -- Simulation always ends; a stall error means genuine deadlock. *)
From PS Require Import Base Bag RegAccess Sim Diag C08_proof.

(* within the bound the simulator ends with a diagram (Done) or a stall (Stalled): no crash, no fuel
   exhaustion, for every program (including unsupported capabilities) *)
Theorem C08_terminates_within_bound :
  forall (P : proc) (prog : list instr),
    wf_procb P = true -> wf_progb prog = true ->
    exists tg d, sim_result (S (cycle_bound P prog)) P prog tg d /\ length d <= cycle_bound P prog.
Proof. exact C08_terminates_within_bound_lemma. Qed.
Print Assumptions C08_terminates_within_bound.

(* no crash with any fuel *)
Theorem C08_no_crash :
  forall (P : proc) (prog : list instr) (fuel : nat) (e : pyerr),
    wf_procb P = true -> wf_progb prog = true -> simulate fuel P prog <> Crash e.
Proof. exact C08_no_crash_lemma. Qed.
Print Assumptions C08_no_crash.

(* the checker (bound, consecutive records differ, Done retires everything, Stalled is a fixed point of
   the cycle function on the state reconstructed from the diagram) accepts every model diagram *)
Theorem C08_checker_accepts :
  forall (P : proc) (prog : list instr) (fuel : nat) (tg : dtag) (d : diagram),
    wf_procb P = true -> wf_progb prog = true -> sim_result fuel P prog tg d -> C08_checkb P prog tg d = true.
Proof. exact C08_checker_accepts_lemma. Qed.
Print Assumptions C08_checker_accepts.
