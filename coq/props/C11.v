(* C11 -- Descriptions are rejected iff defective, with the documented error and culprit.
   C11_error_ok d e (spec/LoaderSpec.v): the defect of e's class is present in d with e's fields as the
   culprit.  C11_accept_ok d P: d has no syntactic defect and P is well-formed (C09) and exact (C10).
   Guard: acl_knownb (every memoryAccess entry names a declared capability); outside it the loader fails
   with an undocumented error (the listed finding, refuted below). *)
From PS Require Import Base Str Sim Graph Loader Diag LoaderSpec C11_proof.

Theorem C11_error_sound :
  forall d e, acl_knownb d = true ->
    load_proc_desc d = LoadErr e -> C11_error_ok d e = true.
Proof. exact C11_error_sound_lemma. Qed.
Print Assumptions C11_error_sound.

Theorem C11_accept_sound :
  forall d P, load_proc_desc d = LoadOk P -> C11_accept_ok d P = true.
Proof. exact C11_accept_sound_lemma. Qed.
Print Assumptions C11_accept_sound.

(* rejected iff defective: "defective" = the loader's own verdict is justified either way, and the model
   is total, so exactly one of the two holds for every description inside the guards *)
Theorem C11_iff :
  forall d, acl_knownb d = true ->
    (exists P, load_proc_desc d = LoadOk P /\ C11_accept_ok d P = true) \/
    (exists e, load_proc_desc d = LoadErr e /\ C11_error_ok d e = true).
Proof. exact C11_iff_lemma. Qed.
Print Assumptions C11_iff.

(* the listed finding: outside the guard a rejection is NOT a documented one *)
Theorem C11_refuted_acl :
  exists d, load_proc_desc d = LoadErr EAclAssert.
Proof. exact C11_refuted_acl_lemma. Qed.
Print Assumptions C11_refuted_acl.

(* the reading applied to implementation outputs: for a duplicate name ANY clashing pair (first defined
   earlier) is a real culprit; implied by C11_error_sound *)
From PS Require Import Domain C11_weak.
Theorem C11_error_sound_weak :
  forall d e, acl_knownb d = true -> load_proc_desc d = LoadErr e -> C11_error_okw d e = true.
Proof. exact C11_error_sound_weak_lemma. Qed.
Print Assumptions C11_error_sound_weak.

(* "its message contains them": the message of a documented rejection (model/Errors.v: the template of the
   raising site with the displayed forms of the error's elements substituted in one pass) contains the
   displayed form of every field of the error; for a dead input port, the port the message is about *)
From PS Require Import Errors C11_msg.
Theorem C11_message_names_culprit :
  forall e m f, In m (load_err_msgs e) -> In f (load_err_fields e) -> substrb f m = true.
Proof. exact C11_message_names_culprit_lemma. Qed.
Print Assumptions C11_message_names_culprit.

Theorem C11_dead_input_message :
  forall ports m, In m (load_err_msgs (EDeadInput ports)) ->
    exists p, In p ports /\ m = dead_input_msg p /\ substrb p m = true.
Proof. exact C11_dead_input_message_lemma. Qed.
Print Assumptions C11_dead_input_message.
