(* FlowThm -- justification of the one abstraction in the loader model (DESIGN.md section 5): Loader.chk_flow
   decides BlockedCapError by "no path in the capability graph", while the code builds an analysis graph
   (model/Flow.v: _make_cap_graph, _get_anal_graph, _aug_out_ports, split_nodes, _dist_edge_caps -- compared
   step by step with the implementation's own helper functions by the `flow` correspondence) and asks
   networkx for a maximum flow value.
   (1) max-flow/min-cut, the part that is needed: with positive finite capacities a feasible flow of
       positive value exists iff the sink can be reached from the source; so "maximum flow value = 0" means
       "no path".  (That networkx.maximum_flow_value returns the maximum is trusted.)
   (2) on the graphs the loader passes (well-formed, acyclic, more than one unit, positive widths, output
       ports = the units without successors, input ports without predecessors) the detailed check never
       meets networkx's error or unbounded cases and reports exactly what the abstract check reports. *)
From Coq Require Import ZArith.
From PS Require Import Base Str Sim Graph Loader Flow FlowSpec Graph_facts Flow_generic Flow_refine.

Theorem flow_positive_iff_path :
  forall (nodes : list string) (es : list (string * string)) (cap : string -> string -> option nat) (s t : string),
    NoDup nodes -> NoDup es -> (forall u v, In (u, v) es -> In u nodes /\ In v nodes) ->
    (forall u v c, In (u, v) es -> cap u v = Some c -> 0 < c) ->
    In s nodes -> In t nodes -> s <> t ->
    ((exists f, feasible nodes es cap f s t /\ (0 < value nodes f s)%Z) <-> epath es s t).
Proof. exact flow_positive_iff_path_lemma. Qed.
Print Assumptions flow_positive_iff_path.

Theorem flow_check_refines :
  forall (g : graph) (at_ : attrs) (c : string) (outs ins : list string),
    gwf g -> is_dag g = true -> 1 < length (g_nodes g) ->
    (forall n, In n (g_nodes g) -> 0 < a_width (attr_of at_ n)) ->
    outs = filter (fun n => out_degree g n =? 0) (g_nodes g) ->
    (forall p, In p ins -> In p (g_nodes g) /\ in_degree g p = 0 /\ has_cap at_ c p = true) ->
    chk_flow_detailed g at_ c outs ins = flow_abs (chk_flow g at_ c outs ins).
Proof. exact flow_check_refines_lemma. Qed.
Print Assumptions flow_check_refines.

