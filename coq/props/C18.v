(* C18 -- Case-insensitive strings obey equality, hash and order laws (model/Str.v, Latin-1 text). *)
From PS Require Import Base Str C18_proof.

Theorem C18_eq : forall a b, ic_eqb a b = true <-> lower a = lower b.
Proof. exact C18_eq_lemma. Qed.
Print Assumptions C18_eq.

Theorem C18_hash : forall a b, ic_eqb a b = true -> ic_hash_key a = ic_hash_key b.
Proof. exact C18_hash_lemma. Qed.
Print Assumptions C18_hash.

(* ordered exactly as the lower-cased texts; a strict total order compatible with equality *)
Theorem C18_order :
  (forall a b, ic_ltb a b = String.ltb (lower a) (lower b)) /\
  (forall a, ic_ltb a a = false) /\
  (forall a b c, ic_ltb a b = true -> ic_ltb b c = true -> ic_ltb a c = true) /\
  (forall a b, (ic_ltb a b = true /\ ic_eqb a b = false /\ ic_ltb b a = false) \/
               (ic_ltb a b = false /\ ic_eqb a b = true /\ ic_ltb b a = false) \/
               (ic_ltb a b = false /\ ic_eqb a b = false /\ ic_ltb b a = true)).
Proof. exact C18_order_lemma. Qed.
Print Assumptions C18_order.

(* containment ignores case: item is a substring of self after lower-casing both *)
Theorem C18_contains :
  forall self item, ic_contains self item = true <->
                    exists p s, lower self = (p ++ lower item ++ s)%string.
Proof. exact C18_contains_lemma. Qed.
Print Assumptions C18_contains.

Theorem C18_str : forall a, ic_str a = a.
Proof. exact C18_str_lemma. Qed.
Print Assumptions C18_str.

(* lower-casing is idempotent, touches only A-Z, and agrees with upper-casing on equality *)
Theorem C18_lower_facts :
  (forall a, lower (lower a) = lower a) /\ (forall a, ic_eqb (lower a) a = true) /\
  (forall a, ic_eqb (upper a) a = true).
Proof. exact C18_lower_facts_lemma. Qed.
Print Assumptions C18_lower_facts.
