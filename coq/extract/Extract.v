(* Extraction of the executable model and the verified checkers to OCaml.
   Only ExtrOcamlBasic (bool, option, unit, prod, list, sumbool, sumor mapped to OCaml's);
   nat, string, ascii stay the extracted inductives.  No Extract Constant. *)
From Coq Require Extraction ExtrOcamlBasic.
From PS Require Import Base Str Bag RegAccess Sim Diag.
Extraction Language OCaml.
Set Extraction Optimize.
Extraction "../ocaml/model.ml"
  Str.lower Str.upper Str.ic_eqb Str.ic_ltb Str.ic_contains Str.ic_hash_key
  Bag.bag_eqb Bag.bag_len Bag.bag_repr Bag.canon_record Bag.bag_items
  RegAccess.build_queue RegAccess.can_access RegAccess.dequeue RegAccess.qb_append
  Sim.simulate_default Sim.run_cycle Sim.cycle_bound Sim.build_acc_plan
  Diag.wf_procb Diag.C01_order_checkb Diag.C01_replay_checkb Diag.C02_checkb Diag.C03_checkb Diag.C04_checkb
  Diag.C05_checkb Diag.C06_checkb Diag.C07_checkb Diag.C08_checkb.
