(* Extraction of the executable model and the verified checkers to OCaml.
   Only ExtrOcamlBasic (bool, option, unit, prod, list, sumbool, sumor mapped to OCaml's);
   nat, Z, positive, string, ascii stay the extracted inductives.  No Extract Constant. *)
From Coq Require Extraction ExtrOcamlBasic.
From Coq Require Import ZArith.
From PS Require Import Base Str Bag RegAccess Sim Program Isa Graph Loader Errors Flow Cli Diag QueueSpec LoaderSpec Domain C12Exact C10Exact.
Extraction Language OCaml.
Set Extraction Optimize.
Extraction "../ocaml/model.ml"
  Str.lower Str.upper Str.ic_eqb Str.ic_ltb Str.ic_contains Str.ic_hash_key Str.ic_str
  Bag.bag_eqb Bag.bag_len Bag.bag_repr Bag.canon_record Bag.bag_items
  RegAccess.build_queue RegAccess.can_access RegAccess.dequeue RegAccess.qb_append
  Sim.simulate_default Sim.run_cycle Sim.cycle_bound Sim.build_acc_plan
  Program.read_program Program.code_err_msg Program.strip
  Isa.load_isa Isa.get_abilities Isa.compile_program
  Loader.load_proc_desc Loader.make_desc
  Errors.load_err_msgs Errors.isa_err_msg Errors.comp_err_msg
  Flow.flow_setup Flow.port_flows Flow.chk_flow_detailed Loader.chk_flow Graph.add_node Graph.add_edge Graph.g_empty Graph.edges
  Cli.sim_rows Cli.print_table
  Domain.wf_domainb Domain.C11_error_okw Diag.wf_procb Diag.wf_progb Diag.C01_order_checkb Diag.C01_replay_checkb Diag.C02_checkb Diag.C03_checkb
  Diag.C04_checkb Diag.C05_checkb Diag.C06_checkb Diag.C07_checkb Diag.C08_checkb
  QueueSpec.a_init QueueSpec.a_can_access QueueSpec.a_dequeue QueueSpec.a_empty QueueSpec.abs_queue
  LoaderSpec.C09_checkb LoaderSpec.C10_checkb LoaderSpec.C11_error_ok LoaderSpec.C11_accept_ok
  LoaderSpec.C12_order_checkb LoaderSpec.C12_classify_checkb LoaderSpec.C12_parts_checkb
  C12Exact.C12_listing_checkb C12Exact.C12_parts_listing_checkb C10Exact.C10_judgeb C10Exact.C11_accept_judgeb
  BinInt.Z.of_nat BinInt.Z.to_nat BinInt.Z.opp.
