(* PyLiteFacts.v -- fuel is only a bound: a call that ends (with a value or with a Python error) under some fuel ends
   the same way under any larger fuel.  `r1 <<= r2`: r1 ran out of fuel, or r1 = r2. *)
From PS Require Import Base RegAccess PyLite.

Definition rle {A} (r1 r2 : pres A) : Prop := r1 = PErr POutOfFuel \/ r1 = r2.
Notation "a <<= b" := (rle a b) (at level 70).

Lemma rle_refl {A} (r : pres A) : r <<= r.
Proof. right; reflexivity. Qed.

Lemma pbind_le {A B} (r1 r2 : pres A) (f1 f2 : A -> pres B) :
  r1 <<= r2 -> (forall a, f1 a <<= f2 a) -> pbind r1 f1 <<= pbind r2 f2.
Proof.
  intros [H|H] Hf; subst.
  - left; reflexivity.
  - destruct r2 as [a|e]; cbn; [apply Hf|apply rle_refl].
Qed.

(* a stronger induction principle for the nested type expr *)
Section ExprInd.
  Variable P : expr -> Prop.
  Hypothesis HName : forall x, P (EName x).
  Hypothesis HNone : P ENone.
  Hypothesis HBool : forall b, P (EBool b).
  Hypothesis HInt : forall n, P (EInt n).
  Hypothesis HAttr : forall e a, P e -> P (EAttr e a).
  Hypothesis HIdx : forall e neg k, P e -> P (EIdx e neg k).
  Hypothesis HAnd : forall a b, P a -> P b -> P (EAnd a b).
  Hypothesis HOr : forall a b, P a -> P b -> P (EOr a b).
  Hypothesis HNot : forall a, P a -> P (ENot a).
  Hypothesis HCmp : forall op a b, P a -> P b -> P (ECmp op a b).
  Hypothesis HSet : forall es, Forall P es -> P (ESetLit es).
  Hypothesis HCall : forall f args, Forall P args -> P (ECall f args).
  Hypothesis HMeth : forall r m args, P r -> Forall P args -> P (EMeth r m args).
  Fixpoint expr_ind' (e : expr) : P e :=
    let fix go (l : list expr) : Forall P l :=
      match l with [] => Forall_nil P | x :: t => Forall_cons x (expr_ind' x) (go t) end in
    match e with
    | EName x => HName x | ENone => HNone | EBool b => HBool b | EInt n => HInt n
    | EAttr e1 a => HAttr e1 a (expr_ind' e1)
    | EIdx e1 neg k => HIdx e1 neg k (expr_ind' e1)
    | EAnd a b => HAnd a b (expr_ind' a) (expr_ind' b)
    | EOr a b => HOr a b (expr_ind' a) (expr_ind' b)
    | ENot a => HNot a (expr_ind' a)
    | ECmp op a b => HCmp op a b (expr_ind' a) (expr_ind' b)
    | ESetLit es => HSet es (go es)
    | ECall f args => HCall f args (go args)
    | EMeth r m args => HMeth r m args (expr_ind' r) (go args)
    end.
End ExprInd.

Section Mono.
  Variable cs : list cdecl.
  Variables cf1 cf2 : string -> list val -> pres val.
  Variables cm1 cm2 : val -> string -> list val -> pres val.
  Hypothesis Hcf : forall f a, cf1 f a <<= cf2 f a.
  Hypothesis Hcm : forall v m a, cm1 v m a <<= cm2 v m a.

  Lemma evals_inner_le en es :
    Forall (fun e => forall en, eval cs cf1 cm1 en e <<= eval cs cf2 cm2 en e) es ->
    (fix evals (es : list expr) : pres (list val) :=
       match es with [] => POk [] | e1 :: t => v <- eval cs cf1 cm1 en e1 ;; vs <- evals t ;; POk (v :: vs) end) es
    <<=
    (fix evals (es : list expr) : pres (list val) :=
       match es with [] => POk [] | e1 :: t => v <- eval cs cf2 cm2 en e1 ;; vs <- evals t ;; POk (v :: vs) end) es.
  Proof.
    induction 1 as [|e t He _ IH]; [apply rle_refl|].
    apply pbind_le; [apply He|]. intros v. apply pbind_le; [exact IH|]. intros vs. apply rle_refl.
  Qed.

  Lemma eval_le : forall e en, eval cs cf1 cm1 en e <<= eval cs cf2 cm2 en e.
  Proof.
    induction e using expr_ind'; intros en; cbn [eval]; try apply rle_refl.
    - apply pbind_le; [apply IHe|]. intros; apply rle_refl.
    - apply pbind_le; [apply IHe|]. intros; apply rle_refl.
    - apply pbind_le; [apply IHe1|]. intros va. destruct (truthy va); [apply IHe2|apply rle_refl].
    - apply pbind_le; [apply IHe1|]. intros va. destruct (truthy va); [apply rle_refl|apply IHe2].
    - apply pbind_le; [apply IHe|]. intros; apply rle_refl.
    - apply pbind_le; [apply IHe1|]. intros va. apply pbind_le; [apply IHe2|]. intros; apply rle_refl.
    - apply pbind_le; [apply evals_inner_le; exact H|]. intros; apply rle_refl.
    - apply pbind_le; [apply evals_inner_le; exact H|]. intros vs. destruct (builtin f vs); [apply rle_refl|apply Hcf].
    - apply pbind_le; [apply IHe|]. intros r0. apply pbind_le; [apply evals_inner_le; exact H|]. intros vs. apply Hcm.
  Qed.

  Lemma evals_le : forall es en, evals cs cf1 cm1 en es <<= evals cs cf2 cm2 en es.
  Proof.
    induction es as [|e t IH]; intros en; cbn [evals]; [apply rle_refl|].
    apply pbind_le; [apply eval_le|]. intros v. apply pbind_le; [apply IH|]. intros; apply rle_refl.
  Qed.
End Mono.

Section StmtInd.
  Variable P : stmt -> Prop.
  Hypothesis HRet : forall e, P (SReturn e).
  Hypothesis HExpr : forall e, P (SExpr e).
  Hypothesis HDel : forall p neg k, P (SDel p neg k).
  Hypothesis HIf : forall c t f, Forall P t -> Forall P f -> P (SIf c t f).
  Fixpoint stmt_ind' (s : stmt) : P s :=
    let fix go (l : list stmt) : Forall P l :=
      match l with [] => Forall_nil P | x :: t => Forall_cons x (stmt_ind' x) (go t) end in
    match s with
    | SReturn e => HRet e | SExpr e => HExpr e | SDel p neg k => HDel p neg k
    | SIf c t f => HIf c t f (go t) (go f)
    end.
End StmtInd.

Section Mono2.
  Variable cs : list cdecl.
  Variables cf1 cf2 : string -> list val -> pres val.
  Variables cm1 cm2 : val -> string -> list val -> pres val.
  Hypothesis Hcf : forall f a, cf1 f a <<= cf2 f a.
  Hypothesis Hcm : forall v m a, cm1 v m a <<= cm2 v m a.

  Lemma execs_inner_le l :
    Forall (fun s => forall en, exec cs cf1 cm1 en s <<= exec cs cf2 cm2 en s) l ->
    forall en,
    (fix execs (en : env) (l : list stmt) : pres (env * option val) :=
       match l with
       | [] => POk (en, None)
       | s1 :: r => x <- exec cs cf1 cm1 en s1 ;; match snd x with Some _ => POk x | None => execs (fst x) r end
       end) en l
    <<=
    (fix execs (en : env) (l : list stmt) : pres (env * option val) :=
       match l with
       | [] => POk (en, None)
       | s1 :: r => x <- exec cs cf2 cm2 en s1 ;; match snd x with Some _ => POk x | None => execs (fst x) r end
       end) en l.
  Proof.
    induction 1 as [|s t Hs _ IH]; intros en; [apply rle_refl|].
    apply pbind_le; [apply Hs|]. intros x. destruct (snd x); [apply rle_refl|apply IH].
  Qed.

  Lemma exec_le : forall s en, exec cs cf1 cm1 en s <<= exec cs cf2 cm2 en s.
  Proof.
    induction s using stmt_ind'; intros en; cbn [exec].
    - apply pbind_le; [apply eval_le; assumption|]. intros; apply rle_refl.
    - destruct e; try apply rle_refl.
      apply pbind_le; [apply evals_le; assumption|]. intros; apply rle_refl.
    - apply rle_refl.
    - apply pbind_le; [apply eval_le; assumption|]. intros v.
      destruct (truthy v); apply execs_inner_le; assumption.
  Qed.

  Lemma execs_le : forall l en, execs cs cf1 cm1 en l <<= execs cs cf2 cm2 en l.
  Proof.
    induction l as [|s t IH]; intros en; cbn [execs]; [apply rle_refl|].
    apply pbind_le; [apply exec_le|]. intros x. destruct (snd x); [apply rle_refl|apply IH].
  Qed.
End Mono2.

(* one unfolding of `call`, with the recursive occurrence abstracted *)
Definition call_body (M : pmodule) (rec : target -> list val -> pres (val * val)) (t : target) (args : list val)
  : pres (val * val) :=
  let callf := fun f vs => r <- rec (TFunc f) vs ;; POk (snd r) in
  let callm := fun self m vs =>
    match class_of self with
    | Some c => match find_class (pm_classes M) c with
                | Some d => match find_method (cd_methods d) m with
                            | Some md => if forallb pure_stmt (md_body md)
                                         then r <- rec (TMeth self m) vs ;; POk (snd r)
                                         else PErr PUnsupported
                            | None => PErr PAttributeError
                            end
                | None => PErr PAttributeError
                end
    | None => PErr PUnsupported
    end in
  let run := fun (en : env) (body : list stmt) => execs (pm_classes M) callf callm en body in
  match t with
  | TFunc f =>
      match find_method (pm_funcs M) f with
      | Some md => en <- bind_params (md_params md) args ;;
                   r <- run en (md_body md) ;;
                   POk (VNone, match snd r with Some v => v | None => VNone end)
      | None =>
          match find_class (pm_classes M) f with
          | Some (mkC c (KAttrs fields) _) =>
              let fix build (fs : list fdecl) (args : list val) : pres (list (string * val)) :=
                match fs with
                | [] => match args with [] => POk [] | _ => PErr PTypeError end
                | fd :: fs' =>
                    let conv := fun v => match fd_conv fd with
                                         | None => POk v
                                         | Some g => match builtin g [v] with Some r => r | None => callf g [v] end
                                         end in
                    let dflt := match fd_factory fd with
                                | Some g => match builtin g [] with Some r => r | None => callf g [] end
                                | None => PErr PTypeError
                                end in
                    match fd_init fd, args with
                    | true, a :: args' => v <- conv a ;; r <- build fs' args' ;; POk ((fd_name fd, v) :: r)
                    | _, _ => d <- dflt ;; v <- conv d ;; r <- build fs' args ;; POk ((fd_name fd, v) :: r)
                    end
                end in
              fs <- build fields args ;; POk (VNone, VObj c fs)
          | _ => PErr PNameError
          end
      end
  | TMeth self m =>
      match class_of self with
      | Some c => match find_class (pm_classes M) c with
                  | Some d => match find_method (cd_methods d) m with
                              | Some md =>
                                  match md_params md with
                                  | sname :: ps =>
                                      en <- bind_params ps args ;;
                                      r <- run ((sname, self) :: en) (md_body md) ;;
                                      match assoc_opt (fst r) sname with
                                      | Some self' => POk (self', match snd r with Some v => v | None => VNone end)
                                      | None => PErr PNameError
                                      end
                                  | [] => PErr PTypeError
                                  end
                              | None => PErr PAttributeError
                              end
                  | None => PErr PAttributeError
                  end
      | None => PErr PUnsupported
      end
  end.

Lemma call_unfold M f t args : call M (S f) t args = call_body M (call M f) t args.
Proof. reflexivity. Qed.

Lemma call_body_le M rec1 rec2 :
  (forall t a, rec1 t a <<= rec2 t a) -> forall t a, call_body M rec1 t a <<= call_body M rec2 t a.
Proof.
  intros Hrec t a. unfold call_body.
  set (cf1 := fun f vs => r <- rec1 (TFunc f) vs ;; POk (snd r)).
  set (cf2 := fun f vs => r <- rec2 (TFunc f) vs ;; POk (snd r)).
  assert (Hcf : forall f x, cf1 f x <<= cf2 f x).
  { intros f x. unfold cf1, cf2. apply pbind_le; [apply Hrec|]. intros; apply rle_refl. }
  match goal with |- context [execs _ cf1 ?m1] => set (cm1 := m1) end.
  match goal with |- context [execs _ cf2 ?m2] => set (cm2 := m2) end.
  assert (Hcm : forall v m x, cm1 v m x <<= cm2 v m x).
  { intros v m x. unfold cm1, cm2. destruct (class_of v); [|apply rle_refl].
    destruct (find_class (pm_classes M) s); [|apply rle_refl].
    destruct (find_method (cd_methods c) m); [|apply rle_refl].
    destruct (forallb pure_stmt (md_body m0)); [|apply rle_refl].
    apply pbind_le; [apply Hrec|]. intros; apply rle_refl. }
  destruct t as [f|self m].
  - destruct (find_method (pm_funcs M) f).
    + apply pbind_le; [apply rle_refl|]. intros en. apply pbind_le; [apply execs_le; assumption|]. intros; apply rle_refl.
    + destruct (find_class (pm_classes M) f) as [[c [ms|fields] meths]|]; try apply rle_refl.
      apply pbind_le; [|intros; apply rle_refl].
      revert a. induction fields as [|fd fs IH]; intros a; [apply rle_refl|].
      assert (Hconv : forall v,
                 match fd_conv fd with None => POk v | Some g => match builtin g [v] with Some r => r | None => cf1 g [v] end end
                 <<= match fd_conv fd with None => POk v | Some g => match builtin g [v] with Some r => r | None => cf2 g [v] end end).
      { intros v. destruct (fd_conv fd); [|apply rle_refl]. destruct (builtin s [v]); [apply rle_refl|apply Hcf]. }
      assert (Hd : match fd_factory fd with Some g => match builtin g [] with Some r => r | None => cf1 g [] end | None => PErr PTypeError end
                   <<= match fd_factory fd with Some g => match builtin g [] with Some r => r | None => cf2 g [] end | None => PErr PTypeError end).
      { destruct (fd_factory fd); [|apply rle_refl]. destruct (builtin s []); [apply rle_refl|apply Hcf]. }
      destruct (fd_init fd); destruct a as [|x a'].
      * apply pbind_le; [exact Hd|]. intros d. apply pbind_le; [apply Hconv|]. intros v.
        apply pbind_le; [apply IH|]. intros; apply rle_refl.
      * apply pbind_le; [apply Hconv|]. intros v. apply pbind_le; [apply IH|]. intros; apply rle_refl.
      * apply pbind_le; [exact Hd|]. intros d. apply pbind_le; [apply Hconv|]. intros v.
        apply pbind_le; [apply IH|]. intros; apply rle_refl.
      * apply pbind_le; [exact Hd|]. intros d. apply pbind_le; [apply Hconv|]. intros v.
        apply pbind_le; [apply IH|]. intros; apply rle_refl.
  - destruct (class_of self); [|apply rle_refl].
    destruct (find_class (pm_classes M) s); [|apply rle_refl].
    destruct (find_method (cd_methods c) m); [|apply rle_refl].
    destruct (md_params m0); [apply rle_refl|].
    apply pbind_le; [apply rle_refl|]. intros en. apply pbind_le; [apply execs_le; assumption|]. intros; apply rle_refl.
Qed.

(* fuel is only a bound *)
Theorem call_fuel_mono : forall M f t args, call M f t args <<= call M (S f) t args.
Proof.
  intros M f. induction f as [|f IH]; intros t args.
  - left. reflexivity.
  - rewrite !call_unfold. apply call_body_le. exact IH.
Qed.
Print Assumptions call_fuel_mono.

Corollary call_fuel_ok : forall M f t args r, call M f t args = POk r -> call M (S f) t args = POk r.
Proof. intros M f t args r H. destruct (call_fuel_mono M f t args) as [E|E]; congruence. Qed.

Corollary call_fuel_err : forall M f t args e,
  call M f t args = PErr e -> e <> POutOfFuel -> call M (S f) t args = PErr e.
Proof. intros M f t args e H Hn. destruct (call_fuel_mono M f t args) as [E|E]; congruence. Qed.
