(* PyLite.v -- a small deep embedding of the Python subset in which reg_access.py is written, with an
   executable big-step semantics.  harness/py2coq.py dumps the `ast` of the CURRENT source file into terms of
   these types (coq/gen/*.v, regenerated on every run, fail-closed on any construct not listed here), and
   props/SrcRefine.v proves that the dumped program refines the hand-written model (model/RegAccess.v).

   What the semantics covers: attrs-style classes (positional init fields, converter, factory), enum classes,
   methods and module functions, constants, names, attribute reads, constant subscripts (also negative),
   and/or/not with Python's operand-returning short circuit, ==, !=, in, not in, <, <=, >, >= on ints, set
   displays, calls of len/list/reversed/set, of module functions, of constructors and of side-effect-free
   methods; statements return / if / del place[k] / place.remove|discard|add|append(x) where a place is a
   name followed by attribute and constant-subscript accesses.
   What it does not: local assignment and aliasing (values are trees; `RegAccessQueue(self._queue)` shares its
   AccessGroup objects with the builder in CPython, here it copies), loops, exceptions other than the built-in
   IndexError/KeyError/TypeError/AttributeError/NameError raised by the operations above, sets of anything
   but non-negative ints.  Sets are duplicate-free lists; their order is unobservable through the subset. *)
From PS Require Import Base RegAccess.

Inductive perr := PIndexError | PKeyError | PTypeError | PAttributeError | PNameError | PUnsupported | POutOfFuel.
Inductive pres (A : Type) := POk (a : A) | PErr (e : perr).
Arguments POk {A}. Arguments PErr {A}.
Definition pbind {A B} (x : pres A) (f : A -> pres B) : pres B :=
  match x with POk a => f a | PErr e => PErr e end.
Notation "x <- e1 ;; e2" := (pbind e1 (fun x => e2)) (at level 61, e1 at next level, right associativity).

Inductive val :=
| VNone | VBool (b : bool) | VInt (n : nat)
| VEnum (cls mem : string)
| VCls (cls : string)
| VSet (l : list nat)
| VList (l : list val)
| VObj (cls : string) (fs : list (string * val)).

Inductive cmpop := CEq | CNotEq | CIn | CNotIn | CLt | CLe | CGt | CGe.

Inductive expr :=
| EName (x : string)
| ENone | EBool (b : bool) | EInt (n : nat)
| EAttr (e : expr) (a : string)
| EIdx (e : expr) (neg : bool) (k : nat)
| EAnd (a b : expr) | EOr (a b : expr) | ENot (a : expr)
| ECmp (op : cmpop) (a b : expr)
| ESetLit (es : list expr)
| ECall (f : string) (args : list expr)
| EMeth (recv : expr) (m : string) (args : list expr).

Inductive stmt :=
| SReturn (e : expr)
| SExpr (e : expr)
| SDel (place : expr) (neg : bool) (k : nat)
| SIf (c : expr) (t f : list stmt).

Record fdecl := mkF { fd_name : string; fd_init : bool; fd_conv : option string; fd_factory : option string }.
Record mdecl := mkM { md_name : string; md_params : list string; md_body : list stmt }.
Inductive ckind := KEnum (members : list string) | KAttrs (fields : list fdecl).
Record cdecl := mkC { cd_name : string; cd_kind : ckind; cd_methods : list mdecl }.
Record pmodule := mkP { pm_classes : list cdecl; pm_funcs : list mdecl }.

Definition env := list (string * val).

Definition truthy (v : val) : bool :=
  match v with
  | VNone => false | VBool b => b | VInt n => negb (n =? 0)
  | VSet l => match l with [] => false | _ => true end
  | VList l => match l with [] => false | _ => true end
  | VEnum _ _ | VCls _ | VObj _ _ => true
  end.

Definition find_class (cs : list cdecl) (c : string) : option cdecl :=
  find (fun d => String.eqb c (cd_name d)) cs.
Definition find_method (ms : list mdecl) (m : string) : option mdecl :=
  find (fun d => String.eqb m (md_name d)) ms.

(* l[k] / l[-k] with a constant k *)
Definition py_index {A} (l : list A) (neg : bool) (k : nat) : option nat :=
  if neg then (if (1 <=? k) && (k <=? length l) then Some (length l - k) else
               if k =? 0 then (if 0 <? length l then Some 0 else None) else None)
  else if k <? length l then Some k else None.

Definition subsetn (a b : list nat) : bool := forallb (fun x => memn x b) a.

Definition py_eq (a b : val) : pres bool :=
  match a, b with
  | VNone, VNone => POk true
  | VBool x, VBool y => POk (Bool.eqb x y)
  | VInt x, VInt y => POk (x =? y)
  | VBool _, VInt _ | VInt _, VBool _ => PErr PUnsupported
  | VEnum c m, VEnum c' m' => POk (String.eqb c c' && String.eqb m m')
  | VCls c, VCls c' => POk (String.eqb c c')
  | VSet x, VSet y => POk (subsetn x y && subsetn y x)
  | VList _, _ | _, VList _ | VObj _ _, _ | _, VObj _ _ => PErr PUnsupported
  | _, _ => POk false
  end.

Definition py_in (a b : val) : pres bool :=
  match a, b with
  | VInt n, VSet l => POk (memn n l)
  | _, _ => PErr PUnsupported
  end.

Definition py_cmp (op : cmpop) (a b : val) : pres val :=
  match op with
  | CEq => r <- py_eq a b ;; POk (VBool r)
  | CNotEq => r <- py_eq a b ;; POk (VBool (negb r))
  | CIn => r <- py_in a b ;; POk (VBool r)
  | CNotIn => r <- py_in a b ;; POk (VBool (negb r))
  | CLt | CLe | CGt | CGe =>
      match a, b with
      | VInt x, VInt y => POk (VBool (match op with CLt => x <? y | CLe => x <=? y | CGt => y <? x | _ => y <=? x end))
      | _, _ => PErr PUnsupported
      end
  end.

Definition to_set (v : val) : pres val :=
  match v with
  | VSet l => POk (VSet l)
  | VList l => r <- fold_left (fun acc x => a <- acc ;; match x with VInt n => POk (set_add n a) | _ => PErr PUnsupported end)
                              l (POk []) ;; POk (VSet r)
  | _ => PErr PUnsupported
  end.

Definition builtin (f : string) (args : list val) : option (pres val) :=
  if String.eqb f "len" then
    Some (match args with [VList l] => POk (VInt (length l)) | [VSet l] => POk (VInt (length l)) | _ => PErr PTypeError end)
  else if String.eqb f "list" then
    Some (match args with [] => POk (VList []) | [VList l] => POk (VList l) | _ => PErr PUnsupported end)
  else if String.eqb f "reversed" then
    Some (match args with [VList l] => POk (VList (rev l)) | _ => PErr PUnsupported end)
  else if String.eqb f "set" then
    Some (match args with [] => POk (VSet []) | [v] => to_set v | _ => PErr PTypeError end)
  else None.

Definition get_attr (cs : list cdecl) (v : val) (a : string) : pres val :=
  match v with
  | VObj _ fs => match assoc_opt fs a with Some x => POk x | None => PErr PAttributeError end
  | VCls c => match find_class cs c with
              | Some (mkC _ (KEnum ms) _) => if mem_str a ms then POk (VEnum c a) else PErr PAttributeError
              | _ => PErr PAttributeError
              end
  | _ => PErr PAttributeError
  end.

Definition get_idx (v : val) (neg : bool) (k : nat) : pres val :=
  match v with
  | VList l => match py_index l neg k with
               | Some i => match nth_error l i with Some x => POk x | None => PErr PIndexError end
               | None => PErr PIndexError
               end
  | _ => PErr PTypeError
  end.

Section Eval.
  Variable cs : list cdecl.
  Variable callf : string -> list val -> pres val.            (* module function or constructor *)
  Variable callm : val -> string -> list val -> pres val.     (* side-effect-free method *)

  Fixpoint eval (en : env) (e : expr) {struct e} : pres val :=
    let evals := fix evals (es : list expr) : pres (list val) :=
      match es with [] => POk [] | e1 :: t => v <- eval en e1 ;; vs <- evals t ;; POk (v :: vs) end in
    match e with
    | EName x => match assoc_opt en x with
                 | Some v => POk v
                 | None => match find_class cs x with Some _ => POk (VCls x) | None => PErr PNameError end
                 end
    | ENone => POk VNone
    | EBool b => POk (VBool b)
    | EInt n => POk (VInt n)
    | EAttr e1 a => v <- eval en e1 ;; get_attr cs v a
    | EIdx e1 neg k => v <- eval en e1 ;; get_idx v neg k
    | EAnd a b => va <- eval en a ;; if truthy va then eval en b else POk va
    | EOr a b => va <- eval en a ;; if truthy va then POk va else eval en b
    | ENot a => va <- eval en a ;; POk (VBool (negb (truthy va)))
    | ECmp op a b => va <- eval en a ;; vb <- eval en b ;; py_cmp op va vb
    | ESetLit es => vs <- evals es ;; to_set (VList vs)
    | ECall f args => vs <- evals args ;;
                      match builtin f vs with Some r => r | None => callf f vs end
    | EMeth recv m args => r <- eval en recv ;; vs <- evals args ;; callm r m vs
    end.

  Fixpoint evals (en : env) (es : list expr) : pres (list val) :=
    match es with [] => POk [] | e1 :: t => v <- eval en e1 ;; vs <- evals en t ;; POk (v :: vs) end.

  (* functional update of the object tree at a place expression *)
  Fixpoint upd (en : env) (place : expr) (f : val -> pres val) {struct place} : pres env :=
    match place with
    | EName x => match assoc_opt en x with
                 | Some v => v' <- f v ;; POk (set en x v')
                 | None => PErr PNameError
                 end
    | EAttr p a => upd en p (fun o => match o with
                                      | VObj c fs => match assoc_opt fs a with
                                                     | Some v => v' <- f v ;; POk (VObj c (set fs a v'))
                                                     | None => PErr PAttributeError
                                                     end
                                      | _ => PErr PAttributeError
                                      end)
    | EIdx p neg k => upd en p (fun o => match o with
                                         | VList l => match py_index l neg k with
                                                      | Some i => match nth_error l i with
                                                                  | Some v => v' <- f v ;; POk (VList (firstn i l ++ v' :: skipn (S i) l))
                                                                  | None => PErr PIndexError
                                                                  end
                                                      | None => PErr PIndexError
                                                      end
                                         | _ => PErr PTypeError
                                         end)
    | _ => PErr PUnsupported
    end.

  Definition mutate (m : string) (args : list val) (v : val) : pres val :=
    match v, args with
    | VSet l, [VInt n] =>
        if String.eqb m "remove" then (if memn n l then POk (VSet (set_remove n l)) else PErr PKeyError)
        else if String.eqb m "discard" then POk (VSet (set_remove n l))
        else if String.eqb m "add" then POk (VSet (set_add n l))
        else PErr PUnsupported
    | VList l, [x] => if String.eqb m "append" then POk (VList (l ++ [x])) else PErr PUnsupported
    | _, _ => PErr PUnsupported
    end.

  Fixpoint exec (en : env) (s : stmt) {struct s} : pres (env * option val) :=
    let execs := fix execs (en : env) (l : list stmt) : pres (env * option val) :=
      match l with
      | [] => POk (en, None)
      | s1 :: r => x <- exec en s1 ;; match snd x with Some _ => POk x | None => execs (fst x) r end
      end in
    match s with
    | SReturn e => v <- eval en e ;; POk (en, Some v)
    | SExpr (EMeth place m args) => vs <- evals en args ;; en' <- upd en place (mutate m vs) ;; POk (en', None)
    | SExpr _ => PErr PUnsupported
    | SDel place neg k =>
        en' <- upd en place (fun o => match o with
                                      | VList l => match py_index l neg k with
                                                   | Some i => POk (VList (del_nth i l))
                                                   | None => PErr PIndexError
                                                   end
                                      | _ => PErr PTypeError
                                      end) ;; POk (en', None)
    | SIf c t f => v <- eval en c ;; if truthy v then execs en t else execs en f
    end.

  Fixpoint execs (en : env) (l : list stmt) : pres (env * option val) :=
    match l with
    | [] => POk (en, None)
    | s1 :: r => x <- exec en s1 ;; match snd x with Some _ => POk x | None => execs (fst x) r end
    end.
End Eval.

Fixpoint pure_stmt (s : stmt) : bool :=
  match s with
  | SReturn _ => true
  | SExpr _ | SDel _ _ _ => false
  | SIf _ t f => forallb pure_stmt t && forallb pure_stmt f
  end.

Fixpoint bind_params (ps : list string) (args : list val) : pres env :=
  match ps, args with
  | [], [] => POk []
  | p :: ps', a :: args' => r <- bind_params ps' args' ;; POk ((p, a) :: r)
  | _, _ => PErr PTypeError
  end.

Inductive target := TFunc (f : string) | TMeth (self : val) (m : string).

Definition class_of (v : val) : option string := match v with VObj c _ => Some c | _ => None end.

(* the fuelled top level: calls of module functions, constructors and methods.  A call returns the receiver
   after the call (VNone for functions) and the returned value (None of Python when the body falls through) *)
Fixpoint call (M : pmodule) (fuel : nat) (t : target) (args : list val) {struct fuel} : pres (val * val) :=
  match fuel with
  | 0 => PErr POutOfFuel
  | S fuel' =>
      let callf := fun f vs => r <- call M fuel' (TFunc f) vs ;; POk (snd r) in
      let callm := fun self m vs =>
        match class_of self with
        | Some c => match find_class (pm_classes M) c with
                    | Some d => match find_method (cd_methods d) m with
                                | Some md => if forallb pure_stmt (md_body md)
                                             then r <- call M fuel' (TMeth self m) vs ;; POk (snd r)
                                             else PErr PUnsupported
                                | None => PErr PAttributeError
                                end
                    | None => PErr PAttributeError
                    end
        | None => PErr PUnsupported
        end in
      let run := fun (en : env) (body : list stmt) => execs (pm_classes M) callf callm en body in
      match t with
      | TFunc f =>
          match find_method (pm_funcs M) f with
          | Some md => en <- bind_params (md_params md) args ;;
                       r <- run en (md_body md) ;;
                       POk (VNone, match snd r with Some v => v | None => VNone end)
          | None =>
              match find_class (pm_classes M) f with
              | Some (mkC c (KAttrs fields) _) =>
                  (* attrs-generated __init__: positional arguments fill the init fields in order, the others
                     (and missing trailing ones) come from their factory; converters run on every value *)
                  let fix build (fs : list fdecl) (args : list val) : pres (list (string * val)) :=
                    match fs with
                    | [] => match args with [] => POk [] | _ => PErr PTypeError end
                    | fd :: fs' =>
                        let conv := fun v => match fd_conv fd with
                                             | None => POk v
                                             | Some g => match builtin g [v] with Some r => r | None => callf g [v] end
                                             end in
                        let dflt := match fd_factory fd with
                                    | Some g => match builtin g [] with Some r => r | None => callf g [] end
                                    | None => PErr PTypeError
                                    end in
                        match fd_init fd, args with
                        | true, a :: args' => v <- conv a ;; r <- build fs' args' ;; POk ((fd_name fd, v) :: r)
                        | _, _ => d <- dflt ;; v <- conv d ;; r <- build fs' args ;; POk ((fd_name fd, v) :: r)
                        end
                    end in
                  fs <- build fields args ;; POk (VNone, VObj c fs)
              | _ => PErr PNameError
              end
          end
      | TMeth self m =>
          match class_of self with
          | Some c => match find_class (pm_classes M) c with
                      | Some d => match find_method (cd_methods d) m with
                                  | Some md =>
                                      match md_params md with
                                      | sname :: ps =>
                                          en <- bind_params ps args ;;
                                          r <- run ((sname, self) :: en) (md_body md) ;;
                                          match assoc_opt (fst r) sname with
                                          | Some self' => POk (self', match snd r with Some v => v | None => VNone end)
                                          | None => PErr PNameError
                                          end
                                      | [] => PErr PTypeError
                                      end
                                  | None => PErr PAttributeError
                                  end
                      | None => PErr PAttributeError
                      end
          | None => PErr PUnsupported
          end
      end
  end.
