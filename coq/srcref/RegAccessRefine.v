(* RegAccessRefine.v -- the SOURCE of reg_access.py, as dumped today by harness/py2coq.py into gen/RegAccessSrc.v
   (definition SRC) and run by the PyLite semantics, refines the hand-written model model/RegAccess.v method by
   method; hence the statements of C19 hold of the source itself (last theorem).  `call SRC fuel t args` returns the
   receiver after the call and the returned value; any fuel >= 3 suffices (no recursion in the module). *)
From PS Require Import Base RegAccess QueueSpec PyLite RegAccessSrc RegAccessEmbed RegAccessRefine_proof.
Open Scope string_scope.

Theorem src_can_access : forall q ty o f, wfq q ->
  call SRC (S (S (S f))) (TMeth (e_queue q) "can_access") [e_aty ty; VInt o] =
  match can_access q ty o with Ok b => POk (e_queue q, VBool b) | Err e => PErr (lift_err e) end.
Proof. exact src_can_access_lemma. Qed.
Print Assumptions src_can_access.

Theorem src_dequeue : forall q o f,
  call SRC (S (S (S f))) (TMeth (e_queue q) "dequeue") [VInt o] =
  match dequeue q o with Ok q' => POk (e_queue q', VNone) | Err e => PErr (lift_err e) end.
Proof. exact src_dequeue_lemma. Qed.
Print Assumptions src_dequeue.

Theorem src_append : forall q ty o f,
  call SRC (S (S (S f))) (TMeth (e_builder q) "append") [e_aty ty; VInt o] = POk (e_builder (qb_append q ty o), VNone).
Proof. exact src_append_lemma. Qed.
Print Assumptions src_append.

Theorem src_new_builder : forall f, call SRC (S (S (S f))) (TFunc "RegAccQBuilder") [] = POk (VNone, e_builder []).
Proof. exact src_new_builder_lemma. Qed.
Print Assumptions src_new_builder.

Theorem src_create : forall q f,
  call SRC (S (S (S f))) (TMeth (e_builder q) "create") [] = POk (e_builder q, e_queue (qb_create q)).
Proof. exact src_create_lemma. Qed.
Print Assumptions src_create.

(* whole histories: building a queue from any request list, then any sequence of removals *)
Theorem src_build_refines : forall rs f, src_build SRC (S (S (S f))) rs = POk (e_queue (build_queue rs)).
Proof. exact src_build_lemma. Qed.
Print Assumptions src_build_refines.

Theorem src_hist_refines : forall h q f,
  src_hist SRC (S (S (S f))) (e_queue q) h =
  match run_hist q h with Ok q' => POk (e_queue q') | Err e => PErr (lift_err e) end.
Proof. exact src_hist_lemma. Qed.
Print Assumptions src_hist_refines.

(* the precondition of src_can_access holds along every history: request sets stay duplicate-free *)
Theorem src_wf_invariant : forall rs h q', run_hist (build_queue rs) h = Ok q' -> wfq q'.
Proof. intros rs h q' H. exact (run_hist_wfq h _ _ (build_queue_wfq rs) H). Qed.
Print Assumptions src_wf_invariant.

(* C19 on the source: after any permitted history the queue object answers can_access exactly as the abstract
   reading of the property (spec/QueueSpec.v: a_can_access) says, and none of the calls fails *)
Theorem C19_on_source :
  forall (rs : list req) (h : list nat) f,
    permitted (build_queue rs) h = true ->
    exists a qo0 qo,
      src_build SRC (S (S (S f))) rs = POk qo0 /\ src_hist SRC (S (S (S f))) qo0 h = POk qo /\
      a_run_hist (a_init rs) h = Some a /\
      forall ty o, call SRC (S (S (S f))) (TMeth qo "can_access") [e_aty ty; VInt o] =
                   if a_empty a then PErr PIndexError else POk (qo, VBool (a_can_access a ty o)).
Proof. exact C19_on_source_lemma. Qed.
Print Assumptions C19_on_source.

Example src_nonvacuous :    (* ADD R1, R1, R2 seen from R1 after a read by owner 7, run on the source *)
  exists qo, src_build SRC 3 [(RD, 7); (RD, 0); (WR, 0)] = POk qo /\
             call SRC 3 (TMeth qo "can_access") [e_aty WR; VInt 0] = POk (qo, VBool false) /\
             exists qo', src_hist SRC 3 qo [7] = POk qo' /\
                         call SRC 3 (TMeth qo' "can_access") [e_aty WR; VInt 0] = POk (qo', VBool true).
Proof. eexists. split; [vm_compute; reflexivity|]. split; [vm_compute; reflexivity|].
       eexists. split; vm_compute; reflexivity. Qed.
