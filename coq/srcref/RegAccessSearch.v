(* RegAccessSearch.v -- compiled by harness/srcref.py only when the refinement proofs no longer go through on the
   current source: a bounded SEARCH (not a proof) inside Coq for a concrete request list, removal history and query on
   which the dumped source (run by the PyLite semantics) and the model answer differently.  All request lists of
   length <= 3 over {READ, WRITE} x owners {0,1,2}, all removal histories of length <= 2, all six queries. *)
From PS Require Import Base RegAccess QueueSpec PyLite RegAccessSrc RegAccessEmbed.
Open Scope string_scope.

Definition reqs1 : list (aty * nat) := [(RD, 0); (RD, 1); (RD, 2); (WR, 0); (WR, 1); (WR, 2)].
Fixpoint lists_upto {A} (xs : list A) (n : nat) : list (list A) :=
  match n with
  | 0 => [[]]
  | S k => [] :: flat_map (fun l => map (fun x => x :: l) xs) (lists_upto xs k)
  end.

(* an answer: 0 = error, 1 = false, 2 = true, 3 = outside the PyLite subset / out of fuel *)
Definition code {A} (r : pres A) (f : A -> nat) : nat :=
  match r with POk a => f a | PErr PUnsupported | PErr POutOfFuel => 3 | PErr _ => 0 end.
Definition ans_model_q (qu : res queue) (q : aty * nat) : nat :=
  match qu with
  | Ok qu => match can_access qu (fst q) (snd q) with Ok true => 2 | Ok false => 1 | Err _ => 0 end
  | Err _ => 0
  end.
Definition ans_src_q (qo : pres val) (q : aty * nat) : nat :=
  code qo (fun qo => code (call SRC 6 (TMeth qo "can_access") [e_aty (fst q); VInt (snd q)])
                          (fun r => if truthy (snd r) then 2 else 1)).

Definition hists := lists_upto [0; 1; 2] 2.
(* first difference for one request list: the queue is built once, each history is run once *)
Definition mismatch_rs (rs : list (aty * nat)) : option (list nat * (aty * nat) * nat * nat) :=
  let qm0 := build_queue rs in
  let qs0 := src_build SRC 6 rs in
  (fix go (hs : list (list nat)) :=
     match hs with
     | [] => None
     | h :: t =>
         let qm := run_hist qm0 h in
         let qs := pbind qs0 (fun qo0 => src_hist SRC 6 qo0 h) in
         match find (fun q => negb (Nat.eqb (ans_src_q qs q) (ans_model_q qm q))) reqs1 with
         | Some q => Some (h, q, ans_src_q qs q, ans_model_q qm q)
         | None => go t
         end
     end) hists.

Definition mismatch : option (list (aty * nat) * (list nat * (aty * nat) * nat * nat)) :=
  (fix go (l : list (list (aty * nat))) :=
     match l with
     | [] => None
     | rs :: t => match mismatch_rs rs with Some m => Some (rs, m) | None => go t end
     end) (lists_upto reqs1 3).
Eval vm_compute in mismatch.
