(* Proofs that the PyLite dump of the CURRENT reg_access.py (gen/RegAccessSrc.v) refines model/RegAccess.v. *)
From PS Require Import Base RegAccess QueueSpec C19_proof PyLite RegAccessSrc RegAccessEmbed.
From Coq Require Import Lia.
Open Scope string_scope.
Open Scope nat_scope.
Open Scope list_scope.

Lemma nth_error_rev_last {A} (l : list A) k :
  k < length l -> nth_error (rev l) (length l - S k) = nth_error l k.
Proof.
  revert k. induction l as [|a l IH]; intros k Hk; cbn [length] in *; [lia|].
  cbn [rev]. destruct k as [|k].
  - replace (S (length l) - 1) with (length (rev l)) by (rewrite rev_length; lia).
    rewrite nth_error_app2 by lia. rewrite Nat.sub_diag. reflexivity.
  - replace (S (length l) - S (S k)) with (length l - S k) by lia.
    rewrite nth_error_app1 by (rewrite rev_length; lia). apply IH. lia.
Qed.

Lemma get_idx_rev (l : list val) k :
  get_idx (VList (rev l)) true (S k) =
  match nth_error l k with Some x => POk x | None => PErr PIndexError end.
Proof.
  unfold get_idx, py_index. rewrite rev_length.
  change (1 <=? S k) with true. cbn [andb].
  destruct (Nat.leb_spec (S k) (length l)) as [H|H].
  - rewrite nth_error_rev_last by lia.
    destruct (nth_error l k) eqn:E; [reflexivity|]. apply nth_error_None in E. lia.
  - change (S k =? 0) with false. cbv iota.
    destruct (nth_error l k) eqn:E; [|reflexivity].
    assert (Hn : nth_error l k <> None) by congruence. apply nth_error_Some in Hn. lia.
Qed.

Arguments get_idx : simpl never.
Arguments truthy : simpl nomatch.

Lemma py_index_app_last {A} (X : list A) a : py_index (X ++ [a]) true 1 = Some (length X).
Proof. unfold py_index. rewrite app_length. cbn [length]. change (1 <=? 1) with true.
  replace (1 <=? length X + 1) with true by (symmetry; apply Nat.leb_le; lia).
  cbn [andb]. f_equal. lia. Qed.
Lemma nth_error_app_last {A} (X : list A) a : nth_error (X ++ [a]) (length X) = Some a.
Proof. rewrite nth_error_app2 by lia. rewrite Nat.sub_diag. reflexivity. Qed.
Lemma firstn_app_last {A} (X : list A) a : firstn (length X) (X ++ [a]) = X.
Proof. rewrite firstn_app, Nat.sub_diag, firstn_all. cbn. apply app_nil_r. Qed.
Lemma skipn_app_last {A} (X : list A) a : skipn (S (length X)) (X ++ [a]) = [].
Proof. apply skipn_all2. rewrite app_length. cbn. lia. Qed.
Lemma del_nth_app_last {A} (X : list A) a : del_nth (length X) (X ++ [a]) = X.
Proof. induction X as [|x X IH]; cbn; [reflexivity|]. f_equal. exact IH. Qed.
Lemma get_idx_app_last X a : get_idx (VList (X ++ [a])) true 1 = POk a.
Proof. unfold get_idx. rewrite py_index_app_last, nth_error_app_last. reflexivity. Qed.
Lemma truthy_app_last X a : truthy (VList (X ++ [a])) = true.
Proof. destruct X; reflexivity. Qed.

(* symbolic evaluation: the dumped syntax is concrete, the queue is not *)
Ltac step := repeat (first [ rewrite get_idx_rev | rewrite rev_length | rewrite map_length
  | progress cbn [nth_error map length]
  | progress cbn -[rev map memn subsetn Nat.eqb is_singleton] ]).
Ltac stepd := repeat (first [ rewrite get_idx_app_last | rewrite py_index_app_last | rewrite nth_error_app_last
  | rewrite firstn_app_last | rewrite skipn_app_last | rewrite del_nth_app_last | rewrite truthy_app_last
  | progress cbn [rev map]
  | progress cbn -[rev map memn set_remove set_add py_index nth_error firstn skipn del_nth app] ]).

Lemma memn_In o l : memn o l = true <-> In o l.
Proof. unfold memn. rewrite existsb_exists. split.
  - intros [x [Hx He]]. apply Nat.eqb_eq in He. subst. exact Hx.
  - intros H. exists o. split; [exact H|apply Nat.eqb_refl]. Qed.

Lemma set_eq_singleton o l : NoDup l -> (subsetn l [o] && subsetn [o] l) = is_singleton o l.
Proof.
  intros Hnd. unfold subsetn. destruct l as [|x [|y t]].
  - reflexivity.
  - cbn. rewrite (Nat.eqb_sym x o). destruct (o =? x); reflexivity.
  - cbn [is_singleton]. apply Bool.andb_false_iff. left.
    destruct (forallb (fun x0 => memn x0 [o]) (x :: y :: t)) eqn:E; [|reflexivity]. exfalso.
    rewrite forallb_forall in E.
    assert (Hx : x = o). { specialize (E x (or_introl eq_refl)). apply memn_In in E. destruct E as [E|[]]. auto. }
    assert (Hy : y = o). { specialize (E y (or_intror (or_introl eq_refl))). apply memn_In in E. destruct E as [E|[]]. auto. }
    subst. inversion Hnd as [|? ? Hni _]. apply Hni. left. reflexivity.
Qed.

Definition lift_err (e : pyerr) : perr :=
  match e with IndexError => PIndexError | KeyError => PKeyError | UnknownUnit => PUnsupported end.

(* ---- RegAccessQueue.can_access (with _can_write_after_own_read) ---- *)
Lemma src_can_access_lemma : forall q ty o f, wfq q ->
  call SRC (S (S (S f))) (TMeth (e_queue q) "can_access") [e_aty ty; VInt o] =
  match can_access q ty o with Ok b => POk (e_queue q, VBool b) | Err e => PErr (lift_err e) end.
Proof.
  intros q ty o f Hwf. unfold e_queue.
  destruct q as [|[t1 r1] [|[t2 r2] rest]].
  - step. reflexivity.
  - step. destruct ty, t1; step; try reflexivity; destruct (memn o r1) eqn:E; step; reflexivity.
  - assert (Hnd : NoDup r1) by (inversion Hwf; assumption).
    step. destruct ty, t1; step; try reflexivity.
    all: try (destruct (memn o r1) eqn:E; step; reflexivity).
    change (set_add o []) with [o]. rewrite (set_eq_singleton o r1 Hnd).
    destruct (is_singleton o r1), t2; step; try reflexivity.
Qed.

(* ---- RegAccessQueue.dequeue ---- *)
Lemma src_dequeue_lemma : forall q o f,
  call SRC (S (S (S f))) (TMeth (e_queue q) "dequeue") [VInt o] =
  match dequeue q o with Ok q' => POk (e_queue q', VNone) | Err e => PErr (lift_err e) end.
Proof.
  intros q o f. unfold e_queue.
  destruct q as [|[t1 r1] rest].
  - stepd. reflexivity.
  - stepd. destruct (memn o r1) eqn:E; stepd; [|reflexivity].
    destruct (set_remove o r1) eqn:E2; stepd; reflexivity.
Qed.

(* ---- RegAccQBuilder.append (with _can_merge and the AccessGroup constructor) ---- *)
Lemma qb_append_snoc q0 g ty o :
  qb_append (q0 ++ [g]) ty o =
  if aty_eqb ty RD && aty_eqb (g_ty g) RD then q0 ++ [mkG RD (set_add o (g_reqs g))] else q0 ++ [g; mkG ty [o]].
Proof.
  induction q0 as [|x q0 IH].
  - cbn. destruct (aty_eqb ty RD && aty_eqb (g_ty g) RD); reflexivity.
  - cbn [app]. destruct (q0 ++ [g]) as [|y t] eqn:E; [destruct q0; discriminate|].
    change (qb_append (x :: y :: t) ty o) with (x :: qb_append (y :: t) ty o). rewrite IH.
    destruct (aty_eqb ty RD && aty_eqb (g_ty g) RD); reflexivity.
Qed.

Lemma src_append_lemma : forall q ty o f,
  call SRC (S (S (S f))) (TMeth (e_builder q) "append") [e_aty ty; VInt o] = POk (e_builder (qb_append q ty o), VNone).
Proof.
  intros q ty o f. unfold e_builder.
  destruct (rev q) as [|g q0'] eqn:Er.
  - assert (q = []) by (destruct q; [reflexivity|]; cbn in Er; destruct (rev q); discriminate). subst q.
    destruct ty; reflexivity.
  - assert (Hq : q = rev q0' ++ [g]) by (rewrite <- (rev_involutive q), Er; reflexivity).
    rewrite Hq. set (q0 := rev q0'). clearbody q0. clear Hq Er q0' q.
    rewrite qb_append_snoc, map_app. destruct g as [t1 r1]. cbn [map].
    stepd. destruct ty, t1; stepd; rewrite map_app; cbn [map]; rewrite <- ?app_assoc; reflexivity.
Qed.

(* ---- RegAccQBuilder() and RegAccQBuilder.create (RegAccessQueue's converter _rev_groups) ---- *)
Lemma src_new_builder_lemma : forall f, call SRC (S (S (S f))) (TFunc "RegAccQBuilder") [] = POk (VNone, e_builder []).
Proof. intros f. reflexivity. Qed.

Lemma src_create_lemma : forall q f,
  call SRC (S (S (S f))) (TMeth (e_builder q) "create") [] = POk (e_builder q, e_queue (qb_create q)).
Proof. intros q f. unfold e_builder, e_queue, qb_create. cbn -[rev map]. reflexivity. Qed.

(* ---- request sets stay sets ---- *)
Lemma NoDup_snoc {A} (l : list A) a : NoDup l -> ~ In a l -> NoDup (l ++ [a]).
Proof.
  induction l as [|x l IH]; intros H Hn; cbn.
  - constructor; [intros []|constructor].
  - inversion H as [|? ? Hx Hl]; subst. constructor.
    + rewrite in_app_iff. intros [Hi|[Hi|[]]]; [exact (Hx Hi)|]. subst. apply Hn. left. reflexivity.
    + apply IH; [exact Hl|]. intros Hi. apply Hn. right. exact Hi.
Qed.

Lemma set_add_NoDup o l : NoDup l -> NoDup (set_add o l).
Proof.
  intros H. unfold set_add. destruct (memn o l) eqn:E; [exact H|].
  apply NoDup_snoc; [exact H|]. intros Hin. apply memn_In in Hin. congruence.
Qed.

Lemma set_remove_NoDup o l : NoDup l -> NoDup (set_remove o l).
Proof. intros H. unfold set_remove. apply NoDup_filter. exact H. Qed.

Lemma wfq_app q1 q2 : wfq (q1 ++ q2) <-> wfq q1 /\ wfq q2.
Proof. unfold wfq. apply Forall_app. Qed.

Lemma qb_append_wfq q ty o : wfq q -> wfq (qb_append q ty o).
Proof.
  intros H. destruct (rev q) as [|g q0'] eqn:Er.
  - assert (q = []) by (destruct q; [reflexivity|]; cbn in Er; destruct (rev q); discriminate). subst q.
    cbn. repeat constructor. intros [].
  - assert (Hq : q = rev q0' ++ [g]) by (rewrite <- (rev_involutive q), Er; reflexivity).
    rewrite Hq in *. rewrite qb_append_snoc. apply wfq_app in H. destruct H as [H0 Hg].
    inversion Hg as [|? ? Hgn _]; subst.
    destruct (aty_eqb ty RD && aty_eqb (g_ty g) RD); apply wfq_app; split; try exact H0.
    + repeat constructor. cbn. apply set_add_NoDup. exact Hgn.
    + repeat constructor; [exact Hgn|]. intros [].
Qed.

Lemma build_queue_wfq rs : wfq (build_queue rs).
Proof.
  unfold build_queue, qb_create.
  assert (G : forall q, wfq q -> wfq (fold_left (fun q r => qb_append q (fst r) (snd r)) rs q)).
  { induction rs as [|r rs IH]; intros q Hq; cbn [fold_left]; [exact Hq|]. apply IH. apply qb_append_wfq. exact Hq. }
  apply G. constructor.
Qed.

Lemma dequeue_wfq q o q' : wfq q -> dequeue q o = Ok q' -> wfq q'.
Proof.
  intros H E. destruct q as [|g rest]; [discriminate|]. cbn in E.
  inversion H as [|? ? Hg Hrest]; subst.
  destruct (memn o (g_reqs g)); [|discriminate].
  destruct (set_remove o (g_reqs g)) eqn:E2; inversion E; subst; [exact Hrest|].
  constructor; [|exact Hrest]. cbn. rewrite <- E2. apply set_remove_NoDup. exact Hg.
Qed.

(* ---- whole histories ---- *)
Lemma src_appends_lemma : forall rs q f,
  src_appends SRC (S (S (S f))) (e_builder q) rs =
  POk (e_builder (fold_left (fun q r => qb_append q (fst r) (snd r)) rs q)).
Proof.
  unfold src_appends. induction rs as [|r rs IH]; intros q f; cbn [fold_left]; [reflexivity|].
  cbn [pbind]. rewrite src_append_lemma. cbn [pbind fst]. apply IH.
Qed.

Lemma src_build_lemma : forall rs f, src_build SRC (S (S (S f))) rs = POk (e_queue (build_queue rs)).
Proof.
  intros rs f. unfold src_build. rewrite src_new_builder_lemma. cbn [pbind snd].
  rewrite src_appends_lemma. cbn [pbind]. rewrite src_create_lemma. reflexivity.
Qed.

Lemma src_hist_err : forall h e f,
  fold_left (fun acc o => q0 <- acc ;; x <- call SRC f (TMeth q0 "dequeue") [VInt o] ;; POk (fst x)) h (PErr e) = PErr e.
Proof. induction h as [|o h IH]; intros e f; cbn [fold_left]; [reflexivity|]. cbn [pbind]. apply IH. Qed.

Lemma src_hist_lemma : forall h q f,
  src_hist SRC (S (S (S f))) (e_queue q) h =
  match QueueSpec.run_hist q h with Ok q' => POk (e_queue q') | Err e => PErr (lift_err e) end.
Proof.
  unfold src_hist. induction h as [|o h IH]; intros q f; cbn [fold_left QueueSpec.run_hist]; [reflexivity|].
  cbn [pbind]. rewrite src_dequeue_lemma. destruct (dequeue q o) as [q'|e]; cbn [pbind fst].
  - apply IH.
  - apply src_hist_err.
Qed.

Lemma run_hist_wfq : forall h q q', wfq q -> QueueSpec.run_hist q h = Ok q' -> wfq q'.
Proof.
  induction h as [|o h IH]; intros q q' H E; cbn in E.
  - inversion E; subst; exact H.
  - destruct (dequeue q o) as [q1|e] eqn:Ed; [|discriminate]. eapply IH; [|exact E]. eapply dequeue_wfq; eauto.
Qed.

(* ---- C19 read on the source: the protocol theorem of props/C19.v transported along the refinement ---- *)
Lemma C19_on_source_lemma :
  forall (rs : list QueueSpec.req) (h : list nat) f,
    QueueSpec.permitted (build_queue rs) h = true ->
    exists a qo0 qo,
      src_build SRC (S (S (S f))) rs = POk qo0 /\ src_hist SRC (S (S (S f))) qo0 h = POk qo /\
      QueueSpec.a_run_hist (QueueSpec.a_init rs) h = Some a /\
      forall ty o, call SRC (S (S (S f))) (TMeth qo "can_access") [e_aty ty; VInt o] =
                   if QueueSpec.a_empty a then PErr PIndexError else POk (qo, VBool (QueueSpec.a_can_access a ty o)).
Proof.
  intros rs h f Hp.
  destruct (C19_proof.C19_protocol_lemma rs h Hp) as [a [q [Ha [Hr [Hq Hc]]]]].
  exists a, (e_queue (build_queue rs)), (e_queue q). repeat split.
  - apply src_build_lemma.
  - rewrite src_hist_lemma, Hr. reflexivity.
  - exact Ha.
  - intros ty o. rewrite src_can_access_lemma.
    + rewrite Hc. destruct (QueueSpec.a_empty a); reflexivity.
    + eapply run_hist_wfq; [apply build_queue_wfq|exact Hr].
Qed.
