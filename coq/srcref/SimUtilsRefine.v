(* SimUtilsRefine.v -- sim_services/_utils.py, as dumped today by harness/py2coq.py (definition SRC_UTILS) and run
   by the PyLite semantics, computes the two tests that model/Sim.v writes inline in `walk` (UnitSink._fill /
   _mov_candidate) and `try_ports` (_accept_in_unit):
     unit_full(width, unit_util)   =  length (get r unit) =? u_width unit
     mem_unavail(mem_busy, mem_req) is truthy  iff  both flags are truthy     ((mem_busy || used) && need)
   for every width, every list of entries and every pair of flag VALUES (the flags are typed `object`). *)
From PS Require Import Base RegAccess PyLite SimUtilsSrc.
Open Scope string_scope.

Theorem src_unit_full : forall (w : nat) (l : list val) f,
  call SRC_UTILS (S f) (TFunc "unit_full") [VInt w; VList l] = POk (VNone, VBool (Nat.eqb (length l) w)).
Proof. intros w l f. reflexivity. Qed.
Print Assumptions src_unit_full.

Theorem src_mem_unavail : forall (busy req : val) f,
  exists v, call SRC_UTILS (S f) (TFunc "mem_unavail") [busy; req] = POk (VNone, v) /\
            truthy v = truthy busy && truthy req.
Proof.
  intros busy req f. cbn. destruct (truthy busy) eqn:E.
  - exists req. split; reflexivity.
  - exists busy. split; [reflexivity|exact E].
Qed.
Print Assumptions src_mem_unavail.

(* the flags the simulator passes are booleans or None: then the value itself is the conjunction *)
Theorem src_mem_unavail_bool : forall (a b : bool) f,
  call SRC_UTILS (S f) (TFunc "mem_unavail") [VBool a; VBool b] = POk (VNone, VBool (a && b)).
Proof. intros a b f. destruct a, b; reflexivity. Qed.
Print Assumptions src_mem_unavail_bool.
