(* RegAccessEmbed.v -- how the values of the hand-written model (model/RegAccess.v) look as PyLite object
   trees of the classes of reg_access.py.  The model keeps a queue FRONT FIRST; RegAccessQueue stores the
   reversed list (`_rev_groups` converter) and works at its tail; RegAccQBuilder keeps registration order. *)
From PS Require Import Base RegAccess PyLite.
Open Scope string_scope.

Definition e_aty (a : aty) : val := VEnum "AccessType" (match a with RD => "READ" | WR => "WRITE" end).
Definition e_grp (g : group) : val :=
  VObj "AccessGroup" [("access_type", e_aty (g_ty g)); ("reqs", VSet (g_reqs g))].
Definition e_queue (q : queue) : val := VObj "RegAccessQueue" [("_queue", VList (rev (map e_grp q)))].
Definition e_builder (q : queue) : val := VObj "RegAccQBuilder" [("_queue", VList (map e_grp q))].

(* request sets are sets: no owner twice in a group (what set.add guarantees in Python) *)
Definition wfq (q : queue) : Prop := Forall (fun g => NoDup (g_reqs g)) q.

Definition e_err (e : pyerr) : option perr :=
  match e with IndexError => Some PIndexError | KeyError => Some PKeyError | UnknownUnit => None end.

(* running the SOURCE: a builder object, the requests appended one by one, then create() *)
Definition src_appends (M : pmodule) (fuel : nat) (b : val) (rs : list (aty * nat)) : pres val :=
  fold_left (fun acc r => b0 <- acc ;; x <- call M fuel (TMeth b0 "append") [e_aty (fst r); VInt (snd r)] ;; POk (fst x))
            rs (POk b).
Definition src_build (M : pmodule) (fuel : nat) (rs : list (aty * nat)) : pres val :=
  b0 <- call M fuel (TFunc "RegAccQBuilder") [] ;;
  b <- src_appends M fuel (snd b0) rs ;;
  x <- call M fuel (TMeth b "create") [] ;; POk (snd x).
(* a history of removals on a queue object *)
Definition src_hist (M : pmodule) (fuel : nat) (qo : val) (h : list nat) : pres val :=
  fold_left (fun acc o => q0 <- acc ;; x <- call M fuel (TMeth q0 "dequeue") [VInt o] ;; POk (fst x)) h (POk qo).
