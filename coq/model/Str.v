(* Str.v -- model of str_utils.ICaseString and str.lower/str.upper on Latin-1 text: a Coq `ascii` is the
   code point 0..255 of one character.  str.lower is closed on Latin-1 (A-Z and U+00C0..U+00DE except the
   multiplication sign U+00D7 move up by 32).  str.upper is modelled for every character except the three
   whose Python upper-case form leaves Latin-1 or changes length (U+00B5 micro sign, U+00DF sharp s, U+00FF
   y-diaeresis): text that is upper-cased by the code (instruction mnemonics) is kept clear of them by the
   harness, see DESIGN.md. *)
From Coq Require Import Ascii.
From PS Require Import Base.

Definition lower_ascii (c : ascii) : ascii :=
  let n := nat_of_ascii c in
  if ((65 <=? n) && (n <=? 90)) || ((192 <=? n) && (n <=? 222) && negb (n =? 215))
  then ascii_of_nat (n + 32) else c.
Definition upper_ascii (c : ascii) : ascii :=
  let n := nat_of_ascii c in
  if ((97 <=? n) && (n <=? 122)) || ((224 <=? n) && (n <=? 254) && negb (n =? 247))
  then ascii_of_nat (n - 32) else c.
Fixpoint smap (f : ascii -> ascii) (s : string) : string :=
  match s with EmptyString => EmptyString | String c t => String (f c) (smap f t) end.
Definition lower (s : string) : string := smap lower_ascii s.
Definition upper (s : string) : string := smap upper_ascii s.

(* ICaseString(raw_str): eq / order / hash keyed by str.lower *)
Definition ic_eqb (a b : string) : bool := String.eqb (lower a) (lower b).
Definition ic_ltb (a b : string) : bool := String.ltb (lower a) (lower b).
Definition ic_leb (a b : string) : bool := String.leb (lower a) (lower b).
Definition ic_hash_key (a : string) : string := lower a.
Definition ic_str (a : string) : string := a.

Fixpoint prefixb (p s : string) : bool :=
  match p, s with
  | EmptyString, _ => true
  | String a p', String b s' => Ascii.eqb a b && prefixb p' s'
  | String _ _, EmptyString => false
  end.
Fixpoint substrb (p s : string) : bool :=
  prefixb p s || match s with EmptyString => false | String _ s' => substrb p s' end.
(* ICaseString.__contains__(self, item) *)
Definition ic_contains (self item : string) : bool := substrb (lower item) (lower self).

Definition mem_ic (x : string) (l : list string) : bool := existsb (ic_eqb x) l.
(* registry keyed by lower(): first stored spelling *)
Fixpoint ic_find (x : string) (l : list string) : option string :=
  match l with [] => None | y :: t => if ic_eqb x y then Some y else ic_find x t end.

(* repr(str) on Latin-1 text: quote choice, backslash, \t \n \r, \xNN for the non-printable code points *)
Open Scope string_scope.
Definition hexdig (n : nat) : ascii := if (n <? 10)%nat then Ascii.ascii_of_nat (48 + n) else Ascii.ascii_of_nat (87 + n).
Definition has_char (c : ascii) (s : string) : bool := substrb (String c EmptyString) s.
Definition repr_char (q : ascii) (c : ascii) : string :=
  let n := nat_of_ascii c in
  if (n =? 92)%nat then "\\"
  else if (n =? 9)%nat then "\t"
  else if (n =? 10)%nat then "\n"
  else if (n =? 13)%nat then "\r"
  else if Ascii.eqb c q then String "\"%char (String c EmptyString)
  else if ((n <? 32) || ((127 <=? n) && (n <=? 160)) || (n =? 173))%nat
       then String "\"%char (String "x"%char (String (hexdig (n / 16)) (String (hexdig (n mod 16)) EmptyString)))
  else String c EmptyString.
Fixpoint sconcat_map (f : ascii -> string) (s : string) : string :=
  match s with EmptyString => EmptyString | String c t => f c ++ sconcat_map f t end.
Definition py_repr_str (s : string) : string :=
  let q := if has_char "'"%char s && negb (has_char """"%char s) then """"%char else "'"%char in
  String q (sconcat_map (repr_char q) s ++ String q EmptyString).
Close Scope string_scope.
