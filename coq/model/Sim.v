(* Sim.v -- executable transliteration of sim_services.simulate and its helpers
   (sim_services/__init__.py, _instr_sinks.py, _utils.py, sim_defs.py).
   Nothing is proved in this file. *)
From PS Require Import Base Bag RegAccess.

(* processor_utils.units.UnitModel / FuncUnit, processor_utils.ProcessorDesc *)
Record unit := { u_name : string; u_width : nat; u_caps : list string;
                 u_rl : bool; u_wl : bool; u_mem : list string }.
Record funit := { f_model : unit; f_preds : list string }.      (* predecessor names, sorted *)
Record proc := { p_in : list unit; p_out : list funit; p_inout : list unit; p_int : list funit }.
(* program_defs.HwInstruction *)
Record instr := { i_srcs : list string; i_dst : string; i_cat : string }.

Definition cat_of (prog : list instr) (i : nat) : string :=
  match nth_error prog i with Some x => i_cat x | None => EmptyString end.

(* ---------- access plan: _build_acc_plan / _add_access ---------- *)
Definition queues := list (string * queue).
Definition q_append (qs : queues) (reg : string) (ty : aty) (o : nat) : queues :=
  set qs reg (qb_append (assoc [] qs reg) ty o).
Definition add_access (st : nat * queues) (ins : instr) : nat * queues :=
  let '(i, qs) := st in
  let qs1 := fold_left (fun qs r => q_append qs r RD i) (i_srcs ins) qs in
  (S i, q_append qs1 (i_dst ins) WR i).
Definition build_acc_plan (prog : list instr) : queues := snd (fold_left add_access prog (0, [])).

(* ---------- moving instructions: _instr_sinks ---------- *)
(* IInstrSink._valid_candid for a UnitSink *)
Definition valid (prog : list instr) (f : funit) (e : entry) : bool :=
  negb (label_eqb (snd e) LD) && mem_str (cat_of prog (fst e)) (u_caps (f_model f)).
(* _get_candidates: (host, index_in_host) over the donors in predecessor order *)
Definition cands (prog : list instr) (f : funit) (r : record) : list (string * nat) :=
  flat_map (fun h => map (fun i => (h, i)) (locate (valid prog f) (get r h) 0)) (f_preds f).
Definition ix_of (r : record) (c : string * nat) : nat :=
  match nth_error (get r (fst c)) (snd c) with Some e => fst e | None => 0 end.

(* UnitSink._fill / _mov_candidate: stop when full or exhausted, skip when the memory
   port is busy and needed *)
Fixpoint walk (prog : list instr) (f : funit) (mem_busy : bool) (cs : list (string * nat))
              (r : record) (used : bool) (moved : list (string * nat))
  : record * bool * list (string * nat) :=
  match cs with
  | [] => (r, used, moved)
  | c :: t =>
      let me := u_name (f_model f) in
      if length (get r me) =? u_width (f_model f) then (r, used, moved)
      else
        let need := mem_str (cat_of prog (ix_of r c)) (u_mem (f_model f)) in
        if (mem_busy || used) && need then walk prog f mem_busy t r used moved
        else walk prog f mem_busy t (set r me (get r me ++ [(ix_of r c, LU)]))
                  (used || need) (moved ++ [c])
  end.
(* _clr_src_units over sorted(moved, key=index_in_host, reverse=True) *)
Definition clr (r : record) (moved : list (string * nat)) : record :=
  fold_left (fun r c => set r (fst c) (del_nth (snd c) (get r (fst c))))
            (isort (fun a b => snd b <=? snd a) moved) r.
(* _fill_unit for a UnitSink; candidates sorted by instruction index (_pick_guests) *)
Definition fill_unit (prog : list instr) (st : record * bool) (f : funit) : record * bool :=
  let '(r, busy) := st in
  let cs := isort (fun a b => ix_of r a <=? ix_of r b) (cands prog f r) in
  let '(r', used, moved) := walk prog f busy cs r false [] in
  (clr r' moved, busy || used).

(* _get_out_ports *)
Definition out_names (P : proc) : list string :=
  map u_name (p_inout P) ++ map (fun f => u_name (f_model f)) (p_out P).
(* OutSink: every entry of an output-boundary unit that is not data-stalled retires *)
Definition flush (P : proc) (r : record) : record :=
  fold_left (fun r n => set r n (filter (fun e => label_eqb (snd e) LD) (get r n))) (out_names P) r.
(* _mov_flights: OutSink first, then out_ports, then internal_units, threading mem_busy *)
Definition mov_flights (P : proc) (prog : list instr) (r : record) : record * bool :=
  fold_left (fill_unit prog) (p_out P ++ p_int P) (flush P r, false).

(* ---------- issue: _fill_inputs / _accept_instr / _accept_in_unit ---------- *)
Fixpoint try_ports (cat : string) (ports : list unit) (r : record) (mem_used : bool) (ix : nat)
  : option (record * bool) :=
  match ports with
  | [] => None
  | u :: t =>
      if mem_str cat (u_caps u) then
        let need := mem_str cat (u_mem u) in
        if (mem_used && need) || (length (get r (u_name u)) =? u_width u)
        then try_ports cat t r mem_used ix
        else Some (set r (u_name u) (get r (u_name u) ++ [(ix, LU)]), mem_used || need)
      else try_ports cat t r mem_used ix
  end.
Fixpoint fill_inputs (fuel : nat) (prog : list instr) (ports : list unit) (r : record)
                     (mem_used : bool) (entered : nat) : record * nat :=
  match fuel with
  | 0 => (r, entered)
  | S f =>
      match nth_error prog entered with
      | None => (r, entered)
      | Some ins =>
          match try_ports (i_cat ins) ports r mem_used entered with
          | None => (r, entered)
          | Some (r', m') => fill_inputs f prog ports r' m' (S entered)
          end
      end
  end.
(* sorted_models(chain(in_out_ports, in_ports)) *)
Definition unit_leb (a b : unit) : bool := String.leb (u_name a) (u_name b).
Definition in_ports_sorted (P : proc) : list unit := isort unit_leb (p_inout P ++ p_in P).

(* ---------- hazards: _chk_hazards / _stall_unit / _regs_avail ---------- *)
(* HwSpec.name_unit_map *)
Definition all_units (P : proc) : list unit :=
  p_in P ++ p_inout P ++ map f_model (p_out P) ++ map f_model (p_int P).
Definition find_unit (P : proc) (n : string) : option unit :=
  find (fun u => String.eqb n (u_name u)) (all_units P).
(* _regs_loaded *)
Definition regs_loaded (old : list entry) (i : nat) : bool :=
  existsb (fun e => Nat.eqb (fst e) i && negb (label_eqb (snd e) LD)) old.

(* all(can_access(...) for reg in regs), short-circuiting like Python's all() *)
Fixpoint all_access (qs : queues) (ty : aty) (i : nat) (regs : list string) : res bool :=
  match regs with
  | [] => Ok true
  | r :: t =>
      match can_access (assoc [] qs r) ty i with
      | Err e => Err e
      | Ok false => Ok false
      | Ok true => all_access qs ty i t
      end
  end.
(* _regs_avail: Ok (Some regs) = available with the registers to clear *)
Definition regs_avail (u : unit) (i : nat) (ins : instr) (qs : queues) : res (option (list string)) :=
  match (if u_rl u then all_access qs RD i (i_srcs ins) else Ok true) with
  | Err e => Err e
  | Ok false => Ok None
  | Ok true =>
      match (if u_wl u then all_access qs WR i [i_dst ins] else Ok true) with
      | Err e => Err e
      | Ok false => Ok None
      | Ok true => Ok (Some ((if u_rl u then i_srcs ins else []) ++ (if u_wl u then [i_dst ins] else [])))
      end
  end.

(* _stall_unit: relabel the entries of one unit, accumulating the requests to clear *)
Fixpoint stall_unit (u : unit) (old : list entry) (prog : list instr) (qs : queues)
                    (es : list entry) (clears : list (string * nat))
  : res (list entry * list (string * nat)) :=
  match es with
  | [] => Ok ([], clears)
  | (i, _) :: t =>
      if regs_loaded old i then
        match stall_unit u old prog qs t clears with
        | Ok (t', c') => Ok ((i, LS) :: t', c')
        | Err e => Err e
        end
      else
        match nth_error prog i with
        | None => Err IndexError
        | Some ins =>
            match regs_avail u i ins qs with
            | Err e => Err e
            | Ok None =>
                match stall_unit u old prog qs t clears with
                | Ok (t', c') => Ok ((i, LD) :: t', c')
                | Err e => Err e
                end
            | Ok (Some regs) =>
                match stall_unit u old prog qs t (clears ++ map (fun r => (r, i)) regs) with
                | Ok (t', c') => Ok ((i, LU) :: t', c')
                | Err e => Err e
                end
            end
        end
  end.
Fixpoint chk_hazards_units (P : proc) (old : record) (prog : list instr) (qs : queues)
                           (r : record) (clears : list (string * nat))
  : res (record * list (string * nat)) :=
  match r with
  | [] => Ok ([], clears)
  | (n, es) :: t =>
      match es with
      | [] =>                                     (* BagValDict.items() skips empty lists *)
          match chk_hazards_units P old prog qs t clears with
          | Ok (t', c') => Ok ((n, es) :: t', c')
          | Err e => Err e
          end
      | _ =>
          match find_unit P n with
          | None => Err UnknownUnit
          | Some u =>
              match stall_unit u (get old n) prog qs es clears with
              | Err e => Err e
              | Ok (es', c') =>
                  match chk_hazards_units P old prog qs t c' with
                  | Ok (t', c'') => Ok ((n, es') :: t', c'')
                  | Err e => Err e
                  end
              end
          end
      end
  end.
(* the dequeue loop at the end of _chk_hazards *)
Fixpoint apply_clears (qs : queues) (clears : list (string * nat)) : res queues :=
  match clears with
  | [] => Ok qs
  | c :: t =>
      match dequeue (assoc [] qs (fst c)) (snd c) with
      | Err e => Err e
      | Ok q' => apply_clears (set qs (fst c) q') t
      end
  end.

(* _count_outputs / _calc_unstalled *)
Definition count_outputs (P : proc) (r : record) : nat :=
  fold_left (fun n name => n + length (filter (fun e => label_eqb (snd e) LU) (get r name)))
            (out_names P) 0.

(* ---------- the cycle (_run_cycle) and the loop (simulate) ---------- *)
Record state := { tbl : list record; qs_ : queues; entered : nat; exited : nat }.
Inductive outcome := Done (d : list record) | Stalled (d : list record)
                   | Crash (e : pyerr) | OutOfFuel.

Definition run_cycle (P : proc) (prog : list instr) (s : state) : state + outcome :=
  let old := last (tbl s) [] in
  let '(r1, busy) := mov_flights P prog old in
  let '(r2, ent) := fill_inputs (S (length prog)) prog (in_ports_sorted P) r1 busy (entered s) in
  match chk_hazards_units P old prog (qs_ s) r2 [] with
  | Err e => inr (Crash e)
  | Ok (r3, clears) =>
      match apply_clears (qs_ s) clears with
      | Err e => inr (Crash e)
      | Ok qs' =>
          if bag_eqb r3 old then inr (Stalled (tbl s))      (* _chk_full_stall: new == old *)
          else inl {| tbl := tbl s ++ [r3]; qs_ := qs';
                      entered := ent; exited := exited s + count_outputs P r3 |}
      end
  end.

Definition init_state (prog : list instr) : state :=
  {| tbl := []; qs_ := build_acc_plan prog; entered := 0; exited := 0 |}.

Fixpoint loop (fuel : nat) (P : proc) (prog : list instr) (s : state) : outcome :=
  match fuel with
  | 0 => OutOfFuel
  | S f =>
      if (entered s <? length prog) || (exited s <? entered s) then
        match run_cycle P prog s with inl s' => loop f P prog s' | inr o => o end
      else Done (tbl s)
  end.
Definition simulate (fuel : nat) (P : proc) (prog : list instr) : outcome :=
  loop fuel P prog (init_state prog).

(* instructions x (3 x units + 1) + 1: the cycle bound of C08 (also the default fuel) *)
Definition nunits (P : proc) : nat := length (all_units P).
Definition cycle_bound (P : proc) (prog : list instr) : nat := length prog * (3 * nunits P + 1) + 1.
Definition simulate_default (P : proc) (prog : list instr) : outcome :=
  simulate (S (cycle_bound P prog)) P prog.
