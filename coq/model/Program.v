(* Program.v -- model of program_utils.read_program / compile_program and program_defs
   (Latin-1 text; whitespace = Python's str.isspace / regex \s on code points below 256: 9-13, 28-32, 133, 160). *)
From PS Require Import Base Str.

Definition is_ws (c : ascii) : bool :=
  let n := nat_of_ascii c in ((9 <=? n) && (n <=? 13)) || ((28 <=? n) && (n <=? 32)) || (n =? 133) || (n =? 160).
Fixpoint lstrip (s : string) : string :=
  match s with
  | EmptyString => EmptyString
  | String c t => if is_ws c then lstrip t else s
  end.
Fixpoint rstrip (s : string) : string :=
  match s with
  | EmptyString => EmptyString
  | String c t =>
      match rstrip t with
      | EmptyString => if is_ws c then EmptyString else String c EmptyString
      | t' => String c t'
      end
  end.
Definition strip (s : string) : string := rstrip (lstrip s).              (* str.strip() *)

(* re.split(r"\s+", line, 1) on a stripped line: (first token, text after the first blank run) *)
Fixpoint split_ws1 (s : string) : string * option string :=
  match s with
  | EmptyString => (EmptyString, None)
  | String c t =>
      if is_ws c then (EmptyString, Some (lstrip t))
      else let '(h, r) := split_ws1 t in (String c h, r)
  end.
(* str.split(",") *)
Fixpoint split_on_comma (s : string) : list string :=
  match s with
  | EmptyString => [EmptyString]
  | String c t =>
      match split_on_comma t with
      | [] => [String c EmptyString]                                    (* unreachable *)
      | h :: r => if Ascii.eqb c ","%char then EmptyString :: h :: r else String c h :: r
      end
  end.
(* re.split(r"\s*,\s*", operands) *)
Definition split_operands (s : string) : list string := map strip (split_on_comma s).

(* program_defs.ProgInstruction *)
Record pinstr := { pi_srcs : list string; pi_dst : string; pi_name : string; pi_line : nat }.
Inductive code_err :=
| NoOperands (line : nat) (ins : string)
| EmptyOperand (k : nat) (line : nat) (ins : string).
Inductive prog_res := ProgOk (p : list pinstr) | ProgErr (e : code_err).

(* container_utils.get_from_set on the register registry (first spelling wins) *)
Definition reg_lookup (reg : list string) (name : string) : string * list string :=
  match ic_find name reg with Some s => (s, reg) | None => (name, reg ++ [name]) end.
Fixpoint get_operands (ops : list string) (k line : nat) (ins : string) (reg : list string)
  : (list string * list string) + code_err :=
  match ops with
  | [] => inl ([], reg)
  | o :: t =>
      match o with
      | EmptyString => inr (EmptyOperand k line ins)
      | _ =>
          let '(s, reg') := reg_lookup reg o in
          match get_operands t (S k) line ins reg' with
          | inl (l, reg'') => inl (s :: l, reg'')
          | inr e => inr e
          end
      end
  end.
(* program_defs._sorted_uniq: sorted(frozenset(elems)) *)
Definition sorted_uniq (l : list string) : list string := sort_str (dedup_by String.eqb l).

Definition create_instr (line : nat) (txt : string) (reg : list string) : (pinstr * list string) + code_err :=
  match split_ws1 txt with
  | (ins, None) => inr (NoOperands line ins)
  | (ins, Some rest) =>
      match get_operands (split_operands rest) 1 line ins reg with
      | inr e => inr e
      | inl ([], _) => inr (NoOperands line ins)                         (* unreachable: split yields >= 1 piece *)
      | inl (dst :: srcs, reg') =>
          inl ({| pi_srcs := sorted_uniq srcs; pi_dst := dst; pi_name := ins; pi_line := line |}, reg')
      end
  end.
Fixpoint read_lines (lines : list string) (n : nat) (reg : list string) : prog_res :=
  match lines with
  | [] => ProgOk []
  | l :: t =>
      match strip l with
      | EmptyString => read_lines t (S n) reg
      | txt =>
          match create_instr n txt reg with
          | inr e => ProgErr e
          | inl (pi, reg') =>
              match read_lines t (S n) reg' with
              | ProgOk p => ProgOk (pi :: p)
              | ProgErr e => ProgErr e
              end
          end
      end
  end.
Definition read_program (lines : list string) : prog_res := read_lines lines 1 [].

(* messages of CodeError *)
Open Scope string_scope.
Definition code_err_msg (e : code_err) : string :=
  match e with
  | NoOperands line ins => "No operands provided for instruction " ++ ins ++ " at line " ++ nat_to_str line
  | EmptyOperand k line ins =>
      "Operand " ++ nat_to_str k ++ " empty for instruction " ++ ins ++ " at line " ++ nat_to_str line
  end.
Close Scope string_scope.
