(* Base.v -- shared executable vocabulary of the model (no proofs in model files).
   Python dict  -> association list in insertion order (get / set)
   Python sorted -> insertion sort w.r.t. the same order (isort)
   del l[i]     -> del_nth                                              *)
From Coq Require Export String Ascii List Arith Bool.
Export ListNotations.
Open Scope list_scope.
Open Scope nat_scope.

Definition mem_str (x : string) (l : list string) : bool := existsb (String.eqb x) l.
Definition memn (o : nat) (l : list nat) : bool := existsb (Nat.eqb o) l.

(* dict with string keys; a missing key reads as the default *)
Fixpoint get {A} (r : list (string * list A)) (k : string) : list A :=
  match r with [] => [] | (k', v) :: t => if String.eqb k k' then v else get t k end.
Fixpoint set {A} (r : list (string * A)) (k : string) (v : A) : list (string * A) :=
  match r with
  | [] => [(k, v)]
  | (k', v') :: t => if String.eqb k k' then (k, v) :: t else (k', v') :: set t k v
  end.
Fixpoint assoc {A} (d : A) (l : list (string * A)) (k : string) : A :=
  match l with [] => d | (k', v) :: t => if String.eqb k k' then v else assoc d t k end.
Fixpoint assoc_opt {A} (l : list (string * A)) (k : string) : option A :=
  match l with [] => None | (k', v) :: t => if String.eqb k k' then Some v else assoc_opt t k end.
Definition keys {A} (l : list (string * A)) : list string := map fst l.

(* stable insertion sort: Python's sorted() for the orders used by the code *)
Fixpoint insert {A} (leb : A -> A -> bool) (x : A) (l : list A) : list A :=
  match l with [] => [x] | y :: t => if leb x y then x :: l else y :: insert leb x t end.
Definition isort {A} (leb : A -> A -> bool) (l : list A) : list A := fold_right (insert leb) [] l.

Fixpoint del_nth {A} (n : nat) (l : list A) : list A :=
  match l, n with [], _ => [] | _ :: t, 0 => t | x :: t, S n' => x :: del_nth n' t end.

(* more_itertools.locate: indices of the elements satisfying p *)
Fixpoint locate {A} (p : A -> bool) (l : list A) (i : nat) : list nat :=
  match l with [] => [] | x :: t => (if p x then [i] else []) ++ locate p t (S i) end.

Fixpoint list_eqb {A} (eqb : A -> A -> bool) (a b : list A) : bool :=
  match a, b with
  | [], [] => true
  | x :: s, y :: t => eqb x y && list_eqb eqb s t
  | _, _ => false
  end.

Fixpoint dedup_by {A} (eqb : A -> A -> bool) (l : list A) : list A :=
  match l with
  | [] => []
  | x :: t => x :: filter (fun y => negb (eqb x y)) (dedup_by eqb t)
  end.

Fixpoint nodupb {A} (eqb : A -> A -> bool) (l : list A) : bool :=
  match l with [] => true | x :: t => negb (existsb (eqb x) t) && nodupb eqb t end.

Definition str_leb (a b : string) : bool := String.leb a b.
Definition sort_str (l : list string) : list string := isort str_leb l.

(* decimal rendering of a nat (str(int) for non-negative ints) *)
Definition digit (n : nat) : ascii := Ascii.ascii_of_nat (48 + n).
Fixpoint nat_to_str_aux (fuel n : nat) (acc : string) : string :=
  match fuel with
  | 0 => acc
  | S f => let acc' := String (digit (n mod 10)) acc in
           if n / 10 =? 0 then acc' else nat_to_str_aux f (n / 10) acc'
  end.
Definition nat_to_str (n : nat) : string := nat_to_str_aux (S n) n EmptyString.
