(* Cli.v -- model of processor_sim._get_sim_rows / ResultWriter: the tab-separated table printed by
   the command-line driver, for unit names free of TAB, CR, LF and double quote (csv 'excel-tab'
   quotes nothing else; a row consisting of one empty field is written as two double quotes). *)
From PS Require Import Base Bag Sim.

Open Scope string_scope.
Definition show_lab (l : label) : string := match l with LD => "D" | LS => "S" | LU => "U" end.
Close Scope string_scope.

(* _cui_to_icu / _fill_cp_util: per instruction, clock pulse -> position (later entries overwrite) *)
Definition positions (d : list record) (i : nat) : list (nat * string) :=
  flat_map (fun tr =>
      let '(t, r) := tr in
      match flat_map (fun kv => map (fun e => (show_lab (snd e) ++ ":" ++ fst kv)%string)
                                    (filter (fun e => fst e =? i) (snd kv))) (bag_items r) with
      | [] => []
      | l => [(t, last l EmptyString)]
      end) (combine (seq 0 (length d)) d).
(* _create_flight + _get_flight_row: None = the exception Python raises (empty dict / gap) *)
Fixpoint lookup_all (m : list (nat * string)) (ts : list nat) : option (list string) :=
  match ts with
  | [] => Some []
  | t :: r =>
      match find (fun p => fst p =? t) m, lookup_all m r with
      | Some p, Some l => Some (snd p :: l)
      | _, _ => None
      end
  end.
Definition flight_row (d : list record) (i : nat) : option (list string) :=
  match positions d i with
  | [] => None
  | ((t0, _) :: _) as m =>
      let start := fold_left Nat.min (map fst m) t0 in
      match lookup_all m (seq start (length m)) with
      | Some stops => Some (repeat EmptyString start ++ stops)
      | None => None
      end
  end.
Fixpoint all_rows (d : list record) (is_ : list nat) : option (list (list string)) :=
  match is_ with
  | [] => Some []
  | i :: t => match flight_row d i, all_rows d t with
              | Some r, Some l => Some (r :: l)
              | _, _ => None
              end
  end.
(* _get_sim_rows *)
Definition sim_rows (d : list record) (n : nat) : option (list (list string)) := all_rows d (seq 0 n).

(* ResultWriter.print_sim_res through csv.writer(sys.stdout, 'excel-tab', lineterminator='\n') *)
Open Scope string_scope.
Fixpoint join_tab (l : list string) : string :=
  match l with [] => "" | [x] => x | x :: t => x ++ String (ascii_of_nat 9) (join_tab t) end.
Definition csv_line (fields : list string) : string :=
  match fields with
  | [EmptyString] => """"""                  (* a lone empty field is written quoted *)
  | _ => join_tab fields
  end ++ String (ascii_of_nat 10) "".
Definition print_table (rows : list (list string)) : string :=
  let last_tick := fold_left Nat.max (map (@length string) rows) 0 in
  fold_left append
            (csv_line ("" :: map nat_to_str (seq 1 last_tick))
             :: map (fun ir => csv_line (("I" ++ nat_to_str (S (fst ir))) :: snd ir))
                    (combine (seq 0 (length rows)) rows)) "".
Close Scope string_scope.
