(* Loader.v -- model of processor_utils.load_proc_desc: _create_graph, _prep_proc_desc
   (chk_cycles, clean_struct, rm_empty_units, chk_terminals, chk_non_empty, chk_caps) and
   _make_processor, together with ProcessorDesc's converters (_sorted_units, _post_order).
   networkx's maximum_flow_value(...) == 0 is modelled as "no path" (DESIGN.md section 5). *)
From Coq Require Import ZArith.
From PS Require Import Base Str Sim Graph.

(* a structurally typed description *)
Record udesc := { d_name : string; d_width : Z; d_caps : list string;
                  d_rl : bool; d_wl : bool; d_mem : list string }.
Record desc := { d_units : list udesc; d_edges : list (list string) }.

Inductive lock_kind := LkRead | LkWrite.
Inductive pl_kind := PlDifferent | PlMultiple | PlNone.
Inductive load_err :=
| EDupUnit (old new : string)                       (* DupElemError *)
| EBadWidth (unit : string) (w : Z)                 (* BadWidthError *)
| EBadEdge (e : list string)                        (* BadEdgeError *)
| EUndefUnit (name : string)                        (* UndefElemError *)
| ECycle                                            (* networkx.NetworkXUnfeasible *)
| EDeadInput (ports : list string)                  (* DeadInputError: one of these ports *)
| EEmptyProc                                        (* EmptyProcError *)
| EPathLock (kind : pl_kind) (start : string) (lk : lock_kind) (cap : string)   (* PathLockError *)
| EBlockedCap (cap port : string)                   (* BlockedCapError *)
| EAclAssert.                                       (* bare AssertionError (finding O2) *)
Inductive load_res := LoadOk (P : proc) | LoadErr (e : load_err).

(* node attributes *)
Record uattr := { a_width : nat; a_caps : list string; a_rl : bool; a_wl : bool; a_mem : list string }.
Definition attrs := list (string * uattr).
Definition dflt_attr : uattr := {| a_width := 0; a_caps := []; a_rl := false; a_wl := false; a_mem := [] |}.
Definition attr_of (at_ : attrs) (n : string) : uattr := assoc dflt_attr at_ n.
Definition caps_of (at_ : attrs) (n : string) : list string := a_caps (attr_of at_ n).
Definition set_caps (at_ : attrs) (n : string) (c : list string) : attrs :=
  let a := attr_of at_ n in
  set at_ n {| a_width := a_width a; a_caps := c; a_rl := a_rl a; a_wl := a_wl a; a_mem := a_mem a |}.

(* ---------- _create_graph ---------- *)
(* _load_caps: duplicates inside a unit ignored; first global spelling used *)
Fixpoint load_caps (cs : list string) (seen : list string) (creg : list string) : list string * list string :=
  match cs with
  | [] => ([], creg)
  | c :: t =>
      if mem_ic c seen then load_caps t seen creg
      else
        let '(std, creg') := match ic_find c creg with Some s => (s, creg) | None => (c, creg ++ [c]) end in
        let '(l, creg'') := load_caps t (seen ++ [c]) creg' in
        (std :: l, creg'')
  end.
Record gstate := { gs_g : graph; gs_at : attrs; gs_ureg : list string; gs_creg : list string }.
Fixpoint add_units (us : list udesc) (s : gstate) : gstate + load_err :=
  match us with
  | [] => inl s
  | u :: t =>
      match ic_find (d_name u) (gs_ureg s) with
      | Some old => inr (EDupUnit old (d_name u))
      | None =>
          if (d_width u <=? 0)%Z then inr (EBadWidth (d_name u) (d_width u))
          else
            let '(caps, creg') := load_caps (d_caps u) [] (gs_creg s) in
            add_units t {| gs_g := add_node (gs_g s) (d_name u);
                           gs_at := set (gs_at s) (d_name u)
                                        {| a_width := Z.to_nat (d_width u); a_caps := caps;
                                           a_rl := d_rl u; a_wl := d_wl u; a_mem := d_mem u |};
                           gs_ureg := gs_ureg s ++ [d_name u]; gs_creg := creg' |}
      end
  end.
Fixpoint add_edges (es : list (list string)) (ureg : list string) (g : graph) : graph + load_err :=
  match es with
  | [] => inl g
  | e :: t =>
      match e with
      | [a; b] =>
          match ic_find a ureg with
          | None => inr (EUndefUnit a)
          | Some a' =>
              match ic_find b ureg with
              | None => inr (EUndefUnit b)
              | Some b' => add_edges t ureg (add_edge g a' b')
              end
          end
      | _ => inr (EBadEdge e)
      end
  end.

(* ---------- _optimization ---------- *)
Definition inter (a b : list string) : list string := filter (fun x => mem_str x b) a.
Definition union (a b : list string) : list string := a ++ filter (fun x => negb (mem_str x a)) b.
(* _clean_unit: keep, per incoming edge, the capabilities shared with the predecessor *)
Definition clean_unit (st : graph * attrs) (n : string) : graph * attrs :=
  let '(g, at_) := st in
  match preds g n with
  | [] => st
  | ps =>
      let mine := caps_of at_ n in
      let '(g', new) :=
        fold_left (fun '(g, acc) p =>
                     let common := inter mine (caps_of at_ p) in
                     match common with
                     | [] => (remove_edge g p n, acc)
                     | _ => (g, union acc common)
                     end) ps (g, []) in
      (g', set_caps at_ n new)
  end.
Definition clean_struct (order : list string) (st : graph * attrs) : graph * attrs :=
  fold_left clean_unit order st.
Definition rm_empty_units (st : graph * attrs) : graph * attrs :=
  let '(g, at_) := st in
  (fold_left (fun g n => match caps_of at_ n with [] => remove_node g n | _ => g end) (g_nodes g) g, at_).
Definition out_ports_of (g : graph) : list string := filter (fun n => out_degree g n =? 0) (g_nodes g).
Definition in_ports_of (g : graph) : list string := filter (fun n => in_degree g n =? 0) (g_nodes g).
(* chk_terminals (repeated until no new terminal appears) *)
Fixpoint chk_terminals (fuel : nat) (g : graph) (orig_in orig_out : list string) : graph + load_err :=
  match fuel with
  | 0 => inl g
  | S f =>
      match filter (fun n => negb (mem_str n orig_out)) (out_ports_of g) with
      | [] => inl g
      | new =>
          match filter (fun n => mem_str n orig_in) new with
          | [] => chk_terminals f (fold_left remove_node new g) orig_in orig_out
          | dead => inr (EDeadInput dead)
          end
      end
  end.

(* ---------- _checks.chk_caps ---------- *)
(* _get_cap_units: capability -> input ports offering it, in first-seen order *)
Definition cap_units (g : graph) (at_ : attrs) : list (string * list string) :=
  fold_left (fun m p => fold_left (fun m c => set m c (get m c ++ [p])) (caps_of at_ p) m)
            (in_ports_of g) [].
Definition has_cap (at_ : attrs) (c n : string) : bool := mem_str c (caps_of at_ n).
Definition cap_succs (g : graph) (at_ : attrs) (c n : string) : list string :=
  if has_cap at_ c n then filter (has_cap at_ c) (succs g n) else [].
Definition sat := (nat * nat)%type.                         (* _SatInfo(read_lock, write_lock) *)
Definition sel (k : lock_kind) (s : sat) : nat := match k with LkRead => fst s | LkWrite => snd s end.
(* _get_tail_lock / _update_lock: None = -1 *)
Fixpoint tail_lock (k : lock_kind) (locks : list (string * sat)) (ss : list string) (one : option nat)
  : option (option nat) :=                                   (* outer None = "different locks" error *)
  match ss with
  | [] => Some one
  | s :: t =>
      let nl := sel k (assoc (0, 0) locks s) in
      match one with
      | None => tail_lock k locks t (Some nl)
      | Some o => if nl =? o then tail_lock k locks t (Some nl) else None
      end
  end.
Definition calc_lock (k : lock_kind) (unit_lock : bool) (locks : list (string * sat)) (ss : list string)
                     (start cap : string) : nat + load_err :=
  match tail_lock k locks ss None with
  | None => inr (EPathLock PlDifferent start k cap)
  | Some tl =>
      let pl := (if unit_lock then 1 else 0) + match tl with Some x => x | None => 0 end in
      if 1 <? pl then inr (EPathLock PlMultiple start k cap) else inl pl
  end.
Fixpoint chk_multilock (g : graph) (at_ : attrs) (cap : string) (post : list string) (locks : list (string * sat))
  : list (string * sat) + load_err :=
  match post with
  | [] => inl locks
  | n :: t =>
      if has_cap at_ cap n then
        let ss := cap_succs g at_ cap n in
        match calc_lock LkRead (a_rl (attr_of at_ n)) locks ss n cap with
        | inr e => inr e
        | inl r =>
            match calc_lock LkWrite (a_wl (attr_of at_ n)) locks ss n cap with
            | inr e => inr e
            | inl w => chk_multilock g at_ cap t (set locks n (r, w))
            end
        end
      else chk_multilock g at_ cap t locks
  end.
Fixpoint chk_in_locks (cap : string) (ins : list string) (locks : list (string * sat)) : option load_err :=
  match ins with
  | [] => None
  | p :: t =>
      let s := assoc (0, 0) locks p in
      if fst s =? 0 then Some (EPathLock PlNone p LkRead cap)
      else if snd s =? 0 then Some (EPathLock PlNone p LkWrite cap)
      else chk_in_locks cap t locks
  end.
(* _chk_cap_flow: the capability must be able to flow from each of its input ports to an output port *)
Fixpoint chk_flow (g : graph) (at_ : attrs) (cap : string) (outs ins : list string) : option load_err :=
  match ins with
  | [] => None
  | p :: t =>
      let seen := reach_from (S (length (g_nodes g))) (cap_succs g at_ cap) [p] [p] in
      if existsb (fun o => mem_str o seen) outs then chk_flow g at_ cap outs t
      else Some (EBlockedCap cap p)
  end.
Fixpoint do_cap_checks (g : graph) (at_ : attrs) (post outs : list string) (cus : list (string * list string))
  : option load_err :=
  match cus with
  | [] => None
  | (cap, ins) :: t =>
      match chk_multilock g at_ cap post [] with
      | inr e => Some e
      | inl locks =>
          match chk_in_locks cap ins locks with
          | Some e => Some e
          | None =>
              match (if 1 <? length (g_nodes g) then chk_flow g at_ cap outs ins else None) with
              | Some e => Some e
              | None => do_cap_checks g at_ post outs t
              end
          end
      end
  end.

(* ---------- _make_processor and ProcessorDesc's converters ---------- *)
(* _get_acl_cap over the memoryAccess list: None = AssertionError *)
Fixpoint std_mem (mem : list string) (creg : list string) : option (list string) :=
  match mem with
  | [] => Some []
  | c :: t => match ic_find c creg, std_mem t creg with
              | Some s, Some l => Some (s :: l)
              | _, _ => None
              end
  end.
Definition mk_unit (n : string) (a : uattr) (mem : list string) : unit :=
  {| u_name := n; u_width := a_width a; u_caps := sort_str (a_caps a);
     u_rl := a_rl a; u_wl := a_wl a; u_mem := sort_str mem |}.
Fixpoint mk_units (ns : list string) (at_ : attrs) (creg : list string) : option (list (string * unit)) :=
  match ns with
  | [] => Some []
  | n :: t =>
      match std_mem (a_mem (attr_of at_ n)) creg with
      | None => None
      | Some mem => match mk_units t at_ creg with
                    | Some l => Some ((n, mk_unit n (attr_of at_ n) mem) :: l)
                    | None => None
                    end
      end
  end.
Definition funit_leb (a b : funit) : bool := String.leb (u_name (f_model a)) (u_name (f_model b)).
(* _post_order: topological sort of the reversed graph of internal units *)
Definition post_order (ints : list funit) : option (list funit) :=
  let names := map (fun f => u_name (f_model f)) ints in
  let g0 := fold_left add_node names g_empty in
  let g := fold_left (fun g f => fold_left (fun g p => if mem_str p names then add_edge g (u_name (f_model f)) p else g)
                                           (f_preds f) g) ints g0 in
  match topo_sort g with
  | None => None
  | Some order =>
      Some (flat_map (fun n => match find (fun f => String.eqb n (u_name (f_model f))) ints with
                               | Some f => [f] | None => [] end) order)
  end.
(* ProcessorDesc(in_ports, out_ports, in_out_ports, internal_units) with FuncUnit's converter *)
Definition norm_funit (f : funit) : funit := {| f_model := f_model f; f_preds := sort_str (f_preds f) |}.
Definition make_desc (ins : list unit) (outs : list funit) (inouts : list unit) (ints : list funit) : option proc :=
  match post_order (map norm_funit ints) with
  | None => None
  | Some ints' => Some {| p_in := ins; p_out := isort funit_leb (map norm_funit outs);
                          p_inout := inouts; p_int := ints' |}
  end.
Definition make_processor (g : graph) (at_ : attrs) (creg : list string) : load_res :=
  match mk_units (g_nodes g) at_ creg with
  | None => LoadErr EAclAssert
  | Some um =>
      let model n := assoc (mk_unit n dflt_attr []) um n in
      let fu n := {| f_model := model n; f_preds := preds g n |} in
      let cls (i o : bool) := filter (fun n => Bool.eqb (0 <? in_degree g n) i && Bool.eqb (0 <? out_degree g n) o) (g_nodes g) in
      match make_desc (map model (cls false true)) (map fu (cls true false))
                      (map model (cls false false)) (map fu (cls true true)) with
      | Some P => LoadOk P
      | None => LoadErr ECycle
      end
  end.

(* ---------- load_proc_desc ---------- *)
Definition load_proc_desc (d : desc) : load_res :=
  match add_units (d_units d) {| gs_g := g_empty; gs_at := []; gs_ureg := []; gs_creg := [] |} with
  | inr e => LoadErr e
  | inl s =>
      match add_edges (d_edges d) (gs_ureg s) (gs_g s) with
      | inr e => LoadErr e
      | inl g =>
          match topo_sort g with
          | None => LoadErr ECycle                                         (* chk_cycles *)
          | Some order =>
              let orig_in := in_ports_of g in
              let orig_out := out_ports_of g in
              let '(g1, at1) := rm_empty_units (clean_struct order (g, gs_at s)) in
              match chk_terminals (S (length (g_nodes g1))) g1 orig_in orig_out with
              | inr e => LoadErr e
              | inl g2 =>
                  match filter (fun p => has_node g2 p) orig_in with      (* chk_non_empty *)
                  | [] => LoadErr EEmptyProc
                  | _ =>
                      match do_cap_checks g2 at1 (dfs_postorder g2) (out_ports_of g2) (cap_units g2 at1) with
                      | Some e => LoadErr e
                      | None => make_processor g2 at1 (gs_creg s)
                      end
                  end
              end
          end
      end
  end.
