(* Isa.v -- model of processor_utils.load_isa / get_abilities and program_utils.compile_program. *)
From PS Require Import Base Str Sim Program.

(* SelfIndexSet.create(capabilities): keyed case-insensitively; a later spelling of an existing key
   replaces the stored value in place *)
Fixpoint reg_put (reg : list string) (c : string) : list string :=
  match reg with
  | [] => [c]
  | x :: t => if ic_eqb c x then c :: t else x :: reg_put t c
  end.
Definition cap_registry (caps : list string) : list string := fold_left reg_put caps [].

Inductive isa_err := IsaDup (old new : string) | IsaUndefCap (cap : string).
Inductive isa_res := IsaOk (isa : list (string * string)) | IsaErr (e : isa_err).

(* _create_isa: dict {instr.upper(): _add_instr(...)} in table order *)
Fixpoint create_isa (spec : list (string * string)) (caps : list string) (instrs : list string)
  : isa_res :=
  match spec with
  | [] => IsaOk []
  | (ins, cap) :: t =>
      match ic_find ins instrs with
      | Some old => IsaErr (IsaDup old ins)                                  (* _chk_instr *)
      | None =>
          match ic_find cap caps with
          | None => IsaErr (IsaUndefCap cap)                                 (* _get_cap_name *)
          | Some std =>
              match create_isa t caps (instrs ++ [ins]) with
              | IsaOk m => IsaOk ((upper ins, std) :: m)
              | IsaErr e => IsaErr e
              end
          end
      end
  end.
Definition load_isa (spec : list (string * string)) (caps : list string) : isa_res :=
  create_isa spec (cap_registry caps) [].

(* get_abilities: frozenset of the capabilities of in-out and input ports (as a duplicate-free list) *)
Definition get_abilities (P : proc) : list string :=
  dedup_by ic_eqb (flat_map u_caps (p_inout P ++ p_in P)).

Inductive comp_res := CompOk (p : list instr) | CompUndef (name : string) (line : nat).
(* compile_program / _get_cap *)
Fixpoint compile_program (prog : list pinstr) (isa : list (string * string)) : comp_res :=
  match prog with
  | [] => CompOk []
  | pi :: t =>
      match assoc_opt isa (upper (pi_name pi)) with
      | None => CompUndef (pi_name pi) (pi_line pi)
      | Some cap =>
          match compile_program t isa with
          | CompOk p => CompOk ({| i_srcs := pi_srcs pi; i_dst := pi_dst pi; i_cat := cap |} :: p)
          | e => e
          end
      end
  end.
