(* Graph.v -- the part of networkx.DiGraph the loader relies on: insertion-ordered nodes and
   adjacency, node/edge removal, topological_sort (Kahn by generations, as networkx 3.x implements
   topological_generations) and dfs_postorder_nodes.  Orders matter: they decide which error is
   reported first and the order of internal units. *)
From PS Require Import Base.

Record graph := { g_nodes : list string;
                  g_succ : list (string * list string);      (* adjacency in edge-insertion order *)
                  g_pred : list (string * list string) }.
Definition g_empty : graph := {| g_nodes := []; g_succ := []; g_pred := [] |}.
Definition succs (g : graph) (n : string) : list string := assoc [] (g_succ g) n.
Definition preds (g : graph) (n : string) : list string := assoc [] (g_pred g) n.
Definition has_node (g : graph) (n : string) : bool := mem_str n (g_nodes g).

Definition add_node (g : graph) (n : string) : graph :=
  if has_node g n then g
  else {| g_nodes := g_nodes g ++ [n]; g_succ := g_succ g ++ [(n, [])]; g_pred := g_pred g ++ [(n, [])] |}.
Definition add_edge (g : graph) (a b : string) : graph :=
  let g := add_node (add_node g a) b in
  if mem_str b (succs g a) then g
  else {| g_nodes := g_nodes g;
          g_succ := set (g_succ g) a (succs g a ++ [b]);
          g_pred := set (g_pred g) b (preds g b ++ [a]) |}.
Definition rm_str (x : string) (l : list string) : list string := filter (fun y => negb (String.eqb x y)) l.
Definition remove_edge (g : graph) (a b : string) : graph :=
  {| g_nodes := g_nodes g;
     g_succ := set (g_succ g) a (rm_str b (succs g a));
     g_pred := set (g_pred g) b (rm_str a (preds g b)) |}.
Definition remove_node (g : graph) (n : string) : graph :=
  {| g_nodes := rm_str n (g_nodes g);
     g_succ := map (fun kv => (fst kv, rm_str n (snd kv))) (filter (fun kv => negb (String.eqb n (fst kv))) (g_succ g));
     g_pred := map (fun kv => (fst kv, rm_str n (snd kv))) (filter (fun kv => negb (String.eqb n (fst kv))) (g_pred g)) |}.
Definition in_degree (g : graph) (n : string) : nat := length (preds g n).
Definition out_degree (g : graph) (n : string) : nat := length (succs g n).
(* G.edges: for n in nodes, for s in successors(n) *)
Definition edges (g : graph) : list (string * string) :=
  flat_map (fun n => map (fun s => (n, s)) (succs g n)) (g_nodes g).

(* ---------- topological_sort: Kahn's algorithm by generations ---------- *)
Definition imap := list (string * nat).
Definition iget (m : imap) (n : string) : nat := assoc 0 m n.
(* for child in G.neighbors(node): decrement; append to the next generation when it reaches zero *)
Fixpoint dec_children (m : imap) (zero : list string) (cs : list string) : imap * list string :=
  match cs with
  | [] => (m, zero)
  | c :: t =>
      let d := iget m c - 1 in
      if d =? 0 then dec_children (set m c 0) (zero ++ [c]) t
      else dec_children (set m c d) zero t
  end.
Fixpoint gen_step (g : graph) (m : imap) (zero : list string) (this : list string) : imap * list string :=
  match this with
  | [] => (m, zero)
  | n :: t => let '(m', zero') := dec_children m zero (succs g n) in gen_step g m' zero' t
  end.
Fixpoint kahn (fuel : nat) (g : graph) (m : imap) (zero : list string) (acc : list string) : list string :=
  match fuel with
  | 0 => acc
  | S f =>
      match zero with
      | [] => acc
      | _ => let '(m', next) := gen_step g m [] zero in kahn f g m' next (acc ++ zero)
      end
  end.
(* None = NetworkXUnfeasible (a cycle) *)
Definition topo_sort (g : graph) : option (list string) :=
  let m := map (fun n => (n, in_degree g n)) (g_nodes g) in
  let zero := filter (fun n => in_degree g n =? 0) (g_nodes g) in
  let order := kahn (S (length (g_nodes g))) g m zero [] in
  if length order =? length (g_nodes g) then Some order else None.
Definition is_dag (g : graph) : bool := match topo_sort g with Some _ => true | None => false end.

(* ---------- dfs_postorder_nodes: children in adjacency order, roots in node order ---------- *)
Fixpoint dfs (fuel : nat) (g : graph) (n : string) (seen out : list string) : list string * list string :=
  match fuel with
  | 0 => (seen, out)
  | S f =>
      let '(seen', out') :=
        fold_left (fun '(s, o) c => if mem_str c s then (s, o) else dfs f g c (c :: s) o)
                  (succs g n) (seen, out) in
      (seen', out' ++ [n])
  end.
Definition dfs_postorder (g : graph) : list string :=
  snd (fold_left (fun '(s, o) n => if mem_str n s then (s, o) else dfs (S (length (g_nodes g))) g n (n :: s) o)
                 (g_nodes g) ([], [])).

(* reachability (used where the code asks whether a maximum flow is zero) *)
Fixpoint reach_from (fuel : nat) (adj : string -> list string) (frontier seen : list string) : list string :=
  match fuel with
  | 0 => seen
  | S f =>
      match frontier with
      | [] => seen
      | x :: t =>
          let new := filter (fun s => negb (mem_str s seen)) (dedup_by String.eqb (adj x)) in
          reach_from f adj (t ++ new) (seen ++ new)
      end
  end.
