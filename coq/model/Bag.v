(* Bag.v -- model of container_utils.BagValDict (cycle records).
   A record is the underlying defaultdict as an association list in insertion
   order; keys may map to empty lists (created by mere look-ups in Python). *)
From PS Require Import Base Str.

Inductive label := LD | LS | LU.                    (* StallState: 'D' < 'S' < 'U' *)
Definition label_eqb (a b : label) : bool :=
  match a, b with LD, LD | LS, LS | LU, LU => true | _, _ => false end.
Definition label_rank (a : label) : nat := match a with LD => 0 | LS => 1 | LU => 2 end.
Definition entry := (nat * label)%type.             (* InstrState(instr, stalled) *)
Definition record := list (string * list entry).

(* attrs order=True on (instr, stalled) *)
Definition entry_leb (a b : entry) : bool :=
  (fst a <? fst b) || ((fst a =? fst b) && (label_rank (snd a) <=? label_rank (snd b))).
Definition entry_eqb (a b : entry) : bool := (fst a =? fst b) && label_eqb (snd a) (snd b).
Definition entries_eqb (a b : list entry) : bool := list_eqb entry_eqb a b.

Definition nonempty {A} (kv : string * list A) : bool := match snd kv with [] => false | _ => true end.
(* BagValDict.items(): pairs with a non-empty list, in dict order *)
Definition bag_items (r : record) : record := filter nonempty r.
Definition bag_len (r : record) : nat := length (bag_items r).

(* BagValDict.__eq__(self, other) *)
Definition bag_eqb (self other : record) : bool :=
  (bag_len self =? length (bag_items other))
  && forallb (fun kv => entries_eqb (isort entry_leb (snd kv)) (isort entry_leb (get self (fst kv))))
             (bag_items other).

(* canonical form: non-empty units sorted by name, entries sorted *)
Definition key_leb (a b : string * list entry) : bool := String.leb (fst a) (fst b).
Definition canon_record (r : record) : record :=
  isort key_leb (map (fun kv => (fst kv, isort entry_leb (snd kv))) (bag_items r)).

(* repr: BagValDict({'k': [InstrState(instr=0, stalled=<StallState.NO_STALL: 'U'>)]}) *)
Open Scope string_scope.
Definition show_label (l : label) : string :=
  match l with
  | LD => "<StallState.DATA: 'D'>"
  | LS => "<StallState.STRUCTURAL: 'S'>"
  | LU => "<StallState.NO_STALL: 'U'>"
  end.
Definition show_entry (e : entry) : string :=
  "InstrState(instr=" ++ nat_to_str (fst e) ++ ", stalled=" ++ show_label (snd e) ++ ")".
Fixpoint join (sep : string) (l : list string) : string :=
  match l with
  | [] => ""
  | [x] => x
  | x :: t => x ++ sep ++ join sep t
  end.
(* keys are shown with repr(str) (Str.py_repr_str) *)
Definition show_item (kv : string * list entry) : string :=
  py_repr_str (fst kv) ++ ": [" ++ join ", " (map show_entry (snd kv)) ++ "]".
Definition bag_repr (r : record) : string :=
  "BagValDict({" ++ join ", " (map show_item (canon_record r)) ++ "})".
Close Scope string_scope.
