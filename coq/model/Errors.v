(* Errors.v -- model of the error messages: errors.SimErrorBase (string.Template.substitute of a message
   template with the displayed forms of the error elements) for the loader's, the instruction-set loader's
   and the compiler's exceptions, with Python's str(int), repr(str) and str(list) on Latin-1 text.
   The templates use the braced form ${key} and every key is supplied, so substitution is one simultaneous
   pass: the message is the concatenation below and a substituted value is never scanned again. *)
From Coq Require Import ZArith.
From PS Require Import Base Str Sim Graph Loader Isa.
Open Scope string_scope.

(* str(int) *)
Fixpoint z_digits (fuel : nat) (z : Z) (acc : string) : string :=
  match fuel with
  | 0 => acc
  | S f => let acc' := String (digit (Z.to_nat (z mod 10))) acc in
           if (z / 10 =? 0)%Z then acc' else z_digits f (z / 10) acc'
  end.
Definition z_to_str (z : Z) : string :=
  if (z <? 0)%Z then String "-"%char (z_digits (S (Z.to_nat (Z.log2 (- z)))) (- z) EmptyString)
  else z_digits (S (Z.to_nat (Z.log2 z))) z EmptyString.

(* repr(str): Str.py_repr_str *)
(* str(list of str) *)
Fixpoint join_sep (sep : string) (l : list string) : string :=
  match l with [] => EmptyString | [x] => x | x :: t => x ++ sep ++ join_sep sep t end.
Definition py_list_repr (l : list string) : string := "[" ++ join_sep ", " (map py_repr_str l) ++ "]".

Definition lock_name (k : lock_kind) : string := match k with LkRead => "read" | LkWrite => "write" end.

(* the message of every loader error that is a SimErrorBase (DeadInputError: for the reported port) *)
Definition dead_input_msg (port : string) : string :=
  "No feasible path found from input port " ++ port ++ " to any output ports".
Definition load_err_msgs (e : load_err) : list string :=
  match e with
  | EDupUnit old new => ["Functional unit " ++ new ++ " previously added as " ++ old]
  | EBadWidth u w => ["Functional unit " ++ u ++ " has a bad width " ++ z_to_str w ++ "."]
  | EBadEdge ed => ["Edge " ++ py_list_repr ed ++ " doesn't connect exactly 2 functional units."]
  | EUndefUnit n => ["Undefined functional unit " ++ n]
  | EDeadInput ports => map dead_input_msg ports
  | EEmptyProc => ["No input ports found"]
  | EPathLock PlNone start lk cap =>
      ["Found a path starting at input port " ++ start ++ " with no " ++ lock_name lk
       ++ " locks for capability " ++ cap ++ "."]
  | EPathLock PlMultiple start lk cap =>
      ["Found a path passing through " ++ start ++ " with multiple " ++ lock_name lk
       ++ " locks for capability " ++ cap ++ "."]
  | EPathLock PlDifferent start lk cap =>
      ["Paths passing through " ++ start ++ " have different " ++ lock_name lk
       ++ " locks for capability " ++ cap ++ "."]
  | EBlockedCap cap port => ["Capability " ++ cap ++ " blocked from port " ++ port]
  | ECycle | EAclAssert => []                       (* not raised by the project's own error classes *)
  end.
(* the displayed forms of the fields of an error: what the message must contain *)
Definition load_err_fields (e : load_err) : list string :=
  match e with
  | EDupUnit old new => [old; new]
  | EBadWidth u w => [u; z_to_str w]
  | EBadEdge ed => [py_list_repr ed]
  | EUndefUnit n => [n]
  | EPathLock _ start lk cap => [start; lock_name lk; cap]
  | EBlockedCap cap port => [cap; port]
  | EDeadInput _ | EEmptyProc | ECycle | EAclAssert => []
  end.

Definition isa_err_msg (e : isa_err) : string :=
  match e with
  | IsaDup old new => "Instruction " ++ new ++ " previously added as " ++ old
  | IsaUndefCap cap => "Unsupported capability " ++ cap
  end.
Definition isa_err_fields (e : isa_err) : list string :=
  match e with IsaDup old new => [old; new] | IsaUndefCap cap => [cap] end.
Definition comp_err_msg (name : string) (line : nat) : string :=
  "Unsupported instruction " ++ name ++ " at line " ++ nat_to_str line.
Close Scope string_scope.
