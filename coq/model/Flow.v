(* Flow.v -- detailed model of the bus-width (flow) analysis behind BlockedCapError:
   processor_utils._checks._make_cap_graph / _get_anal_graph / _aug_out_ports / _unify_ports,
   cap_anal_utils.split_nodes / _split_node, _checks._dist_edge_caps / _coll_cap_edges / _get_cap_edge /
   _set_capacities, and what networkx.maximum_flow_value is used for (is the value zero?).
   Loader.chk_flow abstracts all of this to "no path in the capability graph"; proofs/Flow_*.v justify
   the abstraction.  Analysis nodes are the decimal strings of their integer ids, so that Graph.v (ordered
   adjacency, as networkx keeps it) is reused as is. *)
From PS Require Import Base Str Sim Graph Loader.

Definition nid (i : nat) : string := nat_to_str i.

(* _make_cap_graph: DiGraph(edges with the capability at both ends) + add_nodes_from(all nodes) *)
Definition cap_graph (g : graph) (at_ : attrs) (c : string) : graph :=
  let es := filter (fun e => has_cap at_ c (fst e) && has_cap at_ c (snd e)) (edges g) in
  fold_left add_node (g_nodes g) (fold_left (fun h e => add_edge h (fst e) (snd e)) es g_empty).

Record agraph := { ag : graph;                               (* the width graph *)
                   ag_w : list (string * nat);               (* node -> width *)
                   ag_cap : list (string * (string * nat)) }. (* finite capacities: (u, (v, c)) *)
Definition aw (a : agraph) (n : string) : nat := assoc 0 (ag_w a) n.

Fixpoint index_of (l : list string) (n : string) (i : nat) : nat :=
  match l with [] => i | x :: t => if String.eqb x n then i else index_of t n (S i) end.
(* _get_anal_graph / _update_graph: node i for the i-th unit, then the edges in G.edges order *)
Definition anal_graph (cg : graph) (at_ : attrs) : agraph :=
  let ns := g_nodes cg in
  let idx := fun n => nid (index_of ns n 0) in
  let g0 := fold_left (fun h i => add_node h (nid i)) (seq 0 (length ns)) g_empty in
  {| ag := fold_left (fun h e => add_edge h (idx (fst e)) (idx (snd e))) (edges cg) g0;
     ag_w := map (fun n => (idx n, a_width (attr_of at_ n))) ns;
     ag_cap := [] |}.

(* _aug_terminals / _unify_ports / _add_port_link: a single port is kept; otherwise (none, or several) a
   new node numbered number_of_nodes collects them, its width the sum of theirs *)
Definition unify_ports (a : agraph) (ports : list string) : agraph * string :=
  let u := nid (length (g_nodes (ag a))) in
  let a0 := {| ag := add_node (ag a) u; ag_w := set (ag_w a) u 0; ag_cap := ag_cap a |} in
  (fold_left (fun a p => {| ag := add_edge (ag a) p u; ag_w := set (ag_w a) u (aw a u + aw a p);
                            ag_cap := ag_cap a |}) ports a0, u).
Definition aug_out_ports (a : agraph) (ports : list string) : agraph * string :=
  match ports with [p] => (a, p) | _ => unify_ports a ports end.

(* _split_node / _mov_out_links *)
Definition split_node (a : agraph) (old new : string) : agraph :=
  let g1 := add_node (ag a) new in
  let g2 := fold_left (fun h s => remove_edge (add_edge h new s) old s) (succs (ag a) old) g1 in
  {| ag := add_edge g2 old new; ag_w := set (ag_w a) new (aw a old); ag_cap := ag_cap a |}.
(* split_nodes: in-degrees are a snapshot, out-degrees are read while the graph changes; node i is split
   into i and (number of nodes + i); returns the graph and the unit -> output twin map *)
Definition split_nodes (a : agraph) : agraph * list (string * string) :=
  let ns := g_nodes (ag a) in
  let n := length ns in
  let indeg := map (fun u => (u, in_degree (ag a) u)) ns in
  fold_left (fun '(a, m) '(i, (u, twin)) =>
               let od := out_degree (ag a) u in
               if negb (twin =? 1) && negb (od =? 1) && (negb (twin =? 0) || negb (od =? 0))
               then let new := nid (n + i) in (split_node a u new, m ++ [(u, new)])
               else (a, m ++ [(u, u)]))
            (combine (seq 0 n) indeg) (a, []).

(* _get_cap_edge: the only incoming edge, otherwise the first outgoing one *)
Definition cap_edge (g : graph) (n : string) : option (string * string) :=
  match preds g n with
  | [p] => Some (p, n)
  | _ => match succs g n with s :: _ => Some (n, s) | [] => None end
  end.
(* _coll_cap_edges / _set_capacities: capacity = the smaller width of the two ends *)
Definition dist_edge_caps (a : agraph) : agraph :=
  let g := ag a in
  let es := dedup_by (fun e f => String.eqb (fst e) (fst f) && String.eqb (snd e) (snd f))        (* a frozenset *)
              (flat_map (fun n => if (in_degree g n =? 1) || (out_degree g n =? 1)
                                  then match cap_edge g n with Some e => [e] | None => [] end else [])
                        (g_nodes g)) in
  {| ag := g; ag_w := ag_w a;
     ag_cap := map (fun e => (fst e, (snd e, Nat.min (aw a (fst e)) (aw a (snd e))))) es |}.
Definition capacity (a : agraph) (u v : string) : option nat :=
  match find (fun e => String.eqb (fst e) u && String.eqb (fst (snd e)) v) (ag_cap a) with
  | Some e => Some (snd (snd e)) | None => None end.

(* what the code learns from networkx.maximum_flow_value(anal_graph, s, t):
   NetworkXError when s = t or a node is missing; NetworkXUnbounded when t can be reached from s along
   edges without a capacity (networkx detect_unboundedness); otherwise the value, of which only "is it
   zero" is used -- zero iff t cannot be reached from s along edges of positive capacity
   (max-flow/min-cut, proofs/Flow_generic.v) *)
Inductive flow_res := FlowError | FlowUnbounded | FlowZero | FlowPositive.
Definition inf_succs (a : agraph) (u : string) : list string :=
  filter (fun v => match capacity a u v with None => true | Some _ => false end) (succs (ag a) u).
Definition pos_succs (a : agraph) (u : string) : list string :=
  filter (fun v => match capacity a u v with None => true | Some c => 0 <? c end) (succs (ag a) u).
Definition max_flow_res (a : agraph) (s t : string) : flow_res :=
  let fuel := S (length (g_nodes (ag a))) in
  if String.eqb s t || negb (has_node (ag a) s) || negb (has_node (ag a) t) then FlowError
  else if mem_str t (reach_from fuel (inf_succs a) [s] [s]) then FlowUnbounded
  else if mem_str t (reach_from fuel (pos_succs a) [s] [s]) then FlowPositive
  else FlowZero.

(* _chk_cap_flow: per input port of the capability, in order *)
Definition flow_setup (g : graph) (at_ : attrs) (c : string) (outs : list string) : agraph * (string -> string) * string :=
  let cg := cap_graph g at_ c in
  let idx := fun n => nid (index_of (g_nodes cg) n 0) in
  let a0 := anal_graph cg at_ in
  let '(a1, u) := aug_out_ports a0 (map idx outs) in
  let '(a2, m) := split_nodes a1 in
  (dist_edge_caps a2, idx, assoc u m u).
Definition port_flows (g : graph) (at_ : attrs) (c : string) (outs ins : list string) : list (string * flow_res) :=
  let '(a, idx, t) := flow_setup g at_ c outs in
  map (fun p => (p, max_flow_res a (idx p) t)) ins.
Inductive flow_chk := FlowOk | FlowBlocked (cap port : string) | FlowCrash (port : string) (r : flow_res).
Fixpoint first_bad (c : string) (l : list (string * flow_res)) : flow_chk :=
  match l with
  | [] => FlowOk
  | (p, FlowPositive) :: t => first_bad c t
  | (p, FlowZero) :: _ => FlowBlocked c p
  | (p, r) :: _ => FlowCrash p r
  end.
Definition chk_flow_detailed (g : graph) (at_ : attrs) (c : string) (outs ins : list string) : flow_chk :=
  first_bad c (port_flows g at_ c outs ins).
