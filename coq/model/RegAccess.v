(* RegAccess.v -- model of reg_access.py (RegAccQBuilder, RegAccessQueue).
   Queues are kept FRONT FIRST (registration order).  The Python class stores the
   reversed list and works at its tail; `qb_create` is where that reversal happens
   in the code and is the identity here.  Request sets are duplicate-free lists. *)
From PS Require Import Base.

Inductive aty := RD | WR.                                   (* AccessType.READ / WRITE *)
Definition aty_eqb (a b : aty) : bool := match a, b with RD, RD | WR, WR => true | _, _ => false end.
Record group := mkG { g_ty : aty; g_reqs : list nat }.     (* AccessGroup *)
Definition queue := list group.

Definition set_add (o : nat) (l : list nat) : list nat := if memn o l then l else l ++ [o].
Definition set_remove (o : nat) (l : list nat) : list nat := filter (fun x => negb (Nat.eqb o x)) l.

(* RegAccQBuilder.append / _can_merge: merge only a READ into a trailing READ group *)
Fixpoint qb_append (q : queue) (ty : aty) (o : nat) : queue :=
  match q with
  | [] => [mkG ty [o]]
  | [g] => if aty_eqb ty RD && aty_eqb (g_ty g) RD then [mkG RD (set_add o (g_reqs g))]
           else [g; mkG ty [o]]
  | g :: t => g :: qb_append t ty o
  end.
Definition qb_create (q : queue) : queue := q.
Definition build_queue (rs : list (aty * nat)) : queue :=
  qb_create (fold_left (fun q r => qb_append q (fst r) (snd r)) rs []).

Inductive pyerr := IndexError | KeyError | UnknownUnit.
Inductive res (A : Type) := Ok (a : A) | Err (e : pyerr).
Arguments Ok {A}. Arguments Err {A}.

Definition is_singleton (o : nat) (l : list nat) : bool :=
  match l with [x] => Nat.eqb o x | _ => false end.

(* RegAccessQueue.can_access (with _can_write_after_own_read) *)
Definition can_access (q : queue) (ty : aty) (o : nat) : res bool :=
  match q with
  | [] => Err IndexError
  | g :: rest =>
      Ok ((aty_eqb ty (g_ty g) && memn o (g_reqs g))
          || (aty_eqb ty WR
              && match rest with
                 | g2 :: _ => aty_eqb (g_ty g) RD && is_singleton o (g_reqs g)
                              && aty_eqb (g_ty g2) WR && memn o (g_reqs g2)
                 | [] => false
                 end))
  end.

(* RegAccessQueue.dequeue *)
Definition dequeue (q : queue) (o : nat) : res queue :=
  match q with
  | [] => Err IndexError
  | g :: rest =>
      if memn o (g_reqs g) then
        match set_remove o (g_reqs g) with
        | [] => Ok rest
        | r => Ok (mkG (g_ty g) r :: rest)
        end
      else Err KeyError
  end.
