(* C09_proof.v -- an accepted description yields a well-formed processor. *)
From Coq Require Import Lia Permutation ZArith.
From PS Require Import Base Str Sim Graph Loader Diag LoaderSpec Lists Graph_facts
  C12_lists C12_graph C12_desc C12_loader C11_locks
  LD_base LD_create LD_clean LD_term LD_make LD_spec C10_proof.

(* ====================================================================== *)
(* the processor as a graph                                                *)
(* ====================================================================== *)
Lemma pg_nodes ns : forall g, gwf g -> gwf (fold_left add_node ns g) /\
  forall x, succs (fold_left add_node ns g) x = succs g x.
Proof. induction ns as [|n t IH]; intros g H; simpl; auto.
  destruct (IH (add_node g n) (gwf_add_node g n H)) as [I1 I2]. split; auto.
  intros x. rewrite I2. apply add_node_succs. Qed.
Lemma pg_inner n ps : forall g, gwf g ->
  gwf (fold_left (fun g p => add_edge g p n) ps g) /\
  forall x y, In y (succs (fold_left (fun g p => add_edge g p n) ps g) x) -> In y (succs g x) \/ (y = n /\ In x ps).
Proof. induction ps as [|p t IH]; intros g H; simpl; auto.
  destruct (IH (add_edge g p n) (gwf_add_edge g p n H)) as [I1 I2]. split; auto.
  intros x y Hy. apply I2 in Hy. destruct Hy as [Hy|[-> Hy]]; auto.
  apply add_edge_succs in Hy. destruct Hy as [Hy|[-> ->]]; auto. Qed.
Definition pg_step (g : graph) (f : funit) : graph :=
  fold_left (fun g p => add_edge g p (u_name (f_model f))) (f_preds f) g.
Lemma pg_outer fs : forall g, gwf g ->
  gwf (fold_left pg_step fs g) /\
  forall x y, In y (succs (fold_left pg_step fs g) x) ->
    In y (succs g x) \/ exists f, In f fs /\ y = u_name (f_model f) /\ In x (f_preds f).
Proof. induction fs as [|f t IH]; intros g H; simpl; auto.
  destruct (pg_inner (u_name (f_model f)) (f_preds f) g H) as [J1 J2].
  destruct (IH (pg_step g f) J1) as [I1 I2]. split; auto.
  intros x y Hy. apply I2 in Hy. destruct Hy as [Hy|[f' [H1 H2]]].
  - apply J2 in Hy. destruct Hy as [Hy|[-> Hy]]; auto. right. exists f. auto.
  - right. exists f'. tauto. Qed.
Lemma proc_graph_spec P : gwf (proc_graph P) /\
  forall x y, In y (succs (proc_graph P) x) -> exists f, In f (funits P) /\ y = u_name (f_model f) /\ In x (f_preds f).
Proof. unfold proc_graph. destruct (pg_nodes (unit_names P) g_empty gwf_empty) as [N1 N2].
  destruct (pg_outer (funits P) _ N1) as [O1 O2]. split; [exact O1|].
  intros x y Hy. apply O2 in Hy. destruct Hy as [Hy|Hy]; auto. rewrite N2 in Hy. destruct Hy. Qed.

(* ====================================================================== *)
(* lock_counts as an instance of alc                                       *)
(* ====================================================================== *)
Definition nxtP (P : proc) (c : string) (u : string) : list string := filter (fun s => supports P s c) (succs_of P u).
Definition lockedP (P : proc) (k : lock_kind) (u : string) : bool :=
  match k with LkRead => has_rl P u | LkWrite => has_wl P u end.
Lemma lock_counts_alc P c k : forall fuel u acc,
  lock_counts fuel P c u k acc = alc (nxtP P c) (lockedP P k) fuel u acc.
Proof. induction fuel as [|f IH]; intros u acc; cbn [lock_counts alc]; auto.
  unfold nxtP at 1, bump, lockedP at 1 2.
  destruct (filter (fun s => supports P s c) (succs_of P u)); auto. apply flat_map_ext. intros a. apply IH. Qed.

(* ====================================================================== *)
(* C09                                                                     *)
(* ====================================================================== *)
Section Loaded.
  Variables (d : desc) (P : proc) (g : graph) (at0 : attrs) (creg order : list string)
            (gc : graph) (at1 : attrs) (g1 g2 : graph).
  Hypothesis L : loaded d P g at0 creg order gc at1 g1 g2.

  Let C := ld_created _ _ _ _ _ _ _ _ _ _ L.
  Let Ht := ld_topo _ _ _ _ _ _ _ _ _ _ L.
  Let Hc := ld_clean _ _ _ _ _ _ _ _ _ _ L.
  Let Hr := ld_rm _ _ _ _ _ _ _ _ _ _ L.
  Let Hk := ld_term _ _ _ _ _ _ _ _ _ _ L.
  Let W := ld_g2_wf _ _ _ _ _ _ _ _ _ _ L.
  Let A := ld_g2_acyclic _ _ _ _ _ _ _ _ _ _ L.
  Let M := ld_made _ _ _ _ _ _ _ _ _ _ L.

  Lemma ld_g2_g1 x : In x (g_nodes g2) -> In x (g_nodes g1).
  Proof. intros H. apply (br_g2_nodes d g at0 creg C order gc at1 g1 Ht Hc Hr g2 Hk) in H. tauto. Qed.
  Lemma ld_g2_g x : In x (g_nodes g2) -> In x (g_nodes g).
  Proof. apply (br_g2_sub d g at0 creg C order gc at1 g1 Ht Hc Hr g2 Hk). Qed.
  Lemma ld_g2_unit x : In x (g_nodes g2) -> exists u, In u (d_units d) /\ d_name u = x.
  Proof. intros H. apply ld_g2_g in H. rewrite (cr_nodes _ _ _ _ C) in H. unfold d_names in H.
    apply in_map_iff in H. destruct H as [u [H1 H2]]. eauto. Qed.
  Lemma ld_g2_caps x : In x (g_nodes g2) -> caps_of at1 x <> [].
  Proof. intros H. apply ld_g2_g1 in H. apply (br_g1_nodes d g at0 creg C order gc at1 g1 Ht Hc Hr) in H. tauto. Qed.
  Lemma ld_g2_edge_share p n : In p (preds g2 n) -> exists c, In c (caps_of at1 n) /\ In c (caps_of at1 p).
  Proof. intros H. apply (br_g2_preds d g at0 creg C order gc at1 g1 Ht Hc Hr g2 Hk) in H. destruct H as [H _].
    apply (br_g1_preds d g at0 creg C order gc at1 g1 Ht Hc Hr) in H. destruct H as [_ [c [H1 H2]]].
    exists c. split; apply (br_caps1 d g at0 creg C order gc at1 Ht Hc); auto. Qed.

  Lemma ld_dag : is_dag (proc_graph P) = true.
  Proof. destruct (proc_graph_spec P) as [G1 G2]. apply is_dag_acyclic; auto.
    eapply acyclic_sub; [|exact A]. intros a b Hb. apply G2 in Hb. destruct Hb as [f [F1 [-> F2]]].
    apply (made_funits g2 at1 creg P M) in F1. destruct F1 as [n [_ [_ ->]]]. simpl in *.
    rewrite sort_str_In in F2. apply (gwf_sym g2 W). auto. Qed.

  Lemma ld_names_ci : nodupb ic_eqb (unit_names P) = true.
  Proof. apply nodupb_ic. eapply Permutation_NoDup.
    - apply Permutation_sym. apply Permutation_map. apply (made_names_perm g2 at1 creg P M).
    - apply NoDup_map_inj; [|apply W]. intros x y Hx Hy E.
      apply ld_g2_g in Hx, Hy. rewrite (cr_nodes _ _ _ _ C) in Hx, Hy.
      apply (NoDup_map_In_eq lower (d_names d)); auto. apply (cr_names _ _ _ _ C). Qed.

  Lemma ld_units_ok u : In u (all_units P) -> (0 <? u_width u) && match u_caps u with [] => false | _ => true end = true.
  Proof. intros Hu. apply (made_all_units g2 at1 creg P M) in Hu. destruct Hu as [n [Hn ->]].
    destruct (ld_g2_unit n Hn) as [x [Hx <-]].
    destruct (br_attr1_unit d g at0 creg C order gc at1 Ht Hc x Hx) as [A1 _].
    apply andb_true_iff. split.
    - apply Nat.ltb_lt. cbn [the_unit mk_unit u_width]. rewrite A1.
      pose proof (cr_width _ _ _ _ C x Hx). lia.
    - cbn [the_unit mk_unit u_caps]. destruct (sort_str _) eqn:E; auto. rewrite sort_str_nil in E.
      apply ld_g2_caps in Hn. unfold caps_of in Hn. congruence. Qed.

  Lemma ld_caps_in p : In p (g_nodes g2) -> caps_in P p = sort_str (caps_of at1 p).
  Proof. intros Hp. unfold caps_in. rewrite (made_find_unit g2 at1 creg P M p Hp). reflexivity. Qed.

  Lemma ld_conns_ok f : In f (funits P) ->
    forallb (fun p => mem_str p (unit_names P) && existsb (fun c => mem_str c (caps_in P p)) (u_caps (f_model f)))
            (f_preds f) = true.
  Proof. intros Hf. apply (made_funits g2 at1 creg P M) in Hf. destruct Hf as [n [Hn [_ ->]]].
    cbn [the_funit f_preds f_model the_unit mk_unit u_caps]. apply forallb_forall. intros p Hp.
    rewrite sort_str_In in Hp. assert (Hpn : In p (g_nodes g2)) by (apply (gwf_preds_in g2 W p n Hp)).
    apply andb_true_iff. split.
    - apply mem_str_In. apply (made_names_In g2 at1 creg P M). auto.
    - destruct (ld_g2_edge_share p n Hp) as [c [H1 H2]]. apply existsb_exists. exists c. split.
      + rewrite sort_str_In. auto.
      + apply mem_str_In. rewrite ld_caps_in by auto. rewrite sort_str_In. auto. Qed.

  (* successors through units supporting c: processor side versus graph side *)
  Lemma ld_nxt c u s : In s (nxtP P c u) <-> In s (cnxt g2 at1 c u).
  Proof. unfold nxtP, cnxt. rewrite !filter_In, (made_succs_of_In g2 at1 creg P W M), (made_supports g2 at1 creg P M).
    unfold has_cap. rewrite mem_str_In. split; [tauto|]. intros [H1 H2]. split; auto. split; auto.
    apply (gwf_in g2 W) in H1. tauto. Qed.
  Lemma ld_locked k u : In u (g_nodes g2) -> lockedP P k u = lk_of at1 k u.
  Proof. intros Hu. destruct k; simpl; [apply (made_has_rl_eq g2 at1 creg P M)|apply (made_has_wl_eq g2 at1 creg P M)]; auto. Qed.

  Lemma ld_locks_ok n c k : In n (in_ports_of g2) -> In c (caps_of at1 n) ->
    forallb (fun x => x =? 1) (lock_counts (S (nunits P)) P c n k 0) = true.
  Proof. intros Hn Hcap. apply forallb_forall. intros x Hx. apply Nat.eqb_eq.
    assert (Hn' : In n (g_nodes g2)) by (apply in_ports_In in Hn; tauto).
    rewrite lock_counts_alc in Hx.
    apply (alc_spec (nxtP P c) (lockedP P k) (fun u => idx u (dfs_postorder g2)) (fun u => In u (g_nodes g2))) in Hx; auto.
    - destruct Hx as [v [Hv ->]]. simpl.
      apply (rval_ext _ (cnxt g2 at1 c) _ (lk_of at1 k) (fun u => In u (g_nodes g2))) in Hv; auto.
      + destruct (cap_checks_ok g2 at1 W A (ld_caps _ _ _ _ _ _ _ _ _ _ L) n c Hn Hcap) as [K _]. apply (K k v Hv).
      + intros u Hu. split; [intros s; apply ld_nxt|apply ld_locked; auto].
      + intros u s Hu Hs. apply ld_nxt in Hs. apply (cnxt_rank g2 at1 W A c u s Hu Hs).
    - intros u s Hu Hs. apply ld_nxt in Hs. apply (cnxt_rank g2 at1 W A c u s Hu Hs).
    - rewrite (made_nunits g2 at1 creg P M). pose proof (idx_post_lt g2 W n Hn'). lia. Qed.

  Lemma ld_flow_ok n c : In n (in_ports_of g2) -> In c (caps_of at1 n) -> reaches_output P c n = true.
  Proof. intros Hn Hcap. assert (Hn' : In n (g_nodes g2)) by (apply in_ports_In in Hn; tauto).
    unfold reaches_output. rewrite (made_nunits g2 at1 creg P M). apply existsb_exists.
    fold (nxtP P c).
    assert (Hadj : forall y, incl (nxtP P c y) (succs g2 y)).
    { intros y s Hs. apply ld_nxt in Hs. apply filter_In in Hs. tauto. }
    destruct (Nat.ltb_spec 1 (length (g_nodes g2))) as [Hl|Hl].
    - destruct (cap_checks_ok g2 at1 W A (ld_caps _ _ _ _ _ _ _ _ _ _ L) n c Hn Hcap) as [_ K].
      destruct (K Hl) as [o [O1 O2]]. exists o. split.
      + apply (made_out_names g2 at1 creg P M). apply out_ports_In. auto.
      + apply mem_str_In. apply (reach_from_graph g2 (nxtP P c) n o W Hn' Hadj).
        eapply rpath_sub; [|exact O2]. intros x y Hy. apply ld_nxt. unfold cap_succs in Hy.
        destruct (has_cap at1 c x); [exact Hy|destruct Hy].
    - (* a single unit: it is its own output port *)
      exists n. split.
      + apply (made_out_names g2 at1 creg P M). split; auto.
        destruct (succs g2 n) as [|s l] eqn:E; auto. exfalso.
        assert (Hs : In s (succs g2 n)) by (rewrite E; left; auto).
        assert (Hs' : In s (g_nodes g2)) by (apply (gwf_in g2 W) in Hs; tauto).
        assert (s = n).
        { destruct (g_nodes g2) as [|a [|b t]]; simpl in *; try lia.
          destruct Hn' as [<-|[]]. destruct Hs' as [<-|[]]. auto. }
        subst s. apply (A n). apply gp_edge. auto.
      + apply mem_str_In. apply reach_from_mono. left; auto. Qed.

  Lemma ld_ports_ok p : In p (p_in P ++ p_inout P) ->
    forallb (fun c => reaches_output P c (u_name p)
                      && forallb (fun n => n =? 1) (lock_counts (S (nunits P)) P c (u_name p) LkRead 0)
                      && forallb (fun n => n =? 1) (lock_counts (S (nunits P)) P c (u_name p) LkWrite 0)) (u_caps p) = true.
  Proof. intros Hp. apply (made_ports g2 at1 creg P M) in Hp. destruct Hp as [n [Hn [Hpr ->]]].
    cbn [the_unit mk_unit u_name u_caps]. apply forallb_forall. intros c Hcap. rewrite sort_str_In in Hcap.
    assert (Hin : In n (in_ports_of g2)) by (apply in_ports_In; auto).
    rewrite ld_flow_ok, !ld_locks_ok; auto. Qed.

  Lemma ld_C09 : C09_checkb P = true.
  Proof. unfold C09_checkb. rewrite ld_dag, ld_names_ci. simpl.
    repeat (apply andb_true_iff; split).
    - apply forallb_forall. apply ld_units_ok.
    - apply forallb_forall. apply ld_conns_ok.
    - apply forallb_forall. apply ld_ports_ok. Qed.

  Lemma ld_simulable :
    nodupb String.eqb (unit_names P) = true /\ sink_first (p_int P) [] = true /\
    forallb (fun f => nodupb String.eqb (f_preds f)
                      && forallb (fun p => mem_str p (unit_names P) && negb (mem_str p (out_names P))) (f_preds f))
            (funits P) = true.
  Proof. split; [apply nodupb_str, (made_names_NoDup g2 at1 creg P W M)|]. split; [apply (md_sink _ _ _ _ M)|].
    apply forallb_forall. intros f Hf. apply (made_funits g2 at1 creg P M) in Hf. destruct Hf as [n [Hn [_ ->]]].
    cbn [the_funit f_preds]. apply andb_true_iff. split.
    - apply nodupb_str. apply sort_str_NoDup. apply W.
    - apply forallb_forall. intros p Hp. rewrite sort_str_In in Hp. apply andb_true_iff. split.
      + apply mem_str_In. apply (made_names_In g2 at1 creg P M). apply (gwf_preds_in g2 W p n Hp).
      + apply negb_true_iff. apply mem_str_false. intros Ho. apply (made_out_names g2 at1 creg P M) in Ho.
        destruct Ho as [_ Ho]. apply (gwf_sym g2 W) in Hp. rewrite Ho in Hp. destruct Hp. Qed.
End Loaded.

Lemma C09_sound_lemma : forall d P, load_proc_desc d = LoadOk P -> C09_checkb P = true.
Proof. intros d P H. destruct (load_ok_loaded d P H) as [g [at0 [creg [order [gc [at1 [g1 [g2 L]]]]]]]].
  eapply ld_C09; eauto. Qed.

Lemma C09_accepted_is_simulable_lemma :
  forall d P, load_proc_desc d = LoadOk P ->
    nodupb String.eqb (unit_names P) = true /\ sink_first (p_int P) [] = true /\
    forallb (fun f => nodupb String.eqb (f_preds f)
                      && forallb (fun p => mem_str p (unit_names P) && negb (mem_str p (out_names P))) (f_preds f))
            (funits P) = true.
Proof. intros d P H. destruct (load_ok_loaded d P H) as [g [at0 [creg [order [gc [at1 [g1 [g2 L]]]]]]]].
  eapply ld_simulable; eauto. Qed.
