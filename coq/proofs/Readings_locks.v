(* Readings_locks.v -- the guard `locks_ok` read as a statement about maximal capability routes. *)
From Coq Require Import Lia.
From PS Require Import Base Bag RegAccess Sim Diag Lists HZ_diag Readings_defs.

Section Locks.
Variable cr : proc -> string -> list string -> Prop.
Hypothesis Hcr : CrLike cr.
Variable P : proc.
Variable c : string.

Definition cnt (p : string -> bool) (l : list string) : nat := length (filter p l).
Lemma cnt_cons p x l : cnt p (x :: l) = bn (p x) + cnt p l.
Proof. unfold cnt. cbn [filter]. destruct (p x); reflexivity. Qed.
Lemma cnt_app p l1 l2 : cnt p (l1 ++ l2) = cnt p l1 + cnt p l2.
Proof. unfold cnt. rewrite filter_app, app_length. reflexivity. Qed.
Lemma cnt_zero p l : cnt p l = 0 -> forall x, In x l -> p x = false.
Proof. induction l as [|a l IH]; intros H x Hx; [destruct Hx|]. rewrite cnt_cons in H.
  destruct Hx as [<-|Hx].
  - destruct (p a); auto. cbn [bn] in H. lia.
  - apply IH; auto. lia. Qed.
Lemma cnt_one p l : cnt p l = 1 ->
  exists l1 r l2, l = l1 ++ r :: l2 /\ p r = true /\ cnt p l1 = 0 /\ cnt p l2 = 0.
Proof. induction l as [|a l IH]; intros H; [discriminate|]. rewrite cnt_cons in H. destruct (p a) eqn:E.
  - exists [], a, l. cbn [bn] in H. repeat split; auto; lia.
  - cbn [bn] in H. destruct (IH H) as (l1 & r & l2 & -> & H1 & H2 & H3).
    exists (a :: l1), r, l2. repeat split; auto. rewrite cnt_cons, E. auto. Qed.

Lemma cr_head u l : cr P c (u :: l) -> supports P u c = true.
Proof. intros H. apply cr_inv in H. destruct H as [(u0 & E & H)|(u0 & v & l' & E & H & _)]; inversion E; subst; auto. Qed.

Lemma filter_nil_all {A} (f : A -> bool) l : (forall x, In x l -> f x = false) -> filter f l = [].
Proof. induction l as [|a l IH]; intros H; auto. cbn [filter]. rewrite (H a) by (left; auto).
  apply IH. intros x Hx. apply H. right; auto. Qed.

(* the recursion of route_ok follows every maximal route; it never runs out of fuel on an accepted one *)
Lemma route_ok_follow : forall f u r w l,
  route_ok f P c u r w = true -> cr P c (u :: l) -> maximal P c (u :: l) ->
  r + cnt (has_rl P) (u :: l) = 1 /\ w + cnt (has_wl P) (u :: l) = 1 /\
  (forall l1 x l2, u :: l = l1 ++ x :: l2 -> has_rl P x = true -> w + cnt (has_wl P) l1 = 0).
Proof. induction f as [|f IH]; intros u r w l H Hc Hm; [discriminate|]. rewrite route_ok_S in H.
  apply andb_true_iff in H. destruct H as [H0 H].
  assert (G0 : has_rl P u = true -> w = 0).
  { intros E. rewrite E in H0. cbn [andb] in H0. apply negb_true_iff in H0. apply Nat.ltb_ge in H0. lia. }
  apply cr_inv in Hc. destruct Hc as [(u0 & E & Hs)|(u0 & v & l' & E & Hs & Hv & Hc)]; inversion E; subst; clear E.
  - rewrite filter_nil_all in H.
    + apply andb_true_iff in H. destruct H as [H1 H2]. apply Nat.eqb_eq in H1, H2.
      rewrite !cnt_cons. unfold cnt at 1 2. cbn [filter length]. split; [lia|]. split; [lia|].
      intros l1 x l2 E Hx. destruct l1 as [|y l1].
      * inversion E; subst. rewrite (G0 Hx). reflexivity.
      * inversion E. destruct l1; discriminate.
    + intros x Hx. apply (Hm u0); auto.
  - pose proof (cr_head _ _ Hc) as Hsv.
    assert (G : In v (filter (fun s => supports P s c) (succs_of P u0))) by (apply filter_In; auto).
    destruct (filter (fun s => supports P s c) (succs_of P u0)) as [|s nxt] eqn:Ef; [destruct G|].
    rewrite forallb_forall in H. specialize (H v G).
    assert (Hm' : maximal P c (v :: l')) by (intros x Hx; apply Hm; exact Hx).
    destruct (IH v _ _ l' H Hc Hm') as (A1 & A2 & A3).
    rewrite (cnt_cons (has_rl P) u0), (cnt_cons (has_wl P) u0). split; [lia|]. split; [lia|].
    intros l1 x l2 E Hx. destruct l1 as [|y l1].
    + inversion E; subst. rewrite (G0 Hx). reflexivity.
    + inversion E; subst. specialize (A3 l1 x l2 H3 Hx). rewrite cnt_cons. lia. Qed.

End Locks.

Lemma locks_reading_gen (cr : proc -> string -> list string -> Prop) (Hcr : CrLike cr) :
  forall P, wf_procb P = true ->
    forall p c l, In p (p_in P ++ p_inout P) -> In c (u_caps p) ->
      cr P c (u_name p :: l) -> maximal P c (u_name p :: l) ->
      exists l1 r l2,
        u_name p :: l = l1 ++ r :: l2 /\ has_rl P r = true /\
        (forall x, In x (l1 ++ l2) -> has_rl P x = false) /\
        (forall x, In x l1 -> has_wl P x = false) /\
        length (filter (has_wl P) (r :: l2)) = 1.
Proof. intros P Hwf p c l Hp Hcap Hc Hm.
  assert (Hl : locks_ok P = true) by (unfold wf_procb in Hwf; apply andb_true_iff in Hwf; tauto).
  unfold locks_ok in Hl. rewrite forallb_forall in Hl. specialize (Hl p Hp).
  rewrite forallb_forall in Hl. specialize (Hl c Hcap).
  destruct (route_ok_follow cr Hcr P c _ _ _ _ l Hl Hc Hm) as (A1 & A2 & A3).
  cbn [plus] in A1, A2.
  destruct (cnt_one _ _ A1) as (l1 & r & l2 & E & Hr & Z1 & Z2).
  exists l1, r, l2. split; auto. split; auto.
  specialize (A3 l1 r l2 E Hr). cbn [plus] in A3. split; [|split].
  - intros x Hx. apply in_app_iff in Hx. destruct Hx; [eapply cnt_zero; [exact Z1|]|eapply cnt_zero; [exact Z2|]]; auto.
  - intros x Hx. eapply cnt_zero; [exact A3|auto].
  - rewrite E, cnt_app in A2. fold (cnt (has_wl P) (r :: l2)). lia. Qed.
