(* C08, no-crash part: a cycle run from a reachable state never returns Crash.
   - _chk_hazards: every key holding entries names a unit, every instruction index is < length prog,
     and can_access is only asked on non-empty queues (an entry that is not regs_loaded in a locking
     unit has not yet performed that access, so its request is still queued: QI + arr_facts);
   - the dequeue loop: HZ_inv.c_deqs (every cleared request was granted on the start-of-cycle queue). *)
From Coq Require Import Lia.
From PS Require Import Base Bag RegAccess Sim Diag Lists Run C03_lists C03_step C03_track.
From PS Require Import HZ_queue HZ_plan HZ_diag HZ_haz HZ_inv.
Close Scope string_scope.

(* ---------- sufficient conditions for the two loops to return Ok ---------- *)
Definition entry_fine (u : unit) (oldn : list entry) (prog : list instr) (qs : queues) (e : entry) : Prop :=
  regs_loaded oldn (fst e) = false ->
  exists ins o, nth_error prog (fst e) = Some ins /\ regs_avail u (fst e) ins qs = Ok o.

Lemma stall_unit_ok u oldn prog qs : forall es cl, (forall e, In e es -> entry_fine u oldn prog qs e) ->
  exists res, stall_unit u oldn prog qs es cl = Ok res.
Proof. induction es as [|[i l] t IH]; intros cl H; cbn [stall_unit]; [eauto|].
  assert (Ht : forall e, In e t -> entry_fine u oldn prog qs e) by (intros e He; apply H; right; auto).
  destruct (regs_loaded oldn i) eqn:El.
  - destruct (IH cl Ht) as [[t' c'] ->]. eauto.
  - destruct (H (i, l) (or_introl eq_refl) El) as (ins & o & Hn & Hr). cbn [fst] in Hn, Hr. rewrite Hn, Hr.
    destruct o as [regs|].
    + destruct (IH (cl ++ map (fun r => (r, i)) regs) Ht) as [[t' c'] ->]. eauto.
    + destruct (IH cl Ht) as [[t' c'] ->]. eauto. Qed.

Lemma hazards_ok P old prog qs : forall r cl,
  (forall n es, In (n, es) r -> es <> [] ->
     exists u, find_unit P n = Some u /\ forall e, In e es -> entry_fine u (get old n) prog qs e) ->
  exists res, chk_hazards_units P old prog qs r cl = Ok res.
Proof. induction r as [|[n es] t IH]; intros cl H; cbn [chk_hazards_units]; [eauto|].
  assert (Ht : forall n es, In (n, es) t -> es <> [] ->
     exists u, find_unit P n = Some u /\ forall e, In e es -> entry_fine u (get old n) prog qs e)
    by (intros n' es' Hin; apply H; right; auto).
  destruct es as [|e es].
  - destruct (IH cl Ht) as [[t' c'] ->]. eauto.
  - destruct (H n (e :: es) (or_introl eq_refl)) as (u & -> & Hu); [discriminate|].
    destruct (stall_unit_ok u (get old n) prog qs (e :: es) cl Hu) as [[es' c'] ->].
    destruct (IH c' Ht) as [[t' c''] ->]. eauto. Qed.

Lemma owners_cons_eq reg o cl : owners reg ((reg, o) :: cl) = o :: owners reg cl.
Proof. unfold owners. cbn [flat_map fst snd]. rewrite String.eqb_refl. reflexivity. Qed.
Lemma owners_cons_ne reg r o cl : r <> reg -> owners reg ((r, o) :: cl) = owners reg cl.
Proof. intros H. unfold owners. cbn [flat_map fst snd]. destruct (String.eqb_spec r reg); [contradiction|reflexivity]. Qed.

Lemma apply_clears_ok : forall cl qs,
  (forall reg, exists q, deqs (assoc [] qs reg) (owners reg cl) = Ok q) -> exists qs', apply_clears qs cl = Ok qs'.
Proof. induction cl as [|[r o] cl IH]; intros qs H; cbn [apply_clears]; [eauto|]. cbn [fst snd].
  destruct (H r) as [q Hq]. rewrite owners_cons_eq in Hq. cbn [deqs] in Hq.
  destruct (dequeue (assoc [] qs r) o) as [q'|] eqn:E; [|discriminate].
  apply IH. intros reg. rewrite assoc_set. destruct (String.eqb_spec reg r) as [->|Hne]; [eauto|].
  destruct (H reg) as [q2 Hq2]. rewrite owners_cons_ne in Hq2 by congruence. eauto. Qed.

Section NoCrash.
Variables (P : proc) (prog : list instr).
Hypothesis Hwf : wf_procb P = true.
Hypothesis Hwp : wf_progb prog = true.

(* arrival facts from the stay / move / issue trichotomy (as in HZ_inv.c_arr, but for any record) *)
Lemma arr_tri d ent old u i : Forall (rec_ok ent) d -> HIr P prog d old ->
  regs_loaded (get old u) i = false ->
  ((exists l, In (i, l) (get old u)) \/
   (exists h l, In h (preds_of P u) /\ In (i, l) (get old h) /\ l <> LD /\ supports P u (cat_of prog i) = true) \/
   (ent <= i /\ In u (in_names P) /\ supports P u (cat_of prog i) = true)) ->
  arr P prog d u i.
Proof. intros HC HH Hl [(l & Ho)|[(h & l & Hp & Ho & Hl0 & Hs)|(Hi & Hu & Hs)]].
  - assert (l = LD).
    { destruct (label_eqb l LD) eqn:El; [apply label_eqb_eq; auto|].
      assert (regs_loaded (get old u) i = true) by (apply regs_loaded_iff; exists l; split; auto; intros ->; discriminate).
      congruence. }
    subst l. destruct (HH u i LD Ho) as (rr & w & f & Hr & H1 & H2). exists rr, w, f. split; auto.
    split; [rewrite H1|rewrite H2]; split; auto; intros [?|[_ ?]]; auto; congruence.
  - destruct (HH h i l Ho) as (rr & w & f & Hr & H1 & H2).
    destruct (route_step _ _ _ _ u _ _ Hr (preds_succs _ _ _ Hp) Hs) as [f' Hr'].
    apply route_bounds in Hr. destruct Hr as (B1 & B2 & _).
    exists (rr + bn (has_rl P h)), (w + bn (has_wl P h)), f'. split; auto. split.
    + rewrite H1. destruct (has_rl P h); cbn [bn] in *; split.
      * intros _. lia.
      * intros _. right. split; auto.
      * intros [?|[? _]]; [lia|discriminate].
      * intros ?. left. lia.
    + rewrite H2. destruct (has_wl P h); cbn [bn] in *; split.
      * intros _. lia.
      * intros _. right. split; auto.
      * intros [?|[? _]]; [lia|discriminate].
      * intros ?. left. lia.
  - exists 0, 0, (S (nunits P)). split; [apply route_init; auto|].
    rewrite !(fresh_unperformed P ent d i) by auto. split; split; intros; try discriminate; lia. Qed.

Lemma supports_find u c : supports P u c = true -> exists uu, find_unit P u = Some uu.
Proof. unfold supports. destruct (find_unit P u); [eauto|discriminate]. Qed.

(* the entries of the last record of a reachable table sit in known units *)
Lemma last_units s : reach P prog s -> forall u e, In e (get (last (tbl s) []) u) -> exists uu, find_unit P u = Some uu.
Proof. intros Hr u [i l] Hin. destruct (tbl s) as [|a t] eqn:Et; [destruct Hin|].
  assert (Ht : length (tbl s) - 1 < length (tbl s)) by (rewrite Et; cbn; lia).
  destruct (cycle_at P prog s _ Hwf Hwp Hr Ht) as (qs & ent & r1 & r2 & busy & ent' & cl & _ & _ & _ & _ & _ & _ & E3).
  rewrite rec_at_last, Et in E3. destruct (c_lab P prog _ qs r2 _ cl E3 u i l Hin) as (uu & Hf & _). eauto. Qed.

(* the hazard check of a cycle run from a reachable state succeeds *)
Lemma hazards_no_err s r1 busy r2 ent' :
  reach P prog s ->
  mov_flights P prog (last (tbl s) []) = (r1, busy) ->
  fill_inputs (S (length prog)) prog (in_ports_sorted P) r1 busy (entered s) = (r2, ent') ->
  exists res, chk_hazards_units P (last (tbl s) []) prog (qs_ s) r2 [] = Ok res.
Proof. intros Hr E1 E2. destruct (inv_reach P prog Hwf Hwp s Hr) as ((HC & Hle) & HQ & HH).
  set (old := last (tbl s) []) in *. destruct (last_rec_ok _ _ HC) as (K & U & L). fold old in K, U, L.
  destruct (mov_flights_spec P Hwf prog old r1 busy K U E1) as (K1 & U1 & A1 & _).
  assert (L1 : forall i, inrec r1 i -> i < entered s).
  { intros i (u & l & Hin). apply L. destruct (A1 _ _ _ Hin) as [[G _]|(_ & h & l0 & _ & G & _)]; [exists u, l|exists h, l0]; auto. }
  destruct (fill_inputs_spec P Hwf prog _ _ _ _ _ _ K1 U1 L1 Hle E2) as (K2 & U2 & L2 & Le2 & B1 & _).
  apply hazards_ok. intros n es Hin Hne. rewrite <- (get_in r2 n es K2 Hin) in *.
  assert (Htri : forall i l, In (i, l) (get r2 n) ->
     (exists l, In (i, l) (get old n)) \/
     (exists h l, In h (preds_of P n) /\ In (i, l) (get old h) /\ l <> LD /\ supports P n (cat_of prog i) = true) \/
     (entered s <= i /\ In n (in_names P) /\ supports P n (cat_of prog i) = true)).
  { intros i l Hi. destruct (B1 _ _ _ Hi) as [G|(_ & G1 & G2 & G3)]; [|right; right; split; [lia|auto]].
    destruct (A1 _ _ _ G) as [[G1 _]|(_ & h & l0 & G1)]; [left; eauto|right; left; eauto]. }
  assert (Hfu : exists uu, find_unit P n = Some uu).
  { destruct (get r2 n) as [|[i l] rest] eqn:Eg; [congruence|].
    destruct (Htri i l (or_introl eq_refl)) as [(l0 & G)|[(h & l0 & _ & _ & _ & G)|(_ & _ & G)]];
      [eapply (last_units s Hr); eauto|eapply supports_find; eauto|eapply supports_find; eauto]. }
  destruct Hfu as [uu Hf]. exists uu. split; auto. intros [i l] Hi Hl. cbn [fst] in *.
  assert (Hi' : i < length prog) by (assert (i < ent') by (apply L2; exists n, l; auto); lia).
  destruct (nth_error prog i) as [ins|] eqn:En; [|apply nth_error_None in En; lia].
  pose proof (arr_tri (tbl s) (entered s) old n i HC HH Hl (Htri i l Hi)) as Harr.
  destruct (arr_facts P prog (tbl s) n i Harr) as (F1 & F2 & _).
  rewrite (has_rl_find P n uu Hf) in F1. rewrite (has_wl_find P n uu Hf) in F2.
  exists ins. rewrite (regs_avail_eval P prog Hwp (qs_ s) (tbl s) uu i ins HQ En F1 F2).
  destruct (_ || _); eauto. Qed.

Lemma cycle_no_crash s e : reach P prog s -> run_cycle P prog s <> inr (Crash e).
Proof. intros Hr. destruct (inv_reach P prog Hwf Hwp s Hr) as ((HC & Hle) & HQ & HH). unfold run_cycle.
  destruct (mov_flights P prog (last (tbl s) [])) as [r1 busy] eqn:E1.
  destruct (fill_inputs (S (length prog)) prog (in_ports_sorted P) r1 busy (entered s)) as [r2 ent'] eqn:E2.
  destruct (hazards_no_err s r1 busy r2 ent' Hr E1 E2) as [[r3 cl] E3]. rewrite E3.
  destruct (apply_clears_ok cl (qs_ s)) as [qs' E4].
  { intros reg. eexists. eapply (c_deqs P prog Hwf Hwp (tbl s) (qs_ s) (entered s) r1 r2 r3 busy ent' cl); eauto. }
  rewrite E4. destruct (bag_eqb r3 (last (tbl s) [])); discriminate. Qed.

Lemma C08_no_crash_reach s : reach P prog s -> forall e, run_cycle P prog s <> inr (Crash e).
Proof. intros Hr e. apply cycle_no_crash; auto. Qed.
End NoCrash.

Lemma C08_no_crash_lemma :
  forall (P : proc) (prog : list instr) (fuel : nat) (e : pyerr),
    wf_procb P = true -> wf_progb prog = true -> simulate fuel P prog <> Crash e.
Proof. intros P prog fuel e Hwf Hwp H. apply simulate_crash in H. destruct H as (s & Hr & _ & Hc).
  eapply cycle_no_crash; eauto. Qed.

(* every cycle from a reachable state either advances or stalls *)
Lemma run_cycle_total P prog s : wf_procb P = true -> wf_progb prog = true -> reach P prog s ->
  (exists s', run_cycle P prog s = inl s') \/ run_cycle P prog s = inr (Stalled (tbl s)).
Proof. intros Hwf Hwp Hr. destruct (run_cycle P prog s) as [s'|o] eqn:E; [eauto|].
  destruct (run_cycle_inr _ _ _ _ E) as [->|[e ->]]; auto. exfalso. eapply cycle_no_crash; eauto. Qed.
