(* C13_first.v -- names of a loaded processor are spelled as at their first occurrence. *)
From Coq Require Import String Ascii Lia Bool List ZArith.
From PS Require Import Base Str Sim Graph Program Isa Loader TextSpec Lists C18_proof CiSpec C13_ci C13_loader.

Definition first_in (L : list string) (x : string) : Prop :=
  exists pre post, L = pre ++ x :: post /\ ~ (exists y, In y pre /\ ci y x).
Lemma first_in_app L M x : first_in L x -> first_in (L ++ M) x.
Proof. intros [pre [post [-> H]]]. exists pre, (post ++ M). split; auto.
  rewrite <- app_assoc. reflexivity. Qed.

Definition Inv (done creg : list string) : Prop :=
  (forall x, In x creg -> first_in done x) /\ (forall y, In y done -> mem_ic y creg = true).

Lemma load_caps_inv : forall cs lseen creg done l creg',
  Inv done creg -> incl lseen done -> load_caps cs lseen creg = (l, creg') ->
  Inv (done ++ cs) creg' /\ incl l creg' /\ incl creg creg'.
Proof.
  induction cs as [|c t IH]; intros lseen creg done l creg' [I1 I2] Hs; cbn [load_caps].
  - intros [= <- <-]. rewrite app_nil_r. repeat split; auto. intros x []. apply incl_refl.
  - destruct (mem_ic c lseen) eqn:El.
    + intros H. assert (Hc : mem_ic c creg = true).
      { apply mem_ic_true in El. destruct El as [z [Hz Hcz]].
        rewrite (mem_ic_ci c z creg Hcz). apply I2, Hs, Hz. }
      replace (done ++ c :: t) with ((done ++ [c]) ++ t) by (rewrite <- app_assoc; reflexivity).
      apply (IH lseen creg (done ++ [c]) l creg'); auto.
      * split.
        -- intros x Hx. apply first_in_app; auto.
        -- intros y Hy. apply in_app_iff in Hy. destruct Hy as [Hy|[<-|[]]]; auto.
      * intros y Hy. apply in_app_iff. left; auto.
    + destruct (ic_find c creg) as [s|] eqn:Ef.
      * destruct (load_caps t (lseen ++ [c]) creg) as [l0 creg0] eqn:EL. intros [= <- <-].
        assert (Hc : mem_ic c creg = true).
        { destruct (mem_ic c creg) eqn:Em; auto. apply ic_find_none in Em. congruence. }
        replace (done ++ c :: t) with ((done ++ [c]) ++ t) by (rewrite <- app_assoc; reflexivity).
        destruct (IH (lseen ++ [c]) creg (done ++ [c]) l0 creg0) as [J1 [J2 J3]]; auto.
        -- split.
           ++ intros x Hx. apply first_in_app; auto.
           ++ intros y Hy. apply in_app_iff in Hy. destruct Hy as [Hy|[<-|[]]]; auto.
        -- intros y Hy. apply in_app_iff in Hy. apply in_app_iff. destruct Hy as [Hy|Hy]; auto.
        -- split; [exact J1|split; [|exact J3]]. intros x [<-|Hx]; auto. apply J3. apply (ic_find_some _ _ _ Ef).
      * destruct (load_caps t (lseen ++ [c]) (creg ++ [c])) as [l0 creg0] eqn:EL. intros [= <- <-].
        replace (done ++ c :: t) with ((done ++ [c]) ++ t) by (rewrite <- app_assoc; reflexivity).
        destruct (IH (lseen ++ [c]) (creg ++ [c]) (done ++ [c]) l0 creg0) as [J1 [J2 J3]]; auto.
        -- split.
           ++ intros x Hx. apply in_app_iff in Hx. destruct Hx as [Hx|[<-|[]]].
              ** apply first_in_app; auto.
              ** exists done, []. split; auto. intros [y [Hy Hyc]].
                 apply ic_find_none in Ef. rewrite <- (mem_ic_ci y c creg Hyc), (I2 y Hy) in Ef. discriminate.
           ++ intros y Hy. rewrite mem_ic_app. apply in_app_iff in Hy. destruct Hy as [Hy|[<-|[]]].
              ** rewrite (I2 y Hy). reflexivity.
              ** unfold mem_ic at 2. simpl. rewrite ic_eqb_refl. apply orb_true_r.
        -- intros y Hy. apply in_app_iff in Hy. apply in_app_iff. destruct Hy as [Hy|Hy]; auto.
        -- split; [exact J1|split].
           ++ intros x [<-|Hx]; auto. apply J3. apply in_app_iff. right; left; auto.
           ++ intros x Hx. apply J3. apply in_app_iff. left; auto.
Qed.

(* assoc after set *)
Lemma assoc_set {A} (d : A) l k v k' :
  assoc d (set l k v) k' = if String.eqb k' k then v else assoc d l k'.
Proof. induction l as [|[k1 v1] t IH]; simpl.
  - destruct (String.eqb k' k); auto.
  - destruct (String.eqb k k1) eqn:E; simpl.
    + apply String.eqb_eq in E. subst k1. destruct (String.eqb k' k); auto.
    + rewrite IH. destruct (String.eqb k' k1) eqn:E1; auto.
      destruct (String.eqb k' k) eqn:E2; auto.
      apply String.eqb_eq in E1, E2. subst. rewrite String.eqb_refl in E. discriminate. Qed.

Definition caps_in (at0 : attrs) (creg : list string) : Prop :=
  forall n c, In c (caps_of at0 n) -> In c creg.

Lemma add_node_nodes g n : incl (g_nodes (add_node g n)) (g_nodes g ++ [n]).
Proof. unfold add_node. destruct (has_node g n); simpl.
  - intros x Hx. apply in_app_iff; auto.
  - apply incl_refl. Qed.

Lemma add_units_inv : forall us s r done,
  Inv done (gs_creg s) -> caps_in (gs_at s) (gs_creg s) -> incl (g_nodes (gs_g s)) (gs_ureg s) ->
  add_units us s = inl r ->
  Inv (done ++ flat_map d_caps us) (gs_creg r) /\ caps_in (gs_at r) (gs_creg r) /\
  incl (g_nodes (gs_g r)) (gs_ureg r).
Proof.
  induction us as [|u t IH]; intros s r done HI Hc Hn; cbn [add_units flat_map].
  - intros [= <-]. rewrite app_nil_r. auto.
  - destruct (ic_find (d_name u) (gs_ureg s)); [discriminate|].
    destruct (d_width u <=? 0)%Z; [discriminate|].
    destruct (load_caps (d_caps u) [] (gs_creg s)) as [caps creg'] eqn:EL.
    destruct (load_caps_inv _ _ _ done _ _ HI (fun x (F : In x []) => match F with end) EL) as [J1 [J2 J3]].
    intros H. rewrite app_assoc. apply (IH _ r (done ++ d_caps u)) in H; auto; cbn.
    + intros n c. unfold caps_of, attr_of. rewrite assoc_set.
      destruct (String.eqb n (d_name u)); cbn.
      * apply J2.
      * intros Hx. apply J3. apply (Hc n c). exact Hx.
    + intros x Hx. apply add_node_nodes in Hx. apply in_app_iff in Hx. apply in_app_iff.
      destruct Hx as [Hx|Hx]; auto.
Qed.

(* ---------- graph nodes ---------- *)
Lemma add_edge_nodes g a b : incl (g_nodes (add_edge g a b)) (g_nodes g ++ [a; b]).
Proof. unfold add_edge.
  assert (H : incl (g_nodes (add_node (add_node g a) b)) (g_nodes g ++ [a; b])).
  { intros x Hx. apply add_node_nodes in Hx. apply in_app_iff in Hx. destruct Hx as [Hx|[<-|[]]].
    - apply add_node_nodes in Hx. apply in_app_iff in Hx. apply in_app_iff. destruct Hx as [Hx|[<-|[]]]; simpl; auto.
    - apply in_app_iff. simpl; auto. }
  destruct (mem_str b (succs (add_node (add_node g a) b) a)); simpl; auto. Qed.
Lemma add_edges_nodes es ureg : forall g g', incl (g_nodes g) ureg -> add_edges es ureg g = inl g' ->
  incl (g_nodes g') ureg.
Proof. induction es as [|e t IH]; intros g g' Hn; cbn [add_edges].
  - intros [= <-]; auto.
  - destruct e as [|a [|b [|c l]]]; try discriminate.
    destruct (ic_find a ureg) as [a'|] eqn:Ea; [|discriminate].
    destruct (ic_find b ureg) as [b'|] eqn:Eb; [|discriminate].
    apply IH. intros x Hx. apply add_edge_nodes in Hx. apply in_app_iff in Hx.
    destruct Hx as [Hx|[<-|[<-|[]]]]; auto.
    + apply (ic_find_some _ _ _ Ea).
    + apply (ic_find_some _ _ _ Eb). Qed.

Lemma rm_str_incl x l : incl (rm_str x l) l.
Proof. unfold rm_str. intros y Hy. apply filter_In in Hy. tauto. Qed.
Lemma remove_nodes_incl ns : forall g, incl (g_nodes (fold_left remove_node ns g)) (g_nodes g).
Proof. induction ns as [|n t IH]; intros g; simpl; [apply incl_refl|].
  intros x Hx. apply IH in Hx. simpl in Hx. apply rm_str_incl in Hx; auto. Qed.
Lemma chk_terminals_nodes fuel : forall g oi oo g', chk_terminals fuel g oi oo = inl g' ->
  incl (g_nodes g') (g_nodes g).
Proof. induction fuel as [|f IH]; intros g oi oo g'; cbn [chk_terminals].
  - intros [= <-]. apply incl_refl.
  - destruct (filter _ (out_ports_of g)) as [|n0 new]; [intros [= <-]; apply incl_refl|].
    destruct (filter _ (n0 :: new)); [|discriminate].
    intros H. apply IH in H. intros x Hx. apply H in Hx. apply remove_nodes_incl in Hx; auto. Qed.

Lemma clean_unit_nodes_caps creg g a n g' a' :
  caps_in a creg -> clean_unit (g, a) n = (g', a') -> g_nodes g' = g_nodes g /\ caps_in a' creg.
Proof.
  intros Hc. unfold clean_unit. destruct (preds g n) as [|p0 ps]; [intros [= <- <-]; auto|].
  cbv zeta.
  match goal with |- (let '(_, _) := fold_left ?F ?L ?S in _) = _ -> _ =>
    assert (H : forall l st, incl (snd st) (caps_of a n) ->
              g_nodes (fst (fold_left F l st)) = g_nodes (fst st) /\ incl (snd (fold_left F l st)) (caps_of a n)) end.
  { induction l as [|p l IH]; intros [g0 acc] Hi; simpl; auto.
    destruct (inter (caps_of a n) (caps_of a p)) as [|c0 cm] eqn:E.
    - destruct (IH (remove_edge g0 p n, acc) Hi) as [H1 H2]. simpl in *. auto.
    - apply IH. simpl in *. unfold union. intros x Hx. apply in_app_iff in Hx. destruct Hx as [Hx|Hx]; auto.
      apply filter_In in Hx. destruct Hx as [Hx _]. rewrite <- E in Hx. unfold inter in Hx.
      apply filter_In in Hx. tauto. }
  specialize (H (p0 :: ps) (g, []) (fun x (F : In x []) => match F with end)).
  match goal with |- (let '(_, _) := ?X in _) = _ -> _ => destruct X as [g1 new] end.
  simpl in H. destruct H as [H1 H2]. intros [= <- <-]. split; auto.
  intros m c. unfold caps_of, attr_of, set_caps. rewrite assoc_set.
  destruct (String.eqb m n); cbn.
  - intros Hx. apply (Hc n c). apply H2. exact Hx.
  - apply Hc.
Qed.
Lemma clean_struct_nodes_caps creg order : forall g a g' a',
  caps_in a creg -> clean_struct order (g, a) = (g', a') -> g_nodes g' = g_nodes g /\ caps_in a' creg.
Proof. unfold clean_struct. induction order as [|n t IH]; intros g a g' a' Hc; cbn [fold_left].
  - intros [= <- <-]; auto.
  - destruct (clean_unit (g, a) n) as [g1 a1] eqn:E.
    destruct (clean_unit_nodes_caps creg g a n g1 a1 Hc E) as [H1 H2].
    intros H. destruct (IH g1 a1 g' a' H2 H) as [H3 H4]. split; auto. congruence. Qed.
Lemma rm_empty_units_nodes g a g' a' : rm_empty_units (g, a) = (g', a') -> incl (g_nodes g') (g_nodes g) /\ a' = a.
Proof. unfold rm_empty_units. intros [= <- <-]. split; auto.
  generalize (g_nodes g) at 1. intros l. revert g. induction l as [|n t IH]; intros g; simpl; [apply incl_refl|].
  destruct (caps_of a n); auto.
  intros x Hx. apply IH in Hx. simpl in Hx. apply rm_str_incl in Hx; auto. Qed.

(* ---------- make_processor ---------- *)
Lemma mk_units_assoc creg at0 : forall ns um n, mk_units ns at0 creg = Some um ->
  u_name (assoc (mk_unit n dflt_attr []) um n) = n /\
  incl (u_caps (assoc (mk_unit n dflt_attr []) um n)) (caps_of at0 n).
Proof. induction ns as [|k t IH]; intros um n; cbn [mk_units].
  - intros [= <-]. simpl. split; auto. intros x [].
  - destruct (std_mem _ creg) as [mem|]; [|discriminate].
    destruct (mk_units t at0 creg) as [l|] eqn:E; [|discriminate]. intros [= <-]. cbn [assoc].
    destruct (String.eqb n k) eqn:Ek.
    + apply String.eqb_eq in Ek. subst k. simpl. split; auto. apply isort_incl.
    + apply IH; auto. Qed.

Lemma post_order_incl ints ints' : post_order ints = Some ints' -> incl ints' ints.
Proof. unfold post_order. destruct (topo_sort _) as [order|]; [|discriminate]. intros [= <-].
  intros f Hf. apply in_flat_map in Hf. destruct Hf as [n [_ Hf]].
  destruct (find _ ints) as [f0|] eqn:E; [|destruct Hf]. destruct Hf as [<-|[]].
  apply find_some in E. tauto. Qed.

Lemma make_processor_units g at0 creg P : make_processor g at0 creg = LoadOk P ->
  forall u, In u (all_units P) -> exists n, In n (g_nodes g) /\ u_name u = n /\ incl (u_caps u) (caps_of at0 n).
Proof.
  unfold make_processor. destruct (mk_units (g_nodes g) at0 creg) as [um|] eqn:Em; [|discriminate].
  cbv zeta. set (model := fun n => assoc (mk_unit n dflt_attr []) um n).
  set (fu := fun n => {| f_model := model n; f_preds := preds g n |}).
  set (cls := fun i o : bool => filter (fun n => Bool.eqb (0 <? in_degree g n) i && Bool.eqb (0 <? out_degree g n) o) (g_nodes g)).
  unfold make_desc. destruct (post_order _) as [ints'|] eqn:Ep; [|discriminate]. intros [= <-].
  assert (Hm : forall n, In n (g_nodes g) ->
             exists n0, In n0 (g_nodes g) /\ u_name (model n) = n0 /\ incl (u_caps (model n)) (caps_of at0 n0)).
  { intros n Hn. exists n. destruct (mk_units_assoc creg at0 _ um n Em). auto. }
  assert (Hcls : forall i o n, In n (cls i o) -> In n (g_nodes g)).
  { intros i o n Hn. apply filter_In in Hn. tauto. }
  intros u Hu. unfold all_units in Hu. cbn in Hu. rewrite !in_app_iff in Hu.
  destruct Hu as [Hu|[Hu|[Hu|Hu]]].
  - apply in_map_iff in Hu. destruct Hu as [n [<- Hn]]. eauto.
  - apply in_map_iff in Hu. destruct Hu as [n [<- Hn]]. eauto.
  - apply in_map_iff in Hu. destruct Hu as [f [<- Hf]]. apply isort_incl in Hf.
    apply in_map_iff in Hf. destruct Hf as [f0 [<- Hf]]. apply in_map_iff in Hf. destruct Hf as [n [<- Hn]].
    simpl. eauto.
  - apply in_map_iff in Hu. destruct Hu as [f [<- Hf]]. apply (post_order_incl _ _ Ep) in Hf.
    apply in_map_iff in Hf. destruct Hf as [f0 [<- Hf]]. apply in_map_iff in Hf. destruct Hf as [n [<- Hn]].
    simpl. eauto.
Qed.

(* ---------- the theorem ---------- *)
Lemma finish_units g at0 creg P : finish g at0 creg = LoadOk P -> caps_in at0 creg ->
  forall u, In u (all_units P) -> In (u_name u) (g_nodes g) /\ incl (u_caps u) creg.
Proof.
  unfold finish. destruct (topo_sort g) as [order|]; [|discriminate]. cbv zeta.
  destruct (clean_struct order (g, at0)) as [g0 a0] eqn:Ec.
  destruct (rm_empty_units (g0, a0)) as [g1 a1] eqn:Er.
  destruct (chk_terminals _ g1 _ _) as [g2|e] eqn:Et; [|discriminate].
  intros H Hc.
  assert (H' : make_processor g2 a1 creg = LoadOk P).
  { destruct (filter _ (in_ports_of g)) as [|s0 l]; try discriminate;
      destruct (do_cap_checks g2 a1 _ _ _); try discriminate; exact H. }
  clear H.
  destruct (clean_struct_nodes_caps creg order g at0 g0 a0 Hc Ec) as [N0 C0].
  destruct (rm_empty_units_nodes g0 a0 g1 a1 Er) as [N1 ->].
  apply chk_terminals_nodes in Et.
  intros u Hu. destruct (make_processor_units _ _ _ _ H' u Hu) as [n [Hn [Hname Hcaps]]].
  split.
  - rewrite Hname. rewrite <- N0. apply N1, Et, Hn.
  - intros c Hx. apply (C0 n c). apply Hcaps, Hx.
Qed.

Lemma C13_first_spelling_lemma :
  forall d P, load_proc_desc d = LoadOk P ->
    (forall u, In u (all_units P) -> In (u_name u) (map d_name (d_units d))) /\
    (forall u c, In u (all_units P) -> In c (u_caps u) ->
       exists pre x post, flat_map d_caps (d_units d) = pre ++ x :: post /\ c = x /\ ~ (exists y, In y pre /\ ci y x)).
Proof.
  intros d P. rewrite load_proc_desc_finish. fold init_gs.
  destruct (add_units (d_units d) init_gs) as [s|e] eqn:Es; [|discriminate].
  destruct (add_edges (d_edges d) (gs_ureg s) (gs_g s)) as [g|e] eqn:Eg; [|discriminate].
  intros H.
  assert (I0 : Inv [] (gs_creg init_gs)) by (split; intros x []).
  assert (C0 : caps_in (gs_at init_gs) (gs_creg init_gs)) by (intros n c []).
  assert (N0 : incl (g_nodes (gs_g init_gs)) (gs_ureg init_gs)) by (intros x []).
  destruct (add_units_inv _ _ _ [] I0 C0 N0 Es) as [[I1 _] [C1 N1]]. simpl in I1.
  pose proof (add_units_ureg _ _ _ Es) as U. simpl in U.
  pose proof (add_edges_nodes _ _ _ _ N1 Eg) as N2.
  pose proof (finish_units _ _ _ _ H C1) as F.
  split.
  - intros u Hu. rewrite <- U. apply N2. apply (F u Hu).
  - intros u c Hu Hc. destruct (F u Hu) as [_ F2]. destruct (I1 c (F2 c Hc)) as [pre [post [E N]]].
    exists pre, c, post. auto.
Qed.
