(* C02 (data stalls are exact): an entry that is not `regs_loaded` is 'D' iff `regs_avail` refused,
   which on the queue invariant (HZ_inv) is exactly `blocked`. *)
From Coq Require Import Lia.
From PS Require Import Base Bag RegAccess Sim Diag Lists Run C03_lists C03_step
                       HZ_queue HZ_plan HZ_diag HZ_haz HZ_inv.

Lemma existsb_ext {A} (f g : A -> bool) l : (forall x, In x l -> f x = g x) -> existsb f l = existsb g l.
Proof. induction l as [|a l IH]; intros H; cbn [existsb]; auto. rewrite (H a) by (left; auto). f_equal.
  apply IH. intros x Hx. apply H. right; auto. Qed.

Lemma blocked_eq P prog d t i u uu ins : t <= length d -> find_unit P u = Some uu -> nth_error prog i = Some ins ->
  blocked P prog d t i u =
  (u_rl uu && existsb (fun r => rd_blk P prog (firstn t d) r i) (i_srcs ins))
  || (u_wl uu && wr_blk P prog (firstn t d) (i_dst ins) i).
Proof. intros Ht Hf Hn.
  assert (Es : srcs_of prog i = i_srcs ins) by (unfold srcs_of; rewrite Hn; auto).
  assert (Ed : dst_of prog i = i_dst ins) by (unfold dst_of; rewrite Hn; auto).
  rewrite <- Es, <- Ed. unfold blocked, rd_blk, wr_blk, has_rl, has_wl. rewrite Hf.
  f_equal; f_equal.
  - apply existsb_ext. intros r _. apply existsb_ext. intros k _. rewrite done_before_firstn by auto. reflexivity.
  - apply existsb_ext. intros k _. rewrite !done_before_firstn by auto. reflexivity. Qed.

Lemma lab_in_nodup (es : list entry) i l : NoDup (map fst es) -> In (i, l) es -> lab_in es i = Some l.
Proof. unfold lab_in. induction es as [|[j l0] es IH]; intros Hnd Hin; [destruct Hin|]. cbn [find fst].
  inversion Hnd; subst. destruct Hin as [Hin|Hin].
  - inversion Hin; subst. rewrite Nat.eqb_refl. reflexivity.
  - destruct (Nat.eqb_spec j i) as [->|Hne]; [|auto]. exfalso. apply H1. change i with (fst (i, l)). apply in_map; auto. Qed.
Lemma lab_in_In (es : list entry) i l : lab_in es i = Some l -> In (i, l) es.
Proof. unfold lab_in. destruct (find (fun e => fst e =? i) es) as [[j l0]|] eqn:E; [|discriminate].
  intros H. inversion H; subst. apply find_some in E. destruct E as [E1 E2]. cbn [fst] in E2.
  apply Nat.eqb_eq in E2. subst. auto. Qed.

Lemma C02_entry_reach P prog s : wf_procb P = true -> wf_progb prog = true -> reach P prog s ->
  forall t u e, t < length (tbl s) -> In e (occ (tbl s) t u) -> C02_entry_ok P prog (tbl s) t u e = true.
Proof. intros Hwf Hwp Hr t u [i l'] Ht Hin.
  destruct (cycle_at P prog s t Hwf Hwp Hr Ht) as (qs & ent & r1 & r2 & busy & ent' & cl & HC & Hle & HQ & HH & E1 & E2 & E3).
  set (d := tbl s) in *. set (d0 := firstn t d) in *. unfold occ in Hin.
  destruct (c_lab P prog d0 qs r2 _ cl E3 u i l' Hin) as (uu & Hf & Hlab).
  pose proof (last_rec_ok _ _ HC) as (Ko & Uo & _).
  unfold C02_entry_ok. cbn [fst snd]. rewrite prev_occ_last by lia. fold d0.
  destruct Hlab as [[Hl Hs]|[Hl Hs]]; cbn [fst snd] in *.
  - subst l'. apply regs_loaded_iff in Hl. destruct Hl as (l & Ho & Hne).
    rewrite (lab_in_nodup _ i l (proj1 Uo u) Ho). destruct l; [congruence|reflexivity|reflexivity].
  - assert (Hdef : match lab_in (get (last d0 []) u) i with Some LU | Some LS => False | _ => True end).
    { destruct (lab_in (get (last d0 []) u) i) as [l|] eqn:El; auto. apply lab_in_In in El.
      destruct l; auto; assert (regs_loaded (get (last d0 []) u) i = true)
        by (apply regs_loaded_iff; eexists; split; [eauto|discriminate]); congruence. }
    destruct Hs as (ins & Hn & Hs).
    pose proof (c_arr P prog Hwf d0 qs ent r1 r2 _ busy ent' cl HC Hle HH E1 E2 E3 u i l' Hin Hl) as Harr.
    destruct (arr_facts P prog d0 u i Harr) as (A1 & A2 & _).
    rewrite (has_rl_find P u uu Hf) in A1. rewrite (has_wl_find P u uu Hf) in A2.
    pose proof (regs_avail_eval P prog Hwp qs d0 uu i ins HQ Hn A1 A2) as Hev.
    assert (Htl : t <= length d) by lia.
    pose proof (blocked_eq P prog d t i u uu ins Htl Hf Hn) as Hb. fold d0 in Hb. rewrite <- Hb in Hev.
    assert (G : (if blocked P prog d t i u then label_eqb l' LD else label_eqb l' LU) = true).
    { destruct (blocked P prog d t i u); destruct Hs as [[Hs ->]|(regs & Hs & ->)]; auto; rewrite Hs in Hev; discriminate. }
    destruct (lab_in (get (last d0 []) u) i) as [[| |]|]; auto; destruct Hdef. Qed.

Lemma C02_exact_lemma :
  forall (P : proc) (prog : list instr) (fuel : nat) (tg : dtag) (d : diagram),
    wf_procb P = true -> wf_progb prog = true -> sim_result fuel P prog tg d ->
    forall t u e, t < length d -> In e (occ d t u) -> C02_entry_ok P prog d t u e = true.
Proof. intros P prog fuel tg d Hwf Hwp Hsim. destruct (sim_reach _ _ _ _ _ Hsim) as (s & Hr & <-).
  apply C02_entry_reach; auto. Qed.

Lemma C02_checker_accepts_lemma :
  forall (P : proc) (prog : list instr) (fuel : nat) (tg : dtag) (d : diagram),
    wf_procb P = true -> wf_progb prog = true -> sim_result fuel P prog tg d -> C02_checkb P prog d = true.
Proof. intros P prog fuel tg d Hwf Hwp Hsim. destruct (sim_reach _ _ _ _ _ Hsim) as (s & Hr & <-).
  destruct (inv_reach P prog Hwf Hwp s Hr) as ((HC & _) & _ & _).
  unfold C02_checkb. apply forallb_forall. intros t Ht. apply in_seq in Ht.
  apply forallb_forall. intros [k es] Hkv. apply forallb_forall. intros e He. cbn [fst snd].
  apply C02_entry_reach; auto; [lia|]. unfold occ.
  rewrite Forall_forall in HC. destruct (HC (rec_at (tbl s) t)) as (K & _); [apply nth_In; lia|].
  rewrite (get_in _ k es K Hkv). auto. Qed.

(* ---------- non-vacuity: a run with a genuine data stall ---------- *)
Open Scope string_scope.
Definition c2_in  := {| u_name := "in";  u_width := 2; u_caps := ["ALU"]; u_rl := true;  u_wl := false; u_mem := [] |}.
Definition c2_out := {| u_name := "out"; u_width := 1; u_caps := ["ALU"]; u_rl := false; u_wl := true;  u_mem := [] |}.
Definition c2_P := {| p_in := [c2_in]; p_out := [{| f_model := c2_out; f_preds := ["in"] |}]; p_inout := []; p_int := [] |}.
Definition c2_prog := [ {| i_srcs := ["R1"]; i_dst := "R2"; i_cat := "ALU" |};
                        {| i_srcs := ["R2"]; i_dst := "R3"; i_cat := "ALU" |} ].
Lemma C02_nonvacuous_lemma :
  exists d, wf_procb c2_P = true /\ wf_progb c2_prog = true /\ simulate 100 c2_P c2_prog = Done d /\
            exists t u i, In (i, LD) (occ d t u) /\ blocked c2_P c2_prog d t i u = true.
Proof. eexists. split; [vm_compute; reflexivity|]. split; [vm_compute; reflexivity|].
  split; [vm_compute; reflexivity|]. exists 0, "in", 1. split; vm_compute; auto. Qed.
