(* C01 is FALSE without the guard `wf_progb prog = true`: same run as proofs/C02_counterexample.v.
   Instruction 1 reads R1 in cycle 1 although instruction 0 (older, writes R1) never performs its write. *)
From PS Require Import Base Bag RegAccess Sim Diag C02_counterexample.
Open Scope string_scope.

Lemma C01_counterexample :
  wf_procb cx_P = true /\ wf_progb cx_prog = false /\ sim_result 100 cx_P cx_prog TStalled cx_d /\
  C01_order_checkb cx_P cx_prog cx_d = false /\ C01_checkb cx_P cx_prog TStalled cx_d = false /\
  (* the Prop-level statement fails for i = 0, j = 1, (WR, RD), tj = 1 *)
  (In (WR, RD) (conflicts cx_prog 0 1) /\ In (1, LU) (occ cx_d 1 "in") /\ has_rl cx_P "in" = true /\
   forall ti u, ti < 1 -> ~ (In (0, LU) (occ cx_d ti u) /\ has_wl cx_P u = true)).
Proof. split; [vm_compute; reflexivity|]. split; [vm_compute; reflexivity|].
  split; [right; split; [reflexivity|vm_compute; reflexivity]|].
  split; [vm_compute; reflexivity|]. split; [vm_compute; reflexivity|].
  split; [vm_compute; auto|]. split; [vm_compute; auto|]. split; [vm_compute; reflexivity|].
  intros ti u Hti [Hin Hwl]. assert (ti = 0) by (apply PeanoNat.Nat.lt_1_r; exact Hti). subst ti.
  unfold occ, rec_at, cx_d in Hin. cbn [nth get] in Hin.
  destruct (String.eqb u "out") eqn:E1; [cbn in Hin; tauto|].
  destruct (String.eqb u "in") eqn:E2; [|cbn in Hin; tauto].
  apply String.eqb_eq in E2. subst u. vm_compute in Hwl. discriminate. Qed.
