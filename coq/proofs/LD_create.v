(* LD_create.v -- what _create_graph (add_units / add_edges) establishes, related to `resolve d` of
   spec/LoaderSpec.v: the nodes are the unit names in definition order (no two equal ignoring case), the
   capability registry is the list of first spellings, every unit stores its declared attributes with its
   capabilities standardised, and the edges are the resolved connections. *)
From Coq Require Import Lia Permutation ZArith.
From PS Require Import Base Str Sim Graph Loader Diag LoaderSpec Lists Graph_facts LD_base.

Definition init_gs : gstate := {| gs_g := g_empty; gs_at := []; gs_ureg := []; gs_creg := [] |}.

(* ====================================================================== *)
(* std                                                                     *)
(* ====================================================================== *)
Lemma std_lower reg x : lower (std reg x) = lower x.
Proof. unfold std. destruct (ic_find x reg) eqn:E; auto. apply ic_find_some in E. symmetry. tauto. Qed.
Lemma std_ci reg x y : lower x = lower y -> std reg x = std reg y \/ (mem_ic x reg = false).
Proof. intros H. unfold std. rewrite (ic_find_lower x y reg H). destruct (ic_find y reg) eqn:E; auto.
  right. apply ic_find_none. rewrite (ic_find_lower x y reg H). auto. Qed.
Lemma std_ext reg ext x : mem_ic x reg = true -> std (reg ++ ext) x = std reg x.
Proof. intros H. apply ic_find_mem in H. destruct H as [s E]. unfold std.
  rewrite (ic_find_app_some _ _ ext _ E), E. auto. Qed.
Lemma std_in reg x : mem_ic x reg = true -> In (std reg x) reg.
Proof. intros H. apply ic_find_mem in H. destruct H as [s E]. unfold std. rewrite E.
  apply ic_find_some in E. tauto. Qed.
Lemma std_self reg x : NoDup (map lower reg) -> In x reg -> std reg x = x.
Proof. intros H Hx. unfold std. rewrite ic_find_self; auto. Qed.
Lemma std_eq_of_ci reg x y : mem_ic x reg = true -> lower x = lower y -> std reg x = std reg y.
Proof. intros Hm H. destruct (std_ci reg x y H); auto. congruence. Qed.
Lemma ic_find_std reg x s : ic_find x reg = Some s -> std reg x = s.
Proof. unfold std. intros ->. auto. Qed.

(* ====================================================================== *)
(* load_caps                                                               *)
(* ====================================================================== *)
(* the capabilities of one unit, as written, without the case-insensitive repetitions *)
Fixpoint dd (cs seen : list string) : list string :=
  match cs with
  | [] => []
  | c :: t => if mem_ic c seen then dd t seen else c :: dd t (seen ++ [c])
  end.
Lemma dd_in cs : forall seen x, In x (dd cs seen) -> In x cs /\ mem_ic x seen = false.
Proof. induction cs as [|c t IH]; simpl; intros seen x; [tauto|].
  destruct (mem_ic c seen) eqn:E.
  - intros H. apply IH in H. tauto.
  - intros [<-|H]; auto. apply IH in H. rewrite mem_ic_app in H. destruct H as [H1 H].
    apply orb_false_iff in H. tauto. Qed.
Lemma dd_cover cs : forall seen c, In c cs -> mem_ic c seen = true \/ mem_ic c (dd cs seen) = true.
Proof. induction cs as [|c0 t IH]; simpl; intros seen c; [tauto|].
  destruct (mem_ic c0 seen) eqn:E.
  - intros [<-|H]; auto.
  - intros [<-|H].
    + right. unfold mem_ic. simpl. rewrite ic_eqb_refl. auto.
    + destruct (IH (seen ++ [c0]) c H) as [H1|H1].
      * rewrite mem_ic_app in H1. apply orb_true_iff in H1. destruct H1 as [H1|H1]; auto.
        right. unfold mem_ic in *. simpl in *. rewrite orb_false_r in H1. rewrite H1. auto.
      * right. unfold mem_ic in *. simpl. rewrite H1. apply orb_true_r. Qed.
Lemma dd_nodup cs : forall seen, NoDup (map lower (dd cs seen)).
Proof. induction cs as [|c t IH]; simpl; intros seen; [constructor|].
  destruct (mem_ic c seen) eqn:E; auto. simpl. constructor; auto.
  intros Hc. apply in_map_iff in Hc. destruct Hc as [y [E1 Hy]]. apply dd_in in Hy. destruct Hy as [_ Hy].
  rewrite mem_ic_app in Hy. apply orb_false_iff in Hy. destruct Hy as [_ Hy].
  unfold mem_ic in Hy. simpl in Hy. rewrite orb_false_r in Hy. apply ic_eqb_false in Hy. congruence. Qed.

Lemma load_caps_spec cs : forall seen creg l creg',
  (forall y, In y seen -> mem_ic y creg = true) ->
  load_caps cs seen creg = (l, creg') ->
  creg' = fold_left reg_add cs creg /\ l = map (std creg') (dd cs seen).
Proof. induction cs as [|c t IH]; intros seen creg l creg' Hs; cbn [load_caps dd fold_left map].
  - intros [= <- <-]. auto.
  - destruct (mem_ic c seen) eqn:El.
    + intros H. assert (Hc : mem_ic c creg = true).
      { apply mem_ic_true in El. destruct El as [z [Hz Hcz]]. rewrite (mem_ic_lower c z creg Hcz). auto. }
      unfold reg_add at 2. rewrite Hc. apply (IH seen); auto.
    + destruct (ic_find c creg) as [s|] eqn:Ef.
      * destruct (load_caps t (seen ++ [c]) creg) as [l0 creg0] eqn:EL. intros [= <- <-].
        assert (Hc : mem_ic c creg = true).
        { destruct (mem_ic c creg) eqn:Em; auto. apply ic_find_none in Em. congruence. }
        unfold reg_add at 2. rewrite Hc.
        destruct (IH (seen ++ [c]) creg l0 creg0) as [J1 J2]; auto.
        { intros y Hy. apply in_app_iff in Hy. destruct Hy as [Hy|[<-|[]]]; auto. }
        split; auto. cbn [map]. f_equal; auto.
        destruct (reg_add_fold_prefix t creg) as [ext Ex]. rewrite J1, Ex.
        symmetry. apply ic_find_std. apply ic_find_app_some; auto.
      * destruct (load_caps t (seen ++ [c]) (creg ++ [c])) as [l0 creg0] eqn:EL. intros [= <- <-].
        assert (Hc : mem_ic c creg = false) by (apply ic_find_none; auto).
        unfold reg_add at 2. rewrite Hc.
        destruct (IH (seen ++ [c]) (creg ++ [c]) l0 creg0) as [J1 J2]; auto.
        { intros y Hy. rewrite mem_ic_app. apply in_app_iff in Hy. destruct Hy as [Hy|[<-|[]]].
          - rewrite Hs; auto.
          - unfold mem_ic at 2. simpl. rewrite ic_eqb_refl. apply orb_true_r. }
        split; auto. cbn [map]. f_equal; auto.
        destruct (reg_add_fold_prefix t (creg ++ [c])) as [ext Ex]. rewrite J1, Ex.
        symmetry. apply ic_find_std. apply ic_find_app_some. rewrite ic_find_app_none; auto.
        simpl. rewrite ic_eqb_refl. auto. Qed.

(* the standardised capabilities of a unit *)
Definition std_caps (creg : list string) (cs : list string) : list string := map (std creg) (dd cs []).
Lemma std_caps_In creg cs x : (forall c, In c cs -> mem_ic c creg = true) ->
  (In x (std_caps creg cs) <-> In x (map (std creg) cs)).
Proof. intros Hc. unfold std_caps. rewrite !in_map_iff. split.
  - intros [c [E H]]. apply dd_in in H. exists c. tauto.
  - intros [c [E H]]. destruct (dd_cover cs [] c H) as [H1|H1]; [discriminate|].
    apply mem_ic_true in H1. destruct H1 as [y [Hy El]]. exists y. split; auto.
    rewrite <- E. symmetry. apply std_eq_of_ci; auto. Qed.
Lemma std_caps_NoDup creg cs : NoDup (std_caps creg cs).
Proof. unfold std_caps. apply (NoDup_map_inv' lower). rewrite map_map.
  rewrite (map_ext _ lower); [apply dd_nodup|]. intros a. apply std_lower. Qed.

(* ====================================================================== *)
(* add_units                                                               *)
(* ====================================================================== *)
Definition unit_attr (creg : list string) (u : udesc) : uattr :=
  {| a_width := Z.to_nat (d_width u); a_caps := std_caps creg (d_caps u);
     a_rl := d_rl u; a_wl := d_wl u; a_mem := d_mem u |}.

Lemma attr_of_set at_ k v n : attr_of (set at_ k v) n = if String.eqb n k then v else attr_of at_ n.
Proof. unfold attr_of. apply assoc_set. Qed.

Lemma add_units_inv us : forall s0 s, add_units us s0 = inl s ->
  gs_ureg s = gs_ureg s0 ++ map d_name us /\
  gs_g s = fold_left add_node (map d_name us) (gs_g s0) /\
  gs_creg s = fold_left reg_add (flat_map d_caps us) (gs_creg s0) /\
  (NoDup (map lower (gs_ureg s0)) -> NoDup (map lower (gs_ureg s))) /\
  (forall u, In u us -> (0 < d_width u)%Z) /\
  (forall n, ~ In n (map d_name us) -> attr_of (gs_at s) n = attr_of (gs_at s0) n) /\
  (NoDup (map lower (gs_ureg s0)) -> forall u, In u us -> attr_of (gs_at s) (d_name u) = unit_attr (gs_creg s) u).
Proof. induction us as [|u t IH]; intros s0 s; cbn [add_units map flat_map fold_left].
  - intros [= <-]. rewrite app_nil_r. repeat split; auto; intros; match goal with F : In _ [] |- _ => destruct F end.
  - destruct (ic_find (d_name u) (gs_ureg s0)) eqn:Ef; [discriminate|].
    destruct (d_width u <=? 0)%Z eqn:Ew; [discriminate|].
    destruct (load_caps (d_caps u) [] (gs_creg s0)) as [caps creg'] eqn:EL.
    destruct (load_caps_spec _ _ _ _ _ (fun y (F : In y []) => match F with end) EL) as [L1 L2].
    intros H. destruct (IH _ _ H) as [I1 [I2 [I3 [I4 [I5 [I6 I7]]]]]]. clear IH H. cbn in *.
    assert (Hnd1 : NoDup (map lower (gs_ureg s0)) -> NoDup (map lower (gs_ureg s0 ++ [d_name u]))).
    { intros Hnd. rewrite map_app. simpl. apply NoDup_snoc; auto. rewrite <- mem_ic_lowers.
      apply ic_find_none in Ef. congruence. }
    split; [rewrite I1, <- app_assoc; auto|]. split; [auto|].
    split; [rewrite I3, fold_left_app, L1; auto|]. split; [auto|].
    split; [intros x [<-|Hx]; auto; apply Z.leb_gt in Ew; auto|].
    split.
    + intros n Hn. rewrite I6 by tauto. rewrite attr_of_set.
      destruct (String.eqb_spec n (d_name u)); auto. subst. tauto.
    + intros Hnd x [<-|Hx]; [|apply I7; auto].
      rewrite I6.
      * rewrite attr_of_set, String.eqb_refl. unfold unit_attr. f_equal.
        rewrite L2. fold (std_caps creg' (d_caps u)). unfold std_caps. apply map_ext_in. intros c Hc.
        apply dd_in in Hc. destruct Hc as [Hc _].
        destruct (reg_add_fold_prefix (flat_map d_caps t) creg') as [ext Ex]. rewrite I3, Ex.
        symmetry. apply std_ext. rewrite L1. apply reg_add_fold_mem. auto.
      * intros Hc. specialize (I4 (Hnd1 Hnd)). rewrite I1, map_app in I4.
        apply NoDup_app_inv in I4. destruct I4 as [_ [_ I4]]. apply (I4 (lower (d_name u))).
        -- apply in_map. apply in_or_app. right; left; auto.
        -- apply in_map; auto. Qed.

(* ====================================================================== *)
(* graphs built from a node list and an edge list                          *)
(* ====================================================================== *)
Lemma fold_add_node_spec l : forall g, gwf g -> NoDup (g_nodes g ++ l) ->
  let g' := fold_left add_node l g in
  gwf g' /\ g_nodes g' = g_nodes g ++ l /\ (forall a, succs g' a = succs g a) /\ (forall a, preds g' a = preds g a).
Proof. induction l as [|n t IH]; intros g H Hnd; cbn [fold_left].
  - rewrite app_nil_r. auto.
  - assert (Hn : ~ In n (g_nodes g)).
    { apply NoDup_app_inv in Hnd. destruct Hnd as [_ [_ Hd]]. intros Hc. apply (Hd n Hc). left; auto. }
    assert (E : g_nodes (add_node g n) = g_nodes g ++ [n]).
    { unfold add_node. destruct (has_node g n) eqn:Eh; auto. apply has_node_In in Eh. tauto. }
    destruct (IH (add_node g n)) as [I1 [I2 [I3 I4]]].
    + apply gwf_add_node; auto.
    + rewrite E, <- app_assoc. auto.
    + split; auto. split; [rewrite I2, E, <- app_assoc; auto|].
      split; intros a; [rewrite I3; apply add_node_succs|rewrite I4; apply add_node_preds]. Qed.

Definition add_edge_p (g : graph) (e : string * string) : graph := add_edge g (fst e) (snd e).
Lemma fold_add_edge_spec es : forall g, gwf g ->
  (forall e, In e es -> In (fst e) (g_nodes g) /\ In (snd e) (g_nodes g)) ->
  let g' := fold_left add_edge_p es g in
  gwf g' /\ g_nodes g' = g_nodes g /\
  (forall a b, In b (succs g' a) <-> In b (succs g a) \/ In (a, b) es).
Proof. induction es as [|[x y] t IH]; intros g H He; cbn [fold_left].
  - split; auto. split; auto. intros a b. simpl. tauto.
  - assert (E : g_nodes (add_edge_p g (x, y)) = g_nodes g).
    { unfold add_edge_p, add_edge. cbn [fst snd]. destruct (He (x, y)) as [H1 H2]; [left; auto|]. cbn [fst snd] in *.
      rewrite (add_node_id g x) by auto. rewrite (add_node_id g y) by auto.
      destruct (mem_str y (succs g x)); auto. }
    destruct (IH (add_edge_p g (x, y))) as [I1 [I2 I3]].
    + apply gwf_add_edge; auto.
    + rewrite E. intros e Hi. apply He. right; auto.
    + split; auto. split; [congruence|]. intros a b. rewrite I3. unfold add_edge_p. cbn [fst snd].
      rewrite add_edge_succs. simpl. split.
      * intros [[Hs|[-> ->]]|Hs]; auto.
      * intros [Hs|[[= -> ->]|Hs]]; auto. Qed.

(* ====================================================================== *)
(* add_edges                                                               *)
(* ====================================================================== *)
Definition res_edges (ureg : list string) (es : list (list string)) : list (string * string) :=
  flat_map (fun e => match e with [a; b] => [(std ureg a, std ureg b)] | _ => [] end) es.

Lemma add_edges_spec es ureg : forall g g', add_edges es ureg g = inl g' ->
  g' = fold_left add_edge_p (res_edges ureg es) g /\
  (forall e, In e es -> exists a b, e = [a; b] /\ mem_ic a ureg = true /\ mem_ic b ureg = true) /\
  (forall e, In e (res_edges ureg es) -> In (fst e) ureg /\ In (snd e) ureg).
Proof. induction es as [|e t IH]; intros g g'; cbn [add_edges].
  - intros [= <-]. simpl. split; auto. split; intros ? [].
  - destruct e as [|a [|b [|c l]]]; try discriminate.
    destruct (ic_find a ureg) as [a'|] eqn:Ea; [|discriminate].
    destruct (ic_find b ureg) as [b'|] eqn:Eb; [|discriminate].
    intros H. destruct (IH _ _ H) as [I1 [I2 I3]].
    assert (Ma : mem_ic a ureg = true).
    { destruct (mem_ic a ureg) eqn:E; auto. apply ic_find_none in E. congruence. }
    assert (Mb : mem_ic b ureg = true).
    { destruct (mem_ic b ureg) eqn:E; auto. apply ic_find_none in E. congruence. }
    unfold res_edges. cbn [flat_map app fold_left]. fold (res_edges ureg t).
    rewrite (ic_find_std _ _ _ Ea), (ic_find_std _ _ _ Eb). split; [exact I1|]. split.
    + intros e [<-|He]; eauto.
    + intros e [<-|He]; auto. simpl. split; [apply (ic_find_some _ _ _ Ea)|apply (ic_find_some _ _ _ Eb)]. Qed.

(* ====================================================================== *)
(* the created graph and attributes versus the resolved description        *)
(* ====================================================================== *)
Lemma in_r_es_succs r x y : In y (r_succs r x) <-> In (x, y) (r_es r).
Proof. unfold r_succs. rewrite in_map_iff. split.
  - intros [[a b] [E H]]. apply filter_In in H. destruct H as [H1 H2]. simpl in *.
    apply String.eqb_eq in H2. subst. auto.
  - intros H. exists (x, y). split; auto. apply filter_In. split; auto. simpl. apply String.eqb_refl. Qed.
Lemma in_r_es_preds r x y : In x (r_preds r y) <-> In (x, y) (r_es r).
Proof. unfold r_preds. rewrite in_map_iff. split.
  - intros [[a b] [E H]]. apply filter_In in H. destruct H as [H1 H2]. simpl in *.
    apply String.eqb_eq in H2. subst. auto.
  - intros H. exists (x, y). split; auto. apply filter_In. split; auto. simpl. apply String.eqb_refl. Qed.

Record created (d : desc) (g : graph) (at_ : attrs) (creg : list string) : Prop := {
  cr_names : NoDup (map lower (d_names d));
  cr_gwf : gwf g;
  cr_nodes : g_nodes g = d_names d;
  cr_graph : g = fold_left add_edge_p (r_es (resolve d)) (fold_left add_node (d_names d) g_empty);
  cr_succs : forall a b, In b (succs g a) <-> In (a, b) (r_es (resolve d));
  cr_edges : forall e, In e (d_edges d) -> exists a b, e = [a; b] /\ mem_ic a (d_names d) = true /\ mem_ic b (d_names d) = true;
  cr_creg : creg = cap_reg d;
  cr_creg_nd : NoDup (map lower creg);
  cr_width : forall u, In u (d_units d) -> (0 < d_width u)%Z;
  cr_attr : forall u, In u (d_units d) -> attr_of at_ (d_name u) = unit_attr creg u;
  cr_attr_dflt : forall n, ~ In n (d_names d) -> attr_of at_ n = dflt_attr;
  cr_caps_reg : forall u c, In u (d_units d) -> In c (d_caps u) -> mem_ic c creg = true }.

Theorem create_ok d s g :
  add_units (d_units d) init_gs = inl s -> add_edges (d_edges d) (gs_ureg s) (gs_g s) = inl g ->
  created d g (gs_at s) (gs_creg s).
Proof. intros Hu He. destruct (add_units_inv _ _ _ Hu) as [U1 [U2 [U3 [U4 [U5 [U6 U7]]]]]]. cbn in *.
  assert (Hnd : NoDup (map lower (d_names d))) by (unfold d_names; rewrite <- U1; apply U4; constructor).
  assert (Hnd' : NoDup (d_names d)) by (apply (NoDup_map_inv' lower); auto).
  destruct (fold_add_node_spec (d_names d) g_empty gwf_empty Hnd') as [N1 [N2 [N3 N4]]]. cbn in N2.
  destruct (add_edges_spec _ _ _ _ He) as [E1 [E2 E3]].
  assert (Ereg : unit_reg d = d_names d) by (apply dedup_ic_id; auto).
  assert (Eres : r_es (resolve d) = res_edges (gs_ureg s) (d_edges d)).
  { unfold resolve. cbn [r_es]. rewrite Ereg, U1. reflexivity. }
  unfold d_names in *. rewrite U1, U2 in *. rewrite <- Eres in *.
  destruct (fold_add_edge_spec (r_es (resolve d)) _ N1) as [G1 [G2 G3]].
  { rewrite N2. auto. }
  rewrite <- E1 in *.
  assert (Ecreg : gs_creg s = cap_reg d) by (rewrite U3; apply reg_add_fold_nil).
  constructor; auto.
  - unfold d_names. congruence.
  - intros a b. rewrite G3, N3. unfold succs at 1. simpl. tauto.
  - rewrite Ecreg. apply dedup_ic_nodup.
  - apply U7. constructor.
  - intros u c Hu' Hc. rewrite U3. apply reg_add_fold_mem. right. apply in_flat_map. eauto. Qed.

(* capabilities declared by a unit: the loader's attribute table agrees with the resolved description *)
Lemma created_d_unit d g at_ creg u : created d g at_ creg -> In u (d_units d) -> d_unit d (d_name u) = Some u.
Proof. intros C Hu. unfold d_unit. apply find_key; auto. apply (NoDup_map_inv' lower). rewrite map_map.
  pose proof (cr_names _ _ _ _ C) as H. unfold d_names in H. rewrite map_map in H. auto. Qed.
Lemma created_declares d g at_ creg u c : created d g at_ creg -> In u (d_units d) ->
  (declares (resolve d) (d_name u) c = true <-> In c (caps_of at_ (d_name u))).
Proof. intros C Hu. unfold declares, resolve. cbn [r_ucaps].
  rewrite (assoc_map_key [] d_name (fun u => dedup_by String.eqb (map (std (cap_reg d)) (d_caps u)))); auto.
  - rewrite mem_str_In, dedup_by_In. unfold caps_of. rewrite (cr_attr _ _ _ _ C u Hu). cbn [unit_attr a_caps].
    rewrite <- (cr_creg _ _ _ _ C). rewrite std_caps_In; [tauto|]. intros c0. apply (cr_caps_reg _ _ _ _ C); auto.
  - apply (NoDup_map_inv' lower). rewrite map_map.
    pose proof (cr_names _ _ _ _ C) as H. unfold d_names in H. rewrite map_map in H. auto. Qed.
Lemma created_caps_nodup d g at_ creg n : created d g at_ creg -> NoDup (caps_of at_ n).
Proof. intros C. destruct (in_dec_str n (d_names d)) as [H|H].
  - unfold d_names in H. apply in_map_iff in H. destruct H as [u [<- Hu]]. unfold caps_of.
    rewrite (cr_attr _ _ _ _ C u Hu). apply std_caps_NoDup.
  - unfold caps_of. rewrite (cr_attr_dflt _ _ _ _ C n H). constructor. Qed.
Lemma created_caps_in_reg d g at_ creg n c : created d g at_ creg -> In c (caps_of at_ n) -> In c creg.
Proof. intros C. destruct (in_dec_str n (d_names d)) as [H|H].
  - unfold d_names in H. apply in_map_iff in H. destruct H as [u [<- Hu]]. unfold caps_of.
    rewrite (cr_attr _ _ _ _ C u Hu). cbn. unfold std_caps. rewrite in_map_iff. intros [c0 [<- Hc]].
    apply dd_in in Hc. apply std_in. apply (cr_caps_reg _ _ _ _ C u); tauto.
  - unfold caps_of. rewrite (cr_attr_dflt _ _ _ _ C n H). intros []. Qed.
Lemma created_preds d g at_ creg a b : created d g at_ creg -> (In a (preds g b) <-> In (a, b) (r_es (resolve d))).
Proof. intros C. rewrite <- (gwf_sym g (cr_gwf _ _ _ _ C)). apply (cr_succs _ _ _ _ C). Qed.
