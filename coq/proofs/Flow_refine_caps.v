(* Flow_refine_caps.v -- dist_edge_caps / capacity: finite capacities are positive when all widths are, and
   the only out-edge of a node without predecessors carries a finite capacity. *)
From Coq Require Import Lia.
From PS Require Import Base Str Sim Graph Loader Flow Lists Graph_facts Flow_refine_graph.

Definition pair_eqb (e f : string * string) : bool := String.eqb (fst e) (fst f) && String.eqb (snd e) (snd f).
Lemma pair_eqb_eq e f : pair_eqb e f = true <-> e = f.
Proof. destruct e as [a b], f as [c d]. unfold pair_eqb. simpl. rewrite andb_true_iff, !String.eqb_eq.
  split; [intros [-> ->]; auto|]. intros H; inversion H; auto. Qed.

Definition cap_edges (g : graph) : list (string * string) :=
  dedup_by pair_eqb
    (flat_map (fun n => if (in_degree g n =? 1) || (out_degree g n =? 1)
                        then match cap_edge g n with Some e => [e] | None => [] end else [])
              (g_nodes g)).
Lemma dist_edge_caps_eq a :
  dist_edge_caps a =
  {| ag := ag a; ag_w := ag_w a;
     ag_cap := map (fun e => (fst e, (snd e, Nat.min (aw a (fst e)) (aw a (snd e))))) (cap_edges (ag a)) |}.
Proof. reflexivity. Qed.

Lemma cap_edges_In g e :
  In e (cap_edges g) <-> exists n, In n (g_nodes g) /\ ((in_degree g n =? 1) || (out_degree g n =? 1)) = true /\
                                   cap_edge g n = Some e.
Proof. unfold cap_edges. rewrite (dedup_by_In_gen pair_eqb pair_eqb_eq), in_flat_map. split.
  - intros [n [Hn He]]. exists n. split; auto.
    destruct ((in_degree g n =? 1) || (out_degree g n =? 1)); [|destruct He].
    destruct (cap_edge g n); [|destruct He]. destruct He as [<-|[]]. auto.
  - intros [n [Hn [Hc He]]]. exists n. split; auto. rewrite Hc, He. left; auto. Qed.

Lemma cap_edge_is_edge g n x y : gwf g -> cap_edge g n = Some (x, y) -> In y (succs g x).
Proof. intros H. unfold cap_edge. intros E.
  assert (G : match succs g n with s :: _ => Some (n, s) | [] => None end = Some (x, y) -> In y (succs g x)).
  { destruct (succs g n) as [|s t] eqn:Es; [discriminate|]. intros E2. inversion E2; subst. rewrite Es. left; auto. }
  destruct (preds g n) as [|p [|q t]] eqn:Ep; auto.
  inversion E; subst. apply (gwf_sym g H). rewrite Ep. left; auto. Qed.

Lemma capacity_some a x y k : capacity (dist_edge_caps a) x y = Some k ->
  In (x, y) (cap_edges (ag a)) /\ k = Nat.min (aw a x) (aw a y).
Proof. unfold capacity. rewrite dist_edge_caps_eq. cbn [ag_cap].
  destruct (find _ _) as [e|] eqn:E; [|discriminate]. intros Hk. inversion Hk; subst k. clear Hk.
  apply find_some in E. destruct E as [E1 E2]. apply in_map_iff in E1. destruct E1 as [[x0 y0] [<- He]].
  simpl in *. apply andb_true_iff in E2. rewrite !String.eqb_eq in E2. destruct E2; subst. auto. Qed.
Lemma capacity_none a x y : capacity (dist_edge_caps a) x y = None -> ~ In (x, y) (cap_edges (ag a)).
Proof. unfold capacity. rewrite dist_edge_caps_eq. cbn [ag_cap].
  destruct (find _ _) as [e|] eqn:E; [discriminate|]. intros _ Hin.
  assert (F := find_none _ _ E (x, (y, Nat.min (aw a x) (aw a y)))).
  simpl in F. rewrite !String.eqb_refl in F. simpl in F.
  assert (false = true -> False) by discriminate. apply H. symmetry. apply F.
  apply in_map_iff. exists (x, y). auto. Qed.

Lemma capacity_pos a x y k : gwf (ag a) -> (forall z, In z (g_nodes (ag a)) -> 0 < aw a z) ->
  capacity (dist_edge_caps a) x y = Some k -> 0 < k.
Proof. intros Hg Hpos Hc. apply capacity_some in Hc. destruct Hc as [Hin ->].
  apply cap_edges_In in Hin. destruct Hin as [n [_ [_ He]]]. apply cap_edge_is_edge in He; auto.
  apply (gwf_in _ Hg) in He. destruct He as [Hx Hy]. apply Hpos in Hx. apply Hpos in Hy. lia. Qed.

Lemma pos_succs_all a x y : gwf (ag a) -> (forall z, In z (g_nodes (ag a)) -> 0 < aw a z) ->
  (In y (pos_succs (dist_edge_caps a) x) <-> In y (succs (ag a) x)).
Proof. intros Hg Hpos. unfold pos_succs. rewrite filter_In. change (ag (dist_edge_caps a)) with (ag a).
  split; [tauto|]. intros H. split; auto.
  destruct (capacity (dist_edge_caps a) x y) as [k|] eqn:E; auto.
  apply capacity_pos in E; auto. apply Nat.ltb_lt. auto. Qed.

Lemma inf_succs_source a s : In s (g_nodes (ag a)) -> preds (ag a) s = [] -> out_degree (ag a) s <= 1 ->
  inf_succs (dist_edge_caps a) s = [].
Proof. intros Hs Hp Hd. unfold inf_succs. change (ag (dist_edge_caps a)) with (ag a).
  unfold out_degree in Hd. destruct (succs (ag a) s) as [|z [|z2 t]] eqn:Es; [reflexivity| |simpl in Hd; lia].
  simpl. destruct (capacity (dist_edge_caps a) s z) eqn:E; [reflexivity|].
  exfalso. apply capacity_none in E. apply E. apply cap_edges_In. exists s. split; auto. split.
  - unfold out_degree. rewrite Es. simpl. apply orb_true_r.
  - unfold cap_edge. rewrite Hp, Es. reflexivity. Qed.
