(* Exact5_c12 -- C12: the judges of spec/C12Exact.v are implied by the checkers of LoaderSpec.v and say exactly
   the property's words. *)
From Coq Require Import List String Bool Arith Lia Permutation.
From PS Require Import Base Str Sim Graph Loader Diag LoaderSpec C12Exact Lists.
Import ListNotations.
Local Open Scope list_scope.

(* ---------- order -> listing ---------- *)
Lemma C12_order_implies_listing_lemma :
  forall P, C12_order_checkb P = true -> C12_listing_checkb P = true.
Proof.
  intros P H. unfold C12_order_checkb in H. unfold C12_listing_checkb.
  apply andb_true_iff in H. destruct H as [H _]. exact H.
Qed.

(* ---------- parts -> listing ---------- *)
Lemma list_eqb_str_eq : forall a b : list string, list_eqb String.eqb a b = true -> a = b.
Proof.
  induction a as [|x s IH]; destruct b as [|y t]; cbn [list_eqb]; intros H; try discriminate; auto.
  apply andb_true_iff in H. destruct H as [H1 H2].
  apply String.eqb_eq in H1. subst. f_equal. auto.
Qed.

Lemma unit_eqb_eq : forall a b, unit_eqb a b = true -> a = b.
Proof.
  intros [n w c r wl m] [n' w' c' r' wl' m']. unfold unit_eqb. cbn [u_name u_width u_caps u_rl u_wl u_mem].
  intros H.
  repeat (apply andb_true_iff in H; let H' := fresh "H" in destruct H as [H H']).
  apply String.eqb_eq in H. apply Nat.eqb_eq in H4.
  apply list_eqb_str_eq in H3. apply list_eqb_str_eq in H0.
  apply Bool.eqb_prop in H2. apply Bool.eqb_prop in H1. subst. reflexivity.
Qed.

Lemma same_members_incl : forall a b, incl a b -> incl b a -> same_members a b = true.
Proof.
  intros a b H1 H2. unfold same_members. apply andb_true_iff. split; apply forallb_forall; intros x Hx;
    apply mem_str_In; auto.
Qed.

Lemma same_members_refl : forall a, same_members a a = true.
Proof. intros a. apply same_members_incl; apply incl_refl. Qed.

Lemma unit_same_refl : forall a, unit_same a a = true.
Proof.
  intros a. unfold unit_same. rewrite String.eqb_refl, Nat.eqb_refl, !same_members_refl, !Bool.eqb_reflx.
  reflexivity.
Qed.

Lemma list_eqb_unit_eq : forall a b : list unit, list_eqb unit_eqb a b = true -> a = b.
Proof.
  induction a as [|x s IH]; destruct b as [|y t]; cbn [list_eqb]; intros H; try discriminate; auto.
  apply andb_true_iff in H. destruct H as [H1 H2].
  apply unit_eqb_eq in H1. subst. f_equal. auto.
Qed.

Lemma same_units_refl : forall a, same_units a a = true.
Proof.
  intros a. unfold same_units. rewrite Nat.eqb_refl. cbn [andb].
  assert (H : forallb (fun x => existsb (unit_same x) a) a = true).
  { apply forallb_forall. intros x Hx. apply existsb_exists. exists x. split; auto. apply unit_same_refl. }
  rewrite H. reflexivity.
Qed.

Lemma list_eqb_same_units : forall a b, list_eqb unit_eqb a b = true -> same_units a b = true.
Proof. intros a b H. apply list_eqb_unit_eq in H. subst. apply same_units_refl. Qed.

Lemma funit_eqb_norm_same : forall f g, funit_eqb f (norm_funit g) = true -> funit_same f g = true.
Proof.
  intros f g H. unfold funit_eqb in H. apply andb_true_iff in H. destruct H as [H1 H2].
  cbn [norm_funit f_model f_preds] in H1, H2.
  apply unit_eqb_eq in H1. apply list_eqb_str_eq in H2.
  unfold funit_same. rewrite H1, H2, unit_same_refl. cbn [andb].
  apply same_members_incl.
  - unfold sort_str. apply isort_incl.
  - intros x Hx. unfold sort_str. eapply Permutation_in; [apply isort_perm | exact Hx].
Qed.

Lemma exists_norm_same : forall f outs,
  existsb (funit_eqb f) (map norm_funit outs) = true -> existsb (funit_same f) outs = true.
Proof.
  intros f outs H. apply existsb_exists in H. destruct H as [g' [Hin He]].
  apply in_map_iff in Hin. destruct Hin as [g [Hg Hin]]. subst g'.
  apply existsb_exists. exists g. split; auto. apply funit_eqb_norm_same; auto.
Qed.

Lemma forall_exists_norm_same : forall l outs,
  forallb (fun f => existsb (funit_eqb f) (map norm_funit outs)) l = true ->
  forallb (fun f => existsb (funit_same f) outs) l = true.
Proof.
  intros l outs H. apply forallb_forall. intros f Hf.
  apply exists_norm_same. revert f Hf. apply forallb_forall. exact H.
Qed.

Lemma C12_parts_implies_listing_lemma :
  forall ins outs inouts ints P,
    C12_parts_checkb ins outs inouts ints P = true -> C12_parts_listing_checkb ins outs inouts ints P = true.
Proof.
  intros ins outs inouts ints P H. unfold C12_parts_checkb in H.
  repeat (apply andb_true_iff in H; let H' := fresh "H" in destruct H as [H H']).
  unfold C12_parts_listing_checkb.
  rewrite (list_eqb_same_units _ _ H), (list_eqb_same_units _ _ H6), H5, H4.
  rewrite (forall_exists_norm_same _ _ H3), (forall_exists_norm_same _ _ H2).
  unfold fname. rewrite H1.
  rewrite (C12_order_implies_listing_lemma _ H0). reflexivity.
Qed.

(* ---------- listing exact ---------- *)
Lemma negb_existsb_mem : forall (seen l : list string),
  negb (existsb (fun p => mem_str p seen) l) = true <-> (forall p, In p l -> ~ In p seen).
Proof.
  intros seen l. rewrite negb_true_iff. split.
  - intros H p Hp Hs. assert (E : existsb (fun p => mem_str p seen) l = true).
    { apply existsb_exists. exists p. split; auto. apply mem_str_In; auto. }
    congruence.
  - intros H. destruct (existsb (fun p => mem_str p seen) l) eqn:E; auto.
    apply existsb_exists in E. destruct E as [p [Hp Hs]]. apply mem_str_In in Hs.
    exfalso. eapply H; eauto.
Qed.

Lemma sink_first_exact : forall l seen,
  sink_first l seen = true <->
  (forall l1 f l2, l = l1 ++ f :: l2 -> forall p, In p (f_preds f) ->
     ~ In p (map fname (l1 ++ [f])) /\ ~ In p seen).
Proof.
  induction l as [|f t IH]; intros seen.
  - cbn [sink_first]. split; auto. intros _ l1 g l2 E. destruct l1; discriminate.
  - cbn [sink_first]. rewrite andb_true_iff, negb_existsb_mem, IH. split.
    + intros [Hf Ht] l1 g l2 E p Hp. destruct l1 as [|x l1]; cbn [app] in E; injection E as E1 E2.
      * subst g. specialize (Hf p Hp). cbn [app map]. unfold fname at 1. cbn [In] in *. tauto.
      * subst x. destruct (Ht l1 g l2 E2 p Hp) as [A B]. cbn [app map]. unfold fname at 1.
        cbn [In] in *. tauto.
    + intros H. split.
      * intros p Hp. destruct (H [] f t eq_refl p Hp) as [A B]. cbn [app map] in A. unfold fname in A.
        cbn [In] in *. tauto.
      * intros l1 g l2 E p Hp. subst t.
        destruct (H (f :: l1) g l2 eq_refl p Hp) as [A B]. cbn [app map] in A. unfold fname at 1 in A.
        cbn [In] in *. tauto.
Qed.

Lemma sortedb_exact : forall (leb : string -> string -> bool) l,
  sortedb leb l = true <-> (forall l1 a b l2, l = l1 ++ a :: b :: l2 -> leb a b = true).
Proof.
  intros leb. induction l as [|x t IH].
  - cbn [sortedb]. split; auto. intros _ l1 a b l2 E. destruct l1; discriminate.
  - destruct t as [|y t].
    + cbn [sortedb]. split; auto. intros _ l1 a b l2 E. destruct l1 as [|z l1]; cbn [app] in E; try discriminate.
      injection E as _ E. destruct l1; discriminate.
    + change (sortedb leb (x :: y :: t)) with (leb x y && sortedb leb (y :: t)).
      rewrite andb_true_iff, IH. split.
      * intros [H1 H2] l1 a b l2 E. destruct l1 as [|z l1]; cbn [app] in E.
        -- injection E as E1 E2 E3. subst. auto.
        -- injection E as E1 E2. eapply H2; eauto.
      * intros H. split.
        -- apply (H [] x y t eq_refl).
        -- intros l1 a b l2 E. apply (H (x :: l1) a b l2). rewrite E. reflexivity.
Qed.

Lemma C12_listing_exact_lemma :
  forall P, C12_listing_checkb P = true <-> C12_listing_prop P.
Proof.
  intros P. unfold C12_listing_checkb, C12_listing_prop.
  rewrite andb_true_iff, sink_first_exact, sortedb_exact. split.
  - intros [H1 H2]. split; auto. intros l1 f l2 E p Hp. apply (H1 l1 f l2 E p Hp).
  - intros [H1 H2]. split; auto. intros l1 f l2 E p Hp. split; [eauto | intros []].
Qed.

(* ---------- classify exact ---------- *)
Lemma nonempty_l_iff {A} (l : list A) : nonempty_l l = true <-> l <> [].
Proof. destruct l; cbn; split; intros; congruence. Qed.

Lemma neg_nonempty_l_iff {A} (l : list A) : negb (nonempty_l l) = true <-> l = [].
Proof. destruct l; cbn; split; intros; congruence. Qed.

Lemma C12_classify_exact_lemma :
  forall P, C12_classify_checkb P = true <-> C12_classify_prop P.
Proof.
  intros P. unfold C12_classify_checkb, C12_classify_prop.
  rewrite !andb_true_iff, !forallb_forall. unfold fname. split.
  - intros [[[H1 H2] H3] H4]. repeat split.
    + intros u Hu. apply nonempty_l_iff. auto.
    + intros u Hu. apply neg_nonempty_l_iff. auto.
    + specialize (H3 f H). apply andb_true_iff in H3. apply nonempty_l_iff. tauto.
    + specialize (H3 f H). apply andb_true_iff in H3. apply neg_nonempty_l_iff. tauto.
    + specialize (H4 f H). apply andb_true_iff in H4. apply nonempty_l_iff. tauto.
    + specialize (H4 f H). apply andb_true_iff in H4. apply nonempty_l_iff. tauto.
  - intros [H1 [H2 [H3 H4]]]. repeat split.
    + intros u Hu. apply nonempty_l_iff. auto.
    + intros u Hu. apply neg_nonempty_l_iff. auto.
    + intros f Hf. destruct (H3 f Hf). apply andb_true_iff. split;
        [apply nonempty_l_iff | apply neg_nonempty_l_iff]; auto.
    + intros f Hf. destruct (H4 f Hf). apply andb_true_iff. split; apply nonempty_l_iff; auto.
Qed.
