(* Readings2_c08a.v -- `exited` counts exactly the issued instructions that are no longer in flight
   (or are showing their final 'U' in an output-boundary unit): hence, while exited < entered, some
   instruction is placed in the last record. *)
From Coq Require Import Lia.
From PS Require Import Base Bag RegAccess Sim Diag Lists Run C03_lists C03_step C03_inv C03_proof.

Lemma forallb_false_ex {A} (f : A -> bool) l : forallb f l = false -> exists x, In x l /\ f x = false.
Proof. induction l as [|a l IH]; cbn [forallb]; [discriminate|].
  destruct (f a) eqn:E; cbn [andb].
  - intros H. destruct (IH H) as (x & Hx & Hf). exists x. split; auto. right; auto.
  - intros _. exists a. split; auto. left; auto. Qed.

Lemma pigeon (L : list nat) n :
  NoDup L -> length L < n -> exists i, i < n /\ ~ In i L.
Proof. intros Hnd Hlen.
  destruct (forallb (fun i => memn i L) (seq 0 n)) eqn:E.
  - exfalso. rewrite forallb_forall in E.
    assert (Hincl : incl (seq 0 n) L) by (intros x Hx; apply memn_In; auto).
    pose proof (NoDup_incl_length (seq_NoDup n 0) Hincl) as Hle. rewrite seq_length in Hle. lia.
  - apply forallb_false_ex in E. destruct E as (i & Hi & Hm). apply in_seq in Hi. exists i. split; [lia|].
    intros Hin. apply memn_In in Hin. congruence. Qed.

Section Exits.
Variable P : proc.
Hypothesis Hwf : wf_procb P = true.
Variable prog : list instr.

Definition EJ (s : state) : Prop :=
  exists L, NoDup L /\ length L = exited s /\
    (forall i, In i L -> i < entered s /\
                         (~ inrec (last (tbl s) []) i \/ In i (outU P (last (tbl s) [])))) /\
    (forall i, i < entered s -> In i L \/ inrec (last (tbl s) []) i) /\
    (forall i, In i (outU P (last (tbl s) [])) -> In i L).

Lemma EJ_init : EJ (init_state prog).
Proof. exists []. cbn. split; [constructor|]. split; auto. split; [intros i []|]. split; [intros i Hi; lia|].
  unfold outU. intros i Hi. apply in_flat_map in Hi. destruct Hi as (n & _ & []). Qed.

Lemma EJ_step s s' : reach P prog s -> EJ s -> run_cycle P prog s = inl s' -> EJ s'.
Proof. intros Hreach (L & HLnd & HLlen & HA & HB & HC) Hrun.
  pose proof (reach_SI P Hwf prog s Hreach) as (HR & _ & HO & _).
  destruct (RI_step P Hwf prog s s' HR Hrun) as (r3 & Htbl & HR' & Hent & Hex & S4 & S1 & S2 & S3).
  cbv zeta in S4, S1, S2, S3. unfold OI in HO.
  pose proof (RI_last prog s HR) as (HKo & HUo & Hlto).
  set (old := last (tbl s) []) in *.
  assert (Hr3 : rec_ok (entered s') r3).
  { destruct HR' as [HF _]. rewrite Htbl in HF. apply Forall_app in HF. destruct HF as [_ HF]. inversion HF; auto. }
  destruct Hr3 as (HK3 & HU3 & Hlt3).
  assert (Hlast' : last (tbl s') [] = r3) by (rewrite Htbl; apply last_last).
  assert (Hgone : forall i, i < entered s -> ~ inrec old i -> ~ inrec r3 i).
  { intros i Hi Hno (u & l' & Hin).
    destruct (S1 _ _ _ Hin) as [(l & G & _)|[(_ & h & l & _ & G & _)|(_ & G & _)]].
    - apply Hno. exists u, l; auto.
    - apply Hno. exists h, l; auto.
    - lia. }
  assert (Hflush : forall u i l, In u (out_names P) -> In (i, l) (get old u) -> l <> LD -> ~ inrec r3 i).
  { intros u i l Hu Hin Hl (u' & l' & Hin').
    destruct (S1 _ _ _ Hin') as [(l0 & G & G2 & _)|[(_ & h & l0 & Hp & G & _)|(_ & G & _)]].
    - destruct (Uq_same _ _ _ _ _ _ HUo Hin G) as [<- <-]. auto.
    - destruct (Uq_same _ _ _ _ _ _ HUo Hin G) as [<- _]. apply (preds_not_out P Hwf _ _ Hp Hu).
    - assert (i < entered s) by (apply Hlto; exists u, l; auto). lia. }
  assert (HLgone : forall i, In i L -> ~ inrec r3 i).
  { intros i Hi. destruct (HA i Hi) as [Hlt [Hno|Hout]].
    - apply Hgone; auto.
    - apply outU_in in Hout. destruct Hout as (u & Hu & Hin). eapply Hflush; eauto. discriminate. }
  exists (L ++ outU P r3). rewrite Hlast'. split; [|split; [|split; [|split]]].
  - apply NoDup_app_intro; auto; [apply outU_nodup; auto|].
    intros x Hx Hy. apply (HLgone x Hx). apply outU_in in Hy. destruct Hy as (u & _ & Hy). exists u, LU. auto.
  - rewrite app_length, HLlen, Hex, count_outputs_len. reflexivity.
  - intros i Hi. apply in_app_iff in Hi. destruct Hi as [Hi|Hi].
    + split; [destruct (HA i Hi); lia|]. left. apply HLgone; auto.
    + split; [|right; auto]. apply outU_in in Hi. destruct Hi as (u & _ & Hin). apply Hlt3. exists u, LU. auto.
  - intros i Hi. destruct (Nat.lt_ge_cases i (entered s)) as [Hlt|Hge].
    + destruct (HB i Hlt) as [HiL|(u & l & Hin)]; [left; apply in_or_app; auto|].
      destruct (S2 _ _ _ Hin) as [G|(G1 & G2 & G3)]; [right; auto|].
      left. apply in_or_app. left. apply HC. apply outU_in. exists u. split; auto.
      specialize (HO u i l G1 Hin). destruct l; congruence.
    + right. apply S4. lia.
  - intros i Hi. apply in_or_app. right; auto.
Qed.

Lemma reach_EJ s : reach P prog s -> EJ s.
Proof. induction 1 as [|s s' Hr IH Hc Hrun]; [apply EJ_init|eapply EJ_step; eauto]. Qed.

(* while fewer instructions have exited than entered, the last record is not empty *)
Lemma in_flight s : reach P prog s -> exited s < entered s ->
  exists u i l, In (i, l) (get (last (tbl s) []) u).
Proof. intros Hr Hlt. destruct (reach_EJ s Hr) as (L & Hnd & Hlen & _ & HB & _).
  destruct (pigeon L (entered s) Hnd ltac:(lia)) as (i & Hi & Hno).
  destruct (HB i Hi) as [H|(u & l & H)]; [contradiction|]. exists u, i, l. exact H. Qed.
End Exits.
