(* Flow_refine_split.v -- split_node and split_nodes: edge relation, node set, widths, reachability. *)
From Coq Require Import Lia Permutation.
From PS Require Import Base Str Sim Graph Loader Flow Lists Graph_facts Flow_refine_str Flow_refine_graph
  Flow_refine_stages.

(* ====================================================================== *)
(* split_node                                                              *)
(* ====================================================================== *)
Definition mov (old new : string) (h : graph) (s : string) : graph := remove_edge (add_edge h new s) old s.

Lemma mov_fold old new : new <> old -> forall l h,
  gwf h -> In old (g_nodes h) -> In new (g_nodes h) -> incl l (g_nodes h) ->
  let r := fold_left (mov old new) l h in
  gwf r /\ g_nodes r = g_nodes h /\
  (forall x y, In y (succs r x) <-> (In y (succs h x) /\ ~ (x = old /\ In y l)) \/ (x = new /\ In y l)) /\
  (forall x, x <> old -> x <> new -> succs r x = succs h x).
Proof. intros Hne. induction l as [|s l IH]; intros h Hg Ho Hn Hl; cbn zeta.
  - simpl. split; auto. split; auto. split; auto. intros x y. tauto.
  - simpl.
    assert (Hs : In s (g_nodes h)) by (apply Hl; left; auto).
    assert (En : g_nodes (mov old new h s) = g_nodes h).
    { unfold mov. rewrite remove_edge_nodes. apply add_edge_nodes_eq; auto. }
    destruct (IH (mov old new h s)) as [H1 [H2 [H3 H4]]].
    + unfold mov. apply gwf_remove_edge; [apply gwf_add_edge; auto| |];
        rewrite add_edge_nodes_eq; auto.
    + rewrite En; auto.
    + rewrite En; auto.
    + rewrite En. intros z Hz. apply Hl. right; auto.
    + split; auto. split; [congruence|]. split.
      * intros x y. rewrite H3. unfold mov. rewrite remove_edge_succs, add_edge_succs.
        split.
        -- intros [[[[H|[Hx Hy]] Hb] Hc]|[Hx Hy]].
           ++ left. split; auto. intros [Hx [Hy|Hy]]; subst; tauto.
           ++ right. subst; auto.
           ++ right. auto.
        -- intros [[H Hb]|[Hx [Hy|Hy]]].
           ++ left. split; [split; auto|]; intros [Hx Hy]; apply Hb; subst; auto.
           ++ left. subst. split; [split; auto|]; intros [Hx Hy]; congruence.
           ++ right. auto.
      * intros x Hx1 Hx2. rewrite H4 by auto. unfold mov. rewrite remove_edge_succs_eq.
        destruct (String.eqb_spec x old); [congruence|]. apply add_edge_succs_other; auto. Qed.

Lemma split_node_eq a old new :
  ag (split_node a old new) =
  add_edge (fold_left (mov old new) (succs (ag a) old) (add_node (ag a) new)) old new.
Proof. reflexivity. Qed.

Lemma split_node_spec a old new : gwf (ag a) -> In old (g_nodes (ag a)) -> ~ In new (g_nodes (ag a)) ->
  let r := split_node a old new in
  gwf (ag r) /\ g_nodes (ag r) = g_nodes (ag a) ++ [new] /\
  (forall x y, In y (succs (ag r) x) <->
     (x <> old /\ In y (succs (ag a) x)) \/ (x = new /\ In y (succs (ag a) old)) \/ (x = old /\ y = new)) /\
  (forall x, x <> old -> x <> new -> succs (ag r) x = succs (ag a) x) /\
  succs (ag r) old = [new] /\
  (forall x, aw r x = if String.eqb x new then aw a old else aw a x).
Proof. intros Hg Ho Hn r.
  assert (Hne : new <> old) by (intros ->; auto).
  set (g1 := add_node (ag a) new).
  assert (En1 : g_nodes g1 = g_nodes (ag a) ++ [new]).
  { unfold g1, add_node. destruct (has_node (ag a) new) eqn:E; [apply has_node_In in E; tauto|reflexivity]. }
  destruct (mov_fold old new Hne (succs (ag a) old) g1) as [H1 [H2 [H3 H4]]].
  - apply gwf_add_node; auto.
  - rewrite En1. apply in_or_app; auto.
  - rewrite En1. apply in_or_app; right; left; auto.
  - rewrite En1. intros z Hz. apply (gwf_in _ Hg) in Hz. apply in_or_app; tauto.
  - set (g2 := fold_left (mov old new) (succs (ag a) old) g1) in *.
    assert (Eo : succs g2 old = []).
    { apply nil_no_In. intros y Hy. apply H3 in Hy. unfold g1 in Hy. rewrite add_node_succs in Hy.
      destruct Hy as [[Hy Hb]|[Hc _]]; [tauto|congruence]. }
    assert (Eg : ag r = add_edge g2 old new) by reflexivity.
    assert (Ho2 : In old (g_nodes g2)) by (rewrite H2, En1; apply in_or_app; auto).
    assert (Hn2 : In new (g_nodes g2)) by (rewrite H2, En1; apply in_or_app; right; left; auto).
    rewrite Eg. split; [apply gwf_add_edge; auto|]. split; [rewrite add_edge_nodes_eq; auto; congruence|].
    split; [|split; [|split]].
    + intros x y. rewrite add_edge_succs, H3. unfold g1. rewrite !add_node_succs.
      assert (Hnn : succs (ag a) new = []) by (apply succs_notin; auto).
      split.
      * intros [[[H Hb]|[Hx Hy]]|[Hx Hy]]; auto.
        left. split; auto. intros ->. tauto.
      * intros [[Hx H]|[[Hx H]|[Hx Hy]]]; auto.
        left. left. split; auto. tauto.
    + intros x Hx1 Hx2. rewrite add_edge_succs_other by auto. rewrite H4 by auto.
      unfold g1. apply add_node_succs.
    + rewrite add_edge_succs_same, Eo. reflexivity.
    + intros x. unfold r, split_node. apply aw_set. Qed.

(* ====================================================================== *)
(* split_nodes                                                             *)
(* ====================================================================== *)
Definition sstep (n : nat) : agraph * list (string * string) -> nat * (string * nat) -> agraph * list (string * string) :=
  fun '(a, m) '(i, (u, twin)) =>
    let od := out_degree (ag a) u in
    if negb (twin =? 1) && negb (od =? 1) && (negb (twin =? 0) || negb (od =? 0))
    then let new := nid (n + i) in (split_node a u new, m ++ [(u, new)])
    else (a, m ++ [(u, u)]).
Lemma split_nodes_eq a :
  split_nodes a =
  fold_left (sstep (length (g_nodes (ag a))))
    (combine (seq 0 (length (g_nodes (ag a)))) (map (fun u => (u, in_degree (ag a) u)) (g_nodes (ag a)))) (a, []).
Proof. reflexivity. Qed.

Definition outm (m : list (string * string)) (z : string) : string := assoc z m z.
Lemma outm_snoc m u v z : ~ In u (map fst m) -> outm (m ++ [(u, v)]) z = if String.eqb z u then v else outm m z.
Proof. unfold outm. generalize z at 1 4 as d. induction m as [|[k w] m IH]; intros d H; simpl.
  - reflexivity.
  - destruct (String.eqb_spec z k) as [->|Hn].
    + destruct (String.eqb_spec k u); auto. subst. exfalso. apply H. left; auto.
    + apply IH. intros Hc. apply H. right; auto. Qed.
Lemma outm_notin m z : ~ In z (map fst m) -> outm m z = z.
Proof. intros H. unfold outm. apply assoc_notin; auto. Qed.

Section Split.
  Variable a1 : agraph.
  Hypothesis Hg1 : gwf (ag a1).
  Let ns := g_nodes (ag a1).
  Let n := length ns.
  Hypothesis Hbelow : forall x, In x ns -> exists j, j < n /\ x = nid j.
  Hypothesis Hpos1 : forall x, In x ns -> 0 < aw a1 x.

  Record sinv (P : list string) (a : agraph) (m : list (string * string)) : Prop := {
    si_gwf : gwf (ag a);
    si_nodes : forall x, In x (g_nodes (ag a)) <-> In x ns \/ exists z, In z P /\ x = outm m z;
    si_keys : map fst m = P;
    si_out : forall i z, nth_error P i = Some z -> outm m z = z \/ outm m z = nid (n + i);
    si_edges : forall x y, In y (succs (ag a) x) <->
       (exists z, In z ns /\ x = outm m z /\ In y (succs (ag a1) z)) \/
       (exists z, In z ns /\ outm m z <> z /\ x = z /\ y = outm m z);
    si_deg : forall z, In z P -> in_degree (ag a1) z = 0 -> out_degree (ag a) z <= 1;
    si_pos : forall x, In x (g_nodes (ag a)) -> 0 < aw a x }.

  Lemma nid_notin_ns k : ~ In (nid (n + k)) ns.
  Proof. intros H. apply Hbelow in H. destruct H as [j [Hj E]]. apply nid_inj in E. lia. Qed.

  (* consequences of the invariant on the twin map *)
  Lemma sinv_out_cases P a m z : sinv P a m ->
    outm m z = z \/ exists i, nth_error P i = Some z /\ outm m z = nid (n + i).
  Proof. intros H. destruct (in_dec string_dec z P) as [Hz|Hz].
    - apply In_nth_error in Hz. destruct Hz as [i Hi]. destruct (si_out _ _ _ H i z Hi); eauto.
    - left. apply outm_notin. rewrite (si_keys _ _ _ H); auto. Qed.
  Lemma sinv_out_ns P a m z : sinv P a m -> In (outm m z) ns -> outm m z = z.
  Proof. intros H Hin. destruct (sinv_out_cases P a m z H) as [E|[i [_ E]]]; auto.
    rewrite E in Hin. exfalso. eapply nid_notin_ns; eauto. Qed.
  Lemma sinv_out_inj P a m z z' : sinv P a m -> NoDup P -> In z ns -> In z' ns -> outm m z = outm m z' -> z = z'.
  Proof. intros H Hnd Hz Hz' E.
    destruct (sinv_out_cases P a m z H) as [E1|[i [Hi E1]]];
    destruct (sinv_out_cases P a m z' H) as [E2|[i' [Hi' E2]]].
    - congruence.
    - exfalso. apply (nid_notin_ns i'). rewrite <- E2, <- E, E1. auto.
    - exfalso. apply (nid_notin_ns i). rewrite <- E1, E, E2. auto.
    - rewrite E1, E2 in E. apply nid_inj in E. assert (i = i') by lia. subst. congruence. Qed.

  Lemma sinv_init : sinv [] a1 [].
  Proof. constructor; auto.
    - intros x. fold ns. split; auto. intros [H|[z [[] _]]]; auto.
    - intros x y. unfold outm. simpl. split.
      + intros H. left. exists x. split; auto. apply (gwf_in _ Hg1) in H. tauto.
      + intros [[z [_ [-> H]]]|[z [_ [H _]]]]; auto. congruence.
    - intros z [].
  Qed.

  Lemma sinv_step P u R a m : ns = P ++ u :: R -> sinv P a m ->
    let '(a', m') := sstep n (a, m) (length P, (u, in_degree (ag a1) u)) in sinv (P ++ [u]) a' m'.
  Proof. intros Ens H.
    assert (Hnd : NoDup ns) by apply Hg1.
    assert (HndP : NoDup P /\ ~ In u P).
    { rewrite Ens in Hnd. apply NoDup_app_inv in Hnd. destruct Hnd as [H1 [H2 H3]]. split; auto.
      intros Hc. apply (H3 u Hc). left; auto. }
    destruct HndP as [HndP HuP].
    assert (Hu : In u ns) by (rewrite Ens; apply in_or_app; right; left; auto).
    assert (HPns : incl P ns) by (intros z Hz; rewrite Ens; apply in_or_app; auto).
    assert (Hum : ~ In u (map fst m)) by (rewrite (si_keys _ _ _ H); auto).
    assert (Eou : outm m u = u) by (apply outm_notin; auto).
    assert (Houtu : forall z, outm m z = u -> z = u).
    { intros z E. assert (E2 : outm m z = z) by (apply (sinv_out_ns P a m z H); rewrite E; auto). congruence. }
    cbn [sstep].
    destruct (negb (in_degree (ag a1) u =? 1) && negb (out_degree (ag a) u =? 1) &&
              (negb (in_degree (ag a1) u =? 0) || negb (out_degree (ag a) u =? 0))) eqn:Ec.
    - (* split *)
      set (new := nid (n + length P)).
      assert (Hua : In u (g_nodes (ag a))) by (apply (si_nodes _ _ _ H); auto).
      assert (Hnew : ~ In new (g_nodes (ag a))).
      { intros Hc. apply (si_nodes _ _ _ H) in Hc. destruct Hc as [Hc|[z [Hz Hc]]].
        - apply (nid_notin_ns (length P)); auto.
        - destruct (sinv_out_cases P a m z H) as [E|[i [Hi E]]].
          + apply (nid_notin_ns (length P)). fold new. rewrite Hc, E. auto.
          + rewrite E in Hc. apply nid_inj in Hc.
            assert (i < length P) by (apply nth_error_Some; congruence). lia. }
      destruct (split_node_spec a u new (si_gwf _ _ _ H) Hua Hnew) as [S1 [S2 [S3 [S4 [S5 S6]]]]].
      assert (Eo : forall z, outm (m ++ [(u, new)]) z = if String.eqb z u then new else outm m z)
        by (intros z; apply outm_snoc; auto).
      assert (Hnu : new <> u) by (intros Hc; apply Hnew; rewrite Hc; auto).
      constructor.
      + exact S1.
      + intros x. rewrite S2, in_snoc, (si_nodes _ _ _ H). split.
        * intros [[Hx|[z [Hz Hx]]]|Hx]; auto.
          -- right. exists z. split; [apply in_or_app; auto|]. rewrite Eo.
             destruct (String.eqb_spec z u); [congruence|auto].
          -- right. exists u. split; [apply in_or_app; right; left; auto|]. rewrite Eo, String.eqb_refl. auto.
        * intros [Hx|[z [Hz Hx]]]; auto. rewrite Eo in Hx. apply in_app_iff in Hz.
          destruct (String.eqb_spec z u) as [->|Hzu]; auto.
          destruct Hz as [Hz|[Hz|[]]]; [|congruence]. left. right. eauto.
      + rewrite map_app, (si_keys _ _ _ H). reflexivity.
      + intros i z Hi. rewrite Eo.
        destruct (Nat.lt_ge_cases i (length P)) as [Hlt|Hge].
        * rewrite nth_error_app1 in Hi by auto.
          destruct (String.eqb_spec z u) as [->|Hzu]; [exfalso; apply HuP; eapply nth_error_In; eauto|].
          apply (si_out _ _ _ H); auto.
        * rewrite nth_error_app2 in Hi by auto.
          destruct (i - length P) as [|k] eqn:Ek; [|destruct k; discriminate].
          simpl in Hi. inversion Hi; subst z. rewrite String.eqb_refl. right. unfold new. f_equal. lia.
      + intros x y. rewrite S3. rewrite !(si_edges _ _ _ H). split.
        * intros [[Hx [[z [Hz [E1 E2]]]|[z [Hz [E1 [E2 E3]]]]]]|[[Hx [[z [Hz [E1 E2]]]|[z [Hz [E1 [E2 E3]]]]]]|[Hx Hy]]].
          -- left. exists z. split; auto. split; auto. rewrite Eo.
             destruct (String.eqb_spec z u); [|auto]. subst z. congruence.
          -- right. exists z. split; auto. rewrite Eo. destruct (String.eqb_spec z u); [congruence|auto].
          -- left. exists u. symmetry in E1. apply Houtu in E1. subst z.
             split; auto. split; auto. rewrite Eo, String.eqb_refl. auto.
          -- congruence.
          -- right. exists u. split; auto. rewrite Eo, String.eqb_refl. auto.
        * intros [[z [Hz [E1 E2]]]|[z [Hz [E1 [E2 E3]]]]]; rewrite Eo in *.
          -- destruct (String.eqb_spec z u) as [->|Hzu].
             ++ right. left. split; auto. left. exists u. split; auto.
             ++ left. split; [intros Hc; apply Hzu, Houtu; congruence|]. left. eauto.
          -- destruct (String.eqb_spec z u) as [->|Hzu].
             ++ right. right. auto.
             ++ left. split; [congruence|]. right. exists z. auto.
      + intros z Hz Hd. apply in_app_iff in Hz. destruct Hz as [Hz|[Hz|[]]].
        * unfold out_degree. rewrite S4.
          -- apply (si_deg _ _ _ H); auto.
          -- intros ->. auto.
          -- intros ->. apply (nid_notin_ns (length P)). apply HPns. auto.
        * subst z. unfold out_degree. rewrite S5. simpl. lia.
      + intros x Hx. rewrite S2, in_snoc in Hx. rewrite S6.
        destruct (String.eqb_spec x new) as [->|Hxn].
        * apply (si_pos _ _ _ H); auto.
        * destruct Hx; [|congruence]. apply (si_pos _ _ _ H); auto.
    - (* not split *)
      assert (Eo : forall z, outm (m ++ [(u, u)]) z = outm m z).
      { intros z. rewrite outm_snoc by auto. destruct (String.eqb_spec z u); congruence. }
      constructor.
      + apply H.
      + intros x. rewrite (si_nodes _ _ _ H). split.
        * intros [Hx|[z [Hz Hx]]]; auto. right. exists z. rewrite Eo. split; auto. apply in_or_app; auto.
        * intros [Hx|[z [Hz Hx]]]; auto. rewrite Eo in Hx. apply in_app_iff in Hz.
          destruct Hz as [Hz|[Hz|[]]]; [right; eauto|]. subst z. left. congruence.
      + rewrite map_app, (si_keys _ _ _ H). reflexivity.
      + intros i z Hi. rewrite Eo.
        destruct (Nat.lt_ge_cases i (length P)) as [Hlt|Hge].
        * rewrite nth_error_app1 in Hi by auto. apply (si_out _ _ _ H); auto.
        * rewrite nth_error_app2 in Hi by auto.
          destruct (i - length P) as [|k] eqn:Ek; [|destruct k; discriminate].
          simpl in Hi. inversion Hi; subst z. auto.
      + intros x y. rewrite (si_edges _ _ _ H). split; intros [[z Hz]|[z Hz]]; [left|right|left|right]; exists z;
          rewrite Eo in *; auto.
      + intros z Hz Hd. apply in_app_iff in Hz. destruct Hz as [Hz|[Hz|[]]]; [apply (si_deg _ _ _ H); auto|].
        subst z. rewrite Hd in Ec. simpl in Ec.
        destruct (Nat.eqb_spec (out_degree (ag a) u) 1); [lia|].
        destruct (Nat.eqb_spec (out_degree (ag a) u) 0); [lia|]. discriminate.
      + apply H.
  Qed.

  Lemma sinv_fold R : forall P a m, ns = P ++ R -> sinv P a m ->
    let '(a', m') := fold_left (sstep n)
        (combine (seq (length P) (length R)) (map (fun u => (u, in_degree (ag a1) u)) R)) (a, m) in
    sinv ns a' m'.
  Proof. induction R as [|u R IH]; intros P a m Ens H.
    - simpl. rewrite app_nil_r in Ens. rewrite Ens. auto.
    - cbn [length seq map combine fold_left].
      pose proof (sinv_step P u R a m Ens H) as Hs.
      destruct (sstep n (a, m) (length P, (u, in_degree (ag a1) u))) as [a' m'].
      specialize (IH (P ++ [u]) a' m'). rewrite app_length in IH. simpl in IH.
      rewrite Nat.add_1_r in IH. apply IH; auto. rewrite <- app_assoc. auto. Qed.

  Lemma split_nodes_sinv : sinv ns (fst (split_nodes a1)) (snd (split_nodes a1)).
  Proof. rewrite split_nodes_eq. fold ns. fold n.
    pose proof (sinv_fold ns [] a1 [] eq_refl sinv_init) as H. simpl length in H. unfold n.
    destruct (fold_left _ _ _) as [a' m']. auto. Qed.

  (* ---------- what the final invariant gives ---------- *)
  Section Final.
    Variable a2 : agraph.
    Variable m : list (string * string).
    Hypothesis H : sinv ns a2 m.
    Let Hnd : NoDup ns := gwf_nodup _ Hg1.

    Lemma split_twin_edge w : In w ns -> rpath (succs (ag a2)) w (outm m w).
    Proof. intros Hw. destruct (string_dec (outm m w) w) as [E|E].
      - rewrite E. apply rp_refl.
      - eapply rp_step; [apply rp_refl|]. apply (si_edges _ _ _ H). right. exists w. auto. Qed.

    Lemma split_rpath_fwd s w : rpath (succs (ag a1)) s w -> In s ns ->
      rpath (succs (ag a2)) s w /\ rpath (succs (ag a2)) s (outm m w).
    Proof. induction 1 as [s|s y w Hr IH Hw]; intros Hs.
      - split; [apply rp_refl|apply split_twin_edge; auto].
      - destruct (IH Hs) as [_ IH2].
        assert (Hy : In y ns /\ In w ns) by (apply (gwf_in _ Hg1); auto).
        assert (R : rpath (succs (ag a2)) s w).
        { eapply rp_step; [apply IH2|]. apply (si_edges _ _ _ H). left. exists y. tauto. }
        split; auto. eapply rpath_trans; [apply R|]. apply split_twin_edge; tauto. Qed.

    Lemma split_rpath_bwd s w : rpath (succs (ag a2)) s w -> In s ns ->
      (In w ns /\ rpath (succs (ag a1)) s w) \/
      (exists z, In z ns /\ w = outm m z /\ outm m z <> z /\ rpath (succs (ag a1)) s z).
    Proof. induction 1 as [s|s y w Hr IH Hw]; intros Hs.
      - left. split; auto. apply rp_refl.
      - apply (si_edges _ _ _ H) in Hw. destruct Hw as [[z [Hz [E1 E2]]]|[z [Hz [E1 [E2 E3]]]]].
        + assert (Hw : In w ns) by (apply (gwf_in _ Hg1) in E2; tauto).
          left. split; auto. destruct (IH Hs) as [[Hy Hp]|[z' [Hz' [E3 [E4 Hp]]]]].
          * rewrite E1 in Hy. apply (sinv_out_ns ns a2 m z H) in Hy. eapply rp_step; [|apply E2]. congruence.
          * assert (z = z') by (apply (sinv_out_inj ns a2 m z z' H); auto; congruence). subst z'.
            eapply rp_step; eauto.
        + subst y w. destruct (IH Hs) as [[Hy Hp]|[z' [Hz' [E3 [E4 Hp]]]]].
          * right. exists z. auto.
          * exfalso. apply E4. apply (sinv_out_ns ns a2 m z' H). rewrite <- E3. auto. Qed.

    Lemma split_rpath s u : In s ns -> In u ns ->
      (rpath (succs (ag a2)) s (outm m u) <-> rpath (succs (ag a1)) s u).
    Proof. intros Hs Hu. split.
      - intros Hr. destruct (split_rpath_bwd _ _ Hr Hs) as [[Hy Hp]|[z [Hz [E3 [E4 Hp]]]]].
        + apply (sinv_out_ns ns a2 m u H) in Hy. congruence.
        + assert (u = z) by (apply (sinv_out_inj ns a2 m u z H); auto). subst; auto.
      - intros Hr. apply split_rpath_fwd; auto. Qed.

    Lemma split_out_node u : In u ns -> In (outm m u) (g_nodes (ag a2)).
    Proof. intros Hu. apply (si_nodes _ _ _ H). right. eauto. Qed.
    Lemma split_old_node s : In s ns -> In s (g_nodes (ag a2)).
    Proof. intros Hs. apply (si_nodes _ _ _ H). auto. Qed.
    Lemma split_out_neq s u : In s ns -> In u ns -> s <> u -> s <> outm m u.
    Proof. intros Hs Hu Hne E. apply Hne. rewrite E. apply (sinv_out_ns ns a2 m u H). rewrite <- E. auto. Qed.
    Lemma split_preds_nil s : In s ns -> in_degree (ag a1) s = 0 -> preds (ag a2) s = [].
    Proof. intros Hs Hd. apply nil_no_In. intros x Hx. apply (gwf_sym _ (si_gwf _ _ _ H)) in Hx.
      apply (si_edges _ _ _ H) in Hx. destruct Hx as [[z [Hz [E1 E2]]]|[z [Hz [E1 [E2 E3]]]]].
      - apply (gwf_sym _ Hg1) in E2. apply length_zero_nil in Hd. unfold in_degree in Hd.
        rewrite Hd in E2. destruct E2.
      - apply E1. apply (sinv_out_ns ns a2 m z H). rewrite <- E3. auto. Qed.
    Lemma split_out_degree s : In s ns -> in_degree (ag a1) s = 0 -> out_degree (ag a2) s <= 1.
    Proof. intros Hs Hd. apply (si_deg _ _ _ H); auto. Qed.
  End Final.
End Split.
