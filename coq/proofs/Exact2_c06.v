(* Exact2_c06 -- the checker C06_checkb decides exactly the Prop-level statement C06_prop (spec/Exact2_defs.v)
   on every diagram whose records have duplicate-free unit keys (the first half of diagram_shape); the
   checker -> statement direction additionally needs one_place (an instruction is shown in at most one unit
   per cycle, a clause of C03), because the checker looks at ONE place of the issued instruction only.
   Nothing is assumed about the processor, the program, or how the diagram was produced.
   Uses model/, spec/, the standard library, and the generic list/string-order files Lists, C06_lists,
   C17_strord, Exact_c04 (no simulator invariants). *)
From Coq Require Import Lia Permutation Sorted.
From PS Require Import Base Bag RegAccess Sim Diag Readings_defs Readings4_defs Exact_defs Exact2_defs
  Lists C06_lists C17_strord Exact_c04.

(* the part of diagram_shape that is used: every record is a dict (duplicate-free unit keys) *)
Definition keys_ok (d : diagram) : Prop := forall r, In r d -> NoDup (map fst r).

Lemma shape_keys d : diagram_shape d -> keys_ok d.
Proof. intros H r Hr. exact (proj1 (H r Hr)). Qed.

(* ---------- generic: sorted names ---------- *)
Lemma x6_sleb_total a b : String.leb a b = true \/ String.leb b a = true.
Proof. destruct (String.compare a b) eqn:E.
  - left. apply sleb_iff. left. apply scompare_eq; auto.
  - left. apply sleb_iff; auto.
  - right. apply sleb_iff. right. apply scompare_gt_lt; auto. Qed.

Lemma x6_SS_map {A B} (f : A -> B) (R : B -> B -> Prop) l :
  StronglySorted (fun a b => R (f a) (f b)) l -> StronglySorted R (map f l).
Proof. induction 1; cbn [map]; constructor; auto. rewrite Forall_forall in *. intros x Hx.
  apply in_map_iff in Hx. destruct Hx as [w [<- Hw]]. auto. Qed.

(* in a list sorted by String.leb, everything strictly smaller than q comes before q *)
Lemma x6_before_lt q : forall L, StronglySorted (fun a b => String.leb a b = true) L ->
  forall u, In u L -> String.ltb u q = true -> In u (before_name q L).
Proof. induction 1 as [|x t Hs IH Hall]; intros u Hin Hlt; [destruct Hin|]. cbn [before_name].
  destruct (String.eqb x q) eqn:E.
  - apply String.eqb_eq in E. subst x. exfalso. destruct Hin as [<-|Hin].
    + rewrite sltb_irrefl in Hlt. discriminate.
    + rewrite Forall_forall in Hall. apply Hall in Hin. apply sleb_iff in Hin. apply sltb_lt in Hlt.
      destruct Hin as [<-|Hin].
      * rewrite scompare_refl in Hlt. discriminate.
      * apply scompare_gt_lt in Hin. congruence.
  - destruct Hin as [<-|Hin]; [left; auto|right; apply IH; auto]. Qed.

(* ... and everything before (the first occurrence of) q is a member strictly smaller than q;
   no duplicate-freeness of the names is needed *)
Lemma x6_before_spec q : forall L, StronglySorted (fun a b => String.leb a b = true) L -> In q L ->
  forall u, In u (before_name q L) -> In u L /\ String.ltb u q = true.
Proof. induction 1 as [|x t Hs IH Hall]; intros Hq u Hin; [destruct Hq|]. cbn [before_name] in Hin.
  destruct (String.eqb_spec x q) as [E|E]; [destruct Hin|].
  assert (Hq' : In q t) by (destruct Hq; [contradiction|auto]).
  destruct Hin as [<-|Hin].
  - split; [left; auto|]. rewrite Forall_forall in Hall. apply Hall in Hq'. apply sleb_iff in Hq'.
    destruct Hq' as [Hq'|Hq']; [contradiction|]. apply sltb_lt; auto.
  - destruct (IH Hq' u Hin). split; [right|]; auto. Qed.

Lemma x6_ports_sorted P : StronglySorted (fun a b => String.leb a b = true) (in_ports_by_name P).
Proof. unfold in_ports_by_name, in_ports_sorted. apply x6_SS_map.
  exact (isort_sorted unit_leb (fun a b => x6_sleb_total _ _) (fun a b c => sleb_trans _ _ _) (p_inout P ++ p_in P)). Qed.

Lemma x6_in_names_ports P u : In u (in_names P) <-> In u (in_ports_by_name P).
Proof. unfold in_names, in_ports_by_name, in_ports_sorted. rewrite !in_map_iff. split.
  - intros [w [<- Hw]]. exists w. split; auto. apply (Permutation_in _ (isort_perm unit_leb _)).
    rewrite in_app_iff in *. tauto.
  - intros [w [<- Hw]]. exists w. split; auto. apply isort_incl in Hw. rewrite in_app_iff in *. tauto. Qed.

(* ---------- first_such / first_cycle ---------- *)
Definition x6_app_in (r : record) (i : nat) : bool := match places r i with [] => false | _ => true end.
Lemma x6_first_cycle_unfold d i :
  first_cycle d i = first_such (fun t => x6_app_in (rec_at d t) i) 0 (length d).
Proof. reflexivity. Qed.

(* ---------- diagrams whose records have duplicate-free keys ---------- *)
Section Diagram.
Variable d : diagram.
Hypothesis Hk : keys_ok d.

Lemma x6_keys_at t : NoDup (map fst (rec_at d t)).
Proof. destruct (Nat.lt_ge_cases t (length d)) as [H|H].
  - apply Hk, x_rec_at_In; auto.
  - rewrite x_rec_at_over by auto. constructor. Qed.

(* needs no shape *)
Lemma x6_shown_places t i u : shown d t i u -> exists l, In (u, l) (places (rec_at d t) i).
Proof. intros [l H]. unfold occ in H. exists l. unfold places. apply in_flat_map.
  exists (u, get (rec_at d t) u). split; [eapply x_get_In; eauto|].
  cbn [fst snd]. apply in_map_iff. exists (i, l). split; auto. apply filter_In. split; auto.
  apply Nat.eqb_refl. Qed.

Lemma x6_places_shown t i u l : In (u, l) (places (rec_at d t) i) -> shown d t i u.
Proof. intros H. unfold places in H. apply in_flat_map in H. destruct H as [[k es] [Hkv H]].
  cbn [fst snd] in H. apply in_map_iff in H. destruct H as [[j l'] [He1 He2]]. cbn [fst snd] in He1.
  inversion He1; subst. apply filter_In in He2. destruct He2 as [He2 He3]. cbn [fst] in He3.
  apply Nat.eqb_eq in He3. subst j. exists l. unfold occ. rewrite (x_get_nodup _ _ _ (x6_keys_at t) Hkv). auto. Qed.

Lemma x6_app_shown t i : x6_app_in (rec_at d t) i = true <-> exists u, shown d t i u.
Proof. unfold x6_app_in. split.
  - destruct (places (rec_at d t) i) as [|[u l] tl] eqn:E; [discriminate|]. intros _. exists u.
    apply (x6_places_shown t i u l). rewrite E. left; auto.
  - intros [u H]. apply x6_shown_places in H. destruct H as [l H]. destruct (places _ i); [destruct H|auto]. Qed.

Lemma x6_shown_lt t i u : shown d t i u -> t < length d.
Proof. intros [l H]. destruct (Nat.lt_ge_cases t (length d)); auto. unfold occ in H.
  rewrite x_rec_at_over in H by auto. destruct H. Qed.

Lemma x6_first_issued i t0 : first_cycle d i = Some t0 -> issued_at d i t0.
Proof. rewrite x6_first_cycle_unfold. intros H. apply first_such_some in H. destruct H as [H1 [H2 H3]]. split.
  - apply x6_app_shown; auto.
  - intros t' u Ht Hs. assert (H : x6_app_in (rec_at d t') i = true) by (apply x6_app_shown; eauto).
    rewrite H3 in H by lia. discriminate. Qed.

Lemma x6_issued_first i t0 : issued_at d i t0 -> first_cycle d i = Some t0.
Proof. intros [[u Hs] Hn]. rewrite x6_first_cycle_unfold. apply first_such_intro.
  - apply x6_shown_lt in Hs. lia.
  - apply x6_app_shown; eauto.
  - intros y Hy. destruct (x6_app_in (rec_at d y) i) eqn:E; auto. apply x6_app_shown in E.
    destruct E as [v Hv]. exfalso. apply (Hn y v); auto. lia. Qed.

Lemma x6_first_iff i t0 : first_cycle d i = Some t0 <-> issued_at d i t0.
Proof. split; [apply x6_first_issued|apply x6_issued_first]. Qed.

Lemma x6_first_none_shown i : first_cycle d i = None -> forall t u, ~ shown d t i u.
Proof. rewrite x6_first_cycle_unfold. intros H t u Hs. pose proof (x6_shown_lt _ _ _ Hs) as Hlt.
  assert (H0 : x6_app_in (rec_at d t) i = true) by (apply x6_app_shown; eauto).
  rewrite (first_such_none _ _ _ H t) in H0 by lia. discriminate. Qed.

Lemma x6_first_cycle_lt i t : first_cycle d i = Some t -> t < length d.
Proof. rewrite x6_first_cycle_unfold. intros H. apply first_such_some in H. lia. Qed.

Lemma x6_appears_iff i : appears d i = true <-> exists t u, shown d t i u.
Proof. unfold appears. rewrite existsb_exists. split.
  - intros [r [Hr H]]. destruct (In_nth _ _ [] Hr) as [t [Ht E]].
    assert (E' : rec_at d t = r) by exact E. subst r. exists t. apply x6_app_shown. exact H.
  - intros [t [u H]]. exists (rec_at d t). split.
    + apply x_rec_at_In. eapply x6_shown_lt; eauto.
    + apply (proj2 (x6_app_shown t i)). eauto. Qed.

Lemma x6_first_appears i t0 : first_cycle d i = Some t0 -> appears d i = true.
Proof. intros H. apply x6_first_issued in H. destruct H as [[u H] _]. apply x6_appears_iff. eauto. Qed.

Lemma x6_mem_entries_iff P prog t k v : In (k, v) (mem_entries P prog d t) <-> enters_mem P prog d t k v.
Proof. split; [|apply x_enters_In]. intros H. rewrite x_mem_entries_mr in H. apply x_mr_In in H.
  destruct H as [es [Hkv [Hl Hc]]]. apply x_cond_iff in Hc. unfold enters_mem. split; auto.
  unfold occ. rewrite (x_get_nodup _ _ _ (x6_keys_at t) Hkv). auto. Qed.

Definition x6_startv (i : nat) : option nat := match i with 0 => Some 0 | S i' => first_cycle d i' end.

Lemma x6_start_iff i s : x6_startv i = Some s <-> next_from d i s.
Proof. destruct i as [|k]; unfold x6_startv, next_from.
  - split; congruence.
  - apply x6_first_iff. Qed.

Section Reading.
Variable P : proc.
Variable prog : list instr.

(* ================= checker -> statement ================= *)
Section Sound.
Hypothesis Hchk : C06_checkb P prog d = true.

Lemma x6_instr_ok i : i < length prog -> C06_instr_ok P prog d i = true.
Proof. intros Hi. unfold C06_checkb in Hchk. rewrite forallb_forall in Hchk. apply Hchk. apply in_seq. lia. Qed.

Lemma x6_ok_issued i t0 : i < length prog -> first_cycle d i = Some t0 ->
  exists s, x6_startv i = Some s /\ s <= t0 /\
    (exists q l, place_at d t0 i = Some (q, l) /\ mem_str q (in_names P) = true /\
                 supports P q (cat_of prog i) = true /\ C06_first_ok P prog d i t0 q = true) /\
    forall t, s <= t < t0 -> C06_held_ok P prog d i t = true.
Proof. intros Hi Hf. pose proof (x6_instr_ok i Hi) as H. unfold C06_instr_ok in H. cbv zeta in H.
  fold (x6_startv i) in H. destruct (x6_startv i) as [s|].
  - rewrite Hf in H. apply andb_true_iff in H. destruct H as [H H3]. apply andb_true_iff in H.
    destruct H as [H1 H2]. exists s. split; auto. split; [apply Nat.leb_le; auto|]. split.
    + destruct (place_at d t0 i) as [[q l]|]; [|discriminate]. exists q, l.
      apply andb_true_iff in H2. destruct H2 as [H2 H4]. apply andb_true_iff in H2. destruct H2. auto.
    + intros t Ht. rewrite forallb_forall in H3. apply H3. apply in_seq. lia.
  - rewrite (x6_first_appears _ _ Hf) in H. discriminate. Qed.

Lemma x6_ok_waiting i s : i < length prog -> x6_startv i = Some s -> first_cycle d i = None ->
  forall t, s <= t < length d -> C06_held_ok P prog d i t = true.
Proof. intros Hi Hs Hf t Ht. pose proof (x6_instr_ok i Hi) as H. unfold C06_instr_ok in H. cbv zeta in H.
  fold (x6_startv i) in H. rewrite Hs, Hf in H. rewrite forallb_forall in H. apply H. apply in_seq. lia. Qed.

Lemma x6_order_first i : i < length prog -> forall t0, first_cycle d i = Some t0 ->
  forall k, k < i -> exists tk, tk <= t0 /\ first_cycle d k = Some tk.
Proof. induction i as [|i IH]; intros Hi t0 Hf k Hki; [lia|].
  destruct (x6_ok_issued (S i) t0 Hi Hf) as (s & Hs & Hle & _). cbn [x6_startv] in Hs.
  destruct (Nat.eq_dec k i) as [->|Hne]; [eauto|].
  destruct (IH ltac:(lia) s Hs k ltac:(lia)) as (tk & H1 & H2). exists tk. split; [lia|auto]. Qed.

(* clause 1 holds of every diagram with duplicate-free keys, checker or not *)
Lemma x6_r_shown_issued i : forall t u, shown d t i u -> exists t0, t0 <= t /\ issued_at d i t0.
Proof. intros t u Hs. destruct (first_cycle d i) as [t0|] eqn:Ef.
  - exists t0. split; [|apply x6_first_issued; auto].
    destruct (Nat.le_gt_cases t0 t); auto. exfalso.
    apply x6_first_issued in Ef. destruct Ef as [_ Hn]. apply (Hn t u); auto.
  - exfalso. eapply x6_first_none_shown; eauto. Qed.

Lemma x6_r_order i : i < length prog ->
  forall t0 k, issued_at d i t0 -> k < i -> exists tk, tk <= t0 /\ issued_at d k tk.
Proof. intros Hi t0 k Hiss Hki. apply x6_issued_first in Hiss.
  destruct (x6_order_first i Hi t0 Hiss k Hki) as (tk & H1 & H2). exists tk. split; auto.
  apply x6_first_issued; auto. Qed.

(* the only clause that needs one_place: the checker inspects the first place of i only *)
Lemma x6_r_first i : one_place d -> i < length prog -> forall t0 q, issued_at d i t0 -> shown d t0 i q ->
  In q (in_names P) /\ supports P q (cat_of prog i) = true /\
  forall u, In u (in_names P) -> supports P u (cat_of prog i) = true -> String.ltb u q = true ->
    width_of P u <= length (filter (fun e => fst e <? i) (occ d t0 u))
    \/ (mem_needed P u (cat_of prog i) = true /\ exists k v, k < i /\ enters_mem P prog d t0 k v).
Proof. intros H1p Hi t0 q Hiss Hsh. apply x6_issued_first in Hiss.
  destruct (x6_ok_issued i t0 Hi Hiss) as (s & _ & _ & (q' & l & Hpl & Hq1 & Hq2 & Hq3) & _).
  assert (Hq : q' = q).
  { unfold place_at in Hpl. destruct (places (rec_at d t0) i) as [|[a b] tl] eqn:E; [discriminate|].
    cbn [hd_error] in Hpl. inversion Hpl; subst. apply (H1p t0 i); auto.
    apply (x6_places_shown t0 i q' l). rewrite E. left; auto. }
  subst q'. split; [apply mem_str_In; auto|]. split; auto.
  intros u Hu1 Hu2 Hu3. unfold C06_first_ok in Hq3. rewrite forallb_forall in Hq3.
  specialize (Hq3 u (x6_before_lt q _ (x6_ports_sorted P) u (proj1 (x6_in_names_ports P u) Hu1) Hu3)).
  rewrite Hu2 in Hq3. cbn [negb orb] in Hq3. apply orb_true_iff in Hq3. destruct Hq3 as [H|H].
  - left. apply Nat.leb_le; auto.
  - right. apply andb_true_iff in H. destruct H as [H1 H2]. split; auto.
    apply existsb_exists in H2. destruct H2 as [[k v] [H2 H3]]. cbn [fst] in H3. apply Nat.ltb_lt in H3.
    exists k, v. split; auto. apply x6_mem_entries_iff; auto. Qed.

Lemma x6_r_held i : i < length prog ->
  forall s t, next_from d i s -> s <= t -> t < length d -> (forall t' u, t' <= t -> ~ shown d t' i u) ->
  forall u, In u (in_names P) -> supports P u (cat_of prog i) = true ->
    width_of P u <= length (occ d t u)
    \/ (mem_needed P u (cat_of prog i) = true /\ exists k v, k <> i /\ enters_mem P prog d t k v).
Proof. intros Hi s t Hn Hst Ht Hns u Hu1 Hu2.
  assert (Hs : x6_startv i = Some s) by (apply x6_start_iff; auto).
  assert (Hh : C06_held_ok P prog d i t = true).
  { destruct (first_cycle d i) as [t0|] eqn:Ef.
    - destruct (x6_ok_issued i t0 Hi Ef) as (s' & Hs' & _ & _ & Hh). rewrite Hs in Hs'. inversion Hs'; subst s'.
      apply Hh. split; auto. destruct (Nat.lt_ge_cases t t0); auto. exfalso.
      apply x6_first_issued in Ef. destruct Ef as [[v Hv] _]. apply (Hns t0 v); auto.
    - eapply x6_ok_waiting; eauto. }
  unfold C06_held_ok in Hh. rewrite forallb_forall in Hh.
  specialize (Hh u (proj1 (x6_in_names_ports P u) Hu1)).
  rewrite Hu2 in Hh. cbn [negb orb] in Hh. apply orb_true_iff in Hh. destruct Hh as [H|H].
  - left. apply Nat.leb_le. exact H.
  - right. apply andb_true_iff in H. destruct H as [H1 H2]. split; auto.
    destruct (mem_entries P prog d t) as [|[k v] tl] eqn:E; [discriminate|].
    assert (Hin : In (k, v) (mem_entries P prog d t)) by (rewrite E; left; auto).
    apply x6_mem_entries_iff in Hin. exists k, v. split; auto.
    intros ->. destruct Hin as [[l Hl] _]. apply (Hns t v); auto. exists l; auto. Qed.
End Sound.

(* ================= statement -> checker ================= *)
Section Complete.
Hypothesis Hprop : C06_prop P prog d.

(* clause 4 gives the checker's per-cycle test *)
Lemma x6_held_of_prop i s t : i < length prog -> next_from d i s -> s <= t -> t < length d ->
  (forall t' u, t' <= t -> ~ shown d t' i u) -> C06_held_ok P prog d i t = true.
Proof. intros Hi Hn Hst Ht Hns. destruct (Hprop i Hi) as (_ & _ & _ & C4).
  unfold C06_held_ok. apply forallb_forall. intros u Hu. apply x6_in_names_ports in Hu.
  destruct (supports P u (cat_of prog i)) eqn:Es; [|reflexivity]. cbn [negb orb].
  destruct (C4 s t Hn Hst Ht Hns u Hu Es) as [H|[H1 (k & v & _ & H2)]].
  - unfold full_at. apply Nat.leb_le in H. rewrite H. reflexivity.
  - rewrite H1. apply x6_mem_entries_iff in H2.
    destruct (mem_entries P prog d t); [destruct H2|]. apply orb_true_r. Qed.

(* clause 3 gives the checker's test of the ports before the chosen one *)
Lemma x6_first_of_prop i t0 q : i < length prog -> issued_at d i t0 -> shown d t0 i q ->
  C06_first_ok P prog d i t0 q = true.
Proof. intros Hi Hiss Hsh. destruct (Hprop i Hi) as (_ & _ & C3 & _).
  destruct (C3 t0 q Hiss Hsh) as (Hq & _ & C3').
  unfold C06_first_ok. apply forallb_forall. intros u Hu.
  destruct (x6_before_spec q _ (x6_ports_sorted P) (proj1 (x6_in_names_ports P q) Hq) u Hu) as [Hu1 Hu2].
  apply x6_in_names_ports in Hu1.
  destruct (supports P u (cat_of prog i)) eqn:Es; [|reflexivity]. cbn [negb orb].
  destruct (C3' u Hu1 Es Hu2) as [H|[H1 (k & v & Hki & H2)]].
  - apply Nat.leb_le in H. rewrite H. reflexivity.
  - rewrite H1. apply x6_mem_entries_iff in H2. apply orb_true_iff. right. cbn [andb].
    apply existsb_exists. exists (k, v). split; auto. cbn [fst]. apply Nat.ltb_lt; auto. Qed.

Lemma x6_instr_of_prop i : i < length prog -> C06_instr_ok P prog d i = true.
Proof. intros Hi. destruct (Hprop i Hi) as (C1 & C2 & C3 & _).
  unfold C06_instr_ok. cbv zeta. fold (x6_startv i).
  destruct (x6_startv i) as [s|] eqn:Est.
  - apply x6_start_iff in Est.
    destruct (first_cycle d i) as [t0|] eqn:Ef.
    + pose proof (x6_first_cycle_lt _ _ Ef) as Hlt. apply x6_first_issued in Ef.
      assert (Hle : s <= t0).
      { destruct i as [|k]; cbn [next_from] in Est; [lia|].
        destruct (C2 t0 k Ef ltac:(lia)) as (tk & Htk & Hik).
        apply x6_issued_first in Hik. apply x6_issued_first in Est. congruence. }
      apply andb_true_iff. split; [apply andb_true_iff; split|].
      * apply Nat.leb_le; auto.
      * destruct Ef as [[u Hu] Hn]. pose proof Hu as Hpl. apply x6_shown_places in Hpl.
        destruct Hpl as [l Hpl]. unfold place_at.
        destruct (places (rec_at d t0) i) as [|[q lq] tl] eqn:E; [destruct Hpl|]. cbn [hd_error].
        assert (Hq : shown d t0 i q) by (apply (x6_places_shown t0 i q lq); rewrite E; left; auto).
        assert (Hiss : issued_at d i t0) by (split; eauto).
        destruct (C3 t0 q Hiss Hq) as (Hq1 & Hq2 & _).
        apply (proj2 (mem_str_In _ _)) in Hq1. rewrite Hq1, Hq2. cbn [andb].
        apply x6_first_of_prop; auto.
      * apply forallb_forall. intros t Ht. apply in_seq in Ht.
        apply (x6_held_of_prop i s t); auto; try lia.
        intros t' u Ht'. destruct Ef as [_ Hn]. apply Hn. lia.
    + apply forallb_forall. intros t Ht. apply in_seq in Ht.
      apply (x6_held_of_prop i s t); auto; try lia.
      intros t' u _. apply x6_first_none_shown; auto.
  - (* the predecessor was never issued: neither was i (clauses 1 and 2) *)
    destruct i as [|k]; cbn [x6_startv] in Est; [discriminate|].
    apply negb_true_iff. destruct (appears d (S k)) eqn:Ea; auto. exfalso.
    apply x6_appears_iff in Ea. destruct Ea as (t & u & Hs).
    destruct (C1 t u Hs) as (t0 & _ & Hiss).
    destruct (C2 t0 k Hiss ltac:(lia)) as (tk & _ & Hik).
    apply x6_issued_first in Hik. congruence. Qed.
End Complete.
End Reading.
End Diagram.

(* ---------- the two directions, each with exactly the side conditions it uses ---------- *)
Lemma C06_checker_sound_keys :
  forall (P : proc) (prog : list instr) (d : diagram), keys_ok d -> one_place d ->
    C06_checkb P prog d = true -> C06_prop P prog d.
Proof. intros P prog d Hk H1 Hc i Hi. split; [|split; [|split]].
  - eapply x6_r_shown_issued; eauto.
  - eapply x6_r_order; eauto.
  - eapply x6_r_first; eauto.
  - eapply x6_r_held; eauto. Qed.

Lemma C06_checker_complete_keys :
  forall (P : proc) (prog : list instr) (d : diagram), keys_ok d ->
    C06_prop P prog d -> C06_checkb P prog d = true.
Proof. intros P prog d Hk Hp. unfold C06_checkb. apply forallb_forall. intros i Hi. apply in_seq in Hi.
  apply x6_instr_of_prop; auto. lia. Qed.

Lemma C06_checker_sound_shape :
  forall (P : proc) (prog : list instr) (d : diagram), diagram_shape d -> one_place d ->
    C06_checkb P prog d = true -> C06_prop P prog d.
Proof. intros P prog d Hs. apply C06_checker_sound_keys. apply shape_keys; auto. Qed.

(* the direction that rules out false alarms needs the dict shape only *)
Lemma C06_checker_complete_shape :
  forall (P : proc) (prog : list instr) (d : diagram), diagram_shape d ->
    C06_prop P prog d -> C06_checkb P prog d = true.
Proof. intros P prog d Hs. apply C06_checker_complete_keys. apply shape_keys; auto. Qed.

Lemma C06_checker_exact_lemma :
  forall (P : proc) (prog : list instr) (d : diagram), diagram_shape d -> one_place d ->
    (C06_checkb P prog d = true <-> C06_prop P prog d).
Proof. intros P prog d Hs H1. split.
  - apply C06_checker_sound_shape; auto.
  - apply C06_checker_complete_shape; auto. Qed.

Print Assumptions C06_checker_sound_shape.
Print Assumptions C06_checker_complete_shape.
Print Assumptions C06_checker_exact_lemma.
