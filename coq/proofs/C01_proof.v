(* C01 (register hazards respected): the hazard order (C01_order.v, read off C02 and the queue
   invariant of HZ_inv.v) and the replay against sequential execution (C01_replay.v). *)
From PS Require Import Base Bag RegAccess Sim Diag.
From PS Require Export C01_order C01_replay.

Lemma C01_checker_accepts_lemma :
  forall (P : proc) (prog : list instr) (fuel : nat) (tg : dtag) (d : diagram),
    wf_procb P = true -> wf_progb prog = true -> sim_result fuel P prog tg d -> C01_checkb P prog tg d = true.
Proof. intros P prog fuel tg d Hwf Hwp Hsim. unfold C01_checkb.
  rewrite (C01_order_accepts_lemma P prog fuel tg d Hwf Hwp Hsim).
  rewrite (C01_replay_accepts_lemma P prog fuel tg d Hwf Hwp Hsim). reflexivity. Qed.

(* ---------- non-vacuity: a run with a RAW dependence, replayed ---------- *)
Open Scope string_scope.
Definition c1_in  := {| u_name := "in";  u_width := 2; u_caps := ["ALU"]; u_rl := true;  u_wl := false; u_mem := [] |}.
Definition c1_out := {| u_name := "out"; u_width := 1; u_caps := ["ALU"]; u_rl := false; u_wl := true;  u_mem := [] |}.
Definition c1_P := {| p_in := [c1_in]; p_out := [{| f_model := c1_out; f_preds := ["in"] |}]; p_inout := []; p_int := [] |}.
Definition c1_prog := [ {| i_srcs := ["R1"]; i_dst := "R2"; i_cat := "ALU" |};
                        {| i_srcs := ["R2"]; i_dst := "R2"; i_cat := "ALU" |} ].
Lemma C01_nonvacuous_lemma :
  exists d, wf_procb c1_P = true /\ wf_progb c1_prog = true /\ simulate 100 c1_P c1_prog = Done d /\
            In (WR, RD) (conflicts c1_prog 0 1) /\
            (exists t, acc_time c1_P d 1 RD = Some t) /\ C01_checkb c1_P c1_prog TDone d = true.
Proof. eexists. split; [vm_compute; reflexivity|]. split; [vm_compute; reflexivity|].
  split; [vm_compute; reflexivity|]. split; [vm_compute; auto|]. split; [eexists; vm_compute; reflexivity|].
  vm_compute. reflexivity. Qed.
