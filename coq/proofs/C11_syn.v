(* C11_syn.v -- the syntactic rejections of load_proc_desc (duplicate unit, bad width, bad edge, undefined
   unit, cycle), the absence of a syntactic defect once _create_graph and chk_cycles have succeeded, and
   the impossibility of the two "internal" failures of _make_processor (post_order cycle; AssertionError
   inside the guard acl_knownb). *)
From Coq Require Import Lia Permutation ZArith.
From PS Require Import Base Str Sim Graph Loader Diag LoaderSpec Lists C17_strord Graph_facts
  C12_lists C12_graph C12_desc C12_loader C12_proof LD_base LD_create LD_clean.

(* ====================================================================== *)
(* how add_units / add_edges fail                                          *)
(* ====================================================================== *)
Lemma add_units_err us : forall s e, add_units us s = inr e ->
  match e with
  | EDupUnit old new => first_dup (map d_name us) (gs_ureg s) = Some (old, new)
  | EBadWidth u w =>
      existsb (fun x => String.eqb (d_name x) u && (d_width x =? w)%Z && (w <=? 0)%Z) us = true
  | _ => False
  end.
Proof. induction us as [|u t IH]; intros s e; cbn [add_units map first_dup existsb]; [discriminate|].
  destruct (ic_find (d_name u) (gs_ureg s)) as [old|] eqn:Ef.
  - intros [= <-]. reflexivity.
  - destruct (d_width u <=? 0)%Z eqn:Ew.
    + intros [= <-]. rewrite String.eqb_refl, Z.eqb_refl, Ew. reflexivity.
    + destruct (load_caps (d_caps u) [] (gs_creg s)) as [caps creg']. intros H.
      apply IH in H. cbn [gs_ureg] in H. destruct e; auto. rewrite H. apply orb_true_r. Qed.

Lemma add_edges_err es ureg : forall g e, add_edges es ureg g = inr e ->
  match e with
  | EBadEdge x => existsb (fun y => list_eqb String.eqb y x && negb (length y =? 2)) es = true
  | EUndefUnit n => existsb (fun x => (length x =? 2) && mem_str n x) es = true /\ mem_ic n ureg = false
  | _ => False
  end.
Proof. induction es as [|x t IH]; intros g e; cbn [add_edges existsb]; [discriminate|].
  assert (Hbad : forall y : list string, (length y =? 2) = false -> inr (A := graph) (EBadEdge y) = inr e ->
            match e with
            | EBadEdge x0 => (list_eqb String.eqb y x0 && negb (length y =? 2)
                              || existsb (fun y0 => list_eqb String.eqb y0 x0 && negb (length y0 =? 2)) t) = true
            | EUndefUnit n => (((length y =? 2) && mem_str n y) || existsb (fun x0 => (length x0 =? 2) && mem_str n x0) t) = true
                              /\ mem_ic n ureg = false
            | _ => False
            end).
  { intros y Hy [= <-]. rewrite list_eqb_str_refl, Hy. reflexivity. }
  destruct x as [|a [|b [|c r]]]; try (apply Hbad; reflexivity).
  destruct (ic_find a ureg) as [a'|] eqn:Ea.
  - destruct (ic_find b ureg) as [b'|] eqn:Eb.
    + intros H. apply IH in H. destruct e; auto.
      * rewrite H. apply orb_true_r.
      * destruct H as [H1 H2]. rewrite H1. split; auto. apply orb_true_r.
    + intros [= <-]. split; [|apply ic_find_none; auto].
      cbn [length Nat.eqb andb]. unfold mem_str. cbn [existsb]. rewrite String.eqb_refl.
      rewrite orb_true_r. reflexivity.
  - intros [= <-]. split; [|apply ic_find_none; auto].
    cbn [length Nat.eqb andb]. unfold mem_str. cbn [existsb]. rewrite String.eqb_refl. reflexivity. Qed.

Lemma add_units_ureg d s : add_units (d_units d) init_gs = inl s -> gs_ureg s = d_names d.
Proof. intros H. apply add_units_inv in H. destruct H as [H _]. exact H. Qed.

(* ====================================================================== *)
(* no syntactic defect once the graph is created and acyclic               *)
(* ====================================================================== *)
Lemma created_has_cycle d g at_ creg : created d g at_ creg -> has_cycle d = negb (is_dag g).
Proof. intros C. unfold has_cycle. f_equal. f_equal. symmetry. exact (cr_graph _ _ _ _ C). Qed.

Lemma created_no_defect d g at_ creg : created d g at_ creg -> is_dag g = true -> syntactic_defect d = false.
Proof. intros C Hd. unfold syntactic_defect.
  rewrite (created_has_cycle _ _ _ _ C), Hd.
  assert (H1 : nodupb ic_eqb (d_names d) = true) by (apply nodupb_ic, (cr_names _ _ _ _ C)).
  rewrite H1. cbn [negb orb]. rewrite orb_false_r. apply orb_false_iff. split.
  - apply existsb_false_iff. intros u Hu. apply Z.leb_gt. apply (cr_width _ _ _ _ C); auto.
  - apply existsb_false_iff. intros e He. destruct (cr_edges _ _ _ _ C e He) as [a [b [-> [Ha Hb]]]].
    cbn [length Nat.eqb negb orb existsb]. rewrite Ha, Hb. reflexivity. Qed.

Lemma created_topo_no_defect d g at_ creg order :
  created d g at_ creg -> topo_sort g = Some order -> negb (syntactic_defect d) = true.
Proof. intros C Ht. rewrite (created_no_defect _ _ _ _ C); auto. unfold is_dag. rewrite Ht. auto. Qed.

(* the units alone (no connection): what ECycle additionally certifies *)
Lemma units_only_no_defect d s :
  add_units (d_units d) init_gs = inl s ->
  negb (syntactic_defect {| d_units := d_units d; d_edges := [] |}) = true.
Proof. intros Hu. set (d' := {| d_units := d_units d; d_edges := [] |}).
  assert (C : created d' (gs_g s) (gs_at s) (gs_creg s)) by (apply create_ok; auto).
  rewrite (created_no_defect _ _ _ _ C); auto.
  apply is_dag_acyclic; [apply (cr_gwf _ _ _ _ C)|].
  intros x Hx. assert (E : forall a b, ~ In b (succs (gs_g s) a)).
  { intros a b Hb. apply (cr_succs _ _ _ _ C) in Hb. exact Hb. }
  destruct Hx as [a b Hb|a b c Hb _]; apply (E _ _ Hb). Qed.

(* ====================================================================== *)
(* _make_processor cannot fail on the pruned graph                         *)
(* ====================================================================== *)
Lemma gpath_rev G g : (forall a b, In b (succs G a) -> In a (succs g b)) ->
  forall a b, gpath G a b -> gpath g b a.
Proof. intros H a b. induction 1.
  - apply gp_edge; auto.
  - eapply gpath_snoc; eauto. Qed.

Lemma make_processor_not_cycle g at_ creg :
  gwf g -> acyclic g -> make_processor g at_ creg <> LoadErr ECycle.
Proof. intros Hw Ha. rewrite make_processor_unfold.
  destruct (mk_units (g_nodes g) at_ creg) as [um|] eqn:Eu; [|discriminate].
  destruct (make_desc _ _ _ _) as [P|] eqn:Ed; [discriminate|]. intros _.
  apply make_desc_none, post_order_none_iff in Ed. destruct Ed as [x Hx].
  apply (Ha x). revert Hx. apply gpath_rev. intros a b Hb.
  apply norm_edge in Hb. destruct Hb as [f [Hf [Hn [Hp _]]]].
  apply in_map_iff in Hf. destruct Hf as [n [<- _]]. unfold fname in Hn. simpl in Hn.
  rewrite (mk_units_name _ _ _ _ Eu) in Hn. subst n. simpl in Hp. apply (gwf_sym g Hw); auto. Qed.

Lemma std_mem_some mem creg : (forall c, In c mem -> mem_ic c creg = true) -> std_mem mem creg <> None.
Proof. induction mem as [|c t IH]; intros H; cbn [std_mem]; [discriminate|].
  destruct (ic_find_mem c creg) as [s ->]; [apply H; left; auto|].
  destruct (std_mem t creg); [discriminate|]. exfalso. apply IH; auto. intros x Hx. apply H. right; auto. Qed.
Lemma mk_units_some ns at_ creg :
  (forall n c, In n ns -> In c (a_mem (attr_of at_ n)) -> mem_ic c creg = true) ->
  mk_units ns at_ creg <> None.
Proof. induction ns as [|n t IH]; intros H; cbn [mk_units]; [discriminate|].
  destruct (std_mem (a_mem (attr_of at_ n)) creg) eqn:E.
  - destruct (mk_units t at_ creg); [discriminate|]. exfalso. apply IH; auto. intros x c Hx. apply H. right; auto.
  - exfalso. revert E. apply std_mem_some. intros c Hc. apply (H n); auto. left; auto. Qed.
