(* C13_counterexample.v -- `C13_loader` and `C13_isa` as stated in props/C13.v (exact equality of the
   results) are FALSE of the model: three kinds of error carry the offending name AS WRITTEN
   (`EBadEdge e`, `EUndefUnit n`, `IsaUndefCap c`), and `recased` / the hypothesis of C13_isa allow that
   occurrence to differ in letter case. *)
From Coq Require Import ZArith.
From PS Require Import Base Str Sim Program Isa Loader TextSpec.
Open Scope string_scope.

Definition u0 : udesc :=
  {| d_name := "U"; d_width := 1%Z; d_caps := ["alu"]; d_rl := true; d_wl := true; d_mem := [] |}.

(* 1. a connection with one end only: BadEdgeError carries the raw edge *)
Definition d1  : desc := {| d_units := [u0]; d_edges := [["u"]] |}.
Definition d1' : desc := {| d_units := [u0]; d_edges := [["U"]] |}.
Lemma d1_recased : recased d1 d1'.
Proof. unfold recased, ci; simpl. repeat split; auto. Qed.
Lemma d1_res : load_proc_desc d1 = LoadErr (EBadEdge ["u"]) /\ load_proc_desc d1' = LoadErr (EBadEdge ["U"]).
Proof. split; vm_compute; reflexivity. Qed.
Lemma C13_loader_false_bad_edge : ~ (forall d d', recased d d' -> load_proc_desc d = load_proc_desc d').
Proof. intros H. specialize (H d1 d1' d1_recased). destruct d1_res as [E1 E2]. rewrite E1, E2 in H. discriminate. Qed.

(* 2. a connection naming an undefined unit: UndefElemError carries the name as written *)
Definition d2  : desc := {| d_units := [u0]; d_edges := [["U"; "x"]] |}.
Definition d2' : desc := {| d_units := [u0]; d_edges := [["U"; "X"]] |}.
Lemma d2_recased : recased d2 d2'.
Proof. unfold recased, ci; simpl. repeat split; auto. Qed.
Lemma d2_res : load_proc_desc d2 = LoadErr (EUndefUnit "x") /\ load_proc_desc d2' = LoadErr (EUndefUnit "X").
Proof. split; vm_compute; reflexivity. Qed.
Lemma C13_loader_false_undef_unit : ~ (forall d d', recased d d' -> load_proc_desc d = load_proc_desc d').
Proof. intros H. specialize (H d2 d2' d2_recased). destruct d2_res as [E1 E2]. rewrite E1, E2 in H. discriminate. Qed.

(* 3. an instruction whose capability is unknown: UndefElemError carries the capability as written *)
Definition sp  : list (string * string) := [("ADD", "alu")].
Definition sp' : list (string * string) := [("ADD", "ALU")].
Lemma sp_hyp : Forall2 (fun e e' => fst e = fst e' /\ ci (snd e) (snd e')) sp sp'.
Proof. repeat constructor. Qed.
Lemma sp_res : load_isa sp [] = IsaErr (IsaUndefCap "alu") /\ load_isa sp' [] = IsaErr (IsaUndefCap "ALU").
Proof. split; vm_compute; reflexivity. Qed.
Lemma C13_isa_false :
  ~ (forall spec spec' caps,
       Forall2 (fun e e' => fst e = fst e' /\ ci (snd e) (snd e')) spec spec' ->
       load_isa spec caps = load_isa spec' caps).
Proof. intros H. specialize (H sp sp' [] sp_hyp). destruct sp_res as [E1 E2]. rewrite E1, E2 in H. discriminate. Qed.
Print Assumptions C13_loader_false_bad_edge.
Print Assumptions C13_loader_false_undef_unit.
Print Assumptions C13_isa_false.
