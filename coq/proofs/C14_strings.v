(* C14_strings.v -- string lemmas about lstrip / rstrip / strip / split_ws1 / split_on_comma
   (model/Program.v) and the predicates all_ws / tokenb / opnd_shape / no_char (spec/TextSpec.v).
   Reusable (C13, C14). *)
From Coq Require Import Lia.
From PS Require Import Base Str Program TextSpec.
Open Scope string_scope.

Arguments is_ws : simpl never.

(* ---------- append ---------- *)
Lemma sapp_assoc a b c : (a ++ b) ++ c = a ++ b ++ c.
Proof. induction a as [|x a IH]; cbn [append]; congruence. Qed.
Lemma sapp_nil_r a : a ++ "" = a.
Proof. induction a as [|x a IH]; cbn [append]; congruence. Qed.
Lemma sapp_nil_l a : "" ++ a = a.
Proof. reflexivity. Qed.
Lemma sapp_cons c a b : String c a ++ b = String c (a ++ b).
Proof. reflexivity. Qed.
Lemma sapp_ne_r a b : b <> "" -> a ++ b <> "".
Proof. destruct a; cbn [append]; auto. discriminate. Qed.
Lemma sapp_ne_l a b : a <> "" -> a ++ b <> "".
Proof. destruct a; cbn [append]; auto. discriminate. Qed.
Lemma sapp_length a b : String.length (a ++ b) = String.length a + String.length b.
Proof. induction a as [|x a IH]; cbn [append String.length plus]; auto. Qed.

(* ---------- whitespace-only strings ---------- *)
Fixpoint wsb (s : string) : bool :=
  match s with EmptyString => true | String c t => is_ws c && wsb t end.

Lemma all_ws_wsb s : all_ws s = wsb s.
Proof. unfold all_ws. induction s as [|c t IH]; cbn [lstrip wsb]; [reflexivity|].
  destruct (is_ws c); cbn [andb]; [exact IH|reflexivity]. Qed.
Lemma all_ws_true s : all_ws s = true <-> wsb s = true.
Proof. rewrite all_ws_wsb. tauto. Qed.
(* "every character satisfies is_ws" *)
Lemma wsb_no_char s : wsb s = no_char (fun c => negb (is_ws c)) s.
Proof. induction s as [|c t IH]; cbn [wsb no_char]; [reflexivity|]. rewrite negb_involutive, IH. reflexivity. Qed.
Lemma wsb_app a b : wsb (a ++ b) = wsb a && wsb b.
Proof. induction a as [|x a IH]; cbn [append wsb]; [reflexivity|]. rewrite IH, andb_assoc. reflexivity. Qed.
Lemma wsb_app_true a b : wsb a = true -> wsb b = true -> wsb (a ++ b) = true.
Proof. intros Ha Hb. rewrite wsb_app, Ha, Hb. reflexivity. Qed.

Lemma is_ws_comma : is_ws ","%char = false.
Proof. vm_compute. reflexivity. Qed.
Lemma comma_not_ws c : Ascii.eqb c ","%char = true -> is_ws c = false.
Proof. intros H. apply Ascii.eqb_eq in H. subst. exact is_ws_comma. Qed.
Lemma ws_not_comma c : is_ws c = true -> Ascii.eqb c ","%char = false.
Proof. intros H. destruct (Ascii.eqb c ","%char) eqn:E; auto. apply comma_not_ws in E. congruence. Qed.

(* ---------- no_char ---------- *)
Definition nocomma (s : string) : bool := no_char (fun c => Ascii.eqb c ","%char) s.
Definition nows (s : string) : bool := no_char is_ws s.

Lemma no_char_weaken (p q : ascii -> bool) s :
  (forall c, q c = true -> p c = true) -> no_char p s = true -> no_char q s = true.
Proof. intros Hpq. induction s as [|c t IH]; cbn [no_char]; auto.
  intros H. apply andb_true_iff in H. destruct H as [H1 H2]. rewrite (IH H2), andb_true_r.
  destruct (q c) eqn:E; auto. rewrite (Hpq _ E) in H1. discriminate. Qed.
Lemma no_char_app p a b : no_char p (a ++ b) = no_char p a && no_char p b.
Proof. induction a as [|x a IH]; cbn [append no_char]; [reflexivity|]. rewrite IH, andb_assoc. reflexivity. Qed.
Lemma nocomma_app a b : nocomma (a ++ b) = nocomma a && nocomma b.
Proof. apply no_char_app. Qed.
Lemma wsb_nocomma w : wsb w = true -> nocomma w = true.
Proof. unfold nocomma. induction w as [|c t IH]; cbn [wsb no_char]; auto.
  intros H. apply andb_true_iff in H. destruct H as [H1 H2]. rewrite (ws_not_comma _ H1), (IH H2). reflexivity. Qed.

(* ---------- lstrip ---------- *)
Definition starts_nonws (s : string) : bool :=
  match s with EmptyString => false | String c _ => negb (is_ws c) end.
Fixpoint ends_nonws (s : string) : bool :=
  match s with
  | EmptyString => false
  | String c EmptyString => negb (is_ws c)
  | String c t => ends_nonws t
  end.

Lemma lstrip_ws w : wsb w = true -> lstrip w = "".
Proof. induction w as [|c t IH]; cbn [wsb lstrip]; auto.
  intros H. apply andb_true_iff in H. destruct H as [H1 H2]. rewrite H1. auto. Qed.
Lemma lstrip_ws_app w s : wsb w = true -> lstrip (w ++ s) = lstrip s.
Proof. induction w as [|c t IH]; cbn [wsb lstrip append]; auto.
  intros H. apply andb_true_iff in H. destruct H as [H1 H2]. rewrite H1. auto. Qed.
Lemma lstrip_cons_nonws c t : is_ws c = false -> lstrip (String c t) = String c t.
Proof. intros H. cbn [lstrip]. rewrite H. reflexivity. Qed.
Lemma lstrip_cons_ws c t : is_ws c = true -> lstrip (String c t) = lstrip t.
Proof. intros H. cbn [lstrip]. rewrite H. reflexivity. Qed.
Lemma lstrip_starts s : starts_nonws s = true -> lstrip s = s.
Proof. destruct s as [|c t]; cbn [starts_nonws]; [discriminate|].
  intros H. apply negb_true_iff in H. apply lstrip_cons_nonws; auto. Qed.
Lemma lstrip_id s : s = "" \/ starts_nonws s = true -> lstrip s = s.
Proof. intros [->|H]; [reflexivity|apply lstrip_starts; auto]. Qed.
Lemma lstrip_app_starts s r : starts_nonws s = true -> lstrip (s ++ r) = s ++ r.
Proof. destruct s as [|c t]; cbn [starts_nonws append]; [discriminate|].
  intros H. apply negb_true_iff in H. apply lstrip_cons_nonws; auto. Qed.
Lemma nows_lstrip s : nows s = true -> lstrip s = s.
Proof. destruct s as [|c t]; auto. unfold nows. cbn [no_char]. intros H.
  apply andb_true_iff in H. destruct H as [H _]. apply negb_true_iff in H. apply lstrip_cons_nonws; auto. Qed.
Lemma lstrip_length s : String.length (lstrip s) <= String.length s.
Proof. induction s as [|c t IH]; cbn [lstrip String.length]; auto.
  destruct (is_ws c); cbn [String.length]; lia. Qed.
Lemma lstrip_all_ws s : lstrip s = "" -> wsb s = true.
Proof. induction s as [|c t IH]; cbn [lstrip wsb]; auto.
  destruct (is_ws c); cbn [andb]; auto. discriminate. Qed.

(* ---------- rstrip ---------- *)
Lemma rstrip_cons_ne c t : rstrip t <> "" -> rstrip (String c t) = String c (rstrip t).
Proof. intros H. cbn [rstrip]. destruct (rstrip t); [congruence|reflexivity]. Qed.
Lemma rstrip_cons_nonws c t : is_ws c = false -> rstrip (String c t) = String c (rstrip t).
Proof. intros H. cbn [rstrip]. destruct (rstrip t); [rewrite H|]; reflexivity. Qed.
Lemma rstrip_cons_nonws_ne c t : is_ws c = false -> rstrip (String c t) <> "".
Proof. intros H. rewrite rstrip_cons_nonws by auto. discriminate. Qed.
Lemma rstrip_ws w : wsb w = true -> rstrip w = "".
Proof. induction w as [|c t IH]; cbn [wsb rstrip]; auto.
  intros H. apply andb_true_iff in H. destruct H as [H1 H2]. rewrite (IH H2), H1. reflexivity. Qed.
Lemma rstrip_nil_ws s : rstrip s = "" -> wsb s = true.
Proof. induction s as [|c t IH]; cbn [wsb rstrip]; auto.
  destruct (rstrip t); [|discriminate]. destruct (is_ws c); [|discriminate]. intros _. rewrite IH; auto. Qed.
Lemma rstrip_app_keep a b : rstrip b <> "" -> rstrip (a ++ b) = a ++ rstrip b.
Proof. intros H. induction a as [|c a IH]; cbn [append]; auto.
  rewrite rstrip_cons_ne; rewrite IH; auto. apply sapp_ne_r; auto. Qed.
Lemma rstrip_app_ws s w : wsb w = true -> rstrip (s ++ w) = rstrip s.
Proof. intros H. induction s as [|c t IH]; cbn [append].
  - rewrite rstrip_ws; auto.
  - cbn [rstrip]. rewrite IH. reflexivity. Qed.
Lemma rstrip_ends s : ends_nonws s = true -> rstrip s = s.
Proof. induction s as [|c t IH]; [discriminate|].
  destruct t as [|d t'].
  - cbn [ends_nonws rstrip]. intros H. apply negb_true_iff in H. rewrite H. reflexivity.
  - intros H. change (ends_nonws (String d t') = true) in H. rewrite rstrip_cons_ne; rewrite (IH H); auto; discriminate. Qed.
Lemma nows_rstrip s : nows s = true -> rstrip s = s.
Proof. unfold nows. induction s as [|c t IH]; auto. cbn [no_char]. intros H.
  apply andb_true_iff in H. destruct H as [H1 H2]. apply negb_true_iff in H1.
  rewrite rstrip_cons_nonws by auto. rewrite IH; auto. Qed.
Lemma rstrip_length s : String.length (rstrip s) <= String.length s.
Proof. induction s as [|c t IH]; cbn [rstrip String.length]; auto.
  destruct (rstrip t); [destruct (is_ws c)|]; cbn [String.length] in *; lia. Qed.
Lemma ends_nonws_app a b : ends_nonws b = true -> ends_nonws (a ++ b) = true.
Proof. intros H. induction a as [|c a IH]; cbn [append]; auto.
  destruct (a ++ b) eqn:E; [destruct a; destruct b; cbn in *; discriminate|].
  cbn [ends_nonws]. exact IH. Qed.

(* ---------- strip ---------- *)
Lemma strip_ws w : wsb w = true -> strip w = "".
Proof. intros H. unfold strip. rewrite lstrip_ws; auto. Qed.
Lemma strip_length s : String.length (strip s) <= String.length s.
Proof. unfold strip. pose proof (rstrip_length (lstrip s)). pose proof (lstrip_length s). lia. Qed.
(* a fixed point of strip has no blank at either end *)
Lemma strip_fix_parts s : strip s = s -> lstrip s = s /\ rstrip s = s.
Proof. intros H. destruct s as [|c t]; [auto|].
  destruct (is_ws c) eqn:E.
  - exfalso. unfold strip in H. rewrite lstrip_cons_ws in H by auto.
    pose proof (rstrip_length (lstrip t)). pose proof (lstrip_length t).
    rewrite H in *. cbn [String.length] in *. lia.
  - unfold strip in H. rewrite lstrip_cons_nonws in * by auto. auto. Qed.
Lemma strip_fix_starts s : strip s = s -> s = "" \/ starts_nonws s = true.
Proof. intros H. destruct s as [|c t]; [auto|right]. cbn [starts_nonws].
  destruct (is_ws c) eqn:E; auto. exfalso.
  unfold strip in H. rewrite lstrip_cons_ws in H by auto.
  pose proof (rstrip_length (lstrip t)). pose proof (lstrip_length t).
  rewrite H in *. cbn [String.length] in *. lia. Qed.
(* strip (b ++ op ++ a) = op for blanks b, a and a strip-fixed op *)
Lemma strip_pad b op a : wsb b = true -> wsb a = true -> strip op = op -> strip (b ++ op ++ a) = op.
Proof. intros Hb Ha Hop. destruct (strip_fix_parts _ Hop) as [HL HR].
  unfold strip. rewrite lstrip_ws_app by auto.
  destruct op as [|c t].
  - cbn [append]. rewrite lstrip_ws; auto.
  - destruct (strip_fix_starts _ Hop) as [H|H]; [discriminate|].
    rewrite lstrip_app_starts by auto. rewrite rstrip_app_ws by auto. exact HR. Qed.
Lemma strip_pad_l b op : wsb b = true -> strip op = op -> strip (b ++ op) = op.
Proof. intros Hb Hop. rewrite <- (sapp_nil_r op) at 1. apply strip_pad; auto. Qed.
Lemma strip_pad_r op a : wsb a = true -> strip op = op -> strip (op ++ a) = op.
Proof. intros Ha Hop. apply (strip_pad "" op a); auto. Qed.
Lemma strip_ends s : starts_nonws s = true -> ends_nonws s = true -> strip s = s.
Proof. intros H1 H2. unfold strip. rewrite lstrip_starts by auto. apply rstrip_ends; auto. Qed.
(* strip (lead ++ body ++ trail) = body *)
Lemma strip_body lead body trail :
  wsb lead = true -> wsb trail = true -> starts_nonws body = true -> ends_nonws body = true ->
  strip (lead ++ body ++ trail) = body.
Proof. intros. apply strip_pad; auto. apply strip_ends; auto. Qed.
Lemma nows_strip s : nows s = true -> strip s = s.
Proof. intros H. unfold strip. rewrite nows_lstrip by auto. apply nows_rstrip; auto. Qed.
(* lines with equal strip: strip is idempotent *)
Lemma rstrip_idem s : rstrip (rstrip s) = rstrip s.
Proof. induction s as [|c t IH]; auto. cbn [rstrip].
  destruct (rstrip t) as [|d t'] eqn:E.
  - destruct (is_ws c) eqn:Ec; auto. cbn [rstrip]. rewrite Ec. reflexivity.
  - rewrite rstrip_cons_ne; rewrite IH; auto; discriminate. Qed.

(* ---------- tokens and operand shapes ---------- *)
Lemma tokenb_inv s : tokenb s = true -> s <> "" /\ nows s = true /\ nocomma s = true.
Proof. unfold tokenb. intros H. apply andb_true_iff in H. destruct H as [H1 H2]. split; [|split].
  - intros ->. discriminate.
  - unfold nows. eapply no_char_weaken; [|exact H2]. intros c Hc. cbn beta. rewrite Hc. reflexivity.
  - unfold nocomma. eapply no_char_weaken; [|exact H2]. intros c Hc. cbn beta. rewrite Hc. apply orb_true_r. Qed.
Lemma token_strip s : tokenb s = true -> strip s = s.
Proof. intros H. apply tokenb_inv in H. apply nows_strip. tauto. Qed.
Lemma nows_starts s : nows s = true -> s <> "" -> starts_nonws s = true.
Proof. destruct s as [|c t]; [congruence|]. unfold nows. cbn [no_char starts_nonws].
  intros H _. apply andb_true_iff in H. tauto. Qed.
Lemma token_starts s : tokenb s = true -> starts_nonws s = true.
Proof. intros H. apply tokenb_inv in H. apply nows_starts; tauto. Qed.
Lemma opnd_shape_inv s : opnd_shape s = true -> nocomma s = true /\ strip s = s.
Proof. unfold opnd_shape. intros H. apply andb_true_iff in H. destruct H as [H1 H2].
  apply String.eqb_eq in H2. auto. Qed.
Lemma token_opnd_shape s : tokenb s = true -> opnd_shape s = true.
Proof. intros H. unfold opnd_shape. rewrite (token_strip _ H), String.eqb_refl.
  apply tokenb_inv in H. destruct H as [_ [_ H]]. unfold nocomma in H. rewrite H. reflexivity. Qed.

(* ---------- split_ws1 ---------- *)
Lemma split_ws1_nows s : nows s = true -> split_ws1 s = (s, None).
Proof. unfold nows. induction s as [|c t IH]; cbn [no_char split_ws1]; auto.
  intros H. apply andb_true_iff in H. destruct H as [H1 H2]. apply negb_true_iff in H1.
  rewrite H1, (IH H2). reflexivity. Qed.
Lemma split_ws1_app_ws tok c r : nows tok = true -> is_ws c = true ->
  split_ws1 (tok ++ String c r) = (tok, Some (lstrip r)).
Proof. unfold nows. intros Ht Hc. induction tok as [|x tok IH]; cbn [append split_ws1].
  - rewrite Hc. reflexivity.
  - cbn [no_char] in Ht. apply andb_true_iff in Ht. destruct Ht as [H1 H2]. apply negb_true_iff in H1.
    rewrite H1, (IH H2). reflexivity. Qed.
(* split_ws1 (tok ++ w ++ rest) for a blank-free tok and a non-empty blank run w *)
Lemma split_ws1_tok tok w rest : nows tok = true -> wsb w = true -> w <> "" ->
  split_ws1 (tok ++ w ++ rest) = (tok, Some (lstrip (w ++ rest))).
Proof. intros Ht Hw Hne. destruct w as [|c w']; [congruence|].
  cbn [wsb] in Hw. apply andb_true_iff in Hw. destruct Hw as [Hc Hw].
  cbn [append]. rewrite split_ws1_app_ws by auto. rewrite lstrip_cons_ws by auto. reflexivity. Qed.
Lemma split_ws1_tok' tok w rest : nows tok = true -> wsb w = true -> w <> "" ->
  split_ws1 (tok ++ w ++ rest) = (tok, Some (lstrip rest)).
Proof. intros. rewrite split_ws1_tok by auto. rewrite lstrip_ws_app by auto. reflexivity. Qed.

(* ---------- split_on_comma ---------- *)
Lemma split_on_comma_nonnil s : split_on_comma s <> [].
Proof. destruct s as [|c t]; cbn [split_on_comma]; [discriminate|].
  destruct (split_on_comma t); [discriminate|]. destruct (Ascii.eqb c ","%char); discriminate. Qed.
Lemma split_nocomma p : nocomma p = true -> split_on_comma p = [p].
Proof. unfold nocomma. induction p as [|c t IH]; cbn [no_char split_on_comma]; auto.
  intros H. apply andb_true_iff in H. destruct H as [H1 H2]. apply negb_true_iff in H1.
  rewrite (IH H2), H1. reflexivity. Qed.
Lemma split_cons_comma s : split_on_comma (String ","%char s) = "" :: split_on_comma s.
Proof. cbn [split_on_comma]. pose proof (split_on_comma_nonnil s). destruct (split_on_comma s); [congruence|].
  rewrite Ascii.eqb_refl. reflexivity. Qed.
Lemma split_comma_app p s : nocomma p = true ->
  split_on_comma (p ++ String ","%char s) = p :: split_on_comma s.
Proof. unfold nocomma. induction p as [|c t IH]; cbn [no_char append].
  - intros _. apply split_cons_comma.
  - intros H. apply andb_true_iff in H. destruct H as [H1 H2]. apply negb_true_iff in H1.
    cbn [split_on_comma]. rewrite (IH H2), H1. reflexivity. Qed.
(* p0 ++ "," ++ p1 ++ "," ++ ... ++ pn  splits into its comma-free pieces *)
Fixpoint join_comma (ps : list string) : string :=
  match ps with
  | [] => ""
  | [p] => p
  | p :: t => p ++ String ","%char (join_comma t)
  end.
Lemma split_join ps : ps <> [] -> Forall (fun p => nocomma p = true) ps -> split_on_comma (join_comma ps) = ps.
Proof. induction ps as [|p t IH]; [congruence|]. intros _ H. inversion H as [|? ? Hp Ht]; subst.
  destruct t as [|q t'].
  - cbn [join_comma]. apply split_nocomma; auto.
  - change (join_comma (p :: q :: t')) with (p ++ String ","%char (join_comma (q :: t'))).
    rewrite split_comma_app by auto. rewrite IH; auto. discriminate. Qed.
(* leading blanks of the whole operand text only affect the first piece, which is stripped anyway *)
Lemma split_lstrip s : map strip (split_on_comma (lstrip s)) = map strip (split_on_comma s).
Proof. induction s as [|c t IH]; auto. cbn [lstrip]. destruct (is_ws c) eqn:E; auto.
  rewrite IH. cbn [split_on_comma]. pose proof (split_on_comma_nonnil t).
  destruct (split_on_comma t) as [|h r]; [congruence|]. rewrite (ws_not_comma _ E).
  cbn [map]. f_equal. unfold strip. rewrite lstrip_cons_ws by auto. reflexivity. Qed.
