(* LD_clean.v -- clean_struct computes, for every unit, the capabilities fed to it by some input port
   (the inductive predicate `fed`), and keeps exactly the connections along which a capability flows;
   rm_empty_units keeps the subgraph induced by the units with a capability left. *)
From Coq Require Import Lia Permutation.
From PS Require Import Base Str Sim Graph Loader Lists Graph_facts LD_base.

(* ====================================================================== *)
(* induced subgraphs                                                       *)
(* ====================================================================== *)
Definition induced (g g' : graph) (K : string -> Prop) : Prop :=
  gwf g' /\ (forall x, In x (g_nodes g') <-> In x (g_nodes g) /\ K x) /\
  (forall x y, In y (succs g' x) <-> In y (succs g x) /\ K x /\ K y).

Lemma induced_refl g : gwf g -> induced g g (fun _ => True).
Proof. intros H. split; auto. split; intros; tauto. Qed.
Lemma induced_ext g g' (K K' : string -> Prop) : (forall x, K x <-> K' x) -> induced g g' K -> induced g g' K'.
Proof. intros E [H1 [H2 H3]]. split; auto. split.
  - intros x. rewrite H2, E. tauto.
  - intros x y. rewrite H3, !E. tauto. Qed.
Lemma induced_ext_nodes g g' (K K' : string -> Prop) : gwf g ->
  (forall x, In x (g_nodes g) -> (K x <-> K' x)) -> induced g g' K -> induced g g' K'.
Proof. intros H E [H1 [H2 H3]]. split; auto. split.
  - intros x. rewrite H2. split; intros [J1 J2]; split; auto; apply (E x J1); auto.
  - intros x y. rewrite H3. split; intros [J1 [J2 J3]]; apply (gwf_in g H) in J1 as J4; destruct J4 as [J4 J5];
      (split; [auto|split; [apply (E x J4)|apply (E y J5)]; auto]). Qed.
Lemma induced_trans g g' g'' K K' : induced g g' K -> induced g' g'' K' -> induced g g'' (fun x => K x /\ K' x).
Proof. intros [H1 [H2 H3]] [J1 [J2 J3]]. split; auto. split.
  - intros x. rewrite J2, H2. tauto.
  - intros x y. rewrite J3, H3. tauto. Qed.
Lemma induced_remove_node g n : gwf g -> induced g (remove_node g n) (fun x => x <> n).
Proof. intros H. split; [apply gwf_remove_node; auto|]. split.
  - intros x. apply remove_node_nodes.
  - intros x y. apply remove_node_succs. Qed.
Lemma induced_fold_remove l : forall g, gwf g -> induced g (fold_left remove_node l g) (fun x => ~ In x l).
Proof. induction l as [|n t IH]; intros g H; simpl.
  - eapply induced_ext; [|apply induced_refl; auto]. intros x; simpl; tauto.
  - eapply induced_ext; [|eapply induced_trans; [apply (induced_remove_node g n H)|apply IH, gwf_remove_node, H]].
    intros x; simpl. split; [intros [H1 H2] [H3|H3]; auto|intros H1; split; auto]. Qed.
Lemma induced_preds g g' K : gwf g -> induced g g' K ->
  forall x y, In y (preds g' x) <-> In y (preds g x) /\ K x /\ K y.
Proof. intros H [H1 [H2 H3]] x y. rewrite <- (gwf_sym g' H1), H3, (gwf_sym g H). tauto. Qed.
Lemma induced_acyclic g g' K : induced g g' K -> acyclic g -> acyclic g'.
Proof. intros [H1 [H2 H3]]. apply acyclic_sub. intros a b Hb. apply H3 in Hb. tauto. Qed.
Lemma induced_gwf g g' K : induced g g' K -> gwf g'.
Proof. intros H; apply H. Qed.
Lemma induced_nodes_len g g' K : gwf g -> induced g g' K -> length (g_nodes g') <= length (g_nodes g).
Proof. intros H [H1 [H2 H3]]. apply NoDup_incl_length; [apply H1|]. intros x Hx. apply H2 in Hx. tauto. Qed.

(* ====================================================================== *)
(* inter / union                                                           *)
(* ====================================================================== *)
Lemma inter_In a b x : In x (inter a b) <-> In x a /\ In x b.
Proof. unfold inter. rewrite filter_In, mem_str_In. tauto. Qed.
Lemma union_In a b x : In x (union a b) <-> In x a \/ In x b.
Proof. unfold union. rewrite in_app_iff, filter_In, negb_true_iff, mem_str_false.
  destruct (in_dec_str x a); tauto. Qed.
Lemma inter_NoDup a b : NoDup a -> NoDup (inter a b).
Proof. apply NoDup_filter. Qed.
Lemma union_NoDup a b : NoDup a -> NoDup b -> NoDup (union a b).
Proof. intros Ha Hb. unfold union. apply NoDup_app_intro; auto.
  - apply NoDup_filter; auto.
  - intros x Hx Hc. apply filter_In in Hc. destruct Hc as [_ Hc]. apply negb_true_iff, mem_str_false in Hc. tauto. Qed.
Lemma inter_nil_iff a b : inter a b = [] <-> forall x, In x a -> ~ In x b.
Proof. unfold inter. rewrite filter_nil_iff. split; intros H x Hx; specialize (H x Hx); apply mem_str_false; auto. Qed.
Lemma inter_nonnil a b : inter a b <> [] <-> exists x, In x a /\ In x b.
Proof. split.
  - intros H. apply nonnil_in in H. destruct H as [x Hx]. apply inter_In in Hx. eauto.
  - intros [x [H1 H2]] E. rewrite inter_nil_iff in E. apply (E x); auto. Qed.

(* ====================================================================== *)
(* attributes                                                              *)
(* ====================================================================== *)
Definition same_fixed (a b : uattr) : Prop :=
  a_width a = a_width b /\ a_rl a = a_rl b /\ a_wl a = a_wl b /\ a_mem a = a_mem b.
Lemma same_fixed_refl a : same_fixed a a.
Proof. repeat split. Qed.
Lemma same_fixed_trans a b c : same_fixed a b -> same_fixed b c -> same_fixed a c.
Proof. unfold same_fixed. intuition congruence. Qed.
Lemma attr_of_set_caps at_ n c x :
  attr_of (set_caps at_ n c) x =
  if String.eqb x n then {| a_width := a_width (attr_of at_ n); a_caps := c; a_rl := a_rl (attr_of at_ n);
                            a_wl := a_wl (attr_of at_ n); a_mem := a_mem (attr_of at_ n) |}
  else attr_of at_ x.
Proof. unfold set_caps, attr_of. apply assoc_set. Qed.
Lemma caps_of_set_caps at_ n c x : caps_of (set_caps at_ n c) x = if String.eqb x n then c else caps_of at_ x.
Proof. unfold caps_of. rewrite attr_of_set_caps. destruct (String.eqb x n); auto. Qed.

(* ====================================================================== *)
(* clean_unit                                                              *)
(* ====================================================================== *)
Definition cu_step (at_ : attrs) (n : string) (mine : list string)
  : graph * list string -> string -> graph * list string :=
  fun '(g, acc) p =>
  let common := inter mine (caps_of at_ p) in
  match common with
  | [] => (remove_edge g p n, acc)
  | _ => (g, union acc common)
  end.
Lemma clean_unit_unfold g at_ n :
  clean_unit (g, at_) n =
  match preds g n with
  | [] => (g, at_)
  | ps => let '(g', new) := fold_left (cu_step at_ n (caps_of at_ n)) ps (g, []) in (g', set_caps at_ n new)
  end.
Proof. reflexivity. Qed.

Lemma cu_fold at_ n mine ps : forall g acc g' acc',
  gwf g -> In n (g_nodes g) -> incl ps (g_nodes g) -> NoDup mine -> NoDup acc -> incl acc mine ->
  fold_left (cu_step at_ n mine) ps (g, acc) = (g', acc') ->
  gwf g' /\ g_nodes g' = g_nodes g /\
  (forall x, x <> n -> preds g' x = preds g x) /\
  (forall y, In y (preds g' n) <-> In y (preds g n) /\ ~ (In y ps /\ inter mine (caps_of at_ y) = [])) /\
  (forall c, In c acc' <-> In c acc \/ exists p, In p ps /\ In c mine /\ In c (caps_of at_ p)) /\
  NoDup acc' /\ incl acc' mine.
Proof. induction ps as [|p t IH]; intros g acc g' acc' H Hn Hps Hm Ha Hi; cbn [fold_left].
  - intros [= <- <-]. split; auto. split; auto. split; auto. split; [intros y; simpl; tauto|].
    split; [intros c; split; [auto|intros [?|[p [[] _]]]; auto]|]. split; auto.
  - unfold cu_step at 2. destruct (inter mine (caps_of at_ p)) as [|c0 cm] eqn:E.
    + intros Hf. apply IH in Hf; auto.
      * destruct Hf as [I1 [I2 [I3 [I4 [I5 [I6 I7]]]]]]. split; auto. split; auto.
        split; [intros x Hx; rewrite I3 by auto; rewrite remove_edge_preds_eq;
                destruct (String.eqb_spec x n); [congruence|auto]|].
        split.
        -- intros y. rewrite I4, remove_edge_preds. simpl. split.
           ++ intros [[H1 H2] H3]. split; auto. intros [[<-|H4] H5]; [apply H2; auto|apply H3; auto].
           ++ intros [H1 H2]. split; [split; auto|].
              ** intros [_ <-]. apply H2. split; auto.
              ** intros [H3 H4]. apply H2; auto.
        -- split; auto. intros c. rewrite I5. split.
           ++ intros [H1|[q [H1 H2]]]; auto. right. exists q. simpl. tauto.
           ++ intros [H1|[q [[<-|H1] [H2 H3]]]]; auto.
              ** exfalso. rewrite inter_nil_iff in E. apply (E c); auto.
              ** right. exists q. auto.
      * apply gwf_remove_edge; auto. apply Hps. left; auto.
      * intros x Hx. apply Hps. right; auto.
    + rewrite <- E. intros Hf. apply IH in Hf; auto.
      * destruct Hf as [I1 [I2 [I3 [I4 [I5 [I6 I7]]]]]]. split; auto. split; auto. split; auto. split.
        -- intros y. rewrite I4. split.
           ++ intros [H1 H2]. split; auto. intros [[<-|H3] H4]; [rewrite H4 in E; discriminate|apply H2; auto].
           ++ intros [H1 H2]. split; auto. intros [H3 H4]. apply H2. split; auto. right; auto.
        -- split; auto. intros c. rewrite I5, union_In, inter_In. split.
           ++ intros [[H1|[H1 H2]]|[q [H1 H2]]]; auto.
              ** right. exists p. simpl. auto.
              ** right. exists q. simpl. tauto.
           ++ intros [H1|[q [[<-|H1] [H2 H3]]]]; auto. right. exists q. auto.
      * intros x Hx. apply Hps. right; auto.
      * apply union_NoDup; auto. apply inter_NoDup; auto.
      * intros x Hx. apply union_In in Hx. destruct Hx as [Hx|Hx]; auto. apply inter_In in Hx. tauto. Qed.

Lemma clean_unit_spec g at_ n g' at' : gwf g -> In n (g_nodes g) -> NoDup (caps_of at_ n) ->
  clean_unit (g, at_) n = (g', at') ->
  gwf g' /\ g_nodes g' = g_nodes g /\
  (forall x, x <> n -> preds g' x = preds g x) /\
  (forall y, In y (preds g' n) <-> In y (preds g n) /\ inter (caps_of at_ n) (caps_of at_ y) <> []) /\
  (forall x, x <> n -> attr_of at' x = attr_of at_ x) /\
  same_fixed (attr_of at' n) (attr_of at_ n) /\
  NoDup (caps_of at' n) /\
  (preds g n = [] -> caps_of at' n = caps_of at_ n) /\
  (preds g n <> [] -> forall c, In c (caps_of at' n) <->
                                In c (caps_of at_ n) /\ exists p, In p (preds g n) /\ In c (caps_of at_ p)).
Proof. intros H Hn Hnd. rewrite clean_unit_unfold. destruct (preds g n) as [|p0 ps] eqn:Ep.
  - intros [= <- <-]. split; auto. split; auto. split; auto. split; [intros y; rewrite Ep; simpl; tauto|].
    split; auto. split; [apply same_fixed_refl|]. split; auto. split; auto. intros F; congruence.
  - rewrite <- Ep. destruct (fold_left _ _ _) as [g1 new] eqn:Ef. intros [= <- <-].
    apply cu_fold in Ef; auto.
    + destruct Ef as [I1 [I2 [I3 [I4 [I5 [I6 I7]]]]]]. split; auto. split; auto. split; auto. split.
      { intros y. rewrite I4. split; intros [H1 H2]; split; auto. intros [_ H3]. auto. }
      split. { intros x Hx. rewrite attr_of_set_caps. destruct (String.eqb_spec x n); [congruence|auto]. }
      split. { rewrite attr_of_set_caps, String.eqb_refl. repeat split. }
      split. { rewrite caps_of_set_caps, String.eqb_refl. auto. }
      split. { intros E. rewrite E in Ep. discriminate. }
      intros _ c. rewrite caps_of_set_caps, String.eqb_refl, I5. simpl. split.
      * intros [[]|[p [H1 [H2 H3]]]]. eauto.
      * intros [H1 [p [H2 H3]]]. right. eauto.
    + intros x Hx. apply (gwf_preds_in g H x n Hx).
    + constructor.
    + intros x []. Qed.

(* ====================================================================== *)
(* clean_struct                                                            *)
(* ====================================================================== *)
(* c is fed to n: some node without predecessor declaring c reaches n along nodes that all declare c *)
Inductive fed (g : graph) (at_ : attrs) (c : string) : string -> Prop :=
| fed_src n : In n (g_nodes g) -> preds g n = [] -> In c (caps_of at_ n) -> fed g at_ c n
| fed_step p n : fed g at_ c p -> In p (preds g n) -> In c (caps_of at_ n) -> fed g at_ c n.

Lemma fed_declares g at_ c n : fed g at_ c n -> In c (caps_of at_ n).
Proof. destruct 1; auto. Qed.
Lemma fed_node g at_ c n : gwf g -> fed g at_ c n -> In n (g_nodes g).
Proof. intros H. destruct 1; auto. apply (gwf_preds_in g H p n); auto. Qed.

Section CleanStruct.
  Variables (g0 : graph) (at0 : attrs).
  Hypothesis Hwf : gwf g0.
  Hypothesis Hnd0 : forall n, NoDup (caps_of at0 n).

  Definition cinv (done : list string) (st : graph * attrs) : Prop :=
    let '(g, at_) := st in
    gwf g /\ g_nodes g = g_nodes g0 /\
    (forall n, ~ In n done -> attr_of at_ n = attr_of at0 n /\ preds g n = preds g0 n) /\
    (forall n, In n done -> forall c, In c (caps_of at_ n) <-> fed g0 at0 c n) /\
    (forall n, In n done -> forall p, In p (preds g n) <->
                                       In p (preds g0 n) /\ exists c, In c (caps_of at0 n) /\ fed g0 at0 c p) /\
    (forall n, same_fixed (attr_of at_ n) (attr_of at0 n)) /\
    (forall n, NoDup (caps_of at_ n)).

  Lemma cinv_init : cinv [] (g0, at0).
  Proof. simpl. split; auto. split; auto. split; auto. split; [intros n []|]. split; [intros n []|].
    split; auto. intros n. apply same_fixed_refl. Qed.

  Lemma cinv_step done st m : cinv done st -> In m (g_nodes g0) -> ~ In m done -> incl (preds g0 m) done ->
    cinv (done ++ [m]) (clean_unit st m).
  Proof. destruct st as [g at_]. intros [C1 [C2 [C3 [C4 [C5 [C6 C7]]]]]] Hm Hnm Hp.
    destruct (clean_unit (g, at_) m) as [g' at'] eqn:E.
    destruct (C3 m Hnm) as [Am Pm].
    assert (Cm : caps_of at_ m = caps_of at0 m) by (unfold caps_of; rewrite Am; auto).
    apply clean_unit_spec in E; auto; [|rewrite C2; auto].
    destruct E as [E1 [E2 [E3 [E4 [E5 [E6 [E7 [E8 E9]]]]]]]].
    assert (Hcp : forall x, x <> m -> caps_of at' x = caps_of at_ x).
    { intros x Hx. unfold caps_of. rewrite E5; auto. }
    simpl. split; auto. split; [congruence|]. split.
    { intros n Hn. rewrite in_app_iff in Hn. simpl in Hn. assert (n <> m) by (intros ->; tauto).
      rewrite E5, E3 by auto. apply C3. tauto. }
    split.
    { intros n Hn c. apply in_app_iff in Hn. destruct Hn as [Hn|[<-|[]]].
      - assert (n <> m) by (intros ->; tauto). rewrite Hcp by auto. apply C4; auto.
      - destruct (preds g m) as [|p0 ps] eqn:Ep.
        + rewrite E8, Cm by auto. split.
          * intros Hc. apply fed_src; auto; congruence.
          * intros Hc. apply fed_declares in Hc. auto.
        + rewrite E9 by discriminate. rewrite Cm, Pm. split.
          * intros [H1 [p [H2 H3]]]. eapply fed_step; eauto. apply (C4 p); auto.
          * intros Hc. split; [apply fed_declares in Hc; auto|]. inversion Hc; subst.
            -- rewrite <- Pm in H0. rewrite H0 in Ep. discriminate.
            -- exists p. rewrite Pm in *. split; auto. apply (C4 p); auto. }
    split.
    { intros n Hn p. apply in_app_iff in Hn. destruct Hn as [Hn|[<-|[]]].
      - assert (n <> m) by (intros ->; tauto). rewrite E3 by auto. apply C5; auto.
      - rewrite E4, Pm, inter_nonnil, Cm. split.
        + intros [H1 [c [H2 H3]]]. split; auto. exists c. split; auto. apply (C4 p); auto.
        + intros [H1 [c [H2 H3]]]. split; auto. exists c. split; auto. apply (C4 p); auto. }
    split.
    { intros n. destruct (string_dec n m) as [->|Hx].
      - eapply same_fixed_trans; eauto.
      - rewrite E5; auto. }
    intros n. destruct (string_dec n m) as [->|Hx]; auto. rewrite Hcp; auto. Qed.

  Lemma cinv_fold rest : forall done st, cinv done st -> NoDup (done ++ rest) -> incl rest (g_nodes g0) ->
    ordered_by (preds g0) (done ++ rest) -> cinv (done ++ rest) (fold_left clean_unit rest st).
  Proof. induction rest as [|m t IH]; intros done st Hc Hnd Hin Ho; cbn [fold_left].
    - rewrite app_nil_r. auto.
    - replace (done ++ m :: t) with ((done ++ [m]) ++ t) in * by (rewrite <- app_assoc; auto).
      apply IH; auto.
      + apply cinv_step; auto.
        * apply Hin. left; auto.
        * rewrite <- app_assoc in Hnd. apply NoDup_app_inv in Hnd. destruct Hnd as [_ [_ Hd]].
          intros Hc'. apply (Hd m Hc'). left; auto.
        * intros p Hp'. apply (Ho done m t); auto. rewrite <- app_assoc. auto.
      + intros x Hx. apply Hin. right; auto. Qed.

  Theorem clean_struct_spec order g1 at1 :
    topo_sort g0 = Some order -> clean_struct order (g0, at0) = (g1, at1) ->
    gwf g1 /\ g_nodes g1 = g_nodes g0 /\
    (forall n, In n (g_nodes g0) -> forall c, In c (caps_of at1 n) <-> fed g0 at0 c n) /\
    (forall n, ~ In n (g_nodes g0) -> attr_of at1 n = attr_of at0 n) /\
    (forall n, same_fixed (attr_of at1 n) (attr_of at0 n)) /\
    (forall n, NoDup (caps_of at1 n)) /\
    (forall n p, In p (preds g1 n) <->
                 In p (preds g0 n) /\ exists c, In c (caps_of at0 n) /\ fed g0 at0 c p).
  Proof. intros Ht Hc. destruct (topo_sort_some g0 order Hwf Ht) as [Hp [Hnd Ho]].
    pose proof (cinv_fold order [] (g0, at0) cinv_init Hnd) as H. simpl in H.
    unfold clean_struct in Hc. rewrite Hc in H.
    destruct H as [C1 [C2 [C3 [C4 [C5 [C6 C7]]]]]]; auto.
    { intros x Hx. eapply Permutation_in; eauto. }
    assert (Hin : forall n, In n order <-> In n (g_nodes g0)).
    { intros n. split; intros Hn; [apply (Permutation_in n Hp Hn)|apply (Permutation_in n (Permutation_sym Hp) Hn)]. }
    split; auto. split; auto. split; [intros n Hn; apply C4, Hin; auto|].
    split; [intros n Hn; apply C3; rewrite Hin; auto|]. split; auto. split; auto.
    intros n p. destruct (in_dec_str n (g_nodes g0)) as [Hn|Hn].
    - apply C5, Hin; auto.
    - rewrite (proj2 (C3 n (fun F => Hn (proj1 (Hin n) F)))). rewrite (preds_notin g0 n Hwf Hn). simpl. tauto. Qed.
End CleanStruct.

(* the connections that survive: both ends are fed a common capability *)
Lemma fed_shared g0 at0 n p : gwf g0 -> In p (preds g0 n) ->
  ((exists c, In c (caps_of at0 n) /\ fed g0 at0 c p) <-> exists c, fed g0 at0 c n /\ fed g0 at0 c p).
Proof. intros H Hp. split; intros [c [H1 H2]]; exists c; split; auto.
  - eapply fed_step; eauto.
  - apply fed_declares in H1; auto. Qed.

(* ====================================================================== *)
(* rm_empty_units                                                          *)
(* ====================================================================== *)
Definition rm_empty_step (at_ : attrs) (g : graph) (n : string) : graph :=
  match caps_of at_ n with [] => remove_node g n | _ => g end.
Lemma rm_empty_fold at_ l : forall g, gwf g ->
  induced g (fold_left (rm_empty_step at_) l g) (fun x => ~ (In x l /\ caps_of at_ x = [])).
Proof. induction l as [|n t IH]; intros g H; cbn [fold_left].
  - eapply induced_ext; [|apply induced_refl; auto]. intros x; simpl; tauto.
  - unfold rm_empty_step at 2. destruct (caps_of at_ n) eqn:E.
    + eapply induced_ext; [|eapply induced_trans; [apply (induced_remove_node g n H)|apply IH, gwf_remove_node, H]].
      intros x; simpl. split.
      * intros [H1 H2] [[H3|H3] H4]; auto.
      * intros H1. split; [intros ->; apply H1; auto|intros [H2 H3]; apply H1; auto].
    + eapply induced_ext; [|apply IH; auto]. intros x; simpl. split.
      * intros H1 [[<-|H2] H3]; [congruence|apply H1; auto].
      * intros H1 [H2 H3]. apply H1; auto. Qed.
Theorem rm_empty_units_spec g at_ g' at' : gwf g -> rm_empty_units (g, at_) = (g', at') ->
  at' = at_ /\ induced g g' (fun x => caps_of at_ x <> []).
Proof. intros H. unfold rm_empty_units. intros [= <- <-]. split; auto.
  change (fold_left _ (g_nodes g) g) with (fold_left (rm_empty_step at_) (g_nodes g) g).
  pose proof (rm_empty_fold at_ (g_nodes g) g H) as [H1 [H2 H3]]. split; auto. split.
  - intros x. rewrite H2. split; [intros [J1 J2]; split; auto; intros J3; apply J2; auto|tauto].
  - intros x y. rewrite H3. split.
    + intros [J1 [J2 J3]]. apply (gwf_in g H) in J1 as J4. split; auto. split; intros E; [apply J2|apply J3]; tauto.
    + tauto. Qed.
