(* C03_step.v -- what one successful cycle does to the places of the instructions.
   Records are read through `get`; Uq r = every instruction index occurs at most once in r. *)
From Coq Require Import Lia Permutation Sorted.
From PS Require Import Base Bag RegAccess Sim Diag Lists C03_lists.

Definition Kq (r : record) : Prop := NoDup (map fst r).
Definition Uq (r : record) : Prop :=
  (forall k, NoDup (map fst (get r k))) /\
  (forall k k' i, In i (map fst (get r k)) -> In i (map fst (get r k')) -> k = k').
Definition inrec (r : record) (i : nat) : Prop := exists u l, In (i, l) (get r u).

Lemma in_fst {A B} (l : list (A * B)) a b : In (a, b) l -> In a (map fst l).
Proof. intros H. change a with (fst (a, b)). apply in_map; auto. Qed.
Lemma in_fst_ex {A B} (l : list (A * B)) a : In a (map fst l) -> exists b, In (a, b) l.
Proof. intros H. apply in_map_iff in H. destruct H as [[a' b] [H1 H2]]. simpl in H1; subst. eauto. Qed.

Lemma Uq_same r u u' i l l' : Uq r -> In (i, l) (get r u) -> In (i, l') (get r u') -> u = u' /\ l = l'.
Proof. intros [H1 H2] Ha Hb. assert (u = u') by (eapply H2; eapply in_fst; eauto). subst. split; auto.
  eapply NoDup_map_fst_same; eauto. Qed.

Lemma Uq_filter r r' : (forall k, exists p, get r' k = filter p (get r k)) -> Uq r -> Uq r'.
Proof. intros H [H1 H2]. split.
  - intros k. destruct (H k) as [p ->]. apply NoDup_map_filter; auto.
  - intros k k' i Ha Hb. destruct (H k) as [p Hp]. destruct (H k') as [p' Hp']. rewrite Hp in Ha. rewrite Hp' in Hb.
    apply in_map_iff in Ha. destruct Ha as [e [He Ha]]. apply filter_In in Ha.
    apply in_map_iff in Hb. destruct Hb as [e' [He' Hb]]. apply filter_In in Hb.
    apply (H2 k k' i); apply in_map_iff; [exists e|exists e']; tauto. Qed.

Lemma Uq_set_app r k i l : Uq r -> ~ inrec r i -> Uq (set r k (get r k ++ [(i, l)])).
Proof. intros [H1 H2] Hn.
  assert (Hn' : forall u, ~ In i (map fst (get r u))).
  { intros u Hu. apply in_fst_ex in Hu. destruct Hu as [b Hb]. apply Hn. exists u, b. auto. }
  split.
  - intros u. destruct (string_dec k u) as [->|Hne]; [rewrite gss|rewrite gso; auto].
    rewrite map_app. apply NoDup_app_intro; auto.
    + simpl. constructor; auto. constructor.
    + simpl. intros x Hx [<-|[]]. eapply Hn'; eauto.
  - intros u u' j Ha Hb.
    destruct (string_dec k u) as [Hu|Hu]; destruct (string_dec k u') as [Hu'|Hu']; try congruence.
    + subst u. rewrite gss in Ha. rewrite gso in Hb by auto. rewrite map_app, in_app_iff in Ha. simpl in Ha.
      destruct Ha as [Ha|[<-|[]]]; eauto. exfalso; eapply Hn'; eauto.
    + subst u'. rewrite gss in Hb. rewrite gso in Ha by auto. rewrite map_app, in_app_iff in Hb. simpl in Hb.
      destruct Hb as [Hb|[<-|[]]]; eauto. exfalso; eapply Hn'; eauto.
    + rewrite gso in Ha, Hb by auto. eauto. Qed.

(* ================= consequences of wf_procb ================= *)
Section WF.
Variable P : proc.
Hypothesis Hwf : wf_procb P = true.

Definition fname (f : funit) : string := u_name (f_model f).
Definition outs : list string := out_names P.

Lemma wf_names : NoDup (unit_names P).
Proof. unfold wf_procb in Hwf. rewrite !andb_true_iff in Hwf. apply nodupb_NoDup. tauto. Qed.
Lemma wf_preds f : In f (funits P) ->
  NoDup (f_preds f) /\ forall p, In p (f_preds f) -> In p (unit_names P) /\ ~ In p outs.
Proof. intros Hin. unfold wf_procb in Hwf. rewrite !andb_true_iff in Hwf.
  destruct Hwf as [[[_ H] _] _]. rewrite forallb_forall in H. specialize (H f Hin).
  rewrite andb_true_iff in H. destruct H as [H1 H2]. split; [apply nodupb_NoDup; auto|].
  intros p Hp. rewrite forallb_forall in H2. specialize (H2 p Hp). rewrite andb_true_iff, negb_true_iff in H2.
  destruct H2 as [H2 H3]. split; [apply mem_str_In; auto|]. intros Ho. apply mem_str_In in Ho.
  unfold outs in Ho. congruence. Qed.
Lemma wf_sink : sink_first (p_int P) [] = true.
Proof. unfold wf_procb in Hwf. rewrite !andb_true_iff in Hwf. tauto. Qed.

Lemma unit_names_eq : unit_names P =
  map u_name (p_in P) ++ map u_name (p_inout P) ++ map fname (p_out P) ++ map fname (p_int P).
Proof. unfold unit_names, all_units. rewrite !map_app, !map_map. reflexivity. Qed.
Lemma funit_names_nodup : NoDup (map fname (funits P)).
Proof. pose proof wf_names as H. rewrite unit_names_eq in H.
  apply NoDup_app_r in H. apply NoDup_app_r in H. unfold funits. rewrite map_app. exact H. Qed.
Lemma preds_of_f f : In f (funits P) -> preds_of P (fname f) = f_preds f.
Proof. intros H. pose proof (find_nodup fname (funits P) f funit_names_nodup H) as E.
  unfold preds_of. unfold fname in *. rewrite E. reflexivity. Qed.
Lemma find_unit_in u : In u (all_units P) -> find_unit P (u_name u) = Some u.
Proof. intros H. unfold find_unit. apply (find_nodup u_name (all_units P) u wf_names H). Qed.
Lemma funit_all f : In f (funits P) -> In (f_model f) (all_units P).
Proof. unfold funits, all_units. rewrite !in_app_iff. intros [H|H]; [right; right; left|right; right; right];
  apply in_map; auto. Qed.
Lemma supports_f f c : In f (funits P) -> supports P (fname f) c = mem_str c (u_caps (f_model f)).
Proof. intros H. unfold supports, fname. rewrite (find_unit_in _ (funit_all f H)). reflexivity. Qed.
Lemma out_f f : In f (p_out P) -> In (fname f) outs.
Proof. intros H. unfold outs, out_names. apply in_or_app. right. apply (in_map fname) in H. exact H. Qed.

(* the order in which destinations are filled: no predecessor of f was filled before f (or is f) *)
Fixpoint okorder (seen : list string) (l : list funit) : Prop :=
  match l with
  | [] => True
  | f :: t => (forall p, In p (f_preds f) -> ~ In p (fname f :: seen)) /\ okorder (fname f :: seen) t
  end.
Lemma okorder_sink : forall l s s',
  sink_first l s = true -> (forall x, In x s' -> In x s \/ In x outs) ->
  (forall f, In f l -> forall p, In p (f_preds f) -> ~ In p outs) -> okorder s' l.
Proof. induction l as [|f t IH]; intros s s' Hs Hss Ho; cbn [sink_first okorder] in *; auto.
  rewrite andb_true_iff, negb_true_iff in Hs. destruct Hs as [Hs1 Hs2].
  assert (Hss' : forall x, In x (fname f :: s') -> In x (u_name (f_model f) :: s) \/ In x outs).
  { intros x [<-|Hx]; [left; left; reflexivity|]. apply Hss in Hx. destruct Hx; [left; right; auto|auto]. }
  split.
  - intros p Hp Hin. apply Hss' in Hin. destruct Hin as [Hin|Hin].
    + assert (existsb (fun p => mem_str p (u_name (f_model f) :: s)) (f_preds f) = true); [|congruence].
      apply existsb_exists. exists p. split; auto. apply mem_str_In. auto.
    + apply (Ho f (or_introl eq_refl) p Hp Hin).
  - apply (IH _ _ Hs2 Hss'). intros g Hg. apply Ho. right; auto. Qed.
Lemma okorder_outs : forall l s, (forall x, In x s -> In x outs) -> (forall f, In f l -> In (fname f) outs) ->
  (forall f, In f l -> forall p, In p (f_preds f) -> ~ In p outs) ->
  forall t, okorder (rev (map fname l) ++ s) t -> okorder s (l ++ t).
Proof. induction l as [|f l IH]; intros s Hs Hl Ho t Ht; simpl in *; auto. split.
  - intros p Hp Hin. apply (Ho f (or_introl eq_refl) p Hp). destruct Hin as [<-|Hin]; auto.
  - apply IH.
    + intros x [<-|Hx]; auto.
    + intros g Hg. apply Hl; auto.
    + intros g Hg. apply Ho; auto.
    + rewrite <- app_assoc in Ht. exact Ht. Qed.
Lemma okorder_funits : okorder [] (funits P).
Proof. unfold funits. apply okorder_outs.
  - intros x [].
  - intros f Hf. apply out_f; auto.
  - intros f Hf p Hp. apply (wf_preds f); auto. unfold funits. apply in_or_app; auto.
  - eapply okorder_sink; [apply wf_sink| |].
    + intros x Hx. rewrite app_nil_r in Hx. apply in_rev in Hx. right. apply in_map_iff in Hx.
      destruct Hx as [f [<- Hf]]. apply out_f; auto.
    + intros f Hf p Hp. apply (wf_preds f); auto. unfold funits. apply in_or_app; auto. Qed.
Lemma okorder_in : forall l seen f p, okorder seen l -> In f l -> In p (f_preds f) ->
  p <> fname f /\ ~ In p seen.
Proof. induction l as [|g t IH]; intros seen f p Hok Hf Hp; simpl in *; [tauto|].
  destruct Hok as [H1 H2]. destruct Hf as [->|Hf].
  - specialize (H1 p Hp). split; intros Hx; apply H1; [left; auto|right; auto].
  - destruct (IH _ f p H2 Hf Hp) as [G1 G2]. split; auto. intros Hx. apply G2. right; auto. Qed.

End WF.

(* ================= one destination unit: fill_unit ================= *)
Section Fill.
Variable prog : list instr.
Variable f : funit.
Notation me := (u_name (f_model f)).

Lemma cands_in r h n : In (h, n) (cands prog f r) ->
  In h (f_preds f) /\ exists e, nth_error (get r h) n = Some e /\ valid prog f e = true.
Proof. unfold cands. intros H. apply in_flat_map in H. destruct H as [h' [Hh H]]. apply in_map_iff in H.
  destruct H as [n' [E H]]. inversion E; subst. split; auto. apply locate_In in H.
  destruct H as [_ [e [He Hp]]]. rewrite Nat.sub_0_r in He. eauto. Qed.
Lemma cands_nodup r : NoDup (f_preds f) -> NoDup (cands prog f r).
Proof. unfold cands. induction (f_preds f) as [|h t IH]; simpl; intros H; [constructor|]. inversion H; subst.
  apply NoDup_app_intro; auto.
  - apply NoDup_map_in; [|apply locate_NoDup]. intros x y _ _ E. inversion E; auto.
  - intros x Hx Hy. apply in_map_iff in Hx. destruct Hx as [n [<- _]].
    apply in_flat_map in Hy. destruct Hy as [h' [Hh' Hy]]. apply in_map_iff in Hy.
    destruct Hy as [n' [E _]]. inversion E; subst. auto. Qed.

Lemma walk_spec busy : forall cs rc used moved r' used' moved',
  (forall c, In c cs -> fst c <> me) ->
  walk prog f busy cs rc used moved = (r', used', moved') ->
  exists m, moved' = moved ++ m /\ incl m cs /\ (NoDup cs -> NoDup m) /\
    get r' me = get rc me ++ map (fun c => (ix_of rc c, LU)) m /\
    (forall k, k <> me -> get r' k = get rc k) /\ (Kq rc -> Kq r').
Proof. induction cs as [|c t IH]; intros rc used moved r' used' moved' Hne H; cbn [walk] in H.
  - inversion H; subst. exists []. simpl. rewrite ?app_nil_r.
    split; auto. split; [apply incl_refl|]. split; auto.
  - destruct (length (get rc me) =? u_width (f_model f)) eqn:E1.
    { inversion H; subst. exists []. simpl. rewrite ?app_nil_r.
      split; auto. split; [intros x []|]. split; [intros; constructor|]. auto. }
    assert (Hne' : forall c0, In c0 t -> fst c0 <> me) by (intros c0 Hc0; apply Hne; right; auto).
    destruct ((busy || used) && mem_str (cat_of prog (ix_of rc c)) (u_mem (f_model f))) eqn:E2.
    + destruct (IH _ _ _ _ _ _ Hne' H) as (m & Hm & Hi & Hn & Hg & Ho & HK).
      exists m. split; auto. split; [apply incl_tl; auto|]. split; auto.
      intros Hnd. inversion Hnd; auto.
    + destruct (IH _ _ _ _ _ _ Hne' H) as (m & Hm & Hi & Hn & Hg & Ho & HK).
      exists (c :: m). split; [rewrite Hm, <- app_assoc; reflexivity|].
      split; [intros x [<-|Hx]; [left; auto|right; auto]|].
      split; [intros Hnd; inversion Hnd; subst; constructor; auto|].
      split; [|split].
      * rewrite Hg, gss, <- app_assoc. simpl. f_equal. f_equal. apply map_ext_in.
        intros c' Hc'. unfold ix_of. rewrite gso; auto. intros E. apply (Hne' c'); auto.
      * intros k Hk. rewrite Ho, gso; auto.
      * intros HKq. apply HK. apply set_nodup. auto. Qed.

Lemma clr_fold_get : forall l (r : record) h,
  get (fold_left (fun r c => set r (fst c) (del_nth (snd c) (get r (fst c)))) l r) h
  = del_desc (map snd (filter (fun c => String.eqb (fst c) h) l)) (get r h).
Proof. induction l as [|c l IH]; intros r h; simpl; auto. rewrite IH.
  destruct (String.eqb_spec (fst c) h).
  - subst. rewrite gss. reflexivity.
  - rewrite gso; auto. Qed.
Lemma clr_fold_K : forall l (r : record),
  Kq r -> Kq (fold_left (fun r c => set r (fst c) (del_nth (snd c) (get r (fst c)))) l r).
Proof. induction l as [|c l IH]; intros r H; simpl; auto. apply IH. apply set_nodup; auto. Qed.

Lemma desc_strict (h : string) : forall L : list (string * nat),
  (forall c, In c L -> fst c = h) -> NoDup L ->
  StronglySorted (fun a b => (snd b <=? snd a) = true) L -> StronglySorted (fun a b => b < a) (map snd L).
Proof. induction L as [|a L IH]; simpl; intros Hh Hnd Hs; [constructor|].
  inversion Hs; subst. inversion Hnd; subst. constructor; [apply IH; auto|].
  rewrite Forall_forall in *. intros x Hx. apply in_map_iff in Hx. destruct Hx as [c [<- Hc]].
  specialize (H2 c Hc). apply Nat.leb_le in H2.
  assert (snd c <> snd a); [|lia]. intros E. apply H3.
  assert (fst c = fst a) by (rewrite (Hh c), (Hh a); auto). destruct c, a; simpl in *; subst; auto. Qed.

Definition idxs (moved : list (string * nat)) (h : string) : list nat :=
  map snd (filter (fun c => String.eqb (fst c) h) (isort (fun a b => snd b <=? snd a) moved)).
Lemma idxs_in moved h n : In n (idxs moved h) <-> In (h, n) moved.
Proof. unfold idxs. rewrite in_map_iff. split.
  - intros [[h' n'] [E H]]. simpl in E; subst. apply filter_In in H. destruct H as [H1 H2].
    simpl in H2. apply String.eqb_eq in H2; subst. apply isort_In in H1. auto.
  - intros H. exists (h, n). split; auto. apply filter_In. split; [apply isort_In; auto|].
    simpl. apply String.eqb_refl. Qed.
Lemma clr_get r moved h : NoDup moved -> get (clr r moved) h = keep_not (idxs moved h) 0 (get r h).
Proof. intros Hnd. unfold clr. rewrite clr_fold_get. apply del_desc_keep. apply (desc_strict h).
  - intros c Hc. apply filter_In in Hc. apply String.eqb_eq. tauto.
  - apply NoDup_filter. apply isort_NoDup. auto.
  - apply StronglySorted_filter. apply (isort_sorted (fun a b : string * nat => snd b <=? snd a)).
    + intros a b H. apply Nat.leb_gt in H. apply Nat.leb_le. lia.
    + intros a b c H1 H2. apply Nat.leb_le in H1, H2. apply Nat.leb_le. lia. Qed.

Lemma fill_unit_spec r busy r'' busy'' :
  Uq r -> NoDup (f_preds f) -> ~ In me (f_preds f) ->
  fill_unit prog (r, busy) f = (r'', busy'') ->
  exists J,
    (forall j, In j J -> exists h l, In h (f_preds f) /\ In (j, l) (get r h) /\ l <> LD /\
                                   mem_str (cat_of prog j) (u_caps (f_model f)) = true) /\
    NoDup J /\
    get r'' me = get r me ++ map (fun j => (j, LU)) J /\
    (forall k, k <> me -> get r'' k = filter (fun e => negb (memn (fst e) J)) (get r k)) /\
    (Kq r -> Kq r'').
Proof.
  intros HU Hnd Hme H. unfold fill_unit in H.
  set (cs := isort (fun a b => ix_of r a <=? ix_of r b) (cands prog f r)) in H.
  destruct (walk prog f busy cs r false []) as [[r' used] moved] eqn:Ew. inversion H; subst r'' busy''; clear H.
  assert (Hcs : forall c, In c cs -> In c (cands prog f r)) by (intros c Hc; apply isort_In in Hc; auto).
  assert (Hcne : forall c, In c cs -> fst c <> me).
  { intros [h n] Hc. apply Hcs in Hc. apply cands_in in Hc. simpl. intros ->. tauto. }
  destruct (walk_spec busy cs r false [] r' used moved Hcne Ew) as (m & Hm & Hincl & Hndm & Hgme & Hgo & HK).
  simpl in Hm. subst m.
  assert (Hndmoved : NoDup moved) by (apply Hndm; apply isort_NoDup; apply cands_nodup; auto).
  assert (Hmc : forall h n, In (h, n) moved ->
            In h (f_preds f) /\ exists e, nth_error (get r h) n = Some e /\ valid prog f e = true).
  { intros h n Hin. apply cands_in. apply Hcs. apply Hincl. auto. }
  assert (Hix : forall h n e, nth_error (get r h) n = Some e -> ix_of r (h, n) = fst e).
  { intros h n e He. unfold ix_of. simpl. rewrite He. auto. }
  assert (Hinj : forall h n e h' n' e', nth_error (get r h) n = Some e -> nth_error (get r h') n' = Some e' ->
            fst e = fst e' -> h = h' /\ n = n').
  { intros h n e h' n' e' He He' Hf. destruct HU as [HU1 HU2].
    assert (h = h').
    { apply (HU2 h h' (fst e)); [|rewrite Hf]; apply in_map; eapply nth_error_In; eauto. }
    subst h'. split; auto. eapply nth_error_map_fst_inj; eauto. }
  exists (map (ix_of r) moved). split; [|split; [|split; [|split]]].
  - intros j Hj. apply in_map_iff in Hj. destruct Hj as [[h n] [Hj Hin]].
    destruct (Hmc h n Hin) as [Hh [e [He Hv]]]. rewrite (Hix _ _ _ He) in Hj. destruct e as [j' l]. simpl in Hj; subst j'.
    unfold valid in Hv. simpl in Hv. apply andb_true_iff in Hv. destruct Hv as [Hv1 Hv2].
    exists h, l. split; auto. split; [eapply nth_error_In; eauto|]. split; auto.
    intros ->. discriminate.
  - apply NoDup_map_in; auto. intros [h n] [h' n'] Hc Hc' E.
    destruct (Hmc _ _ Hc) as [_ [e [He _]]]. destruct (Hmc _ _ Hc') as [_ [e' [He' _]]].
    rewrite (Hix _ _ _ He), (Hix _ _ _ He') in E. destruct (Hinj _ _ _ _ _ _ He He' E). subst; auto.
  - rewrite clr_get by auto. rewrite keep_not_above.
    + rewrite Hgme, map_map. reflexivity.
    + intros j Hj. apply idxs_in in Hj. apply Hmc in Hj. tauto.
  - intros k Hk. rewrite clr_get by auto. rewrite Hgo by auto. apply keep_not_filter.
    intros n e He. simpl. rewrite negb_true_iff. rewrite idxs_in.
    assert (G : In (fst e) (map (ix_of r) moved) <-> In (k, n) moved).
    { split.
      - intros Hin. apply in_map_iff in Hin. destruct Hin as [[h' n'] [E Hin]].
        destruct (Hmc _ _ Hin) as [_ [e' [He' _]]]. rewrite (Hix _ _ _ He') in E.
        destruct (Hinj _ _ _ _ _ _ He' He E). subst; auto.
      - intros Hin. apply in_map_iff. exists (k, n). split; auto. }
    rewrite <- G. rewrite <- memn_In. destruct (memn (fst e) (map (ix_of r) moved)); split; intros; congruence.
  - intros HKq. unfold clr. apply clr_fold_K. auto. Qed.

End Fill.

(* ================= flush and mov_flights ================= *)
Section Cycle.
Variable P : proc.
Hypothesis Hwf : wf_procb P = true.
Variable prog : list instr.

Notation isD := (fun e : entry => label_eqb (snd e) LD).

Lemma flush_fold_get : forall ns (r : record) k,
  get (fold_left (fun r n => set r n (filter isD (get r n))) ns r) k
  = if mem_str k ns then filter isD (get r k) else get r k.
Proof. induction ns as [|n ns IH]; intros r k; simpl; auto. rewrite IH.
  change (existsb (String.eqb k) ns) with (mem_str k ns).
  destruct (String.eqb_spec k n) as [->|Hne]; simpl.
  - rewrite gss. destruct (mem_str n ns); auto. apply filter_filter_same.
  - rewrite gso by auto. reflexivity. Qed.
Lemma flush_get r k :
  get (flush P r) k = if mem_str k (out_names P) then filter isD (get r k) else get r k.
Proof. unfold flush. apply flush_fold_get. Qed.
Lemma flush_K r : Kq r -> Kq (flush P r).
Proof. unfold flush. generalize (out_names P). intros ns. revert r.
  induction ns as [|n ns IH]; intros r H; simpl; auto. apply IH. apply set_nodup. auto. Qed.

Lemma preds_of_in h u : In h (preds_of P u) -> exists f, In f (funits P) /\ In h (f_preds f) /\ fname f = u.
Proof. unfold preds_of. destruct (find _ (funits P)) as [f|] eqn:E; [|intros []].
  apply find_some in E. destruct E as [E1 E2]. apply String.eqb_eq in E2. intros H. exists f. auto. Qed.
Lemma preds_not_out h u : In h (preds_of P u) -> ~ In h (outs P).
Proof. intros H. apply preds_of_in in H. destruct H as [f [Hf [Hh _]]]. apply (wf_preds P Hwf f Hf); auto. Qed.

Definition MI (old : record) (seen : list string) (rc : record) : Prop :=
  Kq rc /\ Uq rc /\
  (forall u i l, In (i, l) (get rc u) ->
     (In (i, l) (get old u) /\ (In u (outs P) -> l = LD)) \/
     (In u seen /\ l = LU /\ exists h l0, In h (preds_of P u) /\ In (i, l0) (get old h) /\ l0 <> LD /\
                                         supports P u (cat_of prog i) = true)) /\
  (forall u i l, In (i, l) (get old u) -> inrec rc i \/ (In u (outs P) /\ l <> LD)) /\
  (forall u i, In (i, LD) (get old u) -> In (i, LD) (get rc u)).

Lemma MI_flush old : Kq old -> Uq old -> MI old [] (flush P old).
Proof. intros HK HU. split; [apply flush_K; auto|]. split; [|split; [|split]].
  - apply (Uq_filter old); auto. intros k. rewrite flush_get. destruct (mem_str k (out_names P)).
    + eexists; reflexivity.
    + exists (fun _ => true). symmetry. apply filter_all. auto.
  - intros u i l H. left. rewrite flush_get in H. destruct (mem_str u (out_names P)) eqn:E.
    + apply filter_In in H. destruct H as [H1 H2]. simpl in H2. split; auto. intros _. destruct l; auto; discriminate.
    + split; auto. intros Ho. apply mem_str_In in Ho. unfold outs in *. congruence.
  - intros u i l H. destruct (mem_str u (out_names P)) eqn:E.
    + destruct l; [left|right|right]; try (split; [apply mem_str_In; auto|discriminate]).
      exists u, LD. rewrite flush_get, E. apply filter_In. auto.
    + left. exists u, l. rewrite flush_get, E. auto.
  - intros u i H. rewrite flush_get. destruct (mem_str u (out_names P)); auto. apply filter_In. auto. Qed.

Lemma MI_fill old seen rc busy f rc' busy' :
  In f (funits P) -> (forall p, In p (f_preds f) -> p <> fname f /\ ~ In p seen) ->
  MI old seen rc -> fill_unit prog (rc, busy) f = (rc', busy') -> MI old (fname f :: seen) rc'.
Proof. intros Hf Hord (HK & HU & M1 & M2 & M3) H.
  assert (Hme : ~ In (fname f) (f_preds f)) by (intros Hin; destruct (Hord _ Hin) as [G _]; apply G; reflexivity).
  destruct (fill_unit_spec prog f rc busy rc' busy' HU (proj1 (wf_preds P Hwf f Hf)) Hme H)
    as (J & HJ & HJnd & Gme & Goth & HK').
  fold (fname f) in Gme, Goth.
  assert (HJme : forall j, In j J -> ~ In j (map fst (get rc (fname f)))).
  { intros j Hj Hin. destruct (HJ j Hj) as (h & l & Hh & Hjl & _). destruct HU as [_ HU2].
    assert (fname f = h) by (apply (HU2 _ _ j); auto; eapply in_fst; eauto). subst h. auto. }
  assert (Hsub : forall k i, In i (map fst (get rc' k)) ->
            (In i (map fst (get rc k)) /\ (k <> fname f -> ~ In i J)) \/ (k = fname f /\ In i J)).
  { intros k i Hi. destruct (string_dec k (fname f)) as [->|Hne].
    - rewrite Gme, map_app, map_map, in_app_iff in Hi. simpl in Hi. rewrite map_id in Hi.
      destruct Hi; [left; split; auto; congruence|right; auto].
    - left. rewrite Goth in Hi by auto. apply in_map_iff in Hi. destruct Hi as [e [<- He]].
      apply filter_In in He. destruct He as [He1 He2]. split; [apply in_map; auto|]. intros _ Hin.
      apply memn_In in Hin. rewrite Hin in He2. discriminate. }
  split; [auto|]. split; [|split; [|split]].
  - split.
    + intros k. destruct (string_dec k (fname f)) as [->|Hne].
      * rewrite Gme, map_app, map_map. simpl. rewrite map_id. apply NoDup_app_intro; auto; [apply HU|].
        intros x Hx Hj. eapply HJme; eauto.
      * rewrite Goth by auto. apply NoDup_map_filter. apply HU.
    + intros k k' i Ha Hb. apply Hsub in Ha. apply Hsub in Hb. destruct HU as [_ HU2].
      destruct Ha as [[Ha Ha']|[-> Ha]], Hb as [[Hb Hb']|[-> Hb]]; auto.
      * eauto.
      * destruct (string_dec k (fname f)); auto. exfalso. apply Ha'; auto.
      * destruct (string_dec k' (fname f)); auto. exfalso. apply Hb'; auto.
  - intros u i l Hin. destruct (string_dec u (fname f)) as [->|Hne].
    + rewrite Gme, in_app_iff in Hin. destruct Hin as [Hin|Hin].
      * destruct (M1 _ _ _ Hin) as [G|(G1 & G2)]; [left; auto|right; split; [right; auto|auto]].
      * apply in_map_iff in Hin. destruct Hin as [j [E Hj]]. inversion E; subst.
        destruct (HJ i Hj) as (h & l0 & Hh & Hil & Hl0 & Hcap).
        destruct (M1 _ _ _ Hil) as [[G _]|[G _]].
        -- right. split; [left; auto|]. split; auto. exists h, l0. rewrite (preds_of_f P Hwf f Hf).
           rewrite (supports_f P Hwf f _ Hf). auto.
        -- exfalso. apply (Hord _ Hh); auto.
    + rewrite Goth in Hin by auto. apply filter_In in Hin. destruct Hin as [Hin _].
      destruct (M1 _ _ _ Hin) as [G|(G1 & G2)]; [left; auto|right; split; [right; auto|auto]].
  - intros u i l Hin. destruct (M2 _ _ _ Hin) as [(u1 & l1 & G)|G]; [left|right; auto].
    destruct (string_dec u1 (fname f)) as [->|Hne].
    + exists (fname f), l1. rewrite Gme. apply in_or_app; auto.
    + destruct (memn i J) eqn:E.
      * exists (fname f), LU. rewrite Gme. apply in_or_app. right. apply in_map_iff. exists i.
        split; auto. apply memn_In; auto.
      * exists u1, l1. rewrite Goth by auto. apply filter_In. split; auto. simpl. rewrite E. auto.
  - intros u i Hin. apply M3 in Hin. destruct (string_dec u (fname f)) as [->|Hne].
    + rewrite Gme. apply in_or_app; auto.
    + rewrite Goth by auto. apply filter_In. split; auto. simpl. destruct (memn i J) eqn:E; auto.
      apply memn_In in E. destruct (HJ i E) as (h & l0 & Hh & Hil & Hl0 & _).
      destruct (Uq_same _ _ _ _ _ _ HU Hin Hil) as [_ E2]. congruence. Qed.

Lemma MI_fold old : forall l seen rc busy,
  (forall f, In f l -> In f (funits P)) -> okorder seen l -> MI old seen rc ->
  exists seen', MI old seen' (fst (fold_left (fill_unit prog) l (rc, busy))).
Proof. induction l as [|f l IH]; intros seen rc busy Hl Hok HI; cbn [fold_left].
  - exists seen. auto.
  - destruct (fill_unit prog (rc, busy) f) as [rc' busy'] eqn:E. destruct Hok as [Ho1 Ho2].
    apply (IH (fname f :: seen)); auto.
    + intros g Hg. apply Hl; right; auto.
    + eapply MI_fill; eauto. * apply Hl; left; auto.
      * intros p Hp. specialize (Ho1 p Hp). split; intros Hx; apply Ho1; [left; auto|right; auto]. Qed.

Lemma mov_flights_spec old r1 busy :
  Kq old -> Uq old -> mov_flights P prog old = (r1, busy) ->
  Kq r1 /\ Uq r1 /\
  (forall u i l, In (i, l) (get r1 u) ->
     (In (i, l) (get old u) /\ (In u (outs P) -> l = LD)) \/
     (l = LU /\ exists h l0, In h (preds_of P u) /\ In (i, l0) (get old h) /\ l0 <> LD /\
                            supports P u (cat_of prog i) = true)) /\
  (forall u i l, In (i, l) (get old u) -> inrec r1 i \/ (In u (outs P) /\ l <> LD /\ ~ inrec r1 i)) /\
  (forall u i, In (i, LD) (get old u) -> In (i, LD) (get r1 u)).
Proof. intros HK HU H. unfold mov_flights in H.
  destruct (MI_fold old (p_out P ++ p_int P) [] (flush P old) false) as [seen HI].
  - auto.
  - apply (okorder_funits P Hwf).
  - apply MI_flush; auto.
  - rewrite H in HI. simpl in HI. destruct HI as (HK1 & HU1 & M1 & M2 & M3).
    assert (A1 : forall u i l, In (i, l) (get r1 u) ->
     (In (i, l) (get old u) /\ (In u (outs P) -> l = LD)) \/
     (l = LU /\ exists h l0, In h (preds_of P u) /\ In (i, l0) (get old h) /\ l0 <> LD /\
                            supports P u (cat_of prog i) = true)).
    { intros u i l Hin. destruct (M1 _ _ _ Hin) as [G|(_ & G)]; auto. }
    split; auto. split; auto. split; auto. split; auto.
    intros u i l Hin. destruct (M2 _ _ _ Hin) as [G|[G1 G2]]; auto. right. split; auto. split; auto.
    intros (u' & l' & Hin'). destruct (A1 _ _ _ Hin') as [[G3 G4]|(_ & h & l0 & Hh & Hil & _)].
    + destruct (Uq_same _ _ _ _ _ _ HU Hin G3) as [-> ->]. apply G2. auto.
    + destruct (Uq_same _ _ _ _ _ _ HU Hin Hil) as [-> _]. eapply preds_not_out; eauto. Qed.

(* ================= issue ================= *)
Lemma try_ports_spec cat : forall ports r mu ix r' m',
  try_ports cat ports r mu ix = Some (r', m') ->
  exists u, In u ports /\ mem_str cat (u_caps u) = true /\
            r' = set r (u_name u) (get r (u_name u) ++ [(ix, LU)]).
Proof. induction ports as [|u t IH]; intros r mu ix r' m' H; cbn [try_ports] in H; [discriminate|].
  destruct (mem_str cat (u_caps u)) eqn:E1.
  - destruct ((mu && mem_str cat (u_mem u)) || (length (get r (u_name u)) =? u_width u)) eqn:E2.
    + apply IH in H. destruct H as (u' & H1 & H2). exists u'. split; [right; auto|auto].
    + inversion H; subst. exists u. split; [left; auto|auto].
  - apply IH in H. destruct H as (u' & H1 & H2). exists u'. split; [right; auto|auto]. Qed.

Lemma in_port_facts u : In u (in_ports_sorted P) ->
  In (u_name u) (in_names P) /\ forall c, supports P (u_name u) c = mem_str c (u_caps u).
Proof. intros H. unfold in_ports_sorted in H. apply isort_incl in H. split.
  - unfold in_names. apply in_map. rewrite in_app_iff in *. tauto.
  - intros c. unfold supports. rewrite (find_unit_in P Hwf u); auto.
    unfold all_units. rewrite !in_app_iff. apply in_app_iff in H. tauto. Qed.

Lemma fill_inputs_spec : forall fuel r1 mu ent r2 ent',
  Kq r1 -> Uq r1 -> (forall i, inrec r1 i -> i < ent) -> ent <= length prog ->
  fill_inputs fuel prog (in_ports_sorted P) r1 mu ent = (r2, ent') ->
  Kq r2 /\ Uq r2 /\ (forall i, inrec r2 i -> i < ent') /\ ent <= ent' <= length prog /\
  (forall u i l, In (i, l) (get r2 u) -> In (i, l) (get r1 u) \/
       (l = LU /\ ent <= i < ent' /\ In u (in_names P) /\ supports P u (cat_of prog i) = true)) /\
  (forall u e, In e (get r1 u) -> In e (get r2 u)) /\
  (forall i, ent <= i < ent' -> inrec r2 i).
Proof. induction fuel as [|fuel IH]; intros r1 mu ent r2 ent' HK HU Hlt Hle H.
  assert (Triv : (r1, ent) = (r2, ent') ->
    Kq r2 /\ Uq r2 /\ (forall i, inrec r2 i -> i < ent') /\ ent <= ent' <= length prog /\
    (forall u i l, In (i, l) (get r2 u) -> In (i, l) (get r1 u) \/
       (l = LU /\ ent <= i < ent' /\ In u (in_names P) /\ supports P u (cat_of prog i) = true)) /\
    (forall u e, In e (get r1 u) -> In e (get r2 u)) /\
    (forall i, ent <= i < ent' -> inrec r2 i)).
  { intros E. inversion E; subst. split; auto. split; auto. split; auto. split; [lia|].
    split; [auto|]. split; [auto|]. intros i Hi. lia. }
  - apply Triv. exact H.
  - assert (Triv : (r1, ent) = (r2, ent') ->
    Kq r2 /\ Uq r2 /\ (forall i, inrec r2 i -> i < ent') /\ ent <= ent' <= length prog /\
    (forall u i l, In (i, l) (get r2 u) -> In (i, l) (get r1 u) \/
       (l = LU /\ ent <= i < ent' /\ In u (in_names P) /\ supports P u (cat_of prog i) = true)) /\
    (forall u e, In e (get r1 u) -> In e (get r2 u)) /\
    (forall i, ent <= i < ent' -> inrec r2 i)).
    { intros E. inversion E; subst. split; auto. split; auto. split; auto. split; [lia|].
    split; [auto|]. split; [auto|]. intros i Hi. lia. }
    cbn [fill_inputs] in H. destruct (nth_error prog ent) as [ins|] eqn:En; [|auto].
    destruct (try_ports (i_cat ins) (in_ports_sorted P) r1 mu ent) as [[r' m']|] eqn:Et; [|auto].
    clear Triv. apply try_ports_spec in Et. destruct Et as (u & Hu & Hcap & ->).
    assert (Hlen : ent < length prog) by (apply nth_error_Some; congruence).
    assert (Hnot : ~ inrec r1 ent) by (intros Hin; apply Hlt in Hin; lia).
    assert (Hcat : cat_of prog ent = i_cat ins) by (unfold cat_of; rewrite En; auto).
    set (r' := set r1 (u_name u) (get r1 (u_name u) ++ [(ent, LU)])) in *.
    assert (Hg : forall k i l, In (i, l) (get r' k) -> In (i, l) (get r1 k) \/ (k = u_name u /\ i = ent /\ l = LU)).
    { intros k i l Hin. unfold r' in Hin. destruct (string_dec (u_name u) k) as [<-|Hne].
      - rewrite gss in Hin. apply in_app_iff in Hin. destruct Hin as [Hin|[E|[]]]; auto. inversion E; auto.
      - rewrite gso in Hin; auto. }
    assert (Hg2 : forall k e, In e (get r1 k) -> In e (get r' k)).
    { intros k e Hin. unfold r'. destruct (string_dec (u_name u) k) as [<-|Hne].
      - rewrite gss. apply in_or_app; auto.
      - rewrite gso; auto. }
    assert (Hg3 : In (ent, LU) (get r' (u_name u))).
    { unfold r'. rewrite gss. apply in_or_app. right; left; auto. }
    destruct (IH r' m' (S ent) r2 ent') as (K2 & U2 & L2 & Le2 & B1 & B2 & B3); auto.
    + apply set_nodup; auto.
    + apply Uq_set_app; auto.
    + intros i (k & l & Hin). apply Hg in Hin. destruct Hin as [Hin|(_ & -> & _)]; [|lia].
      assert (i < ent); [|lia]. apply Hlt. exists k, l. auto.
    + split; auto. split; auto. split; auto. split; [lia|]. split; [|split].
      * intros k i l Hin. destruct (B1 _ _ _ Hin) as [G|(G1 & G2 & G3 & G4)].
        -- apply Hg in G. destruct G as [G|(-> & -> & ->)]; auto. right. split; auto. split; [lia|].
           destruct (in_port_facts u Hu) as [F1 F2]. split; auto. rewrite F2, Hcat. auto.
        -- right. split; auto. split; [lia|]. auto.
      * intros k e Hin. auto.
      * intros i Hi. destruct (Nat.eq_dec i ent) as [->|Hne].
        -- exists (u_name u), LU. auto.
        -- apply B3. lia. Qed.

(* ================= hazards only relabel ================= *)
Definition relab (oldn : list entry) (e e' : entry) : Prop :=
  fst e' = fst e /\ (if regs_loaded oldn (fst e) then snd e' = LS else snd e' <> LS).

Lemma stall_unit_spec u oldn qs : forall es cl es' cl',
  stall_unit u oldn prog qs es cl = Ok (es', cl') -> Forall2 (relab oldn) es es'.
Proof. induction es as [|[i l] t IH]; intros cl es' cl' H; cbn [stall_unit] in H.
  - inversion H; constructor.
  - destruct (regs_loaded oldn i) eqn:El.
    + destruct (stall_unit u oldn prog qs t cl) as [[t' c']|] eqn:E; [|discriminate].
      inversion H; subst. constructor; eauto. split; simpl; auto. rewrite El. auto.
    + destruct (nth_error prog i) as [ins|]; [|discriminate].
      destruct (regs_avail u i ins qs) as [[regs|]|]; [| |discriminate].
      * destruct (stall_unit u oldn prog qs t _) as [[t' c']|] eqn:E; [|discriminate].
        inversion H; subst. constructor; eauto. split; simpl; auto. rewrite El. discriminate.
      * destruct (stall_unit u oldn prog qs t cl) as [[t' c']|] eqn:E; [|discriminate].
        inversion H; subst. constructor; eauto. split; simpl; auto. rewrite El. discriminate. Qed.

Lemma hazards_spec old qs : forall r cl r' cl',
  chk_hazards_units P old prog qs r cl = Ok (r', cl') ->
  map fst r' = map fst r /\ forall k, Forall2 (relab (get old k)) (get r k) (get r' k).
Proof. induction r as [|[n es] t IH]; intros cl r' cl' H; cbn [chk_hazards_units] in H.
  - inversion H; subst. split; auto. intros k. constructor.
  - destruct es as [|e es].
    + destruct (chk_hazards_units P old prog qs t cl) as [[t' c']|] eqn:E2; [|discriminate].
      inversion H; subst. destruct (IH _ _ _ E2) as [G1 G2]. split; [simpl; f_equal; auto|].
      intros k. cbn [get]. destruct (String.eqb k n); [constructor|auto].
    + destruct (find_unit P n); [|discriminate].
      destruct (stall_unit u (get old n) prog qs (e :: es) cl) as [[es' c']|] eqn:E; [|discriminate].
      destruct (chk_hazards_units P old prog qs t c') as [[t' c'']|] eqn:E2; [|discriminate].
      inversion H; subst. destruct (IH _ _ _ E2) as [G1 G2]. split; [simpl; f_equal; auto|].
      intros k. cbn [get]. destruct (String.eqb_spec k n) as [->|Hne]; auto.
      eapply stall_unit_spec; eauto. Qed.

Lemma F2_in_l {A B} (R : A -> B -> Prop) l l' : Forall2 R l l' -> forall a, In a l -> exists b, In b l' /\ R a b.
Proof. induction 1; intros a [].
  - subst. eexists; split; [left; reflexivity|auto].
  - destruct (IHForall2 _ H1) as [b [H2 H3]]. exists b. split; [right; auto|auto]. Qed.
Lemma F2_in_r {A B} (R : A -> B -> Prop) l l' : Forall2 R l l' -> forall b, In b l' -> exists a, In a l /\ R a b.
Proof. induction 1; intros b [].
  - subst. eexists; split; [left; reflexivity|auto].
  - destruct (IHForall2 _ H1) as [a [H2 H3]]. exists a. split; [right; auto|auto]. Qed.
Lemma relab_map_fst oldn l l' : Forall2 (relab oldn) l l' -> map fst l' = map fst l.
Proof. induction 1; simpl; auto. destruct H. f_equal; auto. Qed.

Lemma regs_loaded_iff oldn i : regs_loaded oldn i = true <-> exists l, In (i, l) oldn /\ l <> LD.
Proof. unfold regs_loaded. rewrite existsb_exists. split.
  - intros [[j l] [H1 H2]]. simpl in H2. apply andb_true_iff in H2. destruct H2 as [H2 H3].
    apply Nat.eqb_eq in H2. subst. exists l. split; auto. intros ->. discriminate.
  - intros [l [H1 H2]]. exists (i, l). split; auto. simpl. rewrite Nat.eqb_refl. destruct l; auto; congruence. Qed.

Lemma preds_irrefl u : ~ In u (preds_of P u).
Proof. intros H. apply preds_of_in in H. destruct H as (f & Hf & Hh & <-).
  destruct (okorder_in _ _ f _ (okorder_funits P Hwf) Hf Hh). auto. Qed.

(* ================= the whole cycle ================= *)
Theorem cycle_step old ent qs r1 busy r2 ent' r3 cl :
  Kq old -> Uq old -> (forall i, inrec old i -> i < ent) -> ent <= length prog ->
  mov_flights P prog old = (r1, busy) ->
  fill_inputs (S (length prog)) prog (in_ports_sorted P) r1 busy ent = (r2, ent') ->
  chk_hazards_units P old prog qs r2 [] = Ok (r3, cl) ->
  Kq r3 /\ Uq r3 /\ ent <= ent' <= length prog /\ (forall i, inrec r3 i -> i < ent') /\
  (forall i, ent <= i < ent' -> inrec r3 i) /\
  (forall u i l', In (i, l') (get r3 u) ->
     (exists l, In (i, l) (get old u) /\ (In u (out_names P) -> l = LD) /\
                (l <> LD -> l' = LS) /\ (l = LD -> l' <> LS)) \/
     (l' <> LS /\ exists h l, In h (preds_of P u) /\ In (i, l) (get old h) /\ l <> LD /\
                             supports P u (cat_of prog i) = true) \/
     (l' <> LS /\ ent <= i < ent' /\ In u (in_names P) /\ supports P u (cat_of prog i) = true)) /\
  (forall u i l, In (i, l) (get old u) -> inrec r3 i \/ (In u (out_names P) /\ l <> LD /\ ~ inrec r3 i)) /\
  (forall u i, In (i, LD) (get old u) -> exists l', In (i, l') (get r3 u)).
Proof. intros HK HU Hlt Hle Hm Hf Hh.
  destruct (mov_flights_spec old r1 busy HK HU Hm) as (K1 & U1 & A1 & A2 & A3).
  assert (Hlt1 : forall i, inrec r1 i -> i < ent).
  { intros i (u & l & Hin). apply Hlt. destruct (A1 _ _ _ Hin) as [[G _]|(_ & h & l0 & _ & G & _)].
    - exists u, l; auto. - exists h, l0; auto. }
  destruct (fill_inputs_spec _ _ _ _ _ _ K1 U1 Hlt1 Hle Hf) as (K2 & U2 & L2 & Le2 & B1 & B2 & B3).
  destruct (hazards_spec _ _ _ _ _ _ Hh) as [C1 C2].
  assert (I32 : forall i, inrec r3 i -> inrec r2 i).
  { intros i (u & l & Hin). destruct (F2_in_r _ _ _ (C2 u) _ Hin) as [[j l0] [G1 [G2 _]]]. simpl in G2; subst.
    exists u, l0. auto. }
  assert (I23 : forall u i l, In (i, l) (get r2 u) -> exists l', In (i, l') (get r3 u)).
  { intros u i l Hin. destruct (F2_in_l _ _ _ (C2 u) _ Hin) as [[j l'] [G1 [G2 _]]]. simpl in G2; subst.
    exists l'. auto. }
  split; [unfold Kq; rewrite C1; auto|]. split; [|split; [auto|split; [auto|split; [|split; [|split]]]]].
  - destruct U2 as [U21 U22]. split.
    + intros k. rewrite (relab_map_fst _ _ _ (C2 k)). auto.
    + intros k k' i. rewrite (relab_map_fst _ _ _ (C2 k)), (relab_map_fst _ _ _ (C2 k')). apply U22.
  - intros i Hi. destruct (B3 i Hi) as (u & l & Hin). destruct (I23 _ _ _ Hin) as [l' G]. exists u, l'. auto.
  - intros u i l' Hin. destruct (F2_in_r _ _ _ (C2 u) _ Hin) as [[j l2] [G1 [G2 G3]]]. simpl in G2, G3. subst j.
    destruct (B1 _ _ _ G1) as [G|(-> & Hi & Hu & Hs)].
    + destruct (A1 _ _ _ G) as [[Ho Hd]|(-> & h & l0 & Hp & Ho & Hl0 & Hs)].
      * left. exists l2. split; auto. split; auto. split.
        -- intros Hn. assert (E : regs_loaded (get old u) i = true) by (apply regs_loaded_iff; eauto).
           rewrite E in G3. auto.
        -- intros ->. destruct (regs_loaded (get old u) i) eqn:E; auto. apply regs_loaded_iff in E.
           destruct E as [l [E1 E2]]. destruct (Uq_same _ _ _ _ _ _ HU Ho E1) as [_ <-]. congruence.
      * right; left. split; [|exists h, l0; auto].
        destruct (regs_loaded (get old u) i) eqn:E; auto. apply regs_loaded_iff in E.
        destruct E as [l [E1 E2]]. destruct (Uq_same _ _ _ _ _ _ HU Ho E1) as [-> _].
        exfalso. eapply preds_irrefl; eauto.
    + right; right. split; auto.
      destruct (regs_loaded (get old u) i) eqn:E; auto. apply regs_loaded_iff in E.
      destruct E as [l [E1 E2]]. assert (i < ent) by (apply Hlt; exists u, l; auto). lia.
  - intros u i l Hin. destruct (A2 _ _ _ Hin) as [(u1 & l1 & G)|(G1 & G2 & G3)].
    + left. apply B2 in G. destruct (I23 _ _ _ G) as [l' G']. exists u1, l'. auto.
    + destruct (Nat.lt_ge_cases i ent) as [Hi|Hi]; [|assert (i < ent) by (apply Hlt; exists u, l; auto); lia].
      right. split; auto. split; auto. intros H3. apply I32 in H3. destruct H3 as (u2 & l2 & H3).
      destruct (B1 _ _ _ H3) as [G|(_ & G & _)]; [|lia]. apply G3. exists u2, l2. auto.
  - intros u i Hin. apply A3 in Hin. apply B2 in Hin. eapply I23; eauto. Qed.

End Cycle.
