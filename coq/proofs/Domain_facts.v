(* Domain_facts.v -- the harness decides membership in the domain of C01-C08 with wf_domainb (the
   quantifier text); the theorems are stated under wf_procb.  The two differ by the sink-first listing
   of internal units, which C12 proves for every processor object. *)
From PS Require Import Base Str Sim Graph Loader Diag LoaderSpec Domain.

Lemma wf_domain_sink_first_wf_proc (P : proc) :
  wf_domainb P = true -> sink_first (p_int P) [] = true -> wf_procb P = true.
Proof.
  unfold wf_domainb, wf_procb. intros H Hs.
  apply andb_true_iff in H. destruct H as [H Hl].
  apply andb_true_iff in H. destruct H as [H _].
  apply andb_true_iff in H. destruct H as [Hn Hp].
  rewrite Hn, Hp, Hs, Hl. reflexivity.
Qed.
Print Assumptions wf_domain_sink_first_wf_proc.
