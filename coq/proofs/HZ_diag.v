(* HZ_diag.v -- reading access times off a diagram (acc_time / performed / done_before under
   extension and truncation of the diagram) and the consequences of locks_ok (route_ok). *)
From Coq Require Import Lia.
From PS Require Import Base Bag RegAccess Sim Diag Lists C03_lists C03_step.

(* ---------- first_such ---------- *)
Lemma first_such_some f : forall n t a, first_such f t n = Some a ->
  t <= a < t + n /\ f a = true /\ forall x, t <= x < a -> f x = false.
Proof. induction n as [|n IH]; intros t a H; cbn [first_such] in H; [discriminate|].
  destruct (f t) eqn:E.
  - inversion H; subst. split; [lia|]. split; auto. intros x Hx. lia.
  - apply IH in H. destruct H as (H1 & H2 & H3). split; [lia|]. split; auto.
    intros x Hx. destruct (Nat.eq_dec x t) as [->|Hne]; auto. apply H3. lia. Qed.
Lemma first_such_none f : forall n t, first_such f t n = None -> forall x, t <= x < t + n -> f x = false.
Proof. induction n as [|n IH]; intros t H x Hx; cbn [first_such] in H; [lia|].
  destruct (f t) eqn:E; [discriminate|]. destruct (Nat.eq_dec x t) as [->|Hne]; auto. apply (IH (S t)); auto. lia. Qed.
Lemma first_such_app f : forall n m t,
  first_such f t (n + m) = match first_such f t n with Some a => Some a | None => first_such f (t + n) m end.
Proof. induction n as [|n IH]; intros m t; cbn [first_such plus].
  - rewrite Nat.add_0_r. reflexivity.
  - destruct (f t); auto. rewrite IH. replace (S t + n) with (t + S n) by lia. reflexivity. Qed.
Lemma first_such_ext f g : forall n t, (forall x, t <= x < t + n -> f x = g x) -> first_such f t n = first_such g t n.
Proof. induction n as [|n IH]; intros t H; cbn [first_such]; auto.
  rewrite (H t) by lia. destruct (g t); auto. apply IH. intros x Hx. apply H. lia. Qed.
Lemma first_such_ex f n t x : t <= x < t + n -> f x = true -> exists a, first_such f t n = Some a /\ a <= x.
Proof. intros Hx Hf. destruct (first_such f t n) as [a|] eqn:E.
  - exists a. split; auto. apply first_such_some in E. destruct E as (H1 & H2 & H3).
    destruct (Nat.le_gt_cases a x); auto. rewrite H3 in Hf; [discriminate|lia].
  - rewrite (first_such_none _ _ _ E x Hx) in Hf. discriminate. Qed.

(* ---------- performs_at as a function of the record ---------- *)
Definition lockb (P : proc) (k : aty) (u : string) : bool :=
  match k with RD => has_rl P u | WR => has_wl P u end.
Definition perf_rec (P : proc) (r : record) (i : nat) (k : aty) : bool :=
  existsb (fun pl => label_eqb (snd pl) LU && lockb P k (fst pl)) (places r i).
Lemma performs_at_rec P d t i k : performs_at P d t i k = perf_rec P (rec_at d t) i k.
Proof. destruct k; reflexivity. Qed.

Lemma label_eqb_eq a b : label_eqb a b = true <-> a = b.
Proof. destruct a, b; simpl; split; intros; try discriminate; auto. Qed.

Lemma places_In r i u l : In (u, l) (places r i) <-> exists es, In (u, es) r /\ In (i, l) es.
Proof. unfold places. rewrite in_flat_map. split.
  - intros [[k es] [H1 H2]]. cbn [fst snd] in H2. apply in_map_iff in H2. destruct H2 as [[j l'] [H2 H3]].
    cbn [fst snd] in H2. inversion H2; subst. apply filter_In in H3. destruct H3 as [H3 H4].
    cbn [fst] in H4. apply Nat.eqb_eq in H4. subst. eauto.
  - intros [es [H1 H2]]. exists (u, es). split; auto. cbn [fst snd]. apply in_map_iff.
    exists (i, l). split; auto. apply filter_In. split; auto. cbn [fst]. apply Nat.eqb_refl. Qed.

Lemma get_In_pair {A} (r : list (string * list A)) k e : In e (get r k) -> In (k, get r k) r.
Proof. induction r as [|[k' v'] t IH]; simpl; [tauto|].
  destruct (String.eqb_spec k k'); subst; auto. Qed.

Lemma places_get r i u l : Kq r -> (In (u, l) (places r i) <-> In (i, l) (get r u)).
Proof. intros HK. rewrite places_In. split.
  - intros [es [H1 H2]]. rewrite (get_in r u es HK H1). auto.
  - intros H. exists (get r u). split; auto. eapply get_In_pair; eauto. Qed.

Lemma perf_rec_iff P r i k : Kq r ->
  (perf_rec P r i k = true <-> exists u, In (i, LU) (get r u) /\ lockb P k u = true).
Proof. intros HK. unfold perf_rec. rewrite existsb_exists. split.
  - intros [[u l] [H1 H2]]. cbn [fst snd] in H2. apply andb_true_iff in H2. destruct H2 as [H2 H3].
    apply label_eqb_eq in H2. subst. exists u. split; auto. apply places_get in H1; auto.
  - intros [u [H1 H2]]. exists (u, LU). split; [apply places_get; auto|]. cbn [fst snd]. rewrite H2. reflexivity. Qed.

Lemma perf_rec_at P r i k u l : Kq r -> Uq r -> In (i, l) (get r u) ->
  perf_rec P r i k = label_eqb l LU && lockb P k u.
Proof. intros HK HU Hin. destruct (label_eqb l LU && lockb P k u) eqn:E.
  - apply andb_true_iff in E. destruct E as [E1 E2]. apply label_eqb_eq in E1. subst.
    apply perf_rec_iff; eauto.
  - destruct (perf_rec P r i k) eqn:E2; auto. apply perf_rec_iff in E2; auto. destruct E2 as [u' [H1 H2]].
    destruct (Uq_same _ _ _ _ _ _ HU Hin H1) as [-> ->]. rewrite H2 in E. discriminate. Qed.

Lemma perf_rec_inrec P r i k : Kq r -> perf_rec P r i k = true -> inrec r i.
Proof. intros HK H. apply perf_rec_iff in H; auto. destruct H as [u [H _]]. exists u, LU. auto. Qed.

(* ---------- acc_time / performed under extension ---------- *)
Lemma rec_at_app1 d r t : t < length d -> rec_at (d ++ [r]) t = rec_at d t.
Proof. intros H. unfold rec_at. apply app_nth1; auto. Qed.
Lemma rec_at_app2 d r : rec_at (d ++ [r]) (length d) = r.
Proof. unfold rec_at. rewrite app_nth2, Nat.sub_diag by lia. reflexivity. Qed.

Lemma acc_time_app P d r i k :
  acc_time P (d ++ [r]) i k =
  match acc_time P d i k with Some a => Some a | None => if perf_rec P r i k then Some (length d) else None end.
Proof. unfold acc_time. rewrite app_length. cbn [length]. rewrite first_such_app.
  rewrite (first_such_ext _ (fun t => performs_at P d t i k) (length d) 0).
  - destruct (first_such _ 0 (length d)); auto. cbn [first_such plus].
    rewrite performs_at_rec, rec_at_app2. reflexivity.
  - intros x Hx. rewrite !performs_at_rec, rec_at_app1 by lia. reflexivity. Qed.
Lemma performed_app P d r i k : performed P (d ++ [r]) i k = performed P d i k || perf_rec P r i k.
Proof. unfold performed. rewrite acc_time_app. destruct (acc_time P d i k); auto.
  destruct (perf_rec P r i k); auto. Qed.

Lemma acc_time_some P d i k a : acc_time P d i k = Some a ->
  a < length d /\ performs_at P d a i k = true /\ forall x, x < a -> performs_at P d x i k = false.
Proof. unfold acc_time. intros H. apply first_such_some in H. destruct H as (H1 & H2 & H3).
  split; [lia|]. split; auto. intros x Hx. apply H3. lia. Qed.
Lemma acc_time_ex P d i k t : t < length d -> performs_at P d t i k = true ->
  exists a, acc_time P d i k = Some a /\ a <= t.
Proof. intros Ht H. unfold acc_time. apply (first_such_ex (fun t => performs_at P d t i k)); auto. lia. Qed.
Lemma performed_iff P d i k : performed P d i k = true <-> exists t, t < length d /\ performs_at P d t i k = true.
Proof. unfold performed. split.
  - destruct (acc_time P d i k) as [a|] eqn:E; [|discriminate]. intros _. apply acc_time_some in E.
    exists a. tauto.
  - intros [t [H1 H2]]. destruct (acc_time_ex P d i k t H1 H2) as [a [-> _]]. auto. Qed.

(* ---------- truncation ---------- *)
Lemma nth_firstn_lt {A} (l : list A) : forall n x d, x < n -> nth x (firstn n l) d = nth x l d.
Proof. induction l as [|a l IH]; intros [|n] [|x] d H; simpl; auto; try lia. apply IH. lia. Qed.
Lemma acc_time_firstn P d i k t : t <= length d ->
  acc_time P (firstn t d) i k =
  match acc_time P d i k with Some a => if a <? t then Some a else None | None => None end.
Proof. intros Ht. unfold acc_time. rewrite firstn_length_le by auto.
  replace (length d) with (t + (length d - t)) by lia. rewrite first_such_app.
  rewrite (first_such_ext _ (fun x => performs_at P d x i k) t 0).
  - destruct (first_such (fun x => performs_at P d x i k) 0 t) as [a|] eqn:E.
    + apply first_such_some in E. destruct (Nat.ltb_spec a t); auto. lia.
    + destruct (first_such _ (0 + t) (length d - t)) as [a|] eqn:E2; auto.
      apply first_such_some in E2. destruct (Nat.ltb_spec a t); auto. lia.
  - intros x Hx. rewrite !performs_at_rec. unfold rec_at. rewrite nth_firstn_lt by lia. reflexivity. Qed.
Lemma done_before_firstn P d i k t : t <= length d -> done_before P d i k t = performed P (firstn t d) i k.
Proof. intros Ht. unfold done_before, performed. rewrite acc_time_firstn by auto.
  destruct (acc_time P d i k) as [a|]; auto. destruct (a <? t); auto. Qed.
Lemma performed_firstn_mono P d i k t : t <= length d -> performed P (firstn t d) i k = true -> performed P d i k = true.
Proof. intros Ht. unfold performed. rewrite acc_time_firstn by auto. destruct (acc_time P d i k); auto. Qed.

(* ---------- routes ---------- *)
Definition bn (b : bool) : nat := if b then 1 else 0.

Lemma route_ok_S f P c u r w :
  route_ok (S f) P c u r w =
  negb (has_rl P u && (0 <? w))
  && match filter (fun s => supports P s c) (succs_of P u) with
     | [] => (r + bn (has_rl P u) =? 1) && (w + bn (has_wl P u) =? 1)
     | nxt => forallb (fun s => route_ok f P c s (r + bn (has_rl P u)) (w + bn (has_wl P u))) nxt
     end.
Proof. reflexivity. Qed.

Lemma route_bounds : forall f P c u r w, route_ok f P c u r w = true ->
  r + bn (has_rl P u) <= 1 /\ w + bn (has_wl P u) <= 1 /\ (has_rl P u = true -> w = 0) /\
  (w + bn (has_wl P u) = 1 -> r + bn (has_rl P u) = 1).
Proof. induction f as [|f IH]; intros P c u r w H; [discriminate|]. rewrite route_ok_S in H.
  apply andb_true_iff in H. destruct H as [H0 H].
  assert (G0 : has_rl P u = true -> w = 0).
  { intros E. rewrite E in H0. cbn [andb] in H0. apply negb_true_iff in H0. apply Nat.ltb_ge in H0. lia. }
  destruct (filter (fun s => supports P s c) (succs_of P u)) as [|s nxt].
  - apply andb_true_iff in H. destruct H as [H1 H2]. apply Nat.eqb_eq in H1, H2.
    split; [lia|]. split; [lia|]. split; auto.
  - cbn [forallb] in H. apply andb_true_iff in H. destruct H as [H1 _]. apply IH in H1.
    destruct H1 as (A1 & A2 & A3 & A4). split; [lia|]. split; [lia|]. split; auto.
    intros Hw. destruct (has_rl P s) eqn:Es.
    + specialize (A3 eq_refl). lia.
    + cbn [bn] in A1, A4. destruct (has_wl P s); cbn [bn] in A2, A4; lia. Qed.

Lemma route_step f P c h u r w : route_ok f P c h r w = true -> In u (succs_of P h) -> supports P u c = true ->
  exists f', route_ok f' P c u (r + bn (has_rl P h)) (w + bn (has_wl P h)) = true.
Proof. destruct f as [|f]; [discriminate|]. rewrite route_ok_S. intros H Hin Hs.
  apply andb_true_iff in H. destruct H as [_ H].
  assert (G : In u (filter (fun s => supports P s c) (succs_of P h))) by (apply filter_In; auto).
  destruct (filter (fun s => supports P s c) (succs_of P h)) as [|s nxt]; [destruct G|].
  rewrite forallb_forall in H. exists f. apply H. auto. Qed.

Lemma route_end f P c u r w : route_ok f P c u r w = true -> succs_of P u = [] ->
  r + bn (has_rl P u) = 1 /\ w + bn (has_wl P u) = 1.
Proof. destruct f as [|f]; [discriminate|]. rewrite route_ok_S. intros H Hs. rewrite Hs in H. cbn [filter] in H.
  apply andb_true_iff in H. destruct H as [_ H]. apply andb_true_iff in H. destruct H as [H1 H2].
  apply Nat.eqb_eq in H1, H2. auto. Qed.

Lemma preds_succs P h u : In h (preds_of P u) -> In u (succs_of P h).
Proof. intros H. apply preds_of_in in H. destruct H as (f & Hf & Hh & <-). unfold succs_of.
  apply in_map_iff. exists f. split; auto. apply filter_In. split; auto. apply mem_str_In. auto. Qed.

Lemma out_no_succs P u : wf_procb P = true -> In u (out_names P) -> succs_of P u = [].
Proof. intros Hwf Hu. unfold succs_of.
  destruct (filter (fun f => mem_str u (f_preds f)) (funits P)) as [|f l] eqn:E; auto. exfalso.
  assert (G : In f (filter (fun f => mem_str u (f_preds f)) (funits P))) by (rewrite E; left; auto).
  apply filter_In in G. destruct G as [G1 G2]. apply mem_str_In in G2.
  rewrite <- (preds_of_f P Hwf f G1) in G2. apply (preds_not_out P Hwf) in G2. auto. Qed.

Lemma route_init P c u : wf_procb P = true -> In u (in_names P) -> supports P u c = true ->
  route_ok (S (nunits P)) P c u 0 0 = true.
Proof. intros Hwf Hu Hs. unfold in_names in Hu. apply in_map_iff in Hu. destruct Hu as [p [<- Hp]].
  assert (Hall : In p (all_units P)).
  { unfold all_units. rewrite !in_app_iff. apply in_app_iff in Hp. tauto. }
  unfold supports in Hs. rewrite (find_unit_in P Hwf p Hall) in Hs.
  assert (Hl : locks_ok P = true).
  { unfold wf_procb in Hwf. apply andb_true_iff in Hwf. tauto. }
  unfold locks_ok in Hl. rewrite forallb_forall in Hl. specialize (Hl p Hp).
  rewrite forallb_forall in Hl. apply Hl. apply mem_str_In. auto. Qed.
