(* Exact3_base -- bridges shared by Exact3_c01.v / Exact3_c02.v: on a diagram whose records have
   duplicate-free unit keys (keys_ok, the first half of diagram_shape)
     performs_at  <->  performs           (places over the raw key/value list  vs  occ = get)
     acc_time     =    the first performing cycle
     done_before  <->  performed_before
     blocked      <->  outstanding.
   Nothing is assumed about the processor, the program, or how the diagram was produced.
   Uses model/, spec/, the standard library and the shape lemmas of Exact_c04 / Exact2_c06 / Exact2_c07. *)
From Coq Require Import Lia.
From PS Require Import Base Bag RegAccess Sim Diag Readings_defs Exact_defs Exact_c04 Exact2_c06 Exact2_c07.

(* ---------- records ---------- *)
Lemma z_keys_at d t : keys_ok d -> NoDup (map fst (rec_at d t)).
Proof. intros H. destruct (Nat.lt_ge_cases t (length d)) as [Ht|Ht].
  - apply H. apply x_rec_at_In; auto.
  - rewrite x_rec_at_over; auto. constructor. Qed.

Lemma z_occ_lt d t u (e : entry) : In e (occ d t u) -> t < length d.
Proof. intros H. apply y_occ_rec in H. eapply y_rec_at_nonempty; eauto. Qed.

Lemma z_places_In r i u l : In (u, l) (places r i) <-> exists es, In (u, es) r /\ In (i, l) es.
Proof. unfold places. rewrite in_flat_map. split.
  - intros [[k es] [H1 H2]]. cbn [fst snd] in H2. apply in_map_iff in H2. destruct H2 as [[j l'] [H2 H3]].
    cbn [fst snd] in H2. inversion H2; subst. apply filter_In in H3. destruct H3 as [H3 H4].
    cbn [fst] in H4. apply Nat.eqb_eq in H4. subst. eauto.
  - intros [es [H1 H2]]. exists (u, es). split; auto. cbn [fst snd]. apply in_map_iff.
    exists (i, l). split; auto. apply filter_In. split; auto. cbn [fst]. apply Nat.eqb_refl. Qed.

Lemma z_places_get r i u l : NoDup (map fst r) -> (In (u, l) (places r i) <-> In (i, l) (get r u)).
Proof. intros HK. rewrite z_places_In. split.
  - intros [es [H1 H2]]. rewrite (x_get_nodup r u es HK H1). auto.
  - intros H. exists (get r u). split; auto. eapply x_get_In; eauto. Qed.

(* ---------- performs_at <-> performs ---------- *)
Definition z_lockb (P : proc) (k : aty) (u : string) : bool :=
  match k with RD => has_rl P u | WR => has_wl P u end.

Lemma z_performs_at_unfold P d t i k :
  performs_at P d t i k =
  existsb (fun pl => label_eqb (snd pl) LU && z_lockb P k (fst pl)) (places (rec_at d t) i).
Proof. destruct k; reflexivity. Qed.

Lemma z_performs_at_iff P d t i k : keys_ok d -> (performs_at P d t i k = true <-> performs P d t i k).
Proof. intros HK. rewrite z_performs_at_unfold, existsb_exists. unfold performs, occ.
  pose proof (z_keys_at d t HK) as Hnd. split.
  - intros [[u l] [H1 H2]]. cbn [fst snd] in H2. apply andb_true_iff in H2. destruct H2 as [H2 H3].
    apply y_label_eqb in H2. subst l. exists u. split; [apply z_places_get in H1; auto|].
    destruct k; exact H3.
  - intros [u [H1 H2]]. exists (u, LU). split; [apply z_places_get; auto|]. cbn [fst snd label_eqb andb].
    destruct k; exact H2. Qed.

Lemma z_performs_lt P d t i k : performs P d t i k -> t < length d.
Proof. intros (u & H & _). exact (z_occ_lt _ _ _ _ H). Qed.

(* ---------- first_such / acc_time ---------- *)
Lemma z_first_such_some f : forall n t a, first_such f t n = Some a ->
  t <= a < t + n /\ f a = true /\ forall x, t <= x < a -> f x = false.
Proof. induction n as [|n IH]; intros t a H; cbn [first_such] in H; [discriminate|].
  destruct (f t) eqn:E.
  - inversion H; subst. split; [lia|]. split; auto. intros x Hx. lia.
  - apply IH in H. destruct H as (H1 & H2 & H3). split; [lia|]. split; auto.
    intros x Hx. destruct (Nat.eq_dec x t) as [->|Hne]; auto. apply H3. lia. Qed.

Lemma z_first_such_none f : forall n t, first_such f t n = None -> forall x, t <= x < t + n -> f x = false.
Proof. induction n as [|n IH]; intros t H x Hx; cbn [first_such] in H; [lia|].
  destruct (f t) eqn:E; [discriminate|]. destruct (Nat.eq_dec x t) as [->|Hne]; auto. apply (IH (S t)); auto. lia. Qed.

Lemma z_first_such_ex f n t x : t <= x < t + n -> f x = true -> exists a, first_such f t n = Some a /\ a <= x.
Proof. intros Hx Hf. destruct (first_such f t n) as [a|] eqn:E.
  - exists a. split; auto. apply z_first_such_some in E. destruct E as (H1 & H2 & H3).
    destruct (Nat.le_gt_cases a x); auto. rewrite H3 in Hf; [discriminate|lia].
  - rewrite (z_first_such_none _ _ _ E x Hx) in Hf. discriminate. Qed.

(* acc_time is the FIRST performing cycle *)
Lemma z_acc_time_some P d i k a : keys_ok d -> acc_time P d i k = Some a ->
  a < length d /\ performs P d a i k /\ forall x, x < a -> ~ performs P d x i k.
Proof. intros HK H. unfold acc_time in H. apply z_first_such_some in H. destruct H as (H1 & H2 & H3).
  split; [lia|]. split; [apply z_performs_at_iff; auto|].
  intros x Hx Hp. apply z_performs_at_iff in Hp; auto. rewrite H3 in Hp; [discriminate|lia]. Qed.

Lemma z_acc_time_ex P d i k t : keys_ok d -> performs P d t i k ->
  exists a, acc_time P d i k = Some a /\ a <= t.
Proof. intros HK Hp. pose proof (z_performs_lt _ _ _ _ _ Hp) as Ht. apply z_performs_at_iff in Hp; auto.
  unfold acc_time. apply (z_first_such_ex (fun t => performs_at P d t i k)); auto. lia. Qed.

Lemma z_acc_time_none P d i k : keys_ok d -> acc_time P d i k = None -> forall t, ~ performs P d t i k.
Proof. intros HK E t Hp. destruct (z_acc_time_ex P d i k t HK Hp) as (a & Ea & _). congruence. Qed.

(* ---------- done_before <-> performed_before ---------- *)
Lemma z_done_before_iff P d i k t : keys_ok d ->
  (done_before P d i k t = true <-> performed_before P d i k t).
Proof. intros HK. unfold done_before, performed_before. split.
  - destruct (acc_time P d i k) as [a|] eqn:E; [|discriminate]. intros Ha. apply Nat.ltb_lt in Ha.
    apply z_acc_time_some in E; auto. destruct E as (_ & E & _). exists a. split; auto.
  - intros (a & Ha & Hp). destruct (z_acc_time_ex P d i k a HK Hp) as (a' & -> & Hle). apply Nat.ltb_lt. lia. Qed.

Lemma z_ndone_iff P d i k t : keys_ok d ->
  (negb (done_before P d i k t) = true <-> ~ performed_before P d i k t).
Proof. intros HK. rewrite negb_true_iff, <- not_true_iff_false, (z_done_before_iff P d i k t HK). tauto. Qed.

Lemma z_mem_str_In x l : mem_str x l = true <-> In x l.
Proof. unfold mem_str. rewrite existsb_exists. split.
  - intros [y [H1 H2]]. apply String.eqb_eq in H2. subst. auto.
  - intros H. exists x. split; auto. apply String.eqb_refl. Qed.

(* ---------- blocked <-> outstanding ---------- *)
Lemma z_blocked_iff P prog d t i u : keys_ok d ->
  (blocked P prog d t i u = true <-> outstanding P prog d t i u).
Proof. intros HK. unfold blocked, outstanding. rewrite orb_true_iff, !andb_true_iff.
  assert (E1 : existsb (fun r => existsb (fun k => String.eqb (dst_of prog k) r && negb (done_before P d k WR t))
                                          (seq 0 i)) (srcs_of prog i) = true <->
               exists k r, k < i /\ In r (srcs_of prog i) /\ dst_of prog k = r /\ ~ performed_before P d k WR t).
  { rewrite existsb_exists. split.
    - intros (r & Hr & H). apply existsb_exists in H. destruct H as (k & Hk & H). apply in_seq in Hk.
      apply andb_true_iff in H. destruct H as [H1 H2]. apply String.eqb_eq in H1. apply z_ndone_iff in H2; auto.
      exists k, r. repeat split; auto. lia.
    - intros (k & r & Hk & Hr & Hd & Hn). exists r. split; auto. apply existsb_exists. exists k.
      split; [apply in_seq; lia|]. apply andb_true_iff. split; [apply String.eqb_eq; auto|apply z_ndone_iff; auto]. }
  assert (E2 : existsb (fun k => (mem_str (dst_of prog i) (srcs_of prog k) && negb (done_before P d k RD t))
                                 || (String.eqb (dst_of prog k) (dst_of prog i) && negb (done_before P d k WR t)))
                       (seq 0 i) = true <->
               exists k, k < i /\ ((In (dst_of prog i) (srcs_of prog k) /\ ~ performed_before P d k RD t)
                                   \/ (dst_of prog k = dst_of prog i /\ ~ performed_before P d k WR t))).
  { rewrite existsb_exists. split.
    - intros (k & Hk & H). apply in_seq in Hk. exists k. split; [lia|]. apply orb_true_iff in H.
      destruct H as [H|H]; apply andb_true_iff in H; destruct H as [H1 H2]; apply z_ndone_iff in H2; auto.
      + left. split; auto. apply z_mem_str_In; auto.
      + right. split; auto. apply String.eqb_eq; auto.
    - intros (k & Hk & H). exists k. split; [apply in_seq; lia|]. apply orb_true_iff.
      destruct H as [[H1 H2]|[H1 H2]]; [left|right]; apply andb_true_iff; split;
        try (apply z_ndone_iff; auto); [apply z_mem_str_In; auto|apply String.eqb_eq; auto]. }
  rewrite E1, E2. tauto. Qed.
