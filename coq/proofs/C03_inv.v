(* C03_inv.v -- run-level invariants: in every record of a reachable table keys are distinct, every
   instruction index occurs at most once and is below `entered`.  Gives C03_unique_place and
   C03_never_leaves_D. *)
From Coq Require Import Lia.
From PS Require Import Base Bag RegAccess Sim Diag Lists Run C03_lists C03_step.

Definition ids (r : record) : list nat := flat_map (fun kv => map fst (snd kv)) r.

Lemma ids_in_raw r i : In i (ids r) <-> exists k v, In (k, v) r /\ In i (map fst v).
Proof. unfold ids. rewrite in_flat_map. split.
  - intros [[k v] [H1 H2]]. exists k, v. auto.
  - intros (k & v & H1 & H2). exists (k, v). auto. Qed.

Lemma get_cons_ne {A} (k k' : string) (v : list A) t : k' <> k -> get ((k, v) :: t) k' = get t k'.
Proof. intros H. simpl. destruct (String.eqb_spec k' k); congruence. Qed.

Lemma Uq_tail k v t : ~ In k (map fst t) -> Uq ((k, v) :: t) -> Uq t.
Proof. intros Hk [H1 H2]. split.
  - intros k1. destruct (string_dec k1 k) as [->|Hne].
    + rewrite get_notin by auto. constructor.
    + rewrite <- (get_cons_ne k k1 v t Hne). auto.
  - intros k1 k2 i Ha Hb.
    destruct (string_dec k1 k) as [->|Hne1]; [rewrite get_notin in Ha by auto; destruct Ha|].
    destruct (string_dec k2 k) as [->|Hne2]; [rewrite get_notin in Hb by auto; destruct Hb|].
    rewrite <- (get_cons_ne k k1 v t Hne1) in Ha. rewrite <- (get_cons_ne k k2 v t Hne2) in Hb. eauto. Qed.

Lemma Uq_ids r : Kq r -> Uq r -> NoDup (ids r).
Proof. unfold Kq. induction r as [|[k v] t IH]; intros HK HU; simpl; [constructor|].
  inversion HK; subst. simpl in H1.
  assert (Hv : get ((k, v) :: t) k = v) by (simpl; rewrite String.eqb_refl; auto).
  apply NoDup_app_intro.
  - rewrite <- Hv. apply HU.
  - apply IH; auto. eapply Uq_tail; eauto.
  - intros x Hx Hy. apply ids_in_raw in Hy. destruct Hy as (k' & v' & Hin & Hx').
    assert (k' <> k) by (intros ->; apply H1; eapply in_fst; eauto).
    assert (Hg : get ((k, v) :: t) k' = v') by (rewrite get_cons_ne by auto; apply get_in; auto).
    destruct HU as [_ HU2]. apply H. symmetry. apply (HU2 k k' x); [rewrite Hv|rewrite Hg]; auto. Qed.

Lemma Kq_nil : Kq []. Proof. constructor. Qed.
Lemma Uq_nil : Uq []. Proof. split; simpl; [constructor|tauto]. Qed.

Lemma last_Forall {A} (Q : A -> Prop) d x : Forall Q d -> Q x -> Q (last d x).
Proof. induction d as [|a d IH]; intros H Hx; simpl; auto. inversion H; subst.
  destruct d; auto. Qed.
Lemma last_firstn {A} (x : A) : forall d t, t < length d -> last (firstn (S t) d) x = nth t d x.
Proof. induction d as [|a d IH]; intros t Ht; simpl in Ht; [lia|]. destruct t.
  - simpl. destruct d; auto.
  - specialize (IH t ltac:(lia)). change (firstn (S (S t)) (a :: d)) with (a :: firstn (S t) d).
    change (nth (S t) (a :: d) x) with (nth t d x). rewrite <- IH.
    destruct d; [simpl in Ht; lia|]. reflexivity. Qed.

Section Inv.
Variable P : proc.
Hypothesis Hwf : wf_procb P = true.
Variable prog : list instr.

Definition rec_ok (ent : nat) (r : record) : Prop := Kq r /\ Uq r /\ forall i, inrec r i -> i < ent.
Definition RI (s : state) : Prop := Forall (rec_ok (entered s)) (tbl s) /\ entered s <= length prog.

Lemma rec_ok_nil ent : rec_ok ent [].
Proof. split; [apply Kq_nil|]. split; [apply Uq_nil|]. intros i (u & l & []). Qed.
Lemma rec_ok_mono ent ent' r : ent <= ent' -> rec_ok ent r -> rec_ok ent' r.
Proof. intros Hle (H1 & H2 & H3). split; auto. split; auto. intros i Hi. apply H3 in Hi. lia. Qed.
Lemma RI_last s : RI s -> rec_ok (entered s) (last (tbl s) []).
Proof. intros [H _]. apply last_Forall; auto. apply rec_ok_nil. Qed.

(* one successful cycle from a state satisfying RI, with all the step facts *)
Lemma RI_step s s' : RI s -> run_cycle P prog s = inl s' ->
  exists r3, tbl s' = tbl s ++ [r3] /\ RI s' /\ entered s <= entered s' /\
    exited s' = exited s + count_outputs P r3 /\
    let old := last (tbl s) [] in
    (forall i, entered s <= i < entered s' -> inrec r3 i) /\
    (forall u i l', In (i, l') (get r3 u) ->
       (exists l, In (i, l) (get old u) /\ (In u (out_names P) -> l = LD) /\
                  (l <> LD -> l' = LS) /\ (l = LD -> l' <> LS)) \/
       (l' <> LS /\ exists h l, In h (preds_of P u) /\ In (i, l) (get old h) /\ l <> LD /\
                               supports P u (cat_of prog i) = true) \/
       (l' <> LS /\ entered s <= i < entered s' /\ In u (in_names P) /\
        supports P u (cat_of prog i) = true)) /\
    (forall u i l, In (i, l) (get old u) -> inrec r3 i \/ (In u (out_names P) /\ l <> LD /\ ~ inrec r3 i)) /\
    (forall u i, In (i, LD) (get old u) -> exists l', In (i, l') (get r3 u)).
Proof. intros HR Hrun. pose proof (RI_last s HR) as (HK & HU & Hlt). destruct HR as [HF Hle].
  destruct (run_cycle_inl _ _ _ _ Hrun) as (r1 & busy & r2 & ent & r3 & cl & qs' & H1 & H2 & H3 & _ & _ & ->).
  destruct (cycle_step P Hwf prog _ _ _ _ _ _ _ _ _ HK HU Hlt Hle H1 H2 H3)
    as (K3 & U3 & Le3 & Lt3 & S4 & S1 & S2 & S3).
  exists r3. cbn [tbl entered exited]. split; auto. split.
  - split; cbn [tbl entered]; [|lia]. apply Forall_app. split.
    + eapply Forall_impl; [|exact HF]. intros r Hr. eapply rec_ok_mono; [|exact Hr]. lia.
    + constructor; [|constructor]. split; auto.
  - split; [lia|]. split; auto. Qed.

Lemma reach_RI s : reach P prog s -> RI s.
Proof. induction 1 as [|s s' Hr IH Hc Hrun].
  - split; simpl; [constructor|lia].
  - destruct (RI_step s s' IH Hrun) as (r3 & _ & H & _). exact H. Qed.

End Inv.

Lemma sim_result_reach fuel P prog tg d : sim_result fuel P prog tg d -> exists s, reach P prog s /\ tbl s = d.
Proof. intros [[_ H]|[_ H]]; apply (simulate_reach P prog fuel d); auto. Qed.

Lemma C03_unique_place_lemma :
  forall (P : proc) (prog : list instr) (fuel : nat) (tg : dtag) (d : diagram),
    wf_procb P = true -> sim_result fuel P prog tg d ->
    forall r, In r d -> NoDup (map fst r) /\ NoDup (flat_map (fun kv => map fst (snd kv)) r).
Proof. intros P prog fuel tg d Hwf Hs r Hr. destruct (sim_result_reach _ _ _ _ _ Hs) as (s & Hreach & <-).
  destruct (reach_RI P Hwf prog s Hreach) as [HF _]. rewrite Forall_forall in HF.
  destruct (HF r Hr) as (HK & HU & _). split; auto. apply Uq_ids; auto. Qed.

Lemma C03_never_leaves_D_lemma :
  forall (P : proc) (prog : list instr) (fuel : nat) (tg : dtag) (d : diagram),
    wf_procb P = true -> sim_result fuel P prog tg d ->
    forall t i u, S t < length d -> In (i, LD) (occ d t u) -> exists l, In (i, l) (occ d (S t) u).
Proof. intros P prog fuel tg d Hwf Hs t i u Ht Hin.
  destruct (sim_result_reach _ _ _ _ _ Hs) as (s & Hreach & <-).
  destruct (reach_tbl_prefix P prog s Hreach (S t) Ht) as (s0 & s1 & Hr0 & _ & Hrun & Ht0 & _ & Hn).
  destruct (RI_step P Hwf prog s0 s1 (reach_RI P Hwf prog s0 Hr0) Hrun) as (r3 & Htbl & _ & _ & _ & _ & _ & _ & HD).
  unfold occ, rec_at in *. rewrite Hn, Htbl, last_last. apply HD.
  rewrite Ht0, last_firstn by lia. exact Hin. Qed.
