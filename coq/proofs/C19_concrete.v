(* C19_concrete.v -- facts about the concrete register access queue alone:
   well-formedness (no empty group), size measure, servable => dequeue succeeds. *)
From Coq Require Import Lia.
From PS Require Import Base RegAccess QueueSpec Lists.

Definition ne_group (g : group) : bool := match g_reqs g with [] => false | _ => true end.
Definition wfq (q : queue) : Prop := Forall (fun g => g_reqs g <> []) q.
Definition size (q : queue) : nat := fold_right (fun g n => length (g_reqs g) + n) 0 q.

Lemma set_add_ne o l : set_add o l <> [].
Proof. unfold set_add. destruct (memn o l) eqn:E.
  - intros ->. discriminate.
  - destruct l; discriminate. Qed.
Lemma set_add_len o l : length (set_add o l) <= S (length l).
Proof. unfold set_add. destruct (memn o l); [lia|]. rewrite app_length. simpl. lia. Qed.

Lemma qb_append_wf q ty o : wfq q -> wfq (qb_append q ty o).
Proof. unfold wfq. induction q as [|g t IH]; intros H.
  - simpl. constructor; [simpl; discriminate|constructor].
  - inversion H as [|? ? Hg Ht]; subst. destruct t as [|g2 t'].
    + simpl. destruct (aty_eqb ty RD && aty_eqb (g_ty g) RD).
      * constructor; [simpl; apply set_add_ne|constructor].
      * constructor; auto; constructor; auto; simpl; discriminate.
    + change (qb_append (g :: g2 :: t') ty o) with (g :: qb_append (g2 :: t') ty o).
      constructor; auto. Qed.

Lemma qb_append_size q ty o : size (qb_append q ty o) <= S (size q).
Proof. induction q as [|g t IH].
  - simpl. lia.
  - destruct t as [|g2 t'].
    + simpl. destruct (aty_eqb ty RD && aty_eqb (g_ty g) RD); simpl.
      * pose proof (set_add_len o (g_reqs g)). lia.
      * lia.
    + change (qb_append (g :: g2 :: t') ty o) with (g :: qb_append (g2 :: t') ty o).
      change (size (g :: qb_append (g2 :: t') ty o))
        with (length (g_reqs g) + size (qb_append (g2 :: t') ty o)).
      change (size (g :: g2 :: t')) with (length (g_reqs g) + size (g2 :: t')). lia. Qed.

Definition qb_step (q : queue) (r : aty * nat) : queue := qb_append q (fst r) (snd r).
Lemma build_queue_fold rs : build_queue rs = fold_left qb_step rs [].
Proof. reflexivity. Qed.

Lemma fold_wf rs q : wfq q -> wfq (fold_left qb_step rs q).
Proof. revert q. induction rs as [|r rs IH]; intros q H; simpl; auto.
  apply IH. apply qb_append_wf; auto. Qed.
Lemma fold_size rs q : size (fold_left qb_step rs q) <= length rs + size q.
Proof. revert q. induction rs as [|r rs IH]; intros q; simpl; [lia|].
  specialize (IH (qb_step q r)). pose proof (qb_append_size q (fst r) (snd r)).
  unfold qb_step in *. lia. Qed.

Lemma build_wf rs : wfq (build_queue rs).
Proof. rewrite build_queue_fold. apply fold_wf. constructor. Qed.
Lemma build_size rs : size (build_queue rs) <= length rs.
Proof. rewrite build_queue_fold. pose proof (fold_size rs []). simpl in H. lia. Qed.

Lemma set_remove_len_lt o l : In o l -> length (set_remove o l) < length l.
Proof. unfold set_remove. induction l as [|x l IH]; simpl; [tauto|]. intros [->|H].
  - rewrite Nat.eqb_refl; simpl.
    pose proof (filter_len (fun x => negb (Nat.eqb o x)) l). lia.
  - destruct (negb (o =? x)); simpl; specialize (IH H); lia. Qed.

Lemma dequeue_wf q o q' : wfq q -> dequeue q o = Ok q' -> wfq q'.
Proof. unfold wfq. intros Hwf Hd. destruct q as [|g rest]; simpl in Hd; [discriminate|].
  destruct (memn o (g_reqs g)); [|discriminate]. inversion Hwf; subst.
  destruct (set_remove o (g_reqs g)) as [|x r] eqn:Hs; inversion Hd; subst; auto.
  constructor; auto. simpl. discriminate. Qed.

Lemma dequeue_size q o q' : dequeue q o = Ok q' -> size q' < size q.
Proof. destruct q as [|g rest]; simpl; [discriminate|].
  destruct (memn o (g_reqs g)) eqn:Hm; [|discriminate]. apply memn_In in Hm.
  pose proof (set_remove_len_lt o _ Hm).
  destruct (set_remove o (g_reqs g)) eqn:E; intros Hd; inversion Hd; subst; simpl in *; lia. Qed.

Lemma is_singleton_memn o l : is_singleton o l = true -> memn o l = true.
Proof. destruct l as [|x [|y l]]; simpl; try discriminate. intros ->. reflexivity. Qed.

(* a servable owner is a member of the front group *)
Lemma servable_front q o :
  servable_owner q o = true -> exists g rest, q = g :: rest /\ memn o (g_reqs g) = true.
Proof. destruct q as [|g rest]; [discriminate|]. intros H. exists g, rest. split; auto.
  destruct (memn o (g_reqs g)) eqn:Hm; auto. exfalso.
  unfold servable_owner, can_access in H. rewrite Hm in H.
  rewrite !andb_false_r in H. simpl in H.
  destruct rest as [|g2 r2]; simpl in H; [discriminate|].
  destruct (is_singleton o (g_reqs g)) eqn:Hs.
  - apply is_singleton_memn in Hs. congruence.
  - rewrite !andb_false_r in H. simpl in H. discriminate. Qed.

Lemma servable_dequeue q o : servable_owner q o = true -> exists q', dequeue q o = Ok q'.
Proof. intros H. apply servable_front in H. destruct H as [g [rest [-> Hm]]].
  simpl. rewrite Hm. destruct (set_remove o (g_reqs g)); eauto. Qed.

Lemma permitted_run q h : permitted q h = true -> exists q', run_hist q h = Ok q'.
Proof. revert q. induction h as [|o h IH]; intros q H; simpl in *; eauto.
  apply andb_true_iff in H. destruct H as [_ H].
  destruct (dequeue q o) as [q1|e]; [|discriminate]. auto. Qed.

Lemma permitted_len q h : permitted q h = true -> length h <= size q.
Proof. revert q. induction h as [|o h IH]; intros q H; simpl in *; [lia|].
  apply andb_true_iff in H. destruct H as [_ H].
  destruct (dequeue q o) as [q1|e] eqn:Hd; [|discriminate].
  apply dequeue_size in Hd. apply IH in H. lia. Qed.

Lemma run_hist_wf q h q' : wfq q -> run_hist q h = Ok q' -> wfq q'.
Proof. revert q. induction h as [|o h IH]; intros q Hwf H; simpl in *.
  - inversion H; subst; auto.
  - destruct (dequeue q o) as [q1|e] eqn:Hd; [|discriminate].
    eapply IH; [|exact H]. eapply dequeue_wf; eauto. Qed.

Lemma aty_eqb_refl t : aty_eqb t t = true.
Proof. destruct t; reflexivity. Qed.

Lemma wf_nonempty_servable q : wfq q -> q <> [] -> exists o, servable_owner q o = true.
Proof. intros Hwf Hne. destruct q as [|g rest]; [congruence|]. inversion Hwf; subst.
  destruct (g_reqs g) as [|o l] eqn:E; [congruence|]. exists o.
  unfold servable_owner, can_access. rewrite E. simpl. rewrite Nat.eqb_refl. simpl.
  destruct (g_ty g); simpl; auto. Qed.

Lemma C19_no_failure_lemma :
  forall (rs : list req) (h : list nat),
    permitted (build_queue rs) h = true -> exists q, run_hist (build_queue rs) h = Ok q.
Proof. intros. apply permitted_run; auto. Qed.

Lemma C19_maximal_history_empties_lemma :
  forall (rs : list req) (h : list nat) (q : queue),
    permitted (build_queue rs) h = true -> run_hist (build_queue rs) h = Ok q ->
    (forall o, servable_owner q o = false) -> q = [].
Proof. intros rs h q _ Hr Hs. destruct q as [|g rest]; auto. exfalso.
  assert (Hwf : wfq (g :: rest)) by (eapply run_hist_wf; [apply build_wf|exact Hr]).
  destruct (wf_nonempty_servable _ Hwf) as [o Ho]; [discriminate|].
  rewrite Hs in Ho. discriminate. Qed.

Lemma C19_histories_finite_lemma :
  forall (rs : list req) (h : list nat),
    permitted (build_queue rs) h = true -> length h <= length rs.
Proof. intros rs h H. apply permitted_len in H. eapply Nat.le_trans; [exact H|apply build_size]. Qed.
