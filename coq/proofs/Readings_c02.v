(* Readings_c02.v -- the boolean vocabulary of C02 (performs_at / done_before / blocked / lab_in) read as
   quantified statements, and the Prop-level reading of C02_exact_lemma. *)
From Coq Require Import Lia.
From PS Require Import Base Bag RegAccess Sim Diag Lists Run C03_lists C03_step C03_inv HZ_diag C02_proof
                       Readings_defs.

Lemma Kq_rec_at d a : Forall Kq d -> Kq (rec_at d a).
Proof. intros H. unfold rec_at. destruct (nth_in_or_default a d []) as [Hin| ->]; [|apply Kq_nil].
  rewrite Forall_forall in H; auto. Qed.
Lemma Uq_rec_at d a : Forall Uq d -> Uq (rec_at d a).
Proof. intros H. unfold rec_at. destruct (nth_in_or_default a d []) as [Hin| ->]; [|apply Uq_nil].
  rewrite Forall_forall in H; auto. Qed.

Lemma performs_at_iff P d a i k : Forall Kq d -> (performs_at P d a i k = true <-> performs P d a i k).
Proof. intros H. rewrite performs_at_rec, (perf_rec_iff P _ i k (Kq_rec_at d a H)).
  unfold performs, occ, lockb. tauto. Qed.

Lemma occ_lt {d t u} {e : entry} : In e (occ d t u) -> t < length d.
Proof. intros H. destruct (Nat.lt_ge_cases t (length d)) as [|Hge]; auto. exfalso.
  unfold occ, rec_at in H. rewrite nth_overflow in H by lia. destruct H. Qed.

Lemma performs_lt P d a i k : performs P d a i k -> a < length d.
Proof. intros (u & H & _). exact (occ_lt H). Qed.

(* acc_time is the FIRST performing cycle: "performed in some cycle before t" iff "first such cycle < t" *)
Lemma done_before_iff P d i k t : Forall Kq d ->
  (done_before P d i k t = true <-> performed_before P d i k t).
Proof. intros HK. unfold done_before, performed_before. split.
  - destruct (acc_time P d i k) as [a|] eqn:E; [|discriminate]. intros Ha. apply Nat.ltb_lt in Ha.
    apply acc_time_some in E. destruct E as (_ & E & _). exists a. split; auto. apply performs_at_iff; auto.
  - intros (a & Ha & Hp). pose proof (performs_lt _ _ _ _ _ Hp) as Hlt. apply performs_at_iff in Hp; auto.
    destruct (acc_time_ex P d i k a Hlt Hp) as (a' & -> & Hle). apply Nat.ltb_lt. lia. Qed.

Lemma ndone_iff P d i k t : Forall Kq d ->
  (negb (done_before P d i k t) = true <-> ~ performed_before P d i k t).
Proof. intros HK. rewrite negb_true_iff, <- not_true_iff_false, (done_before_iff P d i k t HK). tauto. Qed.

Lemma blocked_iff P prog d t i u : Forall Kq d ->
  (blocked P prog d t i u = true <-> outstanding P prog d t i u).
Proof. intros HK. unfold blocked, outstanding. rewrite orb_true_iff, !andb_true_iff.
  assert (E1 : existsb (fun r => existsb (fun k => String.eqb (dst_of prog k) r && negb (done_before P d k WR t))
                                          (seq 0 i)) (srcs_of prog i) = true <->
               exists k r, k < i /\ In r (srcs_of prog i) /\ dst_of prog k = r /\ ~ performed_before P d k WR t).
  { rewrite existsb_exists. split.
    - intros (r & Hr & H). apply existsb_exists in H. destruct H as (k & Hk & H). apply in_seq in Hk.
      apply andb_true_iff in H. destruct H as [H1 H2]. apply String.eqb_eq in H1. apply ndone_iff in H2; auto.
      exists k, r. repeat split; auto. lia.
    - intros (k & r & Hk & Hr & Hd & Hn). exists r. split; auto. apply existsb_exists. exists k.
      split; [apply in_seq; lia|]. apply andb_true_iff. split; [apply String.eqb_eq; auto|apply ndone_iff; auto]. }
  assert (E2 : existsb (fun k => (mem_str (dst_of prog i) (srcs_of prog k) && negb (done_before P d k RD t))
                                 || (String.eqb (dst_of prog k) (dst_of prog i) && negb (done_before P d k WR t)))
                       (seq 0 i) = true <->
               exists k, k < i /\ ((In (dst_of prog i) (srcs_of prog k) /\ ~ performed_before P d k RD t)
                                   \/ (dst_of prog k = dst_of prog i /\ ~ performed_before P d k WR t))).
  { rewrite existsb_exists. split.
    - intros (k & Hk & H). apply in_seq in Hk. exists k. split; [lia|]. apply orb_true_iff in H.
      destruct H as [H|H]; apply andb_true_iff in H; destruct H as [H1 H2]; apply ndone_iff in H2; auto.
      + left. split; auto. apply mem_str_In; auto.
      + right. split; auto. apply String.eqb_eq; auto.
    - intros (k & Hk & H). exists k. split; [apply in_seq; lia|]. apply orb_true_iff.
      destruct H as [[H1 H2]|[H1 H2]]; [left|right]; apply andb_true_iff; split;
        try (apply ndone_iff; auto); [apply mem_str_In; auto|apply String.eqb_eq; auto]. }
  rewrite E1, E2. tauto. Qed.

Lemma C02_reading_lemma :
  forall (P : proc) (prog : list instr) (fuel : nat) (tg : dtag) (d : diagram),
    wf_procb P = true -> wf_progb prog = true -> sim_result fuel P prog tg d ->
    forall t u i l, t < length d -> In (i, l) (occ d t u) ->
      ((exists l0, In (i, l0) (prev_occ d t u) /\ l0 <> LD) -> l = LS) /\
      (~ (exists l0, In (i, l0) (prev_occ d t u) /\ l0 <> LD) ->
       (l = LD /\ outstanding P prog d t i u) \/ (l = LU /\ ~ outstanding P prog d t i u)).
Proof. intros P prog fuel tg d Hwf Hwp Hsim t u i l Ht Hin.
  pose proof (C02_exact_lemma P prog fuel tg d Hwf Hwp Hsim t u (i, l) Ht Hin) as HC.
  destruct (sim_result_reach _ _ _ _ _ Hsim) as (s & Hreach & <-).
  destruct (reach_RI P Hwf prog s Hreach) as [HF _].
  assert (HK : Forall Kq (tbl s)) by (eapply Forall_impl; [|exact HF]; intros r (G & _); exact G).
  assert (HU : Forall Uq (tbl s)) by (eapply Forall_impl; [|exact HF]; intros r (_ & G & _); exact G).
  assert (Hnd : NoDup (map fst (prev_occ (tbl s) t u))).
  { destruct t as [|t']; [constructor|]. unfold prev_occ, occ. apply (Uq_rec_at _ t' HU). }
  unfold C02_entry_ok in HC. cbv zeta in HC. cbn [fst snd] in HC. split.
  - intros (l0 & Hl0 & Hne). rewrite (lab_in_nodup _ i l0 Hnd Hl0) in HC.
    destruct l0; [congruence| |]; apply label_eqb_eq in HC; auto.
  - intros Hno.
    assert (Hb : (if blocked P prog (tbl s) t i u then label_eqb l LD else label_eqb l LU) = true).
    { destruct (lab_in (prev_occ (tbl s) t u) i) as [l0|] eqn:E; [|exact HC]. apply lab_in_In in E.
      destruct l0; [exact HC| |]; exfalso; apply Hno; eexists; split; [exact E|discriminate|exact E|discriminate]. }
    destruct (blocked P prog (tbl s) t i u) eqn:Eb; apply label_eqb_eq in Hb; [left|right]; split; auto.
    + apply blocked_iff; auto.
    + intros Ho. apply blocked_iff in Ho; auto. congruence. Qed.
