(* Flow_generic.v -- the easy half of max-flow/min-cut for props/Flow.v:
   a feasible flow of positive value exists iff the sink is reachable from the source.
   (<-) a simple path carries one unit;  (->) cut argument over the (computed) set of reachable nodes.
   No classical reasoning: membership is decided with String.eqb / string_dec. *)
From Coq Require Import ZArith Lia.
From PS Require Import Base Lists FlowSpec.

(* ---------- finite sums over lists ---------- *)

Lemma lsum_cons : forall (a : nat) (l : list nat), list_sum (a :: l) = a + list_sum l.
Proof. reflexivity. Qed.

Lemma lsum_zero : forall (A : Type) (g : A -> nat) (l : list A),
  (forall x, In x l -> g x = 0) -> list_sum (map g l) = 0.
Proof.
  induction l as [|a l IH]; intros H; cbn [map]; rewrite ?lsum_cons; [reflexivity|].
  rewrite (H a) by (left; reflexivity). rewrite IH; [reflexivity|].
  intros x Hx. apply H. right; exact Hx.
Qed.

Lemma lsum_plus : forall (A : Type) (g h : A -> nat) (l : list A),
  list_sum (map (fun x => g x + h x) l) = list_sum (map g l) + list_sum (map h l).
Proof. induction l as [|a l IH]; cbn [map]; rewrite ?lsum_cons; [reflexivity|]. rewrite IH. lia. Qed.

Lemma lsum_le : forall (A : Type) (g h : A -> nat) (l : list A),
  (forall x, In x l -> g x <= h x) -> list_sum (map g l) <= list_sum (map h l).
Proof.
  induction l as [|a l IH]; intros H; cbn [map]; rewrite ?lsum_cons; [lia|].
  pose proof (H a (or_introl eq_refl)).
  assert (list_sum (map g l) <= list_sum (map h l)) by (apply IH; intros x Hx; apply H; right; exact Hx).
  lia.
Qed.

Lemma lsum_filter_split : forall (A : Type) (p : A -> bool) (g : A -> nat) (l : list A),
  list_sum (map g l) =
  list_sum (map g (filter p l)) + list_sum (map g (filter (fun x => negb (p x)) l)).
Proof.
  induction l as [|a l IH]; cbn [map filter]; rewrite ?lsum_cons; [reflexivity|].
  destruct (p a); cbn [negb map]; rewrite ?lsum_cons; lia.
Qed.

Lemma lsum_exchange : forall (A B : Type) (g : A -> B -> nat) (la : list A) (lb : list B),
  list_sum (map (fun a => list_sum (map (fun b => g a b) lb)) la) =
  list_sum (map (fun b => list_sum (map (fun a => g a b) la)) lb).
Proof.
  induction la as [|a la IH]; intros lb; cbn [map]; rewrite ?lsum_cons.
  - symmetry. apply lsum_zero. reflexivity.
  - rewrite IH. rewrite <- lsum_plus. apply f_equal. apply map_ext. intros b. reflexivity.
Qed.

Lemma lsum_ind : forall (l : list string) (y : string), NoDup l -> In y l ->
  list_sum (map (fun w => if String.eqb w y then 1 else 0) l) = 1.
Proof.
  induction l as [|a l IH]; intros y Hnd Hin; [contradiction|].
  inversion Hnd as [|a' l' Hna Hnd']; subst. cbn [map]; rewrite ?lsum_cons.
  destruct Hin as [->|Hin].
  - rewrite String.eqb_refl. rewrite lsum_zero; [reflexivity|].
    intros x Hx. destruct (String.eqb_spec x y); [subst; contradiction|reflexivity].
  - destruct (String.eqb_spec a y); [subst; contradiction|].
    rewrite IH by assumption. reflexivity.
Qed.

(* only one member differs between g and h *)
Lemma lsum_balance : forall (g h : string -> nat) (l : list string) (s : string),
  NoDup l -> In s l -> (forall v, In v l -> v <> s -> g v = h v) ->
  list_sum (map g l) + h s = list_sum (map h l) + g s.
Proof.
  induction l as [|a l IH]; intros s Hnd Hin Hgh; [contradiction|].
  inversion Hnd as [|a' l' Hna Hnd']; subst. cbn [map]; rewrite ?lsum_cons.
  destruct Hin as [->|Hin].
  - assert (E : map g l = map h l).
    { apply map_ext_in. intros v Hv. apply Hgh; [right; exact Hv|]. intros ->. contradiction. }
    rewrite E. lia.
  - assert (a <> s) by (intros ->; contradiction).
    rewrite (Hgh a) by (auto; left; reflexivity).
    assert (list_sum (map g l) + h s = list_sum (map h l) + g s).
    { apply IH; auto. intros v Hv Hne. apply Hgh; auto. right; exact Hv. }
    lia.
Qed.

Lemma filter_len_le : forall (p q : string -> bool) (l : list string),
  (forall x, q x = true -> p x = true) -> length (filter q l) <= length (filter p l).
Proof.
  induction l as [|a l IH]; intros H; cbn [filter length]; [lia|].
  specialize (IH H).
  destruct (q a) eqn:Eq.
  - rewrite (H a Eq). cbn [length]. lia.
  - destruct (p a); cbn [length]; lia.
Qed.

Lemma filter_len_lt : forall (p q : string -> bool) (l : list string) (a : string),
  (forall x, q x = true -> p x = true) -> In a l -> p a = true -> q a = false ->
  length (filter q l) < length (filter p l).
Proof.
  induction l as [|b l IH]; intros a H Hin Hp Hq; [contradiction|]. cbn [filter].
  destruct Hin as [->|Hin].
  - rewrite Hp, Hq. cbn [length]. pose proof (filter_len_le p q l H). lia.
  - specialize (IH a H Hin Hp Hq).
    destruct (q b) eqn:Eq.
    + rewrite (H b Eq). cbn [length]. lia.
    + destruct (p b); cbn [length]; lia.
Qed.

(* ---------- the network ---------- *)

Section Gen.
  Variable nodes : list string.
  Variable es : list (string * string).
  Hypothesis Hnd : NoDup nodes.
  Hypothesis Hes : forall u v, In (u, v) es -> In u nodes /\ In v nodes.

  (* one unit on the single pair (x,y) *)
  Definition ind (x y u v : string) : nat :=
    if String.eqb u x then (if String.eqb v y then 1 else 0) else 0.

  Lemma sum_out_ind x y v : In y nodes ->
    sum_out nodes (ind x y) v = if String.eqb v x then 1 else 0.
  Proof.
    intros Hy. unfold sum_out, ind. destruct (String.eqb v x).
    - apply lsum_ind; assumption.
    - apply lsum_zero. reflexivity.
  Qed.

  Lemma sum_in_ind x y v : In x nodes ->
    sum_in nodes (ind x y) v = if String.eqb v y then 1 else 0.
  Proof.
    intros Hx. unfold sum_in, ind. destruct (String.eqb v y).
    - apply lsum_ind; assumption.
    - apply lsum_zero. intros u _. destruct (String.eqb u x); reflexivity.
  Qed.

  Lemma sum_out_plus (f g : flow) v :
    sum_out nodes (fun a b => f a b + g a b) v = sum_out nodes f v + sum_out nodes g v.
  Proof. unfold sum_out. apply lsum_plus. Qed.

  Lemma sum_in_plus (f g : flow) v :
    sum_in nodes (fun a b => f a b + g a b) v = sum_in nodes f v + sum_in nodes g v.
  Proof. unfold sum_in. apply (lsum_plus string (fun u => f u v) (fun u => g u v)). Qed.

  (* ----- (<-) : simple paths ----- *)

  (* [spath c a l]: l = a :: ... :: c lists the nodes of a duplicate-free path from a to c *)
  Inductive spath (c : string) : string -> list string -> Prop :=
  | sp_last : forall a, In (a, c) es -> a <> c -> spath c a [a; c]
  | sp_cons : forall a b l, In (a, b) es -> spath c b l -> ~ In a l -> spath c a (a :: l).

  Lemma spath_suffix c b l : spath c b l ->
    forall a, In a l -> a <> c -> exists l', spath c a l'.
  Proof.
    induction 1 as [b Hbc Hne | b b' l Hbb' Hsp IH Hnin]; intros a Hin Hac.
    - destruct Hin as [<-|[<-|[]]].
      + exists [b; c]. apply sp_last; assumption.
      + congruence.
    - destruct Hin as [<-|Hin].
      + exists (b :: l). eapply sp_cons; eassumption.
      + apply IH; assumption.
  Qed.

  Lemma epath_spath a c : epath es a c -> a <> c -> exists l, spath c a l.
  Proof.
    induction 1 as [a b Hab | a b c Hab Hbc IH]; intros Hne.
    - exists [a; b]. apply sp_last; assumption.
    - destruct (string_dec b c) as [->|Hbc'].
      + exists [a; c]. apply sp_last; assumption.
      + destruct (IH Hbc') as [l Hl].
        destruct (in_dec string_dec a l) as [Hin|Hnin].
        * eapply spath_suffix; eassumption.
        * exists (a :: l). eapply sp_cons; eassumption.
  Qed.

  Lemma spath_flow c : In c nodes -> forall a l, spath c a l ->
    exists f : flow,
      In a l /\
      (forall u v, ~ In (u, v) es -> f u v = 0) /\
      (forall u v, f u v <= 1) /\
      (forall u v, ~ In u l -> f u v = 0) /\
      (forall u v, ~ In v l -> f u v = 0) /\
      (forall v, In v nodes -> v <> a -> v <> c -> sum_in nodes f v = sum_out nodes f v) /\
      sum_out nodes f a = 1 /\ sum_in nodes f a = 0.
  Proof.
    intros Hc. induction 1 as [a Hac Hne | a b l Hab Hsp IH Hnin].
    - destruct (Hes _ _ Hac) as [Ha _].
      exists (ind a c). repeat split.
      + left; reflexivity.
      + intros u v Hn. unfold ind.
        destruct (String.eqb_spec u a); [|reflexivity].
        destruct (String.eqb_spec v c); [|reflexivity]. subst. contradiction.
      + intros u v. unfold ind. destruct (String.eqb u a); [destruct (String.eqb v c)|]; lia.
      + intros u v Hn. unfold ind.
        destruct (String.eqb_spec u a); [|reflexivity]. subst. exfalso. apply Hn. left; reflexivity.
      + intros u v Hn. unfold ind.
        destruct (String.eqb_spec u a); [|reflexivity].
        destruct (String.eqb_spec v c); [|reflexivity]. subst. exfalso. apply Hn. right; left; reflexivity.
      + intros v Hv Hva Hvc. rewrite sum_in_ind, sum_out_ind by assumption.
        destruct (String.eqb_spec v c); [contradiction|].
        destruct (String.eqb_spec v a); [contradiction|]. reflexivity.
      + rewrite sum_out_ind by assumption. rewrite String.eqb_refl. reflexivity.
      + rewrite sum_in_ind by assumption. destruct (String.eqb_spec a c); [contradiction|reflexivity].
    - destruct IH as [f' [Hbl [Hoff [Hle [Hsu [Hsv [Hcons [Hout Hin]]]]]]]].
      destruct (Hes _ _ Hab) as [Ha Hb].
      assert (Hneab : a <> b) by (intros ->; contradiction).
      exists (fun u v => f' u v + ind a b u v). repeat split.
      + left; reflexivity.
      + intros u v Hn. rewrite (Hoff u v Hn). unfold ind.
        destruct (String.eqb_spec u a); [|reflexivity].
        destruct (String.eqb_spec v b); [|reflexivity]. subst. contradiction.
      + intros u v. unfold ind. destruct (String.eqb_spec u a).
        * subst. rewrite (Hsu a v Hnin). destruct (String.eqb v b); lia.
        * specialize (Hle u v). lia.
      + intros u v Hn. rewrite Hsu by (intros H; apply Hn; right; exact H). unfold ind.
        destruct (String.eqb_spec u a); [|reflexivity]. subst. exfalso. apply Hn. left; reflexivity.
      + intros u v Hn. rewrite Hsv by (intros H; apply Hn; right; exact H). unfold ind.
        destruct (String.eqb_spec u a); [|reflexivity].
        destruct (String.eqb_spec v b); [|reflexivity]. subst. exfalso. apply Hn. right; exact Hbl.
      + intros v Hv Hva Hvc.
        rewrite (sum_in_plus f' (ind a b)), (sum_out_plus f' (ind a b)).
        rewrite sum_in_ind, sum_out_ind by assumption.
        destruct (String.eqb_spec v a); [contradiction|].
        destruct (String.eqb_spec v b).
        * subst. lia.
        * rewrite (Hcons v Hv) by assumption. lia.
      + rewrite (sum_out_plus f' (ind a b)). rewrite sum_out_ind by assumption.
        rewrite String.eqb_refl.
        assert (E : sum_out nodes f' a = 0).
        { unfold sum_out. apply lsum_zero. intros w _. apply Hsu. exact Hnin. }
        rewrite E. reflexivity.
      + rewrite (sum_in_plus f' (ind a b)). rewrite sum_in_ind by assumption.
        destruct (String.eqb_spec a b); [contradiction|].
        assert (E : sum_in nodes f' a = 0).
        { unfold sum_in. apply lsum_zero. intros w _. apply Hsv. exact Hnin. }
        rewrite E. reflexivity.
  Qed.

  Lemma pair_dec : forall (x y : string * string), {x = y} + {x <> y}.
  Proof. decide equality; apply string_dec. Qed.

  Lemma path_gives_flow (cap : string -> string -> option nat) s t :
    (forall u v c, In (u, v) es -> cap u v = Some c -> 0 < c) ->
    In t nodes -> s <> t -> epath es s t ->
    exists f, feasible nodes es cap f s t /\ (0 < value nodes f s)%Z.
  Proof.
    intros Hcap Ht Hst Hp.
    destruct (epath_spath s t Hp Hst) as [l Hl].
    destruct (spath_flow t Ht s l Hl) as [f [_ [Hoff [Hle [_ [_ [Hcons [Hout Hin]]]]]]]].
    exists f. split.
    - split; [exact Hoff|]. split.
      + intros u v c Hc. destruct (in_dec pair_dec (u, v) es) as [Hi|Hn].
        * specialize (Hcap u v c Hi Hc). specialize (Hle u v). lia.
        * rewrite (Hoff u v Hn). lia.
      + exact Hcons.
    - unfold value. rewrite Hout, Hin. reflexivity.
  Qed.

  (* ----- (->) : cut argument ----- *)

  Lemma epath_snoc a b c : epath es a b -> In (b, c) es -> epath es a c.
  Proof.
    induction 1 as [a b Hab | a b d Hab Hbd IH]; intros Hc.
    - eapply ep_step; [exact Hab|]. apply ep_edge. exact Hc.
    - eapply ep_step; [exact Hab|]. apply IH. exact Hc.
  Qed.

  Lemma step_or_closed (S : list string) :
    (forall u v, In (u, v) es -> In u S -> In v S) \/
    (exists u v, In (u, v) es /\ In u S /\ ~ In v S).
  Proof.
    destruct (find (fun e => mem_str (fst e) S && negb (mem_str (snd e) S))%bool es) as [[u v]|] eqn:E.
    - right. apply find_some in E. destruct E as [Hi Hb]. cbn [fst snd] in Hb.
      apply andb_true_iff in Hb. destruct Hb as [Hu Hv].
      exists u, v. split; [exact Hi|]. split.
      + apply mem_str_In. exact Hu.
      + intros H. apply mem_str_In in H. rewrite H in Hv. discriminate.
    - left. intros u v Hi Hu.
      pose proof (find_none _ _ E _ Hi) as Hb. cbn [fst snd] in Hb.
      apply (proj2 (mem_str_In u S)) in Hu. rewrite Hu in Hb. cbn [andb] in Hb.
      apply negb_false_iff in Hb. apply mem_str_In. exact Hb.
  Qed.

  Definition outside (S : list string) : list string :=
    filter (fun x => negb (mem_str x S)) nodes.

  Lemma closure s : forall n S, length (outside S) <= n -> In s S ->
    (forall x, In x S -> x = s \/ epath es s x) ->
    exists S', In s S' /\ (forall x, In x S' -> x = s \/ epath es s x) /\
               (forall u v, In (u, v) es -> In u S' -> In v S').
  Proof.
    induction n as [|n IH]; intros S Hlen Hs Hr;
      (destruct (step_or_closed S) as [Hcl | [u [v [Huv [Hu Hv]]]]];
       [exists S; repeat split; assumption|]);
      assert (Hlt : length (outside (v :: S)) < length (outside S))
        by (unfold outside;
            apply (filter_len_lt (fun x => negb (mem_str x S)) (fun x => negb (mem_str x (v :: S))) nodes v);
            [ intros x Hx; unfold mem_str in *; cbn [existsb] in Hx;
              apply negb_true_iff in Hx; apply orb_false_iff in Hx; destruct Hx as [_ Hx];
              rewrite Hx; reflexivity
            | apply (Hes _ _ Huv)
            | apply negb_true_iff; destruct (mem_str v S) eqn:Em; [|reflexivity];
              apply mem_str_In in Em; contradiction
            | apply negb_false_iff; apply mem_str_In; left; reflexivity ]).
    - lia.
    - apply (IH (v :: S)); [lia | right; exact Hs |].
      intros x [<-|Hx]; [|apply Hr; exact Hx]. right.
      destruct (Hr u Hu) as [->|Hp].
      + apply ep_edge. exact Huv.
      + eapply epath_snoc; eassumption.
  Qed.

  (* flow out of a set with no outgoing flow is at most the flow into it *)
  Lemma cut_le (f : flow) (p : string -> bool) :
    (forall u v, p u = true -> p v = false -> f u v = 0) ->
    list_sum (map (sum_out nodes f) (filter p nodes)) <=
    list_sum (map (sum_in nodes f) (filter p nodes)).
  Proof.
    intros Hz. set (S := filter p nodes).
    assert (Eo : list_sum (map (sum_out nodes f) S) =
                 list_sum (map (fun u => list_sum (map (fun w => f u w) S)) S)).
    { f_equal. apply map_ext_in. intros u Hu. unfold sum_out.
      rewrite (lsum_filter_split string p (fun w => f u w) nodes). fold S.
      rewrite (lsum_zero string (fun w => f u w) (filter (fun x => negb (p x)) nodes)); [lia|].
      intros w Hw. apply filter_In in Hw. destruct Hw as [_ Hw]. apply negb_true_iff in Hw.
      apply Hz; [|exact Hw]. unfold S in Hu. apply filter_In in Hu. apply Hu. }
    assert (Ei : list_sum (map (fun u => list_sum (map (fun w => f w u) S)) S) <=
                 list_sum (map (sum_in nodes f) S)).
    { apply lsum_le. intros u _. unfold sum_in.
      rewrite (lsum_filter_split string p (fun w => f w u) nodes). fold S. lia. }
    rewrite Eo. rewrite (lsum_exchange string string f S S). exact Ei.
  Qed.

  Lemma flow_gives_path (cap : string -> string -> option nat) s t :
    In s nodes -> s <> t ->
    (exists f, feasible nodes es cap f s t /\ (0 < value nodes f s)%Z) -> epath es s t.
  Proof.
    intros Hs Hst [f [[Hoff [_ Hcons]] Hval]].
    destruct (closure s (length (outside [s])) [s] (le_n _) (or_introl eq_refl)) as [S' [HsS [Hr Hcl]]].
    { intros x [<-|[]]. left; reflexivity. }
    destruct (in_dec string_dec t S') as [Ht|Ht].
    { destruct (Hr t Ht) as [->|Hp]; [contradiction|exact Hp]. }
    exfalso.
    set (p := fun x => mem_str x S').
    assert (Hle : list_sum (map (sum_out nodes f) (filter p nodes)) <=
                  list_sum (map (sum_in nodes f) (filter p nodes))).
    { apply cut_le. intros u v Hu Hv. apply Hoff. intros Huv.
      unfold p in Hu, Hv. apply mem_str_In in Hu. pose proof (Hcl u v Huv Hu) as Hv'.
      apply mem_str_In in Hv'. rewrite Hv' in Hv. discriminate. }
    assert (Hbal : list_sum (map (sum_out nodes f) (filter p nodes)) + sum_in nodes f s =
                   list_sum (map (sum_in nodes f) (filter p nodes)) + sum_out nodes f s).
    { apply lsum_balance.
      - apply NoDup_filter. exact Hnd.
      - apply filter_In. split; [exact Hs|]. unfold p. apply mem_str_In. exact HsS.
      - intros v Hv Hvs. apply filter_In in Hv. destruct Hv as [Hvn Hvp].
        symmetry. apply Hcons; [exact Hvn|exact Hvs|].
        intros ->. unfold p in Hvp. apply mem_str_In in Hvp. contradiction. }
    unfold value in Hval. lia.
  Qed.
End Gen.

Lemma flow_path_gives_flow :
  forall (nodes : list string) (es : list (string * string)) (cap : string -> string -> option nat) (s t : string),
    NoDup nodes -> (forall u v, In (u, v) es -> In u nodes /\ In v nodes) ->
    (forall u v c, In (u, v) es -> cap u v = Some c -> 0 < c) ->
    In t nodes -> s <> t -> epath es s t ->
    exists f, feasible nodes es cap f s t /\ (0 < value nodes f s)%Z.
Proof. intros. eapply path_gives_flow; eassumption. Qed.

Lemma flow_positive_gives_path :
  forall (nodes : list string) (es : list (string * string)) (cap : string -> string -> option nat) (s t : string),
    NoDup nodes -> (forall u v, In (u, v) es -> In u nodes /\ In v nodes) ->
    In s nodes -> s <> t ->
    (exists f, feasible nodes es cap f s t /\ (0 < value nodes f s)%Z) -> epath es s t.
Proof. intros. eapply flow_gives_path; eassumption. Qed.

Lemma flow_positive_iff_path_lemma :
  forall (nodes : list string) (es : list (string * string)) (cap : string -> string -> option nat) (s t : string),
    NoDup nodes -> NoDup es -> (forall u v, In (u, v) es -> In u nodes /\ In v nodes) ->
    (forall u v c, In (u, v) es -> cap u v = Some c -> 0 < c) ->
    In s nodes -> In t nodes -> s <> t ->
    ((exists f, feasible nodes es cap f s t /\ (0 < value nodes f s)%Z) <-> epath es s t).
Proof.
  intros nodes es cap s t Hnd _ Hes Hcap Hs Ht Hst. split.
  - apply flow_positive_gives_path; assumption.
  - apply flow_path_gives_flow; assumption.
Qed.
Print Assumptions flow_positive_iff_path_lemma.
