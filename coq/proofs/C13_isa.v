(* C13_isa.v -- re-casing of capability values in the instruction-set table and of mnemonics in a program. *)
From Coq Require Import String Ascii Lia Bool List.
From PS Require Import Base Str Sim Program Isa Loader TextSpec C18_proof CiSpec C13_ci.

Definition spec_rel (e e' : string * string) : Prop := fst e = fst e' /\ ci (snd e) (snd e').

Lemma create_isa_ci spec spec' : Forall2 spec_rel spec spec' ->
  forall caps instrs, isa_res_ci (create_isa spec caps instrs) (create_isa spec' caps instrs).
Proof.
  induction 1 as [|[ins cap] [ins' cap'] t t' [H1 H2] _ IH]; intros caps instrs; simpl in *.
  - reflexivity.
  - subst ins'. destruct (ic_find ins instrs) as [old|]; [reflexivity|].
    rewrite <- (ic_find_ci cap cap' caps H2).
    destruct (ic_find cap caps) as [std|]; [|exact H2].
    specialize (IH caps (instrs ++ [ins])). unfold isa_res_ci in IH.
    destruct (create_isa t caps (instrs ++ [ins])) as [m|[o n|c]];
      destruct (create_isa t' caps (instrs ++ [ins])) as [m'|[o' n'|c']];
      simpl; try discriminate IH; try exact IH; try (injection IH as <-); auto.
Qed.

Lemma C13_isa_lemma :
  forall spec spec' caps,
    Forall2 (fun e e' => fst e = fst e' /\ ci (snd e) (snd e')) spec spec' ->
    isa_res_ci (load_isa spec caps) (load_isa spec' caps).
Proof. intros. unfold load_isa. apply create_isa_ci. exact H. Qed.

(* exact version: every capability of the table is defined *)
Lemma mem_ic_reg_put x reg c : mem_ic x (reg_put reg c) = mem_ic x reg || ic_eqb x c.
Proof. induction reg as [|y t IH]; simpl.
  - rewrite orb_false_r; reflexivity.
  - destruct (ic_eqb c y) eqn:E; simpl.
    + apply ic_eqb_ci in E. fold (mem_ic x t). rewrite (ci_ic_eqb_r x c y E).
      destruct (ic_eqb x y), (mem_ic x t); reflexivity.
    + fold (mem_ic x (reg_put t c)) (mem_ic x t). rewrite IH, orb_assoc. reflexivity. Qed.
Lemma mem_ic_cap_registry_gen x caps : forall reg,
  mem_ic x (fold_left reg_put caps reg) = mem_ic x reg || mem_ic x caps.
Proof. induction caps as [|c t IH]; intros reg; simpl.
  - rewrite orb_false_r; reflexivity.
  - rewrite IH, mem_ic_reg_put. fold (mem_ic x t). rewrite orb_assoc. reflexivity. Qed.
Lemma mem_ic_cap_registry x caps : mem_ic x (cap_registry caps) = mem_ic x caps.
Proof. unfold cap_registry. rewrite mem_ic_cap_registry_gen. reflexivity. Qed.

Lemma create_isa_no_undef spec : forall caps instrs,
  (forall e, In e spec -> mem_ic (snd e) caps = true) ->
  forall c, create_isa spec caps instrs <> IsaErr (IsaUndefCap c).
Proof. induction spec as [|[ins cap] t IH]; intros caps instrs H c; simpl; [discriminate|].
  destruct (ic_find ins instrs); [discriminate|].
  destruct (ic_find cap caps) eqn:E.
  - specialize (IH caps (instrs ++ [ins]) (fun e He => H e (or_intror He)) c).
    destruct (create_isa t caps (instrs ++ [ins])); [discriminate|congruence].
  - apply ic_find_none in E. pose proof (H (ins, cap) (or_introl eq_refl)) as E2. simpl in E2. congruence. Qed.

Lemma C13_isa_exact_lemma :
  forall spec spec' caps,
    Forall2 (fun e e' => fst e = fst e' /\ ci (snd e) (snd e')) spec spec' ->
    (forall e, In e spec -> mem_ic (snd e) caps = true) ->
    load_isa spec caps = load_isa spec' caps.
Proof. intros spec spec' caps H Hd. pose proof (C13_isa_lemma spec spec' caps H) as R.
  assert (N : forall c, load_isa spec caps <> IsaErr (IsaUndefCap c)).
  { intros c. unfold load_isa. apply create_isa_no_undef. intros e He.
    rewrite mem_ic_cap_registry. auto. }
  unfold isa_res_ci in R. destruct (load_isa spec caps) as [m|[o n|c]]; auto.
  exfalso. apply (N c). reflexivity. Qed.

(* ---------- compile_program ---------- *)
Lemma C13_compile_lemma :
  forall prog prog' isa,
    Forall2 (fun p p' => pi_srcs p = pi_srcs p' /\ pi_dst p = pi_dst p' /\ pi_line p = pi_line p' /\
                         ci (pi_name p) (pi_name p')) prog prog' ->
    match compile_program prog isa, compile_program prog' isa with
    | CompOk hw, CompOk hw' => hw = hw'
    | CompUndef n l, CompUndef n' l' => ci n n' /\ l = l'
    | _, _ => False
    end.
Proof.
  intros prog prog' isa H. induction H as [|p p' t t' [H1 [H2 [H3 H4]]] _ IH]; simpl; auto.
  rewrite <- (upper_ci _ _ H4).
  destruct (assoc_opt isa (upper (pi_name p))) as [cap|]; [|split; auto].
  destruct (compile_program t isa), (compile_program t' isa); auto.
  rewrite H1, H2, IH. reflexivity.
Qed.
