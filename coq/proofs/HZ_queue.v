(* HZ_queue.v -- pure facts about register access queues (no simulator state).
   A queue is described by the list M of its pending accesses (kind, owner) in registration order:
   `grp M` groups M exactly as RegAccQBuilder does.  can_access / dequeue are characterised on
   `grp M`; a batch of dequeues is characterised by `deqs_grp`; the plan of a register is
   `grp (accs prog reg)`, a list sorted by the key 2*instruction + (0 for READ | 1 for WRITE). *)
From Coq Require Import Lia.
From PS Require Import Base Bag RegAccess Sim Diag Lists C03_lists.

Definition acc := (aty * nat)%type.
Definition acc_eqb (a b : acc) : bool := aty_eqb (fst a) (fst b) && Nat.eqb (snd a) (snd b).
Lemma acc_eqb_eq a b : acc_eqb a b = true <-> a = b.
Proof. destruct a as [[|] i], b as [[|] j]; unfold acc_eqb; simpl; rewrite ?Nat.eqb_eq; split;
  intros H; try discriminate; try congruence. Qed.
Lemma acc_eqb_refl a : acc_eqb a a = true.
Proof. apply acc_eqb_eq; auto. Qed.
Lemma acc_eqb_neq a b : acc_eqb a b = false <-> a <> b.
Proof. split.
  - intros H E. apply acc_eqb_eq in E. congruence.
  - intros H. destruct (acc_eqb a b) eqn:E; auto. apply acc_eqb_eq in E. contradiction. Qed.
Lemma acc_eqb_sym a b : acc_eqb a b = acc_eqb b a.
Proof. destruct (acc_eqb b a) eqn:E.
  - apply acc_eqb_eq in E. subst. apply acc_eqb_refl.
  - apply acc_eqb_neq in E. apply acc_eqb_neq. congruence. Qed.
Definition acc_dec (a b : acc) : {a = b} + {a <> b}.
Proof. destruct (acc_eqb a b) eqn:E; [left; apply acc_eqb_eq; auto|right; apply acc_eqb_neq; auto]. Defined.

(* ---------- grouping ---------- *)
Fixpoint grp (M : list acc) : queue :=
  match M with
  | [] => []
  | (WR, o) :: t => mkG WR [o] :: grp t
  | (RD, o) :: t =>
      match grp t with
      | g :: q' => match g_ty g with
                   | RD => mkG RD (o :: g_reqs g) :: q'
                   | WR => mkG RD [o] :: g :: q'
                   end
      | [] => [mkG RD [o]]
      end
  end.
(* owners of the leading READs, and what follows them *)
Fixpoint lead (M : list acc) : list nat :=
  match M with (RD, o) :: t => o :: lead t | _ => [] end.
Fixpoint rest (M : list acc) : list acc :=
  match M with (RD, o) :: t => rest t | _ => M end.

Lemma grp_RD : forall t o, grp ((RD, o) :: t) = mkG RD (o :: lead t) :: grp (rest t).
Proof. induction t as [|[[|] p] t IH]; intros o.
  - reflexivity.
  - change (grp ((RD, o) :: (RD, p) :: t)) with
      (match grp ((RD, p) :: t) with
       | g :: q' => match g_ty g with RD => mkG RD (o :: g_reqs g) :: q' | WR => mkG RD [o] :: g :: q' end
       | [] => [mkG RD [o]] end).
    rewrite IH. reflexivity.
  - reflexivity. Qed.
Lemma grp_WR t o : grp ((WR, o) :: t) = mkG WR [o] :: grp t.
Proof. reflexivity. Qed.
Lemma grp_nil_inv M : grp M = [] -> M = [].
Proof. destruct M as [|[[|] o] t]; auto; [rewrite grp_RD|rewrite grp_WR]; discriminate. Qed.

Lemma lead_rest M : M = map (pair RD) (lead M) ++ rest M.
Proof. induction M as [|[[|] o] t IH]; simpl; auto. f_equal; auto. Qed.
Lemma rest_rest M : rest (rest M) = rest M.
Proof. induction M as [|[[|] o] t IH]; simpl; auto. Qed.
Lemma lead_rest_nil M : lead (rest M) = [].
Proof. induction M as [|[[|] o] t IH]; simpl; auto. Qed.
Lemma lead_app os C : lead (map (pair RD) os ++ C) = os ++ lead C.
Proof. induction os; simpl; auto. f_equal; auto. Qed.
Lemma rest_app os C : rest (map (pair RD) os ++ C) = rest C.
Proof. induction os; simpl; auto. Qed.
Lemma grp_lead os C : lead C = [] -> rest C = C ->
  grp (map (pair RD) os ++ C) = match os with [] => grp C | _ => mkG RD os :: grp C end.
Proof. intros H1 H2. destruct os as [|o os]; auto. cbn [map app]. rewrite grp_RD, lead_app, rest_app, H1, H2, app_nil_r.
  reflexivity. Qed.

(* ---------- can_access on grp ---------- *)
Lemma can_access_nil ty i : can_access [] ty i = Err IndexError.
Proof. reflexivity. Qed.
Lemma can_access_grp_RD M i : M <> [] -> can_access (grp M) RD i = Ok (memn i (lead M)).
Proof. destruct M as [|[[|] o] t]; intros H; [congruence| |].
  - rewrite grp_RD. unfold can_access. cbn [g_ty g_reqs aty_eqb andb orb lead]. rewrite orb_false_r. reflexivity.
  - rewrite grp_WR. reflexivity. Qed.
Definition wr_ok (M : list acc) (i : nat) : bool :=
  match M with
  | (WR, o) :: _ => i =? o
  | (RD, o) :: (WR, p) :: _ => (i =? o) && (i =? p)
  | _ => false
  end.
Lemma can_access_grp_WR M i : M <> [] -> can_access (grp M) WR i = Ok (wr_ok M i).
Proof. destruct M as [|[[|] o] t]; intros H; [congruence| |].
  - rewrite grp_RD. unfold can_access. cbn [g_ty g_reqs aty_eqb andb orb].
    destruct t as [|[[|] p] t'].
    + reflexivity.
    + cbn [rest lead wr_ok]. unfold is_singleton.
      destruct (grp (rest t')); reflexivity.
    + cbn [rest lead wr_ok]. rewrite grp_WR. cbn [g_ty g_reqs aty_eqb is_singleton memn existsb].
      rewrite orb_false_r, andb_true_r. reflexivity.
  - rewrite grp_WR. unfold can_access. cbn [g_ty g_reqs aty_eqb andb orb memn existsb wr_ok].
    rewrite !orb_false_r. destruct (grp t); rewrite ?orb_false_r; reflexivity. Qed.

(* ---------- removal; the accesses registered before a given one ---------- *)
Definition rm (x : acc) (M : list acc) : list acc := filter (fun a => negb (acc_eqb x a)) M.
Fixpoint before (x : acc) (M : list acc) : list acc :=
  match M with [] => [] | a :: t => if acc_eqb x a then [] else a :: before x t end.

Lemma rm_app x A B : rm x (A ++ B) = rm x A ++ rm x B.
Proof. apply filter_app. Qed.
Lemma rm_notin x M : ~ In x M -> rm x M = M.
Proof. intros H. apply filter_all. intros a Ha. destruct (acc_eqb x a) eqn:E; auto.
  apply acc_eqb_eq in E. subst. contradiction. Qed.
Lemma rm_In x y M : In y (rm x M) <-> In y M /\ y <> x.
Proof. unfold rm. rewrite filter_In. rewrite negb_true_iff, acc_eqb_neq. split; intros [? ?]; split; auto. Qed.
Lemma rm_NoDup x M : NoDup M -> NoDup (rm x M).
Proof. apply NoDup_filter. Qed.
Lemma before_incl x M : incl (before x M) M.
Proof. induction M as [|a t IH]; simpl; [apply incl_refl|]. destruct (acc_eqb x a); [intros ? []|].
  intros y [->|H]; [left; auto|right; auto]. Qed.
Lemma before_not_self x M : ~ In x (before x M).
Proof. induction M as [|a t IH]; simpl; auto. destruct (acc_eqb x a) eqn:E; [intros []|].
  intros [->|H]; auto. rewrite acc_eqb_refl in E. discriminate. Qed.
Lemma before_rm x z M : x <> z -> before x (rm z M) = rm z (before x M).
Proof. intros Hne. induction M as [|a t IH]; simpl; auto.
  destruct (acc_eqb z a) eqn:Ez; simpl.
  - apply acc_eqb_eq in Ez. subst a. destruct (acc_eqb x z) eqn:Ex.
    + apply acc_eqb_eq in Ex. contradiction.
    + simpl. rewrite acc_eqb_refl. simpl. auto.
  - destruct (acc_eqb x a) eqn:Ex; simpl; auto. rewrite Ez. simpl. f_equal. auto. Qed.
Lemma before_app_notin x A B : ~ In x A -> before x (A ++ B) = A ++ before x B.
Proof. induction A as [|a t IH]; simpl; intros H; auto.
  destruct (acc_eqb x a) eqn:E; [apply acc_eqb_eq in E; subst; tauto|]. f_equal. apply IH. tauto. Qed.
Lemma before_head x t : before x (x :: t) = [].
Proof. simpl. rewrite acc_eqb_refl. auto. Qed.
Lemma before_nil_head x M : In x M -> before x M = [] -> exists t, M = x :: t.
Proof. destruct M as [|a t]; simpl; [tauto|]. intros _. destruct (acc_eqb x a) eqn:E; [|discriminate].
  apply acc_eqb_eq in E. subst. eauto. Qed.
Lemma filter_before p x M : p x = true -> before x (filter p M) = filter p (before x M).
Proof. intros Hp. induction M as [|a t IH]; simpl; auto.
  destruct (acc_eqb x a) eqn:E.
  - apply acc_eqb_eq in E. subst a. rewrite Hp. simpl. rewrite acc_eqb_refl. auto.
  - destruct (p a) eqn:Ea; simpl; rewrite ?E, ?Ea; auto. f_equal; auto. Qed.

(* owner i is in the leading READ run iff its READ is queued with only READs before it *)
Lemma lead_iff M i : In i (lead M) <-> In (RD, i) M /\ forall y, In y (before (RD, i) M) -> fst y = RD.
Proof. induction M as [|[[|] o] t IH]; cbn [lead before].
  - simpl. tauto.
  - destruct (acc_eqb (RD, i) (RD, o)) eqn:E.
    + apply acc_eqb_eq in E. inversion E; subst. split; [intros _; split; [left; auto|intros y []]|left; auto].
    + apply acc_eqb_neq in E. split.
      * intros [->|H]; [congruence|]. apply IH in H. destruct H as [H1 H2]. split; [right; auto|].
        intros y [<-|Hy]; auto.
      * intros [[H|H] H2]; [congruence|]. right. apply IH. split; auto. intros y Hy. apply H2. right; auto.
  - assert (E : acc_eqb (RD, i) (WR, o) = false) by reflexivity. rewrite E. split; [intros []|].
    intros [[H|H] H2]; [discriminate|]. specialize (H2 (WR, o) (or_introl eq_refl)). discriminate. Qed.

Lemma wr_ok_iff M i : NoDup M ->
  (wr_ok M i = true <-> In (WR, i) M /\ forall y, In y (before (WR, i) M) -> y = (RD, i)).
Proof. intros Hnd. split.
  - destruct M as [|[[|] o] t]; cbn [wr_ok]; [discriminate| |].
    + destruct t as [|[[|] p] t']; try discriminate. intros H. apply andb_true_iff in H.
      destruct H as [H1 H2]. apply Nat.eqb_eq in H1, H2. subst o p. split; [right; left; auto|].
      intros y. simpl. rewrite acc_eqb_refl. intros [<-|[]]; auto.
    + intros H. apply Nat.eqb_eq in H. subst o. split; [left; auto|]. rewrite before_head. intros y [].
  - intros [Hin Hb]. destruct M as [|[[|] o] t]; [destruct Hin| |].
    + assert (Ho : o = i). { specialize (Hb (RD, o)). cbn [before] in Hb.
        assert (E : acc_eqb (WR, i) (RD, o) = false) by reflexivity. rewrite E in Hb.
        specialize (Hb (or_introl eq_refl)). congruence. }
      subst o. destruct t as [|[[|] p] t'].
      * destruct Hin as [H|[]]; discriminate.
      * exfalso. specialize (Hb (RD, p)). cbn [before] in Hb.
        assert (E1 : acc_eqb (WR, i) (RD, i) = false) by reflexivity.
        assert (E2 : acc_eqb (WR, i) (RD, p) = false) by reflexivity. rewrite E1, E2 in Hb.
        specialize (Hb (or_intror (or_introl eq_refl))). inversion Hb; subst.
        inversion Hnd; subst. apply H1. left; auto.
      * cbn [wr_ok]. rewrite Nat.eqb_refl. simpl. apply Nat.eqb_eq.
        destruct (Nat.eq_dec i p) as [|Hne]; auto. exfalso. specialize (Hb (WR, p)). cbn [before] in Hb.
        assert (E1 : acc_eqb (WR, i) (RD, i) = false) by reflexivity. rewrite E1 in Hb.
        assert (E2 : acc_eqb (WR, i) (WR, p) = false).
        { apply acc_eqb_neq. congruence. }
        rewrite E2 in Hb. specialize (Hb (or_intror (or_introl eq_refl))). discriminate.
    + cbn [wr_ok]. apply Nat.eqb_eq. destruct (Nat.eq_dec i o) as [|Hne]; auto. exfalso.
      specialize (Hb (WR, o)). cbn [before] in Hb.
      assert (E2 : acc_eqb (WR, i) (WR, o) = false) by (apply acc_eqb_neq; congruence).
      rewrite E2 in Hb. specialize (Hb (or_introl eq_refl)). discriminate. Qed.

(* ---------- dequeue on grp ---------- *)
Lemma set_remove_filter i os : set_remove i os = filter (fun x => negb (i =? x)) os.
Proof. reflexivity. Qed.
Lemma rm_map_RD i os : rm (RD, i) (map (pair RD) os) = map (pair RD) (set_remove i os).
Proof. unfold rm, set_remove. induction os as [|o os IH]; simpl; auto.
  unfold acc_eqb at 1. cbn [fst snd aty_eqb andb]. destruct (i =? o); simpl; auto. f_equal; auto. Qed.

Lemma dequeue_grp_RD M i : NoDup M -> In i (lead M) -> dequeue (grp M) i = Ok (grp (rm (RD, i) M)).
Proof. intros Hnd Hin.
  assert (Hr : ~ In (RD, i) (rest M)).
  { rewrite (lead_rest M) in Hnd. intros H. eapply NoDup_app_disj; eauto. apply in_map; auto. }
  rewrite (lead_rest M) at 2. rewrite rm_app, rm_map_RD, (rm_notin _ _ Hr).
  rewrite grp_lead by (auto using lead_rest_nil, rest_rest).
  destruct M as [|[[|] o] t]; [destruct Hin| |destruct Hin].
  rewrite grp_RD. unfold dequeue. cbn [g_reqs g_ty]. cbn [lead rest] in *.
  apply memn_In in Hin. rewrite Hin. destruct (set_remove i (o :: lead t)); reflexivity. Qed.
Lemma dequeue_grp_WR t i : ~ In (WR, i) t -> dequeue (grp ((WR, i) :: t)) i = Ok (grp (rm (WR, i) ((WR, i) :: t))).
Proof. intros Hn. rewrite grp_WR. unfold dequeue. cbn [g_reqs g_ty memn existsb]. rewrite Nat.eqb_refl.
  cbn [orb set_remove filter]. rewrite Nat.eqb_refl. cbn [negb].
  unfold rm. cbn [filter]. rewrite acc_eqb_refl. cbn [negb]. fold (rm (WR, i) t). rewrite rm_notin; auto. Qed.

(* x can be dequeued: it is queued and everything registered before it is a READ, x being a READ *)
Definition deq_able (M : list acc) (x : acc) : Prop :=
  In x M /\ forall y, In y (before x M) -> fst x = RD /\ fst y = RD.
Lemma dequeue_grp M x : NoDup M -> deq_able M x -> dequeue (grp M) (snd x) = Ok (grp (rm x M)).
Proof. intros Hnd [Hin Hb]. destruct x as [[|] i]; cbn [snd].
  - apply dequeue_grp_RD; auto. apply lead_iff. split; auto. intros y Hy. apply Hb; auto.
  - destruct (before_nil_head _ _ Hin) as [t ->].
    + destruct (before (WR, i) M) as [|y l]; auto. destruct (Hb y (or_introl eq_refl)). discriminate.
    + apply dequeue_grp_WR. inversion Hnd; auto. Qed.

(* ---------- a batch of dequeues ---------- *)
Fixpoint deqs (q : queue) (os : list nat) : res queue :=
  match os with
  | [] => Ok q
  | o :: t => match dequeue q o with Ok q' => deqs q' t | Err e => Err e end
  end.
Definition memacc (a : acc) (T : list acc) : bool := existsb (acc_eqb a) T.
Lemma memacc_In a T : memacc a T = true <-> In a T.
Proof. unfold memacc. rewrite existsb_exists. split.
  - intros [x [H1 H2]]. apply acc_eqb_eq in H2. subst; auto.
  - intros H. exists a. split; auto. apply acc_eqb_refl. Qed.

Lemma deqs_grp : forall T M, NoDup M -> NoDup T -> incl T M ->
  (forall x y, In x T -> In y (before x M) -> (fst x = RD /\ fst y = RD) \/ In y (before x T)) ->
  deqs (grp M) (map snd T) = Ok (grp (filter (fun a => negb (memacc a T)) M)).
Proof. induction T as [|x T IH]; intros M HM HT Hi Hc.
  - simpl. rewrite filter_all; auto.
  - cbn [map deqs]. inversion HT as [|? ? Hx HT']; subst.
    assert (Hd : deq_able M x).
    { split; [apply Hi; left; auto|]. intros y Hy. destruct (Hc x y (or_introl eq_refl) Hy) as [H|H]; auto.
      rewrite before_head in H. destruct H. }
    rewrite (dequeue_grp M x HM Hd). rewrite (IH (rm x M)); auto.
    + f_equal. f_equal. unfold rm. clear. induction M as [|a M IHM]; simpl; auto.
      rewrite (acc_eqb_sym a x). destruct (acc_eqb x a) eqn:E; simpl; auto.
      destruct (memacc a T); simpl; auto. f_equal; auto.
    + apply rm_NoDup; auto.
    + intros y Hy. apply rm_In. split; [apply Hi; right; auto|]. intros ->. contradiction.
    + intros x' y Hx' Hy. assert (Hne : x' <> x) by (intros ->; contradiction).
      rewrite before_rm in Hy by auto. apply rm_In in Hy. destruct Hy as [Hy Hyx].
      destruct (Hc x' y (or_intror Hx') Hy) as [H|H]; auto. right.
      cbn [before] in H. destruct (acc_eqb x' x) eqn:E; [apply acc_eqb_eq in E; contradiction|].
      destruct H as [H|H]; [congruence|auto]. Qed.
