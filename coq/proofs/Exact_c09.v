(* Exact_c09.v -- the checker C09_checkb decides exactly the five-clause statement C09_prop.
   The (->) half is Readings5_c09.C09_checkb_reading; the (<-) half is proved here, conjunct by conjunct
   (exact_c09_dag / _names / _units / _conns / _reach / _locks).  The hypothesis `preds_known P` of the
   theorem is not used: clause 4 of C09_prop already implies it (exact_c09_preds_known). *)
From Coq Require Import Lia Permutation.
From PS Require Import Base Str Bag RegAccess Sim Graph Loader Diag LoaderSpec Readings_defs Readings4_defs
  Exact_defs Lists Graph_facts LD_base C11_locks C09_proof Readings5_c09.

(* ====================================================================== *)
(* lists                                                                   *)
(* ====================================================================== *)
Lemma ex9_nodupb_of_split {A} (eqb : A -> A -> bool) : forall l,
  (forall l1 a l2 b l3, l = l1 ++ a :: l2 ++ b :: l3 -> eqb a b = false) -> nodupb eqb l = true.
Proof. induction l as [|x l IH]; intros H; [reflexivity|]. cbn [nodupb]. apply andb_true_iff. split.
  - apply negb_true_iff. destruct (existsb (eqb x) l) eqn:E; auto.
    apply existsb_exists in E. destruct E as [b [Hb Eb]].
    apply in_split in Hb. destruct Hb as [l2 [l3 ->]].
    rewrite (H [] x l2 b l3) in Eb by reflexivity. discriminate.
  - apply IH. intros l1 a l2 b l3 E. apply (H (x :: l1) a l2 b l3). rewrite E. reflexivity. Qed.

(* ====================================================================== *)
(* nodes of the processor graph                                            *)
(* ====================================================================== *)
Lemma ex9_nodes_addn ns : forall g x, In x (g_nodes (fold_left add_node ns g)) <-> In x (g_nodes g) \/ In x ns.
Proof. induction ns as [|n t IH]; intros g x; cbn [fold_left].
  - simpl. tauto.
  - rewrite IH, add_node_nodes. simpl. intuition. Qed.
Lemma ex9_nodes_inner n ps : forall g x, In x (g_nodes (fold_left (fun g p => add_edge g p n) ps g)) ->
  In x (g_nodes g) \/ In x ps \/ (x = n /\ ps <> []).
Proof. induction ps as [|p t IH]; intros g x H; cbn [fold_left] in H; auto.
  apply IH in H. destruct H as [H|[H|[H1 H2]]].
  - apply add_edge_nodes in H. destruct H as [H|[->| ->]]; auto.
    + right; left; left; auto.
    + right; right. split; auto. discriminate.
  - right; left; right; auto.
  - right; right. split; auto. discriminate. Qed.
Lemma ex9_nodes_outer fs : forall g x, In x (g_nodes (fold_left pg_step fs g)) ->
  In x (g_nodes g) \/ exists f, In f fs /\ (In x (f_preds f) \/ (x = u_name (f_model f) /\ f_preds f <> [])).
Proof. induction fs as [|f t IH]; intros g x H; cbn [fold_left] in H; auto.
  apply IH in H. destruct H as [H|[f' [F1 F2]]].
  - unfold pg_step in H. apply ex9_nodes_inner in H. destruct H as [H|H]; auto.
    right. exists f. split; [left; auto|]. tauto.
  - right. exists f'. split; [right; auto|auto]. Qed.

Lemma ex9_graph_nodes_names P x : In x (unit_names P) -> In x (g_nodes (proc_graph P)).
Proof. intros H. unfold proc_graph.
  assert (K : forall fs g, In x (g_nodes g) -> In x (g_nodes (fold_left pg_step fs g))).
  { induction fs as [|f t IH]; intros g Hg; cbn [fold_left]; auto. apply IH. unfold pg_step.
    assert (K2 : forall ps g, In x (g_nodes g) ->
              In x (g_nodes (fold_left (fun g p => add_edge g p (u_name (f_model f))) ps g))).
    { induction ps as [|p ps IH2]; intros g0 Hg0; cbn [fold_left]; auto. apply IH2. apply add_edge_nodes. auto. }
    apply K2. auto. }
  apply (K (funits P)). apply ex9_nodes_addn. auto. Qed.

Lemma ex9_funit_all P f : In f (funits P) -> In (f_model f) (all_units P).
Proof. unfold funits, all_units. rewrite !in_app_iff. intros [H|H]; right; right; [left|right]; apply in_map; auto. Qed.
Lemma ex9_port_all P p : In p (p_in P ++ p_inout P) -> In p (all_units P).
Proof. unfold all_units. rewrite !in_app_iff. tauto. Qed.

(* ====================================================================== *)
(* routes                                                                  *)
(* ====================================================================== *)
Lemma ex9_croute_rpath P c : forall l u, croute P c (u :: l) ->
  rpath (nxtP P c) u (last (u :: l) EmptyString).
Proof. induction l as [|v l IH]; intros u H.
  - cbn [last]. apply rp_refl.
  - inversion H as [|u0 v0 l0 Hs Hv Hc]; subst.
    change (last (u :: v :: l) EmptyString) with (last (v :: l) EmptyString).
    eapply rpath_trans; [|apply IH; exact Hc].
    eapply rp_step; [apply rp_refl|]. unfold nxtP. apply filter_In. split; auto.
    apply (r5_croute_head _ _ _ _ Hc). Qed.

(* a value of the route relation is the lock count of a maximal route *)
Lemma ex9_rval_route P c k : forall u v, rval (nxtP P c) (lockedP P k) u v -> supports P u c = true ->
  exists l, croute P c (u :: l) /\ maximal P c (u :: l) /\ count_locks P k (u :: l) = v.
Proof. induction 1 as [u E|u s v Hs Hv IH]; intros Hu.
  - exists []. split; [apply cr_one; auto|]. split.
    + intros y Hy w Hw. cbn [last] in Hy. subst y. destruct (supports P w c) eqn:Ew; auto.
      assert (In w (nxtP P c u)) by (apply filter_In; auto). rewrite E in H. destruct H.
    + rewrite r5_count_cons. unfold count_locks. cbn [filter length]. unfold bump, lockedP, has_lock.
      destruct k; lia.
  - unfold nxtP in Hs. apply filter_In in Hs. destruct Hs as [S1 S2].
    destruct (IH S2) as [l [L1 [L2 L3]]]. exists (s :: l). split; [apply cr_cons; auto|]. split.
    + intros y Hy. apply L2. exact Hy.
    + rewrite r5_count_cons, L3. unfold bump, lockedP, has_lock. destruct k; reflexivity. Qed.

(* ====================================================================== *)
(* the (<-) half                                                           *)
(* ====================================================================== *)
Section Exact.
  Variable P : proc.
  Hypothesis HP : C09_prop P.

  Let H1 : forall u, ~ path P u u := proj1 HP.
  Let H2 : forall l1 a l2 b l3, unit_names P = l1 ++ a :: l2 ++ b :: l3 -> ic_eqb a b = false := proj1 (proj2 HP).
  Let H3 : forall u, In u (all_units P) -> 0 < u_width u /\ u_caps u <> [] := proj1 (proj2 (proj2 HP)).
  Let H4 : forall u v, In v (succs_of P u) ->
     In u (unit_names P) /\ In v (unit_names P) /\ exists c, supports P u c = true /\ supports P v c = true
     := proj1 (proj2 (proj2 (proj2 HP))).
  Let H5 : forall p c, In p (p_in P ++ p_inout P) -> In c (u_caps p) ->
     (exists l, croute P c (u_name p :: l) /\ In (last (u_name p :: l) EmptyString) (out_names P)) /\
     (forall l, croute P c (u_name p :: l) -> maximal P c (u_name p :: l) ->
        count_locks P LkRead (u_name p :: l) = 1 /\ count_locks P LkWrite (u_name p :: l) = 1)
     := proj2 (proj2 (proj2 (proj2 HP))).

  Lemma exact_c09_names : nodupb ic_eqb (unit_names P) = true.
  Proof. apply ex9_nodupb_of_split. exact H2. Qed.

  Lemma ex9_names_NoDup : NoDup (unit_names P).
  Proof. pose proof exact_c09_names as H. apply nodupb_ic in H. apply NoDup_map_inv in H. exact H. Qed.
  Lemma ex9_find_unit x : In x (all_units P) -> find_unit P (u_name x) = Some x.
  Proof. intros H. unfold find_unit. apply (find_nodup u_name); auto. apply ex9_names_NoDup. Qed.
  Lemma ex9_supports x c : In x (all_units P) -> supports P (u_name x) c = mem_str c (u_caps x).
  Proof. intros H. unfold supports. rewrite ex9_find_unit; auto. Qed.

  (* clause 4 already says that every named predecessor is a unit *)
  Lemma exact_c09_preds_known : preds_known P.
  Proof. intros f p Hf Hp. assert (H : In (u_name (f_model f)) (succs_of P p)).
    { apply r5_succs_of_inv. exists f. auto. }
    apply H4 in H. tauto. Qed.

  (* ---- the graph ---- *)
  Lemma ex9_graph_edge x y : In y (succs (proc_graph P) x) <-> In y (succs_of P x).
  Proof. split; [|apply r5_edge_graph]. intros H. destruct (proc_graph_spec P) as [_ G].
    apply G in H. apply r5_succs_of_inv. exact H. Qed.
  Lemma ex9_gpath_path x y : gpath (proc_graph P) x y -> path P x y.
  Proof. induction 1 as [a b E|a b c E _ IH].
    - apply path_one. apply ex9_graph_edge. auto.
    - eapply path_cons; [apply ex9_graph_edge; eauto|auto]. Qed.
  Lemma ex9_graph_acyclic : acyclic (proc_graph P).
  Proof. intros x Hx. apply (H1 x). apply ex9_gpath_path. auto. Qed.
  Lemma ex9_graph_wf : gwf (proc_graph P).
  Proof. apply proc_graph_spec. Qed.

  Lemma exact_c09_dag : is_dag (proc_graph P) = true.
  Proof. apply (is_dag_acyclic _ ex9_graph_wf). apply ex9_graph_acyclic. Qed.

  Lemma ex9_graph_nodes x : In x (g_nodes (proc_graph P)) -> In x (unit_names P).
  Proof. intros H. unfold proc_graph in H. apply ex9_nodes_outer in H. destruct H as [H|[f [F1 F2]]].
    - apply ex9_nodes_addn in H. destruct H as [[]|H]; auto.
    - destruct F2 as [F2|[-> _]].
      + apply (exact_c09_preds_known f x); auto.
      + unfold unit_names. apply in_map. apply ex9_funit_all. auto. Qed.
  Lemma ex9_graph_size : length (g_nodes (proc_graph P)) <= nunits P.
  Proof. unfold nunits. rewrite <- (map_length u_name (all_units P)). fold (unit_names P).
    apply NoDup_incl_length; [apply ex9_graph_wf|]. intros x. apply ex9_graph_nodes. Qed.

  (* ---- units ---- *)
  Lemma exact_c09_units :
    forallb (fun u => (0 <? u_width u) && match u_caps u with [] => false | _ => true end) (all_units P) = true.
  Proof. apply forallb_forall. intros u Hu. destruct (H3 u Hu) as [A B]. apply andb_true_iff. split.
    - apply Nat.ltb_lt. auto.
    - destruct (u_caps u); [congruence|reflexivity]. Qed.

  (* ---- connections ---- *)
  Lemma exact_c09_conns :
    forallb (fun f => forallb (fun p => mem_str p (unit_names P)
                                          && existsb (fun c => mem_str c (caps_in P p)) (u_caps (f_model f)))
                               (f_preds f)) (funits P) = true.
  Proof. apply forallb_forall. intros f Hf. apply forallb_forall. intros p Hp.
    assert (H : In (u_name (f_model f)) (succs_of P p)) by (apply r5_succs_of_inv; exists f; auto).
    destruct (H4 _ _ H) as [A [_ [c [C1 C2]]]]. apply andb_true_iff. split; [apply mem_str_In; auto|].
    apply existsb_exists. exists c. split.
    - rewrite ex9_supports in C2 by (apply ex9_funit_all; auto). apply mem_str_In. auto.
    - unfold supports in C1. unfold caps_in. destruct (find_unit P p); [exact C1|discriminate]. Qed.

  (* ---- ports ---- *)
  Lemma ex9_port_supports p c : In p (p_in P ++ p_inout P) -> In c (u_caps p) -> supports P (u_name p) c = true.
  Proof. intros Hp Hc. rewrite ex9_supports by (apply ex9_port_all; auto). apply mem_str_In. auto. Qed.
  Lemma ex9_port_name p : In p (p_in P ++ p_inout P) -> In (u_name p) (unit_names P).
  Proof. intros Hp. unfold unit_names. apply in_map. apply ex9_port_all. auto. Qed.

  Lemma exact_c09_reach p c : In p (p_in P ++ p_inout P) -> In c (u_caps p) ->
    reaches_output P c (u_name p) = true.
  Proof. intros Hp Hc. destruct (H5 p c Hp Hc) as [[l [L1 L2]] _]. unfold reaches_output.
    apply existsb_exists. exists (last (u_name p :: l) EmptyString). split; auto. apply mem_str_In.
    fold (nxtP P c).
    apply (reach_from_spec (nxtP P c) (unit_names P) [u_name p] (S (nunits P))).
    - repeat constructor. simpl. tauto.
    - intros y [<-|[]]. apply ex9_port_name. auto.
    - intros y _ z Hz. unfold nxtP in Hz. apply filter_In in Hz. destruct Hz as [Hz _]. apply H4 in Hz. tauto.
    - unfold unit_names, nunits. rewrite map_length. lia.
    - exists (u_name p). split; [left; auto|]. apply ex9_croute_rpath. auto. Qed.

  Lemma ex9_rank_step c u s :
    In u (g_nodes (proc_graph P)) /\ supports P u c = true -> In s (nxtP P c u) ->
    (In s (g_nodes (proc_graph P)) /\ supports P s c = true) /\
    idx s (dfs_postorder (proc_graph P)) < idx u (dfs_postorder (proc_graph P)).
  Proof. intros _ Hs. unfold nxtP in Hs. apply filter_In in Hs. destruct Hs as [S1 S2].
    apply r5_edge_graph in S1. split; [split; auto|].
    - apply (gwf_in _ ex9_graph_wf) in S1. tauto.
    - apply (dfs_postorder_succ_before _ _ _ ex9_graph_wf ex9_graph_acyclic S1). Qed.

  Lemma exact_c09_locks p c k : In p (p_in P ++ p_inout P) -> In c (u_caps p) ->
    forallb (fun n => n =? 1) (lock_counts (S (nunits P)) P c (u_name p) k 0) = true.
  Proof. intros Hp Hc. apply forallb_forall. intros x Hx. apply Nat.eqb_eq.
    pose proof (ex9_port_supports p c Hp Hc) as Hs.
    assert (Hn : In (u_name p) (g_nodes (proc_graph P))) by (apply ex9_graph_nodes_names, ex9_port_name; auto).
    rewrite lock_counts_alc in Hx.
    apply (alc_spec (nxtP P c) (lockedP P k) (fun u => idx u (dfs_postorder (proc_graph P)))
             (fun u => In u (g_nodes (proc_graph P)) /\ supports P u c = true)) in Hx.
    - destruct Hx as [v [Hv ->]]. destruct (ex9_rval_route P c k _ _ Hv Hs) as [l [L1 [L2 L3]]].
      destruct (H5 p c Hp Hc) as [_ K]. destruct (K l L1 L2) as [K1 K2]. destruct k; simpl; congruence.
    - intros u s. apply ex9_rank_step.
    - split; auto.
    - assert (Hi : idx (u_name p) (dfs_postorder (proc_graph P)) < length (dfs_postorder (proc_graph P))).
      { apply idx_lt. apply dfs_postorder_in; [apply ex9_graph_wf|auto]. }
      rewrite (Permutation_length (dfs_postorder_perm _ ex9_graph_wf)) in Hi.
      pose proof ex9_graph_size as Hsz. lia. Qed.

  Lemma exact_c09_checkb : C09_checkb P = true.
  Proof. unfold C09_checkb. rewrite exact_c09_dag, exact_c09_names, exact_c09_units, exact_c09_conns.
    cbn [andb]. apply forallb_forall. intros p Hp. apply forallb_forall. intros c Hc.
    rewrite (exact_c09_reach p c Hp Hc), (exact_c09_locks p c LkRead Hp Hc), (exact_c09_locks p c LkWrite Hp Hc).
    reflexivity. Qed.
End Exact.

(* the checker is the five-clause statement; `preds_known` is not needed (it follows from clause 4) *)
Lemma C09_checker_exact_strong : forall P, C09_checkb P = true <-> C09_prop P.
Proof. intros P. split; [apply C09_checkb_reading|apply exact_c09_checkb]. Qed.

Lemma C09_checker_exact_lemma : forall P, preds_known P -> (C09_checkb P = true <-> C09_prop P).
Proof. intros P _. apply C09_checker_exact_strong. Qed.
