(* Readings_c03.v -- the route of an instruction of a completed run, read off the per-instruction track
   invariant TI / Dn of C03_proof.v (from which C03_checkb itself was derived). *)
From Coq Require Import Lia.
From PS Require Import Base Bag RegAccess Sim Diag Lists Run C03_lists C03_step C03_inv C03_track C03_proof.

(* ---------- list facts ---------- *)
Lemma contiguous_nth : forall l k t, contiguous l = true -> nth_error l k = Some t -> t = hd 0 l + k.
Proof. induction l as [|a l IH]; intros k t Hc Hn; [destruct k; discriminate|]. destruct k as [|k].
  - cbn in Hn. inversion Hn; subst. cbn [hd]. lia.
  - cbn [nth_error] in Hn. destruct l as [|b l]; [destruct k; discriminate|].
    cbn [contiguous] in Hc. apply andb_true_iff in Hc. destruct Hc as [H1 H2]. apply Nat.eqb_eq in H1.
    rewrite (IH k t H2 Hn). cbn [hd]. lia. Qed.

Lemma nth_error_map_inv {A B} (g : A -> B) l k y : nth_error (map g l) k = Some y ->
  exists x, nth_error l k = Some x /\ g x = y.
Proof. rewrite nth_error_map. destruct (nth_error l k) as [x|]; [|discriminate]. intros H. inversion H. eauto. Qed.

Lemma nth_error_le_some {A} (l : list A) j m y : nth_error l m = Some y -> j <= m -> exists x, nth_error l j = Some x.
Proof. intros Hm Hle. destruct (nth_error l j) as [x|] eqn:E; [eauto|]. apply nth_error_None in E.
  assert (m < length l) by (apply nth_error_Some; congruence). lia. Qed.

Section Route.
Variable P : proc.
Hypothesis Hwf : wf_procb P = true.

Lemma chain_nth : forall R k x y, chain P R -> nth_error R k = Some x -> nth_error R (S k) = Some y -> link P x y.
Proof. induction R as [|a R IH]; intros k x y Hc Hx Hy; [destruct k; discriminate|].
  destruct R as [|b R]; [destruct k; discriminate|]. destruct Hc as [Hl Hc]. destruct k as [|k].
  - cbn in Hx, Hy. inversion Hx; inversion Hy; subst. exact Hl.
  - apply (IH k); auto. Qed.

(* along a chain the rank of the unit never increases, and stays the same only on the same unit *)
Lemma chain_rank R : chain P R -> forall n k x y, nth_error R k = Some x -> nth_error R (k + n) = Some y ->
  rk P (fst y) <= rk P (fst x) /\ (rk P (fst y) = rk P (fst x) -> fst y = fst x).
Proof. intros Hc. induction n as [|n IH]; intros k x y Hx Hy.
  - rewrite Nat.add_0_r in Hy. rewrite Hx in Hy. inversion Hy; subst. auto.
  - replace (k + S n) with (S (k + n)) in Hy by lia.
    destruct (nth_error_le_some R (k + n) _ y Hy ltac:(lia)) as [z Hz].
    destruct (IH k x z Hx Hz) as [I1 I2].
    destruct (chain_nth R (k + n) z y Hc Hz Hy) as [[E _]|(_ & Hp & _)].
    + rewrite <- E. auto.
    + pose proof (rk_lt P Hwf _ _ Hp). split; lia. Qed.

Lemma chain_norevisit R : chain P R ->
  forall k m u l l', k < m -> nth_error R k = Some (u, l) -> nth_error R m = Some (u, l') ->
  forall j, k <= j <= m -> exists l'', nth_error R j = Some (u, l'').
Proof. intros Hc k m u l l' Hkm Hk Hm j Hj.
  destruct (nth_error_le_some R j m _ Hm ltac:(lia)) as [[v l''] Hv].
  replace j with (k + (j - k)) in Hv by lia. replace m with (k + (j - k) + (m - j)) in Hm by lia.
  destruct (chain_rank R Hc _ _ _ _ Hk Hv) as [A1 A2].
  destruct (chain_rank R Hc _ _ _ _ Hv Hm) as [B1 _]. cbn [fst] in *.
  assert (v = u) by (apply A2; lia). subst. exists l''. replace j with (k + (j - k)) by lia. exact Hv. Qed.

End Route.

Lemma track_in_iff d i t u l : Forall Kq d -> (In (t, (u, l)) (track d i) <-> In (i, l) (occ d t u)).
Proof. intros HK. split.
  - intros H. apply track_in in H. destruct H as [Ht H]. unfold occ. apply (places_get _ _ _ _ ) in H; auto.
    unfold rec_at. rewrite Forall_forall in HK. apply HK. apply nth_In; auto.
  - intros H.
    assert (Ht : t < length d).
    { destruct (Nat.lt_ge_cases t (length d)) as [|Hge]; auto. exfalso.
      unfold occ, rec_at in H. rewrite nth_overflow in H by lia. destruct H. }
    unfold track. apply in_flat_map. exists t. split; [apply in_seq; lia|]. apply in_map.
    apply places_get; auto. unfold rec_at. rewrite Forall_forall in HK. apply HK. apply nth_In; auto. Qed.

Lemma C03_reading_lemma :
  forall (P : proc) (prog : list instr) (fuel : nat) (d : diagram),
    wf_procb P = true -> simulate fuel P prog = Done d ->
    forall i, i < length prog ->
    exists (a : nat) (route : list (string * label)),
      route <> [] /\
      (forall t u l, In (i, l) (occ d t u) <-> (a <= t /\ nth_error route (t - a) = Some (u, l))) /\
      (exists u0 l0, hd_error route = Some (u0, l0) /\ In u0 (in_names P) /\ l0 <> LS) /\
      (forall k u l, nth_error route k = Some (u, l) -> supports P u (cat_of prog i) = true) /\
      (forall k u l u' l', nth_error route k = Some (u, l) -> nth_error route (S k) = Some (u', l') ->
         (u = u' /\ ((l = LD /\ l' <> LS) \/ (l <> LD /\ l' = LS)))
         \/ (u <> u' /\ l <> LD /\ l' <> LS /\ In u (preds_of P u'))) /\
      (forall k m u l l', k < m -> nth_error route k = Some (u, l) -> nth_error route m = Some (u, l') ->
         forall j, k <= j <= m -> exists l'', nth_error route j = Some (u, l'')) /\
      (exists u, last route (EmptyString, LD) = (u, LU) /\ In u (out_names P)).
Proof. intros P prog fuel d Hwf Hsim i Hi.
  apply simulate_done in Hsim. destruct Hsim as (s & Hreach & <- & Hcond).
  pose proof (reach_SI P Hwf prog s Hreach) as HS.
  destruct (all_done P prog s HS Hcond i Hi) as (tl & ul & Hne & Hlast & Hout).
  destruct HS as (HR & HT & _ & _). destruct HR as [HF _].
  assert (HK : Forall Kq (tbl s)) by (eapply Forall_impl; [|exact HF]; intros r (G & _); exact G).
  destruct (HT i) as (T1 & T2 & T3 & _ & T5 & _). cbv zeta in T1, T2, T3, T5.
  set (d := tbl s) in *. set (tr := track d i) in *.
  exists (hd 0 (map fst tr)), (map snd tr).
  assert (Hnth : forall k x, nth_error tr k = Some x -> fst x = hd 0 (map fst tr) + k).
  { intros k x Hx. apply contiguous_nth; auto. rewrite nth_error_map, Hx. reflexivity. }
  split; [|split; [|split; [|split; [|split; [|split]]]]].
  - intros E. apply map_eq_nil in E. auto.
  - intros t u l. rewrite <- (track_in_iff d i t u l HK). fold tr. split.
    + intros Hin. apply In_nth_error in Hin. destruct Hin as [k Hk]. pose proof (Hnth _ _ Hk) as Ht. cbn [fst] in Ht.
      split; [lia|]. replace (t - hd 0 (map fst tr)) with k by lia. rewrite nth_error_map, Hk. reflexivity.
    + intros [Hle Hn]. apply nth_error_map_inv in Hn. destruct Hn as ([t' pl] & Hx & E). cbn [snd] in E. subst pl.
      pose proof (Hnth _ _ Hx) as Ht. cbn [fst] in Ht. replace t' with t in Hx by lia. eapply nth_error_In; eauto.
  - destruct tr as [|[t0 [u0 l0]] tr'] eqn:Etr; [congruence|]. exists u0, l0. split; [reflexivity|].
    apply (T5 _ _ eq_refl).
  - intros k u l Hn. apply nth_error_map_inv in Hn. destruct Hn as (x & Hx & E).
    specialize (T3 x (nth_error_In _ _ Hx)). rewrite E in T3. exact T3.
  - intros k u l u' l' Hk Hk'. pose proof (chain_nth P _ _ _ _ T2 Hk Hk') as [[E Ht]|(Hne2 & Hp & H1 & H2)]; cbn [fst snd] in *.
    + left. split; auto.
    + right. auto.
  - apply (chain_norevisit P Hwf _ T2).
  - exists ul. split; auto. change (EmptyString, LD) with (snd dflt). rewrite last_map by auto.
    rewrite Hlast. reflexivity. Qed.
