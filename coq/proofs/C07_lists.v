(* C07_lists.v -- generic list facts used by the C07 proof: filters, deletion of positions,
   sortedness of isort, locate, duplicate-free keys of records. *)
From Coq Require Import Lia Permutation Sorted.
From PS Require Import Base Bag RegAccess Sim Diag Lists.

(* ---------- NoDup helpers ---------- *)
Lemma NoDup_app_intro {A} (a b : list A) :
  NoDup a -> NoDup b -> (forall x, In x a -> ~ In x b) -> NoDup (a ++ b).
Proof. induction a as [|x a IH]; simpl; intros Ha Hb Hd; auto.
  inversion Ha; subst. constructor.
  - rewrite in_app_iff. intros [H|H]; [tauto|]. eapply Hd; eauto.
  - apply IH; auto; intros y Hy; apply Hd; auto. Qed.
Lemma NoDup_map_inj_in {A B} (f : A -> B) l :
  NoDup l -> (forall x y, In x l -> In y l -> f x = f y -> x = y) -> NoDup (map f l).
Proof. induction l as [|a l IH]; simpl; intros Hn Hi; [constructor|].
  inversion Hn; subst. constructor.
  - rewrite in_map_iff. intros [y [Hy1 Hy2]]. assert (y = a) by (apply Hi; auto). subst; tauto.
  - apply IH; auto. Qed.
Lemma nodupb_NoDup l : nodupb String.eqb l = true -> NoDup l.
Proof. induction l as [|x l IH]; simpl; intros H; [constructor|].
  apply andb_true_iff in H. destruct H as [H1 H2]. constructor; auto.
  intros Hin. apply negb_true_iff in H1.
  assert (existsb (String.eqb x) l = true).
  { apply existsb_exists. exists x. split; auto. apply String.eqb_refl. }
  congruence. Qed.

Lemma NoDup_flat_pairs {A B} (g : A -> list B) hs :
  NoDup hs -> (forall h, NoDup (g h)) ->
  NoDup (flat_map (fun h => map (fun i => (h, i)) (g h)) hs).
Proof. induction hs as [|a hs IH]; simpl; intros Hn Hg; [constructor|].
  inversion Hn; subst. apply NoDup_app_intro; auto.
  - apply NoDup_map_inj_in; auto. intros x y _ _ H; inversion H; auto.
  - intros [h i] G1 G2. apply in_map_iff in G1. destruct G1 as [i' [E _]]. inversion E; subst.
    apply in_flat_map in G2. destruct G2 as [h' [Hh' G2]]. apply in_map_iff in G2.
    destruct G2 as [i'' [E2 _]]. inversion E2; subst. tauto. Qed.

(* ---------- filter ---------- *)
Lemma filter_id {A} (f : A -> bool) l : (forall x, In x l -> f x = true) -> filter f l = l.
Proof. induction l as [|a l IH]; simpl; intros H; auto.
  rewrite (H a) by auto. f_equal. apply IH. auto. Qed.
Lemma filter_filter {A} (f g : A -> bool) l : filter f (filter g l) = filter (fun x => g x && f x) l.
Proof. induction l as [|a l IH]; simpl; auto.
  destruct (g a); simpl; [destruct (f a)|]; rewrite IH; auto. Qed.
Lemma NoDup_map_filter {A B} (k : A -> B) (f : A -> bool) l : NoDup (map k l) -> NoDup (map k (filter f l)).
Proof. induction l as [|a l IH]; simpl; intros H; auto.
  inversion H; subst. destruct (f a); simpl; auto. constructor; auto.
  intros Hin. apply in_map_iff in Hin. destruct Hin as [x [E Hx]]. apply filter_In in Hx.
  apply H2. rewrite <- E. apply in_map. tauto. Qed.

(* ---------- positions ---------- *)
Definition ixat {B} (l : list (nat * B)) (n : nat) : nat :=
  match nth_error l n with Some e => fst e | None => 0 end.

Lemma del_nth_lt {A} : forall (l : list A) n j, j < n -> nth_error (del_nth n l) j = nth_error l j.
Proof. induction l as [|x l IH]; intros [|n] j Hj; simpl; auto; try lia.
  destruct j as [|j]; simpl; auto. apply IH. lia. Qed.

Lemma del_nth_filter {B} : forall (l : list (nat * B)) n e,
  NoDup (map fst l) -> nth_error l n = Some e ->
  del_nth n l = filter (fun x => negb (fst x =? fst e)) l.
Proof. induction l as [|x l IH]; intros [|n] e Hn He; simpl in *; try discriminate.
  - inversion He; subst. rewrite Nat.eqb_refl. simpl. symmetry. apply filter_id.
    intros y Hy. inversion Hn; subst. apply negb_true_iff. apply Nat.eqb_neq. intros E.
    apply H1. rewrite <- E. apply in_map. auto.
  - inversion Hn; subst. destruct (Nat.eqb_spec (fst x) (fst e)) as [E|E]; simpl.
    + exfalso. apply H1. rewrite E. apply in_map. eapply nth_error_In; eauto.
    + f_equal. apply IH; auto. Qed.

Definition dels {A} (js : list nat) (l : list A) : list A := fold_left (fun l j => del_nth j l) js l.

Lemma dels_filter {B} : forall ns (l : list (nat * B)),
  StronglySorted (fun a b => b < a) ns -> NoDup (map fst l) ->
  (forall n, In n ns -> nth_error l n <> None) ->
  dels ns l = filter (fun x => negb (memn (fst x) (map (ixat l) ns))) l.
Proof. induction ns as [|n ns IH]; intros l Hs Hn Hv.
  - simpl. symmetry. apply filter_id. auto.
  - inversion Hs as [|? ? Hs' Hall]; subst. rewrite Forall_forall in Hall.
    change (dels (n :: ns) l) with (dels ns (del_nth n l)).
    destruct (nth_error l n) as [e|] eqn:En; [|exfalso; apply (Hv n); simpl; auto].
    assert (Hd : del_nth n l = filter (fun x => negb (fst x =? fst e)) l) by (apply del_nth_filter; auto).
    rewrite IH; auto.
    + assert (Hm : map (ixat (del_nth n l)) ns = map (ixat l) ns).
      { apply map_ext_in. intros j Hj. unfold ixat. rewrite del_nth_lt; auto. }
      rewrite Hm, Hd, filter_filter. apply filter_ext. intros x. cbn [map memn existsb].
      unfold ixat at 2. rewrite En. fold (memn (fst x) (map (ixat l) ns)).
      rewrite negb_orb. reflexivity.
    + rewrite Hd. apply NoDup_map_filter; auto.
    + intros j Hj. rewrite del_nth_lt; auto. apply Hv. simpl; auto. Qed.

(* deleting positions host by host *)
Lemma clr_get {A} (L : list (string * nat)) : forall (r : list (string * list A)) h,
  get (fold_left (fun r c => set r (fst c) (del_nth (snd c) (get r (fst c)))) L r) h
  = dels (map snd (filter (fun c => String.eqb (fst c) h) L)) (get r h).
Proof. induction L as [|c L IH]; intros r h; simpl; auto.
  rewrite IH. destruct (String.eqb_spec (fst c) h) as [E|E].
  - subst. rewrite gss. reflexivity.
  - rewrite gso; auto. Qed.

(* ---------- sortedness ---------- *)
Lemma insert_sorted {A} (leb : A -> A -> bool) :
  (forall a b, leb a b = true \/ leb b a = true) ->
  (forall a b c, leb a b = true -> leb b c = true -> leb a c = true) ->
  forall x l, StronglySorted (fun a b => leb a b = true) l ->
              StronglySorted (fun a b => leb a b = true) (insert leb x l).
Proof. intros Htot Htr x l. induction l as [|y l IH]; intros Hs; simpl.
  - constructor; constructor.
  - inversion Hs as [|? ? Hs' Hall]; subst. destruct (leb x y) eqn:E.
    + constructor; auto. constructor; auto. rewrite Forall_forall in *. intros z Hz. eauto.
    + constructor; auto. rewrite Forall_forall in *. intros z Hz.
      apply insert_incl in Hz. destruct Hz as [->|Hz]; auto.
      destruct (Htot y z); auto; congruence. Qed.
Lemma isort_sorted {A} (leb : A -> A -> bool) :
  (forall a b, leb a b = true \/ leb b a = true) ->
  (forall a b c, leb a b = true -> leb b c = true -> leb a c = true) ->
  forall l, StronglySorted (fun a b => leb a b = true) (isort leb l).
Proof. intros Htot Htr l. induction l; simpl; [constructor|]. apply insert_sorted; auto. Qed.

Lemma sorted_split {A} (R : A -> A -> Prop) l1 c l2 :
  StronglySorted R (l1 ++ c :: l2) -> forall x, In x l1 -> R x c.
Proof. induction l1 as [|a l1 IH]; simpl; intros H x Hx; [tauto|].
  inversion H as [|? ? Hs Hall]; subst. destruct Hx as [->|Hx]; auto.
  rewrite Forall_forall in Hall. apply Hall. apply in_or_app. right; left; auto. Qed.
Lemma ssorted_filter {A} (R : A -> A -> Prop) (f : A -> bool) l :
  StronglySorted R l -> StronglySorted R (filter f l).
Proof. induction 1 as [|a l Hs IH Hall]; simpl; [constructor|].
  destruct (f a); auto. constructor; auto. rewrite Forall_forall in *.
  intros x Hx. apply filter_In in Hx. apply Hall; tauto. Qed.
Lemma ssorted_map {A B} (g : A -> B) (R : A -> A -> Prop) (R' : B -> B -> Prop) l :
  (forall a b, R a b -> R' (g a) (g b)) -> StronglySorted R l -> StronglySorted R' (map g l).
Proof. intros HR. induction 1 as [|a l Hs IH Hall]; simpl; constructor; auto.
  rewrite Forall_forall in *. intros y Hy. apply in_map_iff in Hy. destruct Hy as [x [<- Hx]]. auto. Qed.
Lemma desc_strict ns :
  StronglySorted (fun a b => b <= a) ns -> NoDup ns -> StronglySorted (fun a b => b < a) ns.
Proof. induction 1 as [|a l Hs IH Hall]; intros Hn; constructor; inversion Hn; subst; auto.
  rewrite Forall_forall in *. intros x Hx. specialize (Hall x Hx).
  assert (x <> a) by (intros ->; tauto). lia. Qed.

(* ---------- locate ---------- *)
Lemma locate_spec {A} (p : A -> bool) : forall l i j,
  In j (locate p l i) -> i <= j /\ exists e, nth_error l (j - i) = Some e /\ p e = true.
Proof. induction l as [|x l IH]; intros i j Hj; simpl in Hj; [tauto|].
  apply in_app_iff in Hj. destruct Hj as [Hj|Hj].
  - destruct (p x) eqn:E; simpl in Hj; [|tauto]. destruct Hj as [->|[]].
    split; [lia|]. rewrite Nat.sub_diag. exists x; auto.
  - apply IH in Hj. destruct Hj as [Hle [e [He Hp]]]. split; [lia|].
    exists e. split; auto. replace (j - i) with (S (j - S i)) by lia. auto. Qed.
Lemma locate_complete {A} (p : A -> bool) : forall l i j e,
  nth_error l j = Some e -> p e = true -> In (i + j) (locate p l i).
Proof. induction l as [|x l IH]; intros i [|j] e He Hp; simpl in *; try discriminate.
  - inversion He; subst. rewrite Hp. rewrite Nat.add_0_r. simpl; auto.
  - apply in_or_app. right. replace (i + S j) with (S i + j) by lia. eapply IH; eauto. Qed.
Lemma locate_NoDup {A} (p : A -> bool) : forall l i, NoDup (locate p l i).
Proof. induction l as [|x l IH]; intros i; simpl; [constructor|].
  apply NoDup_app_intro; auto.
  - destruct (p x); repeat constructor; auto.
  - intros y Hy Hy2. apply locate_spec in Hy2. destruct (p x); simpl in Hy; [|tauto].
    destruct Hy as [->|[]]. lia. Qed.

(* ---------- records: keys ---------- *)
Definition ukeys (r : record) := NoDup (map fst r).
Lemma set_keys_in {A} (r : list (string * A)) k v x :
  In x (map fst (set r k v)) -> x = k \/ In x (map fst r).
Proof. induction r as [|[k' v'] t IH]; simpl; [intuition|].
  destruct (String.eqb k k') eqn:E; simpl.
  - apply String.eqb_eq in E. subst. intuition.
  - intros [H|H]; auto. apply IH in H. intuition. Qed.
Lemma set_ukeys (r : record) k v : ukeys r -> ukeys (set r k v).
Proof. unfold ukeys. induction r as [|[k' v'] t IH]; simpl; intros H.
  - repeat constructor. simpl; tauto.
  - inversion H; subst. destruct (String.eqb k k') eqn:E; simpl.
    + apply String.eqb_eq in E. subst. constructor; auto.
    + constructor; auto. intros Hin. apply set_keys_in in Hin. destruct Hin as [->|Hin]; auto.
      rewrite String.eqb_refl in E. discriminate. Qed.
Lemma get_ukeys (r : record) k es : ukeys r -> In (k, es) r -> get r k = es.
Proof. unfold ukeys. induction r as [|[k' v'] t IH]; simpl; intros Hn Hin; [tauto|].
  inversion Hn; subst. destruct Hin as [Hin|Hin].
  - inversion Hin; subst. rewrite String.eqb_refl. auto.
  - destruct (String.eqb k k') eqn:E; auto. apply String.eqb_eq in E. subst.
    exfalso. apply H1. change k' with (fst (k', es)). apply in_map. auto. Qed.
Lemma get_in_rec {A} (r : list (string * list A)) k e : In e (get r k) -> In (k, get r k) r.
Proof. induction r as [|[k' v'] t IH]; simpl; [tauto|].
  destruct (String.eqb k k') eqn:E; auto. apply String.eqb_eq in E. subst. auto. Qed.
