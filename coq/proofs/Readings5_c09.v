(* Readings5_c09.v -- Prop-level reading of the checker C09_checkb, and hence (by C09_sound_lemma) of the
   processor returned by the loader.  Everything below `Section Checked` is derived from
   `C09_checkb P = true` alone; the loader enters only in the last lemma. *)
From Coq Require Import Lia.
From PS Require Import Base Str Bag RegAccess Sim Graph Loader Diag LoaderSpec Readings_defs Readings4_defs
  Lists Graph_facts LD_base C09_proof.

(* ====================================================================== *)
(* lists                                                                   *)
(* ====================================================================== *)
Lemma r5_nodupb_split {A} (eqb : A -> A -> bool) : forall l1 l, nodupb eqb l = true ->
  forall a l2 b l3, l = l1 ++ a :: l2 ++ b :: l3 -> eqb a b = false.
Proof. induction l1 as [|x l1 IH]; intros l H a l2 b l3 E; subst l; simpl in H;
  apply andb_true_iff in H; destruct H as [H1 H2].
  - apply negb_true_iff in H1. destruct (eqb a b) eqn:Eab; auto.
    assert (X : existsb (eqb a) (l2 ++ b :: l3) = true).
    { apply existsb_exists. exists b. split; auto. apply in_or_app. right; left; auto. }
    congruence.
  - eapply IH; eauto. Qed.

Lemma r5_filter_nil {A} (f : A -> bool) l : (forall x, In x l -> f x = false) -> filter f l = [].
Proof. induction l as [|a l IH]; intros H; auto. cbn [filter]. rewrite (H a) by (left; auto).
  apply IH. intros x Hx. apply H. right; auto. Qed.

(* ====================================================================== *)
(* the processor graph has every connection as an edge                     *)
(* ====================================================================== *)
Lemma r5_pgi_mono n ps : forall g x y, In y (succs g x) ->
  In y (succs (fold_left (fun g p => add_edge g p n) ps g) x).
Proof. induction ps as [|p t IH]; simpl; intros g x y H; auto. apply IH. apply add_edge_succs. auto. Qed.
Lemma r5_pgi_adds n ps : forall g p, In p ps ->
  In n (succs (fold_left (fun g p => add_edge g p n) ps g) p).
Proof. induction ps as [|q t IH]; simpl; intros g p Hp; [destruct Hp|]. destruct Hp as [->|Hp]; auto.
  apply r5_pgi_mono. apply add_edge_succs. auto. Qed.
Lemma r5_pgo_mono fs : forall g x y, In y (succs g x) -> In y (succs (fold_left pg_step fs g) x).
Proof. induction fs as [|f t IH]; simpl; intros g x y H; auto. apply IH. unfold pg_step. apply r5_pgi_mono. auto. Qed.
Lemma r5_pgo_adds fs : forall g f p, In f fs -> In p (f_preds f) ->
  In (u_name (f_model f)) (succs (fold_left pg_step fs g) p).
Proof. induction fs as [|f0 t IH]; simpl; intros g f p Hf Hp; [destruct Hf|]. destruct Hf as [->|Hf]; auto.
  apply r5_pgo_mono. unfold pg_step. apply r5_pgi_adds. auto. Qed.

Lemma r5_succs_of_inv P u v :
  In v (succs_of P u) <-> exists f, In f (funits P) /\ v = u_name (f_model f) /\ In u (f_preds f).
Proof. unfold succs_of. rewrite in_map_iff. split.
  - intros [f [E H]]. apply filter_In in H. destruct H as [H1 H2]. apply mem_str_In in H2. exists f. auto.
  - intros [f [H1 [E H2]]]. exists f. split; auto. apply filter_In. split; auto. apply mem_str_In. auto. Qed.

Lemma r5_edge_graph P u v : In v (succs_of P u) -> In v (succs (proc_graph P) u).
Proof. intros H. apply r5_succs_of_inv in H. destruct H as [f [H1 [-> H2]]].
  unfold proc_graph. apply (r5_pgo_adds (funits P) _ f u H1 H2). Qed.

Lemma r5_path_gpath P u v : path P u v -> gpath (proc_graph P) u v.
Proof. induction 1.
  - apply gp_edge. apply r5_edge_graph. auto.
  - eapply gp_step; [apply r5_edge_graph|]; eauto. Qed.

(* ====================================================================== *)
(* routes                                                                  *)
(* ====================================================================== *)
Lemma r5_croute_head P c u l : croute P c (u :: l) -> supports P u c = true.
Proof. intros H. inversion H; subst; auto. Qed.

Lemma r5_croute_snoc P c l : croute P c l -> forall y z, last l EmptyString = y ->
  In z (succs_of P y) -> supports P z c = true -> croute P c (l ++ [z]).
Proof. induction 1 as [u Hu|u v l Hu Hv Hc IH]; intros y z Hy Hz Hs.
  - cbn [last] in Hy. subst y. cbn [app]. apply cr_cons; auto. apply cr_one; auto.
  - change ((u :: v :: l) ++ [z]) with (u :: (v :: l) ++ [z]). cbn [app]. apply cr_cons; auto.
    change (v :: l ++ [z]) with ((v :: l) ++ [z]). apply (IH y z); auto. Qed.

Lemma r5_count_cons P k u l : count_locks P k (u :: l) = (if has_lock P k u then 1 else 0) + count_locks P k l.
Proof. unfold count_locks. cbn [filter]. destruct (has_lock P k u); reflexivity. Qed.

Lemma r5_lock_counts_S P c k f u acc : lock_counts (S f) P c u k acc =
  match nxtP P c u with
  | [] => [acc + (if has_lock P k u then 1 else 0)]
  | nxt => flat_map (fun s => lock_counts f P c s k (acc + (if has_lock P k u then 1 else 0))) nxt
  end.
Proof. reflexivity. Qed.

(* the enumeration of lock_counts follows every maximal route; an all-ones result means in particular
   that the fuel never ran out (the fuel-exhausted branch yields 99) *)
Lemma r5_lock_counts_follow P c k : forall f u acc l,
  forallb (fun n => n =? 1) (lock_counts f P c u k acc) = true ->
  croute P c (u :: l) -> maximal P c (u :: l) -> acc + count_locks P k (u :: l) = 1.
Proof. induction f as [|f IH]; intros u acc l H Hc Hm; [discriminate|].
  rewrite r5_lock_counts_S in H. rewrite r5_count_cons.
  inversion Hc as [u0 Hs|u0 v l' Hs Hv Hc']; subst.
  - unfold nxtP in H. rewrite r5_filter_nil in H.
    + cbn [forallb] in H. apply andb_true_iff in H. destruct H as [H _]. apply Nat.eqb_eq in H.
      unfold count_locks. cbn [filter length]. lia.
    + intros x Hx. apply (Hm u); auto.
  - pose proof (r5_croute_head _ _ _ _ Hc') as Hsv.
    assert (G : In v (nxtP P c u)) by (apply filter_In; auto).
    destruct (nxtP P c u) as [|s nxt] eqn:Ef; [destruct G|].
    assert (Hv' : forallb (fun n => n =? 1) (lock_counts f P c v k (acc + (if has_lock P k u then 1 else 0))) = true).
    { apply forallb_forall. intros n Hn. rewrite forallb_forall in H. apply H. apply in_flat_map. exists v. auto. }
    assert (Hm' : maximal P c (v :: l')) by (intros x Hx; apply Hm; exact Hx).
    pose proof (IH v _ l' Hv' Hc' Hm'). lia. Qed.

(* ====================================================================== *)
(* reading of the checker                                                  *)
(* ====================================================================== *)
Section Checked.
  Variable P : proc.
  Hypothesis HC : C09_checkb P = true.

  Let parts :
    is_dag (proc_graph P) = true /\ nodupb ic_eqb (unit_names P) = true /\
    forallb (fun u => (0 <? u_width u) && match u_caps u with [] => false | _ => true end) (all_units P) = true /\
    forallb (fun f => forallb (fun p => mem_str p (unit_names P)
                                          && existsb (fun c => mem_str c (caps_in P p)) (u_caps (f_model f)))
                               (f_preds f)) (funits P) = true /\
    forallb (fun p => forallb (fun c =>
        reaches_output P c (u_name p)
        && forallb (fun n => n =? 1) (lock_counts (S (nunits P)) P c (u_name p) LkRead 0)
        && forallb (fun n => n =? 1) (lock_counts (S (nunits P)) P c (u_name p) LkWrite 0))
        (u_caps p)) (p_in P ++ p_inout P) = true.
  Proof. pose proof HC as H. unfold C09_checkb in H.
    apply andb_true_iff in H. destruct H as [H H5]. apply andb_true_iff in H. destruct H as [H H4].
    apply andb_true_iff in H. destruct H as [H H3]. apply andb_true_iff in H. destruct H as [H1 H2].
    repeat split; assumption. Qed.

  Lemma r5_names_NoDup : NoDup (unit_names P).
  Proof. destruct parts as [_ [H _]]. apply nodupb_ic in H. apply NoDup_map_inv in H. exact H. Qed.

  Lemma r5_find_unit x : In x (all_units P) -> find_unit P (u_name x) = Some x.
  Proof. intros H. unfold find_unit. apply (find_nodup u_name); auto. apply r5_names_NoDup. Qed.
  Lemma r5_supports x c : In x (all_units P) -> supports P (u_name x) c = mem_str c (u_caps x).
  Proof. intros H. unfold supports. rewrite r5_find_unit; auto. Qed.
  Lemma r5_caps_in x : In x (all_units P) -> caps_in P (u_name x) = u_caps x.
  Proof. intros H. unfold caps_in. rewrite r5_find_unit; auto. Qed.
  Lemma r5_funit_all f : In f (funits P) -> In (f_model f) (all_units P).
  Proof. unfold funits, all_units. rewrite !in_app_iff. intros [H|H]; right; right; [left|right]; apply in_map; auto. Qed.
  Lemma r5_port_all p : In p (p_in P ++ p_inout P) -> In p (all_units P).
  Proof. unfold all_units. rewrite !in_app_iff. tauto. Qed.

  Lemma C09_reading_acyclic : forall u, ~ path P u u.
  Proof. intros u Hp. destruct parts as [H _]. destruct (proc_graph_spec P) as [G _].
    apply (is_dag_acyclic _ G) in H. apply (H u). apply r5_path_gpath. auto. Qed.

  Lemma C09_reading_names : forall l1 a l2 b l3, unit_names P = l1 ++ a :: l2 ++ b :: l3 -> ic_eqb a b = false.
  Proof. destruct parts as [_ [H _]]. intros l1 a l2 b l3 E. eapply r5_nodupb_split; eauto. Qed.

  Lemma C09_reading_units : forall u, In u (all_units P) -> 0 < u_width u /\ u_caps u <> [].
  Proof. destruct parts as [_ [_ [H _]]]. intros u Hu. rewrite forallb_forall in H. specialize (H u Hu).
    apply andb_true_iff in H. destruct H as [H1 H2]. apply Nat.ltb_lt in H1. split; auto.
    intros E. rewrite E in H2. discriminate. Qed.

  Lemma C09_reading_conns : forall u v, In v (succs_of P u) ->
    In u (unit_names P) /\ In v (unit_names P) /\ exists c, supports P u c = true /\ supports P v c = true.
  Proof. destruct parts as [_ [_ [_ [H _]]]]. intros u v Hv. apply r5_succs_of_inv in Hv.
    destruct Hv as [f [Hf [-> Hu]]]. rewrite forallb_forall in H. specialize (H f Hf).
    rewrite forallb_forall in H. specialize (H u Hu). apply andb_true_iff in H. destruct H as [H1 H2].
    apply mem_str_In in H1. pose proof (r5_funit_all f Hf) as Hall. split; auto. split.
    - unfold unit_names. apply in_map. auto.
    - apply existsb_exists in H2. destruct H2 as [c [C1 C2]]. exists c. split.
      + unfold caps_in in C2. unfold supports. destruct (find_unit P u); exact C2.
      + rewrite r5_supports; auto. apply mem_str_In. auto. Qed.

  Lemma r5_reach_route c u : supports P u c = true ->
    forall fuel y, In y (reach_from fuel (nxtP P c) [u] [u]) ->
      exists l, croute P c (u :: l) /\ last (u :: l) EmptyString = y.
  Proof. intros Hs fuel. apply (reach_from_sound (nxtP P c)
      (fun y => exists l, croute P c (u :: l) /\ last (u :: l) EmptyString = y)).
    - intros y z [l [L1 L2]] Hz. unfold nxtP in Hz. apply filter_In in Hz. destruct Hz as [Z1 Z2].
      exists (l ++ [z]). split.
      + change (u :: l ++ [z]) with ((u :: l) ++ [z]). apply (r5_croute_snoc P c _ L1 y z); auto.
      + change (u :: l ++ [z]) with ((u :: l) ++ [z]). apply last_last.
    - intros y [<-|[]]. exists []. split; [apply cr_one; auto|reflexivity].
    - intros y [<-|[]]. exists []. split; [apply cr_one; auto|reflexivity]. Qed.

  Lemma r5_port_checks p c : In p (p_in P ++ p_inout P) -> In c (u_caps p) ->
    reaches_output P c (u_name p) = true /\
    forall k, forallb (fun n => n =? 1) (lock_counts (S (nunits P)) P c (u_name p) k 0) = true.
  Proof. destruct parts as [_ [_ [_ [_ H]]]]. intros Hp Hcap. rewrite forallb_forall in H. specialize (H p Hp).
    rewrite forallb_forall in H. specialize (H c Hcap). apply andb_true_iff in H. destruct H as [H H3].
    apply andb_true_iff in H. destruct H as [H1 H2]. split; auto. intros [|]; auto. Qed.

  Lemma C09_reading_reach : forall p c, In p (p_in P ++ p_inout P) -> In c (u_caps p) ->
    exists l, croute P c (u_name p :: l) /\ In (last (u_name p :: l) EmptyString) (out_names P).
  Proof. intros p c Hp Hcap. destruct (r5_port_checks p c Hp Hcap) as [H _].
    unfold reaches_output in H. apply existsb_exists in H. destruct H as [o [O1 O2]]. apply mem_str_In in O2.
    assert (Hs : supports P (u_name p) c = true).
    { rewrite r5_supports by (apply r5_port_all; auto). apply mem_str_In. auto. }
    destruct (r5_reach_route c (u_name p) Hs _ o O2) as [l [L1 L2]]. exists l. split; auto. rewrite L2. auto. Qed.

  Lemma C09_reading_locks : forall p c, In p (p_in P ++ p_inout P) -> In c (u_caps p) ->
    forall l, croute P c (u_name p :: l) -> maximal P c (u_name p :: l) ->
      count_locks P LkRead (u_name p :: l) = 1 /\ count_locks P LkWrite (u_name p :: l) = 1.
  Proof. intros p c Hp Hcap l Hc Hm. destruct (r5_port_checks p c Hp Hcap) as [_ H].
    split; [pose proof (r5_lock_counts_follow P c LkRead _ _ _ l (H LkRead) Hc Hm)
           |pose proof (r5_lock_counts_follow P c LkWrite _ _ _ l (H LkWrite) Hc Hm)]; lia. Qed.
End Checked.

(* the reading of the checker itself *)
Lemma C09_checkb_reading : forall P, C09_checkb P = true ->
    (forall u, ~ path P u u) /\
    (forall l1 a l2 b l3, unit_names P = l1 ++ a :: l2 ++ b :: l3 -> ic_eqb a b = false) /\
    (forall u, In u (all_units P) -> 0 < u_width u /\ u_caps u <> []) /\
    (forall u v, In v (succs_of P u) ->
       In u (unit_names P) /\ In v (unit_names P) /\ exists c, supports P u c = true /\ supports P v c = true) /\
    (forall p c, In p (p_in P ++ p_inout P) -> In c (u_caps p) ->
       (exists l, croute P c (u_name p :: l) /\ In (last (u_name p :: l) EmptyString) (out_names P)) /\
       (forall l, croute P c (u_name p :: l) -> maximal P c (u_name p :: l) ->
          count_locks P LkRead (u_name p :: l) = 1 /\ count_locks P LkWrite (u_name p :: l) = 1)).
Proof. intros P H. split; [apply C09_reading_acyclic; auto|]. split; [apply C09_reading_names; auto|].
  split; [apply C09_reading_units; auto|]. split; [apply C09_reading_conns; auto|].
  intros p c Hp Hcap. split; [apply C09_reading_reach; auto|apply C09_reading_locks; auto]. Qed.

Lemma C09_reading_lemma :
  forall (d : desc) (P : proc), load_proc_desc d = LoadOk P ->
    (forall u, ~ path P u u) /\
    (forall l1 a l2 b l3, unit_names P = l1 ++ a :: l2 ++ b :: l3 -> ic_eqb a b = false) /\
    (forall u, In u (all_units P) -> 0 < u_width u /\ u_caps u <> []) /\
    (forall u v, In v (succs_of P u) ->
       In u (unit_names P) /\ In v (unit_names P) /\ exists c, supports P u c = true /\ supports P v c = true) /\
    (forall p c, In p (p_in P ++ p_inout P) -> In c (u_caps p) ->
       (exists l, croute P c (u_name p :: l) /\ In (last (u_name p :: l) EmptyString) (out_names P)) /\
       (forall l, croute P c (u_name p :: l) -> maximal P c (u_name p :: l) ->
          count_locks P LkRead (u_name p :: l) = 1 /\ count_locks P LkWrite (u_name p :: l) = 1)).
Proof. intros d P H. apply C09_checkb_reading. eapply C09_sound_lemma; eauto. Qed.
