(* C12_lists.v -- list / order facts used by the C12 proofs: String.leb is a total order, insertion sort
   sorts, sorted duplicate-free permutations are equal, reflexivity of the structural equalities of
   LoaderSpec, nodupb, and a declarative reading of sink_first. *)
From Coq Require Import Lia Permutation.
From PS Require Import Base Str Sim Graph Loader Diag LoaderSpec Lists C17_strord Graph_facts.

Lemma sleb_total a b : String.leb a b = false -> String.leb b a = true.
Proof. unfold String.leb. rewrite (String.compare_antisym a b).
  destruct (String.compare b a); simpl; congruence. Qed.
Lemma sleb_antisym a b : String.leb a b = true -> String.leb b a = true -> a = b.
Proof. rewrite !sleb_iff. intros [H1|H1] [H2|H2]; auto.
  apply scompare_gt_lt in H2. congruence. Qed.

(* ---------- structural equalities are reflexive ---------- *)
Lemma list_eqb_refl {A} (eqb : A -> A -> bool) l : (forall x, eqb x x = true) -> list_eqb eqb l l = true.
Proof. intros H. induction l; simpl; auto. rewrite H, IHl. auto. Qed.
Lemma unit_eqb_refl u : unit_eqb u u = true.
Proof. unfold unit_eqb. rewrite String.eqb_refl, Nat.eqb_refl, !Bool.eqb_reflx,
  !(list_eqb_refl String.eqb) by apply String.eqb_refl. auto. Qed.
Lemma funit_eqb_refl f : funit_eqb f f = true.
Proof. unfold funit_eqb. rewrite unit_eqb_refl, (list_eqb_refl String.eqb) by apply String.eqb_refl. auto. Qed.
Lemma existsb_funit_eqb f l : In f l -> existsb (funit_eqb f) l = true.
Proof. intros H. apply existsb_exists. exists f. split; auto. apply funit_eqb_refl. Qed.

Lemma nodupb_NoDup l : NoDup l -> nodupb String.eqb l = true.
Proof. induction 1 as [|x l Hni Hnd IH]; simpl; auto. rewrite IH.
  apply mem_str_false in Hni. unfold mem_str in Hni. rewrite Hni. auto. Qed.

(* ---------- insertion sort by a string key ---------- *)
Section Sorting.
Context {A : Type} (key : A -> string).
Definition kleb (a b : A) : bool := String.leb (key a) (key b).
Definition hd_le (a : string) (l : list string) : bool :=
  match l with [] => true | b :: _ => String.leb a b end.
Lemma sortedb_cons a l : sortedb String.leb (a :: l) = hd_le a l && sortedb String.leb l.
Proof. destruct l; reflexivity. Qed.
Lemma hd_le_insert a x t :
  String.leb a (key x) = true -> hd_le a (map key t) = true -> hd_le a (map key (insert kleb x t)) = true.
Proof. intros H1 H2. destruct t as [|y t]; simpl; auto. destruct (kleb x y); simpl; auto. Qed.
Lemma insert_sorted x l :
  sortedb String.leb (map key l) = true -> sortedb String.leb (map key (insert kleb x l)) = true.
Proof. induction l as [|y t IH]; [reflexivity|].
  cbn [map insert]. intros Hs. destruct (kleb x y) eqn:E.
  - cbn [map]. rewrite sortedb_cons. cbn [hd_le]. unfold kleb in E. rewrite E. auto.
  - cbn [map]. rewrite sortedb_cons in *. apply andb_true_iff in Hs. destruct Hs as [H1 H2].
    rewrite IH; auto. rewrite hd_le_insert; auto. apply sleb_total; auto. Qed.
Lemma isort_sorted l : sortedb String.leb (map key (isort kleb l)) = true.
Proof. induction l as [|x l IH]; [reflexivity|]. simpl. apply insert_sorted; auto. Qed.

Lemma sortedb_head_le a l : sortedb String.leb (a :: l) = true -> forall x, In x l -> String.leb a x = true.
Proof. revert a. induction l as [|b l IH]; intros a Hs x Hx; [destruct Hx|].
  rewrite sortedb_cons in Hs. apply andb_true_iff in Hs. destruct Hs as [H1 H2]. simpl in H1.
  destruct Hx as [<-|Hx]; auto. eapply sleb_trans; eauto. Qed.

(* two sorted arrangements of the same elements with distinct keys coincide *)
Lemma sorted_perm_eq (l1 l2 : list A) :
  NoDup (map key l1) -> Permutation l1 l2 ->
  sortedb String.leb (map key l1) = true -> sortedb String.leb (map key l2) = true -> l1 = l2.
Proof. revert l2. induction l1 as [|a t1 IH]; intros l2 Hnd Hp H1 H2.
  - apply Permutation_nil in Hp. auto.
  - destruct l2 as [|b t2]; [apply Permutation_sym, Permutation_nil in Hp; discriminate|].
    assert (Hab : a = b).
    { assert (Hb : In b (a :: t1)) by (apply (Permutation_in b (Permutation_sym Hp)); left; auto).
      assert (Ha : In a (b :: t2)) by (apply (Permutation_in a Hp); left; auto).
      destruct Hb as [Hb|Hb]; auto. destruct Ha as [Ha|Ha]; auto.
      assert (K1 : String.leb (key a) (key b) = true).
      { apply (sortedb_head_le _ _ H1). apply in_map; auto. }
      assert (K2 : String.leb (key b) (key a) = true).
      { apply (sortedb_head_le _ _ H2). apply in_map; auto. }
      assert (K : key a = key b) by (apply sleb_antisym; auto).
      exfalso. simpl in Hnd. inversion Hnd; subst. apply H3. rewrite K. apply in_map; auto. }
    subst b. f_equal. apply IH.
    + simpl in Hnd. inversion Hnd; auto.
    + eapply Permutation_cons_inv; eauto.
    + simpl map in H1. rewrite sortedb_cons in H1. apply andb_true_iff in H1. tauto.
    + simpl map in H2. rewrite sortedb_cons in H2. apply andb_true_iff in H2. tauto. Qed.
End Sorting.

Lemma sort_str_sorted l : sortedb String.leb (sort_str l) = true.
Proof. pose proof (isort_sorted (fun x : string => x) l) as H. rewrite map_id in H. exact H. Qed.
Lemma sort_str_In x l : In x (sort_str l) <-> In x l.
Proof. split.
  - apply isort_incl.
  - apply Permutation_in, isort_perm. Qed.
Lemma sort_str_length l : length (sort_str l) = length l.
Proof. symmetry. apply Permutation_length, isort_perm. Qed.

(* ---------- sink_first, declaratively ---------- *)
Definition fname (f : funit) : string := u_name (f_model f).
Lemma sink_first_intro l : forall seen,
  (forall l1 f l2, l = l1 ++ f :: l2 -> forall p, In p (f_preds f) ->
     p <> fname f /\ ~ In p (map fname l1) /\ ~ In p seen) ->
  sink_first l seen = true.
Proof. induction l as [|f t IH]; intros seen H; [reflexivity|].
  cbn [sink_first]. apply andb_true_iff. split.
  - apply negb_true_iff. destruct (existsb _ (f_preds f)) eqn:E; auto. exfalso.
    apply existsb_exists in E. destruct E as [p [Hp1 Hp2]]. apply mem_str_In in Hp2.
    destruct (H [] f t eq_refl p Hp1) as [A1 [A2 A3]]. destruct Hp2 as [Hp2|Hp2]; auto.
  - apply IH. intros l1 f' l2 -> p Hp.
    destruct (H (f :: l1) f' l2 eq_refl p Hp) as [A1 [A2 A3]]. split; auto. split.
    + intros Hc. apply A2. right; auto.
    + intros [Hc|Hc]; auto. apply A2. left; auto. Qed.
