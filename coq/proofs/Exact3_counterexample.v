(* Exact3_counterexample -- the side condition of C01_order_checker_exact_lemma / C02_checker_exact_lemma
   (duplicate-free unit keys per record, the first half of diagram_shape) cannot be dropped, in either
   direction, for either checker:
   B. a record with the key "b" twice, the second binding (invisible to `occ`, visible to the checkers, which
      walk the raw key/value list) holding an entry: C01_order_prop and C02_prop are (vacuously) true, both
      checkers reject                                                       (statement -> checker fails);
   C. the only write access of instruction 0 hidden in such a second binding: both checkers accept,
      C01_order_prop and C02_prop are false                                 (checker -> statement fails).
   In both diagrams the OTHER half of diagram_shape (a unit's list shows an instruction at most once) holds.
   D. that other half is not needed: a diagram with duplicate-free keys whose list repeats an entry is still
      covered by the *_keys lemmas. *)
From Coq Require Import Lia String List.
From PS Require Import Base Bag RegAccess Sim Diag Readings_defs Exact_defs Exact3_defs
  Exact2_c06 Exact3_base Exact3_c01 Exact3_c02.
Import ListNotations.
Open Scope string_scope.

(* input port "a" (read lock) feeding output unit "b" (write lock); two instructions writing register "r" *)
Definition za : unit := {| u_name := "a"; u_width := 1; u_caps := ["alu"]; u_rl := true; u_wl := false; u_mem := [] |}.
Definition zb : unit := {| u_name := "b"; u_width := 1; u_caps := ["alu"]; u_rl := false; u_wl := true; u_mem := [] |}.
Definition zP : proc := {| p_in := [za]; p_out := [{| f_model := zb; f_preds := ["a"] |}]; p_inout := []; p_int := [] |}.
Definition zI : instr := {| i_srcs := []; i_dst := "r"; i_cat := "alu" |}.
Definition zprog : list instr := [zI; zI].

Lemma zP_wf : wf_procb zP = true.
Proof. vm_compute. reflexivity. Qed.
Lemma z_conflict : In (WR, WR) (conflicts zprog 0 1).
Proof. vm_compute. auto. Qed.

(* the second half of diagram_shape *)
Definition entries_ok (d : diagram) : Prop := forall r, In r d -> forall u es, In (u, es) r -> NoDup (map fst es).

(* ---------- B: statement true, checker rejects ---------- *)
Definition dB : diagram := [[("b", []); ("b", [(1, LU)])]].

Lemma B_occ t u : occ dB t u = [].
Proof. destruct t as [|[|t]]; [|reflexivity|reflexivity].
  unfold occ, rec_at, dB. cbn [nth get]. destruct (String.eqb u "b"); reflexivity. Qed.

Lemma B_not_keys : ~ keys_ok dB.
Proof. intros H. specialize (H _ (or_introl eq_refl)). cbn in H. inversion H as [|? ? Hni _]. apply Hni. left; auto. Qed.
Lemma B_entries : entries_ok dB.
Proof. intros r [<-|[]] u es [H|[H|[]]]; inversion H; subst; cbn; repeat constructor; cbn; tauto. Qed.

Lemma B_C01_prop : C01_order_prop zP zprog dB.
Proof. intros i j ki kj tj _ _ _ (u & Hin & _). rewrite B_occ in Hin. destruct Hin. Qed.
Lemma B_C01_rejects : C01_order_checkb zP zprog dB = false.
Proof. vm_compute. reflexivity. Qed.

Lemma B_C02_prop : C02_prop zP zprog dB.
Proof. intros t u i l _ Hin. rewrite B_occ in Hin. destruct Hin. Qed.
Lemma B_C02_rejects : C02_checkb zP zprog dB = false.
Proof. vm_compute. reflexivity. Qed.

(* ---------- C: checker accepts, statement false ---------- *)
Definition dC : diagram := [[("b", []); ("b", [(0, LU)])]; [("b", [(1, LU)])]].

Lemma C_occ0 u : occ dC 0 u = [].
Proof. unfold occ, rec_at, dC. cbn [nth get]. destruct (String.eqb u "b"); reflexivity. Qed.

Lemma C_not_keys : ~ keys_ok dC.
Proof. intros H. specialize (H _ (or_introl eq_refl)). cbn in H. inversion H as [|? ? Hni _]. apply Hni. left; auto. Qed.
Lemma C_entries : entries_ok dC.
Proof. intros r [<-|[<-|[]]] u es H; cbn in H; repeat (destruct H as [H|H]; [inversion H; subst; cbn; repeat constructor; cbn; tauto|]); destruct H. Qed.

Lemma C_no_write0 : ~ performed_before zP dC 0 WR 1.
Proof. intros (a & Ha & u & Hin & _). assert (a = 0) by lia. subst a. rewrite C_occ0 in Hin. destruct Hin. Qed.

Lemma C_performs1 : performs zP dC 1 1 WR.
Proof. exists "b". split; vm_compute; auto. Qed.

Lemma C_C01_accepts : C01_order_checkb zP zprog dC = true.
Proof. vm_compute. reflexivity. Qed.
Lemma C_C01_prop_false : ~ C01_order_prop zP zprog dC.
Proof. intros H. destruct (H 0 1 WR WR 1 ltac:(lia) ltac:(cbn; lia) z_conflict C_performs1) as (ti & Hlt & Hp).
  apply C_no_write0. exists ti. auto. Qed.

Lemma C_C02_accepts : C02_checkb zP zprog dC = true.
Proof. vm_compute. reflexivity. Qed.
Lemma C_C02_prop_false : ~ C02_prop zP zprog dC.
Proof. intros H. assert (Hin : In (1, LU) (occ dC 1 "b")) by (vm_compute; auto).
  destruct (H 1 "b" 1 LU ltac:(cbn; lia) Hin) as [_ H2].
  assert (Hn : ~ (exists l0, In (1, l0) (prev_occ dC 1 "b") /\ l0 <> LD)).
  { intros (l0 & Hl0 & _). cbn [prev_occ] in Hl0. rewrite C_occ0 in Hl0. destruct Hl0. }
  destruct (H2 Hn) as [[E _]|[_ Hno]]; [discriminate|]. apply Hno. right. split; [reflexivity|].
  exists 0. split; [lia|]. right. split; [reflexivity|exact C_no_write0]. Qed.

(* ---------- D: a repeated entry (second half of diagram_shape fails) is harmless ---------- *)
Definition dD : diagram := [[("a", [(0, LU); (0, LU)])]].

Lemma D_keys : keys_ok dD.
Proof. intros r [<-|[]]. cbn. repeat constructor. cbn. tauto. Qed.
Lemma D_not_shape : ~ diagram_shape dD.
Proof. intros H. destruct (H _ (or_introl eq_refl)) as [_ He].
  specialize (He "a" _ (or_introl eq_refl)). cbn in He. inversion He as [|? ? Hni _]. apply Hni. left; auto. Qed.
Lemma D_C02_accepts : C02_checkb zP zprog dD = true.
Proof. vm_compute. reflexivity. Qed.
Lemma D_C02_prop : C02_prop zP zprog dD.
Proof. apply (C02_checker_sound_keys zP zprog dD D_keys D_C02_accepts). Qed.
Lemma D_C01_prop : C01_order_prop zP zprog dD.
Proof. apply (C01_order_checker_sound_keys zP zprog dD D_keys). vm_compute. reflexivity. Qed.

Print Assumptions B_C01_prop.
Print Assumptions C_C01_prop_false.
Print Assumptions C_C02_prop_false.
