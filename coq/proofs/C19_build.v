(* C19_build.v -- the builder's queue is the abstraction of the all-pending state. *)
From Coq Require Import Lia.
From PS Require Import Base RegAccess QueueSpec Lists C19_concrete.

Lemma qb_append_app pre g ty o : qb_append (pre ++ [g]) ty o = pre ++ qb_append [g] ty o.
Proof. induction pre as [|p pre IH]; [reflexivity|].
  change ((p :: pre) ++ [g]) with (p :: (pre ++ [g])).
  destruct (pre ++ [g]) as [|x y] eqn:E.
  - destruct pre; discriminate.
  - change (qb_append (p :: x :: y) ty o) with (p :: qb_append (x :: y) ty o).
    rewrite IH. reflexivity. Qed.

Lemma fold_app rs : forall pre g,
  fold_left qb_step rs (pre ++ [g]) = pre ++ fold_left qb_step rs [g].
Proof. induction rs as [|r rs IH]; intros pre g; [reflexivity|].
  cbn [fold_left]. unfold qb_step at 2 4. rewrite qb_append_app.
  cbn [qb_append]. destruct (aty_eqb (fst r) RD && aty_eqb (g_ty g) RD).
  - apply IH.
  - change [g; mkG (fst r) [snd r]] with ([g] ++ [mkG (fst r) [snd r]]).
    rewrite app_assoc. rewrite IH. rewrite (IH [g]). rewrite app_assoc. reflexivity. Qed.

Lemma fold_abs rs :
  fold_left qb_step rs [] = abs_groups (a_init rs) None
  /\ (forall l, fold_left qb_step rs [mkG RD l] = abs_groups (a_init rs) (Some (mkG RD l)))
  /\ (forall l, fold_left qb_step rs [mkG WR l] = mkG WR l :: abs_groups (a_init rs) None).
Proof. induction rs as [|[ty o] rs [IHa [IHb IHc]]].
  - simpl. auto.
  - cbn [fold_left a_init map abs_groups]. unfold qb_step at 2 4 6. unfold is_read, removed, owner.
    cbn [fst snd qb_append g_ty g_reqs aty_eqb andb]. destruct ty; cbn [aty_eqb andb].
    + split; [|split].
      * apply IHb.
      * intros l. apply IHb.
      * intros l. change [mkG WR l; mkG RD [o]] with ([mkG WR l] ++ [mkG RD [o]]).
        rewrite fold_app. rewrite IHb. reflexivity.
    + split; [|split].
      * rewrite IHc. reflexivity.
      * intros l. change [mkG RD l; mkG WR [o]] with ([mkG RD l] ++ [mkG WR [o]]).
        rewrite fold_app. rewrite IHc. reflexivity.
      * intros l. change [mkG WR l; mkG WR [o]] with ([mkG WR l] ++ [mkG WR [o]]).
        rewrite fold_app. rewrite IHc. reflexivity. Qed.

Lemma filter_wf q : wfq q -> filter ne_group q = q.
Proof. induction 1 as [|g q Hg Hq IH]; simpl; auto. unfold ne_group at 1.
  destruct (g_reqs g); [congruence|]. rewrite IH. reflexivity. Qed.

Lemma abs_queue_eq a : abs_queue a = filter ne_group (abs_groups a None).
Proof. reflexivity. Qed.

Lemma abs_init rs : abs_queue (a_init rs) = build_queue rs.
Proof. rewrite abs_queue_eq. destruct (fold_abs rs) as [H _]. rewrite <- H.
  rewrite <- build_queue_fold. apply filter_wf. apply build_wf. Qed.
