(* Exact_c04 -- the checkers C04_checkb and C05_checkb decide exactly the Prop-level statements of C04 / C05 on
   every diagram of the decodable shape (duplicate-free unit keys per record, duplicate-free instruction
   indices per unit list).  Self-contained: uses only model/, spec/ and the standard library. *)
From Coq Require Import Lia.
From PS Require Import Base Bag RegAccess Sim Diag Readings_defs Exact_defs.

(* ---------- association lists with duplicate-free keys ---------- *)
Lemma x_get_nodup {A} (r : list (string * list A)) k es :
  NoDup (map fst r) -> In (k, es) r -> get r k = es.
Proof. induction r as [|[k' v'] t IH]; cbn [get map fst In]; [tauto|].
  intros H. inversion H as [|? ? Hni Hnd']; subst. intros [Heq|Hin].
  - inversion Heq; subst. rewrite String.eqb_refl; auto.
  - destruct (String.eqb_spec k k'); subst; auto.
    exfalso. apply Hni. change k' with (fst (k', es)). apply in_map; auto. Qed.

Lemma x_get_notin {A} (r : list (string * list A)) k : ~ In k (map fst r) -> get r k = [].
Proof. induction r as [|[k' v'] t IH]; cbn [get map fst In]; auto.
  intros H. destruct (String.eqb_spec k k'); subst; [exfalso; auto|]. apply IH. tauto. Qed.

Lemma x_get_In {A} (r : list (string * list A)) k e : In e (get r k) -> In (k, get r k) r.
Proof. induction r as [|[k' v'] t IH]; cbn [get In]; [tauto|].
  destruct (String.eqb_spec k k'); subst; auto. Qed.

Lemma x_rec_at_over (d : diagram) t : length d <= t -> rec_at d t = [].
Proof. intros H. unfold rec_at. apply nth_overflow; auto. Qed.

Lemma x_rec_at_In (d : diagram) t : t < length d -> In (rec_at d t) d.
Proof. intros H. unfold rec_at. apply nth_In; auto. Qed.

(* ---------- C04 ---------- *)
Lemma C04_checker_exact_lemma :
  forall (P : proc) (d : diagram), diagram_shape d ->
    (C04_checkb P d = true <-> forall t u, length (occ d t u) <= width_of P u).
Proof. intros P d Hs. unfold C04_checkb. split.
  - intros Hc t u. rewrite forallb_forall in Hc. unfold occ.
    destruct (Nat.lt_ge_cases t (length d)) as [Ht|Ht].
    + pose proof (x_rec_at_In d t Ht) as Hin. specialize (Hc _ Hin). rewrite forallb_forall in Hc.
      destruct (in_dec string_dec u (map fst (rec_at d t))) as [Hu|Hu].
      * apply in_map_iff in Hu. destruct Hu as [[u' es] [E Hkv]]. cbn [fst] in E. subst u'.
        destruct (Hs _ Hin) as [Hk _]. rewrite (x_get_nodup _ _ _ Hk Hkv).
        specialize (Hc _ Hkv). cbn [fst snd] in Hc. apply Nat.leb_le; auto.
      * rewrite x_get_notin; auto. cbn [length]. lia.
    + rewrite x_rec_at_over; auto. cbn [get length]. lia.
  - intros H. apply forallb_forall. intros r Hr. apply forallb_forall. intros [u es] Hkv. cbn [fst snd].
    apply Nat.leb_le. destruct (In_nth _ _ [] Hr) as [t [Ht E]].
    assert (E' : rec_at d t = r) by exact E.
    specialize (H t u). unfold occ in H. rewrite E' in H.
    destruct (Hs _ Hr) as [Hk _]. rewrite (x_get_nodup _ _ _ Hk Hkv) in H. exact H. Qed.

(* ---------- C05 ---------- *)
Lemma x_has_iff (es : list entry) i : has es i = true <-> exists l, In (i, l) es.
Proof. unfold has. rewrite existsb_exists. split.
  - intros [[j l] [H1 H2]]. cbn [fst] in H2. apply Nat.eqb_eq in H2. subst j. eauto.
  - intros [l H]. exists (i, l). split; auto. apply Nat.eqb_refl. Qed.

Section Flat.
Variable c : string -> nat -> bool.
Definition x_ml (k : string) (es : list entry) : list (nat * string) :=
  flat_map (fun e : entry => if c k (fst e) then [(fst e, k)] else []) es.
Definition x_mr (r : record) : list (nat * string) := flat_map (fun kv => x_ml (fst kv) (snd kv)) r.

Lemma x_ml_In k es i v : In (i, v) (x_ml k es) <-> v = k /\ (exists l, In (i, l) es) /\ c k i = true.
Proof. unfold x_ml. rewrite in_flat_map. split.
  - intros [[j l] [He H]]. cbn [fst] in H. destruct (c k j) eqn:E; [|destruct H].
    destruct H as [H|[]]. inversion H; subst. eauto.
  - intros [-> [[l Hl] Hc]]. exists (i, l). split; auto. cbn [fst]. rewrite Hc. left; auto. Qed.

Lemma x_mr_In r i v : In (i, v) (x_mr r) <-> exists es, In (v, es) r /\ (exists l, In (i, l) es) /\ c v i = true.
Proof. unfold x_mr. rewrite in_flat_map. split.
  - intros [[k es] [Hkv H]]. cbn [fst snd] in H. apply x_ml_In in H. destruct H as [-> H]. eauto.
  - intros [es [Hkv H]]. exists (v, es). split; auto. cbn [fst snd]. apply x_ml_In. tauto. Qed.

Lemma x_ml_nodup k es : NoDup (map fst es) -> NoDup (x_ml k es).
Proof. unfold x_ml. induction es as [|[i l] t IH]; cbn [map fst flat_map]; intros H; [constructor|].
  inversion H as [|? ? Hni Hnd]; subst. destruct (c k i); cbn [app]; auto.
  constructor; auto. intros Hin. apply x_ml_In in Hin. destruct Hin as [_ [[l' Hl'] _]].
  apply Hni. change i with (fst (i, l')). apply in_map; auto. Qed.

Lemma x_nodup_app {A} (a b : list A) :
  NoDup a -> NoDup b -> (forall x, In x a -> ~ In x b) -> NoDup (a ++ b).
Proof. induction a as [|x a IH]; cbn [app]; intros Ha Hb Hd; auto.
  inversion Ha; subst. constructor.
  - rewrite in_app_iff. intros [H|H]; auto. apply (Hd x); [left|]; auto.
  - apply IH; auto. intros y Hy. apply Hd. right; auto. Qed.

Lemma x_mr_nodup r : record_shape r -> NoDup (x_mr r).
Proof. unfold record_shape, x_mr. induction r as [|[k es] t IH]; cbn [map fst flat_map]; intros [Hk He].
  - constructor.
  - inversion Hk as [|? ? Hni Hnd]; subst. cbn [fst snd]. apply x_nodup_app.
    + apply x_ml_nodup. apply (He k es). left; auto.
    + apply IH. split; auto. intros u es' H. apply (He u es'). right; auto.
    + intros [i v] H1 H2. apply x_ml_In in H1. destruct H1 as [-> _].
      apply x_mr_In in H2. destruct H2 as [es' [H2 _]]. apply Hni.
      change k with (fst (k, es')). apply in_map; auto. Qed.
End Flat.

Definition x_cond (P : proc) (prog : list instr) (d : diagram) (t : nat) (k : string) (i : nat) : bool :=
  negb (has (prev_occ d t k) i) && mem_needed P k (cat_of prog i).

Lemma x_mem_entries_mr P prog d t : mem_entries P prog d t = x_mr (x_cond P prog d t) (rec_at d t).
Proof. reflexivity. Qed.

Lemma x_cond_iff P prog d t k i :
  x_cond P prog d t k i = true <->
  ~ (exists l, In (i, l) (prev_occ d t k)) /\ mem_needed P k (cat_of prog i) = true.
Proof. unfold x_cond. rewrite andb_true_iff, negb_true_iff. rewrite <- x_has_iff.
  destruct (has (prev_occ d t k) i); intuition congruence. Qed.

(* membership in mem_entries is enters_mem (the "if" half needs no shape) *)
Lemma x_enters_In P prog d t i u : enters_mem P prog d t i u -> In (i, u) (mem_entries P prog d t).
Proof. intros [[l Hl] H]. rewrite x_mem_entries_mr. apply x_mr_In. exists (occ d t u). split.
  - unfold occ in *. apply (x_get_In _ _ _ Hl).
  - split; [eauto|]. apply x_cond_iff; auto. Qed.

Lemma x_In_enters P prog d t i u : record_shape (rec_at d t) ->
  In (i, u) (mem_entries P prog d t) -> enters_mem P prog d t i u.
Proof. intros [Hk _] H. rewrite x_mem_entries_mr in H. apply x_mr_In in H.
  destruct H as [es [Hkv [Hl Hc]]]. apply x_cond_iff in Hc. unfold enters_mem. split; auto.
  unfold occ. rewrite (x_get_nodup _ _ _ Hk Hkv). auto. Qed.

Lemma x_mem_entries_iff P prog d t i u : record_shape (rec_at d t) ->
  (In (i, u) (mem_entries P prog d t) <-> enters_mem P prog d t i u).
Proof. intros Hs. split; [apply x_In_enters; auto|apply x_enters_In]. Qed.

Lemma x_mem_entries_nodup P prog d t : record_shape (rec_at d t) -> NoDup (mem_entries P prog d t).
Proof. intros Hs. rewrite x_mem_entries_mr. apply x_mr_nodup; auto. Qed.

Lemma C05_checker_exact_lemma :
  forall (P : proc) (prog : list instr) (d : diagram), diagram_shape d ->
    (C05_checkb P prog d = true <->
     forall t i u j v, t < length d -> enters_mem P prog d t i u -> enters_mem P prog d t j v -> i = j /\ u = v).
Proof. intros P prog d Hs. unfold C05_checkb. rewrite forallb_forall. split.
  - intros Hc t i u j v Ht H1 H2.
    assert (Hl : length (mem_entries P prog d t) <= 1) by (apply Nat.leb_le, Hc, in_seq; lia).
    apply x_enters_In in H1. apply x_enters_In in H2.
    destruct (mem_entries P prog d t) as [|a [|b m]]; cbn [In length] in *; try tauto; try lia.
    destruct H1 as [H1|[]], H2 as [H2|[]]. subst a. inversion H2; auto.
  - intros H t Ht. apply in_seq in Ht. assert (Ht' : t < length d) by lia. apply Nat.leb_le.
    assert (Hr : record_shape (rec_at d t)) by (apply Hs, x_rec_at_In; auto).
    pose proof (x_mem_entries_nodup P prog d t Hr) as Hnd.
    assert (Hm : forall p, In p (mem_entries P prog d t) -> enters_mem P prog d t (fst p) (snd p)).
    { intros [i u] Hp. apply x_In_enters; auto. }
    destruct (mem_entries P prog d t) as [|[i u] [|[j v] m]]; cbn [length]; try lia.
    exfalso. assert (E : i = j /\ u = v).
    { apply (H t i u j v Ht').
      - apply (Hm (i, u)). left; auto.
      - apply (Hm (j, v)). right; left; auto. }
    destruct E; subst. inversion Hnd as [|? ? Hni _]; subst. apply Hni. left; auto. Qed.

Print Assumptions C04_checker_exact_lemma.
Print Assumptions C05_checker_exact_lemma.
