(* C11_locks.v -- graph-level facts about _checks.chk_caps (no description involved):
   * lock counts along maximal routes as a relation (rval) and the fuelled list version (alc) of which
     LoaderSpec.lock_counts / d_lock_counts are instances;
   * the invariant of chk_multilock along a post-order: the value stored for a processed unit is the
     common lock count of all maximal routes from it; what a success and each failure mean;
   * chk_in_locks, chk_flow, do_cap_checks, cap_units. *)
From Coq Require Import Lia Permutation.
From PS Require Import Base Str Sim Graph Loader Diag LoaderSpec Lists Graph_facts LD_base.

(* ====================================================================== *)
(* routes and their lock counts                                            *)
(* ====================================================================== *)
Section Routes.
  Variables (nxt : string -> list string) (locked : string -> bool).
  Definition bump (u : string) : nat := if locked u then 1 else 0.
  Fixpoint alc (fuel : nat) (u : string) (acc : nat) : list nat :=
    match fuel with
    | 0 => [99]
    | S f => match nxt u with
             | [] => [acc + bump u]
             | l => flat_map (fun s => alc f s (acc + bump u)) l
             end
    end.
  (* v is the lock count of some maximal route from u *)
  Inductive rval : string -> nat -> Prop :=
  | rv_end u : nxt u = [] -> rval u (bump u)
  | rv_step u s v : In s (nxt u) -> rval s v -> rval u (bump u + v).

  Lemma rval_end_inv u v : nxt u = [] -> rval u v -> v = bump u.
  Proof. intros E H. inversion H; subst; auto. rewrite E in H0. destruct H0. Qed.
  Lemma rval_step_inv u v : nxt u <> [] -> rval u v -> exists s v', In s (nxt u) /\ rval s v' /\ v = bump u + v'.
  Proof. intros E H. inversion H; subst; [congruence|]. eauto. Qed.

  Variables (rank : string -> nat) (dom : string -> Prop).
  Hypothesis Hrank : forall u s, dom u -> In s (nxt u) -> dom s /\ rank s < rank u.

  Lemma alc_spec : forall fuel u acc, dom u -> rank u < fuel ->
    forall x, In x (alc fuel u acc) <-> exists v, rval u v /\ x = acc + v.
  Proof. induction fuel as [|f IH]; intros u acc Hu Hr x; [lia|]. cbn [alc].
    destruct (nxt u) as [|s0 l] eqn:E.
    - simpl. split.
      + intros [<-|[]]. exists (bump u). split; auto. apply rv_end; auto.
      + intros [v [Hv ->]]. left. apply rval_end_inv in Hv; [subst; auto|auto].
    - rewrite in_flat_map. split.
      + intros [s [Hs Hx]]. rewrite <- E in Hs. destruct (Hrank u s Hu Hs) as [Ds Rs].
        apply IH in Hx; auto; [|lia]. destruct Hx as [v [Hv ->]]. exists (bump u + v). split; [|lia].
        eapply rv_step; eauto.
      + intros [v [Hv ->]]. apply rval_step_inv in Hv; [|rewrite E; discriminate].
        destruct Hv as [s [v' [Hs [Hv' ->]]]]. destruct (Hrank u s Hu Hs) as [Ds Rs].
        exists s. split; [rewrite <- E; auto|]. apply IH; auto; [lia|]. exists v'. split; auto. lia. Qed.

  Lemma rval_exists : forall u, dom u -> exists v, rval u v.
  Proof. assert (K : forall k u, rank u < k -> dom u -> exists v, rval u v).
    { induction k as [|k IH]; intros u Hk Hu; [lia|]. destruct (nxt u) as [|s l] eqn:E.
      - exists (bump u). apply rv_end; auto.
      - assert (Hs : In s (nxt u)) by (rewrite E; left; auto). destruct (Hrank u s Hu Hs) as [Ds Rs].
        destruct (IH s) as [v Hv]; auto; [lia|]. exists (bump u + v). eapply rv_step; eauto. }
    intros u. apply (K (S (rank u))). lia. Qed.

  Lemma alc_nonnil : forall fuel u acc, alc fuel u acc <> [].
  Proof. induction fuel as [|f IH]; intros u acc; cbn [alc]; [discriminate|].
    destruct (nxt u) as [|s l]; [discriminate|]. cbn [flat_map]. intros H. apply app_eq_nil in H.
    destruct H as [H _]. apply (IH _ _ H). Qed.
End Routes.

(* the relation only depends on the successor sets and the lock flags *)
Lemma rval_ext nxt nxt' locked locked' (dom : string -> Prop) :
  (forall u, dom u -> (forall s, In s (nxt u) <-> In s (nxt' u)) /\ locked u = locked' u) ->
  (forall u s, dom u -> In s (nxt u) -> dom s) ->
  forall u v, rval nxt locked u v -> dom u -> rval nxt' locked' u v.
Proof. intros He Hd u v. induction 1; intros Hu; destruct (He u Hu) as [E1 E2]; unfold bump; rewrite E2.
  - apply rv_end. destruct (nxt' u) as [|s l] eqn:E; auto. assert (In s (nxt u)) by (apply E1; left; auto).
    rewrite H in H0. destruct H0.
  - apply (rv_step nxt' locked' u s v); [apply E1; auto|]. apply IHrval. eapply Hd; eauto. Qed.

Lemma alc_ext nxt nxt' locked locked' :
  (forall u, nxt u = nxt' u) -> (forall u, locked u = locked' u) ->
  forall fuel u acc, alc nxt locked fuel u acc = alc nxt' locked' fuel u acc.
Proof. intros H1 H2. induction fuel as [|f IH]; intros u acc; cbn [alc]; auto.
  rewrite <- H1. unfold bump. rewrite <- H2. destruct (nxt u); auto. apply flat_map_ext. intros a. apply IH. Qed.

(* set-level consequences used by the checkers *)
Lemma all_same_iff l : all_same l = true <-> forall x y, In x l -> In y l -> x = y.
Proof. destruct l as [|a l]; simpl; [split; auto; intros _ x y []|]. rewrite forallb_forall. split.
  - intros H x y Hx Hy. assert (K : forall z, a = z \/ In z l -> a = z).
    { intros z [Hz|Hz]; auto. apply Nat.eqb_eq. auto. }
    rewrite <- (K x Hx), <- (K y Hy). auto.
  - intros H x Hx. apply Nat.eqb_eq. apply H; auto. Qed.

(* ====================================================================== *)
(* tail_lock / calc_lock                                                   *)
(* ====================================================================== *)
Definition stored (locks : list (string * sat)) (k : lock_kind) (n : string) : nat := sel k (assoc (0, 0) locks n).

Lemma tail_lock_some_one k locks ss o :
  match tail_lock k locks ss (Some o) with
  | Some r => r = Some o /\ forall s, In s ss -> stored locks k s = o
  | None => exists s, In s ss /\ stored locks k s <> o
  end.
Proof. induction ss as [|s t IH]; cbn [tail_lock].
  - split; auto. intros s [].
  - fold (stored locks k s). destruct (Nat.eqb_spec (stored locks k s) o) as [E|E].
    + rewrite E. destruct (tail_lock k locks t (Some o)).
      * destruct IH as [I1 I2]. split; auto. intros x [<-|Hx]; auto.
      * destruct IH as [x [I1 I2]]. exists x. split; auto. right; auto.
    + exists s. split; auto. left; auto. Qed.

(* the common stored value of a list of successors (0 for the empty list) *)
Definition tl_val (locks : list (string * sat)) (k : lock_kind) (ss : list string) (x : nat) : Prop :=
  (ss = [] /\ x = 0) \/ (ss <> [] /\ forall s, In s ss -> stored locks k s = x).

Lemma tail_lock_spec k locks ss :
  match tail_lock k locks ss None with
  | Some r => tl_val locks k ss (match r with Some x => x | None => 0 end)
  | None => exists s1 s2, In s1 ss /\ In s2 ss /\ stored locks k s1 <> stored locks k s2
  end.
Proof. destruct ss as [|s t]; cbn [tail_lock].
  - left. auto.
  - fold (stored locks k s). pose proof (tail_lock_some_one k locks t (stored locks k s)) as H.
    destruct (tail_lock k locks t (Some (stored locks k s))).
    + destruct H as [-> H]. right. split; [discriminate|]. intros x [<-|Hx]; auto.
    + destruct H as [x [H1 H2]]. exists x, s. split; [right; auto|]. split; [left; auto|auto]. Qed.

Lemma calc_lock_spec k ul locks ss start cap :
  match calc_lock k ul locks ss start cap with
  | inl pl => pl <= 1 /\ exists x, tl_val locks k ss x /\ pl = (if ul then 1 else 0) + x
  | inr e => (e = EPathLock PlDifferent start k cap /\
              exists s1 s2, In s1 ss /\ In s2 ss /\ stored locks k s1 <> stored locks k s2) \/
             (e = EPathLock PlMultiple start k cap /\
              exists x, tl_val locks k ss x /\ 1 < (if ul then 1 else 0) + x)
  end.
Proof. unfold calc_lock. pose proof (tail_lock_spec k locks ss) as H.
  destruct (tail_lock k locks ss None) as [r|].
  - set (x := match r with Some x => x | None => 0 end) in *.
    destruct (Nat.ltb_spec 1 ((if ul then 1 else 0) + x)).
    + right. split; auto. exists x. auto.
    + split; [lia|]. exists x. auto.
  - left. auto. Qed.

(* ====================================================================== *)
(* chk_multilock                                                           *)
(* ====================================================================== *)
Section Multilock.
  Variables (g : graph) (at_ : attrs) (cap : string) (post : list string).
  Hypothesis Hnd : NoDup post.
  Hypothesis Hord : ordered_by (succs g) post.

  Definition cnxt (u : string) : list string := filter (has_cap at_ cap) (succs g u).
  Definition lk_of (k : lock_kind) (u : string) : bool :=
    match k with LkRead => a_rl (attr_of at_ u) | LkWrite => a_wl (attr_of at_ u) end.
  Definition RV (k : lock_kind) : string -> nat -> Prop := rval cnxt (lk_of k).

  Lemma cap_succs_cnxt n : has_cap at_ cap n = true -> cap_succs g at_ cap n = cnxt n.
  Proof. unfold cap_succs. intros ->. reflexivity. Qed.

  Definition linv (done : list string) (locks : list (string * sat)) : Prop :=
    forall n, In n done -> has_cap at_ cap n = true ->
      forall k, (forall v, RV k n v <-> v = stored locks k n) /\ stored locks k n <= 1.

  Lemma stored_set locks n rw k m :
    stored (set locks n rw) k m = if String.eqb m n then sel k rw else stored locks k m.
  Proof. unfold stored. rewrite assoc_set. destruct (String.eqb m n); auto. Qed.

  (* the route values of n, all of whose successors carry their common value *)
  Lemma rv_of_tl done locks n k x : linv done locks -> incl (cnxt n) done ->
    tl_val locks k (cnxt n) x -> forall v, RV k n v <-> v = bump (lk_of k) n + x.
  Proof. intros Hl Hi [[E ->]|[E Hx]] v.
    - rewrite Nat.add_0_r. split.
      + apply rval_end_inv; auto.
      + intros ->. apply rv_end; auto.
    - assert (Hs : forall s, In s (cnxt n) -> forall v', RV k s v' <-> v' = x).
      { intros s Hs v'. assert (Hc : has_cap at_ cap s = true) by (apply filter_In in Hs; tauto).
        destruct (Hl s (Hi s Hs) Hc k) as [H1 _]. rewrite H1, (Hx s Hs). tauto. }
      split.
      + intros Hv. apply rval_step_inv in Hv; auto. destruct Hv as [s [v' [H1 [H2 ->]]]].
        apply (Hs s H1) in H2. subst; auto.
      + intros ->. destruct (cnxt n) as [|s l] eqn:En; [congruence|]. rewrite <- En in *.
        assert (H1 : In s (cnxt n)) by (rewrite En; left; auto).
        apply (rv_step cnxt (lk_of k) n s x); auto. apply (Hs s H1). auto. Qed.

  Lemma chk_multilock_spec : forall rest done locks, post = done ++ rest -> linv done locks ->
    match chk_multilock g at_ cap rest locks with
    | inl locks' => linv post locks'
    | inr e => exists n kind k, e = EPathLock kind n k cap /\ In n rest /\ has_cap at_ cap n = true /\
                 ((kind = PlDifferent /\ exists v1 v2, RV k n v1 /\ RV k n v2 /\ v1 <> v2) \/
                  (kind = PlMultiple /\ exists v, RV k n v /\ 1 < v))
    end.
  Proof. induction rest as [|n t IH]; intros done locks Hp Hl; cbn [chk_multilock].
    - rewrite app_nil_r in Hp. subst. auto.
    - assert (Hp' : post = (done ++ [n]) ++ t) by (rewrite <- app_assoc; auto).
      assert (Hn : ~ In n done).
      { rewrite Hp in Hnd. apply NoDup_app_inv in Hnd. destruct Hnd as [_ [_ Hd]]. intros Hc.
        apply (Hd n Hc). left; auto. }
      destruct (has_cap at_ cap n) eqn:Ec.
      + rewrite (cap_succs_cnxt n Ec).
        assert (Hi : incl (cnxt n) done).
        { intros s Hs. apply filter_In in Hs. destruct Hs as [Hs _]. apply (Hord done n t Hp s Hs). }
        assert (Hfail : forall k, (exists s1 s2, In s1 (cnxt n) /\ In s2 (cnxt n) /\ stored locks k s1 <> stored locks k s2) ->
                  exists v1 v2, RV k n v1 /\ RV k n v2 /\ v1 <> v2).
        { intros k [s1 [s2 [H1 [H2 H3]]]].
          assert (R : forall s, In s (cnxt n) -> RV k n (bump (lk_of k) n + stored locks k s)).
          { intros s Hs. apply (rv_step cnxt (lk_of k) n s); auto.
            assert (Hc : has_cap at_ cap s = true) by (apply filter_In in Hs; tauto).
            apply (Hl s (Hi s Hs) Hc k). auto. }
          exists (bump (lk_of k) n + stored locks k s1), (bump (lk_of k) n + stored locks k s2).
          split; auto. split; auto. lia. }
        pose proof (calc_lock_spec LkRead (a_rl (attr_of at_ n)) locks (cnxt n) n cap) as Hr.
        destruct (calc_lock LkRead (a_rl (attr_of at_ n)) locks (cnxt n) n cap) as [r|e].
        * pose proof (calc_lock_spec LkWrite (a_wl (attr_of at_ n)) locks (cnxt n) n cap) as Hw.
          destruct (calc_lock LkWrite (a_wl (attr_of at_ n)) locks (cnxt n) n cap) as [w|e].
          -- specialize (IH (done ++ [n]) (set locks n (r, w)) Hp').
             assert (Hl' : linv (done ++ [n]) (set locks n (r, w))).
             { intros m Hm Hc k. rewrite stored_set. apply in_app_iff in Hm.
               destruct (String.eqb_spec m n) as [->|Hmn].
               - destruct k; cbn [sel fst snd].
                 + destruct Hr as [R1 [x [R2 ->]]]. split; auto.
                   apply (rv_of_tl done locks n LkRead x Hl Hi R2).
                 + destruct Hw as [W1 [x [W2 ->]]]. split; auto.
                   apply (rv_of_tl done locks n LkWrite x Hl Hi W2).
               - destruct Hm as [Hm|[->|[]]]; [|congruence]. apply Hl; auto. }
             specialize (IH Hl'). destruct (chk_multilock g at_ cap t (set locks n (r, w))); auto.
             destruct IH as [m [kind [k [I1 [I2 I3]]]]]. exists m, kind, k. split; auto. split; [right; auto|auto].
          -- destruct Hw as [[-> Hw]|[-> [x [W1 W2]]]].
             ++ exists n, PlDifferent, LkWrite. split; auto. split; [left; auto|]. split; auto.
             ++ exists n, PlMultiple, LkWrite. split; auto. split; [left; auto|]. split; auto. right. split; auto.
                exists ((if a_wl (attr_of at_ n) then 1 else 0) + x). split; auto.
                apply (rv_of_tl done locks n LkWrite x Hl Hi W1). reflexivity.
        * destruct Hr as [[-> Hr]|[-> [x [R1 R2]]]].
          -- exists n, PlDifferent, LkRead. split; auto. split; [left; auto|]. split; auto.
          -- exists n, PlMultiple, LkRead. split; auto. split; [left; auto|]. split; auto. right. split; auto.
             exists ((if a_rl (attr_of at_ n) then 1 else 0) + x). split; auto.
             apply (rv_of_tl done locks n LkRead x Hl Hi R1). reflexivity.
      + specialize (IH (done ++ [n]) locks Hp').
        assert (Hl' : linv (done ++ [n]) locks).
        { intros m Hm Hc. apply in_app_iff in Hm. destruct Hm as [Hm|[->|[]]]; [apply Hl; auto|congruence]. }
        specialize (IH Hl'). destruct (chk_multilock g at_ cap t locks); auto.
        destruct IH as [m [kind [k [I1 [I2 I3]]]]]. exists m, kind, k. split; auto. split; [right; auto|auto]. Qed.

  Lemma linv_nil locks : linv [] locks.
  Proof. intros n []. Qed.

  (* from the empty table *)
  Theorem chk_multilock_post :
    match chk_multilock g at_ cap post [] with
    | inl locks => linv post locks
    | inr e => exists n kind k, e = EPathLock kind n k cap /\ In n post /\ has_cap at_ cap n = true /\
                 ((kind = PlDifferent /\ exists v1 v2, RV k n v1 /\ RV k n v2 /\ v1 <> v2) \/
                  (kind = PlMultiple /\ exists v, RV k n v /\ 1 < v))
    end.
  Proof. apply (chk_multilock_spec post [] []); auto. apply linv_nil. Qed.
End Multilock.

(* ====================================================================== *)
(* chk_in_locks                                                            *)
(* ====================================================================== *)
Lemma chk_in_locks_spec cap ins locks :
  match chk_in_locks cap ins locks with
  | Some e => exists p lk, e = EPathLock PlNone p lk cap /\ In p ins /\ stored locks lk p = 0
  | None => forall p lk, In p ins -> stored locks lk p <> 0
  end.
Proof. induction ins as [|p t IH]; cbn [chk_in_locks].
  - intros p lk [].
  - destruct (Nat.eqb_spec (fst (assoc (0, 0) locks p)) 0) as [E|E].
    + exists p, LkRead. split; auto. split; [left; auto|exact E].
    + destruct (Nat.eqb_spec (snd (assoc (0, 0) locks p)) 0) as [E2|E2].
      * exists p, LkWrite. split; auto. split; [left; auto|exact E2].
      * destruct (chk_in_locks cap t locks).
        -- destruct IH as [q [lk [I1 [I2 I3]]]]. exists q, lk. split; auto. split; [right; auto|auto].
        -- intros q lk [<-|Hq]; [destruct lk; auto|apply IH; auto]. Qed.

(* ====================================================================== *)
(* chk_flow                                                                *)
(* ====================================================================== *)
Definition flow_seen (g : graph) (at_ : attrs) (cap p : string) : list string :=
  reach_from (S (length (g_nodes g))) (cap_succs g at_ cap) [p] [p].
Lemma chk_flow_spec g at_ cap outs ins :
  match chk_flow g at_ cap outs ins with
  | Some e => exists p, e = EBlockedCap cap p /\ In p ins /\ forall o, In o outs -> ~ In o (flow_seen g at_ cap p)
  | None => forall p, In p ins -> exists o, In o outs /\ In o (flow_seen g at_ cap p)
  end.
Proof. induction ins as [|p t IH]; cbn [chk_flow].
  - intros p [].
  - fold (flow_seen g at_ cap p). destruct (existsb (fun o => mem_str o (flow_seen g at_ cap p)) outs) eqn:E.
    + destruct (chk_flow g at_ cap outs t).
      * destruct IH as [q [I1 [I2 I3]]]. exists q. split; auto. split; [right; auto|auto].
      * intros q [<-|Hq]; [|apply IH; auto]. apply existsb_exists in E. destruct E as [o [O1 O2]].
        exists o. split; auto. apply mem_str_In; auto.
    + exists p. split; auto. split; [left; auto|]. intros o Ho Hc. rewrite existsb_false_iff in E.
      specialize (E o Ho). apply mem_str_In in Hc. congruence. Qed.
Lemma cap_succs_incl g at_ cap y : incl (cap_succs g at_ cap y) (succs g y).
Proof. unfold cap_succs. destruct (has_cap at_ cap y); [|intros x []]. intros x Hx. apply filter_In in Hx. tauto. Qed.
Lemma flow_seen_spec g at_ cap p x : gwf g -> In p (g_nodes g) ->
  (In x (flow_seen g at_ cap p) <-> rpath (cap_succs g at_ cap) p x).
Proof. intros H Hp. apply reach_from_graph; auto. intros y. apply cap_succs_incl. Qed.

(* ====================================================================== *)
(* do_cap_checks                                                           *)
(* ====================================================================== *)
Lemma do_cap_checks_spec g at_ post outs cus :
  match do_cap_checks g at_ post outs cus with
  | Some e => exists cap ins, In (cap, ins) cus /\
      (chk_multilock g at_ cap post [] = inr e \/
       exists locks, chk_multilock g at_ cap post [] = inl locks /\
         (chk_in_locks cap ins locks = Some e \/
          (chk_in_locks cap ins locks = None /\ 1 < length (g_nodes g) /\ chk_flow g at_ cap outs ins = Some e)))
  | None => forall cap ins, In (cap, ins) cus ->
      exists locks, chk_multilock g at_ cap post [] = inl locks /\ chk_in_locks cap ins locks = None /\
                    (1 < length (g_nodes g) -> chk_flow g at_ cap outs ins = None)
  end.
Proof. induction cus as [|[cap ins] t IH]; cbn [do_cap_checks].
  - intros cap ins [].
  - destruct (chk_multilock g at_ cap post []) as [locks|e] eqn:E1.
    + destruct (chk_in_locks cap ins locks) as [e|] eqn:E2.
      * exists cap, ins. split; [left; auto|]. right. exists locks. auto.
      * destruct (1 <? length (g_nodes g)) eqn:E3.
        -- destruct (chk_flow g at_ cap outs ins) as [e|] eqn:E4.
           ++ exists cap, ins. split; [left; auto|]. right. exists locks. split; auto. right.
              apply Nat.ltb_lt in E3. auto.
           ++ destruct (do_cap_checks g at_ post outs t).
              ** destruct IH as [c [i [I1 I2]]]. exists c, i. split; [right; auto|auto].
              ** intros c i [[= <- <-]|Hc]; [|apply IH; auto]. exists locks. auto.
        -- destruct (do_cap_checks g at_ post outs t).
           ++ destruct IH as [c [i [I1 I2]]]. exists c, i. split; [right; auto|auto].
           ++ intros c i [[= <- <-]|Hc]; [|apply IH; auto]. exists locks. split; auto. split; auto.
              intros Hl. apply Nat.ltb_ge in E3. lia.
    + exists cap, ins. split; [left; auto|]. left; auto. Qed.

(* ====================================================================== *)
(* cap_units                                                               *)
(* ====================================================================== *)
Lemma set_In_inv {A} (m : list (string * A)) k v k' v' : In (k', v') (set m k v) -> (k' = k /\ v' = v) \/ In (k', v') m.
Proof. induction m as [|[k2 v2] t IH]; simpl.
  - intros [[= <- <-]|[]]. auto.
  - destruct (String.eqb k k2).
    + intros [[= <- <-]|H]; auto.
    + intros [H|H]; auto. apply IH in H. tauto. Qed.
Lemma get_In_inv {A} (m : list (string * list A)) k x : In x (get m k) -> exists l, In (k, l) m /\ In x l.
Proof. induction m as [|[k2 v2] t IH]; simpl; [tauto|].
  destruct (String.eqb_spec k k2) as [->|Hn].
  - intros H. exists v2. auto.
  - intros H. apply IH in H. destruct H as [l [H1 H2]]. exists l. auto. Qed.
Lemma set_keys_nodup {A} (m : list (string * A)) k v : NoDup (map fst m) -> NoDup (map fst (set m k v)).
Proof. intros H. destruct (in_dec_str k (map fst m)) as [Hi|Hi].
  - rewrite set_keys_in; auto.
  - assert (E : map fst (set m k v) = map fst m ++ [k]).
    { clear H. induction m as [|[k2 v2] t IH]; simpl; auto. destruct (String.eqb_spec k k2) as [->|Hn].
      - exfalso. apply Hi. left; auto.
      - simpl. f_equal. apply IH. intros Hc. apply Hi. right; auto. }
    rewrite E. apply NoDup_snoc; auto. Qed.
Lemma get_set_eq {A} (m : list (string * list A)) k v k' : get (set m k v) k' = if String.eqb k' k then v else get m k'.
Proof. destruct (String.eqb_spec k' k) as [->|Hn]; [apply gss|apply gso; congruence]. Qed.
Lemma In_get {A} (m : list (string * list A)) k l : NoDup (map fst m) -> In (k, l) m -> get m k = l.
Proof. induction m as [|[k2 v2] t IH]; simpl; [tauto|]. intros H. inversion H; subst. intros [[= -> ->]|Hi].
  - rewrite String.eqb_refl. auto.
  - destruct (String.eqb_spec k k2) as [->|Hn]; auto. exfalso. apply H2. apply (in_map fst) in Hi. auto. Qed.
Lemma get_In_self {A} (m : list (string * list A)) k : get m k <> [] -> In (k, get m k) m.
Proof. induction m as [|[k2 v2] t IH]; simpl; [congruence|].
  destruct (String.eqb_spec k k2) as [->|Hn]; auto. Qed.

Definition cu_caps (p : string) (m : list (string * list string)) (c : string) := set m c (get m c ++ [p]).
Definition cu_port (at_ : attrs) (m : list (string * list string)) (p : string) :=
  fold_left (cu_caps p) (caps_of at_ p) m.
Lemma cap_units_unfold g at_ : cap_units g at_ = fold_left (cu_port at_) (in_ports_of g) [].
Proof. reflexivity. Qed.

Lemma cu_caps_fold p cs : forall m, NoDup (map fst m) ->
  NoDup (map fst (fold_left (cu_caps p) cs m)) /\
  forall c q, In q (get (fold_left (cu_caps p) cs m) c) <-> In q (get m c) \/ (q = p /\ In c cs).
Proof. induction cs as [|c0 t IH]; intros m H; cbn [fold_left].
  - split; auto. intros c q. simpl. tauto.
  - destruct (IH (cu_caps p m c0)) as [I1 I2]; [apply set_keys_nodup; auto|]. split; auto.
    intros c q. rewrite I2. unfold cu_caps. rewrite get_set_eq. simpl.
    destruct (String.eqb_spec c c0) as [->|Hn].
    + rewrite in_snoc. intuition.
    + intuition congruence. Qed.
Lemma cu_port_fold at_ ps : forall m, NoDup (map fst m) ->
  NoDup (map fst (fold_left (cu_port at_) ps m)) /\
  forall c q, In q (get (fold_left (cu_port at_) ps m) c) <-> In q (get m c) \/ (In q ps /\ In c (caps_of at_ q)).
Proof. induction ps as [|p t IH]; intros m H; cbn [fold_left].
  - split; auto. intros c q. simpl. tauto.
  - destruct (cu_caps_fold p (caps_of at_ p) m H) as [C1 C2]. fold (cu_port at_ m p) in C1, C2.
    destruct (IH (cu_port at_ m p) C1) as [I1 I2]. split; auto.
    intros c q. rewrite I2, C2. simpl. intuition (subst; auto). Qed.

(* the capability table: keys are distinct; the ports listed for a capability are exactly the input
   ports supporting it; every capability of an input port has its entry *)
Theorem cap_units_spec g at_ :
  NoDup (map fst (cap_units g at_)) /\
  (forall cap ins, In (cap, ins) (cap_units g at_) ->
     forall p, In p ins <-> In p (in_ports_of g) /\ In cap (caps_of at_ p)) /\
  (forall p cap, In p (in_ports_of g) -> In cap (caps_of at_ p) -> exists ins, In (cap, ins) (cap_units g at_)).
Proof. rewrite cap_units_unfold. destruct (cu_port_fold at_ (in_ports_of g) []) as [H1 H2]; [constructor|].
  split; auto. split.
  - intros cap ins Hi p. rewrite <- (In_get _ _ _ H1 Hi), H2. simpl. tauto.
  - intros p cap Hp Hc. exists (get (fold_left (cu_port at_) (in_ports_of g) []) cap). apply get_In_self.
    intros E. assert (Hq : In p (get (fold_left (cu_port at_) (in_ports_of g) []) cap)) by (apply H2; auto).
    rewrite E in Hq. destruct Hq. Qed.

(* ====================================================================== *)
(* on a well-formed acyclic graph                                          *)
(* ====================================================================== *)
Section OnGraph.
  Variables (g : graph) (at_ : attrs).
  Hypothesis Hw : gwf g.
  Hypothesis Ha : acyclic g.

  (* successors come earlier in the post-order: a rank for the route recursion *)
  Lemma cnxt_rank cap u s : In u (g_nodes g) -> In s (cnxt g at_ cap u) ->
    In s (g_nodes g) /\ idx s (dfs_postorder g) < idx u (dfs_postorder g).
  Proof. intros Hu Hs. apply filter_In in Hs. destruct Hs as [Hs _]. split.
    - apply (gwf_in g Hw) in Hs. tauto.
    - apply (dfs_postorder_succ_before g u s Hw Ha Hs). Qed.

  Lemma idx_post_lt u : In u (g_nodes g) -> idx u (dfs_postorder g) < length (g_nodes g).
  Proof. intros Hu. rewrite <- (Permutation_length (dfs_postorder_perm g Hw)). apply idx_lt.
    apply dfs_postorder_in; auto. Qed.

  (* the fuelled list of lock counts lists exactly the route values *)
  Lemma alc_graph cap k fuel u acc : In u (g_nodes g) -> length (g_nodes g) <= fuel ->
    forall x, In x (alc (cnxt g at_ cap) (lk_of at_ k) fuel u acc) <-> exists v, RV g at_ cap k u v /\ x = acc + v.
  Proof. intros Hu Hf. apply (alc_spec _ _ (fun u => idx u (dfs_postorder g)) (fun u => In u (g_nodes g))); auto.
    - intros a s. apply cnxt_rank.
    - pose proof (idx_post_lt u Hu). lia. Qed.
  Lemma RV_exists cap k u : In u (g_nodes g) -> exists v, RV g at_ cap k u v.
  Proof. apply (rval_exists _ _ (fun u => idx u (dfs_postorder g)) (fun u => In u (g_nodes g))).
    intros a s. apply cnxt_rank. Qed.

  Lemma chk_multilock_graph cap :
    match chk_multilock g at_ cap (dfs_postorder g) [] with
    | inl locks => forall n, In n (g_nodes g) -> has_cap at_ cap n = true ->
                     forall k, (forall v, RV g at_ cap k n v <-> v = stored locks k n) /\ stored locks k n <= 1
    | inr e => exists n kind k, e = EPathLock kind n k cap /\ In n (g_nodes g) /\ has_cap at_ cap n = true /\
                 ((kind = PlDifferent /\ exists v1 v2, RV g at_ cap k n v1 /\ RV g at_ cap k n v2 /\ v1 <> v2) \/
                  (kind = PlMultiple /\ exists v, RV g at_ cap k n v /\ 1 < v))
    end.
  Proof. pose proof (chk_multilock_post g at_ cap (dfs_postorder g) (dfs_postorder_nodup g Hw)
                       (dfs_postorder_ordered g Hw Ha)) as H.
    destruct (chk_multilock g at_ cap (dfs_postorder g) []).
    - intros n Hn. apply H. apply dfs_postorder_in; auto.
    - destruct H as [n [kind [k [H1 [H2 H3]]]]]. exists n, kind, k. split; auto. split; auto.
      apply dfs_postorder_in in H2; auto. Qed.

  (* all capability checks passed: every capability offered at an input port crosses exactly one lock of
     each kind on every maximal route, and reaches an output port *)
  Theorem cap_checks_ok :
    do_cap_checks g at_ (dfs_postorder g) (out_ports_of g) (cap_units g at_) = None ->
    forall p cap, In p (in_ports_of g) -> In cap (caps_of at_ p) ->
      (forall k v, RV g at_ cap k p v -> v = 1) /\
      (1 < length (g_nodes g) -> exists o, In o (out_ports_of g) /\ rpath (cap_succs g at_ cap) p o).
  Proof. intros Hc p cap Hp Hcap. pose proof (do_cap_checks_spec g at_ (dfs_postorder g) (out_ports_of g) (cap_units g at_)) as H.
    rewrite Hc in H. destruct (cap_units_spec g at_) as [_ [U2 U3]]. destruct (U3 p cap Hp Hcap) as [ins Hi].
    destruct (H cap ins Hi) as [locks [L1 [L2 L3]]].
    assert (Hpi : In p ins) by (apply (U2 cap ins Hi); auto).
    assert (Hpn : In p (g_nodes g)) by (apply filter_In in Hp; tauto).
    split.
    - intros k v Hv. pose proof (chk_multilock_graph cap) as M. rewrite L1 in M.
      destruct (M p Hpn (proj2 (mem_str_In _ _) Hcap) k) as [M1 M2]. apply M1 in Hv.
      pose proof (chk_in_locks_spec cap ins locks) as I. rewrite L2 in I. specialize (I p k Hpi). lia.
    - intros Hl. specialize (L3 Hl). pose proof (chk_flow_spec g at_ cap (out_ports_of g) ins) as F.
      rewrite L3 in F. destruct (F p Hpi) as [o [O1 O2]]. exists o. split; auto.
      apply flow_seen_spec in O2; auto. Qed.
End OnGraph.
