(* Flow_refine_stages.v -- what cap_graph, anal_graph and aug_out_ports/unify_ports do to the node set,
   the edge relation and the widths. *)
From Coq Require Import Lia Permutation.
From PS Require Import Base Str Sim Graph Loader Flow Lists Graph_facts Flow_refine_str Flow_refine_graph.

Lemma fold_left_map {A B C} (f : A -> B -> A) (h : C -> B) l : forall a,
  fold_left f (map h l) a = fold_left (fun a x => f a (h x)) l a.
Proof. induction l; simpl; auto. Qed.

(* ====================================================================== *)
(* cap_graph                                                               *)
(* ====================================================================== *)
Lemma cap_graph_eq g at_ c :
  cap_graph g at_ c =
  fold_left add_node (g_nodes g)
    (add_edges g_empty (filter (fun e => has_cap at_ c (fst e) && has_cap at_ c (snd e)) (edges g))).
Proof. reflexivity. Qed.
Lemma cap_graph_gwf g at_ c : gwf (cap_graph g at_ c).
Proof. rewrite cap_graph_eq. apply gwf_add_nodes, gwf_add_edges, gwf_empty. Qed.
Lemma cap_graph_succs g at_ c x y : gwf g ->
  (In y (succs (cap_graph g at_ c) x) <-> In y (succs g x) /\ has_cap at_ c x = true /\ has_cap at_ c y = true).
Proof. intros H. rewrite cap_graph_eq, add_nodes_succs, add_edges_succs, filter_In, edges_In by auto.
  simpl. rewrite andb_true_iff. unfold succs at 1. simpl. tauto. Qed.
Lemma cap_graph_nodes g at_ c x : gwf g -> (In x (g_nodes (cap_graph g at_ c)) <-> In x (g_nodes g)).
Proof. intros H. rewrite cap_graph_eq, add_nodes_nodes, add_edges_nodes. simpl. split; [|auto].
  intros [[[]|[[a b] [He Hx]]]|Hx]; auto. apply filter_In in He. destruct He as [He _].
  apply edges_In in He; auto. apply (gwf_in g H) in He. simpl in Hx. destruct Hx; subst; tauto. Qed.
Lemma cap_graph_cap_succs g at_ c x y : gwf g ->
  (In y (cap_succs g at_ c x) <-> In y (succs (cap_graph g at_ c) x)).
Proof. intros H. rewrite cap_graph_succs by auto. unfold cap_succs.
  destruct (has_cap at_ c x); [rewrite filter_In|simpl]; intuition discriminate. Qed.
Lemma cap_graph_preds_nil g at_ c p : gwf g -> in_degree g p = 0 -> preds (cap_graph g at_ c) p = [].
Proof. intros H Hd. apply nil_no_In. intros x Hx.
  apply (gwf_sym _ (cap_graph_gwf g at_ c)) in Hx. apply cap_graph_succs in Hx; auto.
  destruct Hx as [Hx _]. apply (gwf_sym g H) in Hx. apply length_zero_nil in Hd.
  unfold in_degree in Hd. rewrite Hd in Hx. destruct Hx. Qed.

(* ====================================================================== *)
(* anal_graph                                                              *)
(* ====================================================================== *)
Lemma add_nodes_exact l : forall h, NoDup l -> (forall x, In x l -> ~ In x (g_nodes h)) ->
  g_nodes (fold_left add_node l h) = g_nodes h ++ l.
Proof. induction l as [|n l IH]; intros h Hnd Hd; simpl.
  - rewrite app_nil_r. auto.
  - inversion Hnd; subst. rewrite IH; auto.
    + unfold add_node. destruct (has_node g_empty n); simpl.
      * destruct (has_node h n) eqn:E; [apply has_node_In in E; exfalso; apply (Hd n); simpl; auto|].
        simpl. rewrite <- app_assoc. reflexivity.
      * destruct (has_node h n) eqn:E; [apply has_node_In in E; exfalso; apply (Hd n); simpl; auto|].
        simpl. rewrite <- app_assoc. reflexivity.
    + intros x Hx Hx2. apply add_node_nodes in Hx2. destruct Hx2 as [Hx2| ->]; auto.
      apply (Hd x); simpl; auto. Qed.

Lemma NoDup_map_nid l : NoDup l -> NoDup (map nid l).
Proof. induction 1; simpl; constructor; auto. intros Hc. apply in_map_iff in Hc.
  destruct Hc as [y [Hy1 Hy2]]. apply nid_inj in Hy1. subst; auto. Qed.
Lemma in_nids x n : In x (map nid (seq 0 n)) <-> exists i, i < n /\ x = nid i.
Proof. rewrite in_map_iff. split; intros [i [H1 H2]]; exists i.
  - apply in_seq in H2. split; [lia|auto].
  - split; auto. apply in_seq. lia. Qed.

Section Anal.
  Variable cg : graph.
  Variable at_ : attrs.
  Hypothesis Hcg : gwf cg.
  Let ns := g_nodes cg.
  Let N := length ns.
  Definition aidx (n : string) : string := nid (index_of (g_nodes cg) n 0).
  Let a0 := anal_graph cg at_.

  Lemma anal_graph_eq :
    ag a0 = add_edges (fold_left add_node (map nid (seq 0 N)) g_empty)
                      (map (fun e => (aidx (fst e), aidx (snd e))) (edges cg)).
  Proof. unfold a0, anal_graph, add_edges. cbn [ag]. rewrite !fold_left_map. reflexivity. Qed.

  Lemma aidx_inj a b : In a ns -> In b ns -> aidx a = aidx b -> a = b.
  Proof. intros Ha Hb H. apply nid_inj in H. eapply index_of_inj; eauto. Qed.
  Lemma aidx_in n : In n ns -> In (aidx n) (map nid (seq 0 N)).
  Proof. intros H. apply in_nids. exists (index_of ns n 0). split; auto. apply index_of_lt; auto. Qed.
  Lemma aidx_surj x : In x (map nid (seq 0 N)) -> exists n, In n ns /\ x = aidx n.
  Proof. intros H. apply in_nids in H. destruct H as [i [Hi ->]].
    destruct (nth_error ns i) as [n|] eqn:E; [|apply nth_error_None in E; unfold N in Hi; lia].
    exists n. assert (Hn : In n ns) by (eapply nth_error_In; eauto). split; auto.
    unfold aidx. f_equal. pose proof (index_of_nth ns n 0 Hn) as H2. rewrite Nat.sub_0_r in H2.
    assert (Hnd : NoDup ns) by apply Hcg.
    rewrite NoDup_nth_error in Hnd. apply Hnd; [exact Hi|].
    fold ns. rewrite H2, E. reflexivity. Qed.

  Lemma anal_nodes : g_nodes (ag a0) = map nid (seq 0 N).
  Proof. rewrite anal_graph_eq, add_edges_nodes_eq.
    - rewrite add_nodes_exact; auto. apply NoDup_map_nid, seq_NoDup.
    - intros e He. apply in_map_iff in He. destruct He as [[a b] [<- He]]. simpl.
      apply edges_In in He; auto. apply (gwf_in cg Hcg) in He.
      rewrite add_nodes_exact; [|apply NoDup_map_nid, seq_NoDup|auto]. simpl.
      split; apply aidx_in; tauto. Qed.
  Lemma anal_gwf : gwf (ag a0).
  Proof. rewrite anal_graph_eq. apply gwf_add_edges, gwf_add_nodes, gwf_empty. Qed.
  Lemma anal_succs x' y' :
    In y' (succs (ag a0) x') <-> exists x y, In y (succs cg x) /\ x' = aidx x /\ y' = aidx y.
  Proof. rewrite anal_graph_eq, add_edges_succs, add_nodes_succs. unfold succs at 1. simpl. split.
    - intros [[]|H]. apply in_map_iff in H. destruct H as [[a b] [H1 H2]]. simpl in H1.
      inversion H1; subst. apply edges_In in H2; auto. eauto.
    - intros [x [y [H1 [-> ->]]]]. right. apply in_map_iff. exists (x, y). split; auto.
      apply edges_In; auto. Qed.
  Lemma anal_succs_idx x y : In x ns -> In y ns -> (In (aidx y) (succs (ag a0) (aidx x)) <-> In y (succs cg x)).
  Proof. intros Hx Hy. rewrite anal_succs. split.
    - intros [x2 [y2 [H1 [H2 H3]]]]. pose proof (gwf_in cg Hcg _ _ H1) as [H4 H5].
      apply aidx_inj in H2; auto. apply aidx_inj in H3; auto. subst; auto.
    - intros H. eauto. Qed.
  Lemma anal_aw n : In n ns -> aw a0 (aidx n) = a_width (attr_of at_ n).
  Proof. intros Hn. unfold aw, a0, anal_graph. cbn [ag_w]. fold ns. fold aidx.
    assert (G : forall l, incl l ns -> In n l ->
              assoc 0 (map (fun n0 => (nid (index_of ns n0 0), a_width (attr_of at_ n0))) l) (aidx n)
              = a_width (attr_of at_ n)).
    { induction l as [|m l IH]; intros Hi Hl; [destruct Hl|]. simpl.
      destruct (String.eqb_spec (aidx n) (nid (index_of ns m 0))) as [E|E].
      - apply aidx_inj in E; auto; [subst; auto|apply Hi; left; auto].
      - apply IH; [intros z Hz; apply Hi; right; auto|]. destruct Hl; auto. subst. exfalso. apply E. reflexivity. }
    apply G; auto. apply incl_refl. Qed.

  (* reachability is the same *)
  Lemma anal_rpath x y : In x ns -> In y ns ->
    (rpath (succs cg) x y <-> rpath (succs (ag a0)) (aidx x) (aidx y)).
  Proof. intros Hx Hy. split.
    - clear Hx Hy. induction 1; [apply rp_refl|]. eapply rp_step; [apply IHrpath|].
      apply anal_succs. eauto.
    - intros H.
      assert (G : forall z', rpath (succs (ag a0)) (aidx x) z' -> exists z, In z ns /\ z' = aidx z /\ rpath (succs cg) x z).
      { clear H. intros z' H. remember (aidx x) as x' eqn:Ex. induction H as [|x' y' z' Hr IH Hz].
        - exists x. split; auto. split; auto. apply rp_refl.
        - destruct (IH Ex) as [y1 [Hy1 [-> Hy2]]]. apply anal_succs in Hz.
          destruct Hz as [y2 [z [H1 [H2 ->]]]]. pose proof (gwf_in cg Hcg _ _ H1) as [H4 H5].
          apply aidx_inj in H2; auto. subst y2. exists z. split; auto. split; auto.
          eapply rp_step; eauto. }
      destruct (G _ H) as [z [Hz1 [Hz2 Hz3]]]. apply aidx_inj in Hz2; auto. subst; auto. Qed.
End Anal.

(* ====================================================================== *)
(* unify_ports                                                             *)
(* ====================================================================== *)
Definition ustep (u : string) (a : agraph) (p : string) : agraph :=
  {| ag := add_edge (ag a) p u; ag_w := set (ag_w a) u (aw a u + aw a p); ag_cap := ag_cap a |}.
Lemma aw_set a u v cp g x : aw {| ag := g; ag_w := set (ag_w a) u v; ag_cap := cp |} x = if String.eqb x u then v else aw a x.
Proof. unfold aw. simpl. apply assoc_set. Qed.

Lemma ufold_spec u ports : forall b, gwf (ag b) -> In u (g_nodes (ag b)) -> incl ports (g_nodes (ag b)) ->
  ~ In u ports ->
  let r := fold_left (ustep u) ports b in
  gwf (ag r) /\ g_nodes (ag r) = g_nodes (ag b) /\
  (forall x y, In y (succs (ag r) x) <-> In y (succs (ag b) x) \/ (In x ports /\ y = u)) /\
  (forall x, x <> u -> aw r x = aw b x) /\ aw b u <= aw r u /\
  (forall p, In p ports -> aw b p <= aw r u).
Proof. induction ports as [|p ports IH]; intros b Hg Hu Hp Hnu; cbn zeta.
  - simpl. split; auto. split; auto. split; [|split; [|split]]; auto.
    + intros x y. tauto.
    + intros p [].
  - simpl. assert (Hpn : In p (g_nodes (ag b))) by (apply Hp; left; auto).
    assert (Hn : g_nodes (ag (ustep u b p)) = g_nodes (ag b)) by (simpl; apply add_edge_nodes_eq; auto).
    destruct (IH (ustep u b p)) as [H1 [H2 [H3 [H4 [H5 H6]]]]].
    + simpl. apply gwf_add_edge; auto.
    + rewrite Hn; auto.
    + rewrite Hn. intros z Hz. apply Hp. right; auto.
    + intros Hc. apply Hnu. right; auto.
    + assert (Hup : p <> u) by (intros ->; apply Hnu; left; auto).
      assert (Ew : forall x, aw (ustep u b p) x = if String.eqb x u then aw b u + aw b p else aw b x).
      { intros x. unfold ustep. apply aw_set. }
      split; auto. split; [congruence|]. split; [|split; [|split]].
      * intros x y. rewrite H3. simpl. rewrite add_edge_succs. split.
        -- intros [[H|[-> ->]]|[H ->]]; auto.
        -- intros [H|[[<-|H] ->]]; auto.
      * intros x Hx. rewrite H4, Ew by auto. destruct (String.eqb_spec x u); congruence.
      * rewrite Ew, String.eqb_refl in H5. lia.
      * intros q [<-|Hq].
        -- rewrite Ew, String.eqb_refl in H5. lia.
        -- specialize (H6 q Hq). rewrite Ew in H6. destruct (String.eqb_spec q u); [|auto].
           subst. exfalso. apply Hnu. right; auto. Qed.

Lemma unify_spec a ports : gwf (ag a) -> incl ports (g_nodes (ag a)) ->
  let u := nid (length (g_nodes (ag a))) in
  ~ In u (g_nodes (ag a)) ->
  let r := fst (unify_ports a ports) in
  snd (unify_ports a ports) = u /\
  gwf (ag r) /\ g_nodes (ag r) = g_nodes (ag a) ++ [u] /\
  (forall x y, In y (succs (ag r) x) <-> In y (succs (ag a) x) \/ (In x ports /\ y = u)) /\
  (forall x, x <> u -> aw r x = aw a x) /\
  (forall p, In p ports -> aw a p <= aw r u).
Proof. intros Hg Hp u Hu r.
  set (b := {| ag := add_node (ag a) u; ag_w := set (ag_w a) u 0; ag_cap := ag_cap a |}).
  assert (Er : r = fold_left (ustep u) ports b) by reflexivity.
  assert (Hnb : g_nodes (ag b) = g_nodes (ag a) ++ [u]).
  { simpl. unfold add_node. destruct (has_node (ag a) u) eqn:E; [apply has_node_In in E; tauto|reflexivity]. }
  assert (Hnp : ~ In u ports) by (intros Hc; apply Hu, Hp; auto).
  destruct (ufold_spec u ports b) as [H1 [H2 [H3 [H4 [H5 H6]]]]]; auto.
  - simpl. apply gwf_add_node; auto.
  - rewrite Hnb. apply in_or_app. right. left. auto.
  - rewrite Hnb. intros z Hz. apply in_or_app. left. auto.
  - rewrite <- Er in *.
    assert (Ew : forall x, aw b x = if String.eqb x u then 0 else aw a x) by (intros x; unfold b; apply aw_set).
    split; [reflexivity|]. split; auto. split; [congruence|]. split; [|split].
    + intros x y. rewrite H3. simpl. rewrite add_node_succs. tauto.
    + intros x Hx. rewrite H4, Ew by auto. destruct (String.eqb_spec x u); congruence.
    + intros p Hpp. specialize (H6 p Hpp). rewrite Ew in H6. destruct (String.eqb_spec p u); [|auto].
      subst. tauto. Qed.
