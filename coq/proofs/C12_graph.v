(* C12_graph.v -- the graph built by ProcessorDesc._post_order (model: Loader.post_order) and what its
   topological sort delivers. *)
From Coq Require Import Lia Permutation.
From PS Require Import Base Str Sim Graph Loader Diag LoaderSpec Lists C17_strord Graph_facts C12_lists.

Definition edge_step (names : list string) (nf : string) (g : graph) (p : string) : graph :=
  if mem_str p names then add_edge g nf p else g.
Definition unit_step (names : list string) (g : graph) (f : funit) : graph :=
  fold_left (edge_step names (fname f)) (f_preds f) g.
Definition build (ints : list funit) : graph :=
  fold_left (unit_step (map fname ints)) ints (fold_left add_node (map fname ints) g_empty).
Definition lookup (ints : list funit) (n : string) : list funit :=
  match find (fun f => String.eqb n (fname f)) ints with Some f => [f] | None => [] end.
Lemma post_order_unfold ints :
  post_order ints = match topo_sort (build ints) with
                    | None => None
                    | Some order => Some (flat_map (lookup ints) order)
                    end.
Proof. reflexivity. Qed.

Lemma add_edge_nodes_eq g a b : In a (g_nodes g) -> In b (g_nodes g) -> g_nodes (add_edge g a b) = g_nodes g.
Proof. intros Ha Hb. unfold add_edge. rewrite (add_node_id g a Ha), (add_node_id g b Hb).
  destruct (mem_str b (succs g a)); reflexivity. Qed.

Lemma fold_add_node names : forall g, gwf g ->
  gwf (fold_left add_node names g) /\
  (forall x, In x (g_nodes (fold_left add_node names g)) <-> In x (g_nodes g) \/ In x names) /\
  (forall a, succs (fold_left add_node names g) a = succs g a).
Proof. induction names as [|n t IH]; intros g H; simpl.
  - split; auto. split; [tauto|auto].
  - destruct (IH (add_node g n) (gwf_add_node g n H)) as [A1 [A2 A3]]. split; auto. split.
    + intros x. rewrite A2, add_node_nodes. intuition congruence.
    + intros a. rewrite A3. apply add_node_succs. Qed.

Lemma fold_edge_step names nf : forall ps g, gwf g -> In nf (g_nodes g) -> incl names (g_nodes g) ->
  gwf (fold_left (edge_step names nf) ps g) /\
  g_nodes (fold_left (edge_step names nf) ps g) = g_nodes g /\
  (forall x y, In y (succs (fold_left (edge_step names nf) ps g) x) <->
               In y (succs g x) \/ (x = nf /\ In y ps /\ In y names)).
Proof. induction ps as [|p t IH]; intros g H Hnf Hnames; simpl.
  - split; auto. split; auto. intros x y. tauto.
  - assert (Hs : gwf (edge_step names nf g p) /\ g_nodes (edge_step names nf g p) = g_nodes g /\
                 forall x y, In y (succs (edge_step names nf g p) x) <->
                             In y (succs g x) \/ (x = nf /\ y = p /\ In y names)).
    { unfold edge_step. destruct (mem_str p names) eqn:E.
      - apply mem_str_In in E. split; [apply gwf_add_edge; auto|]. split.
        + apply add_edge_nodes_eq; auto.
        + intros x y. rewrite add_edge_succs. intuition (subst; auto).
      - apply mem_str_false in E. split; auto. split; auto. intros x y.
        split; auto. intros [Hy|[_ [-> Hy]]]; tauto. }
    destruct Hs as [S1 [S2 S3]].
    destruct (IH (edge_step names nf g p) S1) as [A1 [A2 A3]]; try (rewrite S2; auto).
    split; auto. split; [congruence|]. intros x y. rewrite A3, S3. intuition (subst; auto). Qed.

Lemma fold_unit_step names : forall fs g, gwf g -> incl (map fname fs) (g_nodes g) -> incl names (g_nodes g) ->
  gwf (fold_left (unit_step names) fs g) /\
  g_nodes (fold_left (unit_step names) fs g) = g_nodes g /\
  (forall x y, In y (succs (fold_left (unit_step names) fs g) x) <->
               In y (succs g x) \/ exists f, In f fs /\ x = fname f /\ In y (f_preds f) /\ In y names).
Proof. induction fs as [|f t IH]; intros g H Hfs Hnames; simpl.
  - split; auto. split; auto. intros x y. split; auto. intros [Hy|[f [[] _]]]; auto.
  - destruct (fold_edge_step names (fname f) (f_preds f) g H) as [S1 [S2 S3]]; auto.
    { apply Hfs. left; auto. }
    fold (unit_step names g f) in S1, S2, S3.
    destruct (IH (unit_step names g f) S1) as [A1 [A2 A3]]; try (rewrite S2; auto).
    { intros x Hx. apply Hfs. right; auto. }
    split; auto. split; [congruence|]. intros x y. rewrite A3, S3. split.
    + intros [[Hy|[-> [Hy1 Hy2]]]|[f' [Hf1 Hf2]]]; auto.
      * right. exists f. split; [left; reflexivity|auto].
      * right. exists f'. split; [right; assumption|auto].
    + intros [Hy|[f' [[<-|Hf1] [-> [Hf2 Hf3]]]]]; auto.
      right. exists f'. auto. Qed.

Lemma build_spec ints :
  gwf (build ints) /\
  (forall x, In x (g_nodes (build ints)) <-> In x (map fname ints)) /\
  (forall x y, In y (succs (build ints) x) <->
               exists f, In f ints /\ x = fname f /\ In y (f_preds f) /\ In y (map fname ints)).
Proof. unfold build.
  destruct (fold_add_node (map fname ints) g_empty gwf_empty) as [A1 [A2 A3]].
  assert (Hn : incl (map fname ints) (g_nodes (fold_left add_node (map fname ints) g_empty))).
  { intros x Hx. apply A2. auto. }
  destruct (fold_unit_step (map fname ints) ints _ A1 Hn Hn) as [B1 [B2 B3]].
  split; auto. split.
  - intros x. rewrite B2, A2. simpl. tauto.
  - intros x y. rewrite B3, A3. unfold succs at 1. simpl. tauto. Qed.

(* ---------- the lookup of units by name ---------- *)
Lemma lookup_some ints n : In n (map fname ints) ->
  exists f, lookup ints n = [f] /\ In f ints /\ fname f = n.
Proof. unfold lookup. induction ints as [|a t IH]; simpl; [tauto|]. intros H.
  destruct (String.eqb_spec n (fname a)) as [->|Hn].
  - exists a. auto.
  - destruct IH as [f [E [Hf1 Hf2]]]; [destruct H; congruence|]. exists f. auto. Qed.
Lemma lookup_names ints order : incl order (map fname ints) ->
  map fname (flat_map (lookup ints) order) = order /\ incl (flat_map (lookup ints) order) ints.
Proof. induction order as [|n t IH]; intros Hi; simpl.
  - split; auto. intros x [].
  - destruct (lookup_some ints n) as [f [E [Hf1 Hf2]]]; [apply Hi; left; auto|].
    destruct IH as [I1 I2]; [intros x Hx; apply Hi; right; auto|].
    rewrite E. simpl. rewrite I1, Hf2. split; auto. intros x [<-|Hx]; auto. Qed.

(* ---------- what post_order delivers ---------- *)
Lemma post_order_spec ints res :
  NoDup (map fname ints) -> post_order ints = Some res ->
  Permutation res ints /\ NoDup (map fname res) /\ sink_first res [] = true.
Proof. intros Hnd. rewrite post_order_unfold.
  destruct (topo_sort (build ints)) as [order|] eqn:E; [|discriminate].
  intros Hr; inversion Hr; subst res; clear Hr.
  destruct (build_spec ints) as [Hwf [Hnodes Hedges]].
  destruct (topo_sort_some _ _ Hwf E) as [Hperm [Hond Hord]].
  assert (Hincl : incl order (map fname ints)).
  { intros x Hx. apply Hnodes. apply (Permutation_in x Hperm); auto. }
  destruct (lookup_names ints order Hincl) as [Hnames Hsub].
  set (res := flat_map (lookup ints) order) in *.
  assert (Hrnd : NoDup (map fname res)) by (rewrite Hnames; auto).
  split; [|split]; auto.
  - apply NoDup_Permutation_bis; auto.
    + eapply NoDup_map_inv; eauto.
    + rewrite <- (map_length fname res), Hnames, (Permutation_length Hperm), <- (map_length fname ints).
      apply Nat.eq_le_incl. apply Permutation_length. apply NoDup_Permutation; auto; [apply Hwf|].
      intros x. symmetry. apply Hnodes.
  - apply sink_first_intro. intros l1 f l2 El p Hp.
    assert (Hf : In f ints) by (apply Hsub; rewrite El; apply in_or_app; right; left; auto).
    assert (Eo : order = map fname l1 ++ fname f :: map fname l2).
    { rewrite <- Hnames, El, map_app. reflexivity. }
    assert (Hpre : forall q, q = fname f \/ In q (map fname l1) -> In q (map fname ints)).
    { intros q Hq. apply Hincl. rewrite Eo. apply in_or_app. destruct Hq as [->|Hq]; auto. right; left; auto. }
    assert (Hgoal : ~ (p = fname f \/ In p (map fname l1))).
    { intros Hq. assert (Hpi : In p (map fname ints)) by (apply Hpre; auto).
      assert (Hedge : In p (succs (build ints) (fname f))).
      { apply Hedges. exists f. auto. }
      destruct (topo_sort_forward _ _ _ _ Hwf E Hedge) as [Hlt _].
      assert (Hnf : ~ In (fname f) (map fname l1)).
      { rewrite Eo in Hond. apply NoDup_app_inv in Hond. destruct Hond as [_ [_ Hd]].
        intros Hc. apply (Hd _ Hc). left; auto. }
      assert (Hif : idx (fname f) order = length (map fname l1)).
      { rewrite Eo, idx_app_r; auto. simpl. rewrite String.eqb_refl. lia. }
      destruct Hq as [->|Hq]; [lia|].
      assert (idx p order < length (map fname l1)); [|lia].
      rewrite Eo, idx_app_l; auto. apply idx_lt; auto. }
    split; [tauto|]. split; [tauto|]. intros []. Qed.

(* the sort succeeds exactly when the built graph has no cycle *)
Lemma post_order_none_iff ints : post_order ints = None <-> exists x, gpath (build ints) x x.
Proof. rewrite post_order_unfold. destruct (build_spec ints) as [Hwf _].
  rewrite <- (topo_sort_none_iff _ Hwf). destruct (topo_sort (build ints)); split; congruence. Qed.
