(* Flow_loader.v -- at the call site of the flow check inside Loader.load_proc_desc the hypotheses of
   flow_check_refines (props/FlowThm.v) hold: the graph g2 left by chk_terminals is well formed and acyclic,
   every unit of it has a positive width (BadWidthError otherwise, widths untouched by clean_struct), the
   output ports passed are the units without successors, and every port of every (capability, ports) pair
   of cap_units is a unit of g2 without predecessors having the capability. *)
From Coq Require Import Lia ZArith.
From PS Require Import Base Str Sim Graph Loader Flow FlowSpec LoaderSpec Lists Graph_facts
  LD_base LD_create LD_clean LD_term LD_spec C11_locks Flow_refine.

Section Stages.
  Variables (d : desc) (s : gstate) (g : graph) (order : list string) (g1 : graph) (at1 : attrs) (g2 : graph).
  Hypothesis Hu : add_units (d_units d) {| gs_g := g_empty; gs_at := []; gs_ureg := []; gs_creg := [] |} = inl s.
  Hypothesis He : add_edges (d_edges d) (gs_ureg s) (gs_g s) = inl g.
  Hypothesis Ht : topo_sort g = Some order.
  Hypothesis Hr : rm_empty_units (clean_struct order (g, gs_at s)) = (g1, at1).
  Hypothesis Hk : chk_terminals (S (length (g_nodes g1))) g1 (in_ports_of g) (out_ports_of g) = inl g2.

  Lemma loader_created : created d g (gs_at s) (gs_creg s).
  Proof. apply create_ok; auto. Qed.

  (* the intermediate graph after clean_struct; rm_empty_units leaves the attributes alone *)
  Lemma loader_split : exists gc, clean_struct order (g, gs_at s) = (gc, at1) /\ rm_empty_units (gc, at1) = (g1, at1).
  Proof. destruct (clean_struct order (g, gs_at s)) as [gc atc] eqn:Hc.
    assert (atc = at1) by (unfold rm_empty_units in Hr; congruence). subst atc. exists gc. auto. Qed.

  Lemma loader_g2_gwf : gwf g2.
  Proof. destruct loader_split as [gc [Hc Hr']].
    exact (br_g2_wf d g (gs_at s) (gs_creg s) loader_created order gc at1 g1 Ht Hc Hr' g2 Hk). Qed.

  Lemma loader_g2_acyclic : acyclic g2.
  Proof. destruct loader_split as [gc [Hc Hr']].
    exact (br_g2_acyclic d g (gs_at s) (gs_creg s) loader_created order gc at1 g1 Ht Hc Hr' g2 Hk). Qed.

  Lemma loader_g2_dag : is_dag g2 = true.
  Proof. apply is_dag_acyclic; [apply loader_g2_gwf|apply loader_g2_acyclic]. Qed.

  Lemma loader_widths_pos : forall n, In n (g_nodes g2) -> 0 < a_width (attr_of at1 n).
  Proof. intros n Hn. destruct loader_split as [gc [Hc Hr']]. pose proof loader_created as C.
    apply (br_g2_sub d g (gs_at s) (gs_creg s) C order gc at1 g1 Ht Hc Hr' g2 Hk) in Hn.
    rewrite (cr_nodes _ _ _ _ C) in Hn. unfold d_names in Hn. apply in_map_iff in Hn.
    destruct Hn as [u [<- Hin]].
    destruct (br_attr1_unit d g (gs_at s) (gs_creg s) C order gc at1 Ht Hc u Hin) as [W _].
    rewrite W. pose proof (cr_width _ _ _ _ C u Hin). lia. Qed.

  Lemma loader_outs_eq : out_ports_of g2 = filter (fun n => out_degree g2 n =? 0) (g_nodes g2).
  Proof. reflexivity. Qed.

  Lemma loader_ins_ok cap ins : In (cap, ins) (cap_units g2 at1) ->
    forall p, In p ins -> In p (g_nodes g2) /\ in_degree g2 p = 0 /\ has_cap at1 cap p = true.
  Proof. intros Hi p Hp. destruct (cap_units_spec g2 at1) as [_ [U2 _]].
    apply (U2 cap ins Hi) in Hp. destruct Hp as [P1 P2]. unfold in_ports_of in P1.
    apply filter_In in P1. destruct P1 as [P1 P3]. apply Nat.eqb_eq in P3.
    split; auto. split; auto. unfold has_cap. apply mem_str_In. auto. Qed.
End Stages.

Lemma flow_check_refines_in_loader_lemma :
  forall d s g order g1 at1 g2,
    add_units (d_units d) {| gs_g := g_empty; gs_at := []; gs_ureg := []; gs_creg := [] |} = inl s ->
    add_edges (d_edges d) (gs_ureg s) (gs_g s) = inl g ->
    topo_sort g = Some order ->
    rm_empty_units (clean_struct order (g, gs_at s)) = (g1, at1) ->
    chk_terminals (S (length (g_nodes g1))) g1 (in_ports_of g) (out_ports_of g) = inl g2 ->
    1 < length (g_nodes g2) ->
    forall cap ins, In (cap, ins) (cap_units g2 at1) ->
      chk_flow_detailed g2 at1 cap (out_ports_of g2) ins
      = flow_abs (chk_flow g2 at1 cap (out_ports_of g2) ins).
Proof. intros d s g order g1 at1 g2 Hu He Ht Hr Hk Hlen cap ins Hi.
  apply flow_check_refines_lemma.
  - exact (loader_g2_gwf d s g order g1 at1 g2 Hu He Ht Hr Hk).
  - exact (loader_g2_dag d s g order g1 at1 g2 Hu He Ht Hr Hk).
  - exact Hlen.
  - exact (loader_widths_pos d s g order g1 at1 g2 Hu He Ht Hr Hk).
  - apply loader_outs_eq.
  - exact (loader_ins_ok at1 g2 cap ins Hi). Qed.
