(* Flow_refine_str.v -- nat_to_str (hence Flow.nid) is injective; index_of on duplicate-free lists. *)
From Coq Require Import Lia Ascii.
From PS Require Import Base Str Sim Graph Loader Flow Lists Graph_facts.

(* ---------- a parser inverting nat_to_str ---------- *)
Fixpoint sval (s : string) (a : nat) : nat :=
  match s with
  | EmptyString => a
  | String c t => sval t (10 * a + (nat_of_ascii c - 48))
  end.
Lemma sval_app (x y : string) : forall a, sval (x ++ y) a = sval y (sval x a).
Proof. induction x as [|c x IH]; intros a; simpl; auto. Qed.
Lemma digit_val k : k < 10 -> nat_of_ascii (digit k) - 48 = k.
Proof. intros H. unfold digit. rewrite nat_ascii_embedding by lia. lia. Qed.

Lemma nat_to_str_aux_shape fuel : forall n acc, n < fuel ->
  exists x, nat_to_str_aux fuel n acc = (x ++ acc)%string /\ sval x 0 = n.
Proof. induction fuel as [|f IH]; intros n acc Hn; [lia|].
  cbn [nat_to_str_aux].
  assert (Hm : n mod 10 < 10) by (apply Nat.mod_upper_bound; discriminate).
  pose proof (Nat.div_mod n 10 ltac:(discriminate)) as Hd.
  destruct (Nat.eqb_spec (n / 10) 0) as [E|E].
  - exists (String (digit (n mod 10)) EmptyString). split; [reflexivity|].
    cbn [sval]. rewrite digit_val by auto. lia.
  - destruct (IH (n / 10) (String (digit (n mod 10)) acc)) as [x [Hx1 Hx2]].
    { assert (n / 10 < n) by (apply Nat.div_lt; lia). lia. }
    exists (x ++ String (digit (n mod 10)) EmptyString)%string. split.
    + rewrite Hx1. generalize (digit (n mod 10)). clear. intros d. induction x; cbn [append]; congruence.
    + rewrite sval_app, Hx2. cbn [sval]. rewrite digit_val by auto. lia. Qed.

Lemma sval_nat_to_str n : sval (nat_to_str n) 0 = n.
Proof. unfold nat_to_str. destruct (nat_to_str_aux_shape (S n) n EmptyString) as [x [H1 H2]]; [lia|].
  rewrite H1. rewrite sval_app. simpl. auto. Qed.
Lemma nat_to_str_inj a b : nat_to_str a = nat_to_str b -> a = b.
Proof. intros H. rewrite <- (sval_nat_to_str a), <- (sval_nat_to_str b), H. reflexivity. Qed.
Lemma nid_inj a b : nid a = nid b -> a = b.
Proof. apply nat_to_str_inj. Qed.

(* ---------- index_of ---------- *)
Lemma index_of_ge l n : forall i, i <= index_of l n i.
Proof. induction l as [|x t IH]; intros i; simpl; [lia|].
  destruct (String.eqb x n); [lia|]. specialize (IH (S i)). lia. Qed.
Lemma index_of_in l n : forall i, In n l -> index_of l n i < i + length l.
Proof. induction l as [|x t IH]; intros i H; simpl in *; [tauto|].
  destruct (String.eqb_spec x n) as [->|Hn]; [lia|].
  destruct H as [H|H]; [congruence|]. specialize (IH (S i) H). lia. Qed.
Lemma index_of_nth l n : forall i, In n l -> nth_error l (index_of l n i - i) = Some n.
Proof. induction l as [|x t IH]; intros i H; simpl in *; [tauto|].
  destruct (String.eqb_spec x n) as [->|Hn].
  - rewrite Nat.sub_diag. reflexivity.
  - destruct H as [H|H]; [congruence|].
    pose proof (index_of_ge t n (S i)).
    replace (index_of t n (S i) - i) with (S (index_of t n (S i) - S i)) by lia.
    simpl. apply IH; auto. Qed.
Lemma index_of_inj l a b : In a l -> In b l -> index_of l a 0 = index_of l b 0 -> a = b.
Proof. intros Ha Hb H. pose proof (index_of_nth l a 0 Ha) as H1. pose proof (index_of_nth l b 0 Hb) as H2.
  rewrite H in H1. congruence. Qed.
Lemma index_of_lt l n : In n l -> index_of l n 0 < length l.
Proof. intros H. apply (index_of_in l n 0 H). Qed.
