(* Readings2_c08.v -- "a stall error means genuine deadlock": the analysis of the last, unsuccessful
   cycle of a stalled run.  The record it computed equals the last recorded one as a bag, hence nothing
   moved, nothing was flushed, nothing was issued and the memory port stayed free; the per-cycle
   lemmas of C07 (advance), of the hazards development (HZ_inv / C02) and the issue phase then read
   off the three clauses. *)
From Coq Require Import Lia Permutation.
From PS Require Import Base Bag RegAccess Sim Diag Lists Run Readings_defs.
From PS Require Import C03_lists C03_step C03_inv.
From PS Require Import HZ_queue HZ_plan HZ_diag HZ_haz HZ_inv C02_proof Readings_c02.
From PS Require Import C07_lists C07_walk C07_step C07_parts C07_cycle C07_proof.
From PS Require Import C17_proof C08_recon Readings2_c08a.

(* ---------- the issue phase ---------- *)
Lemma fill_inputs_mono prog ports : forall fuel r mu e r2 e2,
  fill_inputs fuel prog ports r mu e = (r2, e2) -> forall k i, loc r i k -> loc r2 i k.
Proof. induction fuel as [|f IH]; intros r mu e r2 e2 H k i Hl; cbn [fill_inputs] in H.
  - inversion H; subst; auto.
  - destruct (nth_error prog e) as [ins|]; [|inversion H; subst; auto].
    destruct (try_ports (i_cat ins) ports r mu e) as [[r' m']|] eqn:Et; [|inversion H; subst; auto].
    destruct (try_ports_inv _ _ _ _ _ _ _ Et) as [u [_ ->]].
    eapply IH; [exact H|]. apply loc_add. left; auto. Qed.

Lemma try_ports_refused cat ix : forall ports r mu, try_ports cat ports r mu ix = None ->
  forall w, In w ports -> mem_str cat (u_caps w) = true ->
    (mu = true /\ mem_str cat (u_mem w) = true) \/ length (get r (u_name w)) = u_width w.
Proof. induction ports as [|u t IH]; intros r mu H w Hw Hc; simpl in H; [destruct Hw|].
  destruct (mem_str cat (u_caps u)) eqn:Ec.
  - destruct ((mu && mem_str cat (u_mem u)) || (length (get r (u_name u)) =? u_width u)) eqn:Es; [|discriminate].
    destruct Hw as [<-|Hw]; [|eapply IH; eauto].
    apply orb_true_iff in Es. destruct Es as [Es|Es].
    + apply andb_true_iff in Es. left; auto.
    + apply Nat.eqb_eq in Es. right; auto.
  - destruct Hw as [<-|Hw]; [congruence|eapply IH; eauto]. Qed.

(* ---------- the stalled cycle ---------- *)
Section Stalled.
Variables (P : proc) (prog : list instr).
Hypothesis Hwf : wf_procb P = true.
Hypothesis Hwp : wf_progb prog = true.
Variable s : state.
Hypothesis Hr : reach P prog s.
Variables (r1 r2 r3 : record) (busy : bool) (ent : nat) (cl : list (string * nat)).
Local Notation old := (last (tbl s) []).
Hypothesis E1 : mov_flights P prog old = (r1, busy).
Hypothesis E2 : fill_inputs (S (length prog)) prog (in_ports_sorted P) r1 busy (entered s) = (r2, ent).
Hypothesis E3 : chk_hazards_units P old prog (qs_ s) r2 [] = Ok (r3, cl).
Hypothesis Eb : bag_eqb r3 old = true.

Lemma Hinv : ukeys old /\ U old /\ FR old (entered s).
Proof. exact (reach_RInv P prog s Hwf Hr). Qed.

Lemma Hinv3 : ukeys r3 /\ U r3 /\ FR r3 ent.
Proof. destruct Hinv as (K & HU & HF). exact (cyc_inv P prog Hwf _ HU K _ HF _ _ _ _ _ _ _ E1 E2 E3). Qed.

(* the new record and the last one have the same entries in every unit *)
Lemma perm k : Permutation (get r3 k) (get old k).
Proof. destruct Hinv as (K & _). destruct Hinv3 as (K3 & _).
  apply (proj1 (C17_eq_iff_lemma r3 old K3 K) Eb). Qed.

Lemma loc_eq i k : loc r3 i k <-> loc old i k.
Proof. rewrite !loc_In. split; intros [l H]; exists l.
  - eapply Permutation_in; [apply perm|auto].
  - eapply Permutation_in; [apply Permutation_sym, perm|auto]. Qed.

Lemma len_eq k : length (get r3 k) = length (get old k).
Proof. apply Permutation_length, perm. Qed.

(* the memory port was not taken *)
Lemma nobusy : busy = false.
Proof. apply not_true_is_false. intros Hb. destruct Hinv as (K & HU & HF).
  destruct (mov_Inv P prog Hwf _ HU _ _ E1) as (_ & _ & _ & HG). cbn [fst snd] in HG.
  destruct (HG Hb) as (k & j & _ & Hj1 & Hjo & _). apply Hjo. apply loc_eq.
  exact (r1_r3 P prog Hwf _ HU _ HF _ _ _ _ _ _ _ E1 E2 E3 j k Hj1). Qed.

(* nothing was issued *)
Lemma fill_stuck ins : nth_error prog (entered s) = Some ins ->
  try_ports (i_cat ins) (in_ports_sorted P) r1 busy (entered s) = None.
Proof. intros Hn. destruct (try_ports (i_cat ins) (in_ports_sorted P) r1 busy (entered s)) as [[r' m']|] eqn:Et; auto.
  exfalso. pose proof E2 as E2'. cbn [fill_inputs] in E2'. rewrite Hn, Et in E2'.
  destruct (try_ports_inv _ _ _ _ _ _ _ Et) as [u [_ Hr']].
  assert (Hl' : loc r' (entered s) (u_name u)) by (rewrite Hr'; apply loc_add; right; auto).
  pose proof (fill_inputs_mono _ _ _ _ _ _ _ _ E2' _ _ Hl') as Hl2.
  apply (loc_r3 P prog _ _ _ _ _ E3) in Hl2. apply loc_eq in Hl2.
  destruct Hinv as (_ & _ & HF). apply HF in Hl2. lia. Qed.

(* ---------- clause 1, 'D' entries: still refused ---------- *)
Lemma stalled_D u i : In (i, LD) (get old u) -> outstanding P prog (tbl s) (length (tbl s)) i u.
Proof. intros Hin.
  destruct (inv_reach P prog Hwf Hwp s Hr) as ((HC & Hle) & HQ & HH).
  assert (Hin3 : In (i, LD) (get r3 u)) by (eapply Permutation_in; [apply Permutation_sym, perm|auto]).
  destruct (c_lab P prog (tbl s) (qs_ s) r2 r3 cl E3 u i LD Hin3) as (uu & Hf & Hlab).
  assert (Hl : regs_loaded (get old u) i = false).
  { destruct (regs_loaded (get old u) i) eqn:E; auto. apply regs_loaded_iff in E. destruct E as (l & Hl1 & Hl2).
    exfalso. apply Hl2. destruct Hinv as (_ & HU & _). eapply U_label; eauto. }
  destruct Hlab as [[Hl' _]|[_ (ins & Hn & Hs)]]; cbn [fst snd] in *; [congruence|].
  destruct Hs as [[Hs _]|(regs & _ & Hs)]; [|discriminate].
  pose proof (c_arr P prog Hwf (tbl s) (qs_ s) (entered s) r1 r2 r3 busy ent cl HC Hle HH E1 E2 E3 u i LD Hin3 Hl) as Harr.
  destruct (arr_facts P prog (tbl s) u i Harr) as (A1 & A2 & _).
  rewrite (has_rl_find P u uu Hf) in A1. rewrite (has_wl_find P u uu Hf) in A2.
  pose proof (regs_avail_eval P prog Hwp (qs_ s) (tbl s) uu i ins HQ Hn A1 A2) as Hev.
  pose proof (blocked_eq P prog (tbl s) (length (tbl s)) i u uu ins (le_n _) Hf Hn) as Hb.
  rewrite firstn_all in Hb. rewrite <- Hb, Hs in Hev.
  apply blocked_iff.
  - eapply Forall_impl; [|exact HC]. intros r (G & _). exact G.
  - destruct (blocked P prog (tbl s) (length (tbl s)) i u); [reflexivity|discriminate]. Qed.

(* ---------- clause 1, other entries: not at the output boundary, all supporting successors full ---------- *)
Lemma stalled_S u i l : In (i, l) (get old u) -> l <> LD ->
  ~ In u (out_names P) /\
  forall s', In s' (succs_of P u) -> supports P s' (cat_of prog i) = true ->
             width_of P s' <= length (get old s').
Proof. intros Hin Hl. destruct Hinv as (K & HU & HF).
  assert (Hl3 : loc r3 i u) by (apply loc_eq; apply loc_In; eauto).
  split.
  - intros Ho. exact (cyc_out P prog Hwf _ HU _ HF _ _ _ _ _ _ _ E1 E2 E3 u i l Hin Hl Ho Hl3).
  - intros s' Hs' Hsup.
    destruct (cyc_succ P prog Hwf _ HU K _ HF _ _ _ _ _ _ _ E1 E2 E3 u i l s' Hin Hl Hl3 Hs' Hsup)
      as [[HA|(_ & j & k & _ & Hj3 & Hjo & _)] _].
    + rewrite <- len_eq. exact HA.
    + exfalso. apply Hjo. apply loc_eq. exact Hj3. Qed.

(* ---------- clause 2: the next instruction finds every supporting input port full ---------- *)
Lemma stalled_issue ins : nth_error prog (entered s) = Some ins ->
  forall p, In p (p_in P ++ p_inout P) -> In (i_cat ins) (u_caps p) ->
            u_width p <= length (get old (u_name p)).
Proof. intros Hn p Hp Hc.
  pose proof (fill_stuck ins Hn) as Et.
  assert (Hpp : In p (in_ports_sorted P)).
  { unfold in_ports_sorted. eapply Permutation_in; [apply isort_perm|]. apply in_app_iff in Hp. apply in_or_app. tauto. }
  destruct (try_ports_refused _ _ _ _ _ Et p Hpp (proj2 (mem_str_In _ _) Hc)) as [[Hb _]|Hlen].
  - rewrite nobusy in Hb. discriminate.
  - assert (E : r2 = r1).
    { pose proof E2 as E2'. cbn [fill_inputs] in E2'. rewrite Hn, Et in E2'. inversion E2'; auto. }
    rewrite <- len_eq.
    assert (Hx : length (get r3 (u_name p)) = length (get r2 (u_name p))).
    { rewrite <- (map_length fst (get r3 _)), <- (map_length fst (get r2 _)).
      fold (ixs r3 (u_name p)). fold (ixs r2 (u_name p)).
      rewrite (hazards_ixs _ _ _ _ _ _ _ _ E3). reflexivity. }
    rewrite Hx, E, Hlen. apply le_n. Qed.
End Stalled.

Lemma C08_stall_means_deadlock_lemma :
  forall (P : proc) (prog : list instr) (fuel : nat) (d : diagram),
    wf_procb P = true -> wf_progb prog = true -> simulate fuel P prog = Stalled d ->
    let r := last d [] in
    (forall u i l, In (i, l) (get r u) ->
       (l = LD -> outstanding P prog d (length d) i u) /\
       (l <> LD -> ~ In u (out_names P) /\
                   forall s, In s (succs_of P u) -> supports P s (cat_of prog i) = true ->
                             width_of P s <= length (get r s))) /\
    (forall ins, nth_error prog (issued_count prog d) = Some ins ->
       forall p, In p (p_in P ++ p_inout P) -> In (i_cat ins) (u_caps p) ->
                 u_width p <= length (get r (u_name p))) /\
    (issued_count prog d < length prog \/ exists u i l, In (i, l) (get r u)).
Proof. intros P prog fuel d Hwf Hwp Hsim.
  destruct (simulate_stalled _ _ _ _ Hsim) as (s & Hr & <- & Hc & Hrun).
  destruct (run_cycle_stalled_inv _ _ _ _ Hrun) as (_ & r1 & busy & r2 & ent & r3 & cl & qs' & E1 & E2 & E3 & _ & Eb).
  cbv zeta. rewrite (issued_entered P prog Hwf s Hr). split; [|split].
  - intros u i l Hin. split.
    + intros ->. exact (stalled_D P prog Hwf Hwp s Hr r1 r2 r3 busy ent cl E1 E2 E3 Eb u i Hin).
    + intros Hl. exact (stalled_S P prog Hwf s Hr r1 r2 r3 busy ent cl E1 E2 E3 Eb u i l Hin Hl).
  - intros ins Hn. exact (stalled_issue P prog Hwf s Hr r1 r2 r3 busy ent cl E1 E2 E3 Eb ins Hn).
  - unfold loop_cond in Hc. apply orb_true_iff in Hc. destruct Hc as [Hc|Hc].
    + left. apply Nat.ltb_lt; auto.
    + right. apply (in_flight P Hwf prog s Hr). apply Nat.ltb_lt; auto.
Qed.
