(* Exact2_c06_counterexample -- the two side conditions of C06_checker_exact_lemma cannot be dropped:
   A. without one_place (diagram_shape holds): the checker accepts, C06_prop is false  (checker -> statement);
   B. without duplicate-free unit keys (one_place holds): C06_prop is true, the checker rejects
      (statement -> checker);
   C. without duplicate-free unit keys (one_place holds): the checker accepts, C06_prop is false
      (checker -> statement).
   (The other half of diagram_shape -- a unit's list shows an instruction at most once --, NoDup (in_names P)
   and "only program instructions are shown" are NOT needed: see C06_checker_sound_keys /
   C06_checker_complete_keys in Exact2_c06.v, which do not assume them.) *)
From Coq Require Import Lia String List.
From PS Require Import Base Bag RegAccess Sim Diag Readings_defs Readings4_defs Exact_defs Exact2_defs Exact2_c06.
Import ListNotations.
Open Scope string_scope.

(* one input port "a" (width 1), one output unit "b" fed by "a"; both support "alu"; no memory use *)
Definition xa : unit := {| u_name := "a"; u_width := 1; u_caps := ["alu"]; u_rl := true; u_wl := false; u_mem := [] |}.
Definition xb : unit := {| u_name := "b"; u_width := 1; u_caps := ["alu"]; u_rl := false; u_wl := true; u_mem := [] |}.
Definition xP : proc := {| p_in := [xa]; p_out := [{| f_model := xb; f_preds := ["a"] |}]; p_inout := []; p_int := [] |}.
Definition xI : instr := {| i_srcs := []; i_dst := "r"; i_cat := "alu" |}.

(* the processor is even well-formed in the sense of the simulator guard *)
Lemma xP_wf : wf_procb xP = true.
Proof. vm_compute. reflexivity. Qed.

(* ---------- A: instruction 0 shown in two units in its issue cycle ---------- *)
Definition dA : diagram := [[("a", [(0, LU)]); ("b", [(0, LU)])]].

Lemma A_shape : diagram_shape dA.
Proof. intros r [<-|[]]. split.
  - cbn. repeat constructor; cbn; intuition discriminate.
  - intros u es [H|[H|[]]]; inversion H; subst; cbn; repeat constructor; cbn; tauto. Qed.

Lemma A_checker_accepts : C06_checkb xP [xI] dA = true.
Proof. vm_compute. reflexivity. Qed.

Lemma A_prop_false : ~ C06_prop xP [xI] dA.
Proof. intros H. destruct (H 0 ltac:(cbn; lia)) as (_ & _ & C3 & _).
  assert (Hiss : issued_at dA 0 0).
  { split; [|intros; lia]. exists "a", LU. vm_compute. auto. }
  assert (Hsh : shown dA 0 0 "b") by (exists LU; vm_compute; auto).
  destruct (C3 0 "b" Hiss Hsh) as (Hin & _). vm_compute in Hin. destruct Hin as [Hin|[]]. discriminate. Qed.

Lemma A_not_one_place : ~ one_place dA.
Proof. intros H. assert (E : "a" = "b"); [|discriminate].
  apply (H 0 0); exists LU; vm_compute; auto. Qed.

(* ---------- B: a record with the key "b" twice; the second binding is invisible to `occ` ---------- *)
Definition dB : diagram := [[("b", []); ("b", [(1, LU)]); ("a", [(0, LU)])]].

Lemma B_shown t i u : shown dB t i u -> t = 0 /\ i = 0 /\ u = "a".
Proof. intros [l H]. destruct t as [|[|t]]; [|vm_compute in H; contradiction|vm_compute in H; contradiction].
  unfold occ, rec_at, dB in H. cbn [nth get] in H.
  destruct (String.eqb u "b") eqn:E1; [destruct H|].
  destruct (String.eqb_spec u "a") as [E2|E2]; [|destruct H].
  destruct H as [H|[]]. inversion H. auto. Qed.

Lemma B_one_place : one_place dB.
Proof. intros t i u v H1 H2. apply B_shown in H1. apply B_shown in H2. destruct H1 as (_ & _ & ->).
  destruct H2 as (_ & _ & ->). reflexivity. Qed.

Lemma B_issued : issued_at dB 0 0.
Proof. split; [|intros; lia]. exists "a", LU. vm_compute. auto. Qed.

Lemma B_prop_true : C06_prop xP [xI; xI] dB.
Proof. intros i Hi. split; [|split; [|split]].
  - intros t u Hs. destruct (B_shown _ _ _ Hs) as (-> & -> & ->). exists 0. split; auto. apply B_issued.
  - intros t0 k [[u Hs] _] Hk. destruct (B_shown _ _ _ Hs) as (_ & -> & _). lia.
  - intros t0 q _ Hs. destruct (B_shown _ _ _ Hs) as (-> & -> & ->). split; [vm_compute; auto|].
    split; [vm_compute; reflexivity|]. intros u Hu _ Hlt. vm_compute in Hu. destruct Hu as [<-|[]].
    vm_compute in Hlt. discriminate.
  - intros s t _ _ Ht _ u Hu _. cbn in Ht. assert (t = 0) by lia. subst t.
    vm_compute in Hu. destruct Hu as [<-|[]]. left. vm_compute. lia. Qed.

Lemma B_checker_rejects : C06_checkb xP [xI; xI] dB = false.
Proof. vm_compute. reflexivity. Qed.

(* ---------- C: the key "a" twice; the checker sees instruction 0 issued, `occ` does not ---------- *)
Definition dC : diagram := [[("a", []); ("a", [(0, LU)])]].

Lemma C_not_shown t i u : ~ shown dC t i u.
Proof. intros [l H]. destruct t as [|[|t]]; [|vm_compute in H; contradiction|vm_compute in H; contradiction].
  unfold occ, rec_at, dC in H. cbn [nth get] in H.
  destruct (String.eqb u "a") eqn:E1; destruct H. Qed.

Lemma C_one_place : one_place dC.
Proof. intros t i u v H1 _. destruct (C_not_shown _ _ _ H1). Qed.

Lemma C_checker_accepts : C06_checkb xP [xI] dC = true.
Proof. vm_compute. reflexivity. Qed.

Lemma C_prop_false : ~ C06_prop xP [xI] dC.
Proof. intros H. destruct (H 0 ltac:(cbn; lia)) as (_ & _ & _ & C4).
  assert (Hn : next_from dC 0 0) by reflexivity.
  assert (Hin : In "a" (in_names xP)) by (vm_compute; auto).
  assert (Hsup : supports xP "a" (cat_of [xI] 0) = true) by (vm_compute; reflexivity).
  destruct (C4 0 0 Hn (le_n 0) ltac:(cbn; lia) (fun t' u _ => C_not_shown t' 0 u) "a" Hin Hsup) as [Hw|[Hm _]].
  - vm_compute in Hw. lia.
  - vm_compute in Hm. discriminate. Qed.

Print Assumptions A_prop_false.
Print Assumptions B_prop_true.
Print Assumptions C_prop_false.
