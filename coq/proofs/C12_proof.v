(* C12_proof.v -- the four lemmas closing props/C12.v. *)
From Coq Require Import Lia Permutation.
From PS Require Import Base Str Sim Graph Loader Diag LoaderSpec Lists C17_strord Graph_facts
  C12_lists C12_graph C12_desc C12_loader.

Definition C12_post_order_lemma := C12_desc.C12_post_order_lemma.
Definition C12_loaded_lemma := C12_loader.C12_loaded_lemma.

(* ---------- supply order ---------- *)
Lemma build_perm_edges ints ints' : Permutation ints ints' ->
  forall x y, In y (succs (build ints') x) -> In y (succs (build ints) x).
Proof. intros Hp x y. destruct (build_spec ints) as [_ [_ E1]]. destruct (build_spec ints') as [_ [_ E2]].
  rewrite E1, E2. intros [f [Hf1 [Hf2 [Hf3 Hf4]]]]. exists f. repeat split; auto.
  - apply (Permutation_in f (Permutation_sym Hp)); auto.
  - apply (Permutation_in y (Permutation_sym (Permutation_map fname Hp))); auto. Qed.

Lemma post_order_perm_some ints ints' res : Permutation ints ints' ->
  post_order ints = Some res -> exists res', post_order ints' = Some res'.
Proof. intros Hp Hr. destruct (post_order ints') as [res'|] eqn:E; eauto.
  apply post_order_none_iff in E. destruct E as [x Hx].
  assert (Hn : post_order ints = None).
  { apply post_order_none_iff. exists x. eapply gpath_sub; [|eauto]. apply build_perm_edges; auto. }
  congruence. Qed.

Lemma C12_supply_order_irrelevant_lemma :
  forall ins outs inouts ints outs' ints' P,
    NoDup (map (fun f => u_name (f_model f)) ints) ->
    NoDup (map (fun f => u_name (f_model f)) outs) ->
    Permutation.Permutation outs outs' -> Permutation.Permutation ints ints' ->
    make_desc ins outs inouts ints = Some P ->
    exists P', make_desc ins outs' inouts ints' = Some P' /\
               p_in P' = p_in P /\ p_out P' = p_out P /\ p_inout P' = p_inout P /\
               Permutation.Permutation (p_int P') (p_int P) /\ sink_first (p_int P') [] = true.
Proof. intros ins outs inouts ints outs' ints' P Hnd Hndo Hpo Hpi HP.
  assert (Hnd' : NoDup (map fname ints')).
  { apply (Permutation_NoDup (Permutation_map fname Hpi)). exact Hnd. }
  assert (Hex : exists P', make_desc ins outs' inouts ints' = Some P').
  { unfold make_desc in *. destruct (post_order (map norm_funit ints)) as [res|] eqn:E; [|discriminate].
    destruct (post_order_perm_some _ (map norm_funit ints') res (Permutation_map norm_funit Hpi) E) as [res' ->].
    eauto. }
  destruct Hex as [P' HP']. exists P'. split; auto.
  destruct (make_desc_spec _ _ _ _ _ Hnd HP) as [A1 [A2 [A3 [A4 [A5 A6]]]]].
  destruct (make_desc_spec _ _ _ _ _ Hnd' HP') as [B1 [B2 [B3 [B4 [B5 B6]]]]].
  split; [congruence|]. split; [|split; [congruence|split; [|auto]]].
  - rewrite A3, B3. apply (sorted_perm_eq fname).
    + apply (Permutation_NoDup (Permutation_map fname (isort_perm funit_leb _))).
      rewrite norm_names. apply (Permutation_NoDup (Permutation_map fname Hpo)). exact Hndo.
    + eapply perm_trans; [apply Permutation_sym, isort_perm|].
      eapply perm_trans; [|apply isort_perm]. apply Permutation_map, Permutation_sym; auto.
    + apply (isort_sorted fname).
    + apply (isort_sorted fname).
  - eapply perm_trans; [apply B4|]. eapply perm_trans; [|apply Permutation_sym, A4].
    apply Permutation_map, Permutation_sym; auto. Qed.

(* ---------- cycles ---------- *)
Lemma chain_nth g l : chain g l <->
  forall k a b, nth_error l k = Some a -> nth_error l (S k) = Some b -> In b (succs g a).
Proof. induction l as [|a l IH].
  - simpl. split; auto. intros _ k a b H. destruct k; discriminate.
  - destruct l as [|b t].
    + simpl. split; auto. intros _ k x y _ H. destruct k; discriminate.
    + change (chain g (a :: b :: t)) with (In b (succs g a) /\ chain g (b :: t)). rewrite IH. split.
      * intros [H1 H2] k x y Hx Hy. destruct k as [|k].
        -- simpl in Hx, Hy. inversion Hx; inversion Hy; subst; auto.
        -- apply (H2 k); auto.
      * intros H. split.
        -- apply (H 0); reflexivity.
        -- intros k x y Hx Hy. apply (H (S k)); auto. Qed.

Lemma make_desc_none ins outs inouts ints :
  make_desc ins outs inouts ints = None <-> post_order (map norm_funit ints) = None.
Proof. unfold make_desc. destruct (post_order (map norm_funit ints)); split; congruence. Qed.

Lemma norm_edge ints a b :
  In b (succs (build (map norm_funit ints)) a) <->
  exists g, In g ints /\ fname g = a /\ In b (f_preds g) /\ In b (map fname ints).
Proof. destruct (build_spec (map norm_funit ints)) as [_ [_ E]]. rewrite E, norm_names. split.
  - intros [f [Hf1 [Hf2 [Hf3 Hf4]]]]. apply in_map_iff in Hf1. destruct Hf1 as [g [<- Hg]].
    exists g. simpl in Hf3. rewrite sort_str_In in Hf3. auto.
  - intros [g [Hg1 [Hg2 [Hg3 Hg4]]]]. exists (norm_funit g). split; [apply in_map; auto|].
    split; [auto|]. split; auto. simpl. rewrite sort_str_In. auto. Qed.

Lemma C12_cyclic_iff_lemma :
  forall ins outs inouts ints,
    NoDup (map (fun f => u_name (f_model f)) ints) ->
    (make_desc ins outs inouts ints = None <->
     exists f path, In f ints /\ path <> [] /\
       hd_error path = Some (u_name (f_model f)) /\ last path EmptyString = u_name (f_model f) /\ 2 <= length path /\
       forall k a b, nth_error path k = Some a -> nth_error path (S k) = Some b ->
                     exists g, In g ints /\ u_name (f_model g) = a /\ In b (f_preds g) /\
                               In b (map (fun f => u_name (f_model f)) ints)).
Proof. intros ins outs inouts ints _. rewrite make_desc_none, post_order_none_iff. split.
  - intros [x Hx]. destruct (build_spec (map norm_funit ints)) as [Hwf [Hnodes _]].
    assert (Hxn : In x (map fname ints)).
    { rewrite <- norm_names. apply Hnodes. apply (gpath_nodes _ _ _ Hwf Hx). }
    apply in_map_iff in Hxn. destruct Hxn as [f [Hf1 Hf2]].
    apply gpath_chain in Hx. destruct Hx as [l Hl].
    exists f, (x :: l ++ [x]). split; auto. split; [discriminate|]. split; [simpl; rewrite <- Hf1; reflexivity|].
    split; [|split].
    + rewrite app_comm_cons, last_last. symmetry. exact Hf1.
    + simpl. rewrite app_length. simpl. lia.
    + intros k a b Ha Hb. apply (norm_edge ints a b). apply (proj1 (chain_nth _ _) Hl k); auto.
  - intros [f [path [Hf [_ [Hhd [Hlast [Hlen Hedges]]]]]]].
    destruct path as [|a rest]; [discriminate|]. simpl in Hhd. inversion Hhd; subst a.
    destruct rest as [|r0 rest0] using rev_ind; [simpl in Hlen; lia|]. clear IHrest0.
    rewrite app_comm_cons, last_last in Hlast.
    subst r0. exists (fname f). apply (chain_gpath _ _ rest0).
    apply chain_nth. intros k a b Ha Hb. apply (norm_edge ints a b). apply (Hedges k); auto. Qed.
