(* C16_proof.v -- the command-line table renders the diagram faithfully (model/Cli.v). *)
From Coq Require Import String Ascii List Lia Bool Arith.
From PS Require Import Base Bag RegAccess Sim Cli Diag TextSpec Lists.
From PS Require Import C03_inv C03_track C03_proof.
From PS Require Export C16_text.

(* ---------- generic list facts ---------- *)
Lemma flat_map_map {A B C} (f : B -> list C) (g : A -> B) l :
  flat_map f (map g l) = flat_map (fun x => f (g x)) l.
Proof. induction l as [|x l IH]; simpl; auto. rewrite IH. reflexivity. Qed.

Lemma flat_map_filter_map {A B} (F : A -> list B) (p : A -> bool) (h : A -> B) l :
  (forall x, In x l -> F x = if p x then [h x] else []) -> flat_map F l = map h (filter p l).
Proof.
  induction l as [|x l IH]; intros H; simpl; auto.
  rewrite (H x) by (left; auto). rewrite IH by (intros y Hy; apply H; right; auto).
  destruct (p x); reflexivity.
Qed.

Lemma combine_seq {A} (dfl : A) (d : list A) : forall a,
  combine (seq a (length d)) d = map (fun t => (t, nth (t - a) d dfl)) (seq a (length d)).
Proof.
  induction d as [|x d IH]; intros a; [reflexivity|].
  cbn [length seq combine map]. rewrite Nat.sub_diag. cbn [nth]. f_equal.
  rewrite IH. apply map_ext_in. intros t Ht. apply in_seq in Ht.
  replace (t - a) with (S (t - S a)) by lia. reflexivity.
Qed.

Lemma contiguous_seq l : contiguous l = true -> l = seq (hd 0 l) (length l).
Proof.
  induction l as [|a l IH]; intros H; [reflexivity|].
  destruct l as [|b l].
  - reflexivity.
  - cbn [contiguous] in H. apply andb_true_iff in H. destruct H as [H1 H2].
    apply Nat.eqb_eq in H1. specialize (IH H2). cbn [hd] in IH. subst b.
    cbn [hd length seq]. f_equal. exact IH.
Qed.

Lemma fold_min_le l : forall a, (forall x, In x l -> a <= x) -> fold_left Nat.min l a = a.
Proof.
  induction l as [|x l IH]; intros a H; simpl; auto.
  rewrite Nat.min_l by (apply H; left; auto). apply IH. intros y Hy. apply H. right; auto.
Qed.

Lemma find_tagged (g : nat -> string) L t : In t L ->
  find (fun p : nat * string => fst p =? t) (map (fun t => (t, g t)) L) = Some (t, g t).
Proof.
  induction L as [|x L IH]; intros H; [destruct H|].
  cbn [map find fst]. destruct (Nat.eqb_spec x t) as [->|Hne]; auto.
  apply IH. destruct H; [congruence|auto].
Qed.

Lemma lookup_all_tagged (g : nat -> string) L ts : incl ts L ->
  lookup_all (map (fun t => (t, g t)) L) ts = Some (map g ts).
Proof.
  induction ts as [|t ts IH]; intros H; [reflexivity|].
  cbn [lookup_all]. rewrite find_tagged by (apply H; left; auto).
  rewrite IH by (intros y Hy; apply H; right; auto). reflexivity.
Qed.

(* ---------- positions in terms of places ---------- *)
Definition txt (pl : string * label) : string := (show_lab (snd pl) ++ ":" ++ fst pl)%string.

Lemma cells_places (r : record) i :
  flat_map (fun kv : string * list entry =>
              map (fun e : entry => (show_lab (snd e) ++ ":" ++ fst kv)%string)
                  (filter (fun e => fst e =? i) (snd kv))) (bag_items r)
  = map txt (places r i).
Proof.
  unfold bag_items, places. induction r as [|[k v] r IH]; [reflexivity|].
  cbn [filter flat_map]. rewrite map_app, <- IH.
  unfold nonempty at 1. cbn [snd fst]. destruct v as [|e v].
  - reflexivity.
  - cbn [flat_map fst snd]. f_equal. rewrite map_map. reflexivity.
Qed.

Definition placed (d : diagram) (i t : nat) : bool := nonemptyb (places (rec_at d t) i).
Definition cycles (d : diagram) (i : nat) : list nat := filter (placed d i) (seq 0 (length d)).

Lemma txt_nonempty p : txt p <> EmptyString.
Proof. destruct p as [u []]; discriminate. Qed.

Lemma positions_eq d i :
  (forall t, t < length d -> length (places (rec_at d t) i) <= 1) ->
  positions d i = map (fun t => (t, cell_text d t i)) (cycles d i).
Proof.
  intros Hu. unfold positions, cycles.
  rewrite (combine_seq (A:=record) [] d 0), flat_map_map.
  apply flat_map_filter_map. intros t Ht. apply in_seq in Ht.
  replace (t - 0) with t by lia. fold (rec_at d t).
  rewrite cells_places. unfold placed, cell_text, place_at.
  specialize (Hu t ltac:(lia)).
  destruct (places (rec_at d t) i) as [|[u l] [|q ps]]; cbn [map nonemptyb hd_error last].
  - reflexivity.
  - reflexivity.
  - cbn [length] in Hu. lia.
Qed.

Lemma track_cycles d i :
  (forall t, t < length d -> length (places (rec_at d t) i) <= 1) ->
  map fst (track d i) = cycles d i.
Proof.
  intros Hu. unfold track, cycles.
  rewrite (flat_map_filter_map _ (placed d i)
             (fun t => (t, hd (EmptyString, LD) (places (rec_at d t) i)))).
  - rewrite map_map. cbn [fst]. apply map_id.
  - intros t Ht. apply in_seq in Ht. unfold placed. specialize (Hu t ltac:(lia)).
    destruct (places (rec_at d t) i) as [|p [|q ps]]; cbn [map nonemptyb hd]; auto.
    cbn [length] in Hu. lia.
Qed.

Lemma cell_unplaced d i t : placed d i t = false -> cell_text d t i = EmptyString.
Proof.
  unfold placed, cell_text, place_at. destruct (places (rec_at d t) i); [reflexivity|discriminate].
Qed.
Lemma cell_placed d i t : placed d i t = true -> cell_text d t i <> EmptyString.
Proof.
  unfold placed, cell_text, place_at. destruct (places (rec_at d t) i) as [|[u l] ps]; [discriminate|].
  intros _. cbn [hd_error]. apply (txt_nonempty (u, l)).
Qed.
Lemma placed_beyond d i t : length d <= t -> placed d i t = false.
Proof. intros H. unfold placed, rec_at. rewrite nth_overflow by exact H. reflexivity. Qed.

(* ---------- one row ---------- *)
Lemma flight_row_seq d i a n (g : nat -> string) :
  positions d i = map (fun t => (t, g t)) (seq a (S n)) ->
  flight_row d i = Some (repeat EmptyString a ++ map g (seq a (S n))).
Proof.
  intros H. unfold flight_row. rewrite H.
  assert (Hf : map fst (map (fun t => (t, g t)) (seq a (S n))) = seq a (S n)).
  { rewrite map_map. cbn [fst]. apply map_id. }
  change (map (fun t => (t, g t)) (seq a (S n)))
    with ((a, g a) :: map (fun t => (t, g t)) (seq (S a) n)) at 1.
  cbv beta iota.
  change ((a, g a) :: map (fun t => (t, g t)) (seq (S a) n))
    with (map (fun t => (t, g t)) (seq a (S n))).
  rewrite Hf, map_length, seq_length.
  rewrite fold_min_le by (intros x Hx; apply in_seq in Hx; lia).
  rewrite lookup_all_tagged by apply incl_refl. reflexivity.
Qed.

Lemma flight_row_spec d i :
  (forall t, t < length d -> length (places (rec_at d t) i) <= 1) ->
  track d i <> [] -> contiguous (map fst (track d i)) = true ->
  exists row, flight_row d i = Some row /\
    (forall t, nth t row EmptyString = cell_text d t i) /\
    length row <= length d /\
    (exists t, S t = length row /\ cell_text d t i <> EmptyString).
Proof.
  intros Hu Hne Hc. rewrite (track_cycles d i Hu) in Hc.
  assert (Hne' : cycles d i <> []).
  { intros E. apply Hne. rewrite <- (track_cycles d i Hu) in E.
    destruct (track d i); [reflexivity|discriminate]. }
  apply contiguous_seq in Hc.
  set (a := hd 0 (cycles d i)) in *. set (n := length (cycles d i)) in *.
  assert (Hn : n <> 0).
  { unfold n. destruct (cycles d i); [congruence|discriminate]. }
  assert (Hin : forall t, In t (seq a n) <-> t < length d /\ placed d i t = true).
  { intros t. rewrite <- Hc. unfold cycles. rewrite filter_In, in_seq. intuition lia. }
  assert (Hout : forall t, ~ (a <= t < a + n) -> cell_text d t i = EmptyString).
  { intros t Ht. apply cell_unplaced. destruct (placed d i t) eqn:E; auto.
    destruct (le_lt_dec (length d) t) as [Hl|Hl].
    - rewrite placed_beyond in E by exact Hl. discriminate.
    - exfalso. apply Ht. apply in_seq. apply Hin. auto. }
  assert (Hins : forall t, a <= t < a + n -> t < length d /\ cell_text d t i <> EmptyString).
  { intros t Ht. apply in_seq in Ht. apply Hin in Ht. destruct Ht as [H1 H2].
    split; auto. apply cell_placed; auto. }
  destruct n as [|n']; [congruence|].
  pose proof (positions_eq d i Hu) as Hp. rewrite Hc in Hp.
  exists (repeat EmptyString a ++ map (fun t => cell_text d t i) (seq a (S n'))).
  split; [apply (flight_row_seq d i a n' (fun t => cell_text d t i)); exact Hp|].
  assert (Hlen : length (repeat EmptyString a ++ map (fun t => cell_text d t i) (seq a (S n'))) = a + S n').
  { rewrite app_length, repeat_length, map_length, seq_length. reflexivity. }
  split; [|split].
  - intros t. destruct (lt_dec t a) as [H1|H1].
    + rewrite app_nth1 by (rewrite repeat_length; exact H1). rewrite nth_repeat.
      symmetry. apply Hout. lia.
    + destruct (lt_dec t (a + S n')) as [H2|H2].
      * rewrite app_nth2 by (rewrite repeat_length; lia). rewrite repeat_length.
        rewrite (nth_indep _ EmptyString (cell_text d 0 i)) by (rewrite map_length, seq_length; lia).
        rewrite (map_nth (fun t => cell_text d t i)), seq_nth by lia.
        replace (a + (t - a)) with t by lia. reflexivity.
      * rewrite nth_overflow by lia. symmetry. apply Hout. lia.
  - rewrite Hlen. destruct (Hins (a + n') ltac:(lia)). lia.
  - exists (a + n'). rewrite Hlen. split; [lia|]. apply Hins. lia.
Qed.

(* ---------- all rows ---------- *)
Definition row_of (d : diagram) (i : nat) : list string :=
  match flight_row d i with Some r => r | None => [] end.

Lemma all_rows_some d L : (forall i, In i L -> flight_row d i <> None) ->
  all_rows d L = Some (map (row_of d) L).
Proof.
  induction L as [|i L IH]; intros H; [reflexivity|].
  cbn [all_rows map]. rewrite IH by (intros j Hj; apply H; right; auto).
  specialize (H i (or_introl eq_refl)).
  destruct (flight_row d i) as [r|] eqn:E; [|congruence].
  assert (Er : row_of d i = r) by (unfold row_of; rewrite E; reflexivity).
  rewrite Er. reflexivity.
Qed.

Lemma C16_cells_lemma :
  forall (P : proc) (prog : list instr) (fuel : nat) (d : diagram),
    wf_procb P = true -> simulate fuel P prog = Done d ->
    exists rows, sim_rows d (length prog) = Some rows /\ length rows = length prog /\
      forall k, k < length prog ->
        (forall t, nth t (nth k rows []) EmptyString = cell_text d t k) /\
        length (nth k rows []) <= length d /\
        (exists t, S t = length (nth k rows []) /\ cell_text d t k <> EmptyString).
Proof.
  intros P prog fuel d Hwf Hsim.
  assert (Hres : sim_result fuel P prog TDone d) by (left; auto).
  pose proof (C03_routes_lemma P prog fuel TDone d Hwf Hres) as Hchk.
  pose proof (C03_unique_place_lemma P prog fuel TDone d Hwf Hres) as Huniq.
  assert (Hu : forall i t, t < length d -> length (places (rec_at d t) i) <= 1).
  { intros i t Ht. destruct (Huniq (rec_at d t)) as [_ Hnd]; [apply nth_In; exact Ht|].
    destruct (places_single (rec_at d t) i Hnd) as [->|[p ->]]; simpl; lia. }
  assert (Hrow : forall k, k < length prog ->
            exists row, flight_row d k = Some row /\
              (forall t, nth t row EmptyString = cell_text d t k) /\
              length row <= length d /\
              (exists t, S t = length row /\ cell_text d t k <> EmptyString)).
  { intros k Hk. unfold C03_checkb in Hchk. cbv zeta in Hchk.
    apply andb_true_iff in Hchk. destruct Hchk as [_ Hall].
    rewrite forallb_forall in Hall. specialize (Hall k ltac:(apply in_seq; lia)).
    unfold C03_instr_ok in Hall. cbv zeta in Hall.
    destruct (track d k) as [|x tr] eqn:Etr; [discriminate|].
    rewrite !andb_true_iff in Hall. destruct Hall as [[[Hcont _] _] _].
    apply flight_row_spec; auto; rewrite Etr; [discriminate|exact Hcont]. }
  exists (map (row_of d) (seq 0 (length prog))).
  split; [|split].
  - unfold sim_rows. apply all_rows_some. intros i Hi. apply in_seq in Hi.
    destruct (Hrow i ltac:(lia)) as [row [E _]]. congruence.
  - rewrite map_length, seq_length. reflexivity.
  - intros k Hk.
    rewrite (nth_indep _ [] (row_of d 0)) by (rewrite map_length, seq_length; exact Hk).
    rewrite map_nth, seq_nth by exact Hk. cbn [plus].
    destruct (Hrow k Hk) as [row [E Hr]]. unfold row_of. rewrite E. exact Hr.
Qed.
