(* Run.v -- from the fuelled loop to reachable states: every Done/Stalled diagram is the table of a
   state reached from the initial state by successful cycles.  All simulator invariants are proved
   as  reach P prog s -> Inv s. *)
From Coq Require Import Lia.
From PS Require Import Base Bag RegAccess Sim.

Definition loop_cond (prog : list instr) (s : state) : bool :=
  (entered s <? length prog) || (exited s <? entered s).

Inductive reach (P : proc) (prog : list instr) : state -> Prop :=
| reach_init : reach P prog (init_state prog)
| reach_step : forall s s', reach P prog s -> loop_cond prog s = true ->
                            run_cycle P prog s = inl s' -> reach P prog s'.

(* what a cycle can return *)
Lemma run_cycle_inr P prog s o :
  run_cycle P prog s = inr o -> o = Stalled (tbl s) \/ exists e, o = Crash e.
Proof. unfold run_cycle.
  destruct (mov_flights P prog (last (tbl s) [])) as [r1 busy].
  destruct (fill_inputs _ prog _ r1 busy (entered s)) as [r2 ent].
  destruct (chk_hazards_units P _ prog (qs_ s) r2 []) as [[r3 cl]|e]; [|intros H; inversion H; eauto].
  destruct (apply_clears (qs_ s) cl) as [qs'|e]; [|intros H; inversion H; eauto].
  destruct (bag_eqb r3 _); intros H; inversion H; auto. Qed.

(* the pieces of a successful cycle *)
Lemma run_cycle_inl P prog s s' :
  run_cycle P prog s = inl s' ->
  exists r1 busy r2 ent r3 cl qs',
    mov_flights P prog (last (tbl s) []) = (r1, busy) /\
    fill_inputs (S (length prog)) prog (in_ports_sorted P) r1 busy (entered s) = (r2, ent) /\
    chk_hazards_units P (last (tbl s) []) prog (qs_ s) r2 [] = Ok (r3, cl) /\
    apply_clears (qs_ s) cl = Ok qs' /\
    bag_eqb r3 (last (tbl s) []) = false /\
    s' = {| tbl := tbl s ++ [r3]; qs_ := qs'; entered := ent; exited := exited s + count_outputs P r3 |}.
Proof. unfold run_cycle.
  destruct (mov_flights P prog (last (tbl s) [])) as [r1 busy] eqn:E0.
  destruct (fill_inputs _ prog _ r1 busy (entered s)) as [r2 ent] eqn:E00.
  destruct (chk_hazards_units P _ prog (qs_ s) r2 []) as [[r3 cl]|e] eqn:E1; [|discriminate].
  destruct (apply_clears (qs_ s) cl) as [qs'|e] eqn:E2; [|discriminate].
  destruct (bag_eqb r3 _) eqn:E3; [discriminate|]. intros H; inversion H; subst.
  exists r1, busy, r2, ent, r3, cl, qs'. auto 10. Qed.

(* a stalled cycle: same pieces, but the new record equals the old one *)
Lemma run_cycle_stalled_inv P prog s d :
  run_cycle P prog s = inr (Stalled d) ->
  d = tbl s /\
  exists r1 busy r2 ent r3 cl qs',
    mov_flights P prog (last (tbl s) []) = (r1, busy) /\
    fill_inputs (S (length prog)) prog (in_ports_sorted P) r1 busy (entered s) = (r2, ent) /\
    chk_hazards_units P (last (tbl s) []) prog (qs_ s) r2 [] = Ok (r3, cl) /\
    apply_clears (qs_ s) cl = Ok qs' /\
    bag_eqb r3 (last (tbl s) []) = true.
Proof. unfold run_cycle.
  destruct (mov_flights P prog (last (tbl s) [])) as [r1 busy] eqn:E0.
  destruct (fill_inputs _ prog _ r1 busy (entered s)) as [r2 ent] eqn:E00.
  destruct (chk_hazards_units P _ prog (qs_ s) r2 []) as [[r3 cl]|e] eqn:E1; [|discriminate].
  destruct (apply_clears (qs_ s) cl) as [qs'|e] eqn:E2; [|discriminate].
  destruct (bag_eqb r3 _) eqn:E3; [|discriminate]. intros H; inversion H; subst. split; auto.
  exists r1, busy, r2, ent, r3, cl, qs'. auto 10. Qed.

Lemma loop_reach P prog : forall fuel s,
  reach P prog s ->
  match loop fuel P prog s with
  | Done d => exists s', reach P prog s' /\ tbl s' = d /\ loop_cond prog s' = false
  | Stalled d => exists s', reach P prog s' /\ tbl s' = d /\ loop_cond prog s' = true
                            /\ run_cycle P prog s' = inr (Stalled d)
  | Crash e => exists s', reach P prog s' /\ loop_cond prog s' = true /\ run_cycle P prog s' = inr (Crash e)
  | OutOfFuel => True
  end.
Proof. induction fuel as [|f IH]; intros s Hr; simpl; auto.
  fold (loop_cond prog s). destruct (loop_cond prog s) eqn:Hc.
  - destruct (run_cycle P prog s) as [s'|o] eqn:E.
    + apply IH. eapply reach_step; eauto.
    + destruct (run_cycle_inr _ _ _ _ E) as [->|[e ->]].
      * exists s. repeat split; auto.
      * exists s. repeat split; auto.
  - exists s. repeat split; auto. Qed.

Lemma simulate_done P prog fuel d :
  simulate fuel P prog = Done d ->
  exists s, reach P prog s /\ tbl s = d /\ loop_cond prog s = false.
Proof. intros H. pose proof (loop_reach P prog fuel _ (reach_init P prog)) as G.
  unfold simulate in H. rewrite H in G. exact G. Qed.
Lemma simulate_stalled P prog fuel d :
  simulate fuel P prog = Stalled d ->
  exists s, reach P prog s /\ tbl s = d /\ loop_cond prog s = true /\ run_cycle P prog s = inr (Stalled d).
Proof. intros H. pose proof (loop_reach P prog fuel _ (reach_init P prog)) as G.
  unfold simulate in H. rewrite H in G. exact G. Qed.
Lemma simulate_crash P prog fuel e :
  simulate fuel P prog = Crash e ->
  exists s, reach P prog s /\ loop_cond prog s = true /\ run_cycle P prog s = inr (Crash e).
Proof. intros H. pose proof (loop_reach P prog fuel _ (reach_init P prog)) as G.
  unfold simulate in H. rewrite H in G. exact G. Qed.
Lemma simulate_reach P prog fuel d :
  simulate fuel P prog = Done d \/ simulate fuel P prog = Stalled d ->
  exists s, reach P prog s /\ tbl s = d.
Proof. intros [H|H]; [apply simulate_done in H|apply simulate_stalled in H];
  destruct H as [s Hs]; exists s; tauto. Qed.

Lemma firstn_len_app {A} (l l' : list A) : firstn (length l) (l ++ l') = l.
Proof. induction l; simpl; congruence. Qed.
Lemma firstn_lt_app {A} (l l' : list A) t : t <= length l -> firstn t (l ++ l') = firstn t l.
Proof. revert t; induction l; intros [|t] Ht; simpl in *; try lia; auto. f_equal. apply IHl. lia. Qed.

(* every record of a reachable table was produced by a successful cycle from the state whose table is
   the prefix before it *)
Lemma reach_tbl_prefix P prog s :
  reach P prog s ->
  forall t, t < length (tbl s) ->
    exists s0 s1, reach P prog s0 /\ loop_cond prog s0 = true /\ run_cycle P prog s0 = inl s1 /\
                  tbl s0 = firstn t (tbl s) /\ tbl s1 = firstn (S t) (tbl s) /\
                  nth t (tbl s) [] = last (tbl s1) [].
Proof. induction 1 as [|s s' Hr IH Hc Hrun]; intros t Ht.
  - simpl in Ht. lia.
  - destruct (run_cycle_inl _ _ _ _ Hrun) as (r1 & busy & r2 & ent & r3 & cl & qs' & _ & _ & _ & _ & _ & ->).
    cbn [tbl] in *. rewrite app_length in Ht. simpl in Ht.
    destruct (Nat.eq_dec t (length (tbl s))) as [->|Hne].
    + exists s. eexists. split; [exact Hr|]. split; [exact Hc|]. split; [exact Hrun|]. cbn [tbl].
      split; [|split].
      * rewrite firstn_len_app. reflexivity.
      * rewrite firstn_all2; [reflexivity|]. rewrite app_length. simpl. lia.
      * rewrite app_nth2, Nat.sub_diag by lia. cbn [nth]. rewrite last_last. reflexivity.
    + assert (Hlt : t < length (tbl s)) by lia.
      destruct (IH t Hlt) as (s0 & s1 & H0 & H1 & H2 & H3 & H4 & H5).
      exists s0, s1. repeat split; auto.
      * rewrite firstn_lt_app by lia. auto.
      * rewrite firstn_lt_app by lia. auto.
      * rewrite app_nth1 by lia. auto.
Qed.
