(* C13_ci.v -- basic facts about case-insensitive equality `ci`, `ic_eqb`, `ic_find`, `mem_ic`. *)
From Coq Require Import String Ascii Lia Bool List.
From PS Require Import Base Str Sim Program Isa Loader TextSpec C18_proof.

Lemma ci_refl a : ci a a.
Proof. reflexivity. Qed.
Lemma ci_sym a b : ci a b -> ci b a.
Proof. unfold ci; intros; congruence. Qed.
Lemma ci_trans a b c : ci a b -> ci b c -> ci a c.
Proof. unfold ci; intros; congruence. Qed.

Lemma ic_eqb_ci a b : ic_eqb a b = true <-> ci a b.
Proof. apply C18_eq_lemma. Qed.
Lemma ic_eqb_refl a : ic_eqb a a = true.
Proof. apply ic_eqb_ci, ci_refl. Qed.

Lemma ci_ic_eqb_r x a b : ci a b -> ic_eqb x a = ic_eqb x b.
Proof. unfold ci, ic_eqb. intros ->. reflexivity. Qed.
Lemma ci_ic_eqb_l x a b : ci a b -> ic_eqb a x = ic_eqb b x.
Proof. unfold ci, ic_eqb. intros ->. reflexivity. Qed.

Lemma ic_find_ci a b reg : ci a b -> ic_find a reg = ic_find b reg.
Proof. intros H. induction reg as [|y t IH]; simpl; auto.
  rewrite (ci_ic_eqb_l y a b H), IH. reflexivity. Qed.
Lemma mem_ic_ci a b l : ci a b -> mem_ic a l = mem_ic b l.
Proof. intros H. unfold mem_ic. induction l as [|y t IH]; simpl; auto.
  rewrite (ci_ic_eqb_l y a b H), IH. reflexivity. Qed.

Lemma upper_lower_ascii c : upper_ascii (lower_ascii c) = upper_ascii c.
Proof. destruct c as [[] [] [] [] [] [] [] []]; vm_compute; reflexivity. Qed.
Lemma upper_lower a : upper (lower a) = upper a.
Proof. unfold lower, upper. induction a; simpl; auto. rewrite upper_lower_ascii, IHa; auto. Qed.
Lemma upper_ci a b : ci a b -> upper a = upper b.
Proof. unfold ci. intros H. rewrite <- (upper_lower a), <- (upper_lower b), H. reflexivity. Qed.

(* ic_find / mem_ic *)
Lemma ic_find_some x l s : ic_find x l = Some s -> In s l /\ ci x s.
Proof. induction l as [|y t IH]; simpl; [discriminate|].
  destruct (ic_eqb x y) eqn:E.
  - intros [= <-]. split; auto. apply ic_eqb_ci; auto.
  - intros H. destruct (IH H). auto. Qed.
Lemma ic_find_none x l : ic_find x l = None <-> mem_ic x l = false.
Proof. unfold mem_ic. induction l as [|y t IH]; simpl; [tauto|].
  destruct (ic_eqb x y); simpl; [split; discriminate|auto]. Qed.
Lemma mem_ic_true x l : mem_ic x l = true <-> exists y, In y l /\ ci x y.
Proof. unfold mem_ic. rewrite existsb_exists. split; intros [y [H1 H2]]; exists y; split; auto;
  apply ic_eqb_ci; auto. Qed.
Lemma mem_ic_false x l : mem_ic x l = false <-> forall y, In y l -> ~ ci x y.
Proof. split.
  - intros H y Hy Hc. assert (mem_ic x l = true) by (apply mem_ic_true; eauto). congruence.
  - intros H. destruct (mem_ic x l) eqn:E; auto. apply mem_ic_true in E. destruct E as [y [H1 H2]].
    exfalso; eapply H; eauto. Qed.
Lemma mem_ic_app x a b : mem_ic x (a ++ b) = mem_ic x a || mem_ic x b.
Proof. unfold mem_ic. apply existsb_app. Qed.
Lemma ic_find_app_some x a b s : ic_find x a = Some s -> ic_find x (a ++ b) = Some s.
Proof. induction a as [|y t IH]; simpl; [discriminate|]. destruct (ic_eqb x y); auto. Qed.
Lemma ic_find_app_none x a b : ic_find x a = None -> ic_find x (a ++ b) = ic_find x b.
Proof. induction a as [|y t IH]; simpl; auto. destruct (ic_eqb x y); [discriminate|auto]. Qed.
Lemma ic_find_mem x l : mem_ic x l = true -> exists s, ic_find x l = Some s.
Proof. intros H. destruct (ic_find x l) eqn:E; eauto. apply ic_find_none in E. congruence. Qed.

Lemma mem_ic_Forall2 x x' l l' : ci x x' -> Forall2 ci l l' -> mem_ic x l = mem_ic x' l'.
Proof. intros Hx H. unfold mem_ic. induction H as [|y y' l l' Hy _ IH]; simpl; auto.
  rewrite IH. f_equal. rewrite (ci_ic_eqb_l y x x' Hx). apply ci_ic_eqb_r; auto. Qed.

Lemma Forall2_ci_refl l : Forall2 ci l l.
Proof. induction l; constructor; auto. apply ci_refl. Qed.
Lemma Forall2_ci_app l l' a a' : Forall2 ci l l' -> ci a a' -> Forall2 ci (l ++ [a]) (l' ++ [a']).
Proof. intros. apply Forall2_app; auto. Qed.
