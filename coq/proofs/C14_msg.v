(* C14_msg.v -- the CodeError message states the mnemonic, the line and the position of the empty operand. *)
From PS Require Import Base Str Program C11_msg.
Open Scope string_scope.

Lemma C14_message_lemma :
  forall e, match e with
            | NoOperands line ins =>
                substrb ins (code_err_msg e) = true /\ substrb (nat_to_str line) (code_err_msg e) = true
            | EmptyOperand k line ins =>
                substrb ins (code_err_msg e) = true /\ substrb (nat_to_str line) (code_err_msg e) = true
                /\ substrb ("Operand " ++ nat_to_str k ++ " empty") (code_err_msg e) = true
            end.
Proof.
  intros [line ins|k line ins]; unfold code_err_msg.
  - split.
    + apply substrb_skip, substrb_here.
    + do 3 apply substrb_skip. apply substrb_prefix, prefixb_refl.
  - split; [|split].
    + do 3 apply substrb_skip. apply substrb_here.
    + do 5 apply substrb_skip. apply substrb_prefix, prefixb_refl.
    + apply substrb_prefix.
      change (prefixb ("Operand " ++ nat_to_str k ++ " empty")
                      ("Operand " ++ nat_to_str k ++ " empty" ++ (" for instruction " ++ ins ++ " at line " ++ nat_to_str line)) = true).
      set (r := " for instruction " ++ ins ++ " at line " ++ nat_to_str line).
      rewrite <- (app_assoc_s (nat_to_str k) " empty" r).
      rewrite <- (app_assoc_s "Operand " (nat_to_str k ++ " empty") r).
      apply prefixb_app.
Qed.
