(* C06_proof.v -- in-order eager issue into the first usable input port: from the per-cycle guarantees
   (C06_issue.v: cyc) to the checker C06_checkb on every returned diagram. *)
From Coq Require Import Lia Permutation.
From PS Require Import Base Bag RegAccess Sim Diag Lists Run C06_lists C06_move C06_issue.

(* ---------- the checker's per-cycle clauses as functions of (previous record, record) ---------- *)
Definition prev_rec (d : diagram) (t : nat) : record := match t with 0 => [] | S t' => rec_at d t' end.
Definition mem_entries_rec (P : proc) (prog : list instr) (old new : record) : list (nat * string) :=
  flat_map (fun kv => flat_map (fun e =>
      if negb (has (get old (fst kv)) (fst e)) && mem_needed P (fst kv) (cat_of prog (fst e))
      then [(fst e, fst kv)] else []) (snd kv)) new.
Definition held_rec (P : proc) (prog : list instr) (old new : record) (i : nat) : bool :=
  forallb (fun u => negb (supports P u (cat_of prog i))
                    || (width_of P u <=? length (get new u))
                    || (mem_needed P u (cat_of prog i)
                        && match mem_entries_rec P prog old new with [] => false | _ => true end))
          (in_ports_by_name P).
Definition first_rec (P : proc) (prog : list instr) (old new : record) (i : nat) (q : string) : bool :=
  forallb (fun u => negb (supports P u (cat_of prog i))
                    || (width_of P u <=? length (filter (fun e => fst e <? i) (get new u)))
                    || (mem_needed P u (cat_of prog i)
                        && existsb (fun p => fst p <? i) (mem_entries_rec P prog old new)))
          (before_name q (in_ports_by_name P)).

Lemma held_eq P prog d i t : C06_held_ok P prog d i t = held_rec P prog (prev_rec d t) (rec_at d t) i.
Proof. destruct t; reflexivity. Qed.
Lemma first_eq P prog d i t q : C06_first_ok P prog d i t q = first_rec P prog (prev_rec d t) (rec_at d t) i q.
Proof. destruct t; reflexivity. Qed.

(* ---------- small facts ---------- *)
Lemma has_In es i : has es i = true <-> In i (map fst es).
Proof. unfold has. rewrite existsb_exists, in_map_iff. split.
  - intros [e [H1 H2]]. apply Nat.eqb_eq in H2. eauto.
  - intros [e [H1 H2]]. exists e. split; auto. apply Nat.eqb_eq; auto. Qed.
Lemma filter_map_len (p : nat -> bool) (l : list entry) :
  length (filter (fun e => p (fst e)) l) = length (filter p (map fst l)).
Proof. induction l as [|a l IH]; simpl; auto. destruct (p (fst a)); simpl; auto. Qed.
Lemma before_name_app q : forall l1 l2, ~ In q l1 -> before_name q (l1 ++ q :: l2) = l1.
Proof. induction l1 as [|x l1 IH]; intros l2 H; simpl.
  - rewrite String.eqb_refl. auto.
  - destruct (String.eqb x q) eqn:E.
    + apply String.eqb_eq in E. subst. exfalso. apply H. left; auto.
    + f_equal. apply IH. intros Hin. apply H. right; auto. Qed.
Lemma existsb_false {A} (f : A -> bool) l : (forall x, In x l -> f x = false) -> existsb f l = false.
Proof. intros H. destruct (existsb f l) eqn:E; auto. apply existsb_exists in E.
  destruct E as [x [H1 H2]]. rewrite H in H2; auto. Qed.

Lemma places_elim r i u l : ukeys r -> In (u, l) (places r i) -> In i (ixs r u).
Proof. intros Hk H. unfold places in H. apply in_flat_map in H. destruct H as [[k es] [Hkv H]].
  simpl in H. apply in_map_iff in H. destruct H as [e [He1 He2]]. inversion He1; subst.
  apply filter_In in He2. destruct He2 as [He2 He3]. apply Nat.eqb_eq in He3.
  unfold ixs. rewrite (get_ukeys r u es Hk Hkv). rewrite <- He3. apply in_map; auto. Qed.
Lemma places_intro r i q : In i (ixs r q) -> places r i <> [].
Proof. unfold ixs. intros H. apply in_map_iff in H. destruct H as [e [He1 He2]].
  assert (Hin : In (q, snd e) (places r i)).
  { unfold places. apply in_flat_map. exists (q, get r q). split; [eapply get_in_rec; eauto|].
    simpl. apply in_map_iff. exists e. split; auto. apply filter_In. split; auto. apply Nat.eqb_eq; auto. }
  intros Hnil. rewrite Hnil in Hin. destruct Hin. Qed.
Lemma places_nil r i b : ukeys r -> (forall h k, In k (ixs r h) -> k < b) -> b <= i -> places r i = [].
Proof. intros Hk Hb Hi. destruct (places r i) as [|[u l] t] eqn:E; auto.
  assert (Hin : In (u, l) (places r i)) by (rewrite E; left; auto).
  apply places_elim in Hin; auto. apply Hb in Hin. lia. Qed.

(* ---------- diagrams extended by one record ---------- *)
Lemma rec_at_app_lt d r t : t < length d -> rec_at (d ++ [r]) t = rec_at d t.
Proof. intros H. unfold rec_at. apply app_nth1; auto. Qed.
Lemma rec_at_app_eq d r : rec_at (d ++ [r]) (length d) = r.
Proof. unfold rec_at. rewrite app_nth2, Nat.sub_diag; auto. Qed.
Lemma rec_at_over d t : length d <= t -> rec_at d t = [].
Proof. intros H. unfold rec_at. apply nth_overflow; auto. Qed.
Lemma prev_rec_app_le d r t : t <= length d -> prev_rec (d ++ [r]) t = prev_rec d t.
Proof. destruct t; simpl; auto. intros H. apply rec_at_app_lt. lia. Qed.
Lemma prev_rec_last d : prev_rec d (length d) = last d [].
Proof. induction d as [|x l _] using rev_ind; [reflexivity|].
  rewrite app_length, last_last. simpl. rewrite Nat.add_1_r. simpl. apply rec_at_app_eq. Qed.

Definition appears_in (r : record) (i : nat) : bool := match places r i with [] => false | _ => true end.
Lemma first_cycle_unfold d i : first_cycle d i = first_such (fun t => appears_in (rec_at d t) i) 0 (length d).
Proof. reflexivity. Qed.
Lemma first_cycle_lt d i t : first_cycle d i = Some t -> t < length d.
Proof. rewrite first_cycle_unfold. intros H. apply first_such_some in H. lia. Qed.
Lemma first_cycle_app_some d r i t : first_cycle d i = Some t -> first_cycle (d ++ [r]) i = Some t.
Proof. rewrite !first_cycle_unfold. intros H. apply first_such_some in H. destruct H as [H1 [H2 H3]].
  apply first_such_intro.
  - rewrite app_length. simpl. lia.
  - rewrite rec_at_app_lt by lia. auto.
  - intros y Hy. rewrite rec_at_app_lt by lia. apply H3. lia. Qed.
Lemma first_cycle_none d i : (forall t, places (rec_at d t) i = []) -> first_cycle d i = None.
Proof. intros H. rewrite first_cycle_unfold. apply first_such_none_intro. intros y _.
  unfold appears_in. rewrite H. auto. Qed.
Lemma first_cycle_app_new d r i :
  (forall t, places (rec_at d t) i = []) -> places r i <> [] -> first_cycle (d ++ [r]) i = Some (length d).
Proof. intros H Hr. rewrite first_cycle_unfold. apply first_such_intro.
  - rewrite app_length. simpl. lia.
  - rewrite rec_at_app_eq. unfold appears_in. destruct (places r i); [congruence|auto].
  - intros y Hy. rewrite rec_at_app_lt by lia. unfold appears_in. rewrite H. auto. Qed.

(* ---------- from the per-cycle guarantees to the checker's clauses ---------- *)
Section Clauses.
Variable P : proc.
Variable prog : list instr.
Hypothesis Hnd : NoDup (unit_names P).

Lemma memw_entries old new K : memw P prog old new K ->
  exists p, In p (mem_entries_rec P prog old new) /\ fst p < K.
Proof. intros (k & v & Hk & Hin & Hnot & Hm). unfold ixs in Hin. apply in_map_iff in Hin.
  destruct Hin as [e [He1 He2]]. exists (k, v). split; auto.
  unfold mem_entries_rec. apply in_flat_map. exists (v, get new v). split; [eapply get_in_rec; eauto|].
  simpl. apply in_flat_map. exists e. split; auto. rewrite He1, Hm.
  destruct (has (get old v) k) eqn:Eh; [apply has_In in Eh; tauto|]. simpl. left; auto. Qed.

Lemma cyc_held old new a b : cyc P prog old new a b -> b < length prog -> held_rec P prog old new b = true.
Proof. intros Hc Hb. unfold held_rec. apply forallb_forall. intros x Hx. unfold in_ports_by_name in Hx.
  apply in_map_iff in Hx. destruct Hx as [w [<- Hw]].
  rewrite (port_supports P Hnd w _ Hw), (port_mem P Hnd w _ Hw), (port_width P Hnd w Hw).
  destruct (mem_str (cat_of prog b) (u_caps w)) eqn:Ec; auto. simpl.
  destruct (cy_held _ _ _ _ _ _ Hc Hb w Hw Ec) as [Hl|[Hn Hm]].
  - unfold ixs in Hl. rewrite map_length in Hl. apply orb_true_iff. left. apply Nat.leb_le.
    unfold entry in *. lia.
  - apply orb_true_iff. right. rewrite Hn. simpl. apply memw_entries in Hm. destruct Hm as [p [Hp _]].
    destruct (mem_entries_rec P prog old new); [destruct Hp|auto]. Qed.

Lemma cyc_first old new a b i : cyc P prog old new a b -> a <= i < b ->
  exists q l, hd_error (places new i) = Some (q, l) /\ mem_str q (in_names P) = true /\
              supports P q (cat_of prog i) = true /\ first_rec P prog old new i q = true.
Proof. intros Hc Hi. destruct (cy_issued _ _ _ _ _ _ Hc i Hi) as (pre & u & post & Hports & Hcap & Hin & Hpre).
  assert (Hu : In u (in_ports_sorted P)) by (rewrite Hports; apply in_or_app; right; left; auto).
  pose proof (places_intro _ _ _ Hin) as Hne.
  destruct (places new i) as [|[q l] t] eqn:Epl; [congruence|].
  assert (Hq : q = u_name u).
  { assert (Hin' : In (q, l) (places new i)) by (rewrite Epl; left; auto).
    apply places_elim in Hin'; [|apply (cy_keys _ _ _ _ _ _ Hc)].
    destruct (cy_uniq _ _ _ _ _ _ Hc) as [_ U2]. eapply U2; eauto. }
  subst q. exists (u_name u), l. split; [reflexivity|]. split; [|split].
  - apply mem_str_In. apply port_in_names; auto.
  - rewrite port_supports; auto.
  - unfold first_rec, in_ports_by_name. rewrite Hports, map_app. cbn [map].
    rewrite before_name_app.
    2:{ pose proof (ports_names_NoDup P Hnd) as Hn. rewrite Hports, map_app in Hn. cbn [map] in Hn.
        apply NoDup_remove_2 in Hn. intros Hx. apply Hn. apply in_or_app; auto. }
    apply forallb_forall. intros x Hx. apply in_map_iff in Hx. destruct Hx as [w [<- Hw]].
    assert (Hw' : In w (in_ports_sorted P)) by (rewrite Hports; apply in_or_app; auto).
    rewrite (port_supports P Hnd w _ Hw'), (port_mem P Hnd w _ Hw'), (port_width P Hnd w Hw').
    destruct (mem_str (cat_of prog i) (u_caps w)) eqn:Ec; auto. simpl.
    destruct (Hpre w Hw Ec) as [Hl|[Hn Hm]].
    + apply orb_true_iff. left. apply Nat.leb_le.
      rewrite (filter_map_len (fun k => k <? i)). exact Hl.
    + apply orb_true_iff. right. rewrite Hn. simpl. apply memw_entries in Hm. destruct Hm as [p [Hp1 Hp2]].
      apply existsb_exists. exists p. split; auto. apply Nat.ltb_lt; auto. Qed.

(* ---------- the global invariant of reachable states ---------- *)
Definition startof (d : diagram) (i s : nat) : Prop :=
  match i with 0 => s = 0 | S i' => first_cycle d i' = Some s end.
Definition issued_ok (d : diagram) (i : nat) : Prop :=
  exists s t0 q l, startof d i s /\ first_cycle d i = Some t0 /\ s <= t0 /\
    place_at d t0 i = Some (q, l) /\ mem_str q (in_names P) = true /\ supports P q (cat_of prog i) = true /\
    first_rec P prog (prev_rec d t0) (rec_at d t0) i q = true /\
    forall t, s <= t < t0 -> held_rec P prog (prev_rec d t) (rec_at d t) i = true.
Record Glob (d : diagram) (n : nat) : Prop := {
  g_le : n <= length prog;
  g_noapp : forall t i, n <= i -> places (rec_at d t) i = [];
  g_issued : forall i, i < n -> issued_ok d i;
  g_next : n < length prog -> exists s, startof d n s /\
             forall t, s <= t < length d -> held_rec P prog (prev_rec d t) (rec_at d t) n = true;
  g_uniq : uniq (last d []);
  g_keys : ukeys (last d []);
  g_bound : forall h k, In k (ixs (last d []) h) -> k < n }.

Lemma startof_app d r i s : startof d i s -> startof (d ++ [r]) i s.
Proof. destruct i; simpl; auto. apply first_cycle_app_some. Qed.
Lemma startof_lt d i s : startof d i s -> s <= length d.
Proof. destruct i; simpl; [lia|]. intros H. apply first_cycle_lt in H. lia. Qed.

Lemma Glob_init : Glob [] 0.
Proof. constructor.
  - lia.
  - intros t i _. unfold rec_at. destruct t; reflexivity.
  - intros i Hi. lia.
  - intros _. exists 0. split; [reflexivity|]. intros t Ht. simpl in Ht. lia.
  - apply uniq_nil.
  - constructor.
  - intros h k []. Qed.

Lemma Glob_snoc d a r b : Glob d a -> cyc P prog (last d []) r a b -> Glob (d ++ [r]) b.
Proof. intros [G1 G2 G3 G4 G5 G6 G7] Hc. pose proof (cy_le _ _ _ _ _ _ Hc) as Hle.
  assert (Hnew : forall i, a <= i < b -> first_cycle (d ++ [r]) i = Some (length d)).
  { intros i Hi. apply first_cycle_app_new; [intros t; apply G2; lia|].
    destruct (cyc_first _ _ _ _ i Hc Hi) as (q & l & Hhd & _). destruct (places r i); [discriminate|congruence]. }
  assert (Hheld_old : forall t n, t < length d -> held_rec P prog (prev_rec d t) (rec_at d t) n = true ->
            held_rec P prog (prev_rec (d ++ [r]) t) (rec_at (d ++ [r]) t) n = true).
  { intros t n Ht H. rewrite prev_rec_app_le, rec_at_app_lt by lia. auto. }
  constructor.
  - lia.
  - intros t i Hi. destruct (Nat.lt_trichotomy t (length d)) as [Ht|[->|Ht]].
    + rewrite rec_at_app_lt by lia. apply G2. lia.
    + rewrite rec_at_app_eq. eapply places_nil; [apply (cy_keys _ _ _ _ _ _ Hc)|apply (cy_bound _ _ _ _ _ _ Hc)|auto].
    + rewrite rec_at_over; [reflexivity|]. rewrite app_length. simpl. lia.
  - intros i Hi. destruct (Nat.lt_ge_cases i a) as [Hia|Hia].
    + destruct (G3 i Hia) as (s & t0 & q & l & H1 & H2 & H3 & H4 & H5 & H6 & H7 & H8).
      pose proof (first_cycle_lt _ _ _ H2) as Ht0.
      exists s, t0, q, l. split; [apply startof_app; auto|]. split; [apply first_cycle_app_some; auto|].
      split; auto. split; [unfold place_at; rewrite rec_at_app_lt by lia; exact H4|].
      split; auto. split; auto. split.
      * rewrite prev_rec_app_le, rec_at_app_lt by lia. auto.
      * intros t Ht. apply Hheld_old; [lia|]. apply H8; auto.
    + destruct (cyc_first _ _ _ _ i Hc (conj Hia Hi)) as (q & l & Hhd & Hq1 & Hq2 & Hq3).
      assert (Hrest : place_at (d ++ [r]) (length d) i = Some (q, l) /\ mem_str q (in_names P) = true /\
                      supports P q (cat_of prog i) = true /\
                      first_rec P prog (prev_rec (d ++ [r]) (length d)) (rec_at (d ++ [r]) (length d)) i q = true).
      { unfold place_at. rewrite prev_rec_app_le, prev_rec_last, rec_at_app_eq by lia. auto. }
      destruct (Nat.eq_dec i a) as [->|Hne].
      * (* the first instruction issued in this cycle: it was waiting since its predecessor's issue *)
        destruct G4 as [s [Hs1 Hs2]]; [lia|].
        exists s, (length d), q, l. split; [apply startof_app; auto|]. split; [apply Hnew; lia|].
        split; [eapply startof_lt; eauto|]. destruct Hrest as (R1 & R2 & R3 & R4).
        repeat (split; auto). intros t Ht. apply Hheld_old; [lia|]. apply Hs2; auto.
      * destruct i as [|i']; [lia|].
        exists (length d), (length d), q, l. split; [simpl; apply Hnew; lia|]. split; [apply Hnew; lia|].
        split; [lia|]. destruct Hrest as (R1 & R2 & R3 & R4). repeat (split; auto). intros t Ht. lia.
  - intros Hb. destruct (Nat.eq_dec b a) as [->|Hne].
    + destruct G4 as [s [Hs1 Hs2]]; [lia|]. exists s. split; [apply startof_app; auto|].
      intros t Ht. rewrite app_length in Ht. simpl in Ht.
      destruct (Nat.eq_dec t (length d)) as [->|Hne]; [|apply Hheld_old; [lia|apply Hs2; lia]].
      rewrite prev_rec_app_le, prev_rec_last, rec_at_app_eq by lia. eapply cyc_held; eauto.
    + destruct b as [|b']; [lia|]. exists (length d). split; [simpl; apply Hnew; lia|].
      intros t Ht. rewrite app_length in Ht. simpl in Ht. assert (t = length d) by lia. subst t.
      rewrite prev_rec_app_le, prev_rec_last, rec_at_app_eq by lia. eapply cyc_held; eauto.
  - rewrite last_last. apply (cy_uniq _ _ _ _ _ _ Hc).
  - rewrite last_last. apply (cy_keys _ _ _ _ _ _ Hc).
  - rewrite last_last. apply (cy_bound _ _ _ _ _ _ Hc).
Qed.

Lemma Glob_check d n : Glob d n -> C06_checkb P prog d = true.
Proof. intros [G1 G2 G3 G4 _ _ _]. unfold C06_checkb. apply forallb_forall. intros i Hi.
  apply in_seq in Hi. simpl in Hi. unfold C06_instr_ok.
  assert (Hstart : forall s, startof d i s -> match i with 0 => Some 0 | S i' => first_cycle d i' end = Some s).
  { intros s Hs. destruct i; simpl in Hs; [subst; auto|auto]. }
  assert (Hnone : forall j, n <= j -> first_cycle d j = None).
  { intros j Hj. apply first_cycle_none. intros t. apply G2; auto. }
  destruct (Nat.lt_trichotomy i n) as [Hlt|[->|Hgt]].
  - destruct (G3 i Hlt) as (s & t0 & q & l & H1 & H2 & H3 & H4 & H5 & H6 & H7 & H8).
    rewrite (Hstart s H1), H2, H4, H5, H6, first_eq, H7. simpl.
    rewrite (proj2 (Nat.leb_le s t0) H3). simpl.
    apply forallb_forall. intros t Ht. apply in_seq in Ht. rewrite held_eq. apply H8. lia.
  - destruct G4 as [s [Hs1 Hs2]]; [lia|]. rewrite (Hstart s Hs1), (Hnone n) by lia.
    apply forallb_forall. intros t Ht. apply in_seq in Ht. rewrite held_eq. apply Hs2. lia.
  - destruct i as [|i']; [lia|]. rewrite (Hnone i') by lia. apply negb_true_iff.
    unfold appears. apply existsb_false. intros r Hr.
    destruct (In_nth _ _ [] Hr) as [t [Ht1 Ht2]]. rewrite <- Ht2.
    change (nth t d []) with (rec_at d t). rewrite G2 by lia. reflexivity.
Qed.
End Clauses.

(* ---------- reachable states ---------- *)
Lemma reach_Glob P prog s : wf_procb P = true -> reach P prog s -> Glob P prog (tbl s) (entered s).
Proof. intros Hwf Hr. pose proof (wf_nodup P Hwf) as Hnd. induction Hr as [|s s' Hr IH Hc Hrun].
  - simpl. apply Glob_init.
  - destruct (run_cycle_inl _ _ _ _ Hrun) as (r1 & busy & r2 & ent & r3 & cl & qs' & H1 & H2 & H3 & _ & _ & ->).
    cbn [tbl entered]. apply (Glob_snoc P prog Hnd (tbl s) (entered s)); auto.
    eapply (cycle_cyc P prog Hnd); eauto.
    + apply wf_ord; auto.
    + intros f Hf. apply (wf_preds P Hwf f Hf).
    + apply (g_uniq _ _ _ _ IH).
    + apply (g_keys _ _ _ _ IH).
    + apply (g_bound _ _ _ _ IH).
    + apply (g_le _ _ _ _ IH).
Qed.

Lemma C06_issue_lemma :
  forall (P : proc) (prog : list instr) (fuel : nat) (tg : dtag) (d : diagram),
    wf_procb P = true -> sim_result fuel P prog tg d -> C06_checkb P prog d = true.
Proof. intros P prog fuel tg d Hwf Hsim.
  assert (H : simulate fuel P prog = Done d \/ simulate fuel P prog = Stalled d).
  { destruct Hsim as [[_ H]|[_ H]]; auto. }
  apply simulate_reach in H. destruct H as [s [Hr <-]].
  eapply Glob_check. apply reach_Glob; eauto. Qed.
