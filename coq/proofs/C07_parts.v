(* C07_parts.v -- the remaining pieces of a cycle: flush, the processing order given by wf_procb,
   issue (fill_inputs), hazards (relabelling only), and duplicate-free keys. *)
From Coq Require Import Lia Permutation Sorted.
From PS Require Import Base Bag RegAccess Sim Diag Lists C07_lists C07_walk C07_step.

Local Notation nm f := (u_name (f_model f)).
Local Notation isD := (fun e : entry => label_eqb (snd e) LD).

Lemma NoDup_app_disj {A} (a b : list A) x : NoDup (a ++ b) -> In x a -> In x b -> False.
Proof. induction a as [|y a IH]; simpl; intros Hn Ha Hb; [tauto|].
  inversion Hn; subst. destruct Ha as [->|Ha]; auto. apply H1. apply in_or_app; auto. Qed.

Lemma NoDup_app_r {A} (a b : list A) : NoDup (a ++ b) -> NoDup b.
Proof. induction a as [|y a IH]; simpl; intros Hn; auto. inversion Hn; auto. Qed.
Lemma NoDup_app_l {A} (a b : list A) : NoDup (a ++ b) -> NoDup a.
Proof. induction a as [|y a IH]; simpl; intros Hn; [constructor|]. inversion Hn; subst.
  constructor; auto. intros X. apply H1. apply in_or_app; auto. Qed.

Lemma NoDup_fst_inj {B} (l : list (nat * B)) a b1 b2 :
  NoDup (map fst l) -> In (a, b1) l -> In (a, b2) l -> b1 = b2.
Proof. induction l as [|[x y] l IH]; simpl; intros Hn H1 H2; [tauto|].
  inversion Hn; subst. destruct H1 as [H1|H1], H2 as [H2|H2].
  - congruence.
  - inversion H1; subst. exfalso. apply H3. change a with (fst (a, b2)). apply in_map; auto.
  - inversion H2; subst. exfalso. apply H3. change a with (fst (a, b1)). apply in_map; auto.
  - auto. Qed.

Lemma U_label r k i l1 l2 : U r -> In (i, l1) (get r k) -> In (i, l2) (get r k) -> l1 = l2.
Proof. intros [H _]. apply NoDup_fst_inj. apply H. Qed.

(* ---------- flush ---------- *)
Lemma flush_fold_get ns : forall (r : record) k,
  get (fold_left (fun r n => set r n (filter isD (get r n))) ns r) k
  = if mem_str k ns then filter isD (get r k) else get r k.
Proof. induction ns as [|n ns IH]; intros r k; simpl; auto.
  rewrite IH. destruct (String.eqb_spec k n) as [->|Hne]; simpl.
  - rewrite gss. destruct (mem_str n ns); auto.
    rewrite filter_filter. apply filter_ext. intros a. destruct (label_eqb (snd a) LD); auto.
  - rewrite gso; auto. Qed.
Lemma flush_get P r k :
  get (flush P r) k = if mem_str k (out_names P) then filter isD (get r k) else get r k.
Proof. apply flush_fold_get. Qed.

Lemma flush_incl P r k : incl (get (flush P r) k) (get r k).
Proof. rewrite flush_get. destruct (mem_str k (out_names P)); [|apply incl_refl].
  intros e He. apply filter_In in He. tauto. Qed.
Lemma flush_loc P r i k : loc (flush P r) i k -> loc r i k.
Proof. unfold loc, ixs. rewrite !in_map_iff. intros [e [E He]]. exists e. split; auto.
  eapply flush_incl; eauto. Qed.
Lemma flush_U P r : U r -> U (flush P r).
Proof. intros [H1 H2]. split.
  - intros k. unfold ixs. rewrite flush_get. destruct (mem_str k (out_names P)); [|apply H1].
    apply NoDup_map_filter. apply H1.
  - intros k1 k2 i G1 G2. apply flush_loc in G1, G2. eauto. Qed.

Lemma flush_Inv P prog old : U old -> Inv P prog old [] (flush P old, false).
Proof. intros HU. unfold Inv. cbn [fst snd]. split; [apply flush_U; auto|]. split; [|split].
  - intros k _. apply flush_incl.
  - intros k j H. apply flush_loc in H. eauto.
  - discriminate. Qed.

(* ---------- the processing order from wf_procb ---------- *)
Section Order.
Variable P : proc.
Variable prog : list instr.
Hypothesis Hwf : wf_procb P = true.

Lemma wf_nodup : NoDup (unit_names P).
Proof. unfold wf_procb in Hwf. apply andb_prop in Hwf. destruct Hwf as [H _].
  apply andb_prop in H. destruct H as [H _]. apply andb_prop in H. destruct H as [H _].
  apply nodupb_NoDup; auto. Qed.
Lemma wf_preds f : In f (funits P) ->
  NoDup (f_preds f) /\ forall p, In p (f_preds f) -> ~ In p (out_names P).
Proof. intros Hf. unfold wf_procb in Hwf. apply andb_prop in Hwf. destruct Hwf as [H _].
  apply andb_prop in H. destruct H as [H _]. apply andb_prop in H. destruct H as [_ H].
  rewrite forallb_forall in H. specialize (H f Hf). apply andb_prop in H. destruct H as [H1 H2].
  split; [apply nodupb_NoDup; auto|]. rewrite forallb_forall in H2. intros p Hp Ho.
  specialize (H2 p Hp). apply andb_prop in H2. destruct H2 as [_ H2].
  apply mem_str_In in Ho. rewrite Ho in H2. discriminate. Qed.
Lemma wf_sink : sink_first (p_int P) [] = true.
Proof. unfold wf_procb in Hwf. apply andb_prop in Hwf. destruct Hwf as [H _].
  apply andb_prop in H. destruct H as [_ H]. auto. Qed.

Lemma names_split :
  unit_names P = map u_name (p_in P ++ p_inout P) ++ map (fun f => nm f) (funits P).
Proof. unfold unit_names, all_units, funits. rewrite !map_app, !map_map, <- !app_assoc. reflexivity. Qed.
Lemma funits_nodup : NoDup (map (fun f => nm f) (funits P)).
Proof. pose proof wf_nodup as H. rewrite names_split in H. eapply NoDup_app_r; eauto. Qed.
Lemma in_port_not_funit u f : In u (p_inout P ++ p_in P) -> In f (funits P) -> u_name u <> nm f.
Proof. intros Hu Hf E. pose proof wf_nodup as H. rewrite names_split in H.
  apply (NoDup_app_disj _ _ (u_name u) H).
  - apply in_map. apply in_app_iff. apply in_app_iff in Hu. tauto.
  - rewrite E. apply (in_map (fun f => nm f)); auto. Qed.

Lemma okl_flat : forall l done,
  (forall f, In f l -> In f (funits P)) -> NoDup (map (fun f => nm f) l) ->
  (forall f, In f l -> ~ In (nm f) done) ->
  (forall f, In f l -> forall p, In p (f_preds f) -> ~ In p (map (fun f => nm f) l) /\ ~ In p done) ->
  okl P done l.
Proof. induction l as [|f t IH]; intros done Hfu Hn Hd Hp; simpl; auto.
  inversion Hn; subst. split.
  - unfold okf. split; [apply Hfu; left; auto|]. split; [apply Hd; left; auto|].
    split; [apply wf_preds, Hfu; left; auto|]. intros p Hin.
    destruct (Hp f (or_introl eq_refl) p Hin) as [X Y]. split; auto.
    intros ->. apply X. left; auto.
  - apply IH; auto.
    + intros g Hg. apply Hfu; right; auto.
    + intros g Hg [E|X]; [|apply (Hd g (or_intror Hg) X)].
      apply H1. rewrite E. apply (in_map (fun f => nm f)); auto.
    + intros g Hg p Hin. destruct (Hp g (or_intror Hg) p Hin) as [X Y]. split.
      * intros Z. apply X. right; auto.
      * intros [E|Z]; [|tauto]. apply X. left; auto. Qed.

Lemma okl_sink D0 : forall l seen done,
  sink_first l seen = true ->
  (forall x, In x done -> In x seen \/ In x D0) ->
  (forall f, In f l -> In f (funits P)) -> NoDup (map (fun f => nm f) l) ->
  (forall f, In f l -> ~ In (nm f) done) ->
  (forall f, In f l -> forall p, In p (f_preds f) -> ~ In p D0) ->
  okl P done l.
Proof. induction l as [|f t IH]; intros seen done Hs Hdn Hfu Hn Hd Hp; simpl; auto.
  inversion Hn; subst. cbn [sink_first] in Hs. apply andb_prop in Hs. destruct Hs as [Hs1 Hs2].
  apply negb_true_iff in Hs1.
  assert (Hpre : forall p, In p (f_preds f) -> ~ In p (nm f :: seen)).
  { intros p Hin Hm. apply mem_str_In in Hm.
    assert (existsb (fun p => mem_str p (nm f :: seen)) (f_preds f) = true)
      by (apply existsb_exists; eauto). congruence. }
  split.
  - unfold okf. split; [apply Hfu; left; auto|]. split; [apply Hd; left; auto|].
    split; [apply wf_preds, Hfu; left; auto|]. intros p Hin. split.
    + intros ->. apply (Hpre _ Hin). left; auto.
    + intros X. destruct (Hdn p X) as [Y|Y].
      * apply (Hpre _ Hin). right; auto.
      * apply (Hp f (or_introl eq_refl) p Hin Y).
  - apply (IH (nm f :: seen)); auto.
    + intros x [<-|X]; [left; left; auto|]. destruct (Hdn x X); [left; right|right]; auto.
    + intros g Hg. apply Hfu; right; auto.
    + intros g Hg [E|X]; [|apply (Hd g (or_intror Hg) X)].
      apply H1. rewrite E. apply (in_map (fun f => nm f)); auto.
    + intros g Hg. apply Hp. right; auto. Qed.

Lemma wf_okl : okl P [] (funits P).
Proof. unfold funits. apply okl_app. pose proof funits_nodup as Hn. unfold funits in Hn.
  rewrite map_app in Hn.
  assert (Hout : forall x, In x (map (fun f => nm f) (p_out P)) -> In x (out_names P)).
  { intros x Hx. unfold out_names. apply in_or_app. right; auto. }
  split.
  - apply okl_flat; auto.
    + intros f Hf. apply in_or_app; auto.
    + eapply NoDup_app_l; eauto.
    + intros f Hf p Hp. split; auto. intros X. apply Hout in X.
      refine (proj2 (wf_preds f _) p Hp X). apply in_or_app; auto.
  - apply (okl_sink (out_names P) _ []).
    + apply wf_sink.
    + intros x Hx. right. apply Hout. unfold dn in Hx. rewrite app_nil_r in Hx.
      apply in_rev in Hx. auto.
    + intros f Hf. apply in_or_app; auto.
    + eapply NoDup_app_r; eauto.
    + intros f Hf Hx. unfold dn in Hx. rewrite app_nil_r in Hx. apply in_rev in Hx.
      apply (NoDup_app_disj _ _ (nm f) Hn); auto. apply (in_map (fun f => nm f)); auto.
    + intros f Hf p Hp. refine (proj2 (wf_preds f _) p Hp). apply in_or_app; auto. Qed.
End Order.

(* ---------- issue ---------- *)
Definition FR (r : record) (n : nat) : Prop := forall k i, loc r i k -> i < n.

Lemma try_ports_inv cat : forall ports r mu ix r' m',
  try_ports cat ports r mu ix = Some (r', m') ->
  exists u, In u ports /\ r' = set r (u_name u) (get r (u_name u) ++ [(ix, LU)]).
Proof. induction ports as [|u t IH]; intros r mu ix r' m' H; simpl in H; [discriminate|].
  destruct (mem_str cat (u_caps u)).
  - destruct ((mu && mem_str cat (u_mem u)) || (length (get r (u_name u)) =? u_width u)).
    + apply IH in H. destruct H as [v [Hv E]]. exists v. split; auto. right; auto.
    + inversion H; subst. exists u. split; auto. left; auto.
  - apply IH in H. destruct H as [v [Hv E]]. exists v. split; auto. right; auto. Qed.

Lemma loc_add (r : record) k ix i k' :
  loc (set r k (get r k ++ [(ix, LU)])) i k' <-> loc r i k' \/ (k' = k /\ i = ix).
Proof. unfold loc, ixs. destruct (string_dec k k') as [<-|Hne].
  - rewrite gss, map_app, in_app_iff. simpl. intuition.
  - rewrite gso; auto. intuition. congruence. Qed.

Lemma add_U (r : record) k ix : U r -> (forall k', ~ loc r ix k') -> U (set r k (get r k ++ [(ix, LU)])).
Proof. intros [H1 H2] Hf. split.
  - intros k'. unfold ixs. destruct (string_dec k k') as [<-|Hne].
    + rewrite gss, map_app. simpl. apply NoDup_app_intro; [apply H1|repeat constructor; auto|].
      intros x Hx [<-|[]]. apply (Hf k Hx).
    + rewrite gso; auto. apply H1.
  - intros k1 k2 i G1 G2. apply loc_add in G1, G2.
    destruct G1 as [G1|[-> ->]], G2 as [G2|[-> G2]]; eauto.
    + subst. exfalso. eapply Hf; eauto.
    + exfalso. eapply Hf; eauto. Qed.

Lemma fill_inputs_props prog ports : forall fuel r mu ent r2 ent',
  U r -> FR r ent -> fill_inputs fuel prog ports r mu ent = (r2, ent') ->
  U r2 /\ FR r2 ent' /\
  (forall k i, loc r2 i k -> loc r i k \/ ent <= i) /\
  (forall k i, loc r i k -> loc r2 i k) /\
  (forall k, ~ In k (map u_name ports) -> get r2 k = get r k).
Proof. induction fuel as [|fu IH]; intros r mu ent r2 ent' HU HF H; simpl in H.
  - inversion H; subst. split; [|split; [|split; [|split]]]; auto.
  - destruct (nth_error prog ent) as [ins|]; [|inversion H; subst; split; [|split; [|split; [|split]]]; auto].
    destruct (try_ports (i_cat ins) ports r mu ent) as [[r' m']|] eqn:E;
      [|inversion H; subst; split; [|split; [|split; [|split]]]; auto].
    destruct (try_ports_inv _ _ _ _ _ _ _ E) as [u [Hu ->]].
    assert (Hfresh : forall k', ~ loc r ent k') by (intros k' X; apply HF in X; lia).
    destruct (IH _ _ _ _ _ (add_U r (u_name u) ent HU Hfresh)
                (fun k i X => match proj1 (loc_add r (u_name u) ent i k) X with
                              | or_introl Y => Nat.lt_lt_succ_r _ _ (HF k i Y)
                              | or_intror (conj _ Y) => eq_ind_r (fun z => z < S ent) (Nat.lt_succ_diag_r ent) Y
                              end) H) as (G1 & G2 & G3 & G4 & G5).
    split; [exact G1|]. split; [exact G2|]. split; [|split].
    + intros k i X. destruct (G3 k i X) as [Y|Y]; [|right; lia].
      apply loc_add in Y. destruct Y as [Y|[_ ->]]; auto.
    + intros k i X. apply G4. apply loc_add. auto.
    + intros k Hk. rewrite G5; auto. apply gso. intros Eq. apply Hk. rewrite <- Eq.
      apply in_map; auto. Qed.

(* ---------- hazards only relabel ---------- *)
Lemma stall_unit_props u old prog qs : forall es cl es' cl',
  stall_unit u old prog qs es cl = Ok (es', cl') ->
  map fst es' = map fst es /\
  forall i l', In (i, l') es' -> regs_loaded old i = true -> l' = LS.
Proof. induction es as [|[i l] t IH]; intros cl es' cl' H; simpl in H.
  - inversion H; subst. split; auto. intros ? ? [].
  - destruct (regs_loaded old i) eqn:Er.
    + destruct (stall_unit u old prog qs t cl) as [[t' c']|] eqn:E; [|discriminate].
      inversion H; subst. destruct (IH _ _ _ E) as [I1 I2]. split; [simpl; f_equal; auto|].
      intros j l' [X|X] Hj; [inversion X; auto|eauto].
    + destruct (nth_error prog i) as [ins|]; [|discriminate].
      destruct (regs_avail u i ins qs) as [[regs|]|]; [| |discriminate].
      * destruct (stall_unit u old prog qs t _) as [[t' c']|] eqn:E; [|discriminate].
        inversion H; subst. destruct (IH _ _ _ E) as [I1 I2]. split; [simpl; f_equal; auto|].
        intros j l' [X|X] Hj; [inversion X; subst; congruence|eauto].
      * destruct (stall_unit u old prog qs t cl) as [[t' c']|] eqn:E; [|discriminate].
        inversion H; subst. destruct (IH _ _ _ E) as [I1 I2]. split; [simpl; f_equal; auto|].
        intros j l' [X|X] Hj; [inversion X; subst; congruence|eauto]. Qed.

Lemma hazards_get P old prog qs : forall r cl r' cl',
  chk_hazards_units P old prog qs r cl = Ok (r', cl') ->
  map fst r' = map fst r /\
  forall k, (get r k = [] /\ get r' k = []) \/
            exists u c1 c2, stall_unit u (get old k) prog qs (get r k) c1 = Ok (get r' k, c2).
Proof. induction r as [|[n es] t IH]; intros cl r' cl' H; simpl in H.
  - inversion H; subst. split; auto.
  - destruct es as [|e es].
    + destruct (chk_hazards_units P old prog qs t cl) as [[t' c']|] eqn:E2; [|discriminate].
      inversion H; subst. destruct (IH _ _ _ E2) as [I1 I2]. split; [simpl; f_equal; auto|].
      intros k. simpl. destruct (String.eqb k n); auto.
    + destruct (find_unit P n) as [u|]; [|discriminate].
      destruct (stall_unit u (get old n) prog qs (e :: es) cl) as [[es' c']|] eqn:E; [|discriminate].
      destruct (chk_hazards_units P old prog qs t c') as [[t' c'']|] eqn:E2; [|discriminate].
      inversion H; subst. destruct (IH _ _ _ E2) as [I1 I2]. split; [simpl; f_equal; auto|].
      intros k. cbn [get]. destruct (String.eqb_spec k n) as [->|Hne]; auto.
      right. eauto. Qed.

Lemma hazards_ixs P old prog qs r cl r' cl' :
  chk_hazards_units P old prog qs r cl = Ok (r', cl') -> forall k, ixs r' k = ixs r k.
Proof. intros H k. destruct (hazards_get _ _ _ _ _ _ _ _ H) as [_ G]. unfold ixs.
  destruct (G k) as [[-> ->]|(u & c1 & c2 & E)]; auto.
  apply stall_unit_props in E. tauto. Qed.

Lemma hazards_LS P old prog qs r cl r' cl' :
  chk_hazards_units P old prog qs r cl = Ok (r', cl') ->
  forall k i l', In (i, l') (get r' k) -> regs_loaded (get old k) i = true -> l' = LS.
Proof. intros H k i l' Hin Hr. destruct (hazards_get _ _ _ _ _ _ _ _ H) as [_ G].
  destruct (G k) as [[_ X]|(u & c1 & c2 & E)]; [rewrite X in Hin; destruct Hin|].
  apply stall_unit_props in E. destruct E as [_ E]. eauto. Qed.

(* ---------- duplicate-free keys through a cycle ---------- *)
Lemma flush_ukeys P r : ukeys r -> ukeys (flush P r).
Proof. unfold flush. generalize (out_names P). intros ns. revert r.
  induction ns as [|n ns IH]; intros r H; cbn [fold_left]; auto.
  apply IH, set_ukeys, H. Qed.
Lemma clr_ukeys moved : forall r, ukeys r -> ukeys (clr r moved).
Proof. unfold clr. generalize (isort (fun a b => snd b <=? snd a) moved). intros l.
  induction l as [|c l IH]; intros r H; cbn [fold_left]; auto.
  apply IH, set_ukeys, H. Qed.
Lemma walk_ukeys prog f busy : forall cs r used moved, ukeys r ->
  ukeys (fst (fst (walk prog f busy cs r used moved))).
Proof. induction cs as [|c t IH]; intros r used moved H; cbn [walk]; auto.
  destruct (_ =? _); auto. destruct (_ && _); auto. apply IH, set_ukeys, H. Qed.
Lemma fill_unit_ukeys prog st f : ukeys (fst st) -> ukeys (fst (fill_unit prog st f)).
Proof. intros H. destruct st as [r busy]. unfold fill_unit. cbn [fst] in H.
  pose proof (walk_ukeys prog f busy (isort (fun a b => ix_of r a <=? ix_of r b) (cands prog f r)) r false [] H) as Hw.
  destruct (walk prog f busy _ r false []) as [[r' used] moved]. cbn [fst snd] in *.
  apply clr_ukeys; auto. Qed.
Lemma mov_flights_ukeys P prog r : ukeys r -> ukeys (fst (mov_flights P prog r)).
Proof. intros H. unfold mov_flights. generalize (p_out P ++ p_int P). intros l.
  assert (G: forall st, ukeys (fst st) -> ukeys (fst (fold_left (fill_unit prog) l st))).
  { induction l as [|f l IH]; intros st Hs; cbn [fold_left]; auto. apply IH, fill_unit_ukeys, Hs. }
  apply G. cbn [fst]. apply flush_ukeys, H. Qed.
Lemma fill_inputs_ukeys prog ports : forall fuel r mu ent, ukeys r ->
  ukeys (fst (fill_inputs fuel prog ports r mu ent)).
Proof. induction fuel as [|f IH]; intros r mu ent Hk; cbn [fill_inputs]; auto.
  destruct (nth_error prog ent) as [ins|]; auto.
  destruct (try_ports _ _ r mu ent) as [[r' m']|] eqn:E; auto.
  apply IH. destruct (try_ports_inv _ _ _ _ _ _ _ E) as [u [_ ->]]. apply set_ukeys, Hk. Qed.
