(* LD_spec.v -- the bridge between the loader's passes (graph level: LD_create, LD_clean, LD_term) and the
   declarative tables of spec/LoaderSpec.v (`mk_ctx d`: F, U1, kept, kept_preds, kept_succs). *)
From Coq Require Import Lia Permutation ZArith.
From PS Require Import Base Str Sim Graph Loader Diag LoaderSpec Lists Graph_facts
  LD_base LD_create LD_clean LD_term.

(* ====================================================================== *)
(* unfolding mk_ctx                                                        *)
(* ====================================================================== *)
Definition fedtab (d : desc) : list (string * list string) :=
  map (fun c => (c, fed_units (resolve d) (nd d) c)) (r_creg (resolve d)).
Definition Ftab (d : desc) : list (string * list string) :=
  map (fun u => (u, filter (fun c => mem_str u (assoc [] (fedtab d) c)) (r_creg (resolve d)))) (r_names (resolve d)).
Definition U1l (d : desc) : list string :=
  filter (fun u => match Ft (Ftab d) u with [] => false | _ => true end) (r_names (resolve d)).
Definition outs1 (d : desc) : list string := filter (fun o => mem_str o (U1l d)) (r_outputs (resolve d)).
Lemma c_r_eq d : c_r (mk_ctx d) = resolve d.
Proof. reflexivity. Qed.
Lemma c_d_eq d : c_d (mk_ctx d) = d.
Proof. reflexivity. Qed.
Lemma c_F_eq d : c_F (mk_ctx d) = Ftab d.
Proof. reflexivity. Qed.
Lemma c_U1_eq d : c_U1 (mk_ctx d) = U1l d.
Proof. reflexivity. Qed.
Lemma c_kept_eq d : c_kept (mk_ctx d) =
  filter (fun u => let seen := reach_from (nd d) (e1_succs_t (resolve d) (Ftab d) (U1l d)) [u] [u] in
                   existsb (fun o => mem_str o seen) (outs1 d)) (U1l d).
Proof. reflexivity. Qed.

Lemma rpath_ext (adj adj' : string -> list string) : (forall x y, In y (adj x) <-> In y (adj' x)) ->
  forall a b, rpath adj a b <-> rpath adj' a b.
Proof. intros H a b. split; apply rpath_sub; intros x y; apply H. Qed.

Lemma list_nil_iff {A} (a b : list A) : (forall x, In x a <-> In x b) -> (a = [] <-> b = []).
Proof. intros H. split; intros ->; [destruct b as [|x b]|destruct a as [|x a]]; auto;
  exfalso; apply (H x); left; auto. Qed.

(* ====================================================================== *)
(* the description graph                                                   *)
(* ====================================================================== *)
Section Created.
  Variables (d : desc) (g : graph) (at0 : attrs) (creg : list string).
  Hypothesis C : created d g at0 creg.
  Let r := resolve d.
  Let cx := mk_ctx d.

  Lemma br_names : r_names r = g_nodes g.
  Proof. symmetry. apply (cr_nodes _ _ _ _ C). Qed.
  Lemma br_names_nodup : NoDup (r_names r).
  Proof. rewrite br_names. apply (cr_gwf _ _ _ _ C). Qed.
  Lemma br_creg : r_creg r = creg.
  Proof. symmetry. apply (cr_creg _ _ _ _ C). Qed.
  Lemma br_creg_nodup : NoDup creg.
  Proof. apply (NoDup_map_inv' lower). apply (cr_creg_nd _ _ _ _ C). Qed.
  Lemma br_len : length (r_names r) <= nd d.
  Proof. unfold r, resolve, nd, d_names. cbn [r_names]. rewrite map_length. lia. Qed.

  Lemma br_r_succs x y : In y (r_succs r x) <-> In y (succs g x).
  Proof. rewrite in_r_es_succs. symmetry. apply (cr_succs _ _ _ _ C). Qed.
  Lemma br_r_preds x y : In x (r_preds r y) <-> In x (preds g y).
  Proof. rewrite in_r_es_preds. symmetry. apply (created_preds _ _ _ _ x y C). Qed.
  Lemma br_r_succs_names x y : In y (r_succs r x) -> In x (r_names r) /\ In y (r_names r).
  Proof. rewrite br_r_succs, br_names. apply (gwf_in g (cr_gwf _ _ _ _ C)). Qed.

  Lemma br_inputs : r_inputs r = in_ports_of g.
  Proof. unfold r_inputs, in_ports_of. rewrite br_names. apply filter_ext_in'. intros u _.
    unfold in_degree. pose proof (list_nil_iff (r_preds r u) (preds g u) (fun x => br_r_preds x u)) as H.
    destruct (r_preds r u), (preds g u); auto; exfalso; [apply proj1 in H|apply proj2 in H];
      specialize (H eq_refl); discriminate. Qed.
  Lemma br_outputs : r_outputs r = out_ports_of g.
  Proof. unfold r_outputs, out_ports_of. rewrite br_names. apply filter_ext_in'. intros u _.
    unfold out_degree. pose proof (list_nil_iff (r_succs r u) (succs g u) (fun x => br_r_succs u x)) as H.
    destruct (r_succs r u), (succs g u); auto; exfalso; [apply proj1 in H|apply proj2 in H];
      specialize (H eq_refl); discriminate. Qed.

  Lemma br_attr_dflt n : ~ In n (g_nodes g) -> attr_of at0 n = dflt_attr.
  Proof. rewrite (cr_nodes _ _ _ _ C). apply (cr_attr_dflt _ _ _ _ C). Qed.
  Lemma br_declares n c : declares r n c = true <-> In c (caps_of at0 n).
  Proof. destruct (in_dec_str n (d_names d)) as [H|H].
    - unfold d_names in H. apply in_map_iff in H. destruct H as [u [<- Hu]]. apply (created_declares _ _ _ _ u c C Hu).
    - unfold caps_of. rewrite (cr_attr_dflt _ _ _ _ C n H). simpl.
      unfold declares, r, resolve. cbn [r_ucaps]. rewrite assoc_map_notin; auto. simpl. split; [discriminate|tauto]. Qed.

  (* F *)
  Lemma br_fed_units c u : In u (fed_units r (nd d) c) <-> fed g at0 c u.
  Proof. unfold fed_units.
    set (srcs := filter (fun u => declares r u c) (r_inputs r)).
    set (adj := fun x => filter (fun s => declares r s c) (r_succs r x)).
    rewrite (reach_from_spec adj (r_names r)).
    - assert (Hsrc : forall s, In s srcs <-> In s (g_nodes g) /\ preds g s = [] /\ In c (caps_of at0 s)).
      { intros s. unfold srcs. rewrite filter_In, br_inputs, in_ports_In, br_declares. tauto. }
      assert (Hadj : forall x y, In y (adj x) <-> In y (succs g x) /\ In c (caps_of at0 y)).
      { intros x y. unfold adj. rewrite filter_In, br_r_succs, br_declares. tauto. }
      split.
      + intros [s [Hs Hp]]. induction Hp.
        * apply Hsrc in Hs. apply fed_src; tauto.
        * apply Hadj in H. destruct H as [H1 H2]. eapply fed_step; eauto.
          apply (gwf_sym g (cr_gwf _ _ _ _ C)). auto.
      + induction 1.
        * exists n. split; [apply Hsrc; auto|apply rp_refl].
        * destruct IHfed as [s [Hs Hp]]. exists s. split; auto. eapply rp_step; eauto.
          apply Hadj. split; auto. apply (gwf_sym g (cr_gwf _ _ _ _ C)). auto.
    - unfold srcs, r_inputs. apply NoDup_filter, NoDup_filter, br_names_nodup.
    - intros s Hs. unfold srcs, r_inputs in Hs. apply filter_In in Hs. destruct Hs as [Hs _].
      apply filter_In in Hs. tauto.
    - intros y _ z Hz. unfold adj in Hz. apply filter_In in Hz. destruct Hz as [Hz _].
      apply br_r_succs_names in Hz. tauto.
    - apply br_len. Qed.

  Lemma br_Ft u : In u (g_nodes g) ->
    Ft (Ftab d) u = filter (fun c => mem_str u (fed_units r (nd d) c)) creg.
  Proof. intros Hu. unfold Ft, Ftab. fold r. rewrite br_creg.
    rewrite (assoc_map_self [] (fun u => filter (fun c => mem_str u (assoc [] (fedtab d) c)) creg)).
    - apply filter_ext_in'. intros c Hc. unfold fedtab. fold r. rewrite br_creg.
      rewrite (assoc_map_self [] (fun c => fed_units r (nd d) c)); auto.
    - rewrite br_names. auto. Qed.
  Lemma br_Ft_notin u : ~ In u (g_nodes g) -> Ft (Ftab d) u = [].
  Proof. intros Hu. unfold Ft, Ftab. apply assoc_notin. rewrite map_map. cbn [fst]. rewrite map_id.
    fold r. rewrite br_names. auto. Qed.
  Lemma br_F u c : In c (Ft (Ftab d) u) <-> fed g at0 c u.
  Proof. destruct (in_dec_str u (g_nodes g)) as [Hu|Hu].
    - rewrite br_Ft by auto. rewrite filter_In, mem_str_In, br_fed_units. split; [tauto|]. intros H. split; auto.
      apply fed_declares in H. apply (created_caps_in_reg _ _ _ _ u c C H).
    - rewrite br_Ft_notin by auto. split; [intros []|]. intros H. apply (fed_node g at0 c u (cr_gwf _ _ _ _ C)) in H. tauto. Qed.
  Lemma br_F_nodup u : NoDup (Ft (Ftab d) u).
  Proof. destruct (in_dec_str u (g_nodes g)) as [Hu|Hu].
    - rewrite br_Ft by auto. apply NoDup_filter, br_creg_nodup.
    - rewrite br_Ft_notin by auto. constructor. Qed.
  Lemma br_Fc u c : In c (Fc cx u) <-> fed g at0 c u.
  Proof. unfold Fc, cx. rewrite c_F_eq. apply br_F. Qed.
  Lemma br_Fc_nodup u : NoDup (Fc cx u).
  Proof. unfold Fc, cx. rewrite c_F_eq. apply br_F_nodup. Qed.
  Lemma br_shares p u : shares cx p u = true <-> exists c, fed g at0 c p /\ fed g at0 c u.
  Proof. unfold shares, shares_t, cx. rewrite c_F_eq, existsb_exists. split; intros [c [H1 H2]]; exists c.
    - apply mem_str_In in H2. rewrite <- !br_F. auto.
    - rewrite mem_str_In, !br_F. auto. Qed.

  (* ---------- after clean_struct and rm_empty_units ---------- *)
  Variables (order : list string) (gc : graph) (at1 : attrs) (g1 : graph).
  Hypothesis Ht : topo_sort g = Some order.
  Hypothesis Hc : clean_struct order (g, at0) = (gc, at1).
  Hypothesis Hr : rm_empty_units (gc, at1) = (g1, at1).

  Let CS := clean_struct_spec g at0 (cr_gwf _ _ _ _ C) (fun n => created_caps_nodup d g at0 creg n C) order gc at1 Ht Hc.

  Lemma br_gc_wf : gwf gc.
  Proof. apply CS. Qed.
  Lemma br_caps1 n c : In c (caps_of at1 n) <-> fed g at0 c n.
  Proof. destruct CS as [_ [_ [S3 [S4 _]]]]. destruct (in_dec_str n (g_nodes g)) as [Hn|Hn].
    - apply S3; auto.
    - unfold caps_of. rewrite S4, br_attr_dflt by auto. simpl. split; [intros []|].
      intros H. apply (fed_node g at0 c n (cr_gwf _ _ _ _ C)) in H. tauto. Qed.
  Lemma br_caps1_Fc n c : In c (caps_of at1 n) <-> In c (Fc cx n).
  Proof. rewrite br_caps1, br_Fc. tauto. Qed.
  Lemma br_caps1_nodup n : NoDup (caps_of at1 n).
  Proof. apply CS. Qed.
  Lemma br_caps1_sub n c : In c (caps_of at1 n) -> In c (caps_of at0 n).
  Proof. rewrite br_caps1. apply fed_declares. Qed.
  Lemma br_attr1 n : same_fixed (attr_of at1 n) (attr_of at0 n).
  Proof. apply CS. Qed.
  Lemma br_attr1_unit u : In u (d_units d) ->
    a_width (attr_of at1 (d_name u)) = Z.to_nat (d_width u) /\ a_rl (attr_of at1 (d_name u)) = d_rl u /\
    a_wl (attr_of at1 (d_name u)) = d_wl u /\ a_mem (attr_of at1 (d_name u)) = d_mem u.
  Proof. intros Hu. destruct (br_attr1 (d_name u)) as [H1 [H2 [H3 H4]]].
    rewrite H1, H2, H3, H4, (cr_attr _ _ _ _ C u Hu). simpl. auto. Qed.
  Lemma br_caps1_nil n : caps_of at1 n = [] <-> Fc cx n = [].
  Proof. apply list_nil_iff. intros c. apply br_caps1_Fc. Qed.

  Lemma br_g1 : induced gc g1 (fun x => caps_of at1 x <> []).
  Proof. apply (rm_empty_units_spec gc at1 g1 at1 br_gc_wf Hr). Qed.
  Lemma br_g1_wf : gwf g1.
  Proof. apply br_g1. Qed.
  Lemma br_g1_nodes x : In x (g_nodes g1) <-> In x (g_nodes g) /\ caps_of at1 x <> [].
  Proof. destruct br_g1 as [_ [H _]]. rewrite H. destruct CS as [_ [S2 _]]. rewrite S2. tauto. Qed.
  Lemma br_g1_preds n p : In p (preds g1 n) <-> In p (preds g n) /\ exists c, fed g at0 c n /\ fed g at0 c p.
  Proof. rewrite (induced_preds gc g1 _ br_gc_wf br_g1).
    destruct CS as [_ [_ [_ [_ [_ [_ S7]]]]]]. rewrite S7. split.
    - intros [[H1 H2] _]. split; auto. apply (fed_shared g at0 n p (cr_gwf _ _ _ _ C) H1). auto.
    - intros [H1 H2]. split; [split; auto; apply (fed_shared g at0 n p (cr_gwf _ _ _ _ C) H1); auto|].
      destruct H2 as [c [H2 H3]]. split; intros E.
      + apply br_caps1 in H2. rewrite E in H2. destruct H2.
      + apply br_caps1 in H3. rewrite E in H3. destruct H3. Qed.
  Lemma br_g1_succs u s : In s (succs g1 u) <-> In s (succs g u) /\ exists c, fed g at0 c u /\ fed g at0 c s.
  Proof. rewrite (gwf_sym g1 br_g1_wf), br_g1_preds, (gwf_sym g (cr_gwf _ _ _ _ C)).
    split; intros [H1 [c [H2 H3]]]; split; auto; exists c; auto. Qed.
  Lemma br_g1_acyclic : acyclic g1.
  Proof. eapply acyclic_sub; [|apply (topo_sort_some_acyclic g order (cr_gwf _ _ _ _ C) Ht)].
    intros a b Hb. apply br_g1_succs in Hb. tauto. Qed.

  Lemma br_U1 u : In u (U1 cx) <-> In u (g_nodes g1).
  Proof. unfold U1, cx. rewrite c_U1_eq. unfold U1l. fold r. rewrite filter_In, br_names, br_g1_nodes.
    rewrite br_caps1_nil. unfold Fc, cx. rewrite c_F_eq.
    destruct (Ft (Ftab d) u); split; intros [H1 H2]; split; auto; congruence. Qed.
  Lemma br_e1_succs u s : In s (e1_succs cx u) <-> In s (succs g1 u).
  Proof. unfold e1_succs, e1_succs_t. rewrite filter_In, andb_true_iff, mem_str_In.
    fold (U1 cx) (shares cx u s). unfold cx at 1. rewrite c_r_eq. fold r.
    rewrite br_r_succs, br_U1, br_shares, br_g1_succs. split; [tauto|]. intros [H1 H2]. split; auto. split; auto.
    apply br_g1_nodes. split; [apply (gwf_in g (cr_gwf _ _ _ _ C)) in H1; tauto|].
    destruct H2 as [c [_ H2]]. apply br_caps1 in H2. intros E. rewrite E in H2. destruct H2. Qed.

  (* ---------- after chk_terminals ---------- *)
  Variable g2 : graph.
  Hypothesis Hk : chk_terminals (S (length (g_nodes g1))) g1 (in_ports_of g) (out_ports_of g) = inl g2.

  Lemma br_g2 : induced g1 g2 (coreach g1 (out_ports_of g)) /\
                (forall x, In x (g_nodes g2) -> succs g2 x = [] -> In x (out_ports_of g)).
  Proof. pose proof (chk_terminals_spec (in_ports_of g) (out_ports_of g) (S (length (g_nodes g1))) g1
                       br_g1_wf br_g1_acyclic (Nat.lt_succ_diag_r _)) as H.
    rewrite Hk in H. exact H. Qed.
  Lemma br_g2_wf : gwf g2.
  Proof. apply br_g2. Qed.
  Lemma br_g2_acyclic : acyclic g2.
  Proof. eapply induced_acyclic; [apply br_g2|apply br_g1_acyclic]. Qed.
  Lemma br_g2_nodes x : In x (g_nodes g2) <-> In x (g_nodes g1) /\ coreach g1 (out_ports_of g) x.
  Proof. destruct br_g2 as [[_ [H _]] _]. apply H. Qed.
  Lemma br_g2_succs x y : In y (succs g2 x) <-> In y (succs g1 x) /\ In x (g_nodes g2) /\ In y (g_nodes g2).
  Proof. destruct br_g2 as [[_ [_ H]] _]. rewrite H, !br_g2_nodes. split; [|tauto].
    intros [H1 [H2 H3]]. apply (gwf_in g1 br_g1_wf) in H1 as H4. tauto. Qed.
  Lemma br_g2_preds x y : In y (preds g2 x) <-> In y (preds g1 x) /\ In x (g_nodes g2) /\ In y (g_nodes g2).
  Proof. rewrite <- (gwf_sym g2 br_g2_wf), br_g2_succs, (gwf_sym g1 br_g1_wf). tauto. Qed.
  Lemma br_g2_sub x : In x (g_nodes g2) -> In x (g_nodes g).
  Proof. rewrite br_g2_nodes, br_g1_nodes. tauto. Qed.

  Lemma br_kept u : In u (kept cx) <-> In u (g_nodes g2).
  Proof. unfold kept, cx. rewrite c_kept_eq, filter_In. fold (U1l d). rewrite <- c_U1_eq. fold cx (U1 cx).
    rewrite br_g2_nodes, br_U1. cbv zeta. rewrite existsb_exists.
    change (e1_succs_t (resolve d) (Ftab d) (U1 cx)) with (e1_succs cx).
    assert (K : In u (g_nodes g1) -> forall o, In o (reach_from (nd d) (e1_succs cx) [u] [u]) <-> rpath (succs g1) u o).
    { intros Hu o. rewrite (reach_from_spec (e1_succs cx) (r_names r)).
      - rewrite (rpath_ext (succs g1) (e1_succs cx)) by (intros; symmetry; apply br_e1_succs).
        split; [intros [s [[<-|[]] Hs]]; auto|]. intros Hs. exists u. split; auto. left; auto.
      - repeat constructor. simpl. tauto.
      - intros y [<-|[]]. rewrite br_names. apply br_g1_nodes in Hu. tauto.
      - intros y _ z Hz. apply br_e1_succs, br_g1_succs in Hz. destruct Hz as [Hz _].
        rewrite br_names. apply (gwf_in g (cr_gwf _ _ _ _ C)) in Hz. tauto.
      - apply br_len. }
    assert (Ho : forall o, In o (outs1 d) <-> In o (out_ports_of g) /\ In o (g_nodes g1)).
    { intros o. unfold outs1. fold r. rewrite filter_In, mem_str_In, br_outputs. rewrite <- c_U1_eq. fold cx (U1 cx).
      rewrite br_U1. tauto. }
    split.
    - intros [Hu [o [H1 H2]]]. split; auto. apply mem_str_In in H2. apply (K Hu) in H2. apply Ho in H1.
      exists o. tauto.
    - intros [Hu [o [H1 [H2 H3]]]]. split; auto. exists o. split; [apply Ho; auto|].
      apply mem_str_In. apply (K Hu). auto. Qed.

  Lemma br_kept_succs u s : In s (kept_succs cx u) <-> In s (succs g2 u).
  Proof. unfold kept_succs. rewrite dedup_by_In, filter_In, mem_str_In, br_kept, br_e1_succs, br_g2_succs.
    split; [|tauto]. intros [H1 H2]. split; auto. split; auto.
    apply br_g2_nodes. apply br_g2_nodes in H2. destruct H2 as [H2 [o [O1 [O2 O3]]]].
    split; [apply (gwf_in g1 br_g1_wf) in H1; tauto|]. exists o. split; auto. split; auto.
    eapply rpath_cons; eauto. Qed.
  Lemma br_kept_preds u p : In u (g_nodes g2) -> (In p (kept_preds cx u) <-> In p (preds g2 u)).
  Proof. intros Hu. unfold kept_preds. rewrite dedup_by_In, filter_In, andb_true_iff, mem_str_In, br_kept, br_shares.
    unfold cx at 1. rewrite c_r_eq. fold r. rewrite br_r_preds, br_g2_preds, br_g1_preds. split.
    - intros [H1 [H2 [c [H3 H4]]]]. split; auto. split; auto. exists c. auto.
    - intros [[H1 [c [H3 H4]]] [H5 H6]]. split; auto. split; auto. exists c. auto. Qed.
  (* a unit that is fed through a connection keeps a predecessor: ports of the result were ports of the description *)
  Lemma br_g2_in_port x : In x (g_nodes g2) -> preds g2 x = [] -> preds g x = [].
  Proof. intros Hx Hp. destruct (preds g x) as [|p0 ps] eqn:E; auto. exfalso.
    assert (Hx1 : In x (g_nodes g1)) by (apply br_g2_nodes in Hx; tauto).
    apply br_g1_nodes in Hx1. destruct Hx1 as [Hx0 Hx1]. apply nonnil_in in Hx1. destruct Hx1 as [c Hfc].
    apply br_caps1 in Hfc. inversion Hfc; subst; [congruence|].
    assert (Hp1 : In p (preds g1 x)) by (apply br_g1_preds; split; auto; exists c; auto).
    assert (Hp2 : In p (preds g2 x)).
    { apply br_g2_preds. split; auto. split; auto. apply br_g2_nodes. split.
      - apply (gwf_preds_in g1 br_g1_wf p x Hp1).
      - apply br_g2_nodes in Hx. destruct Hx as [_ [o [O1 [O2 O3]]]]. exists o. split; auto. split; auto.
        eapply rpath_cons; eauto. apply (gwf_sym g1 br_g1_wf). auto. }
    rewrite Hp in Hp2. destruct Hp2. Qed.
  Lemma br_g2_out_port x : In x (g_nodes g2) -> succs g2 x = [] -> succs g x = [].
  Proof. intros Hx Hs. destruct br_g2 as [_ H]. apply (H x Hx) in Hs. apply out_ports_In in Hs. tauto. Qed.
End Created.

(* ====================================================================== *)
(* the stages of a successful load                                         *)
(* ====================================================================== *)
Lemma load_stages d P : load_proc_desc d = LoadOk P ->
  exists s g order gc at1 g1 g2,
    add_units (d_units d) init_gs = inl s /\
    add_edges (d_edges d) (gs_ureg s) (gs_g s) = inl g /\
    topo_sort g = Some order /\
    clean_struct order (g, gs_at s) = (gc, at1) /\
    rm_empty_units (gc, at1) = (g1, at1) /\
    chk_terminals (S (length (g_nodes g1))) g1 (in_ports_of g) (out_ports_of g) = inl g2 /\
    filter (fun p => has_node g2 p) (in_ports_of g) <> [] /\
    do_cap_checks g2 at1 (dfs_postorder g2) (out_ports_of g2) (cap_units g2 at1) = None /\
    make_processor g2 at1 (gs_creg s) = LoadOk P.
Proof. unfold load_proc_desc. fold init_gs.
  destruct (add_units (d_units d) init_gs) as [s|e] eqn:E1; [|discriminate].
  destruct (add_edges (d_edges d) (gs_ureg s) (gs_g s)) as [g|e] eqn:E2; [|discriminate].
  destruct (topo_sort g) as [order|] eqn:E3; [|discriminate].
  destruct (clean_struct order (g, gs_at s)) as [gc at1] eqn:E4.
  destruct (rm_empty_units (gc, at1)) as [g1 at1'] eqn:E5.
  assert (at1' = at1) by (unfold rm_empty_units in E5; congruence). subst at1'.
  destruct (chk_terminals (S (length (g_nodes g1))) g1 (in_ports_of g) (out_ports_of g)) as [g2|e] eqn:E6;
    [|discriminate].
  destruct (filter (fun p => has_node g2 p) (in_ports_of g)) eqn:E7; [discriminate|].
  destruct (do_cap_checks g2 at1 (dfs_postorder g2) (out_ports_of g2) (cap_units g2 at1)) eqn:E8; [discriminate|].
  intros H. exists s, g, order, gc, at1, g1, g2. repeat (split; [auto; fail|]).
  split; [rewrite E7; discriminate|]. split; auto. Qed.
