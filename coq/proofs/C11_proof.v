(* C11_proof.v -- descriptions are rejected iff defective, with the documented error and culprit. *)
From Coq Require Import Lia Permutation ZArith.
From PS Require Import Base Str Sim Graph Loader Diag LoaderSpec Lists Graph_facts
  C12_loader LD_base LD_create LD_clean LD_term LD_spec C10_proof C09_proof
  C11_syn C11_locks C11_struct C11_bridge.

Lemma error_ok_struct d e :
  negb (syntactic_defect d) = true -> C11_struct_ok d e = true -> C11_error_ok d e = true.
Proof. intros H1 H2. destruct e; cbn [C11_struct_ok] in H2; try discriminate; cbn [C11_error_ok];
  rewrite H1; exact H2. Qed.

Lemma make_processor_err g at_ creg e : make_processor g at_ creg = LoadErr e ->
  (e = EAclAssert /\ mk_units (g_nodes g) at_ creg = None) \/ e = ECycle.
Proof. rewrite make_processor_unfold. destruct (mk_units (g_nodes g) at_ creg).
  - destruct (make_desc _ _ _ _); [discriminate|]. intros [= <-]. auto.
  - intros [= <-]. auto. Qed.

Lemma C11_error_sound_lemma :
  forall d e, acl_knownb d = true -> load_proc_desc d = LoadErr e -> C11_error_ok d e = true.
Proof. intros d e Hacl. unfold load_proc_desc. fold init_gs.
  destruct (add_units (d_units d) init_gs) as [s|e1] eqn:E1.
  2: { intros [= <-]. apply add_units_err in E1. destruct e1; try contradiction; cbn [C11_error_ok].
       - cbn [init_gs gs_ureg] in E1. unfold d_names. rewrite E1, !String.eqb_refl. reflexivity.
       - exact E1. }
  destruct (add_edges (d_edges d) (gs_ureg s) (gs_g s)) as [g|e2] eqn:E2.
  2: { intros [= <-]. apply add_edges_err in E2. rewrite (add_units_ureg d s E1) in E2.
       destruct e2; try contradiction; cbn [C11_error_ok].
       - exact E2.
       - destruct E2 as [H1 H2]. rewrite H1, H2. reflexivity. }
  pose proof (create_ok d s g E1 E2) as C.
  destruct (topo_sort g) as [order|] eqn:E3.
  2: { intros [= <-]. cbn [C11_error_ok].
       rewrite (units_only_no_defect d s E1), (created_has_cycle _ _ _ _ C). unfold is_dag. rewrite E3. reflexivity. }
  pose proof (created_topo_no_defect _ _ _ _ _ C E3) as Hsyn.
  destruct (clean_struct order (g, gs_at s)) as [gc at1] eqn:E4.
  destruct (rm_empty_units (gc, at1)) as [g1 at1'] eqn:E5.
  assert (at1' = at1) by (unfold rm_empty_units in E5; congruence). subst at1'.
  pose proof (bridge_ok d g (gs_at s) (gs_creg s) C order gc at1 g1 E3 E4 E5) as B.
  destruct (chk_terminals (S (length (g_nodes g1))) g1 (in_ports_of g) (out_ports_of g)) as [g2|e4] eqn:E6.
  2: { intros [= <-]. apply error_ok_struct; auto. eapply struct_dead; eauto. }
  destruct (br_g2 d g (gs_at s) (gs_creg s) C order gc at1 g1 E3 E4 E5 g2 E6) as [Hind _].
  destruct (filter (fun p => has_node g2 p) (in_ports_of g)) as [|p0 ps] eqn:E7.
  { intros [= <-]. apply error_ok_struct; auto. eapply struct_empty; eauto. }
  destruct (do_cap_checks g2 at1 (dfs_postorder g2) (out_ports_of g2) (cap_units g2 at1)) as [e5|] eqn:E8.
  { intros [= <-]. apply error_ok_struct; auto. eapply struct_caps; eauto. }
  intros Hm. exfalso. apply make_processor_err in Hm as Hm'. destruct Hm' as [[-> Hmk]| ->].
  - revert Hmk. apply mk_units_some. intros n c Hn Hc.
    assert (Hn1 : In n (g_nodes g1)) by (apply (f_nodes2 g g1 g2 Hind) in Hn; tauto).
    destruct (g1_sub d g (gs_at s) (gs_creg s) C order gc at1 g1 E3 E4 E5 n Hn1) as [x [Hx <-]].
    destruct (br_attr1_unit d g (gs_at s) (gs_creg s) C order gc at1 E3 E4 x Hx) as [_ [_ [_ M]]].
    rewrite M in Hc. rewrite (cr_creg _ _ _ _ C). unfold acl_knownb in Hacl.
    rewrite forallb_forall in Hacl. specialize (Hacl x Hx). rewrite forallb_forall in Hacl. auto.
  - revert Hm. apply make_processor_not_cycle.
    + apply (f_wf2 g g1 g2 Hind).
    + apply (f_ac2 d g g1 g2 at1 B Hind). Qed.

Lemma C11_accept_sound_lemma :
  forall d P, load_proc_desc d = LoadOk P -> C11_accept_ok d P = true.
Proof. intros d P H. unfold C11_accept_ok.
  rewrite (C09_sound_lemma d P H), (C10_exact_lemma d P H), !andb_true_r.
  destruct (load_stages d P H) as [s [g [order [gc [at1 [g1 [g2 [E1 [E2 [E3 _]]]]]]]]]].
  eapply created_topo_no_defect; eauto. apply create_ok; eauto. Qed.

Lemma C11_iff_lemma :
  forall d, acl_knownb d = true ->
    (exists P, load_proc_desc d = LoadOk P /\ C11_accept_ok d P = true) \/
    (exists e, load_proc_desc d = LoadErr e /\ C11_error_ok d e = true).
Proof. intros d Hacl. destruct (load_proc_desc d) as [P|e] eqn:E.
  - left. exists P. split; auto. apply C11_accept_sound_lemma; auto.
  - right. exists e. split; auto. apply C11_error_sound_lemma; auto. Qed.

(* the listed finding: a memoryAccess entry naming an undeclared capability *)
Definition acl_cex : desc :=
  {| d_units := [ {| d_name := "u"; d_width := 1%Z; d_caps := ["ALU"%string]; d_rl := true; d_wl := true;
                     d_mem := ["MEM"%string] |} ];
     d_edges := [] |}.
Lemma C11_refuted_acl_lemma : exists d, load_proc_desc d = LoadErr EAclAssert.
Proof. exists acl_cex. vm_compute. reflexivity. Qed.
