(* C10_proof.v -- the loaded processor is exactly the usable part of the description. *)
From Coq Require Import Lia Permutation ZArith.
From PS Require Import Base Str Sim Graph Loader Diag LoaderSpec Lists Graph_facts
  C12_lists C12_graph C12_desc C12_loader LD_base LD_create LD_clean LD_term LD_make LD_spec.

Lemma same_set_intro a b : (forall x, In x a <-> In x b) -> same_set a b = true.
Proof. intros H. unfold same_set. apply list_eqb_str_eq. apply sort_str_set_eq; try apply dedup_by_NoDup.
  intros x. rewrite !dedup_by_In. auto. Qed.

(* everything known about a successful load, in one place *)
Record loaded (d : desc) (P : proc) (g : graph) (at0 : attrs) (creg : list string)
              (order : list string) (gc : graph) (at1 : attrs) (g1 g2 : graph) : Prop := {
  ld_created : created d g at0 creg;
  ld_topo : topo_sort g = Some order;
  ld_clean : clean_struct order (g, at0) = (gc, at1);
  ld_rm : rm_empty_units (gc, at1) = (g1, at1);
  ld_term : chk_terminals (S (length (g_nodes g1))) g1 (in_ports_of g) (out_ports_of g) = inl g2;
  ld_nonempty : filter (fun p => has_node g2 p) (in_ports_of g) <> [];
  ld_caps : do_cap_checks g2 at1 (dfs_postorder g2) (out_ports_of g2) (cap_units g2 at1) = None;
  ld_g2_wf : gwf g2;
  ld_g2_acyclic : acyclic g2;
  ld_made : made g2 at1 creg P }.

Theorem load_ok_loaded d P : load_proc_desc d = LoadOk P ->
  exists g at0 creg order gc at1 g1 g2, loaded d P g at0 creg order gc at1 g1 g2.
Proof. intros H. apply load_stages in H.
  destruct H as [s [g [order [gc [at1 [g1 [g2 [E1 [E2 [E3 [E4 [E5 [E6 [E7 [E8 E9]]]]]]]]]]]]]]].
  pose proof (create_ok d s g E1 E2) as C.
  pose proof (br_g2_wf d g (gs_at s) (gs_creg s) C order gc at1 g1 E3 E4 E5 g2 E6) as W.
  exists g, (gs_at s), (gs_creg s), order, gc, at1, g1, g2. constructor; auto.
  - apply (br_g2_acyclic d g (gs_at s) (gs_creg s) C order gc at1 g1 E3 E4 E5 g2 E6).
  - apply make_processor_made; auto. Qed.

Lemma C10_exact_lemma : forall d P, load_proc_desc d = LoadOk P -> C10_checkb d P = true.
Proof. intros d P H. destruct (load_ok_loaded d P H) as [g [at0 [creg [order [gc [at1 [g1 [g2 L]]]]]]]].
  destruct L as [C Ht Hc Hr Hk _ _ W A M].
  set (cx := mk_ctx d).
  assert (Kept : forall u, In u (kept cx) <-> In u (g_nodes g2))
    by (intros u; apply (br_kept d g at0 creg C order gc at1 g1 Ht Hc Hr g2 Hk)).
  assert (KP : forall u p, In u (g_nodes g2) -> (In p (kept_preds cx u) <-> In p (preds g2 u)))
    by (intros u p; apply (br_kept_preds d g at0 creg C order gc at1 g1 Ht Hc Hr g2 Hk)).
  unfold C10_checkb. fold cx. repeat (apply andb_true_iff; split).
  - (* the kept units and nothing else *)
    apply same_set_intro. intros x. rewrite (made_names_In g2 at1 creg P M), Kept. tauto.
  - apply nodupb_str. apply (made_names_NoDup g2 at1 creg P W M).
  - (* every unit as declared with the fed capabilities *)
    apply forallb_forall. intros u Hu. apply (made_all_units g2 at1 creg P M) in Hu.
    destruct Hu as [n [Hn ->]]. rewrite the_unit_name.
    assert (Hn0 : In n (d_names d)).
    { rewrite <- (cr_nodes _ _ _ _ C). apply (br_g2_sub d g at0 creg C order gc at1 g1 Ht Hc Hr g2 Hk); auto. }
    unfold d_names in Hn0. apply in_map_iff in Hn0. destruct Hn0 as [x [<- Hx]].
    rewrite (created_d_unit d g at0 creg x C Hx).
    destruct (br_attr1_unit d g at0 creg C order gc at1 Ht Hc x Hx) as [A1 [A2 [A3 A4]]].
    replace (the_unit at1 creg (d_name x)) with (expected_unit cx x); [apply unit_eqb_refl|].
    unfold expected_unit, the_unit, mk_unit. rewrite A1, A2, A3, A4. f_equal.
    + apply sort_str_set_eq.
      * apply (br_Fc_nodup d g at0 creg C).
      * apply (br_caps1_nodup d g at0 creg C order gc at1 Ht Hc (d_name x)).
      * intros c. symmetry. apply (br_caps1_Fc d g at0 creg C order gc at1 Ht Hc).
    + unfold cx. rewrite c_r_eq, (br_creg d g at0 creg C). auto.
  - (* predecessors are the kept connections *)
    apply forallb_forall. intros f Hf. apply (made_funits g2 at1 creg P M) in Hf.
    destruct Hf as [n [Hn [Hp ->]]]. cbn [the_funit f_preds f_model the_unit mk_unit u_name].
    apply andb_true_iff. split.
    + apply same_set_intro. intros p. rewrite sort_str_In, KP; tauto.
    + destruct (sort_str (preds g2 n)) eqn:E; auto. rewrite sort_str_nil in E. congruence.
  - (* input ports have no kept predecessor *)
    apply forallb_forall. intros u Hu. apply (made_ports g2 at1 creg P M) in Hu.
    destruct Hu as [n [Hn [Hp ->]]]. rewrite the_unit_name.
    destruct (kept_preds cx n) as [|p l] eqn:E; auto.
    assert (Hc' : In p (preds g2 n)) by (apply KP; auto; rewrite E; left; auto).
    rewrite Hp in Hc'. destruct Hc'.
  - (* input ports were input ports *)
    apply forallb_forall. intros u Hu. apply (made_ports g2 at1 creg P M) in Hu.
    destruct Hu as [n [Hn [Hp ->]]]. rewrite the_unit_name. apply mem_str_In.
    unfold cx. rewrite c_r_eq, (br_inputs d g at0 creg C). apply in_ports_In. split.
    + apply (br_g2_sub d g at0 creg C order gc at1 g1 Ht Hc Hr g2 Hk); auto.
    + apply (br_g2_in_port d g at0 creg C order gc at1 g1 Ht Hc Hr g2 Hk); auto.
  - (* output ports were output ports *)
    apply forallb_forall. intros o Ho. apply (made_out_names g2 at1 creg P M) in Ho. destruct Ho as [H1 H2].
    apply mem_str_In. unfold cx. rewrite c_r_eq, (br_outputs d g at0 creg C).
    apply (proj2 (br_g2 d g at0 creg C order gc at1 g1 Ht Hc Hr g2 Hk)); auto. Qed.
