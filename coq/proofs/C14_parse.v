(* C14_parse.v -- what the parser does with one rendered instruction line of the right shape. *)
From Coq Require Import Lia.
From PS Require Import Base Str Program TextSpec C14_strings.
Open Scope string_scope.

(* the text after the first operand, with the trailing blanks folded in *)
Fixpoint tailstr (rest : list (string * string * string)) (trail : string) : string :=
  match rest with
  | [] => trail
  | (b, a, op) :: r => b ++ String ","%char (a ++ op ++ tailstr r trail)
  end.

Lemma fold_tailstr rest trail :
  fold_right (fun (x : string * string * string) acc => let '(b, a, op) := x in b ++ "," ++ a ++ op ++ acc) "" rest
  ++ trail = tailstr rest trail.
Proof. induction rest as [|[[b a] op] r IH]; cbn [fold_right tailstr]; [reflexivity|].
  rewrite <- IH. rewrite !sapp_assoc. reflexivity. Qed.

Lemma render_instr_eq lead mn sep op0 rest trail :
  render_line (RInstr lead mn sep op0 rest trail) = lead ++ mn ++ sep ++ op0 ++ tailstr rest trail.
Proof. unfold render_line. rewrite fold_tailstr. reflexivity. Qed.

Definition rest_shape (rest : list (string * string * string)) : bool :=
  forallb (fun x : string * string * string => let '(b, a, op) := x in all_ws b && all_ws a && opnd_shape op) rest.

(* the comma-separated pieces of the (right-stripped) operand text strip to the operands *)
Lemma pieces trail : wsb trail = true ->
  forall rest a op, wsb a = true -> opnd_shape op = true -> rest_shape rest = true ->
    map strip (split_on_comma (rstrip (a ++ op ++ tailstr rest trail))) = op :: map snd rest.
Proof. intros Htr. induction rest as [|[[b a'] op'] r IH]; intros a op Ha Hop Hrest.
  - cbn [tailstr map]. apply opnd_shape_inv in Hop. destruct Hop as [Hnc Hst].
    destruct op as [|c t].
    + cbn [append]. rewrite rstrip_ws by (apply wsb_app_true; auto). reflexivity.
    + destruct (strip_fix_parts _ Hst) as [HL HR].
      rewrite <- sapp_assoc. rewrite rstrip_app_ws by auto.
      rewrite rstrip_app_keep by (rewrite HR; discriminate). rewrite HR.
      rewrite split_nocomma by (rewrite nocomma_app, Hnc, wsb_nocomma; auto).
      cbn [map]. rewrite strip_pad_l; auto.
  - unfold rest_shape in Hrest. cbn [forallb] in Hrest. apply andb_true_iff in Hrest. destruct Hrest as [H1 Hr].
    apply andb_true_iff in H1. destruct H1 as [H1 Hop']. apply andb_true_iff in H1. destruct H1 as [Hb Ha'].
    apply all_ws_true in Hb. apply all_ws_true in Ha'.
    cbn [tailstr map snd]. set (X := a' ++ op' ++ tailstr r trail).
    replace (a ++ op ++ b ++ String ","%char X) with ((a ++ op ++ b) ++ String ","%char X)
      by (rewrite !sapp_assoc; reflexivity).
    rewrite rstrip_app_keep by (apply rstrip_cons_nonws_ne, is_ws_comma).
    rewrite rstrip_cons_nonws by apply is_ws_comma.
    destruct (opnd_shape_inv _ Hop) as [Hnc Hst].
    rewrite split_comma_app
      by (rewrite !nocomma_app, Hnc, !wsb_nocomma; auto).
    cbn [map]. rewrite strip_pad by auto. f_equal. unfold X. apply IH; auto. Qed.

Lemma rstrip_ops_ne op0 rest trail :
  strip op0 = op0 -> (op0 <> "" \/ rest <> []) -> rstrip (op0 ++ tailstr rest trail) <> "".
Proof. intros Hst H. destruct op0 as [|c t].
  - destruct H as [H|H]; [congruence|]. destruct rest as [|[[b a] op] r]; [congruence|].
    cbn [append tailstr]. rewrite rstrip_app_keep by (apply rstrip_cons_nonws_ne, is_ws_comma).
    apply sapp_ne_r. apply rstrip_cons_nonws_ne, is_ws_comma.
  - destruct (strip_fix_starts _ Hst) as [E|E]; [discriminate|]. cbn [starts_nonws] in E.
    apply negb_true_iff in E. cbn [append]. apply rstrip_cons_nonws_ne; auto. Qed.

Definition instr_of (n : nat) (mn : string) (r : (list string * list string) + code_err)
  : (pinstr * list string) + code_err :=
  match r with
  | inr e => inr e
  | inl ([], _) => inr (NoOperands n mn)
  | inl (dst :: srcs, reg') =>
      inl ({| pi_srcs := sorted_uniq srcs; pi_dst := dst; pi_name := mn; pi_line := n |}, reg')
  end.

(* a line of the right shape strips to a non-empty text on which create_instr sees exactly the
   written mnemonic and operands *)
Lemma create_instr_shape lead mn sep op0 rest trail :
  rline_shape_ok (RInstr lead mn sep op0 rest trail) = true ->
  strip (render_line (RInstr lead mn sep op0 rest trail)) <> ""
  /\ forall n reg, create_instr n (strip (render_line (RInstr lead mn sep op0 rest trail))) reg
                   = instr_of n mn (get_operands (op0 :: map snd rest) 1 n mn reg).
Proof. intros H. cbn [rline_shape_ok] in H.
  apply andb_true_iff in H. destruct H as [H Hne].
  apply andb_true_iff in H. destruct H as [H Htr].
  apply andb_true_iff in H. destruct H as [H Hrest].
  apply andb_true_iff in H. destruct H as [H Hop0].
  apply andb_true_iff in H. destruct H as [H Hsepne].
  apply andb_true_iff in H. destruct H as [H Hsep].
  apply andb_true_iff in H. destruct H as [Hlead Hmn].
  apply all_ws_true in Hlead. apply all_ws_true in Hsep. apply all_ws_true in Htr.
  apply negb_true_iff in Hsepne. apply String.eqb_neq in Hsepne.
  destruct (opnd_shape_inv _ Hop0) as [Hnc0 Hst0].
  assert (Hne' : op0 <> "" \/ rest <> []).
  { apply orb_true_iff in Hne. destruct Hne as [E|E].
    - left. apply negb_true_iff in E. apply String.eqb_neq in E. auto.
    - right. destruct rest; [discriminate|discriminate]. }
  pose proof (rstrip_ops_ne op0 rest trail Hst0 Hne') as HT.
  set (T := op0 ++ tailstr rest trail) in *.
  assert (Hstrip : strip (render_line (RInstr lead mn sep op0 rest trail)) = mn ++ sep ++ rstrip T).
  { rewrite render_instr_eq. fold T. unfold strip. rewrite lstrip_ws_app by auto.
    rewrite lstrip_app_starts by (apply token_starts; auto).
    rewrite rstrip_app_keep.
    - rewrite rstrip_app_keep by auto. reflexivity.
    - rewrite rstrip_app_keep by auto. apply sapp_ne_r; auto. }
  rewrite Hstrip. split.
  - apply sapp_ne_r, sapp_ne_r; auto.
  - intros n reg. unfold create_instr.
    destruct (tokenb_inv _ Hmn) as [_ [Hmnws _]].
    rewrite split_ws1_tok' by auto.
    unfold split_operands. rewrite split_lstrip.
    unfold T. change (op0 ++ tailstr rest trail) with ("" ++ op0 ++ tailstr rest trail).
    rewrite (pieces trail Htr rest "" op0) by auto.
    unfold instr_of. reflexivity. Qed.

Lemma rline_ok_shape lead mn sep op0 rest trail :
  rline_ok (RInstr lead mn sep op0 rest trail) = true ->
  rline_shape_ok (RInstr lead mn sep op0 rest trail) = true.
Proof. cbn [rline_ok rline_shape_ok]. intros H.
  apply andb_true_iff in H. destruct H as [H Htr].
  apply andb_true_iff in H. destruct H as [H Hrest].
  apply andb_true_iff in H. destruct H as [H Hop0].
  rewrite H, Htr, (token_opnd_shape _ Hop0). cbn [andb].
  assert (E : negb (String.eqb op0 "") = true).
  { apply tokenb_inv in Hop0. destruct Hop0 as [E _]. apply negb_true_iff. apply String.eqb_neq; auto. }
  rewrite E. cbn [orb]. rewrite !andb_true_r.
  rewrite forallb_forall in *. intros [[b a] op] Hin. specialize (Hrest _ Hin). cbn beta iota in Hrest.
  apply andb_true_iff in Hrest. destruct Hrest as [Hba Hop]. rewrite Hba, (token_opnd_shape _ Hop). reflexivity. Qed.

Lemma rline_ok_nonempty_ops lead mn sep op0 rest trail :
  rline_ok (RInstr lead mn sep op0 rest trail) = true ->
  Forall (fun o => o <> "") (op0 :: map snd rest).
Proof. cbn [rline_ok]. intros H.
  apply andb_true_iff in H. destruct H as [H Htr].
  apply andb_true_iff in H. destruct H as [H Hrest].
  apply andb_true_iff in H. destruct H as [H Hop0].
  constructor; [apply tokenb_inv in Hop0; tauto|].
  rewrite forallb_forall in Hrest. apply Forall_forall. intros o Ho. apply in_map_iff in Ho.
  destruct Ho as [[[b a] op] [E Hin]]. cbn [snd] in E. subst. specialize (Hrest _ Hin). cbn beta iota in Hrest.
  apply andb_true_iff in Hrest. destruct Hrest as [_ Hop]. apply tokenb_inv in Hop. tauto. Qed.
