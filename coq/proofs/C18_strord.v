(* C18_strord.v -- String.compare is a strict total order (transitivity is missing from the 8.16 stdlib). *)
From Coq Require Import String Ascii NArith Lia Bool.

Lemma acompare_refl a : Ascii.compare a a = Eq.
Proof. unfold Ascii.compare. apply N.compare_refl. Qed.

Lemma acompare_eq a b : Ascii.compare a b = Eq <-> a = b.
Proof. split; [apply Ascii.compare_eq_iff|intros ->; apply acompare_refl]. Qed.

Lemma acompare_lt_trans a b c :
  Ascii.compare a b = Lt -> Ascii.compare b c = Lt -> Ascii.compare a c = Lt.
Proof. unfold Ascii.compare. rewrite !N.compare_lt_iff. lia. Qed.

Lemma scompare_refl s : String.compare s s = Eq.
Proof. induction s; simpl; auto. rewrite acompare_refl; auto. Qed.

Lemma scompare_eq s t : String.compare s t = Eq <-> s = t.
Proof. split; [apply String.compare_eq_iff|intros ->; apply scompare_refl]. Qed.

Lemma scompare_lt_trans s t u :
  String.compare s t = Lt -> String.compare t u = Lt -> String.compare s u = Lt.
Proof.
  revert t u; induction s as [|a s IH]; intros [|b t] [|c u]; simpl; try congruence.
  destruct (Ascii.compare a b) eqn:Eab; try congruence;
  destruct (Ascii.compare b c) eqn:Ebc; try congruence; intros H1 H2.
  - apply acompare_eq in Eab, Ebc; subst. rewrite acompare_refl. eauto.
  - apply acompare_eq in Eab; subst. rewrite Ebc; auto.
  - apply acompare_eq in Ebc; subst. rewrite Eab; auto.
  - rewrite (acompare_lt_trans _ _ _ Eab Ebc); auto.
Qed.

Lemma scompare_gt_lt s t : String.compare s t = Gt <-> String.compare t s = Lt.
Proof. rewrite (String.compare_antisym s t). destruct (String.compare t s); simpl; split; congruence. Qed.

Lemma sltb_irrefl s : String.ltb s s = false.
Proof. unfold String.ltb. rewrite scompare_refl; auto. Qed.

Lemma sltb_lt s t : String.ltb s t = true <-> String.compare s t = Lt.
Proof. unfold String.ltb. destruct (String.compare s t); split; congruence. Qed.

Lemma sltb_trans s t u : String.ltb s t = true -> String.ltb t u = true -> String.ltb s u = true.
Proof. rewrite !sltb_lt. apply scompare_lt_trans. Qed.

Lemma sleb_iff s t : String.leb s t = true <-> s = t \/ String.compare s t = Lt.
Proof. unfold String.leb. destruct (String.compare s t) eqn:E.
  - apply scompare_eq in E. tauto.
  - tauto.
  - split; [congruence|]. intros [->|H]; [rewrite scompare_refl in E|]; congruence. Qed.

Lemma sleb_refl s : String.leb s s = true.
Proof. apply sleb_iff; auto. Qed.

Lemma sleb_trans s t u : String.leb s t = true -> String.leb t u = true -> String.leb s u = true.
Proof. rewrite !sleb_iff. intros [->|H1] [->|H2]; auto. right. eapply scompare_lt_trans; eauto. Qed.
