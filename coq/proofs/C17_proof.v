(* C17_proof.v -- BagValDict equality is per-unit multiset equality; len / repr / equivalence. *)
From Coq Require Import String Ascii List Arith Bool Lia Permutation Sorted.
From PS Require Import Base Bag Lists C17_strord.

(* ---------- insertion sort w.r.t. a total transitive order ---------- *)
Section SortUnique.
  Context {A : Type} (leb : A -> A -> bool).
  Hypothesis leb_total : forall x y, leb x y = true \/ leb y x = true.
  Hypothesis leb_trans : forall x y z, leb x y = true -> leb y z = true -> leb x z = true.

  Let lebP (x y : A) : Prop := leb x y = true.

  Lemma insert_sorted x l : StronglySorted lebP l -> StronglySorted lebP (insert leb x l).
  Proof.
    induction l as [|y t IH]; intros Hs; simpl.
    - constructor; constructor.
    - apply StronglySorted_inv in Hs. destruct Hs as [Hs Hy].
      destruct (leb x y) eqn:E.
      + constructor; [constructor; auto|]. constructor; [exact E|].
        eapply Forall_impl; [|exact Hy]. intros z Hz. eapply leb_trans; eauto.
      + constructor; [auto|]. apply Forall_forall. intros z Hz.
        apply insert_incl in Hz. destruct Hz as [<-|Hz].
        * destruct (leb_total x y) as [H|H]; [congruence|exact H].
        * rewrite Forall_forall in Hy. auto.
  Qed.

  Lemma isort_sorted l : StronglySorted lebP (isort leb l).
  Proof. induction l as [|x l IH]; simpl; [constructor|]. apply insert_sorted; auto. Qed.

  Lemma sorted_perm_eq l1 : forall l2,
    (forall x y, In x l1 -> In y l1 -> leb x y = true -> leb y x = true -> x = y) ->
    StronglySorted lebP l1 -> StronglySorted lebP l2 -> Permutation l1 l2 -> l1 = l2.
  Proof.
    induction l1 as [|x t1 IH]; intros l2 Hanti S1 S2 P.
    - apply Permutation_nil in P. auto.
    - destruct l2 as [|y t2].
      + apply Permutation_sym in P. apply Permutation_nil_cons in P. tauto.
      + apply StronglySorted_inv in S1. destruct S1 as [S1 F1].
        apply StronglySorted_inv in S2. destruct S2 as [S2 F2].
        rewrite Forall_forall in F1, F2.
        assert (Hy : In y (x :: t1)) by (eapply Permutation_in; [apply Permutation_sym; exact P|left; auto]).
        assert (Hx : In x (y :: t2)) by (eapply Permutation_in; [exact P|left; auto]).
        assert (x = y).
        { destruct Hy as [Hy|Hy]; auto. destruct Hx as [Hx|Hx]; auto.
          apply Hanti; [left; auto|right; auto|apply F1; auto|apply F2; auto]. }
        subst y. f_equal. apply IH; auto.
        * intros a b Ha Hb. apply Hanti; right; auto.
        * eapply Permutation_cons_inv; eauto.
  Qed.

  Lemma isort_perm_eq a b :
    (forall x y, In x a -> In y a -> leb x y = true -> leb y x = true -> x = y) ->
    Permutation a b -> isort leb a = isort leb b.
  Proof.
    intros Hanti P. apply sorted_perm_eq; try apply isort_sorted.
    - intros x y Hx Hy. apply Hanti; eapply isort_incl; eauto.
    - eapply perm_trans; [apply Permutation_sym, isort_perm|].
      eapply perm_trans; [exact P|apply isort_perm].
  Qed.
End SortUnique.

(* ---------- entries ---------- *)
Lemma label_eqb_eq a b : label_eqb a b = true <-> a = b.
Proof. destruct a, b; simpl; split; congruence. Qed.

Lemma entry_eqb_eq a b : entry_eqb a b = true <-> a = b.
Proof.
  destruct a as [n l], b as [m l']. unfold entry_eqb; simpl.
  rewrite andb_true_iff, Nat.eqb_eq, label_eqb_eq. split.
  - intros [-> ->]; auto.
  - intros H; injection H; auto.
Qed.

Lemma list_eqb_eq {A} (eqb : A -> A -> bool) :
  (forall x y, eqb x y = true <-> x = y) -> forall a b, list_eqb eqb a b = true <-> a = b.
Proof.
  intros He. induction a as [|x s IH]; intros [|y t]; simpl; try (split; congruence).
  rewrite andb_true_iff, He, IH. split.
  - intros [-> ->]; auto.
  - intros H; injection H; auto.
Qed.

Lemma entries_eqb_eq a b : entries_eqb a b = true <-> a = b.
Proof. apply list_eqb_eq. apply entry_eqb_eq. Qed.

Lemma entry_leb_iff a b :
  entry_leb a b = true <->
  fst a < fst b \/ (fst a = fst b /\ label_rank (snd a) <= label_rank (snd b)).
Proof. unfold entry_leb. rewrite orb_true_iff, andb_true_iff, Nat.ltb_lt, Nat.eqb_eq, Nat.leb_le. tauto. Qed.

Lemma entry_leb_total a b : entry_leb a b = true \/ entry_leb b a = true.
Proof. rewrite !entry_leb_iff. lia. Qed.

Lemma entry_leb_trans a b c : entry_leb a b = true -> entry_leb b c = true -> entry_leb a c = true.
Proof. rewrite !entry_leb_iff. lia. Qed.

Lemma entry_leb_antisym a b : entry_leb a b = true -> entry_leb b a = true -> a = b.
Proof.
  rewrite !entry_leb_iff. destruct a as [n l], b as [m l']; simpl. intros H1 H2.
  assert (n = m) by lia. subst. f_equal.
  destruct l, l'; simpl in *; auto; lia.
Qed.

Lemma sort_entries_perm x y :
  entries_eqb (isort entry_leb x) (isort entry_leb y) = true <-> Permutation x y.
Proof.
  rewrite entries_eqb_eq. split.
  - intros H. eapply perm_trans; [apply isort_perm|]. rewrite H. apply Permutation_sym, isort_perm.
  - intros P. apply isort_perm_eq; auto.
    + apply entry_leb_total.
    + apply entry_leb_trans.
    + intros a b _ _. apply entry_leb_antisym.
Qed.

(* ---------- association lists with unique keys ---------- *)
Lemma get_in {A} (r : list (string * list A)) k v :
  NoDup (map fst r) -> In (k, v) r -> get r k = v.
Proof.
  induction r as [|[k' v'] t IH]; simpl; intros Hnd Hin; [tauto|].
  inversion Hnd as [|? ? Hni Hnd']; subst. destruct Hin as [H|H].
  - injection H as -> ->. rewrite String.eqb_refl; auto.
  - destruct (String.eqb_spec k k') as [->|Hne]; auto.
    exfalso. apply Hni. apply (in_map fst) in H. exact H.
Qed.

Lemma get_nonempty_in {A} (r : list (string * list A)) k : get r k <> [] -> In (k, get r k) r.
Proof.
  induction r as [|[k' v'] t IH]; simpl; intros H; [congruence|].
  destruct (String.eqb_spec k k') as [->|Hne]; auto.
Qed.

Lemma nonempty_iff {A} k (v : list A) : nonempty (k, v) = true <-> v <> [].
Proof. unfold nonempty; simpl. destruct v; split; congruence. Qed.

Definition nkeys (r : record) : list string := map fst (bag_items r).

Lemma nkeys_in r k : NoDup (map fst r) -> (In k (nkeys r) <-> get r k <> []).
Proof.
  intros Hnd. unfold nkeys, bag_items. rewrite in_map_iff. split.
  - intros [[k' v] [Hk Hin]]. simpl in Hk; subst k'. apply filter_In in Hin.
    destruct Hin as [Hin Hne]. rewrite (get_in r k v Hnd Hin). apply nonempty_iff in Hne; auto.
  - intros H. exists (k, get r k). split; auto. apply filter_In. split.
    + apply get_nonempty_in; auto.
    + apply nonempty_iff; auto.
Qed.

Lemma NoDup_map_filter {A B} (g : A -> B) (f : A -> bool) l :
  NoDup (map g l) -> NoDup (map g (filter f l)).
Proof.
  induction l as [|x l IH]; simpl; intros H; auto.
  inversion H as [|? ? Hni Hnd]; subst. destruct (f x); simpl; auto.
  constructor; auto. intros Hin. apply Hni. apply in_map_iff in Hin.
  destruct Hin as [y [Hy Hin]]. apply filter_In in Hin. rewrite <- Hy. apply in_map. tauto.
Qed.

Lemma nkeys_nodup r : NoDup (map fst r) -> NoDup (nkeys r).
Proof. apply NoDup_map_filter. Qed.

Lemma items_in r k v : NoDup (map fst r) -> In (k, v) (bag_items r) -> get r k = v /\ v <> [].
Proof.
  intros Hnd Hin. apply filter_In in Hin. destruct Hin as [Hin Hne].
  split; [apply get_in; auto|apply nonempty_iff in Hne; auto].
Qed.

Lemma perm_nonempty {A} (x y : list A) : Permutation x y -> x <> [] -> y <> [].
Proof. intros P Hx Hy. subst. apply Permutation_sym, Permutation_nil in P. auto. Qed.

(* ---------- C17_eq_iff ---------- *)
Lemma C17_eq_iff_lemma :
  forall a b : record, NoDup (map fst a) -> NoDup (map fst b) ->
    (bag_eqb a b = true <-> forall k, Permutation (get a k) (get b k)).
Proof.
  intros a b Ha Hb. unfold bag_eqb. rewrite andb_true_iff, Nat.eqb_eq, forallb_forall. split.
  - intros [Hlen Hall].
    assert (Hperm : forall k, get b k <> [] -> Permutation (get b k) (get a k)).
    { intros k Hk. apply (sort_entries_perm (get b k) (get a k)).
      apply (Hall (k, get b k)). apply filter_In. split.
      - apply get_nonempty_in; auto.
      - apply nonempty_iff; auto. }
    assert (Hsub : incl (nkeys b) (nkeys a)).
    { intros k Hk. apply (nkeys_in b k Hb) in Hk. apply (nkeys_in a k Ha).
      eapply perm_nonempty; [apply Hperm; auto|auto]. }
    assert (Hsup : incl (nkeys a) (nkeys b)).
    { apply NoDup_length_incl; auto.
      - apply nkeys_nodup; auto.
      - unfold nkeys. rewrite !map_length. unfold bag_len in Hlen. lia. }
    intros k. destruct (get b k) as [|e t] eqn:Eb.
    + destruct (get a k) as [|e' t'] eqn:Ea; [constructor|].
      exfalso. assert (Hk : In k (nkeys a)) by (apply nkeys_in; auto; congruence).
      apply Hsup in Hk. apply (nkeys_in b k Hb) in Hk. auto.
    + apply Permutation_sym. rewrite <- Eb. apply Hperm. congruence.
  - intros H. split.
    + unfold bag_len. rewrite <- (map_length fst (bag_items a)), <- (map_length fst (bag_items b)).
      apply Permutation_length. apply NoDup_Permutation; try (apply nkeys_nodup; auto).
      intros k. fold (nkeys a) (nkeys b). rewrite (nkeys_in a k Ha), (nkeys_in b k Hb). split; intros Hk.
      * eapply perm_nonempty; [apply H|auto].
      * eapply perm_nonempty; [apply Permutation_sym, H|auto].
    + intros [k v] Hin. apply items_in in Hin; auto. destruct Hin as [Hg _]. simpl.
      apply sort_entries_perm. rewrite <- Hg. apply Permutation_sym, H.
Qed.

(* ---------- C17_len ---------- *)
Lemma filter_map_comm {A B} (g : A -> B) (f : B -> bool) l :
  filter f (map g l) = map g (filter (fun x => f (g x)) l).
Proof. induction l as [|x l IH]; simpl; auto. destruct (f (g x)); simpl; rewrite IH; auto. Qed.

Lemma C17_len_lemma :
  forall a : record, NoDup (map fst a) ->
    bag_len a = length (filter (fun k => match get a k with [] => false | _ => true end) (map fst a)).
Proof.
  intros a Ha. rewrite filter_map_comm, map_length. unfold bag_len, bag_items. f_equal.
  apply filter_ext_in. intros [k v] Hin. cbn [fst]. rewrite (get_in a k v Ha Hin). reflexivity.
Qed.

Lemma C17_len_eq_lemma :
  forall a b : record, NoDup (map fst a) -> NoDup (map fst b) -> bag_eqb a b = true -> bag_len a = bag_len b.
Proof.
  intros a b _ _ H. unfold bag_eqb in H. apply andb_true_iff in H. destruct H as [H _].
  apply Nat.eqb_eq in H. exact H.
Qed.

(* ---------- C17_equivalence ---------- *)
Lemma C17_equivalence_lemma :
  (forall a, NoDup (map fst a) -> bag_eqb a a = true) /\
  (forall a b, NoDup (map fst a) -> NoDup (map fst b) -> bag_eqb a b = true -> bag_eqb b a = true) /\
  (forall a b c, NoDup (map fst a) -> NoDup (map fst b) -> NoDup (map fst c) ->
                 bag_eqb a b = true -> bag_eqb b c = true -> bag_eqb a c = true).
Proof.
  split; [|split].
  - intros a Ha. apply C17_eq_iff_lemma; auto.
  - intros a b Ha Hb H. apply C17_eq_iff_lemma; auto. intros k. apply Permutation_sym.
    revert k. apply C17_eq_iff_lemma; auto.
  - intros a b c Ha Hb Hc H1 H2. apply C17_eq_iff_lemma; auto. intros k.
    eapply perm_trans; [apply (proj1 (C17_eq_iff_lemma a b Ha Hb) H1)|apply (proj1 (C17_eq_iff_lemma b c Hb Hc) H2)].
Qed.

(* ---------- C17_repr ---------- *)
Definition norm_items (r : record) : record :=
  map (fun kv => (fst kv, isort entry_leb (snd kv))) (bag_items r).

Lemma norm_items_keys r : map fst (norm_items r) = nkeys r.
Proof. unfold norm_items, nkeys. rewrite map_map. apply map_ext. reflexivity. Qed.

Lemma NoDup_map_fst_inj {A B} (l : list (A * B)) x y :
  NoDup (map fst l) -> In x l -> In y l -> fst x = fst y -> x = y.
Proof.
  induction l as [|z l IH]; simpl; intros Hnd Hx Hy Hxy; [tauto|].
  inversion Hnd as [|? ? Hni Hnd']; subst.
  destruct Hx as [Hx|Hx], Hy as [Hy|Hy]; subst; auto.
  - exfalso. apply Hni. rewrite Hxy. apply in_map; auto.
  - exfalso. apply Hni. rewrite <- Hxy. apply in_map; auto.
Qed.

Lemma norm_items_incl a b :
  NoDup (map fst a) -> NoDup (map fst b) -> (forall k, Permutation (get a k) (get b k)) ->
  forall x, In x (norm_items a) -> In x (norm_items b).
Proof.
  intros Ha Hb H x Hx. unfold norm_items in *. apply in_map_iff in Hx.
  destruct Hx as [[k v] [Hx Hin]]. simpl in Hx. apply items_in in Hin; auto.
  destruct Hin as [Hg Hne]. subst v.
  assert (Hbk : get b k <> []) by (eapply perm_nonempty; [apply H|auto]).
  apply in_map_iff. exists (k, get b k). split.
  - simpl. rewrite <- Hx. f_equal. apply entries_eqb_eq. apply sort_entries_perm.
    apply Permutation_sym, H.
  - apply filter_In. split; [apply get_nonempty_in; auto|apply nonempty_iff; auto].
Qed.

Lemma key_leb_total x y : key_leb x y = true \/ key_leb y x = true.
Proof. unfold key_leb. apply String.leb_total. Qed.

Lemma key_leb_trans x y z : key_leb x y = true -> key_leb y z = true -> key_leb x z = true.
Proof. unfold key_leb. apply sleb_trans. Qed.

Lemma canon_record_eq a b :
  NoDup (map fst a) -> NoDup (map fst b) -> (forall k, Permutation (get a k) (get b k)) ->
  canon_record a = canon_record b.
Proof.
  intros Ha Hb H. unfold canon_record. fold (norm_items a) (norm_items b).
  assert (Hna : NoDup (map fst (norm_items a))) by (rewrite norm_items_keys; apply nkeys_nodup; auto).
  assert (Hnb : NoDup (map fst (norm_items b))) by (rewrite norm_items_keys; apply nkeys_nodup; auto).
  apply isort_perm_eq.
  - apply key_leb_total.
  - apply key_leb_trans.
  - intros x y Hx Hy H1 H2. apply (NoDup_map_fst_inj (norm_items a)); auto.
    unfold key_leb in *. apply String.leb_antisym; auto.
  - apply NoDup_Permutation.
    + eapply NoDup_map_inv; eauto.
    + eapply NoDup_map_inv; eauto.
    + intros x. split; apply norm_items_incl; auto. intros k. apply Permutation_sym, H.
Qed.

Lemma C17_repr_lemma :
  forall a b : record, NoDup (map fst a) -> NoDup (map fst b) -> bag_eqb a b = true -> bag_repr a = bag_repr b.
Proof.
  intros a b Ha Hb H. unfold bag_repr. rewrite (canon_record_eq a b Ha Hb); auto.
  apply C17_eq_iff_lemma; auto.
Qed.
