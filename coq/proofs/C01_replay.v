(* C01, part 2: replaying the reads and writes of a diagram cycle by cycle yields, for every
   instruction that read, the operands of sequential execution (and, for a completed run, the
   sequential register file).  Section Replay is pure: it uses only the hazard order (HO) and
   "an instruction does not write before it reads" (HRW). *)
From Coq Require Import Lia.
From PS Require Import Base Bag RegAccess Sim Diag Lists Run C03_lists C03_step C03_inv C03_track C03_proof.
From PS Require Import HZ_queue HZ_plan HZ_diag HZ_haz HZ_inv C02_proof C01_order.
Close Scope string_scope.

(* ================= facts about access times from the run invariant ================= *)
Lemma HI_at P prog s t : wf_procb P = true -> wf_progb prog = true -> reach P prog s -> t < length (tbl s) ->
  HIr P prog (firstn (S t) (tbl s)) (rec_at (tbl s) t).
Proof. intros Hwf Hwp Hr Ht.
  destruct (reach_tbl_prefix P prog s Hr t Ht) as (s0 & s1 & Hr0 & Hc0 & Hrun & _ & Ht1 & Hnth).
  assert (Hr1 : reach P prog s1) by (eapply reach_step; eauto).
  destruct (inv_reach P prog Hwf Hwp s1 Hr1) as (_ & _ & HH). unfold HI in HH. rewrite <- Hnth, Ht1 in HH. exact HH. Qed.

Lemma performed_firstn_time P d i k t : t <= length d -> performed P (firstn t d) i k = true ->
  exists a, acc_time P d i k = Some a /\ a < t.
Proof. intros Ht H. unfold performed in H. rewrite acc_time_firstn in H by auto.
  destruct (acc_time P d i k) as [a|]; [|discriminate]. destruct (Nat.ltb_spec a t); [|discriminate]. eauto. Qed.

(* an instruction does not write before it reads *)
Lemma read_before_write P prog s i b : wf_procb P = true -> wf_progb prog = true -> reach P prog s ->
  acc_time P (tbl s) i WR = Some b -> exists a, acc_time P (tbl s) i RD = Some a /\ a <= b.
Proof. intros Hwf Hwp Hr Hb. apply acc_time_some in Hb. destruct Hb as (Ht & Hp & _).
  apply (performs_at_iff P prog s b i WR Hwf Hwp Hr Ht) in Hp. destruct Hp as (u & Hin & Hlk). cbn [lockb] in Hlk.
  destruct (HI_at P prog s b Hwf Hwp Hr Ht u i LU Hin) as (rr & w & f & Hro & H1 & _).
  apply route_bounds in Hro. destruct Hro as (B1 & B2 & _ & B4). rewrite Hlk in B2, B4. cbn [bn] in B2, B4.
  assert (Hp : performed P (firstn (S b) (tbl s)) i RD = true).
  { apply H1. destruct (has_rl P u); cbn [bn] in *; [right; split; [auto|discriminate]|left; lia]. }
  apply performed_firstn_time in Hp; [|lia]. destruct Hp as (a & Ha & Hlt). exists a. split; auto. lia. Qed.

(* in a completed run every instruction has performed both accesses *)
Lemma done_all_performed P prog s i k : wf_procb P = true -> wf_progb prog = true -> reach P prog s ->
  loop_cond prog s = false -> i < length prog -> exists a, acc_time P (tbl s) i k = Some a.
Proof. intros Hwf Hwp Hr Hc Hi.
  destruct (all_done P prog s (reach_SI P Hwf prog s Hr) Hc i Hi) as (t & u & Hne & Hl & Hu).
  pose proof (last_In _ dflt Hne) as Hin. rewrite Hl in Hin. apply track_in in Hin. destruct Hin as [Ht Hin].
  destruct (reach_Kq P prog s t Hwf Hwp Hr Ht) as [K _]. apply (HZ_diag.places_get _ _ _ _ K) in Hin.
  destruct (HI_at P prog s t Hwf Hwp Hr Ht u i LU Hin) as (rr & w & f & Hro & H1 & H2).
  destruct (route_end _ _ _ _ _ _ Hro (out_no_succs P u Hwf Hu)) as [B1 B2].
  assert (Hp : performed P (firstn (S t) (tbl s)) i k = true).
  { destruct k; [apply H1; destruct (has_rl P u)|apply H2; destruct (has_wl P u)]; cbn [bn] in *;
      first [left; lia|right; split; [reflexivity|discriminate]]. }
  apply performed_firstn_time in Hp; [|lia]. destruct Hp as (a & Ha & _). eauto. Qed.

(* ================= the replay argument ================= *)
Lemma Forall2_map_r {A B} (R : A -> B -> Prop) (f : A -> B) l : (forall x, In x l -> R x (f x)) -> Forall2 R l (map f l).
Proof. induction l as [|a l IH]; intros H; cbn [map]; constructor; [apply H; left; auto|].
  apply IH. intros x Hx. apply H. right; auto. Qed.
Lemma Forall2_unique {A B} (R1 R2 : A -> B -> Prop) l : forall l1 l2,
  (forall x v v', In x l -> R1 x v -> R2 x v' -> v = v') -> Forall2 R1 l l1 -> Forall2 R2 l l2 -> l1 = l2.
Proof. induction l as [|a l IH]; intros l1 l2 H F1 F2; inversion F1; inversion F2; subst; auto. f_equal.
  - eapply H; eauto. left; auto.
  - apply IH; auto. intros x v v' Hx. apply H. right; auto. Qed.
Lemma opt_nat_eqb_refl a : opt_nat_eqb a a = true.
Proof. destruct a; cbn; auto. apply Nat.eqb_refl. Qed.
Lemma list_eqb_refl l : list_eqb opt_nat_eqb l l = true.
Proof. induction l as [|a l IH]; cbn; auto. rewrite opt_nat_eqb_refl, IH. auto. Qed.
Lemma assoc_in {A} (dflt : A) (l : list (string * A)) k v : NoDup (map fst l) -> In (k, v) l -> assoc dflt l k = v.
Proof. induction l as [|[k' v'] t IH]; cbn [assoc map fst]; [intros _ []|]. intros H Hin. inversion H; subst.
  destruct Hin as [Hin|Hin].
  - inversion Hin; subst. rewrite String.eqb_refl. auto.
  - destruct (String.eqb_spec k k') as [->|Hne]; auto. exfalso. apply H2. change k' with (fst (k', v)). apply in_map; auto. Qed.
Lemma rf_get_set rf r v r' : rf_get (set rf r v) r' = if String.eqb r' r then v else rf_get rf r'.
Proof. unfold rf_get. apply assoc_set. Qed.
Lemma ops_of_some ops i l : ops_of ops i = Some l -> In (i, l) ops.
Proof. unfold ops_of. destruct (find (fun p => (fst p =? i)%nat) ops) as [[j l0]|] eqn:E; [|discriminate].
  intros H. inversion H; subst. apply find_some in E. destruct E as [E1 E2]. cbn [fst] in E2.
  apply Nat.eqb_eq in E2. subst. auto. Qed.
Lemma ops_of_none ops i l : ops_of ops i = None -> ~ In (i, l) ops.
Proof. unfold ops_of. destruct (find (fun p => (fst p =? i)%nat) ops) as [p|] eqn:E; [discriminate|]. intros _ Hin.
  pose proof (find_none _ _ E _ Hin) as H. cbn [fst] in H. rewrite Nat.eqb_refl in H. discriminate. Qed.

Section Replay.
Variables (P : proc) (prog : list instr) (d : diagram).
Let n := length prog.
Hypothesis HO : forall i j ki kj tj, i < j -> In (ki, kj) (conflicts prog i j) -> acc_time P d j kj = Some tj ->
  exists ti, acc_time P d i ki = Some ti /\ ti < tj.
Hypothesis HRW : forall i b, acc_time P d i WR = Some b -> exists a, acc_time P d i RD = Some a /\ a <= b.

(* v is the last instruction below m writing r and satisfying p *)
Definition is_last (p : nat -> bool) (r : string) (m : nat) (v : option nat) : Prop :=
  match v with
  | Some k => k < m /\ dst_of prog k = r /\ p k = true /\
              forall k', k < k' < m -> dst_of prog k' = r -> p k' = false
  | None => forall k, k < m -> dst_of prog k = r -> p k = false
  end.

Lemma is_last_unique p r m v v' : is_last p r m v -> is_last p r m v' -> v = v'.
Proof. destruct v as [k|], v' as [k'|]; cbn [is_last]; auto.
  - intros (A1 & A2 & A3 & A4) (B1 & B2 & B3 & B4). f_equal.
    destruct (Nat.lt_trichotomy k k') as [H|[H|H]]; auto.
    + rewrite A4 in B3; [discriminate|lia|auto].
    + rewrite B4 in A3; [discriminate|lia|auto].
  - intros (A1 & A2 & A3 & _) B. rewrite B in A3; auto. discriminate.
  - intros B (A1 & A2 & A3 & _). rewrite B in A3; auto. discriminate. Qed.
Lemma is_last_ext p p' r m v : (forall k, k < m -> dst_of prog k = r -> p k = p' k) -> is_last p r m v -> is_last p' r m v.
Proof. intros H. destruct v as [k|]; cbn [is_last].
  - intros (A1 & A2 & A3 & A4). split; auto. split; auto. split; [rewrite <- H; auto|].
    intros k' Hk' Hd. rewrite <- H; auto; lia.
  - intros A k Hk Hd. rewrite <- H; auto. Qed.
Lemma is_last_S p r m v : is_last p r m v ->
  is_last p r (S m) (if String.eqb (dst_of prog m) r && p m then Some m else v).
Proof. intros H. destruct (String.eqb_spec (dst_of prog m) r) as [E|E]; cbn [andb].
  - destruct (p m) eqn:Ep.
    + cbn [is_last]. split; [lia|]. split; auto. split; auto. intros k' Hk'. lia.
    + destruct v as [k|]; cbn [is_last] in *.
      * destruct H as (A1 & A2 & A3 & A4). split; [lia|]. split; auto. split; auto. intros k' Hk' Hd.
        destruct (Nat.eq_dec k' m) as [->|Hne]; auto. apply A4; auto. lia.
      * intros k Hk Hd. destruct (Nat.eq_dec k m) as [->|Hne]; auto. apply H; auto. lia.
  - destruct v as [k|]; cbn [is_last] in *.
    + destruct H as (A1 & A2 & A3 & A4). split; [lia|]. split; auto. split; auto. intros k' Hk' Hd.
      destruct (Nat.eq_dec k' m) as [->|Hne]; [contradiction|]. apply A4; auto. lia.
    + intros k Hk Hd. destruct (Nat.eq_dec k m) as [->|Hne]; [contradiction|]. apply H; auto. lia. Qed.
Lemma is_last_cut p r m i v : i <= m -> (forall k, k < m -> dst_of prog k = r -> p k = (k <? i)) ->
  is_last p r m v -> is_last (fun _ => true) r i v.
Proof. intros Hi H. destruct v as [k|]; cbn [is_last].
  - intros (A1 & A2 & A3 & A4). rewrite H in A3 by auto. apply Nat.ltb_lt in A3. split; auto. split; auto. split; auto.
    intros k' Hk' Hd. rewrite <- (A4 k') by (auto; lia). rewrite H by (auto; lia). symmetry. apply Nat.ltb_lt. lia.
  - intros A k Hk Hd. rewrite <- (A k) by (auto; lia). rewrite H by (auto; lia). symmetry. apply Nat.ltb_lt. lia. Qed.

(* ---------- sequential execution ---------- *)
Definition stepS (st : regfile * opnds) (i : nat) : regfile * opnds :=
  let '(rf, ops) := st in
  (set rf (dst_of prog i) (Some i), ops ++ [(i, map (rf_get rf) (srcs_of prog i))]).
Definition tt_ (_ : nat) : bool := true.
Definition SeqInv (m : nat) (st : regfile * opnds) : Prop :=
  (forall r, is_last tt_ r m (rf_get (fst st) r)) /\
  (forall i l, In (i, l) (snd st) -> i < m /\ Forall2 (fun r v => is_last tt_ r i v) (srcs_of prog i) l) /\
  (forall i, i < m -> exists l, In (i, l) (snd st)) /\
  NoDup (map fst (fst st)).

Lemma seq_inv : forall m, SeqInv m (fold_left stepS (seq 0 m) ([], [])).
Proof. induction m as [|m IH].
  - unfold SeqInv. cbn [seq fold_left fst snd map]. split; [|split; [|split]].
    + intros r k Hk. lia.
    + intros i l [].
    + intros i Hi. lia.
    + constructor.
  - rewrite seq_S, fold_left_app. cbn [fold_left plus].
    destruct (fold_left stepS (seq 0 m) ([], [])) as [rf ops]. destruct IH as (A & B & C & D). cbn [fst snd] in *.
    cbn [stepS]. split; [|split; [|split]]; cbn [fst snd].
    + intros r. rewrite rf_get_set. pose proof (is_last_S tt_ r m _ (A r)) as H. unfold tt_ at 2 in H.
      rewrite andb_true_r in H. rewrite (String.eqb_sym r). exact H.
    + intros i l Hin. apply in_app_iff in Hin. destruct Hin as [Hin|[Hin|[]]].
      * destruct (B i l Hin). split; auto.
      * inversion Hin; subst. split; auto. apply Forall2_map_r. intros r _. apply A.
    + intros i Hi. destruct (Nat.eq_dec i m) as [->|Hne].
      * eexists. apply in_app_iff. right. left. reflexivity.
      * destruct (C i) as [l Hl]; [lia|]. exists l. apply in_app_iff. auto.
    + apply set_nodup; auto. Qed.

(* ---------- replay ---------- *)
Definition wq (t i : nat) : bool := match acc_time P d i WR with Some a => (a =? t)%nat | None => false end.
Definition rq (t i : nat) : bool := match acc_time P d i RD with Some a => (a =? t)%nat | None => false end.
Definition setw (rf : regfile) (i : nat) : regfile := set rf (dst_of prog i) (Some i).
Definition dbW (t k : nat) : bool := done_before P d k WR t.

Lemma dbW_S t k : dbW (S t) k = dbW t k || wq t k.
Proof. unfold dbW, done_before, wq. destruct (acc_time P d k WR) as [a|]; auto.
  destruct (Nat.ltb_spec a (S t)), (Nat.ltb_spec a t), (Nat.eqb_spec a t); cbn; auto; lia. Qed.

Lemma writers_fold t : forall m, m <= n -> forall rf, (forall r, is_last (dbW t) r n (rf_get rf r)) ->
  forall r, is_last (fun k => dbW t k || (wq t k && (k <? m))) r n (rf_get (fold_left setw (filter (wq t) (seq 0 m)) rf) r).
Proof. induction m as [|m IH]; intros Hm rf H r.
  - cbn [seq filter fold_left]. eapply is_last_ext; [|apply H]. intros k _ _. cbn. rewrite andb_false_r, orb_false_r. auto.
  - rewrite seq_S, filter_app, fold_left_app. cbn [plus filter].
    assert (Hm' : m <= n) by lia. specialize (IH Hm' rf H).
    set (rf1 := fold_left setw (filter (wq t) (seq 0 m)) rf) in *.
    destruct (wq t m) eqn:Eq; cbn [fold_left].
    + unfold setw at 1. rewrite rf_get_set. destruct (String.eqb_spec r (dst_of prog m)) as [->|Hne].
      * cbn [is_last]. split; [lia|]. split; auto. split.
        -- rewrite Eq. replace (m <? S m) with true by (symmetry; apply Nat.ltb_lt; lia). apply orb_true_r.
        -- intros k' Hk' Hd. replace (k' <? S m) with false by (symmetry; apply Nat.ltb_ge; lia).
           rewrite andb_false_r, orb_false_r. unfold dbW, done_before.
           destruct (acc_time P d k' WR) as [a'|] eqn:Ea; auto. apply Nat.ltb_ge.
           destruct (HO m k' WR WR a') as (a & Ha & Hlt); [lia| |auto|].
           { unfold conflicts. rewrite !in_app_iff. right. right. rewrite Hd, String.eqb_refl. left; auto. }
           unfold wq in Eq. rewrite Ha in Eq. apply Nat.eqb_eq in Eq. lia.
      * eapply is_last_ext; [|apply IH]. intros k Hk Hd. cbv beta. f_equal. f_equal.
        destruct (Nat.eq_dec k m) as [->|Hkm]; [congruence|].
        destruct (Nat.ltb_spec k m), (Nat.ltb_spec k (S m)); auto; lia.
    + eapply is_last_ext; [|apply IH]. intros k Hk Hd. cbv beta. f_equal.
      destruct (Nat.eq_dec k m) as [->|Hkm]; [rewrite Eq; auto|].
      f_equal. destruct (Nat.ltb_spec k m), (Nat.ltb_spec k (S m)); auto; lia. Qed.

Definition RepInv (t : nat) (st : regfile * opnds) : Prop :=
  (forall r, is_last (dbW t) r n (rf_get (fst st) r)) /\
  (forall i l, In (i, l) (snd st) -> exists a, a < t /\ acc_time P d i RD = Some a /\
      Forall2 (fun r v => is_last (dbW a) r n v) (srcs_of prog i) l) /\
  (forall i a, i < n -> acc_time P d i RD = Some a -> a < t -> exists l, In (i, l) (snd st)).

Lemma replay_cycle_eq rf ops t :
  replay_cycle P prog d (rf, ops) t =
  (fold_left setw (filter (wq t) (seq 0 n)) rf,
   ops ++ map (fun i => (i, map (rf_get rf) (srcs_of prog i))) (filter (rq t) (seq 0 n))).
Proof. reflexivity. Qed.

Lemma rep_inv : forall t, RepInv t (fold_left (replay_cycle P prog d) (seq 0 t) ([], [])).
Proof. induction t as [|t IH].
  - cbn. split; [|split].
    + intros r k Hk Hd. unfold dbW, done_before. destruct (acc_time P d k WR); auto.
    + intros i l [].
    + intros; lia.
  - rewrite seq_S, fold_left_app. cbn [fold_left plus].
    destruct (fold_left (replay_cycle P prog d) (seq 0 t) ([], [])) as [rf ops]. destruct IH as (A & B & C).
    cbn [fst snd] in *. rewrite replay_cycle_eq. split; [|split]; cbn [fst snd].
    + intros r. eapply is_last_ext; [|apply (writers_fold t n (le_n n) rf A r)]. intros k Hk Hd. cbv beta.
      rewrite dbW_S. replace (k <? n) with true by (symmetry; apply Nat.ltb_lt; auto). rewrite andb_true_r. auto.
    + intros i l Hin. apply in_app_iff in Hin. destruct Hin as [Hin|Hin].
      * destruct (B i l Hin) as (a & H1 & H2 & H3). exists a. split; [lia|auto].
      * apply in_map_iff in Hin. destruct Hin as (j & Hj & Hin). inversion Hj; subst. apply filter_In in Hin.
        destruct Hin as [_ Hq]. unfold rq in Hq. destruct (acc_time P d i RD) as [a|] eqn:Ea; [|discriminate].
        apply Nat.eqb_eq in Hq. subst a. exists t. split; [lia|]. split; auto. apply Forall2_map_r. intros r _. apply A.
    + intros i a Hi Ha Hlt. destruct (Nat.eq_dec a t) as [->|Hne].
      * eexists. apply in_app_iff. right. apply in_map_iff. exists i. split; [reflexivity|]. apply filter_In.
        split; [apply in_seq; lia|]. unfold rq. rewrite Ha. apply Nat.eqb_refl.
      * destruct (C i a Hi Ha) as [l Hl]; [lia|]. exists l. apply in_app_iff. auto. Qed.

(* ---------- comparison ---------- *)
Lemma operand_same i a r v v' : i < n -> acc_time P d i RD = Some a -> In r (srcs_of prog i) ->
  is_last (dbW a) r n v -> is_last tt_ r i v' -> v = v'.
Proof. intros Hi Ha Hr H1 H2. apply (is_last_unique tt_ r i); auto. apply (is_last_cut (dbW a) r n i v); auto; [lia|].
  intros k Hk Hd. unfold dbW, done_before. apply mem_str_In in Hr.
  destruct (Nat.lt_trichotomy k i) as [Hlt|[->|Hgt]].
  - replace (k <? i) with true by (symmetry; apply Nat.ltb_lt; auto).
    destruct (HO k i WR RD a) as (b & Hb & Hba); auto.
    { unfold conflicts. rewrite !in_app_iff. left. rewrite Hd, Hr. left; auto. }
    rewrite Hb. apply Nat.ltb_lt; auto.
  - rewrite Nat.ltb_irrefl. destruct (acc_time P d i WR) as [b|] eqn:Eb; auto.
    destruct (HRW i b Eb) as (a' & Ha' & Hle). rewrite Ha in Ha'. inversion Ha'; subst. apply Nat.ltb_ge; auto.
  - replace (k <? i) with false by (symmetry; apply Nat.ltb_ge; lia).
    destruct (acc_time P d k WR) as [b|] eqn:Eb; auto.
    destruct (HO i k RD WR b) as (a' & Ha' & Hlt); auto.
    { unfold conflicts. rewrite !in_app_iff. right. left. rewrite Hd, Hr. left; auto. }
    rewrite Ha in Ha'. inversion Ha'; subst. apply Nat.ltb_ge. lia. Qed.

Lemma seq_exec_eq : seq_exec prog = fold_left stepS (seq 0 n) ([], []).
Proof. reflexivity. Qed.

Lemma replay_ok tg :
  (tg = TDone -> forall i k, i < n -> exists a, acc_time P d i k = Some a) ->
  C01_replay_checkb P prog tg d = true.
Proof. intros HD. unfold C01_replay_checkb, replay. rewrite seq_exec_eq.
  pose proof (rep_inv (length d)) as HR. pose proof (seq_inv n) as HS.
  destruct (fold_left (replay_cycle P prog d) (seq 0 (length d)) ([], [])) as [rf ops].
  destruct (fold_left stepS (seq 0 n) ([], [])) as [rf0 ops0].
  destruct HR as (RA & RB & RC). destruct HS as (SA & SB & SC & SD). cbn [fst snd] in *.
  apply andb_true_iff. split.
  - apply forallb_forall. intros i Hi. apply in_seq in Hi. fold n in Hi.
    destruct (ops_of ops i) as [l|] eqn:El.
    + apply ops_of_some in El. destruct (RB i l El) as (a & _ & Ha & HF).
      destruct (SC i) as [l0' Hl0']; [lia|].
      destruct (ops_of ops0 i) as [l0|] eqn:El0; [|exfalso; eapply ops_of_none; eauto].
      apply ops_of_some in El0. destruct (SB i l0 El0) as [_ HF0].
      rewrite (Forall2_unique _ _ (srcs_of prog i) l l0 (fun r v v' Hr => operand_same i a r v v' ltac:(lia) Ha Hr) HF HF0).
      apply list_eqb_refl.
    + destruct tg; auto. exfalso. destruct (HD eq_refl i RD) as [a Ha]; [lia|].
      destruct (RC i a) as [l Hl]; [lia|auto| |eapply ops_of_none; eauto].
      apply acc_time_some in Ha. tauto.
  - destruct tg; auto. apply forallb_forall. intros [r v] Hin. cbn [fst snd].
    assert (Hv : rf_get rf0 r = v) by (apply assoc_in; auto). subst v.
    rewrite (is_last_unique tt_ r n (rf_get rf r) (rf_get rf0 r)); [apply opt_nat_eqb_refl| |apply SA].
    eapply is_last_ext; [|apply RA]. intros k Hk _. unfold dbW, done_before, tt_.
    destruct (HD eq_refl k WR Hk) as [b Hb]. rewrite Hb. apply acc_time_some in Hb. apply Nat.ltb_lt. tauto. Qed.
End Replay.

(* ================= conclusion ================= *)
Lemma C01_replay_accepts_lemma :
  forall (P : proc) (prog : list instr) (fuel : nat) (tg : dtag) (d : diagram),
    wf_procb P = true -> wf_progb prog = true -> sim_result fuel P prog tg d -> C01_replay_checkb P prog tg d = true.
Proof. intros P prog fuel tg d Hwf Hwp Hsim.
  assert (G : exists s, reach P prog s /\ tbl s = d /\ (tg = TDone -> loop_cond prog s = false)).
  { destruct Hsim as [[-> H]|[-> H]].
    - apply simulate_done in H. destruct H as (s & H1 & H2 & H3). exists s. auto.
    - apply simulate_stalled in H. destruct H as (s & H1 & H2 & _). exists s. split; auto. split; auto. discriminate. }
  destruct G as (s & Hr & <- & Hd). apply replay_ok.
  - intros i j ki kj tj Hij Hc Ha. eapply order_reach; eauto.
  - intros i b Hb. eapply read_before_write; eauto.
  - intros E i k Hi. eapply done_all_performed; eauto. Qed.
