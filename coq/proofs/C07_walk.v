(* C07_walk.v -- what one `fill_unit` does to a working record: an abstract walk over the sorted
   candidates, the exact effect of `clr`, and the resulting characterisation in terms of the list
   of moved instruction indices. *)
From Coq Require Import Lia Permutation Sorted.
From PS Require Import Base Bag RegAccess Sim Diag Lists C07_lists.

Definition ixs (r : record) (k : string) : list nat := map fst (get r k).
Definition loc (r : record) (i : nat) (k : string) : Prop := In i (ixs r k).
(* invariant (U): every instruction index occurs at most once in a record *)
Definition U (r : record) : Prop :=
  (forall k, NoDup (ixs r k)) /\ (forall k1 k2 i, loc r i k1 -> loc r i k2 -> k1 = k2).

Lemma loc_In r i k : loc r i k <-> exists l, In (i, l) (get r k).
Proof. unfold loc, ixs. rewrite in_map_iff. split.
  - intros [[j l] [E H]]. simpl in E. subst. eauto.
  - intros [l H]. exists (i, l). auto. Qed.

Section Walk.
Variable prog : list instr.
Variable f : funit.
Local Notation me := (u_name (f_model f)).
Local Notation w := (u_width (f_model f)).
Definition need (i : nat) : bool := mem_str (cat_of prog i) (u_mem (f_model f)).

Fixpoint aw (busy : bool) (ixf : string * nat -> nat) (cs : list (string * nat)) (len : nat) (used : bool)
  : list (string * nat) * bool * nat :=
  match cs with
  | [] => ([], used, len)
  | c :: t =>
      if len =? w then ([], used, len)
      else if (busy || used) && need (ixf c) then aw busy ixf t len used
      else let '(m, u', len') := aw busy ixf t (S len) (used || need (ixf c)) in (c :: m, u', len')
  end.

Lemma walk_aw busy r0 : forall cs r used moved,
  (forall c, In c cs -> fst c <> me) -> (forall h, h <> me -> get r h = get r0 h) ->
  forall m u' len', aw busy (ix_of r0) cs (length (get r me)) used = (m, u', len') ->
  exists r', walk prog f busy cs r used moved = (r', u', moved ++ m)
    /\ get r' me = get r me ++ map (fun c => (ix_of r0 c, LU)) m
    /\ (forall h, h <> me -> get r' h = get r0 h)
    /\ length (get r' me) = len'.
Proof. induction cs as [|c t IH]; intros r used moved Hc Ho m u' len' H; cbn [walk aw] in *.
  - inversion H; subst. exists r. rewrite !app_nil_r. auto.
  - destruct (length (get r me) =? w) eqn:E.
    { inversion H; subst. exists r. rewrite !app_nil_r. auto. }
    assert (Hix : ix_of r c = ix_of r0 c).
    { unfold ix_of. rewrite Ho; auto. apply Hc. left; auto. }
    rewrite Hix. unfold need in H.
    destruct ((busy || used) && mem_str (cat_of prog (ix_of r0 c)) (u_mem (f_model f))) eqn:E2.
    + apply IH; auto. intros c' Hc'. apply Hc. right; auto.
    + set (r2 := set r me (get r me ++ [(ix_of r0 c, LU)])).
      assert (Hl : length (get r2 me) = S (length (get r me))).
      { unfold r2. rewrite gss, app_length. simpl. lia. }
      rewrite <- Hl in H.
      destruct (aw busy (ix_of r0) t (length (get r2 me)) _) as [[m1 u1] l1] eqn:E3.
      inversion H; subst.
      destruct (IH r2 _ (moved ++ [c]) (fun c' Hc' => Hc c' (or_intror Hc'))
                  (fun h Hh => eq_trans (gso r me h _ (not_eq_sym Hh)) (Ho h Hh)) _ _ _ E3)
        as (r' & W & G1 & G2 & G3).
      exists r'. rewrite W. rewrite <- app_assoc. simpl. repeat split; auto.
      rewrite G1. unfold r2. rewrite gss, <- app_assoc. reflexivity. Qed.

Lemma aw_incl busy ixf : forall cs len used m u' len',
  aw busy ixf cs len used = (m, u', len') -> incl m cs.
Proof. induction cs as [|c t IH]; intros len used m u' len' H; cbn [aw] in H.
  - inversion H; subst. apply incl_refl.
  - destruct (len =? w). { inversion H; subst. intros x []. }
    destruct ((busy || used) && need (ixf c)).
    + apply IH in H. intros x Hx. right; auto.
    + destruct (aw busy ixf t (S len) (used || need (ixf c))) as [[m1 u1] l1] eqn:E.
      inversion H; subst. apply IH in E. intros x [->|Hx]; [left|right]; auto. Qed.

Lemma aw_nodup busy ixf : forall cs len used m u' len',
  NoDup cs -> aw busy ixf cs len used = (m, u', len') -> NoDup m.
Proof. induction cs as [|c t IH]; intros len used m u' len' Hn H; cbn [aw] in H.
  - inversion H; subst. constructor.
  - inversion Hn; subst. destruct (len =? w). { inversion H; subst. constructor. }
    destruct ((busy || used) && need (ixf c)).
    + eapply IH; eauto.
    + destruct (aw busy ixf t (S len) (used || need (ixf c))) as [[m1 u1] l1] eqn:E.
      inversion H; subst. constructor; [|eapply IH; eauto].
      intros Hin. apply (aw_incl _ _ _ _ _ _ _ _ E) in Hin. tauto. Qed.

Lemma aw_used busy ixf : forall cs len used m u' len',
  aw busy ixf cs len used = (m, u', len') -> u' = used || existsb (fun c => need (ixf c)) m.
Proof. induction cs as [|c t IH]; intros len used m u' len' H; cbn [aw] in H.
  - inversion H; subst. simpl. rewrite orb_false_r; auto.
  - destruct (len =? w). { inversion H; subst. simpl. rewrite orb_false_r; auto. }
    destruct ((busy || used) && need (ixf c)).
    + eapply IH; eauto.
    + destruct (aw busy ixf t (S len) (used || need (ixf c))) as [[m1 u1] l1] eqn:E.
      inversion H; subst. apply IH in E. subst. simpl. rewrite orb_assoc. reflexivity. Qed.

Lemma aw_flag_true busy ixf : forall cs len used m u' len',
  aw busy ixf cs len used = (m, u', len') -> busy || used = true ->
  forall c, In c m -> need (ixf c) = false.
Proof. induction cs as [|c t IH]; intros len used m u' len' H Hb; cbn [aw] in H.
  - inversion H; subst. intros c [].
  - destruct (len =? w). { inversion H; subst. intros c' []. }
    destruct ((busy || used) && need (ixf c)) eqn:E2.
    + eapply IH; eauto.
    + destruct (aw busy ixf t (S len) (used || need (ixf c))) as [[m1 u1] l1] eqn:E.
      inversion H; subst. rewrite Hb in E2. simpl in E2.
      intros c' [<-|Hc']; auto. eapply IH; eauto. rewrite orb_assoc, Hb. reflexivity. Qed.

Lemma aw_spec busy ixf : forall l1 c l2 len used m u' len',
  aw busy ixf (l1 ++ c :: l2) len used = (m, u', len') ->
  In c m \/ ((len' = w \/ (need (ixf c) = true /\ busy || u' = true))
             /\ forall c', In c' m -> In c' l1 \/ (need (ixf c) = true /\ need (ixf c') = false)).
Proof. induction l1 as [|a l1 IH]; intros c l2 len used m u' len' H; cbn [app aw] in H.
  - destruct (len =? w) eqn:E.
    { apply Nat.eqb_eq in E. inversion H; subst. right. split; [left; auto|intros c' []]. }
    destruct ((busy || used) && need (ixf c)) eqn:E2.
    + apply andb_prop in E2. destruct E2 as [Hb Hn]. right. split.
      * right. split; auto. rewrite (aw_used _ _ _ _ _ _ _ _ H), orb_assoc, Hb. reflexivity.
      * intros c' Hc'. right. split; auto. eapply aw_flag_true; eauto.
    + destruct (aw busy ixf l2 (S len) (used || need (ixf c))) as [[m1 u1] k1] eqn:E3.
      inversion H; subst. left; left; auto.
  - destruct (len =? w) eqn:E.
    { apply Nat.eqb_eq in E. inversion H; subst. right. split; [left; auto|intros c' []]. }
    destruct ((busy || used) && need (ixf a)) eqn:E2.
    + destruct (IH _ _ _ _ _ _ _ H) as [G|[G1 G2]]; [left; auto|right]. split; auto.
      intros c' Hc'. destruct (G2 c' Hc'); [left; right|right]; auto.
    + destruct (aw busy ixf (l1 ++ c :: l2) (S len) (used || need (ixf a))) as [[m1 u1] k1] eqn:E3.
      inversion H; subst. destruct (IH _ _ _ _ _ _ _ E3) as [G|[G1 G2]]; [left; right; auto|right].
      split; auto. intros c' [<-|Hc']; [left; left; auto|].
      destruct (G2 c' Hc'); [left; right|right]; auto. Qed.
End Walk.

(* ---------- candidates ---------- *)
Lemma ix_of_ixat r c : ix_of r c = ixat (get r (fst c)) (snd c).
Proof. reflexivity. Qed.

Lemma cands_spec prog f r c :
  In c (cands prog f r) <->
  In (fst c) (f_preds f) /\ exists e, nth_error (get r (fst c)) (snd c) = Some e /\ valid prog f e = true.
Proof. unfold cands. rewrite in_flat_map. split.
  - intros [h [Hh Hc]]. apply in_map_iff in Hc. destruct Hc as [n [<- Hn]]. simpl.
    apply locate_spec in Hn. destruct Hn as [_ [e [He Hp]]]. rewrite Nat.sub_0_r in He. eauto.
  - intros [Hh [e [He Hp]]]. exists (fst c). split; auto. apply in_map_iff. exists (snd c).
    split; [destruct c; auto|]. apply (locate_complete _ _ 0 _ _ He Hp). Qed.

Lemma cands_NoDup prog f r : NoDup (f_preds f) -> NoDup (cands prog f r).
Proof. intros H. unfold cands.
  apply (NoDup_flat_pairs (fun h => locate (valid prog f) (get r h) 0)); auto.
  intros h. apply locate_NoDup. Qed.

Lemma U_pos_inj r c1 c2 e1 e2 :
  U r -> nth_error (get r (fst c1)) (snd c1) = Some e1 -> nth_error (get r (fst c2)) (snd c2) = Some e2 ->
  fst e1 = fst e2 -> c1 = c2.
Proof. intros [Hn Hx] H1 H2 E. destruct c1 as [h1 n1], c2 as [h2 n2]. simpl in *.
  assert (h1 = h2).
  { apply (Hx h1 h2 (fst e1)); unfold loc, ixs; [|rewrite E]; apply in_map; eapply nth_error_In; eauto. }
  subst h2. f_equal. specialize (Hn h1). unfold ixs in Hn. rewrite NoDup_nth_error in Hn.
  apply Hn.
  - rewrite map_length. apply nth_error_Some. intros X.
    pose proof (eq_trans (eq_sym X) H1) as Y. discriminate Y.
  - rewrite (map_nth_error fst _ _ H1), (map_nth_error fst _ _ H2). congruence. Qed.

Lemma filter_nil {A} (p : A -> bool) l : (forall x, In x l -> p x = false) -> filter p l = [].
Proof. induction l as [|a l IH]; simpl; intros H; auto. rewrite (H a), IH; auto. Qed.

(* ---------- the effect of one fill_unit ---------- *)
Lemma fill_unit_raw prog f r busy r' busy' :
  U r -> ~ In (u_name (f_model f)) (f_preds f) -> NoDup (f_preds f) ->
  fill_unit prog (r, busy) f = (r', busy') ->
  exists m used len',
    aw prog f busy (ix_of r) (isort (fun a b => ix_of r a <=? ix_of r b) (cands prog f r))
       (length (get r (u_name (f_model f)))) false = (m, used, len') /\
    busy' = busy || used /\
    NoDup m /\ (forall c, In c m -> In c (cands prog f r)) /\
    get r' (u_name (f_model f)) = get r (u_name (f_model f)) ++ map (fun j => (j, LU)) (map (ix_of r) m) /\
    length (get r' (u_name (f_model f))) = len' /\
    (forall h, h <> u_name (f_model f) ->
       get r' h = filter (fun e => negb (memn (fst e) (map (ix_of r) m))) (get r h)).
Proof. intros HU Hme Hnd H. unfold fill_unit in H.
  set (cs := isort (fun a b => ix_of r a <=? ix_of r b) (cands prog f r)) in *.
  destruct (aw prog f busy (ix_of r) cs (length (get r (u_name (f_model f)))) false) as [[m used] len'] eqn:Ea.
  assert (Hcs : forall c, In c cs -> In c (cands prog f r)) by (intros c Hc; eapply isort_incl; eauto).
  assert (Hcm : forall c, In c m -> In c (cands prog f r)).
  { intros c Hc. apply Hcs. eapply aw_incl; eauto. }
  assert (Hne : forall c, In c cs -> fst c <> u_name (f_model f)).
  { intros c Hc E. apply Hcs, cands_spec in Hc. destruct Hc as [Hc _]. rewrite E in Hc. tauto. }
  destruct (walk_aw prog f busy r cs r false [] Hne (fun h _ => eq_refl) _ _ _ Ea)
    as (rw & W & G1 & G2 & G3).
  rewrite W in H. simpl in H. inversion H; subst r' busy'; clear H.
  exists m, used, len'. split; auto. split; auto.
  assert (Hnm : NoDup m).
  { eapply aw_nodup; [|exact Ea]. eapply Permutation_NoDup; [apply isort_perm|].
    apply cands_NoDup; auto. }
  split; [exact Hnm|]. split; [exact Hcm|].
  unfold clr.
  set (L := isort (fun a b : string * nat => snd b <=? snd a) m).
  assert (HL : forall c, In c L <-> In c m).
  { intros c. split; intros Hc.
    - eapply isort_incl; eauto.
    - eapply Permutation_in; [apply isort_perm|auto]. }
  assert (Hme' : get (fold_left (fun r0 c => set r0 (fst c) (del_nth (snd c) (get r0 (fst c)))) L rw)
                     (u_name (f_model f)) = get rw (u_name (f_model f))).
  { rewrite clr_get. rewrite filter_nil; [reflexivity|].
    intros c Hc. apply HL in Hc. apply String.eqb_neq. apply Hne. eapply aw_incl; eauto. }
  split; [|split].
  - rewrite Hme', G1, map_map. reflexivity.
  - rewrite Hme'. auto.
  - intros h Hh. rewrite clr_get, G2; auto.
    set (ns := map snd (filter (fun c => String.eqb (fst c) h) L)).
    assert (Hns : forall n, In n ns <-> In (h, n) m).
    { intros n. unfold ns. rewrite in_map_iff. split.
      - intros [[h' n'] [E Hc]]. simpl in E. subst n'. apply filter_In in Hc. destruct Hc as [Hc E].
        simpl in E. apply String.eqb_eq in E. subst h'. apply HL; auto.
      - intros Hc. exists (h, n). split; auto. apply filter_In. split; [apply HL; auto|].
        simpl. apply String.eqb_refl. }
    transitivity (filter (fun x : nat * label => negb (memn (fst x) (map (ixat (get r h)) ns))) (get r h)).
    { apply (@dels_filter label).
    + apply desc_strict.
      * unfold ns. apply (ssorted_map snd (fun a b : string * nat => (snd b <=? snd a) = true)).
        { intros a b Hab. apply Nat.leb_le in Hab. auto. }
        apply ssorted_filter. apply isort_sorted.
        { intros a b. destruct (Nat.leb_spec (snd b) (snd a)); auto. right. apply Nat.leb_le. lia. }
        { intros a b c H1 H2. apply Nat.leb_le in H1, H2. apply Nat.leb_le. lia. }
      * unfold ns. apply NoDup_map_inj_in.
        { apply NoDup_filter. eapply Permutation_NoDup; [apply isort_perm|auto]. }
        intros [h1 n1] [h2 n2] H1 H2 E. apply filter_In in H1, H2. simpl in *.
        destruct H1 as [_ H1], H2 as [_ H2]. apply String.eqb_eq in H1, H2. subst. auto.
    + destruct HU as [HU _]. apply HU.
    + intros n Hn. apply Hns in Hn. apply Hcm, cands_spec in Hn. simpl in Hn.
      destruct Hn as [_ [e [He _]]]. intros X. pose proof (eq_trans (eq_sym X) He) as Y. discriminate Y. }
    {apply filter_ext_in. intros e He. f_equal. apply eq_iff_eq_true. rewrite !memn_In, !in_map_iff.
      split.
      * intros [n [E Hn]]. apply Hns in Hn. exists (h, n). split; auto.
      * intros [c [E Hc]]. pose proof (Hcm c Hc) as Hcc. apply cands_spec in Hcc.
        destruct Hcc as [_ [e' [He' _]]].
        assert (Eh : fst c = h).
        { destruct HU as [_ Hx]. apply (Hx (fst c) h (fst e)).
          - rewrite <- E. unfold ix_of. rewrite He'. unfold loc, ixs. apply in_map.
            eapply nth_error_In; eauto.
          - unfold loc, ixs. apply in_map; auto. }
        exists (snd c). split.
        -- rewrite <- E, <- Eh. reflexivity.
        -- apply Hns. rewrite <- Eh. destruct c; auto. }
Qed.
