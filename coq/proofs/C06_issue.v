(* C06_issue.v -- the issue phase (_fill_inputs) and the whole cycle seen through instruction indices:
   what a successful cycle guarantees about the new record (cyc). *)
From Coq Require Import Lia Permutation Sorted.
From PS Require Import Base Bag RegAccess Sim Diag Lists Run C06_lists C06_move.

Lemma filter_all {A} (p : A -> bool) l : (forall x, In x l -> p x = true) -> filter p l = l.
Proof. induction l as [|a l IH]; simpl; intros H; auto. rewrite (H a) by auto. f_equal. apply IH. intros; apply H; auto. Qed.
Lemma filter_app' {A} (p : A -> bool) l1 l2 : filter p (l1 ++ l2) = filter p l1 ++ filter p l2.
Proof. induction l1; simpl; auto. destruct (p a); simpl; congruence. Qed.
Lemma NoDup_app_l {A} (a b : list A) : NoDup (a ++ b) -> NoDup a.
Proof. induction a; simpl; intros H; [constructor|]. inversion H; subst. constructor; auto.
  intros Hin. apply H2. apply in_or_app; auto. Qed.

(* ---------- hazards only relabel ---------- *)
Lemma stall_unit_ixs u old prog qs : forall es cl es' cl',
  stall_unit u old prog qs es cl = Ok (es', cl') -> map fst es' = map fst es.
Proof. induction es as [|[i l] t IH]; intros cl es' cl' H; simpl in H.
  - inversion H; auto.
  - destruct (regs_loaded old i).
    + destruct (stall_unit u old prog qs t cl) as [[t' c']|] eqn:E; [|discriminate].
      inversion H; subst; simpl. f_equal; eauto.
    + destruct (nth_error prog i) as [ins|]; [|discriminate].
      destruct (regs_avail u i ins qs) as [[regs|]|]; [| |discriminate].
      * destruct (stall_unit u old prog qs t _) as [[t' c']|] eqn:E; [|discriminate].
        inversion H; subst; simpl. f_equal; eauto.
      * destruct (stall_unit u old prog qs t cl) as [[t' c']|] eqn:E; [|discriminate].
        inversion H; subst; simpl. f_equal; eauto.
Qed.
Lemma hazards_ixs P old prog qs : forall r cl r' cl',
  chk_hazards_units P old prog qs r cl = Ok (r', cl') ->
  (forall k, ixs r' k = ixs r k) /\ map fst r' = map fst r.
Proof. unfold ixs. induction r as [|[n es] t IH]; intros cl r' cl' H; simpl in H.
  - inversion H; auto.
  - destruct es as [|e es].
    + destruct (chk_hazards_units P old prog qs t cl) as [[t' c']|] eqn:E2; [|discriminate].
      inversion H; subst; simpl. destruct (IH _ _ _ E2) as [H1 H2]. split; [|congruence].
      intros k. destruct (String.eqb k n); auto.
    + destruct (find_unit P n); [|discriminate].
      destruct (stall_unit u (get old n) prog qs (e :: es) cl) as [[es' c']|] eqn:E; [|discriminate].
      destruct (chk_hazards_units P old prog qs t c') as [[t' c'']|] eqn:E2; [|discriminate].
      inversion H; subst. cbn [get map fst]. destruct (IH _ _ _ E2) as [H1 H2]. split; [|congruence].
      intros k. destruct (String.eqb k n); auto. eapply stall_unit_ixs; eauto. Qed.

(* ---------- trying the ports ---------- *)
Lemma try_ports_some cat ix : forall ports r mu r' m',
  try_ports cat ports r mu ix = Some (r', m') ->
  exists pre u post, ports = pre ++ u :: post /\ mem_str cat (u_caps u) = true /\
    r' = set r (u_name u) (get r (u_name u) ++ [(ix, LU)]) /\ m' = mu || mem_str cat (u_mem u) /\
    (forall w, In w pre -> mem_str cat (u_caps w) = true ->
        (mu = true /\ mem_str cat (u_mem w) = true) \/ length (get r (u_name w)) = u_width w).
Proof. induction ports as [|u t IH]; intros r mu r' m' H; simpl in H; [discriminate|].
  destruct (mem_str cat (u_caps u)) eqn:Ec.
  - destruct ((mu && mem_str cat (u_mem u)) || (length (get r (u_name u)) =? u_width u)) eqn:Es.
    + apply IH in H. destruct H as (pre & q & post & -> & H2 & H3 & H4 & H5).
      exists (u :: pre), q, post. repeat split; auto. intros w [<-|Hw] Hc; auto.
      apply orb_true_iff in Es. destruct Es as [Es|Es].
      * apply andb_true_iff in Es. left; auto.
      * apply Nat.eqb_eq in Es. right; auto.
    + inversion H; subst. exists [], u, t. repeat split; auto; intros w [].
  - apply IH in H. destruct H as (pre & q & post & -> & H2 & H3 & H4 & H5).
    exists (u :: pre), q, post. repeat split; auto. intros w [<-|Hw] Hc; auto. congruence. Qed.
Lemma try_ports_none cat ix : forall ports r mu, try_ports cat ports r mu ix = None ->
  forall w, In w ports -> mem_str cat (u_caps w) = true ->
    (mu = true /\ mem_str cat (u_mem w) = true) \/ length (get r (u_name w)) = u_width w.
Proof. induction ports as [|u t IH]; intros r mu H w Hw Hc; simpl in H; [destruct Hw|].
  destruct (mem_str cat (u_caps u)) eqn:Ec.
  - destruct ((mu && mem_str cat (u_mem u)) || (length (get r (u_name u)) =? u_width u)) eqn:Es; [|discriminate].
    destruct Hw as [<-|Hw]; [|eapply IH; eauto].
    apply orb_true_iff in Es. destruct Es as [Es|Es].
    + apply andb_true_iff in Es. left; auto.
    + apply Nat.eqb_eq in Es. right; auto.
  - destruct Hw as [<-|Hw]; [congruence|eapply IH; eauto]. Qed.

Section Issue.
Variable P : proc.
Variable prog : list instr.
Hypothesis Hnd : NoDup (unit_names P).

Lemma ports_in_all u : In u (in_ports_sorted P) -> In u (all_units P).
Proof. intros H. apply isort_incl in H. unfold all_units. rewrite !in_app_iff in *. tauto. Qed.
Lemma ports_names_NoDup : NoDup (map u_name (in_ports_sorted P)).
Proof. unfold in_ports_sorted. eapply Permutation_NoDup; [apply Permutation_map, isort_perm|].
  unfold unit_names, all_units in Hnd. rewrite app_assoc, map_app in Hnd. apply NoDup_app_l in Hnd.
  eapply Permutation_NoDup; [apply Permutation_map, Permutation_app_comm|exact Hnd]. Qed.
Lemma port_in_names u : In u (in_ports_sorted P) -> In (u_name u) (in_names P).
Proof. intros H. apply isort_incl in H. unfold in_names. apply in_map. rewrite in_app_iff in *. tauto. Qed.
Lemma port_supports u c : In u (in_ports_sorted P) -> supports P (u_name u) c = mem_str c (u_caps u).
Proof. intros H. unfold supports. rewrite find_unit_in; auto. apply ports_in_all; auto. Qed.
Lemma port_mem u c : In u (in_ports_sorted P) -> mem_needed P (u_name u) c = mem_str c (u_mem u).
Proof. intros H. unfold mem_needed. rewrite find_unit_in; auto. apply ports_in_all; auto. Qed.
Lemma port_width u : In u (in_ports_sorted P) -> width_of P (u_name u) = u_width u.
Proof. intros H. unfold width_of. rewrite find_unit_in; auto. apply ports_in_all; auto. Qed.

(* an instruction with index below K started a memory stage: it is in v now and was not in v before *)
Definition memw (old r : record) (K : nat) : Prop :=
  exists k v, k < K /\ In k (ixs r v) /\ ~ In k (ixs old v) /\ mem_needed P v (cat_of prog k) = true.
Definition skipped (old r : record) (c : string) (K : nat) (w : unit) : Prop :=
  u_width w <= length (filter (fun k => k <? K) (ixs r (u_name w)))
  \/ (mem_str c (u_mem w) = true /\ memw old r K).
Definition blockedp (old r : record) (c : string) (K : nat) (w : unit) : Prop :=
  length (ixs r (u_name w)) = u_width w \/ (mem_str c (u_mem w) = true /\ memw old r K).

Lemma memw_mono old r r2 K K2 :
  (forall h k, In k (ixs r h) -> In k (ixs r2 h)) -> K <= K2 -> memw old r K -> memw old r2 K2.
Proof. intros H1 H2 (k & v & Hk & Hin & Hnot & Hm). exists k, v. repeat split; auto. lia. Qed.

Record issue_post (old r : record) (e : nat) (r2 : record) (e2 : nat) : Prop := {
  ip_le : e <= e2 <= length prog;
  ip_ext : forall h, exists tl, ixs r2 h = ixs r h ++ tl /\ forall k, In k tl -> e <= k < e2;
  ip_issued : forall i, e <= i < e2 -> exists pre u post, in_ports_sorted P = pre ++ u :: post /\
      mem_str (cat_of prog i) (u_caps u) = true /\ In i (ixs r2 (u_name u)) /\
      forall w, In w pre -> mem_str (cat_of prog i) (u_caps w) = true -> skipped old r2 (cat_of prog i) i w;
  ip_held : e2 < length prog -> forall w, In w (in_ports_sorted P) ->
      mem_str (cat_of prog e2) (u_caps w) = true -> blockedp old r2 (cat_of prog e2) e2 w;
  ip_uniq : uniq r2;
  ip_keys : ukeys r2;
  ip_bound : forall h k, In k (ixs r2 h) -> k < e2 }.

Lemma fill_inputs_post old E0 :
  (forall h k, In k (ixs old h) -> k < E0) ->
  forall fuel r mu e, length prog - e < fuel -> e <= length prog -> E0 <= e ->
    uniq r -> ukeys r -> (forall h k, In k (ixs r h) -> k < e) -> (mu = true -> memw old r e) ->
    issue_post old r e (fst (fill_inputs fuel prog (in_ports_sorted P) r mu e))
                       (snd (fill_inputs fuel prog (in_ports_sorted P) r mu e)).
Proof. intros Hold. induction fuel as [|f IH]; intros r mu e Hf He HE Hu Hk Hb Hm; [lia|].
  assert (Hstay : issue_post old r e r e -> issue_post old r e r e) by auto.
  assert (Hbase : (e < length prog -> forall w, In w (in_ports_sorted P) ->
                     mem_str (cat_of prog e) (u_caps w) = true -> blockedp old r (cat_of prog e) e w) ->
                  issue_post old r e r e).
  { intros Hh. constructor; auto; try lia.
    intros h. exists []. rewrite app_nil_r. split; auto. intros k []. }
  cbn [fill_inputs]. destruct (nth_error prog e) as [ins|] eqn:En.
  2:{ simpl. apply Hbase. intros Hlt. apply nth_error_None in En. lia. }
  assert (Hlt : e < length prog) by (apply nth_error_Some; congruence).
  assert (Hcat : cat_of prog e = i_cat ins) by (unfold cat_of; rewrite En; auto).
  destruct (try_ports (i_cat ins) (in_ports_sorted P) r mu e) as [[r' m']|] eqn:Et.
  2:{ simpl. apply Hbase. intros _ w Hw Hc. rewrite Hcat in *.
      destruct (try_ports_none _ _ _ _ _ Et w Hw Hc) as [[Hmu Hn]|Hl].
      - right. split; auto.
      - left. unfold ixs. rewrite map_length. auto. }
  destruct (try_ports_some _ _ _ _ _ _ _ Et) as (pre & u & post & Hports & Hc & Hr' & Hm' & Hpre).
  set (q := u_name u) in *.
  assert (Hix' : forall h, ixs r' h = ixs r h ++ (if string_dec q h then [e] else [])).
  { intros h. unfold ixs. rewrite Hr'. destruct (string_dec q h) as [<-|Hne].
    - rewrite gss, map_app. reflexivity.
    - rewrite gso, app_nil_r; auto. }
  assert (Hin' : forall h k, In k (ixs r h) -> In k (ixs r' h)).
  { intros h k Hin. rewrite Hix'. apply in_or_app; auto. }
  assert (Hinq : In u (in_ports_sorted P)) by (rewrite Hports; apply in_or_app; right; left; auto).
  assert (Hfresh : forall h, ~ In e (ixs r h)) by (intros h Hin; apply Hb in Hin; lia).
  specialize (IH r' m' (S e)).
  destruct IH as [I1 I2 I3 I4 I5 I6 I7]; try lia.
  - (* uniq r' *) destruct Hu as [Hu1 Hu2]. split.
    + intros h. rewrite Hix'. apply NoDup_app_intro; auto.
      * destruct (string_dec q h); repeat constructor; auto.
      * intros k Hk1 Hk2. destruct (string_dec q h); simpl in Hk2; [|tauto].
        destruct Hk2 as [<-|[]]. eapply Hfresh; eauto.
    + intros h1 h2 k. rewrite !Hix', !in_app_iff. intros [H1|H1] [H2|H2]; eauto.
      * destruct (string_dec q h2); simpl in H2; [|tauto]. destruct H2 as [<-|[]]. exfalso; eapply Hfresh; eauto.
      * destruct (string_dec q h1); simpl in H1; [|tauto]. destruct H1 as [<-|[]]. exfalso; eapply Hfresh; eauto.
      * destruct (string_dec q h1); simpl in H1; [|tauto]. destruct (string_dec q h2); simpl in H2; [|tauto]. congruence.
  - rewrite Hr'. apply set_ukeys; auto.
  - intros h k. rewrite Hix', in_app_iff. intros [H|H]; [apply Hb in H; lia|].
    destruct (string_dec q h); simpl in H; [|tauto]. destruct H as [<-|[]]. lia.
  - intros Hm1. rewrite Hm' in Hm1. apply orb_true_iff in Hm1. destruct Hm1 as [Hm1|Hm1].
    + eapply memw_mono; [exact Hin'| |apply Hm; auto]. lia.
    + exists e, q. split; [lia|]. split; [|split].
      * rewrite Hix'. apply in_or_app. right. destruct (string_dec q q); [left; auto|tauto].
      * intros Hin. apply Hold in Hin. lia.
      * unfold q. rewrite port_mem; auto. rewrite Hcat. auto.
  - (* combine *)
    assert (Hext : forall h, exists tl, ixs (fst (fill_inputs f prog (in_ports_sorted P) r' m' (S e))) h = ixs r h ++ tl
                                        /\ forall k, In k tl -> e <= k < snd (fill_inputs f prog (in_ports_sorted P) r' m' (S e))).
    { intros h. destruct (I2 h) as [tl [Htl1 Htl2]]. rewrite Hix' in Htl1.
      exists ((if string_dec q h then [e] else []) ++ tl). rewrite app_assoc. split; auto.
      intros k Hkk. apply in_app_iff in Hkk. destruct Hkk as [Hkk|Hkk]; [|apply Htl2 in Hkk; lia].
      destruct (string_dec q h); simpl in Hkk; [|tauto]. destruct Hkk as [<-|[]]. lia. }
    simpl. destruct (fill_inputs f prog (in_ports_sorted P) r' m' (S e)) as [r2 e2] eqn:Ef. simpl in *.
    assert (Hin2 : forall h k, In k (ixs r h) -> In k (ixs r2 h)).
    { intros h k Hin. destruct (Hext h) as [tl [-> _]]. apply in_or_app; auto. }
    constructor; auto; try lia.
    intros i Hi. destruct (Nat.eq_dec i e) as [->|Hne]; [|apply I3; lia].
    exists pre, u, post. split; auto. rewrite Hcat. split; auto. split.
    + fold q. destruct (I2 q) as [tl [-> _]]. apply in_or_app. left. rewrite Hix'. apply in_or_app. right.
      destruct (string_dec q q); [left; auto|tauto].
    + intros w Hw Hcw. destruct (Hpre w Hw Hcw) as [[Hmu Hn]|Hl].
      * right. split; auto. eapply memw_mono; [exact Hin2| |apply Hm; auto]. lia.
      * left. destruct (Hext (u_name w)) as [tl [-> Htl]]. rewrite filter_app', app_length.
        rewrite filter_all.
        -- unfold ixs. rewrite map_length. unfold entry in *. lia.
        -- intros k Hkk. apply Hb in Hkk. apply Nat.ltb_lt. auto.
Qed.

(* ---------- what one successful cycle guarantees ---------- *)
Record cyc (old new : record) (a b : nat) : Prop := {
  cy_le : a <= b <= length prog;
  cy_uniq : uniq new;
  cy_keys : ukeys new;
  cy_bound : forall h k, In k (ixs new h) -> k < b;
  cy_issued : forall i, a <= i < b -> exists pre u post, in_ports_sorted P = pre ++ u :: post /\
      mem_str (cat_of prog i) (u_caps u) = true /\ In i (ixs new (u_name u)) /\
      forall w, In w pre -> mem_str (cat_of prog i) (u_caps w) = true -> skipped old new (cat_of prog i) i w;
  cy_held : b < length prog -> forall w, In w (in_ports_sorted P) ->
      mem_str (cat_of prog b) (u_caps w) = true -> blockedp old new (cat_of prog b) b w }.

Lemma memw_ext old r r3 K : (forall k, ixs r3 k = ixs r k) -> memw old r K -> memw old r3 K.
Proof. intros H (k & v & H1 & H2 & H3 & H4). exists k, v. rewrite H. auto. Qed.

Lemma cycle_cyc old qs a r1 busy r2 ent r3 cl :
  ord_ok (funits P) -> (forall f, In f (funits P) -> NoDup (f_preds f)) ->
  uniq old -> ukeys old -> (forall h k, In k (ixs old h) -> k < a) -> a <= length prog ->
  mov_flights P prog old = (r1, busy) ->
  fill_inputs (S (length prog)) prog (in_ports_sorted P) r1 busy a = (r2, ent) ->
  chk_hazards_units P old prog qs r2 [] = Ok (r3, cl) ->
  cyc old r3 a ent.
Proof. intros Ho Hnp Hu Hk Hb Ha Hmov Hfill Hhaz.
  destruct (mov_flights_FInv P prog Hnd old a Hu Ho Hnp Hk Hb) as [done [F1 F2 F3 F4 F5]].
  rewrite Hmov in *. cbn [fst snd] in *.
  assert (Hm : busy = true -> memw old r1 a).
  { intros Hbusy. destruct (F5 Hbusy) as (k & v & _ & H2 & H3 & H4). exists k, v. repeat split; eauto. }
  pose proof (fill_inputs_post old a Hb (S (length prog)) r1 busy a ltac:(lia) Ha (Nat.le_refl a) F1 F2 F3 Hm) as Hp.
  rewrite Hfill in Hp. cbn [fst snd] in Hp. destruct Hp as [I1 I2 I3 I4 I5 I6 I7].
  destruct (hazards_ixs _ _ _ _ _ _ _ _ Hhaz) as [Hx Hkeys].
  constructor; auto.
  - destruct I5 as [U1 U2]. split; [intros u|intros u v k]; rewrite !Hx; [apply U1|apply U2].
  - unfold ukeys. rewrite Hkeys. auto.
  - intros h k. rewrite Hx. apply I7.
  - intros i Hi. destruct (I3 i Hi) as (pre & u & post & H1 & H2 & H3 & H4).
    exists pre, u, post. rewrite Hx. repeat split; auto.
    intros w Hw Hc. destruct (H4 w Hw Hc) as [Hl|[Hn Hmw]]; [left; rewrite Hx; auto|].
    right. split; auto. eapply memw_ext; eauto.
  - intros Hlt w Hw Hc. destruct (I4 Hlt w Hw Hc) as [Hl|[Hn Hmw]]; [left; rewrite Hx; auto|].
    right. split; auto. eapply memw_ext; eauto.
Qed.
End Issue.
