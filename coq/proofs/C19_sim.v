(* C19_sim.v -- reachable abstract states have the shape P ++ L ++ T (P removed, L a run of reads,
   T untouched and not starting with a read); closed forms of abs_queue / a_dequeue / a_can_access on
   that shape; the simulation step. *)
From Coq Require Import Lia.
From PS Require Import Base RegAccess QueueSpec Lists C19_concrete C19_build.

Definition pend_o (o : nat) (x : req * bool) : bool := negb (removed x) && Nat.eqb (owner x) o.
Definition pending (x : req * bool) : bool := negb (removed x).
Definition oset_step (acc : list nat) (x : req * bool) : list nat :=
  if removed x then acc else set_add (owner x) acc.
Definition oset (L : astate) (acc : list nat) : list nat := fold_left oset_step L acc.
Definition starts_write (T : astate) : Prop :=
  match T with [] => True | w :: _ => is_read w = false end.

Record decomp (a P L T : astate) : Prop := mkDecomp {
  d_eq : a = P ++ L ++ T;
  d_P : forallb removed P = true;
  d_L : forallb is_read L = true;
  d_T : forallb pending T = true;
  d_W : starts_write T }.
Definition Inv (a : astate) : Prop := exists P L T, decomp a P L T.

Definition tailq (T : astate) : queue :=
  match T with [] => [] | w :: T' => mkG WR [owner w] :: abs_queue T' end.
Definition frontq (r : list nat) : queue := match r with [] => [] | _ => [mkG RD r] end.
Definition Q (L T : astate) : queue := frontq (oset L []) ++ tailq T.

(* ---------- abs_queue on the shape ---------- *)
Lemma oset_cons x L acc : oset (x :: L) acc = oset L (oset_step acc x).
Proof. reflexivity. Qed.

Lemma abs_groups_reads L : forall T acc, forallb is_read L = true ->
  abs_groups (L ++ T) (Some (mkG RD acc)) = abs_groups T (Some (mkG RD (oset L acc))).
Proof. induction L as [|x L IH]; intros T acc H; [reflexivity|].
  cbn [forallb] in H. apply andb_true_iff in H. destruct H as [Hx HL].
  change ((x :: L) ++ T) with (x :: (L ++ T)). cbn [abs_groups]. rewrite Hx.
  rewrite oset_cons. unfold oset_step. cbn [g_reqs].
  destruct (removed x); apply IH; auto. Qed.

Lemma absq_none_some t :
  filter ne_group (abs_groups t (Some (mkG RD []))) = filter ne_group (abs_groups t None).
Proof. destruct t as [|x t]; [reflexivity|]. cbn [abs_groups].
  destruct (is_read x); [reflexivity|]. reflexivity. Qed.

Lemma absq_skip P X : forallb removed P = true ->
  filter ne_group (abs_groups (P ++ X) None) = filter ne_group (abs_groups X None).
Proof. induction P as [|x P IH]; intros H; [reflexivity|].
  cbn [forallb] in H. apply andb_true_iff in H. destruct H as [Hx HP].
  change ((x :: P) ++ X) with (x :: (P ++ X)). cbn [abs_groups]. rewrite Hx.
  destruct (is_read x).
  - rewrite absq_none_some. auto.
  - cbn [app]. auto. Qed.

Lemma abs_queue_skip P X : forallb removed P = true -> abs_queue (P ++ X) = abs_queue X.
Proof. intros H. rewrite !abs_queue_eq. apply absq_skip; auto. Qed.

Lemma filter_app {A} (f : A -> bool) l1 l2 : filter f (l1 ++ l2) = filter f l1 ++ filter f l2.
Proof. induction l1; simpl; auto. destruct (f a); simpl; rewrite IHl1; auto. Qed.

Lemma abs_tail T g : forallb pending T = true -> starts_write T ->
  filter ne_group (abs_groups T (Some g)) = filter ne_group [g] ++ tailq T.
Proof. intros HT HW. destruct T as [|w T'].
  - cbn [abs_groups tailq]. rewrite app_nil_r. reflexivity.
  - cbn [forallb] in HT. apply andb_true_iff in HT. destruct HT as [Hw _].
    unfold pending in Hw. apply negb_true_iff in Hw. simpl in HW.
    cbn [abs_groups tailq]. rewrite HW, Hw. rewrite filter_app. f_equal. Qed.

Lemma filter_front r : filter ne_group [mkG RD r] = frontq r.
Proof. destruct r; reflexivity. Qed.

Lemma abs_decomp a P L T : decomp a P L T -> abs_queue a = Q L T.
Proof. intros [-> HP HL HT HW]. rewrite abs_queue_skip by auto. rewrite abs_queue_eq.
  rewrite <- absq_none_some. rewrite abs_groups_reads by auto. rewrite abs_tail by auto.
  rewrite filter_front. reflexivity. Qed.

(* ---------- a_dequeue on the shape ---------- *)
Lemma a_dequeue_skip R X o : forallb removed R = true ->
  a_dequeue (R ++ X) o = match a_dequeue X o with Some X' => Some (R ++ X') | None => None end.
Proof. induction R as [|x R IH]; intros H.
  - simpl. destruct (a_dequeue X o); reflexivity.
  - cbn [forallb] in H. apply andb_true_iff in H. destruct H as [Hx HR].
    change ((x :: R) ++ X) with (x :: (R ++ X)). cbn [a_dequeue]. rewrite Hx.
    rewrite IH by auto. destruct (a_dequeue X o); reflexivity. Qed.

Lemma leading_reads_app L T : forallb is_read L = true -> starts_write T ->
  leading_reads (L ++ T) = L.
Proof. intros HL HW. induction L as [|x L IH].
  - destruct T as [|w T']; [reflexivity|]. simpl in HW. simpl. rewrite HW. reflexivity.
  - cbn [forallb] in HL. apply andb_true_iff in HL. destruct HL as [Hx HL].
    change ((x :: L) ++ T) with (x :: (L ++ T)). cbn [leading_reads]. rewrite Hx, IH; auto. Qed.

Lemma mark_reads_app L T o : forallb is_read L = true -> starts_write T ->
  mark_reads (L ++ T) o = mark_reads L o ++ T.
Proof. intros HL HW. induction L as [|x L IH].
  - destruct T as [|w T']; [reflexivity|]. simpl in HW. simpl. rewrite HW. reflexivity.
  - cbn [forallb] in HL. apply andb_true_iff in HL. destruct HL as [Hx HL].
    change ((x :: L) ++ T) with (x :: (L ++ T)). cbn [mark_reads]. rewrite Hx, IH; auto. Qed.

Lemma removed_eta (x : req * bool) : removed x = true -> (fst x, true) = x.
Proof. destruct x as [r b]. unfold removed. simpl. intros ->. reflexivity. Qed.

Lemma a_dequeue_reads L T o : forallb is_read L = true -> starts_write T ->
  existsb (pend_o o) L = true -> a_dequeue (L ++ T) o = Some (mark_reads L o ++ T).
Proof. intros HL HW. induction L as [|x L IH]; intros HE; [discriminate|].
  pose proof HL as HL0.
  cbn [forallb] in HL. apply andb_true_iff in HL. destruct HL as [Hx HL].
  change ((x :: L) ++ T) with (x :: (L ++ T)). cbn [a_dequeue].
  destruct (removed x) eqn:Hr.
  - cbn [existsb] in HE. unfold pend_o at 1 in HE. rewrite Hr in HE. simpl in HE.
    rewrite IH by auto. cbn [mark_reads]. rewrite Hx.
    destruct (owner x =? o); [rewrite removed_eta by auto|]; reflexivity.
  - rewrite Hx. change (x :: (L ++ T)) with ((x :: L) ++ T).
    rewrite leading_reads_app by auto.
    change (existsb (fun y => negb (removed y) && (owner y =? o)) (x :: L))
      with (existsb (pend_o o) (x :: L)). rewrite HE.
    rewrite mark_reads_app by auto. reflexivity. Qed.

Lemma mark_reads_reads L o : forallb is_read L = true -> forallb is_read (mark_reads L o) = true.
Proof. induction L as [|x L IH]; intros HL; [reflexivity|].
  cbn [forallb] in HL. apply andb_true_iff in HL. destruct HL as [Hx HL].
  cbn [mark_reads]. rewrite Hx. cbn [forallb]. rewrite IH by auto.
  destruct (owner x =? o); [|rewrite Hx; reflexivity].
  unfold is_read in *. simpl. rewrite Hx. reflexivity. Qed.

(* ---------- owner sets ---------- *)
Lemma set_remove_app o l1 l2 : set_remove o (l1 ++ l2) = set_remove o l1 ++ set_remove o l2.
Proof. apply filter_app. Qed.

Lemma set_remove_add_same o acc : set_remove o (set_add o acc) = set_remove o acc.
Proof. unfold set_add. destruct (memn o acc); [reflexivity|].
  rewrite set_remove_app. simpl. rewrite Nat.eqb_refl. simpl. apply app_nil_r. Qed.

Lemma memn_remove y o acc : y <> o -> memn y (set_remove o acc) = memn y acc.
Proof. intros Hne. induction acc as [|z acc IH]; [reflexivity|].
  simpl. destruct (o =? z) eqn:E; simpl.
  - apply Nat.eqb_eq in E. subst z. rewrite IH.
    destruct (y =? o) eqn:E2; [apply Nat.eqb_eq in E2; congruence|reflexivity].
  - rewrite IH. reflexivity. Qed.

Lemma set_remove_add_other o y acc : y <> o ->
  set_remove o (set_add y acc) = set_add y (set_remove o acc).
Proof. intros Hne. unfold set_add. rewrite memn_remove by auto.
  destruct (memn y acc); [reflexivity|]. rewrite set_remove_app. simpl.
  destruct (o =? y) eqn:E; [apply Nat.eqb_eq in E; congruence|reflexivity]. Qed.

Lemma oset_mark L o : forall acc, forallb is_read L = true ->
  oset (mark_reads L o) (set_remove o acc) = set_remove o (oset L acc).
Proof. induction L as [|x L IH]; intros acc HL; [reflexivity|].
  cbn [forallb] in HL. apply andb_true_iff in HL. destruct HL as [Hx HL].
  cbn [mark_reads]. rewrite Hx. rewrite !oset_cons. rewrite <- IH by auto. f_equal.
  unfold oset_step. destruct (owner x =? o) eqn:E.
  - apply Nat.eqb_eq in E. unfold removed at 1. cbn [snd].
    destruct (removed x); [reflexivity|]. rewrite E. rewrite set_remove_add_same. reflexivity.
  - apply Nat.eqb_neq in E. destruct (removed x); [reflexivity|].
    rewrite set_remove_add_other by auto. reflexivity. Qed.

Lemma memn_app o l1 l2 : memn o (l1 ++ l2) = memn o l1 || memn o l2.
Proof. unfold memn. apply existsb_app. Qed.

Lemma memn_set_add o y acc : memn o (set_add y acc) = memn o acc || (y =? o).
Proof. unfold set_add. destruct (memn y acc) eqn:E.
  - destruct (y =? o) eqn:E2; [|rewrite orb_false_r; reflexivity].
    apply Nat.eqb_eq in E2. subst. rewrite E. reflexivity.
  - rewrite memn_app. simpl. rewrite orb_false_r. rewrite (Nat.eqb_sym o y). reflexivity. Qed.

Lemma memn_oset o L : forall acc, memn o (oset L acc) = memn o acc || existsb (pend_o o) L.
Proof. induction L as [|x L IH]; intros acc.
  - simpl. rewrite orb_false_r. reflexivity.
  - rewrite oset_cons, IH. cbn [existsb]. unfold oset_step, pend_o at 2.
    destruct (removed x); simpl; [reflexivity|].
    rewrite memn_set_add. rewrite orb_assoc. reflexivity. Qed.

Lemma oset_removed L : forall acc, forallb removed L = true -> oset L acc = acc.
Proof. induction L as [|x L IH]; intros acc H; [reflexivity|].
  cbn [forallb] in H. apply andb_true_iff in H. destruct H as [Hx HL].
  rewrite oset_cons. unfold oset_step. rewrite Hx. auto. Qed.

Lemma oset_ne L : forall acc, acc <> [] -> oset L acc <> [].
Proof. induction L as [|x L IH]; intros acc H; [exact H|].
  rewrite oset_cons. apply IH. unfold oset_step. destruct (removed x); auto. apply set_add_ne. Qed.

Lemma oset_pending L : forall acc, forallb removed L = false -> oset L acc <> [].
Proof. induction L as [|x L IH]; intros acc H; [discriminate|].
  cbn [forallb] in H. rewrite oset_cons. unfold oset_step. destruct (removed x); simpl in H.
  - apply IH; auto.
  - apply oset_ne. apply set_add_ne. Qed.

Lemma oset_nil_removed L : oset L [] = [] -> forallb removed L = true.
Proof. intros H. destruct (forallb removed L) eqn:E; auto.
  exfalso. eapply oset_pending; eauto. Qed.

Definition mine (o : nat) (x : req * bool) : bool := removed x || Nat.eqb (owner x) o.

Lemma oset_mine o L : forall acc, forallb (mine o) L = true -> acc = [] \/ acc = [o] ->
  oset L acc = [] \/ oset L acc = [o].
Proof. induction L as [|x L IH]; intros acc H Hacc; [exact Hacc|].
  cbn [forallb] in H. apply andb_true_iff in H. destruct H as [Hx HL].
  rewrite oset_cons. apply IH; auto. unfold oset_step. unfold mine in Hx.
  destruct (removed x); auto. simpl in Hx. apply Nat.eqb_eq in Hx. rewrite Hx.
  right. destruct Hacc as [->| ->]; [reflexivity|].
  unfold set_add. simpl. rewrite Nat.eqb_refl. reflexivity. Qed.

Lemma forallb_false_ex {A} (f : A -> bool) l : forallb f l = false -> exists x, In x l /\ f x = false.
Proof. induction l as [|a l IH]; [discriminate|]. simpl. destruct (f a) eqn:E; simpl.
  - intros H. destruct (IH H) as [x [Hi Hf]]. exists x; auto.
  - intros _. exists a; auto. Qed.

Lemma is_singleton_eq o l : is_singleton o l = true -> l = [o].
Proof. destruct l as [|x [|y l]]; simpl; try discriminate.
  intros H. apply Nat.eqb_eq in H. subst. reflexivity. Qed.

Lemma singleton_oset o L : oset L [] <> [] ->
  is_singleton o (oset L []) = forallb (mine o) L.
Proof. intros Hne. destruct (forallb (mine o) L) eqn:E.
  - assert (Hx : oset L [] = [] \/ oset L [] = [o]) by (apply oset_mine; auto).
    destruct Hx as [H|H]; [congruence|].
    rewrite H. simpl. apply Nat.eqb_refl.
  - destruct (is_singleton o (oset L [])) eqn:Hs; auto. exfalso.
    apply is_singleton_eq in Hs. apply forallb_false_ex in E. destruct E as [x [Hin Hf]].
    unfold mine in Hf. apply orb_false_iff in Hf. destruct Hf as [Hr Ho].
    assert (Hm : memn (owner x) (oset L []) = true).
    { rewrite memn_oset. simpl. apply existsb_exists. exists x. split; auto.
      unfold pend_o. rewrite Hr, Nat.eqb_refl. reflexivity. }
    rewrite Hs in Hm. simpl in Hm. rewrite orb_false_r in Hm.
    rewrite Hm in Ho. discriminate. Qed.

(* ---------- a_can_access on the shape ---------- *)
Lemma read_suffix_snoc pre x :
  read_suffix (pre ++ [x]) =
  if is_read x then (fst (read_suffix pre), snd (read_suffix pre) ++ [x]) else (pre ++ [x], []).
Proof. induction pre as [|a pre IH].
  - simpl. destruct (is_read x); reflexivity.
  - change ((a :: pre) ++ [x]) with (a :: (pre ++ [x])). cbn [read_suffix]. rewrite IH.
    destruct (is_read x).
    + destruct (read_suffix pre) as [p0 s0]. cbn [fst snd].
      destruct p0; [destruct (is_read a)|]; reflexivity.
    + destruct (pre ++ [x]) eqn:E; [destruct pre; discriminate|]. reflexivity. Qed.

Lemma read_suffix_split l : fst (read_suffix l) ++ snd (read_suffix l) = l.
Proof. induction l as [|a l IH]; [reflexivity|]. cbn [read_suffix].
  destruct (read_suffix l) as [p s]. cbn [fst snd] in IH.
  destruct p; [destruct (is_read a)|]; cbn [fst snd]; simpl in *; congruence. Qed.

Lemma read_suffix_reads L : forall pre, forallb is_read L = true ->
  read_suffix (pre ++ L) = (fst (read_suffix pre), snd (read_suffix pre) ++ L).
Proof. induction L as [|x L IH]; intros pre HL.
  - rewrite !app_nil_r. destruct (read_suffix pre); reflexivity.
  - cbn [forallb] in HL. apply andb_true_iff in HL. destruct HL as [Hx HL].
    change (x :: L) with ([x] ++ L). rewrite app_assoc. rewrite IH by auto.
    rewrite read_suffix_snoc, Hx. cbn [fst snd]. rewrite <- app_assoc. reflexivity. Qed.

Lemma read_suffix_removed P : forallb removed P = true ->
  forallb removed (fst (read_suffix P)) = true /\ forallb removed (snd (read_suffix P)) = true.
Proof. intros H. rewrite <- (read_suffix_split P) in H. rewrite forallb_app in H.
  apply andb_true_iff in H. exact H. Qed.

Lemma blocked_false post : forall pre ty o,
  forallb removed (fst (read_suffix pre)) = false -> a_can_access_from pre post ty o = false.
Proof. induction post as [|x post IH]; intros pre ty o H; [reflexivity|].
  cbn [a_can_access_from]. rewrite IH.
  - unfold servable_after. destruct (read_suffix pre) as [p1 run]. cbn [fst] in H. rewrite H.
    rewrite !andb_false_r. reflexivity.
  - rewrite read_suffix_snoc. destruct (is_read x); cbn [fst]; auto.
    rewrite <- (read_suffix_split pre). rewrite !forallb_app. rewrite H. reflexivity. Qed.

Lemma blocked_write pre w : is_read w = false -> removed w = false ->
  forallb removed (fst (read_suffix (pre ++ [w]))) = false.
Proof. intros Hw Hr. rewrite read_suffix_snoc, Hw. cbn [fst]. rewrite forallb_app.
  simpl. rewrite Hr. rewrite andb_false_r. reflexivity. Qed.

Lemma can_skip R : forall pre post ty o, forallb removed R = true ->
  a_can_access_from pre (R ++ post) ty o = a_can_access_from (pre ++ R) post ty o.
Proof. induction R as [|x R IH]; intros pre post ty o H.
  - rewrite app_nil_r. reflexivity.
  - cbn [forallb] in H. apply andb_true_iff in H. destruct H as [Hx HR].
    change ((x :: R) ++ post) with (x :: (R ++ post)). cbn [a_can_access_from].
    rewrite Hx. simpl. rewrite IH by auto. rewrite <- app_assoc. reflexivity. Qed.

Lemma is_read_RD x : is_read x = true -> fst (fst x) = RD.
Proof. unfold is_read. destruct (fst (fst x)); [reflexivity|discriminate]. Qed.
Lemma is_read_WR x : is_read x = false -> fst (fst x) = WR.
Proof. unfold is_read. destruct (fst (fst x)); [discriminate|reflexivity]. Qed.

Lemma can_reads L : forall pre T ty o, forallb is_read L = true ->
  forallb removed (fst (read_suffix pre)) = true ->
  a_can_access_from pre (L ++ T) ty o =
  (aty_eqb RD ty && existsb (pend_o o) L) || a_can_access_from (pre ++ L) T ty o.
Proof. induction L as [|x L IH]; intros pre T ty o HL Hc.
  - rewrite app_nil_r. simpl. rewrite andb_false_r. reflexivity.
  - cbn [forallb] in HL. apply andb_true_iff in HL. destruct HL as [Hx HL].
    change ((x :: L) ++ T) with (x :: (L ++ T)). cbn [a_can_access_from].
    rewrite IH; auto.
    2:{ rewrite read_suffix_snoc, Hx. exact Hc. }
    change (pre ++ x :: L) with (pre ++ [x] ++ L). rewrite app_assoc.
    cbn [existsb]. unfold pend_o at 1. rewrite (is_read_RD x Hx).
    unfold servable_after. destruct (read_suffix pre) as [p1 run]. cbn [fst] in Hc. rewrite Hc.
    destruct ty; simpl.
    + rewrite !andb_true_r. rewrite orb_assoc. reflexivity.
    + rewrite !andb_false_r. reflexivity. Qed.

Lemma servable_after_WR P L o : forallb removed P = true -> forallb is_read L = true ->
  servable_after (P ++ L) WR o = forallb (mine o) L.
Proof. intros HP HL. unfold servable_after. rewrite read_suffix_reads by auto.
  destruct (read_suffix_removed P HP) as [H1 H2]. rewrite H1. simpl.
  change (fun x => removed x || (owner x =? o)) with (mine o). rewrite forallb_app.
  replace (forallb (mine o) (snd (read_suffix P))) with true; [reflexivity|].
  symmetry. apply forallb_forall. intros x Hin. unfold mine.
  rewrite (proj1 (forallb_forall _ _) H2 x Hin). reflexivity. Qed.

Definition can_closed (L T : astate) (ty : aty) (o : nat) : bool :=
  (aty_eqb RD ty && existsb (pend_o o) L)
  || match T with
     | [] => false
     | w :: _ => aty_eqb WR ty && (owner w =? o) && forallb (mine o) L
     end.

Lemma can_decomp a P L T ty o : decomp a P L T -> a_can_access a ty o = can_closed L T ty o.
Proof. intros [-> HP HL HT HW]. unfold a_can_access, can_closed.
  rewrite can_skip by auto. cbn [app].
  destruct (read_suffix_removed P HP) as [H1 H2].
  rewrite can_reads by auto. f_equal.
  destruct T as [|w T']; [reflexivity|].
  cbn [forallb] in HT. apply andb_true_iff in HT. destruct HT as [Hw _].
  unfold pending in Hw. apply negb_true_iff in Hw. simpl in HW.
  cbn [a_can_access_from]. rewrite blocked_false by (apply blocked_write; auto).
  rewrite orb_false_r. rewrite Hw, (is_read_WR w HW). simpl.
  destruct ty.
  - reflexivity.
  - rewrite servable_after_WR by auto. reflexivity. Qed.
