(* HZ_inv.v -- the run invariant linking the register access queues to the diagram.
   For every reachable state s with table d:
     CI  every record has unique keys / unique places, instruction ids < entered s <= length prog;
     QI  the queue of every register is  grp (the plan's accesses not yet performed in d);
     HI  every instruction placed in the last record stands on a route (route_ok) whose lock counts
         say exactly which of its two accesses it has performed.
   The analysis of one cycle (Section Cycle) is reused by C02 and C01. *)
From Coq Require Import Lia.
From PS Require Import Base Bag RegAccess Sim Diag Lists Run C03_lists C03_step HZ_queue HZ_plan HZ_diag HZ_haz.

Lemma bool_eq_iff (a b : bool) : (a = true <-> b = true) -> a = b.
Proof. destruct a, b; intros [H1 H2]; auto; try (symmetry; apply H1; reflexivity); apply H2; reflexivity. Qed.
Lemma existsb_false {A} (f : A -> bool) l : existsb f l = false <-> forall x, In x l -> f x = false.
Proof. induction l as [|a l IH]; cbn [existsb]; [split; auto; intros _ x []|].
  rewrite orb_false_iff, IH. split.
  - intros [H1 H2] x [<-|Hx]; auto.
  - intros H. split; [apply H; left; auto|intros x Hx; apply H; right; auto]. Qed.
Lemma filter_filter {A} (p q : A -> bool) l : filter q (filter p l) = filter (fun a => p a && q a) l.
Proof. induction l as [|a l IH]; cbn [filter]; auto. destruct (p a); cbn [filter andb]; rewrite IH; auto. Qed.
Lemma filter_ext_in' {A} (p q : A -> bool) l : (forall a, In a l -> p a = q a) -> filter p l = filter q l.
Proof. induction l as [|a l IH]; intros H; cbn [filter]; auto. rewrite (H a) by (left; auto).
  rewrite IH; auto. intros x Hx. apply H. right; auto. Qed.

Section Inv.
Variable P : proc.
Variable prog : list instr.
Hypothesis Hwf : wf_procb P = true.
Hypothesis Hwp : wf_progb prog = true.

Definition pendf (d : diagram) (a : acc) : bool := negb (performed P d (snd a) (fst a)).
Definition Mq (d : diagram) (reg : string) : list acc := filter (pendf d) (accs prog reg).
Definition QIq (qs : queues) (d : diagram) : Prop := forall reg, assoc [] qs reg = grp (Mq d reg).
Definition rec_ok (ent : nat) (r : record) : Prop := Kq r /\ Uq r /\ forall i, inrec r i -> i < ent.
Definition HIr (d : diagram) (r : record) : Prop := forall u i l, In (i, l) (get r u) ->
  exists rr w f, route_ok f P (cat_of prog i) u rr w = true /\
    (performed P d i RD = true <-> (rr = 1 \/ (has_rl P u = true /\ l <> LD))) /\
    (performed P d i WR = true <-> (w = 1 \/ (has_wl P u = true /\ l <> LD))).
(* an instruction arriving at (or still waiting in) unit u, before this cycle's grant *)
Definition arr (d : diagram) (u : string) (i : nat) : Prop :=
  exists rr w f, route_ok f P (cat_of prog i) u rr w = true /\
    (performed P d i RD = true <-> rr = 1) /\ (performed P d i WR = true <-> w = 1).

Lemma Mq_sorted d reg : ksorted (Mq d reg).
Proof. apply ksorted_filter, accs_sorted; auto. Qed.
Lemma Mq_NoDup d reg : NoDup (Mq d reg).
Proof. apply ksorted_NoDup, Mq_sorted. Qed.

Lemma rec_ok_nil ent : rec_ok ent [].
Proof. split; [constructor|]. split.
  - split; [intros k; constructor|intros k k' i []].
  - intros i (u & l & []). Qed.
Lemma last_rec_ok ent d : Forall (rec_ok ent) d -> rec_ok ent (last d []).
Proof. intros H. destruct d as [|a t]; [apply rec_ok_nil|]. rewrite Forall_forall in H. apply H.
  destruct (@exists_last _ (a :: t)) as [l' [x Hx]]; [congruence|]. rewrite Hx, last_last.
  apply in_or_app; right; left; auto. Qed.
Lemma rec_ok_mono e e' r : e <= e' -> rec_ok e r -> rec_ok e' r.
Proof. intros H (A & B & C). split; auto. split; auto. intros i Hi. apply C in Hi. lia. Qed.

Lemma fresh_unperformed ent d i k : Forall (rec_ok ent) d -> ent <= i -> performed P d i k = false.
Proof. intros HC Hi. destruct (performed P d i k) eqn:E; auto. apply performed_iff in E.
  destruct E as (t & Ht & E). rewrite performs_at_rec in E. rewrite Forall_forall in HC.
  destruct (HC (rec_at d t)) as (K & _ & L); [apply nth_In; auto|]. apply perf_rec_inrec in E; auto.
  apply L in E. lia. Qed.

Lemma arr_facts d u i : arr d u i ->
  (has_rl P u = true -> performed P d i RD = false) /\
  (has_wl P u = true -> performed P d i WR = false) /\
  (has_wl P u = true -> has_rl P u = false -> performed P d i RD = true).
Proof. intros (rr & w & f & Hr & H1 & H2). apply route_bounds in Hr. destruct Hr as (B1 & B2 & B3 & B4).
  split; [|split].
  - intros E. rewrite E in B1. cbn [bn] in B1. destruct (performed P d i RD); auto.
    assert (rr = 1) by (apply H1; auto). lia.
  - intros E. rewrite E in B2. cbn [bn] in B2. destruct (performed P d i WR); auto.
    assert (w = 1) by (apply H2; auto). lia.
  - intros E E'. rewrite E, E' in *. cbn [bn] in *. apply H1. lia. Qed.

Lemma has_rl_find n u : find_unit P n = Some u -> has_rl P n = u_rl u.
Proof. intros H. unfold has_rl. rewrite H. auto. Qed.
Lemma has_wl_find n u : find_unit P n = Some u -> has_wl P n = u_wl u.
Proof. intros H. unfold has_wl. rewrite H. auto. Qed.
Lemma lockb_find n u k : find_unit P n = Some u -> lockb P k n = match k with RD => u_rl u | WR => u_wl u end.
Proof. intros H. destruct k; cbn [lockb]; [apply has_rl_find|apply has_wl_find]; auto. Qed.
Lemma lockb_some n k : lockb P k n = true -> exists u, find_unit P n = Some u.
Proof. destruct k; cbn [lockb]; unfold has_rl, has_wl; destruct (find_unit P n); eauto; discriminate. Qed.

(* ---------- evaluating can_access / regs_avail on the invariant ---------- *)
Definition rd_blk (d : diagram) (reg : string) (i : nat) : bool :=
  existsb (fun k => String.eqb (dst_of prog k) reg && negb (performed P d k WR)) (seq 0 i).
Definition wr_blk (d : diagram) (reg : string) (i : nat) : bool :=
  existsb (fun k => (mem_str reg (srcs_of prog k) && negb (performed P d k RD))
                    || (String.eqb (dst_of prog k) reg && negb (performed P d k WR))) (seq 0 i).

Lemma srcs_lt reg i : In reg (srcs_of prog i) -> i < length prog.
Proof. unfold srcs_of. destruct (nth_error prog i) eqn:E; [|intros []]. intros _. apply nth_error_Some. congruence. Qed.

Lemma ca_RD qs d reg i : QIq qs d -> In reg (srcs_of prog i) -> performed P d i RD = false ->
  can_access (assoc [] qs reg) RD i = Ok (negb (rd_blk d reg i)).
Proof. intros HQ Hs Hp. rewrite HQ.
  assert (HinL : In (RD, i) (accs prog reg)) by (apply accs_RD; auto).
  assert (Hpend : pendf d (RD, i) = true) by (unfold pendf; cbn [fst snd]; rewrite Hp; auto).
  assert (HinM : In (RD, i) (Mq d reg)) by (apply filter_In; auto).
  rewrite can_access_grp_RD by (intros E; rewrite E in HinM; destruct HinM). f_equal.
  apply bool_eq_iff. rewrite memn_In, negb_true_iff. unfold Mq.
  rewrite (lead_sorted _ (pendf d) (accs_sorted prog reg Hwp) i HinL Hpend). unfold rd_blk. rewrite existsb_false.
  pose proof (srcs_lt _ _ Hs) as Hn. split.
  - intros H k Hk. apply in_seq in Hk. destruct (String.eqb_spec (dst_of prog k) reg) as [E|E]; auto. cbn [andb].
    specialize (H k). unfold pendf in H. cbn [fst snd] in H. rewrite H; auto; [lia|]. apply accs_WR. split; [lia|auto].
  - intros H k Hk Hw. apply accs_WR in Hw. destruct Hw as [_ Hw]. specialize (H k). rewrite Hw, String.eqb_refl in H.
    cbn [andb] in H. unfold pendf. cbn [fst snd]. apply H. apply in_seq. lia. Qed.

Lemma ca_WR qs d i : QIq qs d -> i < length prog -> performed P d i WR = false ->
  can_access (assoc [] qs (dst_of prog i)) WR i = Ok (negb (wr_blk d (dst_of prog i) i)).
Proof. intros HQ Hn Hp. rewrite HQ. set (reg := dst_of prog i).
  assert (HinL : In (WR, i) (accs prog reg)) by (apply accs_WR; auto).
  assert (Hpend : pendf d (WR, i) = true) by (unfold pendf; cbn [fst snd]; rewrite Hp; auto).
  assert (HinM : In (WR, i) (Mq d reg)) by (apply filter_In; auto).
  rewrite can_access_grp_WR by (intros E; rewrite E in HinM; destruct HinM). f_equal.
  apply bool_eq_iff. rewrite negb_true_iff. unfold Mq.
  rewrite (wr_sorted _ (pendf d) (accs_sorted prog reg Hwp) i HinL Hpend). unfold wr_blk. rewrite existsb_false.
  split.
  - intros H k Hk. apply in_seq in Hk. apply orb_false_iff. split.
    + destruct (mem_str reg (srcs_of prog k)) eqn:E; auto. cbn [andb]. apply mem_str_In in E.
      specialize (H (RD, k)). unfold pendf in H. cbn [fst snd] in H. rewrite H; auto; [apply accs_RD; auto|lia].
    + destruct (String.eqb_spec (dst_of prog k) reg) as [E|E]; auto. cbn [andb].
      specialize (H (WR, k)). unfold pendf in H. cbn [fst snd] in H. rewrite H; auto; [|lia]. apply accs_WR. split; [lia|auto].
  - intros H [[|] k] Hy Hk; cbn [snd] in Hk; specialize (H k); unfold pendf; cbn [fst snd];
      (assert (Hs : In k (seq 0 i)) by (apply in_seq; lia)); specialize (H Hs); apply orb_false_iff in H; destruct H as [H1 H2].
    + apply accs_RD in Hy. apply mem_str_In in Hy. rewrite Hy in H1. exact H1.
    + apply accs_WR in Hy. destruct Hy as [_ Hy]. rewrite Hy, String.eqb_refl in H2. exact H2. Qed.

Lemma regs_avail_eval qs d uu i ins : QIq qs d -> nth_error prog i = Some ins ->
  (u_rl uu = true -> performed P d i RD = false) -> (u_wl uu = true -> performed P d i WR = false) ->
  regs_avail uu i ins qs =
  if (u_rl uu && existsb (fun r => rd_blk d r i) (i_srcs ins)) || (u_wl uu && wr_blk d (i_dst ins) i)
  then Ok None
  else Ok (Some ((if u_rl uu then i_srcs ins else []) ++ (if u_wl uu then [i_dst ins] else []))).
Proof. intros HQ Hn Hr Hw.
  assert (Es : srcs_of prog i = i_srcs ins) by (unfold srcs_of; rewrite Hn; auto).
  assert (Ed : dst_of prog i = i_dst ins) by (unfold dst_of; rewrite Hn; auto).
  assert (Hlt : i < length prog) by (apply nth_error_Some; congruence).
  unfold regs_avail.
  assert (G1 : (if u_rl uu then all_access qs RD i (i_srcs ins) else Ok true) =
               Ok (negb (u_rl uu && existsb (fun r => rd_blk d r i) (i_srcs ins)))).
  { destruct (u_rl uu); auto. cbn [andb]. apply all_access_eval. intros r Hin. apply ca_RD; auto. rewrite Es; auto. }
  assert (G2 : (if u_wl uu then all_access qs WR i [i_dst ins] else Ok true) =
               Ok (negb (u_wl uu && wr_blk d (i_dst ins) i))).
  { destruct (u_wl uu); auto. cbn [andb].
    rewrite (all_access_eval qs WR i (fun r => wr_blk d r i)).
    - cbn [existsb]. rewrite orb_false_r. reflexivity.
    - intros r [<-|[]]. rewrite <- Ed. apply ca_WR; auto. }
  rewrite G1, G2. destruct (u_rl uu && existsb (fun r => rd_blk d r i) (i_srcs ins)); cbn [negb orb]; auto.
  destruct (u_wl uu && wr_blk d (i_dst ins) i); cbn [negb]; auto. Qed.

(* ================= one cycle ================= *)
Section Cycle.
Variables (d : diagram) (qs : queues) (ent : nat) (r1 r2 r3 : record) (busy : bool) (ent' : nat)
          (cl : list (string * nat)).
Let old := last d [].
Hypothesis HC : Forall (rec_ok ent) d.
Hypothesis Hle : ent <= length prog.
Hypothesis HQ : QIq qs d.
Hypothesis HH : HIr d old.
Hypothesis E1 : mov_flights P prog old = (r1, busy).
Hypothesis E2 : fill_inputs (S (length prog)) prog (in_ports_sorted P) r1 busy ent = (r2, ent').
Hypothesis E3 : chk_hazards_units P old prog qs r2 [] = Ok (r3, cl).

Lemma c_old_ok : rec_ok ent old.
Proof. apply last_rec_ok; auto. Qed.

Lemma c_step :
  Kq r3 /\ Uq r3 /\ ent <= ent' <= length prog /\ (forall i, inrec r3 i -> i < ent') /\
  (forall u i l', In (i, l') (get r3 u) ->
     (exists l, In (i, l) (get old u)) \/
     (exists h l, In h (preds_of P u) /\ In (i, l) (get old h) /\ l <> LD /\ supports P u (cat_of prog i) = true) \/
     (ent <= i /\ In u (in_names P) /\ supports P u (cat_of prog i) = true)).
Proof. destruct c_old_ok as (K & U & L).
  destruct (cycle_step P Hwf prog old ent qs r1 busy r2 ent' r3 cl K U L Hle E1 E2 E3) as (A1 & A2 & A3 & A4 & _ & A6 & _).
  split; auto. split; auto. split; auto. split; auto. intros u i l' Hin.
  destruct (A6 u i l' Hin) as [(l & H & _)|[(_ & h & l & H)|(_ & H1 & H2)]]; [left; eauto|right; left; eauto|right; right].
  split; [lia|auto]. Qed.

Lemma c_rec_ok : rec_ok ent' r3.
Proof. destruct c_step as (A1 & A2 & _ & A4 & _). split; auto. Qed.

Lemma c_lab u i l' : In (i, l') (get r3 u) ->
  exists uu, find_unit P u = Some uu /\ lab_ok uu (get old u) prog qs (i, l').
Proof. intros Hin. destruct (hazards_lab _ _ _ _ _ _ _ _ E3) as (_ & A & _).
  destruct (A u (get r3 u)) as (uu & H1 & H2); [eapply get_In_pair; eauto|intros E; rewrite E in Hin; destruct Hin|].
  exists uu. split; auto. rewrite Forall_forall in H2. apply H2; auto. Qed.

Lemma c_cl : cl = map erase (tc_rec P prog r3).
Proof. destruct (hazards_lab _ _ _ _ _ _ _ _ E3) as (_ & _ & A). exact A. Qed.

Lemma c_arr u i l' : In (i, l') (get r3 u) -> regs_loaded (get old u) i = false -> arr d u i.
Proof. intros Hin Hl. destruct c_step as (_ & _ & _ & _ & S1).
  destruct (S1 u i l' Hin) as [(l & Ho)|[(h & l & Hp & Ho & Hl0 & Hs)|(Hi & Hu & Hs)]].
  - assert (l = LD).
    { destruct (label_eqb l LD) eqn:El; [apply label_eqb_eq; auto|].
      assert (regs_loaded (get old u) i = true) by (apply regs_loaded_iff; exists l; split; auto; intros ->; discriminate).
      congruence. }
    subst l. destruct (HH u i LD Ho) as (rr & w & f & Hr & H1 & H2). exists rr, w, f. split; auto.
    split; [rewrite H1|rewrite H2]; split; auto; intros [?|[_ ?]]; auto; congruence.
  - destruct (HH h i l Ho) as (rr & w & f & Hr & H1 & H2).
    destruct (route_step _ _ _ _ u _ _ Hr (preds_succs _ _ _ Hp) Hs) as [f' Hr'].
    apply route_bounds in Hr. destruct Hr as (B1 & B2 & _).
    exists (rr + bn (has_rl P h)), (w + bn (has_wl P h)), f'. split; auto. split.
    + rewrite H1. destruct (has_rl P h); cbn [bn] in *; split.
      * intros _. lia.
      * intros _. right. split; auto.
      * intros [?|[? _]]; [lia|discriminate].
      * intros ?. left. lia.
    + rewrite H2. destruct (has_wl P h); cbn [bn] in *; split.
      * intros _. lia.
      * intros _. right. split; auto.
      * intros [?|[? _]]; [lia|discriminate].
      * intros ?. left. lia.
  - exists 0, 0, (S (nunits P)). split; [apply route_init; auto|].
    rewrite !(fresh_unperformed ent d i) by auto. split; split; intros; try discriminate; lia. Qed.

Lemma c_HI : HIr (d ++ [r3]) r3.
Proof. intros u i l' Hin. destruct c_rec_ok as (K3 & U3 & _).
  rewrite !performed_app. rewrite !(perf_rec_at P r3 i _ u l' K3 U3 Hin). cbn [lockb].
  destruct (c_lab u i l' Hin) as (uu & Hf & [[Hl Hs]|[Hl Hs]]); cbn [fst snd] in *.
  - subst l'. apply regs_loaded_iff in Hl. destruct Hl as (l & Ho & Hne).
    destruct (HH u i l Ho) as (rr & w & f & Hr & H1 & H2). exists rr, w, f. split; auto. cbn [label_eqb andb].
    rewrite !orb_false_r, H1, H2. split; split; intros [?|[? _]]; auto; right; split; auto; discriminate.
  - destruct (c_arr u i l' Hin Hl) as (rr & w & f & Hr & H1 & H2). exists rr, w, f. split; auto.
    destruct Hs as (ins & _ & [[_ ->]|(regs & _ & ->)]); cbn [label_eqb andb].
    + rewrite !orb_false_r, H1, H2. split; split; auto; intros [?|[_ ?]]; auto; congruence.
    + rewrite !orb_true_iff, H1, H2. split; split; intros [?|?]; auto; try (right; split; auto; discriminate);
        right; tauto. Qed.

(* what the typed clears of this cycle are *)
Lemma c_tc_iff reg k i : In (k, i) (accs prog reg) ->
  (In (reg, (k, i)) (tc_rec P prog r3) <-> perf_rec P r3 i k = true).
Proof. intros HL. destruct c_rec_ok as (K3 & U3 & _). rewrite tc_rec_In, perf_rec_iff by auto. split.
  - intros (n & es & uu & H1 & H2 & H3 & H4). exists n. rewrite (get_in r3 n es K3 H1). split; auto.
    rewrite (lockb_find _ _ _ H2). apply tregs_In in H4. destruct H4 as [_ [(-> & H4 & _)|(-> & H4 & _)]]; auto.
  - intros (u & H1 & H2). destruct (lockb_some _ _ H2) as [uu Hf]. exists u, (get r3 u), uu.
    split; [eapply get_In_pair; eauto|]. split; auto. split; auto. apply tregs_In. split; auto.
    rewrite (lockb_find _ _ _ Hf) in H2. destruct k; [left|right]; split; auto; split; auto.
    + apply accs_RD; auto.
    + apply accs_WR in HL. symmetry. tauto. Qed.

Lemma c_granted reg k i : In (reg, (k, i)) (tc_rec P prog r3) ->
  exists n uu, find_unit P n = Some uu /\ In (n, get r3 n) r3 /\ In (i, LU) (get r3 n) /\
    regs_loaded (get old n) i = false /\ can_access (assoc [] qs reg) k i = Ok true /\
    In (reg, (k, i)) (tregs prog uu i).
Proof. intros H. destruct c_rec_ok as (K3 & U3 & _). apply tc_rec_In in H.
  destruct H as (n & es & uu & H1 & H2 & H3 & H4). rewrite <- (get_in r3 n es K3 H1) in *.
  exists n, uu. split; auto.
  destruct (c_lab n i LU H3) as (uu' & Hf & Hlab). unfold lab_ok in Hlab. cbn [fst snd] in Hlab.
  destruct Hlab as [[_ Hs]|[Hl Hs]]; [discriminate|].
  rewrite Hf in H2. inversion H2; subst uu'. split; [eapply get_In_pair; eauto|]. split; auto. split; auto.
  destruct Hs as (ins & Hn & [[_ ?]|(regs & Hr & _)]); [discriminate|].
  apply regs_avail_some in Hr. destruct Hr as (_ & A & B). split; [|exact H4]. apply tregs_In in H4.
  destruct H4 as [_ [(-> & H4 & H5)|(-> & H4 & H5)]].
  - apply A; auto. unfold srcs_of in H5. rewrite Hn in H5. auto.
  - subst reg. unfold dst_of. rewrite Hn. auto. Qed.

(* the dequeues of this cycle on one register all succeed, with a known result *)
Lemma c_deqs reg :
  deqs (assoc [] qs reg) (owners reg cl) =
  Ok (grp (filter (fun a => negb (memacc a (tacc reg (tc_rec P prog r3)))) (Mq d reg))).
Proof. destruct c_rec_ok as (K3 & U3 & _). rewrite c_cl, owners_erase, HQ.
  set (TC := tc_rec P prog r3) in *. set (T := tacc reg TC) in *.
  assert (HndTC : NoDup TC) by (apply tc_rec_NoDup; auto).
  assert (Hgr : forall k i, In (k, i) T -> exists n uu, find_unit P n = Some uu /\ In (n, get r3 n) r3 /\
             In (i, LU) (get r3 n) /\ regs_loaded (get old n) i = false /\
             can_access (grp (Mq d reg)) k i = Ok true /\ In (reg, (k, i)) (tregs prog uu i)).
  { intros k i Hin. apply tacc_In in Hin. destruct (c_granted _ _ _ Hin) as (n & uu & G). rewrite HQ in G. eauto. }
  assert (HRD : forall i, In (RD, i) T -> In i (lead (Mq d reg))).
  { intros i Hin. destruct (Hgr _ _ Hin) as (n & uu & _ & _ & _ & _ & G & _).
    destruct (Mq d reg) eqn:E; [discriminate|]. rewrite can_access_grp_RD in G by discriminate.
    inversion G. apply memn_In; auto. }
  assert (HWR : forall i, In (WR, i) T -> wr_ok (Mq d reg) i = true).
  { intros i Hin. destruct (Hgr _ _ Hin) as (n & uu & _ & _ & _ & _ & G & _).
    destruct (Mq d reg) eqn:E; [discriminate|]. rewrite can_access_grp_WR in G by discriminate.
    inversion G. auto. }
  apply deqs_grp.
  - apply Mq_NoDup.
  - apply tacc_NoDup; auto.
  - intros [[|] i] Hin.
    + apply HRD in Hin. apply lead_iff in Hin. tauto.
    + apply HWR in Hin. apply wr_ok_iff in Hin; [tauto|apply Mq_NoDup].
  - intros [[|] i] y Hx Hy.
    + left. split; auto. apply HRD in Hx. apply lead_iff in Hx. apply Hx; auto.
    + right. pose proof (HWR _ Hx) as Hw. apply wr_ok_iff in Hw; [|apply Mq_NoDup]. destruct Hw as [_ Hw].
      pose proof (Hw y Hy) as ->. apply before_incl in Hy. unfold Mq in Hy. apply filter_In in Hy.
      destruct Hy as [HyL Hyp]. unfold pendf in Hyp. cbn [fst snd] in Hyp. apply negb_true_iff in Hyp.
      destruct (Hgr _ _ Hx) as (n & uu & Hf & Hn & Hi & Hl & _ & Ht).
      apply tregs_In in Ht. destruct Ht as [_ [(? & _)|(_ & Hwl & Hreg)]]; [discriminate|].
      destruct (arr_facts d n i (c_arr n i LU Hi Hl)) as (_ & _ & A3).
      destruct (u_rl uu) eqn:Erl.
      * unfold T, TC. eapply tacc_before_own; eauto. apply accs_RD; auto.
      * rewrite A3 in Hyp; [discriminate| |]; [rewrite (has_wl_find _ _ Hf)|rewrite (has_rl_find _ _ Hf)]; auto. Qed.

Lemma c_QI qs' : apply_clears qs cl = Ok qs' -> QIq qs' (d ++ [r3]).
Proof. intros E4 reg. pose proof (apply_clears_deqs reg _ _ _ E4) as Hd. rewrite c_deqs in Hd.
  inversion Hd as [Hq]. f_equal. unfold Mq. rewrite filter_filter. apply filter_ext_in'. intros [k i] HL.
  unfold pendf. cbn [fst snd]. rewrite performed_app, negb_orb. f_equal. f_equal.
  apply bool_eq_iff. rewrite memacc_In, tacc_In. apply c_tc_iff; auto. Qed.
End Cycle.

(* ================= the run invariant ================= *)
Definition CI (s : state) : Prop := Forall (rec_ok (entered s)) (tbl s) /\ entered s <= length prog.
Definition QI (s : state) : Prop := QIq (qs_ s) (tbl s).
Definition HI (s : state) : Prop := HIr (tbl s) (last (tbl s) []).

Lemma inv_init : CI (init_state prog) /\ QI (init_state prog) /\ HI (init_state prog).
Proof. split; [split; [constructor|cbn; lia]|]. split.
  - intros reg. cbn [init_state qs_ tbl]. rewrite plan_grp by auto. f_equal. unfold Mq. symmetry. apply filter_all.
    intros a _. reflexivity.
  - intros u i l []. Qed.

Theorem inv_reach s : reach P prog s -> CI s /\ QI s /\ HI s.
Proof. induction 1 as [|s s' Hr IH Hc Hrun]; [apply inv_init|].
  destruct IH as ((HC & Hle) & HQ & HH).
  destruct (run_cycle_inl _ _ _ _ Hrun) as (r1 & busy & r2 & ent' & r3 & cl & qs' & E1 & E2 & E3 & E4 & _ & ->).
  cbn [tbl qs_ entered]. unfold CI, QI, HI. cbn [tbl qs_ entered]. rewrite last_last.
  destruct (c_step _ _ _ _ _ _ _ _ _ HC Hle E1 E2 E3) as (_ & _ & A3 & _).
  split; [split; [|lia]|split].
  - apply Forall_app. split.
    + eapply Forall_impl; [|exact HC]. intros r. apply rec_ok_mono. lia.
    + constructor; auto. eapply c_rec_ok; eauto.
  - eapply c_QI; eauto.
  - eapply c_HI; eauto. Qed.
End Inv.

(* ================= the cycle that produced record t of a reachable table ================= *)
Lemma last_firstn_S {A} (l : list A) (d : A) : forall n, n < length l -> last (firstn (S n) l) d = nth n l d.
Proof. induction l as [|a l IH]; intros n Hn; cbn [length] in Hn; [lia|]. destruct n as [|n].
  - reflexivity.
  - change (firstn (S (S n)) (a :: l)) with (a :: firstn (S n) l). cbn [nth].
    rewrite <- IH by lia. destruct l as [|b l]; [cbn in Hn; lia|]. reflexivity. Qed.

Lemma prev_occ_last d t u : t <= length d -> prev_occ d t u = get (last (firstn t d) []) u.
Proof. intros Ht. destruct t as [|t]; [reflexivity|]. cbn [prev_occ]. unfold occ, rec_at.
  rewrite last_firstn_S by lia. reflexivity. Qed.

Lemma cycle_at P prog s t : wf_procb P = true -> wf_progb prog = true -> reach P prog s -> t < length (tbl s) ->
  exists qs ent r1 r2 busy ent' cl,
    Forall (rec_ok ent) (firstn t (tbl s)) /\ ent <= length prog /\
    QIq P prog qs (firstn t (tbl s)) /\ HIr P prog (firstn t (tbl s)) (last (firstn t (tbl s)) []) /\
    mov_flights P prog (last (firstn t (tbl s)) []) = (r1, busy) /\
    fill_inputs (S (length prog)) prog (in_ports_sorted P) r1 busy ent = (r2, ent') /\
    chk_hazards_units P (last (firstn t (tbl s)) []) prog qs r2 [] = Ok (rec_at (tbl s) t, cl).
Proof. intros Hwf Hwp Hr Ht.
  destruct (reach_tbl_prefix P prog s Hr t Ht) as (s0 & s1 & Hr0 & _ & Hrun & Ht0 & _ & Hnth).
  destruct (inv_reach P prog Hwf Hwp s0 Hr0) as ((HC & Hle) & HQ & HH).
  destruct (run_cycle_inl _ _ _ _ Hrun) as (r1 & busy & r2 & ent' & r3 & cl & qs' & E1 & E2 & E3 & _ & _ & ->).
  cbn [tbl] in Hnth. rewrite last_last in Hnth. unfold QI, HI in *. rewrite Ht0 in *.
  exists (qs_ s0), (entered s0), r1, r2, busy, ent', cl. unfold rec_at. rewrite Hnth. auto 10. Qed.

Lemma sim_reach fuel P prog tg d : sim_result fuel P prog tg d -> exists s, reach P prog s /\ tbl s = d.
Proof. intros [[_ H]|[_ H]]; eapply simulate_reach; eauto. Qed.
