(* C07 (eager advance, oldest first): lifting the one-cycle facts of C07_cycle.v to whole runs and
   assembling the executable checker C07_checkb. *)
From Coq Require Import Lia Permutation Sorted.
From PS Require Import Base Bag RegAccess Sim Diag Lists Run C07_lists C07_walk C07_step C07_parts C07_cycle.

(* ---------- invariants of reachable states ---------- *)
Definition RInv (s : state) : Prop :=
  ukeys (last (tbl s) []) /\ U (last (tbl s) []) /\ FR (last (tbl s) []) (entered s).

Lemma reach_RInv P prog s : wf_procb P = true -> reach P prog s -> RInv s.
Proof. intros Hwf. induction 1 as [|s s' Hr IH Hc Hrun].
  - unfold RInv. cbn. split; [constructor|]. split; [split|].
    + intros k. constructor.
    + intros k1 k2 i [].
    + intros k i [].
  - destruct (run_cycle_inl _ _ _ _ Hrun) as (r1 & busy & r2 & ent & r3 & cl & qs' & E1 & E2 & E3 & _ & _ & ->).
    destruct IH as (K & HU & HF). unfold RInv. cbn [tbl entered]. rewrite last_last.
    exact (cyc_inv P prog Hwf _ HU K _ HF _ _ _ _ _ _ _ E1 E2 E3). Qed.

Lemma sim_result_reach fuel P prog tg d : sim_result fuel P prog tg d -> exists s, reach P prog s /\ tbl s = d.
Proof. intros [[_ H]|[_ H]]; eapply simulate_reach; eauto. Qed.

Lemma last_firstn {A} (d : list A) x : forall t, t < length d -> last (firstn (S t) d) x = nth t d x.
Proof. induction d as [|a d IH]; intros t Ht; simpl in Ht; [lia|].
  destruct t as [|t].
  - reflexivity.
  - change (firstn (S (S t)) (a :: d)) with (a :: firstn (S t) d).
    assert (Hlt : t < length d) by lia. specialize (IH t Hlt).
    destruct (firstn (S t) d) eqn:E.
    + destruct d; simpl in *; [lia|discriminate].
    + cbn [nth]. rewrite <- IH. reflexivity. Qed.

Lemma has_loc (r : record) k i : has (get r k) i = true <-> loc r i k.
Proof. unfold has, loc, ixs. rewrite existsb_exists, in_map_iff. split.
  - intros [e [He E]]. apply Nat.eqb_eq in E. eauto.
  - intros [e [E He]]. exists e. split; auto. apply Nat.eqb_eq; auto. Qed.

(* ---------- two consecutive records of a run ---------- *)
Lemma C07_pair P prog s t :
  wf_procb P = true -> reach P prog s -> S t < length (tbl s) ->
  let old := rec_at (tbl s) t in
  let new := rec_at (tbl s) (S t) in
  ukeys old /\
  (forall u i l, In (i, l) (get old u) -> l <> LD -> In u (out_names P) -> ~ loc new i u) /\
  (forall u i l l', In (i, l) (get old u) -> l <> LD -> In (i, l') (get new u) -> l' = LS) /\
  (forall u i l s', In (i, l) (get old u) -> l <> LD -> loc new i u ->
     In s' (succs_of P u) -> supports P s' (cat_of prog i) = true ->
     (width_of P s' <= length (get new s') \/
      (mem_needed P s' (cat_of prog i) = true /\
       exists j k, j <> i /\ loc new j k /\ ~ loc old j k /\ mem_needed P k (cat_of prog j) = true)) /\
     (forall j, loc new j s' -> i < j ->
        loc old j s' \/ (mem_needed P s' (cat_of prog i) = true /\ mem_needed P s' (cat_of prog j) = false))).
Proof. intros Hwf Hr Ht.
  destruct (reach_tbl_prefix P prog s Hr (S t) Ht) as (s0 & s1 & Hr0 & Hc0 & Hrun & Ht0 & Ht1 & Hnth).
  destruct (run_cycle_inl _ _ _ _ Hrun) as (r1 & busy & r2 & ent & r3 & cl & qs' & E1 & E2 & E3 & _ & _ & ->).
  cbn [tbl] in *. rewrite last_last in Hnth.
  assert (Hold : last (tbl s0) [] = rec_at (tbl s) t).
  { rewrite Ht0. unfold rec_at. apply last_firstn. lia. }
  destruct (reach_RInv P prog s0 Hwf Hr0) as (K & HU & HF).
  assert (Hnew : rec_at (tbl s) (S t) = r3) by (unfold rec_at; exact Hnth).
  cbv zeta. rewrite Hnew, <- Hold.
  split; [exact K|]. split; [|split].
  - intros u i l. exact (cyc_out P prog Hwf _ HU _ HF _ _ _ _ _ _ _ E1 E2 E3 u i l).
  - intros u i l l'. exact (cyc_label P prog _ _ _ _ _ E3 u i l l').
  - intros u i l s'. exact (cyc_succ P prog Hwf _ HU K _ HF _ _ _ _ _ _ _ E1 E2 E3 u i l s'). Qed.

(* ---------- the checker ---------- *)
Lemma C07_advance_lemma :
  forall (P : proc) (prog : list instr) (fuel : nat) (tg : dtag) (d : diagram),
    wf_procb P = true -> sim_result fuel P prog tg d -> C07_checkb P prog d = true.
Proof. intros P prog fuel tg d Hwf Hsim. destruct (sim_result_reach _ _ _ _ _ Hsim) as (s & Hr & <-).
  unfold C07_checkb. apply forallb_forall. intros t Ht. apply in_seq in Ht.
  apply forallb_forall. intros [u es] Hkv. apply forallb_forall. intros [i l] He.
  unfold C07_entry_ok. cbn [fst snd].
  destruct (label_eqb l LD) eqn:El; auto.
  destruct (length (tbl s) <=? S t) eqn:Elen; auto. apply Nat.leb_gt in Elen.
  destruct (C07_pair P prog s t Hwf Hr Elen) as (K & Hout & Hlab & Hsucc).
  assert (Hin : In (i, l) (get (rec_at (tbl s) t) u)) by (rewrite (get_ukeys _ _ _ K Hkv); auto).
  assert (Hl : l <> LD) by (intros ->; discriminate).
  unfold occ.
  destruct (mem_str u (out_names P)) eqn:Eo.
  - apply mem_str_In in Eo. apply negb_true_iff.
    destruct (has (get (rec_at (tbl s) (S t)) u) i) eqn:Eh; auto.
    apply has_loc in Eh. exfalso. eapply Hout; eauto.
  - destruct (lab_in (get (rec_at (tbl s) (S t)) u) i) as [l'|] eqn:Elab; auto.
    unfold lab_in in Elab.
    destruct (find (fun e => fst e =? i) (get (rec_at (tbl s) (S t)) u)) as [[i' l'']|] eqn:Ef; [|discriminate].
    inversion Elab; subst l''. apply find_some in Ef. destruct Ef as [Hin' Ei]. simpl in Ei.
    apply Nat.eqb_eq in Ei. subst i'.
    assert (Hl3 : loc (rec_at (tbl s) (S t)) i u) by (apply loc_In; eauto).
    apply andb_true_intro. split.
    + rewrite (Hlab u i l l' Hin Hl Hin'). reflexivity.
    + apply forallb_forall. intros s' Hs'.
      destruct (supports P s' (cat_of prog i)) eqn:Esup; [|reflexivity]. cbn [negb orb].
      destruct (Hsucc u i l s' Hin Hl Hl3 Hs' Esup) as [HA HB].
      apply andb_true_intro. split.
      * destruct HA as [HA|[HA1 (j & k & Hji & Hj3 & Hjo & Hjm)]].
        -- apply orb_true_intro. left. unfold full_at, occ. apply Nat.leb_le. exact HA.
        -- apply orb_true_intro. right. rewrite HA1. cbn [andb]. apply existsb_exists.
           exists (j, k). split; [|simpl; apply negb_true_iff, Nat.eqb_neq; auto].
           unfold mem_entries. apply in_flat_map.
           apply loc_In in Hj3. destruct Hj3 as [lj Hj3].
           exists (k, get (rec_at (tbl s) (S t)) k). split; [eapply get_in_rec; eauto|].
           cbn [fst snd]. apply in_flat_map. exists (j, lj). split; auto. cbn [fst prev_occ].
           unfold occ. rewrite Hjm.
           destruct (has (get (rec_at (tbl s) t) k) j) eqn:Eh; [|left; auto].
           apply has_loc in Eh. tauto.
      * apply forallb_forall. intros [j lj] Hj. cbn [fst].
        destruct (i <? j) eqn:Elt; [|reflexivity]. cbn [negb orb]. apply Nat.ltb_lt in Elt.
        assert (Hj3 : loc (rec_at (tbl s) (S t)) j s') by (apply loc_In; eauto).
        destruct (HB j Hj3 Elt) as [X|[X Y]].
        -- apply has_loc in X. rewrite X. reflexivity.
        -- rewrite X, Y. apply orb_true_r. Qed.

(* ---------- non-vacuity: an instruction held back with 'S' behind a full successor ---------- *)
Open Scope string_scope.
Definition c7_in  := {| u_name := "in";  u_width := 2; u_caps := ["ALU"]; u_rl := true;  u_wl := false; u_mem := [] |}.
Definition c7_out := {| u_name := "out"; u_width := 1; u_caps := ["ALU"]; u_rl := false; u_wl := true;  u_mem := [] |}.
Definition c7_P := {| p_in := [c7_in]; p_out := [{| f_model := c7_out; f_preds := ["in"] |}]; p_inout := []; p_int := [] |}.
Definition c7_prog := [ {| i_srcs := ["R1"]; i_dst := "R2"; i_cat := "ALU" |};
                        {| i_srcs := ["R3"]; i_dst := "R4"; i_cat := "ALU" |} ].
Lemma C07_nonvacuous_lemma :
  exists P prog d, wf_procb P = true /\ simulate 100 P prog = Done d /\
    exists t u i, In (i, LU) (occ d t u) /\ lab_in (occ d (S t) u) i = Some LS /\
      exists s, In s (succs_of P u) /\ supports P s (cat_of prog i) = true /\ full_at P d (S t) s = true.
Proof. exists c7_P, c7_prog. eexists. split; [|split].
  - vm_compute. reflexivity.
  - vm_compute. reflexivity.
  - exists 0, "in", 1. split; [vm_compute; auto|]. split; [vm_compute; reflexivity|].
    exists "out". split; [vm_compute; auto|]. split; vm_compute; reflexivity. Qed.
