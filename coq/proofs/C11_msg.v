(* C11_msg.v -- the message of every modelled error contains the displayed form of each of its fields. *)
From Coq Require Import ZArith.
From PS Require Import Base Str Sim Graph Loader Isa Errors.
Open Scope string_scope.

Lemma prefixb_app p s : prefixb p (p ++ s) = true.
Proof. induction p as [|c p IH]; simpl; [destruct s; reflexivity|]. rewrite Ascii.eqb_refl. exact IH. Qed.
Lemma substrb_prefix p s : prefixb p s = true -> substrb p s = true.
Proof. destruct s; simpl; intros ->; reflexivity. Qed.
Lemma substrb_here p s : substrb p (p ++ s) = true.
Proof. apply substrb_prefix, prefixb_app. Qed.
Lemma substrb_skip p a s : substrb p s = true -> substrb p (a ++ s) = true.
Proof.
  induction a as [|c a IH]; simpl; intros H; [exact H|].
  rewrite (IH H). apply Bool.orb_true_r.
Qed.
Lemma substrb_mid p a b : substrb p (a ++ p ++ b) = true.
Proof. apply substrb_skip, substrb_here. Qed.
Lemma substrb_end p a : substrb p (a ++ p) = true.
Proof.
  apply substrb_skip. replace p with (p ++ "") at 2; [apply substrb_here|].
  induction p; simpl; congruence.
Qed.

Lemma prefixb_refl f : prefixb f f = true.
Proof. induction f; simpl; [reflexivity|]. rewrite Ascii.eqb_refl; auto. Qed.

Lemma app_assoc_s (a b c : string) : (a ++ b) ++ c = a ++ (b ++ c).
Proof. induction a; simpl; congruence. Qed.

Lemma C11_message_names_culprit_lemma :
  forall e m f, In m (load_err_msgs e) -> In f (load_err_fields e) -> substrb f m = true.
Proof.
  intros e m f Hm Hf.
  destruct e as [old new|u w|ed|n| |ports| |k start lk cap|cap port| ]; simpl in Hf; try contradiction.
  - cbn [load_err_msgs In] in Hm. destruct Hm as [<-|[]]. destruct Hf as [<-|[<-|[]]].
    + apply substrb_skip, substrb_skip, substrb_skip. apply substrb_prefix, prefixb_refl.
    + apply substrb_skip, substrb_here.
  - cbn [load_err_msgs In] in Hm. destruct Hm as [<-|[]]. destruct Hf as [<-|[<-|[]]].
    + apply substrb_skip, substrb_here.
    + apply substrb_skip, substrb_skip, substrb_skip, substrb_here.
  - cbn [load_err_msgs In] in Hm. destruct Hm as [<-|[]]. destruct Hf as [<-|[]]. apply substrb_skip, substrb_here.
  - cbn [load_err_msgs In] in Hm. destruct Hm as [<-|[]]. destruct Hf as [<-|[]]. apply substrb_skip. apply substrb_prefix, prefixb_refl.
  - assert (Hall : forall s1 s2 s3 s4,
        m = s1 ++ start ++ s2 ++ lock_name lk ++ s3 ++ cap ++ s4 -> substrb f m = true).
    { intros s1 s2 s3 s4 ->. destruct Hf as [<-|[<-|[<-|[]]]].
      - apply substrb_skip, substrb_here.
      - apply substrb_skip, substrb_skip, substrb_skip, substrb_here.
      - do 5 apply substrb_skip. apply substrb_here. }
    destruct k; cbn [load_err_msgs In] in Hm; destruct Hm as [<-|[]]; eapply Hall; reflexivity.
  - cbn [load_err_msgs In] in Hm. destruct Hm as [<-|[]]. destruct Hf as [<-|[<-|[]]].
    + apply substrb_skip, substrb_here.
    + do 3 apply substrb_skip. apply substrb_prefix, prefixb_refl.
Qed.


Lemma C11_dead_input_message_lemma :
  forall ports m, In m (load_err_msgs (EDeadInput ports)) -> exists p, In p ports /\ m = dead_input_msg p /\ substrb p m = true.
Proof.
  intros ports m Hm. cbn [load_err_msgs] in Hm. apply in_map_iff in Hm. destruct Hm as [p [<- Hp]].
  exists p. split; [exact Hp|]. split; [reflexivity|]. unfold dead_input_msg. apply substrb_skip, substrb_here.
Qed.

Lemma C15_isa_message_lemma :
  forall e f, In f (isa_err_fields e) -> substrb f (isa_err_msg e) = true.
Proof.
  intros [old new|cap] f Hf; simpl in Hf.
  - destruct Hf as [<-|[<-|[]]]; cbn [isa_err_msg].
    + do 3 apply substrb_skip. apply substrb_prefix, prefixb_refl.
    + apply substrb_skip, substrb_here.
  - destruct Hf as [<-|[]]. cbn [isa_err_msg]. apply substrb_skip, substrb_prefix, prefixb_refl.
Qed.

Lemma C15_compile_message_lemma :
  forall name line, substrb name (comp_err_msg name line) = true /\ substrb (nat_to_str line) (comp_err_msg name line) = true.
Proof.
  intros name line. unfold comp_err_msg. split.
  - apply substrb_skip, substrb_here.
  - do 3 apply substrb_skip. apply substrb_prefix, prefixb_refl.
Qed.
