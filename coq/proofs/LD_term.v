(* LD_term.v -- chk_terminals: the iterated removal of dead ends keeps exactly the subgraph induced by the
   nodes from which an original output (still present) can be reached; the fuel suffices; an error names
   original inputs that cannot reach any original output. *)
From Coq Require Import Lia Permutation.
From PS Require Import Base Str Sim Graph Loader Lists Graph_facts LD_base LD_clean.

Lemma filter_length_lt {A} (f : A -> bool) l x : In x l -> f x = false -> length (filter f l) < length l.
Proof. induction l as [|a l IH]; simpl; [tauto|]. intros [->|Hx] Hf.
  - rewrite Hf. pose proof (filter_len f l). lia.
  - specialize (IH Hx Hf). destruct (f a); simpl; lia. Qed.

Lemma rpath_sub (adj adj' : string -> list string) : (forall x y, In y (adj x) -> In y (adj' x)) ->
  forall a b, rpath adj a b -> rpath adj' a b.
Proof. intros H a b. induction 1; [apply rp_refl|eapply rp_step; eauto]. Qed.
Lemma rpath_first adj a b : rpath adj a b -> a = b \/ exists s, In s (adj a) /\ rpath adj s b.
Proof. induction 1; auto. right. destruct IHrpath as [->|[s [H1 H2]]].
  - exists z. split; auto. apply rp_refl.
  - exists s. split; auto. eapply rp_step; eauto. Qed.
Lemma rpath_cons adj a s b : In s (adj a) -> rpath adj s b -> rpath adj a b.
Proof. intros H1 H2. eapply rpath_trans; [|exact H2]. eapply rp_step; [apply rp_refl|auto]. Qed.
Lemma rpath_nodes g a b : gwf g -> In a (g_nodes g) -> rpath (succs g) a b -> In b (g_nodes g).
Proof. intros H Ha. induction 1; auto. apply (gwf_in g H) in H1. tauto. Qed.

(* in a finite acyclic graph every node reaches a sink *)
Lemma reach_sink g : gwf g -> acyclic g -> forall x, In x (g_nodes g) ->
  exists o, In o (g_nodes g) /\ succs g o = [] /\ rpath (succs g) x o.
Proof. intros H Ha. destruct (topo_sort_acyclic_some g H Ha) as [order Ho].
  destruct (topo_sort_some g order H Ho) as [Hp _].
  assert (K : forall k x, In x (g_nodes g) -> length order - idx x order <= k ->
              exists o, In o (g_nodes g) /\ succs g o = [] /\ rpath (succs g) x o).
  { induction k as [|k IH]; intros x Hx Hk.
    - assert (In x order) by (apply (Permutation_in x (Permutation_sym Hp)); auto).
      apply idx_lt in H0. lia.
    - destruct (succs g x) as [|s l] eqn:E.
      + exists x. split; auto. split; auto. apply rp_refl.
      + assert (Hs : In s (succs g x)) by (rewrite E; left; auto).
        destruct (topo_sort_forward g order x s H Ho Hs) as [Hlt _].
        destruct (IH s) as [o [O1 [O2 O3]]].
        * apply (gwf_in g H) in Hs. tauto.
        * lia.
        * exists o. split; auto. split; auto. eapply rpath_cons; eauto. }
  intros x Hx. apply (K (length order) x Hx). lia. Qed.

Definition coreach (g : graph) (oo : list string) (x : string) : Prop :=
  exists o, In o oo /\ In o (g_nodes g) /\ rpath (succs g) x o.

Lemma out_ports_In g n : In n (out_ports_of g) <-> In n (g_nodes g) /\ succs g n = [].
Proof. unfold out_ports_of, out_degree. rewrite filter_In, Nat.eqb_eq, length_zero_iff_nil. tauto. Qed.
Lemma in_ports_In g n : In n (in_ports_of g) <-> In n (g_nodes g) /\ preds g n = [].
Proof. unfold in_ports_of, in_degree. rewrite filter_In, Nat.eqb_eq, length_zero_iff_nil. tauto. Qed.

(* one round: removing sinks that are no original outputs does not change co-reachability *)
Lemma coreach_round g g1 oo new : gwf g -> induced g g1 (fun x => ~ In x new) ->
  (forall n, In n new -> succs g n = [] /\ ~ In n oo) ->
  forall x, coreach g oo x <-> ~ In x new /\ coreach g1 oo x.
Proof. intros H [I1 [I2 I3]] Hnew x. split.
  - intros [o [O1 [O2 O3]]].
    assert (Ho : ~ In o new) by (intros Hc; apply Hnew in Hc; tauto).
    assert (K : ~ In x new /\ rpath (succs g1) x o).
    { clear O1 O2. induction O3; [split; auto; apply rp_refl|].
      assert (Hy : ~ In y new).
      { intros Hc. apply Hnew in Hc. destruct Hc as [Hc _]. rewrite Hc in H0. destruct H0. }
      destruct (IHO3 Hy) as [J1 J2]. split; auto. eapply rp_step; eauto. apply I3. auto. }
    destruct K as [K1 K2]. split; auto. exists o. split; auto. split; auto. apply I2. auto.
  - intros [_ [o [O1 [O2 O3]]]]. exists o. split; auto. split; [apply I2 in O2; tauto|].
    eapply rpath_sub; [|exact O3]. intros a b Hb. apply I3 in Hb. tauto. Qed.

Theorem chk_terminals_spec oi oo : forall fuel g, gwf g -> acyclic g -> length (g_nodes g) < fuel ->
  match chk_terminals fuel g oi oo with
  | inl g' => induced g g' (coreach g oo) /\ (forall x, In x (g_nodes g') -> succs g' x = [] -> In x oo)
  | inr e => exists dead, e = EDeadInput dead /\ dead <> [] /\
                          forall p, In p dead -> In p oi /\ In p (g_nodes g) /\ ~ coreach g oo p
  end.
Proof. induction fuel as [|f IH]; intros g H Ha Hlen; [lia|]. cbn [chk_terminals].
  destruct (filter (fun n => negb (mem_str n oo)) (out_ports_of g)) as [|n0 new'] eqn:En.
  - (* stable *)
    assert (Hs : forall x, In x (g_nodes g) -> succs g x = [] -> In x oo).
    { intros x Hx Hsx. rewrite filter_nil_iff in En. specialize (En x). rewrite out_ports_In in En.
      specialize (En (conj Hx Hsx)). apply negb_false_iff, mem_str_In in En. auto. }
    split; auto. apply (induced_ext_nodes g g (fun _ => True)); auto; [|apply induced_refl; auto].
    intros x Hx. split; auto. intros _.
    destruct (reach_sink g H Ha x Hx) as [o [O1 [O2 O3]]]. exists o. split; auto.
  - set (new := n0 :: new') in *.
    assert (Hnew : forall n, In n new -> In n (g_nodes g) /\ succs g n = [] /\ ~ In n oo).
    { intros n Hn. rewrite <- En in Hn. apply filter_In in Hn. destruct Hn as [H1 H2].
      apply out_ports_In in H1. apply negb_true_iff, mem_str_false in H2. tauto. }
    pose proof (induced_fold_remove new g H) as Hind.
    assert (Hco : forall x, coreach g oo x <-> ~ In x new /\ coreach (fold_left remove_node new g) oo x).
    { apply coreach_round; auto. intros n Hn. apply Hnew in Hn. tauto. }
    destruct (filter (fun n => mem_str n oi) new) as [|d0 dead'] eqn:Ed.
    + (* next round *)
      assert (Hlen' : length (g_nodes (fold_left remove_node new g)) < f).
      { unfold new. cbn [fold_left].
        pose proof (induced_nodes_len _ _ _ (gwf_remove_node g n0 H)
                      (induced_fold_remove new' (remove_node g n0) (gwf_remove_node g n0 H))) as L1.
        assert (L2 : length (g_nodes (remove_node g n0)) < length (g_nodes g)).
        { simpl. unfold rm_str. apply (filter_length_lt _ _ n0).
          - apply (Hnew n0). left; auto.
          - rewrite String.eqb_refl. auto. }
        lia. }
      specialize (IH (fold_left remove_node new g) (induced_gwf _ _ _ Hind)
                     (induced_acyclic _ _ _ Hind Ha) Hlen').
      destruct (chk_terminals f (fold_left remove_node new g) oi oo) as [g'|e].
      * destruct IH as [J1 J2]. split; auto.
        eapply induced_ext; [|eapply induced_trans; [exact Hind|exact J1]].
        intros x. simpl. symmetry. apply Hco.
      * destruct IH as [dead [J1 [J2 J3]]]. exists dead. split; auto. split; auto.
        intros p Hp. destruct (J3 p Hp) as [K1 [K2 K3]]. split; auto.
        destruct Hind as [_ [I2 _]]. apply I2 in K2. split; [tauto|].
        intros Hc. apply Hco in Hc. tauto.
    + (* dead input *)
      exists (d0 :: dead'). split; auto. split; [discriminate|]. rewrite <- Ed. intros p Hp.
      apply filter_In in Hp. destruct Hp as [P1 P2]. apply mem_str_In in P2.
      destruct (Hnew p P1) as [Q1 [Q2 Q3]]. split; auto. split; auto.
      intros [o [O1 [O2 O3]]]. apply rpath_first in O3. destruct O3 as [->|[s [S1 _]]]; [tauto|].
      rewrite Q2 in S1. destruct S1. Qed.
