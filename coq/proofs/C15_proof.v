(* C15_proof.v -- load_isa / get_abilities / compile_program are faithful (model/Isa.v). *)
From Coq Require Import String Ascii List Lia Bool.
From PS Require Import Base Str Sim Program Isa Lists C18_proof.

(* ---------- case-insensitive vocabulary ---------- *)
Lemma ic_eqb_iff a b : ic_eqb a b = true <-> lower a = lower b.
Proof. unfold ic_eqb. apply String.eqb_eq. Qed.
Lemma ic_eqb_false_iff a b : ic_eqb a b = false <-> lower a <> lower b.
Proof. unfold ic_eqb. apply String.eqb_neq. Qed.
Lemma ic_eqb_refl a : ic_eqb a a = true.
Proof. apply ic_eqb_iff; reflexivity. Qed.

Lemma ic_find_some x l y : ic_find x l = Some y -> In y l /\ ic_eqb x y = true.
Proof.
  induction l as [|z l IH]; simpl; [discriminate|].
  destruct (ic_eqb x z) eqn:E.
  - intros H; injection H as <-. auto.
  - intros H. destruct (IH H); auto.
Qed.
Lemma ic_find_none x l : ic_find x l = None <-> forall y, In y l -> ic_eqb x y = false.
Proof.
  induction l as [|z l IH]; simpl.
  - split; auto. intros _ y [].
  - destruct (ic_eqb x z) eqn:E.
    + split; [discriminate|]. intros H. specialize (H z (or_introl eq_refl)). congruence.
    + rewrite IH. split.
      * intros H y [<-|Hy]; auto.
      * intros H y Hy. apply H; auto.
Qed.

Lemma upper_eq_lower a b : upper a = upper b -> lower a = lower b.
Proof. intros H. rewrite <- (lower_upper a), <- (lower_upper b), H. reflexivity. Qed.

Lemma NoDup_map_transfer {A B C} (f : A -> B) (g : A -> C) (l : list A) :
  (forall a b, g a = g b -> f a = f b) -> NoDup (map f l) -> NoDup (map g l).
Proof.
  intros Hfg. induction l as [|x l IH]; simpl; intros H; [constructor|].
  inversion H as [|? ? Hni Hnd]; subst. constructor; auto.
  intros Hin. apply in_map_iff in Hin. destruct Hin as [y [Hy Hin]].
  apply Hni. apply in_map_iff. exists y. split; auto.
Qed.

(* ---------- create_isa ---------- *)
Definition fresh (instrs : list string) (spec : list (string * string)) : Prop :=
  forall e y, In e spec -> In y instrs -> lower (fst e) <> lower y.

Lemma create_isa_ok spec R : forall instrs m,
  create_isa spec R instrs = IsaOk m ->
  map fst m = map (fun e => upper (fst e)) spec /\
  Forall2 (fun e kv => ic_find (snd e) R = Some (snd kv)) spec m /\
  fresh instrs spec /\
  NoDup (map (fun e => lower (fst e)) spec).
Proof.
  induction spec as [|[ins cap] t IH]; intros instrs m H.
  - simpl in H. injection H as <-. simpl. repeat split; try constructor.
    intros e y [].
  - cbn [create_isa] in H.
    destruct (ic_find ins instrs) eqn:E1; [discriminate|].
    destruct (ic_find cap R) as [std|] eqn:E2; [|discriminate].
    destruct (create_isa t R (instrs ++ [ins])) as [m'|] eqn:E3; [|discriminate].
    injection H as <-.
    destruct (IH _ _ E3) as [H1 [H2 [H3 H4]]].
    rewrite ic_find_none in E1.
    split; [simpl; f_equal; auto|].
    split; [constructor; auto|].
    split.
    + intros e y [<-|He] Hy.
      * simpl. apply ic_eqb_false_iff. auto.
      * apply H3; auto. apply in_or_app; auto.
    + simpl. constructor; auto.
      intros Hin. apply in_map_iff in Hin. destruct Hin as [e [He Hin]].
      apply (H3 e ins Hin); [apply in_or_app; right; left; auto|]. auto.
Qed.

Lemma C15_isa_ok_lemma :
  forall spec caps m, load_isa spec caps = IsaOk m ->
    map fst m = map (fun e => upper (fst e)) spec /\
    Forall2 (fun e kv => ic_find (snd e) (cap_registry caps) = Some (snd kv)) spec m /\
    NoDup (map fst m).
Proof.
  intros spec caps m H. unfold load_isa in H.
  destruct (create_isa_ok _ _ _ _ H) as [H1 [H2 [_ H4]]].
  split; auto. split; auto. rewrite H1.
  revert H4. apply NoDup_map_transfer. intros a b. apply upper_eq_lower.
Qed.

Lemma create_isa_first_defect spec R : forall instrs e,
  create_isa spec R instrs = IsaErr e ->
  exists pre ins cap post, spec = pre ++ (ins, cap) :: post /\
    (exists m, create_isa pre R instrs = IsaOk m) /\
    match e with
    | IsaDup old new => new = ins /\ ic_find ins (instrs ++ map fst pre) = Some old
    | IsaUndefCap c => c = cap /\ ic_find ins (instrs ++ map fst pre) = None /\ ic_find cap R = None
    end.
Proof.
  induction spec as [|[ins cap] t IH]; intros instrs e H.
  - simpl in H. discriminate.
  - cbn [create_isa] in H.
    destruct (ic_find ins instrs) as [old|] eqn:E1.
    { injection H as <-. exists [], ins, cap, t. split; auto. split; [exists []; auto|].
      simpl. rewrite app_nil_r. auto. }
    destruct (ic_find cap R) as [std|] eqn:E2.
    2:{ injection H as <-. exists [], ins, cap, t. split; auto. split; [exists []; auto|].
        simpl. rewrite app_nil_r. auto. }
    destruct (create_isa t R (instrs ++ [ins])) as [m'|e'] eqn:E3; [discriminate|].
    injection H as <-.
    destruct (IH _ _ E3) as [pre [i [c [post [Ht [[m Hm] He]]]]]].
    exists ((ins, cap) :: pre), i, c, post.
    split; [simpl; f_equal; auto|].
    split.
    + exists ((upper ins, std) :: m). cbn [create_isa]. rewrite E1, E2, Hm. reflexivity.
    + cbn [map fst]. rewrite <- app_assoc in He. exact He.
Qed.

Lemma C15_isa_first_defect_lemma :
  forall spec caps e, load_isa spec caps = IsaErr e ->
    exists pre ins cap post, spec = pre ++ (ins, cap) :: post /\
      (exists m, load_isa pre caps = IsaOk m) /\
      match e with
      | IsaDup old new => new = ins /\ ic_find ins (map fst pre) = Some old
      | IsaUndefCap c => c = cap /\ ic_find ins (map fst pre) = None /\ ic_find cap (cap_registry caps) = None
      end.
Proof. intros spec caps e H. exact (create_isa_first_defect _ _ _ _ H). Qed.

Lemma C15_isa_reject_lemma :
  forall spec caps,
    (exists e, load_isa spec caps = IsaErr e) <->
    (~ NoDup (map (fun e => lower (fst e)) spec) \/
     exists e, In e spec /\ ic_find (snd e) (cap_registry caps) = None).
Proof.
  intros spec caps. split.
  - intros [e H]. apply C15_isa_first_defect_lemma in H.
    destruct H as [pre [ins [cap [post [Hs [_ He]]]]]]. subst spec.
    destruct e as [old new|c].
    + left. destruct He as [_ He]. apply ic_find_some in He. destruct He as [Hin Heq].
      apply ic_eqb_iff in Heq. intros Hnd. rewrite map_app in Hnd. cbn [map fst] in Hnd.
      apply NoDup_remove_2 in Hnd. apply Hnd. apply in_or_app. left.
      apply in_map_iff in Hin. destruct Hin as [x [Hx Hin]].
      apply in_map_iff. exists x. split; auto. rewrite Hx. auto.
    + right. destruct He as [-> [_ He]]. exists (ins, cap). split; auto.
      apply in_or_app. right. left. auto.
  - intros H. destruct (load_isa spec caps) as [m|e] eqn:E; [|exists e; auto].
    exfalso. unfold load_isa in E. destruct (create_isa_ok _ _ _ _ E) as [_ [H2 [_ H4]]].
    destruct H as [H|[e [Hin He]]]; [auto|].
    clear E H4. induction H2 as [|x y l l' Hxy H2 IH]; [destruct Hin|].
    destruct Hin as [<-|Hin]; [congruence|auto].
Qed.

(* ---------- get_abilities ---------- *)
Lemma dedup_by_incl {A} (eqb : A -> A -> bool) l c : In c (dedup_by eqb l) -> In c l.
Proof.
  revert c; induction l as [|x t IH]; simpl; auto.
  intros c [->|H]; auto. apply filter_In in H. right. apply IH. tauto.
Qed.
Lemma dedup_ic_cover l c : In c l -> exists c', In c' (dedup_by ic_eqb l) /\ ic_eqb c' c = true.
Proof.
  induction l as [|x t IH]; simpl; [tauto|].
  intros [->|H].
  - exists c. split; auto. apply ic_eqb_refl.
  - destruct (IH H) as [c' [H1 H2]].
    destruct (ic_eqb x c') eqn:E.
    + exists x. split; auto. apply ic_eqb_iff. apply ic_eqb_iff in E, H2. congruence.
    + exists c'. split; auto. right. apply filter_In. split; auto. rewrite E. auto.
Qed.

Lemma C15_abilities_lemma :
  forall P c,
    (In c (get_abilities P) -> exists u, In u (p_inout P ++ p_in P) /\ In c (u_caps u)) /\
    (forall u, In u (p_inout P ++ p_in P) -> In c (u_caps u) -> exists c', In c' (get_abilities P) /\ ic_eqb c' c = true).
Proof.
  intros P c. unfold get_abilities. split.
  - intros H. apply dedup_by_incl in H. apply in_flat_map in H. exact H.
  - intros u Hu Hc. apply dedup_ic_cover. apply in_flat_map. exists u; auto.
Qed.

(* ---------- compile_program ---------- *)
Lemma C15_compile_ok_lemma :
  forall prog isa hw, compile_program prog isa = CompOk hw ->
    Forall2 (fun pi hi => i_srcs hi = pi_srcs pi /\ i_dst hi = pi_dst pi /\
                          assoc_opt isa (upper (pi_name pi)) = Some (i_cat hi)) prog hw.
Proof.
  induction prog as [|pi t IH]; intros isa hw H.
  - simpl in H. injection H as <-. constructor.
  - cbn [compile_program] in H.
    destruct (assoc_opt isa (upper (pi_name pi))) as [cap|] eqn:E1; [|discriminate].
    destruct (compile_program t isa) as [p|] eqn:E2; [|discriminate].
    injection H as <-. constructor; auto.
Qed.

Lemma C15_compile_fail_lemma :
  forall prog isa name line,
    compile_program prog isa = CompUndef name line <->
    exists pre pi post, prog = pre ++ pi :: post /\ pi_name pi = name /\ pi_line pi = line /\
      assoc_opt isa (upper name) = None /\
      Forall (fun q => assoc_opt isa (upper (pi_name q)) <> None) pre.
Proof.
  intros prog isa name line. split.
  - induction prog as [|pi t IH]; intros H; [simpl in H; discriminate|].
    cbn [compile_program] in H.
    destruct (assoc_opt isa (upper (pi_name pi))) as [cap|] eqn:E1.
    + destruct (compile_program t isa) as [p|n l] eqn:E2; [discriminate|].
      injection H as -> ->. destruct (IH eq_refl) as [pre [q [post [Ht [Hn [Hl [Ha Hf]]]]]]].
      exists (pi :: pre), q, post. split; [simpl; f_equal; auto|].
      repeat split; auto. constructor; auto. congruence.
    + injection H as <- <-. exists [], pi, t. repeat split; auto.
  - intros [pre [pi [post [Hp [Hn [Hl [Ha Hf]]]]]]]. subst prog.
    induction Hf as [|q pre Hq Hf IH].
    + cbn [app compile_program]. rewrite Hn, Ha. congruence.
    + cbn [app compile_program]. rewrite IH.
      destruct (assoc_opt isa (upper (pi_name q))); [reflexivity|congruence].
Qed.
