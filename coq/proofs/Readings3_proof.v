(* Readings3_proof.v -- the Prop-level reading of C10 on the resolved description: which units survive,
   with which capabilities and predecessors.  Built on the `loaded` record (C10_proof) and the bridge
   lemmas of LD_spec. *)
(* ZArith is re-exported: props/Readings2.v mentions Z.to_nat and imports it only through the proof files *)
From Coq Require Export ZArith.
From Coq Require Import Lia Permutation.
From PS Require Import Base Str Sim Graph Loader Diag LoaderSpec LoaderReadings Lists Graph_facts
  LD_base LD_create LD_clean LD_term LD_make LD_spec C10_proof.

Section R3.
  Variables (d : desc) (P : proc) (g : graph) (at0 : attrs) (creg : list string)
            (order : list string) (gc : graph) (at1 : attrs) (g1 g2 : graph).
  Hypothesis L : loaded d P g at0 creg order gc at1 g1 g2.
  Let r := resolve d.
  Let C := ld_created _ _ _ _ _ _ _ _ _ _ L.
  Let Ht := ld_topo _ _ _ _ _ _ _ _ _ _ L.
  Let Hc := ld_clean _ _ _ _ _ _ _ _ _ _ L.
  Let Hr := ld_rm _ _ _ _ _ _ _ _ _ _ L.
  Let Hk := ld_term _ _ _ _ _ _ _ _ _ _ L.
  Let W := ld_g2_wf _ _ _ _ _ _ _ _ _ _ L.
  Let M := ld_made _ _ _ _ _ _ _ _ _ _ L.
  Let Wg : gwf g := cr_gwf _ _ _ _ C.
  Let W1 : gwf g1 := br_g1_wf d g at0 creg C order gc at1 g1 Ht Hc Hr.

  Lemma r3_feeds c u : feeds r c u <-> fed g at0 c u.
  Proof. split.
    - induction 1 as [p Hp Hd|u v _ IH Hs Hd].
      + unfold r in Hp. rewrite (br_inputs d g at0 creg C) in Hp. apply in_ports_In in Hp.
        apply (br_declares d g at0 creg C) in Hd. apply fed_src; tauto.
      + apply (br_r_succs d g at0 creg C) in Hs. apply (br_declares d g at0 creg C) in Hd.
        eapply fed_step; eauto. apply (gwf_sym g Wg). auto.
    - induction 1 as [n Hn Hp Hd|p n _ IH Hp Hd].
      + apply feeds_in.
        * unfold r. rewrite (br_inputs d g at0 creg C). apply in_ports_In. auto.
        * apply (br_declares d g at0 creg C). auto.
      + apply (feeds_step r c p n IH).
        * apply (br_r_succs d g at0 creg C). apply (gwf_sym g Wg). auto.
        * apply (br_declares d g at0 creg C). auto. Qed.

  Lemma r3_usable u : usable r u <-> In u (g_nodes g1).
  Proof. rewrite (br_g1_nodes d g at0 creg C order gc at1 g1 Ht Hc Hr). unfold usable.
    unfold r at 1. rewrite (br_names d g at0 creg C). split.
    - intros [H1 [c H2]]. split; auto. apply r3_feeds in H2.
      apply (br_caps1 d g at0 creg C order gc at1 Ht Hc) in H2. intros E. rewrite E in H2. destruct H2.
    - intros [H1 H2]. split; auto. apply nonnil_in in H2. destruct H2 as [c H2]. exists c.
      apply r3_feeds. apply (br_caps1 d g at0 creg C order gc at1 Ht Hc). auto. Qed.

  Lemma r3_conn u v : usable_conn r u v <-> In v (succs g1 u).
  Proof. rewrite (br_g1_succs d g at0 creg C order gc at1 g1 Ht Hc Hr). unfold usable_conn.
    unfold r at 1. rewrite (br_r_succs d g at0 creg C). split; intros [H1 [c [H2 H3]]]; split; auto; exists c.
    - rewrite <- !r3_feeds. auto.
    - rewrite !r3_feeds. auto. Qed.

  Lemma r3_reaches u : reaches_out r u <-> In u (g_nodes g2).
  Proof. rewrite (br_g2_nodes d g at0 creg C order gc at1 g1 Ht Hc Hr g2 Hk). unfold coreach. split.
    - induction 1 as [o Ho Hu|u v Hu Hc' _ IH].
      + apply r3_usable in Hu. split; auto. exists o. split; [|split; auto; apply rp_refl].
        unfold r in Ho. rewrite (br_outputs d g at0 creg C) in Ho. auto.
      + apply r3_usable in Hu. apply r3_conn in Hc'. destruct IH as [_ [o [O1 [O2 O3]]]].
        split; auto. exists o. split; auto. split; auto. eapply rpath_cons; eauto.
    - intros [Hu [o [O1 [O2 O3]]]].
      assert (Ho : reaches_out r o).
      { apply ro_out; [|apply r3_usable; auto]. unfold r. rewrite (br_outputs d g at0 creg C). auto. }
      clear O1 O2. revert Ho. induction O3 as [x|x y z _ IH Hz]; intros Ho; auto.
      apply IH; auto.
      assert (Hy : In y (g_nodes g1)) by (apply (gwf_in g1 W1) in Hz; tauto).
      apply (ro_step r y z); [apply r3_usable; auto|apply r3_conn; auto|auto]. Qed.

  Lemma r3_main :
    (forall u, In u (unit_names P) <-> reaches_out r u) /\
    (forall u x, find_unit P u = Some x ->
       (forall c, In c (u_caps x) <-> feeds r c u) /\
       (exists ud, In ud (d_units d) /\ d_name ud = u /\ u_width x = Z.to_nat (d_width ud) /\
                   u_rl x = d_rl ud /\ u_wl x = d_wl ud)) /\
    (forall u p, In u (unit_names P) ->
       (In p (preds_of P u) <-> (In p (unit_names P) /\ usable_conn r p u))) /\
    (forall u, In u (in_names P) -> In u (r_inputs r)) /\
    (forall u, In u (out_names P) -> In u (r_outputs r)).
  Proof.
    assert (N : forall u, In u (unit_names P) <-> In u (g_nodes g2)).
    { intros u. apply (made_names_In g2 at1 creg P M). }
    split; [|split; [|split; [|split]]].
    - intros u. rewrite N, r3_reaches. tauto.
    - intros u x Hf. destruct (in_dec_str u (g_nodes g2)) as [Hu|Hu].
      2:{ rewrite (made_find_unit_none g2 at1 creg P M u Hu) in Hf. discriminate. }
      rewrite (made_find_unit g2 at1 creg P M u Hu) in Hf. injection Hf as <-. split.
      + intros c. unfold the_unit, mk_unit. cbn [u_caps]. rewrite sort_str_In. fold (caps_of at1 u).
        rewrite (br_caps1 d g at0 creg C order gc at1 Ht Hc), r3_feeds. tauto.
      + assert (Hn0 : In u (d_names d)).
        { rewrite <- (cr_nodes _ _ _ _ C). apply (br_g2_sub d g at0 creg C order gc at1 g1 Ht Hc Hr g2 Hk); auto. }
        unfold d_names in Hn0. apply in_map_iff in Hn0. destruct Hn0 as [ud [<- Hx]].
        destruct (br_attr1_unit d g at0 creg C order gc at1 Ht Hc ud Hx) as [A1 [A2 [A3 A4]]].
        exists ud. unfold the_unit, mk_unit. cbn [u_width u_rl u_wl]. auto.
    - intros u p Hu. apply N in Hu. rewrite (made_preds_of_In g2 at1 creg P W M), N, r3_conn.
      rewrite (br_g2_preds d g at0 creg C order gc at1 g1 Ht Hc Hr g2 Hk), (gwf_sym g1 W1). tauto.
    - intros u Hu. unfold in_names in Hu. apply in_map_iff in Hu. destruct Hu as [x [<- Hx]].
      apply (made_ports g2 at1 creg P M) in Hx. destruct Hx as [n [Hn [Hp ->]]]. rewrite the_unit_name.
      unfold r. rewrite (br_inputs d g at0 creg C). apply in_ports_In. split.
      + apply (br_g2_sub d g at0 creg C order gc at1 g1 Ht Hc Hr g2 Hk); auto.
      + apply (br_g2_in_port d g at0 creg C order gc at1 g1 Ht Hc Hr g2 Hk); auto.
    - intros o Ho. apply (made_out_names g2 at1 creg P M) in Ho. destruct Ho as [H1 H2].
      unfold r. rewrite (br_outputs d g at0 creg C).
      apply (proj2 (br_g2 d g at0 creg C order gc at1 g1 Ht Hc Hr g2 Hk)); auto. Qed.
End R3.

Lemma C10_reading_lemma :
  forall d P, load_proc_desc d = LoadOk P ->
    let r := resolve d in
    (forall u, In u (unit_names P) <-> reaches_out r u) /\
    (forall u x, find_unit P u = Some x ->
       (forall c, In c (u_caps x) <-> feeds r c u) /\
       (exists ud, In ud (d_units d) /\ d_name ud = u /\ u_width x = Z.to_nat (d_width ud) /\
                   u_rl x = d_rl ud /\ u_wl x = d_wl ud)) /\
    (forall u p, In u (unit_names P) ->
       (In p (preds_of P u) <-> (In p (unit_names P) /\ usable_conn r p u))) /\
    (forall u, In u (in_names P) -> In u (r_inputs r)) /\
    (forall u, In u (out_names P) -> In u (r_outputs r)).
Proof. intros d P H. destruct (load_ok_loaded d P H) as [g [at0 [creg [order [gc [at1 [g1 [g2 L]]]]]]]].
  exact (r3_main d P g at0 creg order gc at1 g1 g2 L). Qed.
Print Assumptions C10_reading_lemma.
