(* Lists.v -- generic lemmas about the Base vocabulary (get/set, isort, del_nth, find). *)
From Coq Require Import Lia Permutation.
From PS Require Import Base.

Lemma gss {A} (r : list (string * list A)) k v : get (set r k v) k = v.
Proof. induction r as [|[k' v'] t IH]; simpl; [rewrite String.eqb_refl; auto|].
  destruct (String.eqb k k') eqn:E; simpl; rewrite ?String.eqb_refl, ?E; auto. Qed.
Lemma gso {A} (r : list (string * list A)) k k' v : k <> k' -> get (set r k v) k' = get r k'.
Proof. intros H. induction r as [|[k2 v2] t IH]; simpl.
  - destruct (String.eqb k' k) eqn:E; auto. apply String.eqb_eq in E. congruence.
  - destruct (String.eqb k k2) eqn:E; simpl.
    + apply String.eqb_eq in E; subst. destruct (String.eqb k' k2) eqn:E2; auto.
      apply String.eqb_eq in E2; congruence.
    + destruct (String.eqb k' k2); auto. Qed.

Lemma filter_len {A} (f : A -> bool) l : length (filter f l) <= length l.
Proof. induction l; simpl; [lia|]. destruct (f a); simpl; lia. Qed.
Lemma del_nth_len {A} n (l : list A) : length (del_nth n l) <= length l.
Proof. revert n; induction l; intros [|n]; simpl; auto. specialize (IHl n). lia. Qed.

Lemma insert_incl {A} leb (y : A) s : incl (insert leb y s) (y :: s).
Proof. induction s as [|z s IHs]; simpl; [apply incl_refl|].
  destruct (leb y z); [apply incl_refl|]. intros a [->|Ha]; [right; left; auto|].
  apply IHs in Ha. destruct Ha as [->|Ha]; [left; auto|right; right; auto]. Qed.
Lemma isort_incl {A} leb (l : list A) : incl (isort leb l) l.
Proof. induction l as [|x l IH]; simpl; [apply incl_refl|].
  intros a Ha. apply insert_incl in Ha. destruct Ha as [->|Ha]; [left; auto|right; apply IH; auto]. Qed.

Lemma insert_perm {A} leb (x : A) l : Permutation (x :: l) (insert leb x l).
Proof. induction l as [|y l IH]; simpl; auto. destruct (leb x y); auto.
  eapply perm_trans; [apply perm_swap|]. constructor; auto. Qed.
Lemma isort_perm {A} leb (l : list A) : Permutation l (isort leb l).
Proof. induction l as [|x l IH]; simpl; auto.
  eapply perm_trans; [|apply insert_perm]. constructor; auto. Qed.

Lemma mem_str_In x l : mem_str x l = true <-> In x l.
Proof. unfold mem_str. rewrite existsb_exists. split.
  - intros [y [H1 H2]]. apply String.eqb_eq in H2. subst; auto.
  - intros H. exists x. split; auto. apply String.eqb_refl. Qed.
Lemma memn_In o l : memn o l = true <-> In o l.
Proof. unfold memn. rewrite existsb_exists. split.
  - intros [x [H1 H2]]. apply Nat.eqb_eq in H2. subst; auto.
  - intros H. exists o. split; auto. apply Nat.eqb_refl. Qed.

(* first match of a duplicate-free key list is the element itself *)
Lemma find_nodup {A} (key : A -> string) (l : list A) (u : A) :
  NoDup (map key l) -> In u l -> find (fun x => String.eqb (key u) (key x)) l = Some u.
Proof. induction l as [|a l IH]; simpl; intros Hnd Hin; [tauto|].
  inversion Hnd as [|? ? Hni Hnd']; subst. destruct Hin as [->|Hin].
  - rewrite String.eqb_refl; auto.
  - destruct (String.eqb (key u) (key a)) eqn:E.
    + apply String.eqb_eq in E. exfalso. apply Hni. rewrite <- E. apply in_map; auto.
    + auto. Qed.
