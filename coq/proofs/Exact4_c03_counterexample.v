(* Exact4_c03_counterexample.v -- each half of diagram_shape is needed in C03_done_checker_exact_lemma
   (proofs/Exact4_c03.v); a processor guard cannot replace it (both processors below satisfy wf_procb).

   A. duplicate unit key in a record, property TRUE, checker FALSE   (keys needed for property -> checker)
   B. duplicate-free keys, an index twice in one unit list, property TRUE, checker FALSE
                                                                    (entry lists needed for property -> checker)
   C. duplicate unit key in a record, checker TRUE, property FALSE   (keys needed for checker -> property;
      the entry-list half is not: C03_done_checker_sound_keys) *)
From Coq Require Import Lia.
From PS Require Import Base Bag RegAccess Sim Diag Exact_defs Exact4_defs Exact4_c03_route Exact4_c03.
Open Scope string_scope.

Definition k_u : unit := {| u_name := "u"; u_width := 1; u_caps := ["c"]; u_rl := true; u_wl := true; u_mem := [] |}.
Definition k_P1 : proc := {| p_in := []; p_out := []; p_inout := [k_u]; p_int := [] |}.
Definition k_prog : list instr := [ {| i_srcs := []; i_dst := "r"; i_cat := "c" |} ].

(* the clean diagram: one cycle, instruction 0 performs in the in-out port *)
Definition k_d0 : diagram := [ [("u", [(0, LU)])] ].
Definition k_dA : diagram := [ [("u", [(0, LU)]); ("u", [(0, LU)])] ].
Definition k_dB : diagram := [ [("u", [(0, LU); (0, LU)])] ].

Lemma k_P1_wf : wf_procb k_P1 = true.
Proof. vm_compute. reflexivity. Qed.

Lemma k_d0_shape : diagram_shape k_d0.
Proof. intros r [<-|[]]. split.
  - repeat constructor. intros [].
  - intros u es [E|[]]. inversion E; subst. repeat constructor. intros []. Qed.

Lemma k_d0_check : C03_checkb k_P1 k_prog TDone k_d0 = true.
Proof. vm_compute. reflexivity. Qed.

Lemma k_d0_prop : C03_done_prop k_P1 k_prog k_d0.
Proof. apply (C03_done_checker_exact_lemma _ _ _ k_d0_shape). exact k_d0_check. Qed.

Lemma k_rec_over (r : record) t : rec_at [r] (S t) = [].
Proof. unfold rec_at. destruct t; reflexivity. Qed.

(* ----- A ----- *)
Lemma k_dA_occ t u e : In e (occ k_dA t u) <-> In e (occ k_d0 t u).
Proof. unfold occ. destruct t as [|t].
  - unfold rec_at, k_dA, k_d0. cbn [nth get]. destruct (String.eqb u "u"); tauto.
  - unfold k_dA, k_d0. rewrite !k_rec_over. tauto. Qed.

Lemma k_dA_prop : C03_done_prop k_P1 k_prog k_dA.
Proof. apply (C03_done_prop_ext _ _ _ k_d0 k_dA_occ). exact k_d0_prop. Qed.
Lemma k_dA_check : C03_checkb k_P1 k_prog TDone k_dA = false.
Proof. vm_compute. reflexivity. Qed.
Lemma k_dA_keys : ~ z_keys k_dA.
Proof. intros H. specialize (H _ (or_introl eq_refl)). cbn in H. apply NoDup_cons_iff in H. apply (proj1 H). left; auto. Qed.

Theorem C03_exact_needs_keys_complete :
  exists P prog d, wf_procb P = true /\ C03_done_prop P prog d /\ C03_checkb P prog TDone d = false.
Proof. exists k_P1, k_prog, k_dA. split; [exact k_P1_wf|]. split; [exact k_dA_prop|exact k_dA_check]. Qed.

(* ----- B ----- *)
Lemma k_dB_occ t u e : In e (occ k_dB t u) <-> In e (occ k_d0 t u).
Proof. unfold occ. destruct t as [|t].
  - unfold rec_at, k_dB, k_d0. cbn [nth get]. destruct (String.eqb u "u"); cbn [In]; tauto.
  - unfold k_dB, k_d0. rewrite !k_rec_over. tauto. Qed.

Lemma k_dB_prop : C03_done_prop k_P1 k_prog k_dB.
Proof. apply (C03_done_prop_ext _ _ _ k_d0 k_dB_occ). exact k_d0_prop. Qed.
Lemma k_dB_check : C03_checkb k_P1 k_prog TDone k_dB = false.
Proof. vm_compute. reflexivity. Qed.
Lemma k_dB_keys : z_keys k_dB.
Proof. intros r [<-|[]]. repeat constructor. intros []. Qed.

Theorem C03_exact_needs_entries_complete :
  exists P prog d, wf_procb P = true /\ z_keys d /\ C03_done_prop P prog d /\ C03_checkb P prog TDone d = false.
Proof. exists k_P1, k_prog, k_dB. split; [exact k_P1_wf|]. split; [exact k_dB_keys|].
  split; [exact k_dB_prop|exact k_dB_check]. Qed.

(* ----- C ----- *)
Definition k_i : unit := {| u_name := "i"; u_width := 1; u_caps := ["c"]; u_rl := true; u_wl := false; u_mem := [] |}.
Definition k_o : unit := {| u_name := "o"; u_width := 1; u_caps := ["c"]; u_rl := false; u_wl := true; u_mem := [] |}.
Definition k_P2 : proc := {| p_in := [k_i]; p_out := [ {| f_model := k_o; f_preds := ["i"] |} ]; p_inout := []; p_int := [] |}.
(* second cycle: the key "o" twice; a dict look-up (occ) sees the first, empty, list *)
Definition k_dC : diagram := [ [("i", [(0, LU)])]; [("o", []); ("o", [(0, LU)])] ].

Lemma k_P2_wf : wf_procb k_P2 = true.
Proof. vm_compute. reflexivity. Qed.
Lemma k_dC_check : C03_checkb k_P2 k_prog TDone k_dC = true.
Proof. vm_compute. reflexivity. Qed.

Lemma k_dC_occ_o t : occ k_dC t "o" = [].
Proof. unfold occ, rec_at, k_dC. destruct t as [|[|[|t]]]; reflexivity. Qed.

Lemma k_dC_prop : ~ C03_done_prop k_P2 k_prog k_dC.
Proof. intros [_ H]. destruct (H 0 ltac:(cbn; lia)) as (a & route & Hne & H2 & _ & _ & _ & _ & (u & Hl & Hu)).
  cbn in Hu. destruct Hu as [<-|[]].
  pose proof (z_last_nth route (EmptyString, LD) Hne) as Hn. rewrite Hl in Hn.
  assert (X : In (0, LU) (occ k_dC (a + (length route - 1)) "o")).
  { apply H2. split; [lia|]. replace (a + (length route - 1) - a) with (length route - 1) by lia. exact Hn. }
  rewrite k_dC_occ_o in X. destruct X. Qed.

Theorem C03_exact_needs_keys_sound :
  exists P prog d, wf_procb P = true /\ C03_checkb P prog TDone d = true /\ ~ C03_done_prop P prog d.
Proof. exists k_P2, k_prog, k_dC. split; [exact k_P2_wf|]. split; [exact k_dC_check|exact k_dC_prop]. Qed.

Print Assumptions C03_exact_needs_keys_complete.
Print Assumptions C03_exact_needs_entries_complete.
Print Assumptions C03_exact_needs_keys_sound.
