(* C13_program.v -- re-casing later occurrences of register names leaves the parsed program unchanged. *)
From Coq Require Import String Ascii Lia Bool List.
From PS Require Import Base Str Sim Program Isa Loader TextSpec C18_proof C13_ci C14_proof.
Open Scope list_scope.

(* copies of the two fixpoints stated in props/C13.v (convertible with them) *)
Fixpoint c13_ops_recased (seen : list string) (ops ops' : list string) : Prop * list string :=
  match ops, ops' with
  | [], [] => (True, seen)
  | o :: t, o' :: t' =>
      let first := negb (mem_ic o seen) in
      let '(p, seen') := c13_ops_recased (if first then seen ++ [o] else seen) t t' in
      ((if first then o = o' else ci o o') /\ p, seen')
  | _, _ => (False, seen)
  end.
Fixpoint c13_lines_recased (seen : list string) (ls ls' : list rline) : Prop :=
  match ls, ls' with
  | [], [] => True
  | RBlank w :: t, RBlank w' :: t' => c13_lines_recased seen t t'
  | RInstr _ mn _ op0 rest _ :: t, RInstr _ mn' _ op0' rest' _ :: t' =>
      let '(p, seen') := c13_ops_recased seen (op0 :: map snd rest) (op0' :: map snd rest') in
      mn = mn' /\ p /\ c13_lines_recased seen' t t'
  | _, _ => False
  end.

Definition opstep : list string * list string -> string -> list string * list string :=
  fun '(acc, reg) o => let '(s, reg') := reg_lookup reg o in (acc ++ [s], reg').

Lemma ops_fold : forall ops ops' reg acc, fst (c13_ops_recased reg ops ops') ->
  fold_left opstep ops' (acc, reg) = fold_left opstep ops (acc, reg) /\
  snd (fold_left opstep ops (acc, reg)) = snd (c13_ops_recased reg ops ops').
Proof.
  induction ops as [|o t IH]; intros [|o' t'] reg acc Hp; simpl in Hp; try contradiction.
  - simpl. auto.
  - cbn [c13_ops_recased fold_left]. unfold opstep at 2 4 6. unfold reg_lookup.
    destruct (mem_ic o reg) eqn:Em; cbn [negb] in *.
    + destruct (c13_ops_recased reg t t') as [p seen'] eqn:E. cbn [fst snd] in *. destruct Hp as [Hc Hp].
      destruct (ic_find_mem _ _ Em) as [s Es]. rewrite <- (ic_find_ci o o' reg Hc), Es.
      specialize (IH t' reg (acc ++ [s])). rewrite E in IH. apply IH. exact Hp.
    + destruct (c13_ops_recased (reg ++ [o]) t t') as [p seen'] eqn:E. cbn [fst snd] in *. destruct Hp as [Hc Hp].
      subst o'. apply ic_find_none in Em. rewrite Em.
      specialize (IH t' (reg ++ [o]) (acc ++ [o])). rewrite E in IH. apply IH. exact Hp.
Qed.

Lemma expected_from_recased : forall ls ls' n reg, c13_lines_recased reg ls ls' ->
  expected_from ls n reg = expected_from ls' n reg.
Proof.
  induction ls as [|l t IH]; intros [|l' t'] n reg H; cbn [c13_lines_recased] in H; try contradiction; auto.
  - destruct l; contradiction.
  - destruct l as [w|lead mn sep op0 rest trail], l' as [w'|lead' mn' sep' op0' rest' trail']; try contradiction.
    + cbn [expected_from]. apply IH; auto.
    + cbn [expected_from].
      change (map (fun x : string * string * string => snd x) rest) with (map snd rest).
      change (map (fun x : string * string * string => snd x) rest') with (map snd rest').
      fold opstep.
      destruct (c13_ops_recased reg (op0 :: map snd rest) (op0' :: map snd rest')) as [p seen'] eqn:E.
      destruct H as [Hm [Hp Ht]]. subst mn'.
      assert (Hp' : fst (c13_ops_recased reg (op0 :: map snd rest) (op0' :: map snd rest')))
        by (rewrite E; exact Hp).
      destruct (ops_fold _ _ reg [] Hp') as [F1 F2]. rewrite E in F2. cbn [snd] in F2.
      rewrite F1. destruct (fold_left opstep (op0 :: map snd rest) ([], reg)) as [stds reg'].
      cbn [snd] in F2. subst seen'. f_equal. apply IH; auto.
Qed.

Lemma C13_expected_lemma : forall ls ls', c13_lines_recased [] ls ls' -> expected_program ls = expected_program ls'.
Proof. intros. unfold expected_program. apply expected_from_recased; auto. Qed.

Lemma C13_program_lemma :
  forall ls ls', forallb rline_ok ls = true -> forallb rline_ok ls' = true -> c13_lines_recased [] ls ls' ->
    read_program (map render_line ls) = read_program (map render_line ls').
Proof. intros ls ls' H H' R. rewrite (C14_roundtrip_lemma ls H), (C14_roundtrip_lemma ls' H').
  f_equal. apply C13_expected_lemma; auto. Qed.
