(* C02 (and C01) are FALSE without the guard `wf_progb prog = true` (duplicate-free sources).
   Instruction 0 names R1 twice as a source and also writes it: in its read-locking unit the clears
   (R1,0),(R1,0) dequeue its READ request and then its own WRITE request, so in the write-locking
   unit it is 'D' for ever although no older instruction blocks it; the run ends Stalled. *)
From PS Require Import Base Bag RegAccess Sim Diag.
Open Scope string_scope.
Definition cx_in  := {| u_name := "in";  u_width := 1; u_caps := ["ALU"]; u_rl := true;  u_wl := false; u_mem := [] |}.
Definition cx_out := {| u_name := "out"; u_width := 1; u_caps := ["ALU"]; u_rl := false; u_wl := true;  u_mem := [] |}.
Definition cx_P := {| p_in := [cx_in]; p_out := [{| f_model := cx_out; f_preds := ["in"] |}]; p_inout := []; p_int := [] |}.
Definition cx_prog := [ {| i_srcs := ["R1"; "R1"]; i_dst := "R1"; i_cat := "ALU" |};
                        {| i_srcs := ["R1"]; i_dst := "R2"; i_cat := "ALU" |};
                        {| i_srcs := ["R1"]; i_dst := "R3"; i_cat := "ALU" |} ].
Definition cx_d : diagram :=
  [ [("out", []); ("in", [(0, LU)])];
    [("out", [(0, LD)]); ("in", [(1, LU)])];
    [("out", [(0, LD)]); ("in", [(1, LS)])] ].

Lemma C02_counterexample :
  wf_procb cx_P = true /\ wf_progb cx_prog = false /\ sim_result 100 cx_P cx_prog TStalled cx_d /\
  C02_checkb cx_P cx_prog cx_d = false /\
  (1 < length cx_d /\ In (0, LD) (occ cx_d 1 "out") /\ C02_entry_ok cx_P cx_prog cx_d 1 "out" (0, LD) = false).
Proof. split; [vm_compute; reflexivity|]. split; [vm_compute; reflexivity|].
  split; [right; split; [reflexivity|vm_compute; reflexivity]|].
  split; [vm_compute; reflexivity|]. split; [vm_compute; auto|]. split; [vm_compute; auto|].
  vm_compute; reflexivity. Qed.
