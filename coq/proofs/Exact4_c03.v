(* Exact4_c03.v -- the extracted checker C03_checkb (for a returned, completed diagram: tag TDone) decides
   exactly the Prop-level statement C03_done_prop of spec/Exact4_defs.v on every diagram of the decodable shape.
   The route conjuncts are handled in Exact4_c03_route.v; here: the track of an instruction vs. the
   occupancy reading `occ`, and the assembly.  Uses model/, spec/ and the standard library only. *)
From Coq Require Import Lia.
From PS Require Import Base Bag RegAccess Sim Diag Exact_defs Exact4_defs Exact4_c03_route.

(* ---------- records of the decodable shape ---------- *)
Lemma z_get_nodup {A} (r : list (string * list A)) k es :
  NoDup (map fst r) -> In (k, es) r -> get r k = es.
Proof. induction r as [|[k' v'] t IH]; cbn [get map fst In]; [tauto|].
  intros H. inversion H as [|? ? Hni Hnd']; subst. intros [Heq|Hin].
  - inversion Heq; subst. rewrite String.eqb_refl; auto.
  - destruct (String.eqb_spec k k'); subst; auto.
    exfalso. apply Hni. change k' with (fst (k', es)). apply in_map; auto. Qed.

Lemma z_get_In {A} (r : list (string * list A)) k e : In e (get r k) -> In (k, get r k) r.
Proof. induction r as [|[k' v'] t IH]; cbn [get In]; [tauto|].
  destruct (String.eqb_spec k k'); subst; auto. Qed.

Lemma z_rec_at_over (d : diagram) t : length d <= t -> rec_at d t = [].
Proof. intros H. unfold rec_at. apply nth_overflow; auto. Qed.

Lemma z_rec_at_In (d : diagram) t : t < length d -> In (rec_at d t) d.
Proof. intros H. unfold rec_at. apply nth_In; auto. Qed.

(* the weaker half of the shape: duplicate-free unit keys per record *)
Definition z_keys (d : diagram) : Prop := forall r, In r d -> NoDup (map fst r).
Lemma z_shape_keys d : diagram_shape d -> z_keys d.
Proof. intros H r Hr. apply (H r Hr). Qed.
Lemma z_keys_at d t : z_keys d -> NoDup (map fst (rec_at d t)).
Proof. intros Hs. destruct (Nat.lt_ge_cases t (length d)) as [Ht|Ht].
  - apply Hs. unfold rec_at. apply nth_In; auto.
  - unfold rec_at. rewrite nth_overflow by auto. constructor. Qed.

Lemma z_shape_at d t : diagram_shape d -> record_shape (rec_at d t).
Proof. intros Hs. destruct (Nat.lt_ge_cases t (length d)) as [Ht|Ht].
  - apply Hs. apply z_rec_at_In; auto.
  - rewrite z_rec_at_over by auto. split; [constructor|]. intros u es []. Qed.

Lemma z_occ_lt d t u e : In e (occ d t u) -> t < length d.
Proof. intros H. destruct (Nat.lt_ge_cases t (length d)) as [Ht|Ht]; auto. exfalso.
  unfold occ in H. rewrite z_rec_at_over in H by auto. destruct H. Qed.

(* ---------- places ---------- *)
Lemma z_places_in r i u l : In (u, l) (places r i) <-> exists es, In (u, es) r /\ In (i, l) es.
Proof. unfold places. rewrite in_flat_map. split.
  - intros [[k es] [H1 H2]]. cbn [fst snd] in H2. apply in_map_iff in H2. destruct H2 as [[j l'] [E H2]].
    apply filter_In in H2. cbn [fst snd] in *. destruct H2 as [H2 H3]. apply Nat.eqb_eq in H3. inversion E; subst.
    exists es. auto.
  - intros (es & H1 & H2). exists (u, es). split; auto. cbn [fst snd]. apply in_map_iff. exists (i, l).
    split; auto. apply filter_In. split; auto. cbn [fst]. apply Nat.eqb_refl. Qed.

Lemma z_places_get r i u l : NoDup (map fst r) -> (In (u, l) (places r i) <-> In (i, l) (get r u)).
Proof. intros HK. rewrite z_places_in. split.
  - intros (es & H1 & H2). rewrite (z_get_nodup r u es HK H1). auto.
  - intros H. exists (get r u). split; auto. eapply z_get_In; eauto. Qed.

Lemma z_filt_single (v : list entry) i : NoDup (map fst v) ->
  filter (fun e => fst e =? i) v = [] \/ exists e, filter (fun e => fst e =? i) v = [e].
Proof. induction v as [|a v IH]; cbn [filter map]; intros H; auto. apply NoDup_cons_iff in H. destruct H as [H2 H3].
  destruct (Nat.eqb_spec (fst a) i) as [E|E]; [|auto].
  right. exists a. f_equal. destruct (filter (fun e => fst e =? i) v) as [|b w] eqn:G; auto.
  exfalso. apply H2. assert (Hb : In b (filter (fun e => fst e =? i) v)) by (rewrite G; left; auto).
  apply filter_In in Hb. destruct Hb as [Hb1 Hb2]. apply Nat.eqb_eq in Hb2. rewrite E, <- Hb2. apply in_map; auto. Qed.

Lemma z_nodup_app {A} (a b : list A) :
  NoDup a -> NoDup b -> (forall x, In x a -> ~ In x b) -> NoDup (a ++ b).
Proof. induction a as [|x a IH]; cbn [app]; intros Ha Hb Hd; auto.
  inversion Ha; subst. constructor.
  - rewrite in_app_iff. intros [H|H]; auto. apply (Hd x); [left|]; auto.
  - apply IH; auto. intros y Hy. apply Hd. right; auto. Qed.

Lemma z_places_nodup r i : record_shape r -> NoDup (places r i).
Proof. intros [HK HU]. induction r as [|[k es] r IH]; [constructor|].
  change (places ((k, es) :: r) i)
    with (map (fun e : entry => (k, snd e)) (filter (fun e => fst e =? i) es) ++ places r i).
  cbn [map fst] in HK. apply NoDup_cons_iff in HK. destruct HK as [HK1 HK2].
  apply z_nodup_app.
  - destruct (z_filt_single es i (HU k es (or_introl eq_refl))) as [E|[e E]]; rewrite E; cbn [map].
    + constructor.
    + constructor; [intros []|constructor].
  - apply IH; auto. intros u es' H. apply (HU u es'). right; auto.
  - intros [u l] H1 H2. apply in_map_iff in H1. destruct H1 as [e [E _]]. inversion E; subst u.
    apply z_places_in in H2. destruct H2 as (es' & H2 & _). apply HK1.
    change k with (fst (k, es')). apply in_map; auto. Qed.

Lemma z_list_eq_small {A} (L L' : list A) :
  NoDup L -> length L' <= 1 -> (forall x, In x L <-> In x L') -> L = L'.
Proof. intros Hnd Hlen Hiff. destruct L' as [|p [|q L']]; [| |cbn in Hlen; lia].
  - destruct L as [|x L]; auto. exfalso. apply (Hiff x). left; auto.
  - destruct L as [|x [|y L]].
    + exfalso. apply (proj2 (Hiff p)). left; auto.
    + f_equal. destruct (proj1 (Hiff x) (or_introl eq_refl)) as [H|[]]; auto.
    + exfalso. destruct (proj1 (Hiff x) (or_introl eq_refl)) as [H|[]].
      destruct (proj1 (Hiff y) (or_intror (or_introl eq_refl))) as [H'|[]]. subst.
      apply NoDup_cons_iff in Hnd. apply (proj1 Hnd). left; auto. Qed.

(* ---------- the track ---------- *)
Lemma z_track_in_iff d i t u l : z_keys d -> (In (t, (u, l)) (track d i) <-> In (i, l) (occ d t u)).
Proof. intros Hs. unfold track, occ. rewrite in_flat_map. pose proof (z_keys_at d t Hs) as HK. split.
  - intros [t' [H1 H2]]. apply in_map_iff in H2. destruct H2 as [pl [E H2]]. inversion E; subst.
    apply z_places_get; auto.
  - intros H. exists t. split; [apply in_seq; pose proof (z_occ_lt d t u _ H); lia|].
    apply in_map. apply z_places_get; auto. Qed.

Lemma z_contiguous_nth : forall l k t, contiguous l = true -> nth_error l k = Some t -> t = hd 0 l + k.
Proof. induction l as [|a l IH]; intros k t Hc Hn; [destruct k; discriminate|]. destruct k as [|k].
  - cbn in Hn. inversion Hn; subst. cbn [hd]. lia.
  - cbn [nth_error] in Hn. destruct l as [|b l]; [destruct k; discriminate|].
    cbn [contiguous] in Hc. apply andb_true_iff in Hc. destruct Hc as [H1 H2]. apply Nat.eqb_eq in H1.
    rewrite (IH k t H2 Hn). cbn [hd]. lia. Qed.

Lemma z_contiguous_seq : forall n a, contiguous (seq a n) = true.
Proof. induction n as [|n IH]; intros a; [reflexivity|]. destruct n as [|n]; [reflexivity|].
  change (seq a (S (S n))) with (a :: S a :: seq (S (S a)) n).
  change (contiguous (a :: S a :: seq (S (S a)) n)) with ((S a =? S a) && contiguous (seq (S a) (S n))).
  rewrite Nat.eqb_refl. apply IH. Qed.

Lemma z_comb_fst {A B} : forall (l : list A) (l' : list B), length l = length l' -> map fst (combine l l') = l.
Proof. induction l as [|x l IH]; intros [|y l'] H; cbn in *; try discriminate; auto. f_equal. apply IH. lia. Qed.
Lemma z_comb_snd {A B} : forall (l : list A) (l' : list B), length l = length l' -> map snd (combine l l') = l'.
Proof. induction l as [|x l IH]; intros [|y l'] H; cbn in *; try discriminate; auto. f_equal. apply IH. lia. Qed.

(* what a route (start a, places route) says the places of the instruction in cycle t are *)
Definition z_pl (a : nat) (route : list (string * label)) (t : nat) : list (string * label) :=
  if a <=? t then match nth_error route (t - a) with Some p => [p] | None => [] end else [].

Lemma z_pl_in a route t p : In p (z_pl a route t) <-> (a <= t /\ nth_error route (t - a) = Some p).
Proof. unfold z_pl. destruct (Nat.leb_spec a t) as [H|H].
  - destruct (nth_error route (t - a)) as [q|]; cbn [In]; split.
    + intros [->|[]]. auto.
    + intros [_ E]. inversion E. auto.
    + intros [].
    + intros [_ E]. discriminate.
  - split; [intros []|]. intros [H' _]. lia. Qed.

Lemma z_pl_len a route t : length (z_pl a route t) <= 1.
Proof. unfold z_pl. destruct (a <=? t); [|cbn; lia]. destruct (nth_error route (t - a)); cbn; lia. Qed.

Lemma z_fm_nil {A B} (f : A -> list B) l : (forall t, In t l -> f t = []) -> flat_map f l = [].
Proof. induction l as [|x l IH]; intros H; [reflexivity|]. cbn [flat_map]. rewrite (H x) by (left; auto).
  apply IH. intros t Ht. apply H. right; auto. Qed.

Lemma z_fm_ext_in {A B} (f g : A -> list B) l : (forall a, In a l -> f a = g a) -> flat_map f l = flat_map g l.
Proof. induction l as [|a l IH]; cbn [flat_map]; intros H; auto. rewrite (H a) by (left; auto). f_equal.
  apply IH. intros b Hb. apply H. right; auto. Qed.

Lemma z_fm_mid : forall route a,
  flat_map (fun t => map (fun pl => (t, pl)) (z_pl a route t)) (seq a (length route))
  = combine (seq a (length route)) route.
Proof. induction route as [|x r IH]; intros a; [reflexivity|].
  cbn [length seq flat_map combine]. unfold z_pl at 1. rewrite Nat.leb_refl, Nat.sub_diag. cbn [nth_error map app].
  f_equal. rewrite <- IH. apply z_fm_ext_in. intros t Ht. apply in_seq in Ht. f_equal. unfold z_pl.
  destruct (Nat.leb_spec a t); [|lia]. destruct (Nat.leb_spec (S a) t); [|lia].
  replace (t - a) with (S (t - S a)) by lia. reflexivity. Qed.

Lemma z_track_of_route d i a route : diagram_shape d ->
  (forall t u l, In (i, l) (occ d t u) <-> (a <= t /\ nth_error route (t - a) = Some (u, l))) ->
  track d i = combine (seq a (length route)) route.
Proof. intros Hs H2.
  assert (Hpl : forall t, places (rec_at d t) i = z_pl a route t).
  { intros t. apply z_list_eq_small.
    - apply z_places_nodup. apply z_shape_at; auto.
    - apply z_pl_len.
    - intros [u l]. rewrite z_pl_in, <- H2. unfold occ. apply z_places_get. apply (z_shape_at d t Hs). }
  assert (Hover : forall t, length d <= t -> z_pl a route t = []).
  { intros t Ht. rewrite <- Hpl. rewrite z_rec_at_over by auto. reflexivity. }
  unfold track. rewrite (z_fm_ext_in _ (fun t => map (fun pl => (t, pl)) (z_pl a route t))) by (intros t _; rewrite Hpl; auto).
  set (f := fun t => map (fun pl => (t, pl)) (z_pl a route t)).
  set (n := length route). set (N := length d). set (M := Nat.max N (a + n)).
  assert (E1 : flat_map f (seq 0 M) = flat_map f (seq 0 N)).
  { replace M with (N + (M - N)) by lia. rewrite seq_app, flat_map_app. rewrite (z_fm_nil f (seq (0 + N) (M - N))).
    - apply app_nil_r.
    - intros t Ht. apply in_seq in Ht. unfold f. rewrite Hover by (unfold N in *; lia). reflexivity. }
  rewrite <- E1. replace M with (a + (n + (M - (a + n)))) by lia. rewrite !seq_app, !flat_map_app.
  rewrite (z_fm_nil f (seq 0 a)), (z_fm_nil f (seq (0 + a + n) _)).
  - rewrite app_nil_r. cbn [app]. apply z_fm_mid.
  - intros t Ht. apply in_seq in Ht. unfold f, z_pl. destruct (Nat.leb_spec a t); [|reflexivity].
    replace (nth_error route (t - a)) with (@None (string * label)); [reflexivity|].
    symmetry. apply nth_error_None. fold n. lia.
  - intros t Ht. apply in_seq in Ht. unfold f, z_pl. destruct (Nat.leb_spec a t); [lia|reflexivity]. Qed.

(* ---------- one instruction ---------- *)
Lemma z_instr_ok_unfold P prog d i :
  C03_instr_ok P prog TDone d i = true <->
  (track d i <> [] /\ contiguous (map fst (track d i)) = true
   /\ z_route_checkb P (cat_of prog i) (map snd (track d i)) = true).
Proof. unfold C03_instr_ok, z_route_checkb. cbv zeta. destruct (track d i) as [|p tr] eqn:E.
  - split; [discriminate|]. intros [H _]. congruence.
  - change (last (map snd (p :: tr)) (EmptyString, LD))
      with (last (map snd (p :: tr)) (snd (0, (EmptyString, LD)))). rewrite z_last_map by discriminate.
    destruct (last (p :: tr) (0, (EmptyString, LD))) as [t0 [u l]]. cbn [snd negb orb].
    rewrite !andb_true_iff. split.
    + intros [[[H1 H2] H3] H4]. split; [discriminate|tauto].
    + intros (_ & H1 & (H2 & H3) & H4). tauto. Qed.

Lemma z_appears_track d i : appears d i = true <-> track d i <> [].
Proof. unfold appears, track. rewrite existsb_exists. split.
  - intros [r [Hr Hp]] E. destruct (In_nth _ _ [] Hr) as [t [Ht Et]].
    assert (G : In t (seq 0 (length d))) by (apply in_seq; split; [lia|exact Ht]).
    pose proof (in_flat_map (fun t => map (fun pl => (t, pl)) (places (rec_at d t) i)) (seq 0 (length d))) as F.
    destruct (places r i) as [|p ps] eqn:Ep; [discriminate|].
    assert (X : In (t, p) (flat_map (fun t => map (fun pl => (t, pl)) (places (rec_at d t) i)) (seq 0 (length d)))).
    { apply F. exists t. split; auto. apply in_map. assert (Er : rec_at d t = r) by exact Et. rewrite Er, Ep. left; auto. }
    rewrite E in X. destruct X.
  - intros H. destruct (flat_map _ _) as [|[t p] tr] eqn:E; [congruence|].
    assert (X : In (t, p) (flat_map (fun t => map (fun pl => (t, pl)) (places (rec_at d t) i)) (seq 0 (length d))))
      by (rewrite E; left; auto).
    apply in_flat_map in X. destruct X as [t' [H1 H2]]. apply in_seq in H1. apply in_map_iff in H2.
    destruct H2 as [pl [E2 H2]]. exists (rec_at d t'). split; [apply z_rec_at_In; lia|].
    destruct (places (rec_at d t') i); [destruct H2|reflexivity]. Qed.

Lemma z_nth_error_map_inv {A B} (g : A -> B) l k y : nth_error (map g l) k = Some y ->
  exists x, nth_error l k = Some x /\ g x = y.
Proof. rewrite nth_error_map. destruct (nth_error l k) as [x|]; [|discriminate]. intros H. inversion H. eauto. Qed.

Lemma z_instr_sound P prog d i : z_keys d ->
  C03_instr_ok P prog TDone d i = true -> C03_route_prop P prog d i.
Proof. intros Hs. rewrite z_instr_ok_unfold. unfold C03_route_prop.
  intros (Hne & Hc & Hr). set (tr := track d i) in *.
  exists (hd 0 (map fst tr)), (map snd tr).
  assert (Hne' : map snd tr <> []) by (intros E; apply map_eq_nil in E; auto).
  apply (z_route_exact P (cat_of prog i) _ Hne') in Hr. split; [exact Hne'|]. split; [|exact Hr].
  assert (Hnth : forall k x, nth_error tr k = Some x -> fst x = hd 0 (map fst tr) + k).
  { intros k x Hx. apply z_contiguous_nth; auto. rewrite nth_error_map, Hx. reflexivity. }
  intros t u l. rewrite <- (z_track_in_iff d i t u l Hs). fold tr. split.
  - intros Hin. apply In_nth_error in Hin. destruct Hin as [k Hk]. pose proof (Hnth _ _ Hk) as Ht. cbn [fst] in Ht.
    split; [lia|]. replace (t - hd 0 (map fst tr)) with k by lia. rewrite nth_error_map, Hk. reflexivity.
  - intros [Hle Hn]. apply z_nth_error_map_inv in Hn. destruct Hn as ([t' pl] & Hx & E). cbn [snd] in E. subst pl.
    pose proof (Hnth _ _ Hx) as Ht. cbn [fst] in Ht. replace t' with t in Hx by lia. eapply nth_error_In; eauto. Qed.

Lemma z_instr_complete P prog d i : diagram_shape d ->
  C03_route_prop P prog d i -> C03_instr_ok P prog TDone d i = true.
Proof. intros Hs. rewrite z_instr_ok_unfold. unfold C03_route_prop.
  intros (a & route & Hne & H2 & Hr).
  rewrite (z_track_of_route d i a route Hs H2).
  assert (Hl : length (seq a (length route)) = length route) by apply seq_length.
  rewrite z_comb_fst, z_comb_snd by exact Hl. split; [|split].
  - destruct route as [|x r]; [congruence|]. cbn. discriminate.
  - apply z_contiguous_seq.
  - apply (z_route_exact P (cat_of prog i) route Hne). exact Hr. Qed.

(* ---------- the whole checker ---------- *)
Lemma z_only_prog (n : nat) d : z_keys d ->
  (forallb (fun r : record => forallb (fun kv => forallb (fun e : entry => fst e <? n) (snd kv)) r) d = true
   <-> forall t u i (l : label), In (i, l) (occ d t u) -> i < n).
Proof. intros Hs. split.
  - intros Hc t u i l Hin. pose proof (z_occ_lt d t u _ Hin) as Ht. rewrite forallb_forall in Hc.
    specialize (Hc _ (z_rec_at_In d t Ht)). rewrite forallb_forall in Hc. unfold occ in Hin.
    specialize (Hc _ (z_get_In _ _ _ Hin)). cbn [snd] in Hc. rewrite forallb_forall in Hc.
    specialize (Hc _ Hin). apply Nat.ltb_lt in Hc. exact Hc.
  - intros H. apply forallb_forall. intros r Hr. apply forallb_forall. intros [u es] Hkv. apply forallb_forall.
    intros [i l] He. cbn [fst snd] in *. apply Nat.ltb_lt. destruct (In_nth _ _ [] Hr) as [t [Ht E]].
    assert (Er : rec_at d t = r) by exact E.
    apply (H t u i l). unfold occ. rewrite Er. pose proof (Hs _ Hr) as HK.
    rewrite (z_get_nodup r u es HK Hkv). exact He. Qed.

(* checker -> property needs only duplicate-free unit keys *)
Lemma C03_done_checker_sound_keys :
  forall (P : proc) (prog : list instr) (d : diagram), z_keys d ->
    C03_checkb P prog TDone d = true -> C03_done_prop P prog d.
Proof. intros P prog d Hs Hc. unfold C03_checkb in Hc. cbv zeta in Hc.
  apply andb_true_iff in Hc. destruct Hc as [Hc H3]. apply andb_true_iff in Hc. destruct Hc as [H1 _].
  split; [apply (z_only_prog (length prog) d Hs); exact H1|].
  intros i Hi. apply (z_instr_sound P prog d i Hs). rewrite forallb_forall in H3. apply H3. apply in_seq. lia. Qed.

Lemma C03_done_checker_sound_shape :
  forall (P : proc) (prog : list instr) (d : diagram), diagram_shape d ->
    C03_checkb P prog TDone d = true -> C03_done_prop P prog d.
Proof. intros P prog d Hs. apply C03_done_checker_sound_keys. apply z_shape_keys; auto. Qed.

Lemma C03_done_checker_complete_shape :
  forall (P : proc) (prog : list instr) (d : diagram), diagram_shape d ->
    C03_done_prop P prog d -> C03_checkb P prog TDone d = true.
Proof. intros P prog d Hs [H1 H2]. unfold C03_checkb. cbv zeta.
  assert (H3 : forall i, i < length prog -> C03_instr_ok P prog TDone d i = true).
  { intros i Hi. apply (z_instr_complete P prog d i Hs). auto. }
  rewrite !andb_true_iff. split; [split|].
  - apply (z_only_prog (length prog) d (z_shape_keys d Hs)). exact H1.
  - apply forallb_forall. intros i Hi. apply in_seq in Hi. apply orb_true_iff. right.
    apply z_appears_track. apply (proj1 (z_instr_ok_unfold P prog d i)). apply H3. lia.
  - apply forallb_forall. intros i Hi. apply in_seq in Hi. apply H3. lia. Qed.

Lemma C03_done_checker_exact_lemma :
  forall (P : proc) (prog : list instr) (d : diagram), diagram_shape d ->
    (C03_checkb P prog TDone d = true <-> C03_done_prop P prog d).
Proof. intros P prog d Hs. split.
  - apply C03_done_checker_sound_shape; auto.
  - apply C03_done_checker_complete_shape; auto. Qed.

(* the statement depends on the diagram only through the membership reading In (i, l) (occ d t u) *)
Lemma C03_done_prop_ext P prog d d' :
  (forall t u e, In e (occ d t u) <-> In e (occ d' t u)) -> C03_done_prop P prog d' -> C03_done_prop P prog d.
Proof. intros Hext [H1 H2]. split.
  - intros t u i l H. apply (H1 t u i l). apply Hext; auto.
  - intros i Hi. destruct (H2 i Hi) as (a & route & Hne & Hc2 & Hr). exists a, route. split; auto. split; auto.
    intros t u l. rewrite Hext. apply Hc2. Qed.

Print Assumptions C03_done_checker_exact_lemma.
Print Assumptions C03_done_checker_sound_keys.
