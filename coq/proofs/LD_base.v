(* LD_base.v -- generic facts used by the loader proofs (C09, C10, C11): case-insensitive registries
   (ic_find / dedup_by ic_eqb), dedup_by, nodupb, sort_str as a canonical form of duplicate-free sets,
   list_eqb, assoc over maps. *)
From Coq Require Import Lia Permutation Sorted.
From PS Require Import Base Str Lists Graph_facts C17_strord.

(* ====================================================================== *)
(* small list facts                                                        *)
(* ====================================================================== *)
Lemma filter_ext_in' {A} (f g : A -> bool) l : (forall x, In x l -> f x = g x) -> filter f l = filter g l.
Proof. induction l as [|a l IH]; simpl; intros H; auto.
  rewrite (H a) by auto. rewrite IH; auto. Qed.
Lemma filter_filter {A} (f g : A -> bool) l : filter f (filter g l) = filter (fun x => g x && f x) l.
Proof. induction l as [|a l IH]; simpl; auto. destruct (g a); simpl; [destruct (f a)|]; rewrite IH; auto. Qed.
Lemma filter_nil_iff {A} (f : A -> bool) l : filter f l = [] <-> forall x, In x l -> f x = false.
Proof. induction l as [|a l IH]; simpl; [split; auto; tauto|].
  destruct (f a) eqn:E; split.
  - discriminate.
  - intros H. rewrite H in E by auto. discriminate.
  - intros H x [<-|Hx]; auto. apply IH; auto.
  - intros H. apply IH. auto. Qed.
Lemma filter_nonnil {A} (f : A -> bool) l x : In x l -> f x = true -> filter f l <> [].
Proof. intros H1 H2 H. rewrite filter_nil_iff in H. rewrite H in H2; auto. discriminate. Qed.
Lemma nonnil_in {A} (l : list A) : l <> [] -> exists x, In x l.
Proof. destruct l as [|a l]; [congruence|]. intros _. exists a. left; auto. Qed.
Lemma map_filter_comm {A B} (g : A -> B) (f : B -> bool) l :
  filter f (map g l) = map g (filter (fun x => f (g x)) l).
Proof. induction l as [|a l IH]; simpl; auto. destruct (f (g a)); simpl; rewrite IH; auto. Qed.
Lemma NoDup_map_inv' {A B} (f : A -> B) l : NoDup (map f l) -> NoDup l.
Proof. induction l as [|a l IH]; simpl; intros H; constructor; inversion H; subst; auto.
  intros Hc. apply H2. apply in_map; auto. Qed.
Lemma NoDup_map_inj {A B} (f : A -> B) l :
  (forall x y, In x l -> In y l -> f x = f y -> x = y) -> NoDup l -> NoDup (map f l).
Proof. induction l as [|a l IH]; simpl; intros Hi H; constructor; inversion H; subst.
  - intros Hc. apply in_map_iff in Hc. destruct Hc as [y [E Hy]]. apply Hi in E; auto. subst; auto.
  - apply IH; auto. Qed.
Lemma NoDup_map_In_eq {A B} (f : A -> B) l x y : NoDup (map f l) -> In x l -> In y l -> f x = f y -> x = y.
Proof. induction l as [|a l IH]; simpl; [tauto|]. intros H. inversion H; subst.
  intros [<-|Hx] [<-|Hy] E; auto.
  - exfalso. apply H2. rewrite E. apply in_map; auto.
  - exfalso. apply H2. rewrite <- E. apply in_map; auto. Qed.
Lemma in_dec_str (x : string) l : In x l \/ ~ In x l.
Proof. destruct (in_dec string_dec x l); auto. Qed.
Lemma NoDup_filter' {A} (f : A -> bool) l : NoDup l -> NoDup (filter f l).
Proof. apply NoDup_filter. Qed.

Lemma existsb_false_iff {A} (f : A -> bool) l : existsb f l = false <-> forall x, In x l -> f x = false.
Proof. induction l as [|a l IH]; simpl; [split; auto; tauto|]. rewrite orb_false_iff, IH. split.
  - intros [H1 H2] x [<-|Hx]; auto.
  - intros H. split; auto. Qed.

(* ====================================================================== *)
(* nodupb / dedup_by for String.eqb                                        *)
(* ====================================================================== *)
Lemma nodupb_str l : nodupb String.eqb l = true <-> NoDup l.
Proof. induction l as [|a l IH]; simpl; [split; auto; constructor|].
  rewrite andb_true_iff, negb_true_iff, IH. fold (mem_str a l). rewrite mem_str_false. split.
  - intros [H1 H2]. constructor; auto.
  - intros H. inversion H; auto. Qed.
Lemma dedup_str_id l : NoDup l -> dedup_by String.eqb l = l.
Proof. induction l as [|a l IH]; simpl; auto. intros H. inversion H; subst. rewrite IH; auto. f_equal.
  rewrite (filter_ext_in' _ (fun _ => true)).
  - clear. induction l; simpl; congruence.
  - intros x Hx. destruct (String.eqb_spec a x); auto. subst; tauto. Qed.

Lemma list_eqb_str_eq a b : list_eqb String.eqb a b = true <-> a = b.
Proof. revert b. induction a as [|x s IH]; intros [|y t]; simpl; try (split; congruence).
  rewrite andb_true_iff, String.eqb_eq, IH. split; [intros [-> ->]; auto|intros H; injection H; auto]. Qed.
Lemma list_eqb_str_refl a : list_eqb String.eqb a a = true.
Proof. apply list_eqb_str_eq; auto. Qed.

(* ====================================================================== *)
(* sort_str is canonical on permutations                                   *)
(* ====================================================================== *)
Lemma sleb_total s t : String.leb s t = true \/ String.leb t s = true.
Proof. rewrite !sleb_iff. destruct (String.compare s t) eqn:E.
  - apply scompare_eq in E. auto.
  - auto.
  - apply scompare_gt_lt in E. auto. Qed.
Lemma sleb_antisym s t : String.leb s t = true -> String.leb t s = true -> s = t.
Proof. rewrite !sleb_iff. intros [E1|H1] [E2|H2]; auto.
  pose proof (scompare_lt_trans _ _ _ H1 H2) as H. rewrite scompare_refl in H. discriminate. Qed.

Section SortUnique.
  Context {A : Type} (leb : A -> A -> bool).
  Hypothesis leb_total : forall x y, leb x y = true \/ leb y x = true.
  Hypothesis leb_trans : forall x y z, leb x y = true -> leb y z = true -> leb x z = true.

  Let lebP (x y : A) : Prop := leb x y = true.

  Lemma insert_sorted x l : StronglySorted lebP l -> StronglySorted lebP (insert leb x l).
  Proof.
    induction l as [|y t IH]; intros Hs; simpl.
    - constructor; constructor.
    - apply StronglySorted_inv in Hs. destruct Hs as [Hs Hy].
      destruct (leb x y) eqn:E.
      + constructor; [constructor; auto|]. constructor; [exact E|].
        eapply Forall_impl; [|exact Hy]. intros z Hz. eapply leb_trans; eauto.
      + constructor; [auto|]. apply Forall_forall. intros z Hz.
        apply insert_incl in Hz. destruct Hz as [<-|Hz].
        * destruct (leb_total x y) as [H|H]; [congruence|exact H].
        * rewrite Forall_forall in Hy. auto.
  Qed.
  Lemma isort_sorted l : StronglySorted lebP (isort leb l).
  Proof. induction l as [|x l IH]; simpl; [constructor|]. apply insert_sorted; auto. Qed.

  Hypothesis leb_antisym_on : forall x y, leb x y = true -> leb y x = true -> x = y.
  Lemma sorted_perm_eq l1 : forall l2,
    StronglySorted lebP l1 -> StronglySorted lebP l2 -> Permutation l1 l2 -> l1 = l2.
  Proof.
    induction l1 as [|x t1 IH]; intros l2 S1 S2 P.
    - apply Permutation_nil in P. auto.
    - destruct l2 as [|y t2].
      + apply Permutation_sym in P. apply Permutation_nil_cons in P. tauto.
      + apply StronglySorted_inv in S1. destruct S1 as [S1 F1].
        apply StronglySorted_inv in S2. destruct S2 as [S2 F2].
        rewrite Forall_forall in F1, F2.
        assert (Hy : In y (x :: t1)) by (eapply Permutation_in; [apply Permutation_sym; exact P|left; auto]).
        assert (Hx : In x (y :: t2)) by (eapply Permutation_in; [exact P|left; auto]).
        assert (x = y).
        { destruct Hy as [Hy|Hy]; auto. destruct Hx as [Hx|Hx]; auto.
          apply leb_antisym_on; [apply F1; auto|apply F2; auto]. }
        subst y. f_equal. apply IH; auto.
        eapply Permutation_cons_inv; eauto.
  Qed.
  Lemma isort_perm_eq a b : Permutation a b -> isort leb a = isort leb b.
  Proof.
    intros P. apply sorted_perm_eq; try apply isort_sorted.
    eapply perm_trans; [apply Permutation_sym, isort_perm|].
    eapply perm_trans; [exact P|apply isort_perm].
  Qed.
End SortUnique.

Lemma sort_str_perm l l' : Permutation l l' -> sort_str l = sort_str l'.
Proof. unfold sort_str. apply isort_perm_eq; unfold str_leb.
  - apply sleb_total.
  - apply sleb_trans.
  - apply sleb_antisym. Qed.
Lemma sort_str_set_eq a b : NoDup a -> NoDup b -> (forall x, In x a <-> In x b) -> sort_str a = sort_str b.
Proof. intros. apply sort_str_perm. apply NoDup_Permutation; auto. Qed.
Lemma sort_str_In x l : In x (sort_str l) <-> In x l.
Proof. unfold sort_str. split; intros H.
  - apply isort_incl in H; auto.
  - eapply Permutation_in; [apply isort_perm|auto]. Qed.
Lemma sort_str_NoDup l : NoDup l -> NoDup (sort_str l).
Proof. intros H. eapply Permutation_NoDup; [apply isort_perm|auto]. Qed.
Lemma sort_str_nil l : sort_str l = [] <-> l = [].
Proof. split; intros H; [|subst; auto]. destruct l as [|a l]; auto.
  assert (In a (sort_str (a :: l))) by (apply sort_str_In; left; auto). rewrite H in H0. destruct H0. Qed.
Lemma isort_In {A} (leb : A -> A -> bool) x l : In x (isort leb l) <-> In x l.
Proof. split; intros H.
  - apply isort_incl in H; auto.
  - eapply Permutation_in; [apply isort_perm|auto]. Qed.

(* ====================================================================== *)
(* assoc                                                                   *)
(* ====================================================================== *)
Lemma assoc_map_key {A B} (d : B) (key : A -> string) (val : A -> B) l x :
  NoDup (map key l) -> In x l -> assoc d (map (fun u => (key u, val u)) l) (key x) = val x.
Proof. induction l as [|a l IH]; simpl; [tauto|]. intros H Hx. inversion H; subst.
  destruct (String.eqb_spec (key x) (key a)) as [E|E].
  - destruct Hx as [<-|Hx]; auto. exfalso. apply H2. rewrite <- E. apply in_map; auto.
  - destruct Hx as [<-|Hx]; [congruence|]. auto. Qed.
Lemma assoc_map_notin {A B} (d : B) (key : A -> string) (val : A -> B) l k :
  ~ In k (map key l) -> assoc d (map (fun u => (key u, val u)) l) k = d.
Proof. intros H. apply assoc_notin. rewrite map_map. simpl. auto. Qed.
Lemma find_key {A} (key : A -> string) l x :
  NoDup (map key l) -> In x l -> find (fun y => String.eqb (key y) (key x)) l = Some x.
Proof. induction l as [|a l IH]; simpl; [tauto|]. intros H Hx. inversion H; subst.
  destruct (String.eqb_spec (key a) (key x)) as [E|E].
  - destruct Hx as [<-|Hx]; auto. exfalso. apply H2. rewrite E. apply in_map; auto.
  - destruct Hx as [<-|Hx]; [congruence|]. auto. Qed.

(* ====================================================================== *)
(* case-insensitive registries                                             *)
(* ====================================================================== *)
Lemma ic_eqb_iff a b : ic_eqb a b = true <-> lower a = lower b.
Proof. unfold ic_eqb. apply String.eqb_eq. Qed.
Lemma ic_eqb_refl a : ic_eqb a a = true.
Proof. apply ic_eqb_iff; auto. Qed.
Lemma ic_eqb_sym a b : ic_eqb a b = ic_eqb b a.
Proof. unfold ic_eqb. apply String.eqb_sym. Qed.
Lemma ic_eqb_false a b : ic_eqb a b = false <-> lower a <> lower b.
Proof. unfold ic_eqb. apply String.eqb_neq. Qed.
Lemma ic_eqb_lower_l a b x : lower a = lower b -> ic_eqb a x = ic_eqb b x.
Proof. unfold ic_eqb. intros ->; auto. Qed.
Lemma ic_eqb_lower_r a b x : lower a = lower b -> ic_eqb x a = ic_eqb x b.
Proof. unfold ic_eqb. intros ->; auto. Qed.

Lemma mem_ic_true x l : mem_ic x l = true <-> exists y, In y l /\ lower x = lower y.
Proof. unfold mem_ic. rewrite existsb_exists. split; intros [y [H1 H2]]; exists y; split; auto;
  apply ic_eqb_iff; auto. Qed.
Lemma mem_ic_false x l : mem_ic x l = false <-> forall y, In y l -> lower x <> lower y.
Proof. unfold mem_ic. rewrite existsb_false_iff. split; intros H y Hy; apply ic_eqb_false; auto. Qed.
Lemma mem_ic_lower x y l : lower x = lower y -> mem_ic x l = mem_ic y l.
Proof. intros H. unfold mem_ic. induction l as [|a l IH]; simpl; auto.
  rewrite (ic_eqb_lower_l x y a H), IH. auto. Qed.
Lemma mem_ic_app x a b : mem_ic x (a ++ b) = mem_ic x a || mem_ic x b.
Proof. apply existsb_app. Qed.
Lemma mem_ic_lowers x l : mem_ic x l = true <-> In (lower x) (map lower l).
Proof. rewrite mem_ic_true, in_map_iff. split; intros [y [H1 H2]]; exists y; auto. Qed.

Lemma ic_find_some x l s : ic_find x l = Some s -> In s l /\ lower x = lower s.
Proof. induction l as [|y t IH]; simpl; [discriminate|].
  destruct (ic_eqb x y) eqn:E.
  - intros [= <-]. split; auto. apply ic_eqb_iff; auto.
  - intros H. destruct (IH H). auto. Qed.
Lemma ic_find_none x l : ic_find x l = None <-> mem_ic x l = false.
Proof. unfold mem_ic. induction l as [|y t IH]; simpl; [tauto|].
  destruct (ic_eqb x y); simpl; [split; discriminate|auto]. Qed.
Lemma ic_find_lower x y l : lower x = lower y -> ic_find x l = ic_find y l.
Proof. intros H. induction l as [|a l IH]; simpl; auto.
  rewrite (ic_eqb_lower_l x y a H), IH. auto. Qed.
Lemma ic_find_app_some x a b s : ic_find x a = Some s -> ic_find x (a ++ b) = Some s.
Proof. induction a as [|y t IH]; simpl; [discriminate|]. destruct (ic_eqb x y); auto. Qed.
Lemma ic_find_app_none x a b : ic_find x a = None -> ic_find x (a ++ b) = ic_find x b.
Proof. induction a as [|y t IH]; simpl; auto. destruct (ic_eqb x y); [discriminate|auto]. Qed.
Lemma ic_find_mem x l : mem_ic x l = true -> exists s, ic_find x l = Some s.
Proof. intros H. destruct (ic_find x l) eqn:E; eauto. apply ic_find_none in E. congruence. Qed.
(* in a registry without case-insensitive duplicates every member finds itself *)
Lemma ic_find_self x l : NoDup (map lower l) -> In x l -> ic_find x l = Some x.
Proof. induction l as [|a l IH]; simpl; [tauto|]. intros H Hx. inversion H; subst.
  destruct (ic_eqb x a) eqn:E.
  - apply ic_eqb_iff in E. destruct Hx as [->|Hx]; auto. exfalso. apply H2. rewrite <- E. apply in_map; auto.
  - destruct Hx as [->|Hx]; [rewrite ic_eqb_refl in E; discriminate|auto]. Qed.

Lemma nodupb_ic l : nodupb ic_eqb l = true <-> NoDup (map lower l).
Proof. induction l as [|a l IH]; simpl; [split; auto; constructor|].
  rewrite andb_true_iff, negb_true_iff, IH. fold (mem_ic a l). split.
  - intros [H1 H2]. constructor; auto. rewrite <- mem_ic_lowers. congruence.
  - intros H. inversion H; subst. split; auto. rewrite <- mem_ic_lowers in H2.
    destruct (mem_ic a l); congruence. Qed.

Lemma dedup_ic_In x l : In x (dedup_by ic_eqb l) -> In x l.
Proof. induction l as [|a l IH]; simpl; [tauto|]. intros [H|H]; auto.
  apply filter_In in H. right. apply IH. tauto. Qed.
Lemma dedup_ic_id l : NoDup (map lower l) -> dedup_by ic_eqb l = l.
Proof. induction l as [|a l IH]; simpl; auto. intros H. inversion H; subst. rewrite IH; auto. f_equal.
  rewrite (filter_ext_in' _ (fun _ => true)).
  - clear. induction l; simpl; congruence.
  - intros x Hx. destruct (ic_eqb a x) eqn:E; auto. apply ic_eqb_iff in E. exfalso. apply H2.
    rewrite E. apply in_map; auto. Qed.

(* the registry as built incrementally: a new spelling is appended unless already known ignoring case *)
Definition reg_add (reg : list string) (c : string) : list string := if mem_ic c reg then reg else reg ++ [c].
Lemma reg_add_fold_prefix cs : forall reg, exists ext, fold_left reg_add cs reg = reg ++ ext.
Proof. induction cs as [|c t IH]; intros reg; simpl.
  - exists []. rewrite app_nil_r; auto.
  - unfold reg_add at 2. destruct (mem_ic c reg); auto.
    destruct (IH (reg ++ [c])) as [ext E]. exists ([c] ++ ext). rewrite E, <- app_assoc; auto. Qed.
Lemma reg_add_fold_dedup cs : forall reg,
  fold_left reg_add cs reg = reg ++ filter (fun y => negb (mem_ic y reg)) (dedup_by ic_eqb cs).
Proof. induction cs as [|c t IH]; intros reg; simpl.
  - rewrite app_nil_r; auto.
  - unfold reg_add at 2. destruct (mem_ic c reg) eqn:E; simpl.
    + rewrite IH. f_equal. rewrite filter_filter. apply filter_ext_in'. intros x _.
      destruct (ic_eqb c x) eqn:E2; simpl; auto.
      apply ic_eqb_iff in E2. rewrite <- (mem_ic_lower c x reg E2), E. auto.
    + rewrite IH, <- app_assoc. simpl. f_equal. f_equal. rewrite filter_filter. apply filter_ext_in'.
      intros x _. rewrite mem_ic_app. unfold mem_ic at 2. simpl. rewrite orb_false_r, negb_orb.
      rewrite (ic_eqb_sym x c). apply andb_comm. Qed.
Lemma reg_add_fold_nil cs : fold_left reg_add cs [] = dedup_by ic_eqb cs.
Proof. rewrite reg_add_fold_dedup. simpl. clear. induction (dedup_by ic_eqb cs); simpl; congruence. Qed.
Lemma reg_add_fold_app a b reg : fold_left reg_add (a ++ b) reg = fold_left reg_add b (fold_left reg_add a reg).
Proof. apply fold_left_app. Qed.
Lemma reg_add_nodup reg c : NoDup (map lower reg) -> NoDup (map lower (reg_add reg c)).
Proof. unfold reg_add. destruct (mem_ic c reg) eqn:E; auto. intros H. rewrite map_app. simpl.
  apply NoDup_snoc; auto. rewrite <- mem_ic_lowers. congruence. Qed.
Lemma reg_add_fold_nodup cs : forall reg, NoDup (map lower reg) -> NoDup (map lower (fold_left reg_add cs reg)).
Proof. induction cs; simpl; auto. intros. apply IHcs. apply reg_add_nodup; auto. Qed.
Lemma dedup_ic_nodup l : NoDup (map lower (dedup_by ic_eqb l)).
Proof. rewrite <- reg_add_fold_nil. apply reg_add_fold_nodup. constructor. Qed.
Lemma reg_add_mem reg c : mem_ic c (reg_add reg c) = true.
Proof. unfold reg_add. destruct (mem_ic c reg) eqn:E; auto. rewrite mem_ic_app. unfold mem_ic at 2. simpl.
  rewrite ic_eqb_refl. apply orb_true_r. Qed.
Lemma reg_add_fold_mem cs : forall reg x, mem_ic x reg = true \/ In x cs -> mem_ic x (fold_left reg_add cs reg) = true.
Proof. induction cs as [|c t IH]; simpl; intros reg x.
  - intros [H|[]]; auto.
  - intros [H|[<-|H]]; apply IH; auto.
    + left. unfold reg_add. destruct (mem_ic c reg); auto. rewrite mem_ic_app, H; auto.
    + left. apply reg_add_mem. Qed.
Lemma reg_add_fold_in cs : forall reg x, In x (fold_left reg_add cs reg) -> In x reg \/ In x cs.
Proof. induction cs as [|c t IH]; simpl; intros reg x H; auto.
  apply IH in H. destruct H as [H|H]; auto. unfold reg_add in H. destruct (mem_ic c reg); auto.
  apply in_app_iff in H. destruct H as [H|[<-|[]]]; auto. Qed.
