(* Readings_proof.v -- the three lemmas closing props/Readings.v.
   C02_reading_lemma : Readings_c02.v   (stated with the textual copies `performs`, `performed_before`,
                                         `outstanding` of Readings_defs.v: convertible with the props' own)
   C03_reading_lemma : Readings_c03.v
   wf_procb_locks_reading_lemma : Readings_locks.v.  `croute` is an Inductive declared in the props file
     itself, hence a fresh inductive that no copy made here can be convertible with; the lemma is therefore
     stated for ANY predicate `cr` having the inversion principle of `croute` (class CrLike, implicit), and
     `exact wf_procb_locks_reading_lemma` instantiates cr := croute by unification and finds the instance by
     the Hint Extern of Readings_defs.v (which proves the inversion principle with `inversion`). *)
From PS Require Import Base Bag RegAccess Sim Diag Readings_defs Readings_locks.
From PS Require Export Readings_c02 Readings_c03.

Lemma wf_procb_locks_reading_lemma {cr : proc -> string -> list string -> Prop} {Hcr : CrLike cr} :
  forall P, wf_procb P = true ->
    forall p c l, In p (p_in P ++ p_inout P) -> In c (u_caps p) ->
      cr P c (u_name p :: l) -> maximal P c (u_name p :: l) ->
      exists l1 r l2,
        u_name p :: l = l1 ++ r :: l2 /\ has_rl P r = true /\
        (forall x, In x (l1 ++ l2) -> has_rl P x = false) /\
        (forall x, In x l1 -> has_wl P x = false) /\
        length (filter (has_wl P) (r :: l2)) = 1.
Proof. exact (locks_reading_gen cr Hcr). Qed.

(* the same statement for the copy of the inductive in Readings_defs.v (no implicit machinery) *)
Lemma wf_procb_locks_reading_croute :
  forall P, wf_procb P = true ->
    forall p c l, In p (p_in P ++ p_inout P) -> In c (u_caps p) ->
      croute P c (u_name p :: l) -> maximal P c (u_name p :: l) ->
      exists l1 r l2,
        u_name p :: l = l1 ++ r :: l2 /\ has_rl P r = true /\
        (forall x, In x (l1 ++ l2) -> has_rl P x = false) /\
        (forall x, In x l1 -> has_wl P x = false) /\
        length (filter (has_wl P) (r :: l2)) = 1.
Proof. exact (locks_reading_gen croute CrLike_croute). Qed.
