(* Exact6_c10.v -- the judge of implementation objects for C10 (spec/C10Exact.v) is EXACTLY the Prop-level
   statement C10_prop (spec/Exact6_defs.v), for an arbitrary processor object P and an ARBITRARY description d
   (no side condition on d is needed in either direction: the tables of `mk_ctx d` are read off the
   description alone in Exact6_c10_tables.v). *)
From Coq Require Import Lia Permutation ZArith.
From PS Require Import Base Str Sim Graph Loader Diag LoaderSpec LoaderReadings C12Exact C10Exact Exact6_defs
  Lists Graph_facts LD_base Exact6_c10_tables.

(* ====================================================================== *)
(* boolean comparisons as statements                                       *)
(* ====================================================================== *)
Lemma same_set_iff a b : same_set a b = true <-> forall x, In x a <-> In x b.
Proof. unfold same_set. rewrite list_eqb_str_eq. split.
  - intros H x. rewrite <- (dedup_by_In x a), <- (dedup_by_In x b).
    rewrite <- (sort_str_In x (dedup_by String.eqb a)), <- (sort_str_In x (dedup_by String.eqb b)), H. tauto.
  - intros H. apply sort_str_set_eq; try apply dedup_by_NoDup. intros x. rewrite !dedup_by_In. auto. Qed.
Lemma same_members_iff a b : same_members a b = true <-> forall x, In x a <-> In x b.
Proof. unfold same_members. rewrite andb_true_iff, !forallb_forall. split.
  - intros [H1 H2] x. split; intros H; [apply H1 in H|apply H2 in H]; apply mem_str_In in H; auto.
  - intros H. split; intros x Hx; apply mem_str_In, H; auto. Qed.
Lemma nonempty_iff {A} (l : list A) : match l with [] => false | _ => true end = true <-> l <> [].
Proof. destruct l; split; congruence. Qed.
Lemma empty_iff {A} (l : list A) : match l with [] => true | _ => false end = true <-> forall x, ~ In x l.
Proof. destruct l as [|a l]; split; auto; try discriminate.
  intros H. exfalso. apply (H a). left; auto. Qed.
Lemma d_unit_name d n x : d_unit d n = Some x -> d_name x = n.
Proof. unfold d_unit. intros H. apply find_some in H. destruct H as [_ H]. apply String.eqb_eq; auto. Qed.

Section Judge.
  Variables (d : desc) (P : proc).
  Local Notation r := (resolve d).
  Local Notation cx := (mk_ctx d).

  (* ---------- the conjuncts of the judge, one by one ---------- *)
  Lemma c10j_names : same_set (unit_names P) (kept cx) = true <-> forall u, In u (unit_names P) <-> reaches_out r u.
  Proof. rewrite same_set_iff. split; intros H u; rewrite H; [apply c10x_kept|symmetry; apply c10x_kept]. Qed.

  Lemma c10j_unit (x : unit) :
    match d_unit d (u_name x) with Some ud => unit_same x (expected_unit cx ud) | None => false end = true <->
    (forall c, In c (u_caps x) <-> feeds r c (u_name x)) /\
    (exists ud, d_unit d (u_name x) = Some ud /\ u_width x = Z.to_nat (d_width ud) /\
                u_rl x = d_rl ud /\ u_wl x = d_wl ud /\
                (forall c, In c (u_mem x) <-> In c (map (std (r_creg r)) (d_mem ud)))).
  Proof. destruct (d_unit d (u_name x)) as [ud|] eqn:E.
    2:{ split; [discriminate|]. intros [_ [ud [H _]]]. discriminate. }
    pose proof (d_unit_name d (u_name x) ud E) as En.
    unfold unit_same, expected_unit. cbn [u_name u_width u_caps u_rl u_wl u_mem].
    rewrite !andb_true_iff, String.eqb_eq, Nat.eqb_eq, !Bool.eqb_true_iff, !same_members_iff.
    change (c_r cx) with r. rewrite En. split.
    - intros [[[[[_ H2] H3] H4] H5] H6]. split.
      + intros c. rewrite H3, sort_str_In. apply c10x_Fc.
      + exists ud. split; auto. split; auto. split; auto. split; auto.
        intros c. rewrite H6, sort_str_In. tauto.
    - intros [H3 [ud' [E' [H2 [H4 [H5 H6]]]]]]. injection E' as <-.
      split; [split; [split; [split; [split|]|]|]|]; auto.
      + intros c. rewrite H3, sort_str_In. symmetry. apply c10x_Fc.
      + intros c. rewrite H6, sort_str_In. tauto. Qed.

  Lemma c10j_preds (f : funit) : (forall u, In u (unit_names P) <-> In u (kept cx)) ->
    (same_set (f_preds f) (kept_preds cx (u_name (f_model f))) = true <->
     forall p, In p (f_preds f) <-> In p (unit_names P) /\ usable_conn r p (u_name (f_model f))).
  Proof. intros K. rewrite same_set_iff. split; intros H p; rewrite H, c10x_kept_preds, K; tauto. Qed.

  Lemma c10j_inputs (u : unit) : (forall u, In u (unit_names P) <-> In u (kept cx)) ->
    (match kept_preds cx (u_name u) with [] => true | _ => false end = true <->
     forall p, ~ (In p (unit_names P) /\ usable_conn r p (u_name u))).
  Proof. intros K. rewrite empty_iff. split; intros H p; specialize (H p);
    rewrite c10x_kept_preds in *; rewrite K in *; auto. Qed.

  (* ---------- both directions ---------- *)
  Lemma C10_judge_sound : C10_judgeb d P = true -> C10_prop d P.
  Proof. unfold C10_judgeb, C10_prop. cbv zeta. change (c_r cx) with r.
    rewrite !andb_true_iff, !forallb_forall.
    intros [[[[[[H1 H2] H3] H4] H5] H6] H7].
    assert (K : forall u, In u (unit_names P) <-> In u (kept cx)) by (apply same_set_iff; auto).
    split; [apply nodupb_str; auto|].
    split; [apply c10j_names; auto|].
    split; [intros x Hx; apply c10j_unit; auto|].
    split; [intros f p Hf; specialize (H4 f Hf); apply andb_true_iff in H4; apply (c10j_preds f K); tauto|].
    split; [intros f Hf; specialize (H4 f Hf); apply andb_true_iff in H4; apply nonempty_iff; tauto|].
    split; [intros u p Hu; apply (c10j_inputs u K); auto|].
    split.
    - intros n Hn. unfold in_names in Hn. apply in_map_iff in Hn. destruct Hn as [u [<- Hu]].
      apply mem_str_In. auto.
    - intros n Hn. apply mem_str_In. auto. Qed.

  Lemma C10_judge_complete : C10_prop d P -> C10_judgeb d P = true.
  Proof. unfold C10_judgeb, C10_prop. cbv zeta. change (c_r cx) with r.
    rewrite !andb_true_iff, !forallb_forall.
    intros [P1 [P2 [P3 [P4 [P5 [P6 [P7 P8]]]]]]].
    assert (H1 : same_set (unit_names P) (kept cx) = true) by (apply c10j_names; auto).
    assert (K : forall u, In u (unit_names P) <-> In u (kept cx)) by (apply same_set_iff; auto).
    repeat split; auto.
    - apply nodupb_str; auto.
    - intros x Hx. apply c10j_unit. auto.
    - intros f Hf. apply andb_true_iff. split.
      + apply (c10j_preds f K). intros p. apply P4; auto.
      + apply nonempty_iff. auto.
    - intros u Hu. apply (c10j_inputs u K). intros p. apply P6; auto.
    - intros u Hu. apply mem_str_In. apply P7. unfold in_names. apply in_map; auto.
    - intros n Hn. apply mem_str_In. auto. Qed.
End Judge.

(* no side condition on the description is needed *)
Lemma C10_judge_exact_lemma : forall d P, C10_judgeb d P = true <-> C10_prop d P.
Proof. intros d P. split; [apply C10_judge_sound|apply C10_judge_complete]. Qed.

(* the form asked for, with the (unused) side condition, for callers that carry it *)
Corollary C10_judge_exact_accepted :
  forall d P, syntactic_defect d = false -> (C10_judgeb d P = true <-> C10_prop d P).
Proof. intros d P _. apply C10_judge_exact_lemma. Qed.

Print Assumptions C10_judge_sound.
Print Assumptions C10_judge_complete.
Print Assumptions C10_judge_exact_lemma.
