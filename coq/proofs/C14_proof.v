(* C14_proof.v -- program text parses to the written instructions; syntax errors are located. *)
From Coq Require Import Lia.
From PS Require Import Base Str Program TextSpec C14_strings C14_parse.
Open Scope string_scope.

(* ---------- registry look-ups ---------- *)
Fixpoint lookups (ops : list string) (reg : list string) : list string * list string :=
  match ops with
  | [] => ([], reg)
  | o :: t =>
      let '(s, reg') := reg_lookup reg o in
      let '(l, reg'') := lookups t reg' in (s :: l, reg'')
  end.

Lemma get_operands_lookups ops : Forall (fun o => o <> "") ops ->
  forall k n mn reg, get_operands ops k n mn reg = inl (lookups ops reg).
Proof. induction ops as [|o t IH]; intros H k n mn reg; [reflexivity|].
  inversion H as [|? ? Ho Ht]; subst. destruct o as [|c o']; [congruence|].
  cbn [get_operands lookups]. destruct (reg_lookup reg (String c o')) as [s reg'].
  rewrite (IH Ht). destruct (lookups t reg') as [l reg'']. reflexivity. Qed.

Lemma fold_lookups ops : forall acc reg,
  fold_left (fun '(acc, reg) o => let '(s, reg') := reg_lookup reg o in ((acc ++ [s])%list, reg')) ops (acc, reg)
  = ((acc ++ fst (lookups ops reg))%list, snd (lookups ops reg)).
Proof. induction ops as [|o t IH]; intros acc reg; cbn [fold_left lookups fst snd].
  - rewrite app_nil_r. reflexivity.
  - destruct (reg_lookup reg o) as [s reg']. rewrite IH. destruct (lookups t reg') as [l reg''].
    cbn [fst snd]. rewrite <- app_assoc. reflexivity. Qed.

Lemma lookups_cons o t reg : exists s l reg', lookups (o :: t) reg = (s :: l, reg').
Proof. cbn [lookups]. destruct (reg_lookup reg o) as [s reg']. destruct (lookups t reg') as [l reg''].
  eauto. Qed.

(* ---------- strip invariance ---------- *)
Lemma read_lines_strip lines lines' : Forall2 (fun a b => strip a = strip b) lines lines' ->
  forall n reg, read_lines lines n reg = read_lines lines' n reg.
Proof. induction 1 as [|a b l l' Hab Hl IH]; intros n reg; [reflexivity|].
  cbn [read_lines]. rewrite Hab. destruct (strip b) as [|c t].
  - apply IH.
  - destruct (create_instr n (String c t) reg) as [[pi reg']|e]; [|reflexivity]. rewrite IH. reflexivity. Qed.

Lemma C14_strip_invariant_lemma :
  forall lines lines', Forall2 (fun a b => strip a = strip b) lines lines' ->
    read_program lines = read_program lines'.
Proof. intros lines lines' H. unfold read_program. apply read_lines_strip; auto. Qed.

(* ---------- one step of read_lines ---------- *)
Lemma read_lines_blank l t n reg : strip l = "" -> read_lines (l :: t) n reg = read_lines t (S n) reg.
Proof. intros H. cbn [read_lines]. rewrite H. reflexivity. Qed.
Lemma read_lines_instr l t n reg : strip l <> "" ->
  read_lines (l :: t) n reg =
  match create_instr n (strip l) reg with
  | inr e => ProgErr e
  | inl (pi, reg') => match read_lines t (S n) reg' with ProgOk p => ProgOk (pi :: p) | ProgErr e => ProgErr e end
  end.
Proof. intros H. cbn [read_lines]. destruct (strip l) as [|c s]; [congruence|reflexivity]. Qed.

(* a well-formed instruction line yields its instruction and the extended registry *)
Lemma read_lines_ok_instr lead mn sep op0 rest trail t n reg :
  rline_ok (RInstr lead mn sep op0 rest trail) = true ->
  exists pi reg',
    (read_lines (render_line (RInstr lead mn sep op0 rest trail) :: t) n reg
     = match read_lines t (S n) reg' with ProgOk p => ProgOk (pi :: p) | ProgErr e => ProgErr e end)
    /\ forall t', expected_from (RInstr lead mn sep op0 rest trail :: t') n reg = pi :: expected_from t' (S n) reg'.
Proof. intros Hok.
  destruct (create_instr_shape _ _ _ _ _ _ (rline_ok_shape _ _ _ _ _ _ Hok)) as [Hne Hci].
  pose proof (rline_ok_nonempty_ops _ _ _ _ _ _ Hok) as Hops.
  destruct (lookups_cons op0 (map snd rest) reg) as [s [l [reg' El]]].
  exists {| pi_srcs := sorted_uniq l; pi_dst := s; pi_name := mn; pi_line := n |}, reg'. split.
  - rewrite read_lines_instr by auto. rewrite Hci. rewrite get_operands_lookups by auto. rewrite El.
    cbn [instr_of]. reflexivity.
  - intros t'. cbn [expected_from].
    change (map (fun x : string * string * string => snd x) rest) with (map snd rest).
    change (op0 :: map snd rest) with (op0 :: map (@snd (string * string) string) rest).
    rewrite (fold_lookups (op0 :: map snd rest) [] reg). rewrite El. cbn [fst snd app hd tl]. reflexivity. Qed.

Lemma strip_blank ws : rline_ok (RBlank ws) = true -> strip (render_line (RBlank ws)) = "".
Proof. cbn [rline_ok render_line]. intros H. apply all_ws_true in H. apply strip_ws; auto. Qed.

(* ---------- round trip ---------- *)
Lemma read_lines_roundtrip ls : forallb rline_ok ls = true ->
  forall n reg, read_lines (map render_line ls) n reg = ProgOk (expected_from ls n reg).
Proof. induction ls as [|l t IH]; intros H n reg; [reflexivity|].
  cbn [forallb] in H. apply andb_true_iff in H. destruct H as [Hl Ht]. cbn [map].
  destruct l as [ws|lead mn sep op0 rest trail].
  - rewrite read_lines_blank by (apply strip_blank; auto). cbn [expected_from]. apply IH; auto.
  - destruct (read_lines_ok_instr lead mn sep op0 rest trail (map render_line t) n reg Hl) as [pi [reg' [H1 H2]]].
    rewrite H1, H2, IH by auto. reflexivity. Qed.

Lemma C14_roundtrip_lemma :
  forall ls : list rline,
    forallb rline_ok ls = true ->
    read_program (map render_line ls) = ProgOk (expected_program ls).
Proof. intros ls H. unfold read_program, expected_program. apply read_lines_roundtrip; auto. Qed.

(* ---------- errors after a well-formed prefix ---------- *)
Lemma read_lines_prefix_err pre l post txt (e : nat -> code_err) :
  forallb rline_ok pre = true -> strip l = txt -> txt <> "" ->
  (forall m reg, create_instr m txt reg = inr (e m)) ->
  forall n reg, read_lines (map render_line pre ++ l :: post) n reg = ProgErr (e (length pre + n)).
Proof. intros Hpre Hl Hne He. induction pre as [|p pre IH]; intros n reg.
  - cbn [map app length plus]. rewrite read_lines_instr by (rewrite Hl; auto). rewrite Hl, He. reflexivity.
  - cbn [forallb] in Hpre. apply andb_true_iff in Hpre. destruct Hpre as [Hp Hpre].
    cbn [map app length]. replace (S (length pre) + n) with (length pre + S n) by lia.
    destruct p as [ws|lead mn sep op0 rest trail].
    + rewrite read_lines_blank by (apply strip_blank; auto). apply IH; auto.
    + destruct (read_lines_ok_instr lead mn sep op0 rest trail (map render_line pre ++ l :: post) n reg Hp)
        as [pi [reg' [H1 _]]].
      rewrite H1, IH by auto. reflexivity. Qed.

Lemma C14_no_operands_lemma :
  forall (pre : list rline) lead mn trail post,
    forallb rline_ok pre = true -> all_ws lead = true -> tokenb mn = true -> all_ws trail = true ->
    read_program (map render_line pre ++ (lead ++ mn ++ trail)%string :: post)
    = ProgErr (NoOperands (S (length pre)) mn).
Proof. intros pre lead mn trail post Hpre Hlead Hmn Htr. unfold read_program.
  apply all_ws_true in Hlead. apply all_ws_true in Htr.
  rewrite (read_lines_prefix_err pre _ post mn (fun m => NoOperands m mn)); auto.
  - f_equal. f_equal. lia.
  - apply strip_pad; auto. apply token_strip; auto.
  - apply tokenb_inv in Hmn. tauto.
  - intros m reg. unfold create_instr. rewrite split_ws1_nows; [reflexivity|]. apply tokenb_inv in Hmn. tauto. Qed.

Lemma get_operands_first_empty ops : forall k k' n mn reg,
  first_empty ops k = Some k' -> get_operands ops k n mn reg = inr (EmptyOperand k' n mn).
Proof. induction ops as [|o t IH]; intros k k' n mn reg H; [discriminate|].
  cbn [first_empty] in H. destruct o as [|c o'].
  - cbn in H. inversion H; subst. reflexivity.
  - cbn [String.eqb] in H. cbn [get_operands]. destruct (reg_lookup reg (String c o')) as [s reg'].
    rewrite (IH _ _ _ _ _ H). reflexivity. Qed.

Lemma C14_empty_operand_lemma :
  forall (pre : list rline) lead mn sep op0 rest trail post k,
    forallb rline_ok pre = true ->
    rline_shape_ok (RInstr lead mn sep op0 rest trail) = true ->
    first_empty (op0 :: map snd rest) 1 = Some k ->
    read_program (map render_line pre ++ render_line (RInstr lead mn sep op0 rest trail) :: post)
    = ProgErr (EmptyOperand k (S (length pre)) mn).
Proof. intros pre lead mn sep op0 rest trail post k Hpre Hshape Hfe. unfold read_program.
  destruct (create_instr_shape _ _ _ _ _ _ Hshape) as [Hne Hci].
  rewrite (read_lines_prefix_err pre _ post _ (fun m => EmptyOperand k m mn) Hpre eq_refl Hne).
  - f_equal. f_equal. lia.
  - intros m reg. rewrite Hci. rewrite (get_operands_first_empty _ _ _ _ _ _ Hfe). reflexivity. Qed.
