(* Flow_refine_graph.v -- further generic facts on model/Graph.v used by the flow refinement proof. *)
From Coq Require Import Lia Permutation.
From PS Require Import Base Graph Lists Graph_facts.

(* ---------- equational forms for add_edge ---------- *)
Lemma add_edge_nodes_eq g a b : In a (g_nodes g) -> In b (g_nodes g) -> g_nodes (add_edge g a b) = g_nodes g.
Proof. intros Ha Hb. unfold add_edge. rewrite (add_node_id g a Ha), (add_node_id g b Hb).
  destruct (mem_str b (succs g a)); reflexivity. Qed.
Lemma add_edge_succs_other g a b x : x <> a -> succs (add_edge g a b) x = succs g x.
Proof. intros Hn. unfold add_edge. destruct (mem_str b (succs (add_node (add_node g a) b) a)).
  - rewrite !add_node_succs. reflexivity.
  - unfold succs at 1. simpl. rewrite assoc_set. destruct (String.eqb_spec x a); [congruence|].
    fold (succs (add_node (add_node g a) b) x). rewrite !add_node_succs. reflexivity. Qed.
Lemma add_edge_succs_same g a b :
  succs (add_edge g a b) a = if mem_str b (succs g a) then succs g a else succs g a ++ [b].
Proof. unfold add_edge. rewrite !add_node_succs.
  destruct (mem_str b (succs g a)).
  - rewrite !add_node_succs. reflexivity.
  - unfold succs at 1. simpl. rewrite assoc_set, String.eqb_refl. rewrite ?add_node_succs. reflexivity. Qed.
Lemma add_edge_preds_other g a b x : x <> b -> preds (add_edge g a b) x = preds g x.
Proof. intros Hn. unfold add_edge. destruct (mem_str b (succs (add_node (add_node g a) b) a)).
  - rewrite !add_node_preds. reflexivity.
  - unfold preds at 1. simpl. rewrite assoc_set. destruct (String.eqb_spec x b); [congruence|].
    fold (preds (add_node (add_node g a) b) x). rewrite !add_node_preds. reflexivity. Qed.

(* ---------- adding a list of edges ---------- *)
Definition add_edges (h : graph) (es : list (string * string)) : graph :=
  fold_left (fun h e => add_edge h (fst e) (snd e)) es h.
Lemma gwf_add_edges es : forall h, gwf h -> gwf (add_edges h es).
Proof. unfold add_edges. induction es as [|e es IH]; intros h H; simpl; auto. apply IH, gwf_add_edge; auto. Qed.
Lemma add_edges_succs es : forall h x y,
  In y (succs (add_edges h es) x) <-> In y (succs h x) \/ In (x, y) es.
Proof. unfold add_edges. induction es as [|[a b] es IH]; intros h x y; simpl; [tauto|].
  rewrite IH, add_edge_succs. simpl.
  split; [intros [[H|[-> ->]]|H]|intros [H|[H|H]]]; auto.
  inversion H; subst; auto. Qed.
Lemma add_edges_nodes es : forall h x,
  In x (g_nodes (add_edges h es)) <-> In x (g_nodes h) \/ exists e, In e es /\ (x = fst e \/ x = snd e).
Proof. unfold add_edges. induction es as [|[a b] es IH]; intros h x; simpl.
  - split; auto. intros [H|[e [[] _]]]; auto.
  - rewrite IH, add_edge_nodes. simpl. split.
    + intros [[H|H]|[e [H1 H2]]]; auto.
      * right. exists (a, b). auto.
      * right. exists e. auto.
    + intros [H|[e [[<-|H1] H2]]]; auto. right. exists e. auto. Qed.
Lemma add_edges_nodes_eq es : forall h,
  (forall e, In e es -> In (fst e) (g_nodes h) /\ In (snd e) (g_nodes h)) -> g_nodes (add_edges h es) = g_nodes h.
Proof. unfold add_edges. induction es as [|[a b] es IH]; intros h H; simpl; auto.
  destruct (H (a, b)) as [Ha Hb]; [left; auto|]. simpl in *.
  rewrite IH; [apply add_edge_nodes_eq; auto|].
  intros e He. rewrite add_edge_nodes_eq; auto. Qed.

Lemma add_nodes_nodes ns : forall h x, In x (g_nodes (fold_left add_node ns h)) <-> In x (g_nodes h) \/ In x ns.
Proof. induction ns as [|n ns IH]; intros h x; simpl; [tauto|]. rewrite IH, add_node_nodes. intuition. Qed.
Lemma add_nodes_succs ns : forall h x, succs (fold_left add_node ns h) x = succs h x.
Proof. induction ns as [|n ns IH]; intros h x; simpl; auto. rewrite IH. apply add_node_succs. Qed.
Lemma gwf_add_nodes ns : forall h, gwf h -> gwf (fold_left add_node ns h).
Proof. induction ns as [|n ns IH]; intros h H; simpl; auto. apply IH, gwf_add_node; auto. Qed.

Lemma edges_In g x y : gwf g -> (In (x, y) (edges g) <-> In y (succs g x)).
Proof. intros H. unfold edges. rewrite in_flat_map. split.
  - intros [n [Hn Hm]]. apply in_map_iff in Hm. destruct Hm as [s [Hs1 Hs2]]. inversion Hs1; subst; auto.
  - intros Hs. exists x. split; [apply (gwf_in g H) in Hs; tauto|]. apply in_map_iff. exists y. auto. Qed.

(* ---------- degrees ---------- *)
Lemma length_zero_nil {A} (l : list A) : length l = 0 <-> l = [].
Proof. destruct l; simpl; split; auto; discriminate. Qed.
Lemma nil_no_In {A} (l : list A) : (forall x, ~ In x l) -> l = [].
Proof. destruct l; auto. intros H. exfalso. apply (H a). left; auto. Qed.
Lemma length_one {A} (l : list A) : length l = 1 -> exists x, l = [x].
Proof. destruct l as [|x [|y l]]; simpl; try discriminate. eauto. Qed.

(* ---------- rpath ---------- *)
Lemma rpath_incl adj adj' a b : (forall x y, In y (adj x) -> In y (adj' x)) -> rpath adj a b -> rpath adj' a b.
Proof. intros H. induction 1; [apply rp_refl|]. eapply rp_step; eauto. Qed.
Lemma rpath_ext adj adj' a b : (forall x y, In y (adj x) <-> In y (adj' x)) -> (rpath adj a b <-> rpath adj' a b).
Proof. intros H. split; apply rpath_incl; intros x y; apply H. Qed.
Lemma rpath_stuck adj s t : adj s = [] -> rpath adj s t -> t = s.
Proof. intros H Hr. induction Hr as [|x y z Hr IH Hz]; auto. rewrite (IH H), H in Hz. destruct Hz. Qed.
Lemma rpath_step_l adj x y z : In y (adj x) -> rpath adj y z -> rpath adj x z.
Proof. intros H1 H2. eapply rpath_trans; [|eauto]. eapply rp_step; [apply rp_refl|auto]. Qed.

(* ---------- every node of a finite acyclic graph reaches a node without successors ---------- *)
Lemma chain_in_nodes g : gwf g -> forall l x, In x (g_nodes g) -> chain g (x :: l) -> incl (x :: l) (g_nodes g).
Proof. intros H. induction l as [|b l IH]; intros x Hx Hc y [<-|Hy]; auto; [destruct Hy|].
  destruct Hc as [Hc1 Hc2]. apply (IH b); auto. apply (gwf_in g H) in Hc1. tauto. Qed.
Lemma sink_or_chain g : forall k x,
  (exists y, rpath (succs g) x y /\ succs g y = []) \/ (exists l, length l = k /\ chain g (x :: l)).
Proof. induction k as [|k IH]; intros x.
  - right. exists []. simpl. auto.
  - destruct (succs g x) as [|b t] eqn:E.
    + left. exists x. split; auto. apply rp_refl.
    + destruct (IH b) as [[y [Hy1 Hy2]]|[l [Hl Hc]]].
      * left. exists y. split; auto. apply (rpath_step_l _ x b); auto. rewrite E. left; auto.
      * right. exists (b :: l). split; [simpl; lia|]. split; auto. rewrite E. left; auto. Qed.
Lemma reach_sink g x : gwf g -> acyclic g -> In x (g_nodes g) ->
  exists y, rpath (succs g) x y /\ succs g y = [].
Proof. intros H Ha Hx. destruct (sink_or_chain g (length (g_nodes g)) x) as [?|[l [Hl Hc]]]; auto.
  exfalso. destruct (chain_repeat_cycle g (x :: l) Hc) as [z Hz].
  - apply incl_longer_not_NoDup with (u := g_nodes g); [apply chain_in_nodes; auto|simpl; lia].
  - apply (Ha z); auto. Qed.
Lemma rpath_nodes g a b : gwf g -> In a (g_nodes g) -> rpath (succs g) a b -> In b (g_nodes g).
Proof. intros H Ha. induction 1; auto. apply (gwf_in g H) in H1. tauto. Qed.

(* ---------- dedup_by for any decidable equality ---------- *)
Lemma dedup_by_In_gen {A} (eqb : A -> A -> bool) (Heq : forall a b, eqb a b = true <-> a = b) x l :
  In x (dedup_by eqb l) <-> In x l.
Proof. induction l as [|a l IH]; simpl; [tauto|]. rewrite filter_In, IH.
  destruct (eqb a x) eqn:E.
  - apply Heq in E. subst. simpl. intuition discriminate.
  - simpl. split; [intros [H|[H _]]; auto|]. intros [H|H]; auto. Qed.
