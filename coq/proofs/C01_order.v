(* C01 (register hazards respected).  Part 1: conflicting accesses occur in program order -- read off
   C02: an entry shown 'U' is not `blocked`, and `blocked` quantifies over exactly the older conflicting
   accesses.  Part 2 (C01_replay.v): replaying the diagram gives sequential operands. *)
From Coq Require Import Lia.
From PS Require Import Base Bag RegAccess Sim Diag Lists Run C03_lists C03_step
                       HZ_queue HZ_plan HZ_diag HZ_haz HZ_inv C02_proof.

Lemma occ_lt d t u (e : entry) : In e (occ d t u) -> t < length d.
Proof. intros H. destruct (Nat.lt_ge_cases t (length d)) as [|Hge]; auto.
  unfold occ, rec_at in H. rewrite nth_overflow in H by auto. destruct H. Qed.

(* an entry shown 'U' was not blocked *)
Lemma unblocked P prog s t u j : wf_procb P = true -> wf_progb prog = true -> reach P prog s ->
  In (j, LU) (occ (tbl s) t u) -> blocked P prog (tbl s) t j u = false.
Proof. intros Hwf Hwp Hr Hin. pose proof (occ_lt _ _ _ _ Hin) as Ht.
  pose proof (C02_entry_reach P prog s Hwf Hwp Hr t u (j, LU) Ht Hin) as H.
  unfold C02_entry_ok in H. cbn [fst snd] in H.
  destruct (lab_in (prev_occ (tbl s) t u) j) as [[| |]|]; try discriminate;
    destruct (blocked P prog (tbl s) t j u); auto; discriminate. Qed.

Lemma order_core P prog s tj u i j ki kj : wf_procb P = true -> wf_progb prog = true -> reach P prog s ->
  In (j, LU) (occ (tbl s) tj u) -> lockb P kj u = true -> i < j -> In (ki, kj) (conflicts prog i j) ->
  done_before P (tbl s) i ki tj = true.
Proof. intros Hwf Hwp Hr Hin Hlk Hij Hc. pose proof (unblocked P prog s tj u j Hwf Hwp Hr Hin) as Hb.
  unfold blocked in Hb. apply orb_false_iff in Hb. destruct Hb as [Hb1 Hb2].
  assert (Hi : In i (seq 0 j)) by (apply in_seq; lia).
  unfold conflicts in Hc. rewrite !in_app_iff in Hc. destruct Hc as [Hc|[Hc|Hc]].
  - destruct (mem_str (dst_of prog i) (srcs_of prog j)) eqn:E; [|destruct Hc]. destruct Hc as [Hc|[]].
    inversion Hc; subst. cbn [lockb] in Hlk. rewrite Hlk in Hb1. cbn [andb] in Hb1.
    rewrite existsb_false in Hb1. apply mem_str_In in E. specialize (Hb1 _ E). rewrite existsb_false in Hb1.
    specialize (Hb1 i Hi). rewrite String.eqb_refl in Hb1. cbn [andb] in Hb1. apply negb_false_iff in Hb1. auto.
  - destruct (mem_str (dst_of prog j) (srcs_of prog i)) eqn:E; [|destruct Hc]. destruct Hc as [Hc|[]].
    inversion Hc; subst. cbn [lockb] in Hlk. rewrite Hlk in Hb2. cbn [andb] in Hb2.
    rewrite existsb_false in Hb2. specialize (Hb2 i Hi). apply orb_false_iff in Hb2. destruct Hb2 as [Hb2 _].
    rewrite E in Hb2. cbn [andb] in Hb2. apply negb_false_iff in Hb2. auto.
  - destruct (String.eqb (dst_of prog i) (dst_of prog j)) eqn:E; [|destruct Hc]. destruct Hc as [Hc|[]].
    inversion Hc; subst. cbn [lockb] in Hlk. rewrite Hlk in Hb2. cbn [andb] in Hb2.
    rewrite existsb_false in Hb2. specialize (Hb2 i Hi). apply orb_false_iff in Hb2. destruct Hb2 as [_ Hb2].
    rewrite E in Hb2. cbn [andb] in Hb2. apply negb_false_iff in Hb2. auto. Qed.

Lemma reach_Kq P prog s t : wf_procb P = true -> wf_progb prog = true -> reach P prog s ->
  t < length (tbl s) -> Kq (rec_at (tbl s) t) /\ Uq (rec_at (tbl s) t).
Proof. intros Hwf Hwp Hr Ht. destruct (inv_reach P prog Hwf Hwp s Hr) as ((HC & _) & _ & _).
  rewrite Forall_forall in HC. destruct (HC (rec_at (tbl s) t)) as (K & U & _); [apply nth_In; auto|auto]. Qed.

(* performs_at in Prop form *)
Lemma performs_at_iff P prog s t i k : wf_procb P = true -> wf_progb prog = true -> reach P prog s ->
  t < length (tbl s) ->
  (performs_at P (tbl s) t i k = true <-> exists u, In (i, LU) (occ (tbl s) t u) /\ lockb P k u = true).
Proof. intros Hwf Hwp Hr Ht. rewrite performs_at_rec. apply perf_rec_iff. eapply reach_Kq; eauto. Qed.

Lemma order_reach P prog s i j ki kj tj : wf_procb P = true -> wf_progb prog = true -> reach P prog s ->
  i < j -> In (ki, kj) (conflicts prog i j) -> acc_time P (tbl s) j kj = Some tj ->
  exists ti, acc_time P (tbl s) i ki = Some ti /\ ti < tj.
Proof. intros Hwf Hwp Hr Hij Hc Ha. apply acc_time_some in Ha. destruct Ha as (Ht & Hp & _).
  apply (performs_at_iff P prog s tj j kj Hwf Hwp Hr Ht) in Hp. destruct Hp as (u & Hin & Hlk).
  pose proof (order_core P prog s tj u i j ki kj Hwf Hwp Hr Hin Hlk Hij Hc) as Hd.
  unfold done_before in Hd. destruct (acc_time P (tbl s) i ki) as [a|]; [|discriminate].
  exists a. split; auto. apply Nat.ltb_lt; auto. Qed.

Lemma C01_hazard_order_lemma :
  forall (P : proc) (prog : list instr) (fuel : nat) (tg : dtag) (d : diagram),
    wf_procb P = true -> wf_progb prog = true -> sim_result fuel P prog tg d ->
    forall i j ki kj tj, i < j -> j < length prog -> In (ki, kj) (conflicts prog i j) ->
      (exists u, In (j, LU) (occ d tj u) /\ (match kj with RD => has_rl P u | WR => has_wl P u end) = true) ->
      exists ti, ti < tj /\
        (exists u, In (i, LU) (occ d ti u) /\ (match ki with RD => has_rl P u | WR => has_wl P u end) = true).
Proof. intros P prog fuel tg d Hwf Hwp Hsim i j ki kj tj Hij Hj Hc (u & Hin & Hlk).
  destruct (sim_reach _ _ _ _ _ Hsim) as (s & Hr & <-).
  pose proof (order_core P prog s tj u i j ki kj Hwf Hwp Hr Hin Hlk Hij Hc) as Hd.
  unfold done_before in Hd. destruct (acc_time P (tbl s) i ki) as [a|] eqn:Ea; [|discriminate].
  apply Nat.ltb_lt in Hd. exists a. split; auto. apply acc_time_some in Ea. destruct Ea as (Ht & Hp & _).
  apply (performs_at_iff P prog s a i ki Hwf Hwp Hr Ht) in Hp. exact Hp. Qed.

Lemma C01_order_reach P prog s : wf_procb P = true -> wf_progb prog = true -> reach P prog s ->
  C01_order_checkb P prog (tbl s) = true.
Proof. intros Hwf Hwp Hr. unfold C01_order_checkb. apply forallb_forall. intros j Hj. apply in_seq in Hj.
  apply forallb_forall. intros i Hi. apply in_seq in Hi. apply forallb_forall. intros [ki kj] Hc.
  unfold ordered_pair. cbn [fst snd]. destruct (acc_time P (tbl s) j kj) as [tj|] eqn:Ea; auto.
  destruct (order_reach P prog s i j ki kj tj Hwf Hwp Hr) as (ti & -> & Hlt); auto; [lia|]. apply Nat.ltb_lt; auto. Qed.

Lemma C01_order_accepts_lemma :
  forall (P : proc) (prog : list instr) (fuel : nat) (tg : dtag) (d : diagram),
    wf_procb P = true -> wf_progb prog = true -> sim_result fuel P prog tg d -> C01_order_checkb P prog d = true.
Proof. intros P prog fuel tg d Hwf Hwp Hsim. destruct (sim_reach _ _ _ _ _ Hsim) as (s & Hr & <-).
  apply C01_order_reach; auto. Qed.
